import BronVerif.Drive.Common
import BronVerif.Model.Joint
/-! Driver handlers for C07 (paired runs: which messages / joint values change when one party's
    random stream is replaced).  Line formats: see harness/c07.go. -/
namespace BronVerif.Drive.C07
open BronVerif BronVerif.Drive BronVerif.Joint BronVerif.Draws

/-- `key=value` argument -/
def argVal (args : List String) (key : String) : Option String :=
  args.findSome? fun a => if a.startsWith (key ++ "=") then some (a.drop (key.length + 1)).toString else none

def rhsVal (rhs : String) (key : String) : Option String := argVal (rhs.splitOn " ") key

def parseIds (s : String) : Option (List Nat) := (splitComma s).mapM String.toNat?

/-- `name=flag` items -/
def parseFlags (s : String) : List (String × String) :=
  (splitComma s).map fun it =>
    match it.splitOn "=" with
    | [a, b] => (a, b)
    | _ => (it, "?")

/-- the verdict for one observed flag against the model's demand; `none` = fine -/
def judge (what : String) (e : Exp) (flag : String) : Option Verdict :=
  match e, flag with
  | .free, "c" => none
  | .free, "s" => none
  | .mustChange, "c" => none
  | .mustChange, "s" => some (.bad "unchanged" (what ++ " does not change although it must depend on the changed party's stream"))
  | .mustSame, "s" => none
  | .mustSame, "c" => some (.bad "first-message-changed" (what ++ " is another party's first message and changed with a stream it cannot depend on"))
  | .change, "c" => none
  | .same, "s" => none
  | .change, "s" => some (.diff (what ++ "=c"))
  | .same, "c" => some (.diff (what ++ "=s"))
  | _, f => some (.diff (what ++ " flag " ++ f))

/-- first `bad`, else first other failure, else ok -/
def combine (vs : List (Option Verdict)) : Verdict :=
  let fs := vs.filterMap id
  match fs.find? (fun v => match v with | .bad .. => true | _ => false) with
  | some b => b
  | none => fs.headD .ok

def handlePair (name cfg : String) (ids : List Nat) (c : Nat) (rhs : String) : Verdict :=
  match lookup name cfg ids, rhsVal rhs "status", rhsVal rhs "msgs", rhsVal rhs "joint" with
  | some spec, some status, some msgs, some joint =>
    if status != "ok" then .diff "status=ok" else
    let want := slots ids spec.rounds
    let got := parseFlags msgs
    if want.map Slot.name != got.map (·.1) then
      .diff ("slots=" ++ joinComma (want.map Slot.name))
    else
      let gotJ := parseFlags joint
      if spec.joint.map (·.name) != gotJ.map (·.1) then
        .diff ("joint=" ++ joinComma (spec.joint.map (·.name)))
      else
        combine ((want.zip got).map (fun (s, g) => judge ("message " ++ s.name) (s.expect c) g.2) ++
                 (spec.joint.zip gotJ).map (fun (j, g) => judge ("joint value " ++ j.name) (j.expect c) g.2))
  | none, _, _, _ => .unsupported ("C07 protocol " ++ name)
  | _, _, _, _ => .unsupported "C07 pair: malformed result"

/-- identical streams: everything is identical, except schedule-dependent messages -/
def handleDet (name cfg : String) (ids : List Nat) (rhs : String) : Verdict :=
  match lookup name cfg ids, rhsVal rhs "status", rhsVal rhs "diff", rhsVal rhs "joint" with
  | some spec, some status, some diff, some joint =>
    if status != "ok" then .diff "status=ok" else
    let sched := ((slots ids spec.rounds).filter (·.dep == .ownSched)).map Slot.name
    let unexpected := (splitComma diff).filter (!sched.contains ·)
    if !unexpected.isEmpty then
      .bad "not-a-function-of-the-streams" ("messages differ between two runs with identical streams: " ++ joinComma unexpected)
    else if !(splitComma joint).isEmpty then
      .bad "not-a-function-of-the-streams" ("joint values differ between two runs with identical streams: " ++ joint)
    else .ok
  | none, _, _, _ => .unsupported ("C07 protocol " ++ name)
  | _, _, _, _ => .unsupported "C07 det: malformed result"

def handleReads (name cfg : String) (ids : List Nat) (rhs : String) : Verdict :=
  match lookup name cfg ids with
  | none => .unsupported ("C07 protocol " ++ name)
  | some spec =>
    let got := parseFlags rhs
    if got.map (·.1) != ids.map toString then .diff ("parties=" ++ joinComma (ids.map toString)) else
    combine ((ids.zip got).map fun (id, g) =>
      let want := (spec.reads id).toList
      let bits := g.2.toList
      if want.length != bits.length then some (.diff s!"{id}={spec.reads id}") else
      -- a step that samples a named secret and draws nothing
      if (want.zip bits).any (fun (w, b) => w == 'S' && b != '1') then
        some (.bad "no-bytes-drawn" s!"party {id} draws no bytes from its stream in a step that samples a secret (expected {spec.reads id}, observed {g.2})")
      else if (want.zip bits).any (fun (w, b) => (w == '0') != (b == '0')) then some (.diff s!"{id}={spec.reads id}")
      else none)

def handleSeq (rhs : String) : Verdict :=
  match rhsVal rhs "first", rhsVal rhs "joint" with
  | some f, some j =>
    if f != "distinct" then .bad "first-message-repeat" "a first message / nonce commitment repeats across consecutive sessions"
    else if j != "distinct" then .bad "nonce-repeat" "the joint nonce value repeats across consecutive sessions"
    else .ok
  | _, _ => .unsupported "C07 seq: malformed result"

/-- `<id>=<step>/<step>/…` for every party: the reads of every executed step against the consumption
    specification.  Fewer bytes than the entropy of the step's secrets is a violation of the property;
    any other difference from the mirrored multiset is a correspondence failure. -/
def handleDraws (name cfg : String) (ids : List Nat) (d : Nat) (rhs : String) : Verdict :=
  match lookup name cfg ids with
  | none => .unsupported ("C07 protocol " ++ name)
  | some spec =>
    let got := parseFlags rhs
    if got.map (·.1) != ids.map toString then .diff ("parties=" ++ joinComma (ids.map toString)) else
    combine ((ids.zip got).flatMap fun (id, g) =>
      let need := spec.need d id
      let steps := g.2.splitOn "/"
      if need.isEmpty then [some (.unsupported s!"C07 draws: no consumption table for {name}")] else
      if need.length != steps.length then [some (.diff s!"{id}: {need.length} steps")] else
      (need.zip steps).zipIdx.map fun ((n, st), k) =>
        match Obs.parse? st with
        | none => some (.unsupported ("C07 draws: step " ++ st))
        | some obs =>
          match judgeStep (n.draws (spec.peers id)) obs with
          | .ok => none
          | .below m o => some (.bad "draws-below-secrets"
              s!"party {id} step {k} reads {o} bytes from its stream but the secrets of that step ({";".intercalate ((n.draws (spec.peers id)).filterMap fun x => if x.min == 0 || x.count == 0 then none else some s!"{x.count}x {x.what}")}) need at least {m}")
          | .differs e => some (.diff s!"{id}/step{k}={e}"))

def leafAllowed (allow : List String) (leaf : String) : Bool :=
  allow.any fun a => if a.endsWith "*" then leaf.startsWith (a.dropEnd 1).toString else a == leaf

/-- per-recipient material of one sender and round: a long leaf value sent to two recipients (or twice
    to one) although the table does not list its pattern as shared -/
def handlePercpt (name cfg : String) (ids : List Nat) (rhs : String) : Verdict :=
  match lookup name cfg ids, rhsVal rhs "groups", rhsVal rhs "leaves", rhsVal rhs "repeats" with
  | some spec, some groups, some leaves, some reps =>
    let bad := (splitComma reps).filter fun r =>
      let body := if r.startsWith "dup:" then (r.drop 4).toString else r
      match body.splitOn ":" with
      | [_, pat] => !spec.sharedLeaves.contains pat
      | _ => true
    if !bad.isEmpty then
      .bad "per-recipient-secret-repeat" ("the same value is sent to different recipients (or twice) where every recipient must get its own independent secret: " ++ joinComma bad)
    else if groups.toNat?.getD 0 == 0 || leaves.toNat?.getD 0 == 0 then .diff "groups>0 leaves>0"
    else .ok
  | none, _, _, _ => .unsupported ("C07 protocol " ++ name)
  | _, _, _, _ => .unsupported "C07 percpt: malformed result"

/-- the changed party's own long leaves that kept their value although its stream was replaced -/
def handleLeaf (name cfg : String) (ids : List Nat) (c : Nat) (rhs : String) : Verdict :=
  match lookup name cfg ids, rhsVal rhs "leaves", rhsVal rhs "same" with
  | some spec, some leaves, some same =>
    let items := splitComma same
    let bad := items.filter fun it => !it.startsWith "more:" && !leafAllowed spec.publicLeaves it
    if !bad.isEmpty then
      .bad "secret-leaf-unchanged" (s!"values in party {c}'s own messages do not change although its random stream was replaced: " ++ joinComma bad)
    else if items.any (·.startsWith "more:") then .diff "same=(short list)"
    else
      -- non-vacuity: a party whose table has a randomised message must have had leaves compared
      let sends := (slots ids spec.rounds).any fun s => s.from_ == c && s.dep.usesOwn
      if sends && leaves.toNat?.getD 0 == 0 then .diff "leaves>0" else .ok
  | none, _, _ => .unsupported ("C07 protocol " ++ name)
  | _, _, _ => .unsupported "C07 leaf: malformed result"

def handle (op : String) (args : List String) (rhs : String) : Verdict :=
  match args with
  | name :: cfg :: rest =>
    match (argVal rest "ids").bind parseIds with
    | none => .unsupported "C07: ids"
    | some ids =>
      match op with
      | "pair" =>
        match (argVal rest "changed").bind String.toNat? with
        | some c => handlePair name cfg ids c rhs
        | none => .unsupported "C07 pair: changed"
      | "det" => handleDet name cfg ids rhs
      | "reads" => handleReads name cfg ids rhs
      | "draws" =>
        match (argVal rest "d").bind String.toNat? with
        | some d => handleDraws name cfg ids d rhs
        | none => .unsupported "C07 draws: d"
      | "percpt" => handlePercpt name cfg ids rhs
      | "leaf" =>
        match (argVal rest "changed").bind String.toNat? with
        | some c => handleLeaf name cfg ids c rhs
        | none => .unsupported "C07 leaf: changed"
      | "seq" => handleSeq rhs
      | _ => .unsupported ("C07 op " ++ op)
  | _ => .unsupported ("C07 op " ++ op)

end BronVerif.Drive.C07
