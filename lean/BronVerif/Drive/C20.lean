import BronVerif.Drive.Common
import BronVerif.Model.LinAlg
import BronVerif.Drive.C20Poly
/-! Driver handlers for C20 (linear algebra and interpolation). -/
namespace BronVerif.Drive.C20
open BronVerif BronVerif.Drive BronVerif.LinAlg

def renderOpt {p : Nat} (r : Option (List (Fp p))) : String :=
  match r with
  | none => "none"
  | some xs => "ok:" ++ fpHexList xs

def parseMat {p : Nat} [NeZero p] (rows cols : Nat) (s : String) : Option (Mat (Fp p)) := do
  let xs ← parseNatList? s
  if xs.length ≠ rows * cols then none
  if cols = 0 then return List.replicate rows []
  return chunk (fpList xs) cols

def renderMat {p : Nat} (m : Mat (Fp p)) : String := joinComma (m.flatten.map Fp.toHex)

def handle (op : String) (args : List String) (rhs : String) : Verdict :=
  match op, args with
  | "solveRight", [ps, rs, cs, ms, bs] =>
    match hexToNat? ps, rs.toNat?, cs.toNat?, parseNatList? bs with
    | some p, some r, some c, some b => withPrime p (.unsupported "p=0") fun q => 
      match parseMat (p := q) r c ms with
      | none => .unsupported "matrix"
      | some m =>
        let bq : List (Fp q) := fpList b
        let model := solveRight m c bq
        -- property oracle on the implementation's answer: A x = b, and "none" only if unsolvable
        if rhs.startsWith "ok:" then
          match parseNatList? (rhs.drop 3).toString with
          | none => .unsupported "rhs"
          | some x =>
            let xq : List (Fp q) := fpList x
            if xq.length ≠ c ∨ mulVec m xq ≠ bq then .bad "solveRight-wrong-solution" ("A x != b; model=" ++ renderOpt model)
            else mirror (renderOpt model) rhs
        else if rhs == "none" then
          match model with
          | some x => .bad "solveRight-missed-solution" ("solvable: x=" ++ fpHexList x)
          | none => .ok
        else mirror (renderOpt model) rhs
    | _, _, _, _ => .unsupported "args"
  | "solveLeft", [ps, rs, cs, ms, bs] =>
    match hexToNat? ps, rs.toNat?, cs.toNat?, parseNatList? bs with
    | some p, some r, some c, some b => withPrime p (.unsupported "p=0") fun q => 
      match parseMat (p := q) r c ms with
      | none => .unsupported "matrix"
      | some m =>
        let bq : List (Fp q) := fpList b
        let model := solveLeft m c bq
        if rhs.startsWith "ok:" then
          match parseNatList? (rhs.drop 3).toString with
          | none => .unsupported "rhs"
          | some x =>
            let xq : List (Fp q) := fpList x
            let prod : List (Fp q) := (List.range c).map fun j => dot xq (m.map fun row => row.getD j 0)
            if xq.length ≠ r ∨ prod ≠ bq then .bad "solveLeft-wrong-solution" ("x A != b; model=" ++ renderOpt model)
            else mirror (renderOpt model) rhs
        else if rhs == "none" then
          match model with
          | some x => .bad "solveLeft-missed-solution" ("solvable: x=" ++ fpHexList x)
          | none => .ok
        else mirror (renderOpt model) rhs
    | _, _, _, _ => .unsupported "args"
  | "det", [ps, ns, ms] =>
    match hexToNat? ps, ns.toNat? with
    | some p, some n => withPrime p (.unsupported "p=0") fun q =>
      match parseMat (p := q) n n ms with
      | none => .unsupported "matrix"
      | some m => spec "det" (det m).toHex rhs
    | _, _ => .unsupported "args"
  | "inv", [ps, ns, ms] =>
    match hexToNat? ps, ns.toNat? with
    | some p, some n => withPrime p (.unsupported "p=0") fun q =>
      match parseMat (p := q) n n ms with
      | none => .unsupported "matrix"
      | some m =>
        let model := match inverse m with
          | none => "none"
          | some mi => "ok:" ++ renderMat mi
        spec "inv" model rhs
    | _, _ => .unsupported "args"
  | "mul", [ps, rs, ks, cs, as, bs] =>
    match hexToNat? ps, rs.toNat?, ks.toNat?, cs.toNat? with
    | some p, some r, some k, some c => withPrime p (.unsupported "p=0") fun q =>
      match parseMat (p := q) r k as, parseMat (p := q) k c bs with
      | some a, some b =>
        -- `LinAlg.mul` (the definition `Props.C20.mul_eq` / `mul_assoc` are about) reads the column count
        -- off the first row of `b`; the Go constructors admit no 0-dimensional matrices
        let prod : Mat (Fp q) := if k = 0 ∨ c = 0 then List.replicate r (List.replicate c 0) else mul a b
        spec "mul" (renderMat prod) rhs
      | _, _ => .unsupported "matrix"
    | _, _, _, _ => .unsupported "args"
  -- refusals outside the property's domain (result class only, mirrored)
  | "newModule", [_, rs, cs] =>
    match rs.toNat?, cs.toNat? with
    | some r, some c => mirror (if r = 0 ∨ c = 0 then "err:dim" else "ok") rhs
    | _, _ => .unsupported "args"
  | "newAlgebra", [_, ns] =>
    match ns.toNat? with
    | some n => mirror (if n = 0 then "err:dim" else "ok") rhs
    | _ => .unsupported "args"
  | "solveRightDim", [_, ms, _, brs, bcs] =>
    match ms.toNat?, brs.toNat?, bcs.toNat? with
    | some m, some br, some bc =>
      if bc ≠ 1 ∨ br ≠ m then mirror "err:dim" rhs else .unsupported "solveRightDim on matching dimensions"
    | _, _, _ => .unsupported "args"
  | "solveLeftDim", [_, _, ns, rrs, rcs] =>
    match ns.toNat?, rrs.toNat?, rcs.toNat? with
    | some n, some rr, some rc =>
      if rr ≠ 1 ∨ rc ≠ n then mirror "err:dim" rhs else .unsupported "solveLeftDim on matching dimensions"
    | _, _, _ => .unsupported "args"
  | "mulDim", [_, _, ns, k2s, _] =>
    match ns.toNat?, k2s.toNat? with
    | some n, some k2 =>
      if n ≠ k2 then mirror "err:dim" rhs else .unsupported "mulDim on matching dimensions"
    | _, _ => .unsupported "args"
  | _, _ => C20Poly.handle op args rhs

end BronVerif.Drive.C20
