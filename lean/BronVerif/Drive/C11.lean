import BronVerif.Drive.Common
import BronVerif.Model.Router
import BronVerif.Model.Echo
/-! Driver handlers for C11 (router traces, namespacing, echo broadcast, runner consistency). -/
namespace BronVerif.Drive.C11
open BronVerif BronVerif.Drive BronVerif.Router BronVerif.Router.Sched

abbrev Ev := Event String String
abbrev Res := Result String

/-! ### parsing -/

def parseIds? (s : String) : Option (List Nat) := (splitComma s).mapM String.toNat?

def floodItems (sender n : Nat) (tag : String) : List (Item String String) :=
  (List.range n).map fun i => .msg sender (tag ++ toString i) "00"

def parseEvent? (tok : String) : Option Ev :=
  match tok.splitOn ":" with
  | ["d", f, cid, p] => do let f ← f.toNat?; pure (.enqueue [.msg f cid p])
  | ["g", f] => do let f ← f.toNat?; pure (.enqueue [.garbage f])
  | ["e"] => some (.enqueue [.err])
  | ["f", f, n, tag] => do let f ← f.toNat?; let n ← n.toNat?; pure (.enqueue (floodItems f n tag))
  | ["r", rid, cid, exp] => do let rid ← rid.toNat?; let exp ← parseIds? exp; pure (.recv rid cid exp false)
  | ["r", rid, cid, exp, "p"] => do let rid ← rid.toNat?; let exp ← parseIds? exp; pure (.recv rid cid exp true)
  | ["c", rid] => do let rid ← rid.toNat?; pure (.cancel rid)
  | ["x"] => some .close
  | _ => none

/-! ### rendering -/

def insertSorted {α} (lt : α → α → Bool) (a : α) : List α → List α
  | [] => [a]
  | b :: l => if lt a b then a :: b :: l else b :: insertSorted lt a l

def sortBy {α} (lt : α → α → Bool) (l : List α) : List α := l.foldl (fun acc a => insertSorted lt a acc) []

def renderFatal : Fatal → String
  | .closed => "closed" | .full => "full" | .decode => "decode" | .transport => "transport"

def renderMap (m : List (Nat × String)) : String :=
  joinComma ((sortBy (fun a b => a.1 < b.1) m).map fun e => toString e.1 ++ "=" ++ e.2)

def renderRes : Res → String
  | .complete m => "ok:" ++ renderMap m
  | .poisoned b => "poison:" ++ toString b
  | .fatal k => "fatal:" ++ renderFatal k
  | .cancelled => "cancelled"
  | .concurrent => "concurrent"

/-- `(rid, some k, res)` returned after event `k`; `(rid, none, "blocked")` -/
def renderResults (rs : List (Nat × Option Nat × String)) : String :=
  let rs := sortBy (fun a b => a.1 < b.1) rs
  if rs.isEmpty then "-" else
  ";".intercalate (rs.map fun (rid, k, r) =>
    toString rid ++ "@" ++ (match k with | some k => toString k | none => "-") ++ "=" ++ r)

def parseResults? (s : String) : Option (List (Nat × Option Nat × String)) :=
  if s == "-" then some [] else
  (s.splitOn ";").mapM fun t =>
    match t.splitOn "=" with
    | hd :: rest =>
      match hd.splitOn "@" with
      | [rid, k] => do
        let rid ← rid.toNat?
        let k ← if k == "-" then pure none else (k.toNat?).map some
        pure (rid, k, "=".intercalate rest)
      | _ => none
    | _ => none

def parseMap? (s : String) : Option (List (Nat × String)) :=
  (splitComma s).mapM fun t =>
    match t.splitOn "=" with
    | [a, b] => do let a ← a.toNat?; pure (a, b)
    | _ => none

/-! ### model run -/

def modelResults (cfg : Config) (evs : List Ev) : Option (List (Nat × Option Nat × String)) :=
  let l := runEvents cfg evs
  -- the scheduler only ever applied `step`: its state is `run cfg steps init`
  let s := run cfg l.steps.reverse (init : State String String)
  if s.log ≠ l.core.log ∨ s.entries ≠ l.core.entries ∨ s.buffered ≠ l.core.buffered then none else
  some (l.results.map (fun (rid, k, r) => (rid, some k, renderRes r)) ++
        l.active.map (fun a => (a.1, none, "blocked")))

/-! ### property oracles on the implementation's answer (independent of the model run) -/

/-- all well-formed deliveries of the trace, in enqueue order -/
def deliveries (evs : List Ev) : List (Nat × String × String) :=
  evs.flatMap fun
    | .enqueue items => items.filterMap fun
        | .msg f c p => some (f, c, p)
        | _ => none
    | _ => []

def recvOf (evs : List Ev) (rid : Nat) : Option (String × List Nat) :=
  evs.findSome? fun
    | .recv r cid exp _ => if r = rid then some (cid, exp) else none
    | _ => none

def sameSet (a b : List Nat) : Bool := a.all (b.contains ·) && b.all (a.contains ·)

/-- checks one implementation result against the property; `firstOnCid` says whether no earlier
receive on the same correlation ID completed (one exchange per ID) -/
def oracle (cfg : Config) (evs : List Ev) (rid : Nat) (res : String) (firstOnCid : Bool) : Option (String × String) :=
  match recvOf evs rid with
  | none => some ("unknown-receive", toString rid)
  | some (cid, exp) =>
    let ds := deliveries evs
    if res.startsWith "ok:" then
      match parseMap? (res.drop 3).toString with
      | none => some ("unparsable-result", res)
      | some m =>
        if ¬ sameSet (m.map (·.1)) exp then some ("wrong-sender-set", "receive " ++ toString rid ++ " returned " ++ res)
        else
          m.findSome? fun (id, p) =>
            if ¬ cfg.members.contains id then some ("non-member-payload", "receive " ++ toString rid ++ " sender " ++ toString id)
            else if ¬ ds.any (fun d => d.1 = id ∧ d.2.1 = cid ∧ d.2.2 = p) then
              some ("foreign-payload", "receive " ++ toString rid ++ " on " ++ cid ++ " returned " ++ p ++ " for sender " ++ toString id ++ " who never sent it under that id")
            else if firstOnCid then
              match ds.find? (fun d => d.1 = id ∧ d.2.1 = cid) with
              | some d => if d.2.2 = p then none else
                  some ("not-first-payload", "receive " ++ toString rid ++ " sender " ++ toString id ++ " expected " ++ d.2.2 ++ " got " ++ p)
              | none => none
            else none
    else if res.startsWith "poison:" then
      match (res.drop 7).toString.toNat? with
      | none => some ("unparsable-result", res)
      | some b =>
        let mine := ds.filter fun d => d.1 = b ∧ d.2.1 = cid
        let conflicting := mine.any fun d => mine.any fun d' => d.2.2 ≠ d'.2.2
        if cfg.members.contains b ∧ conflicting then none
        else some ("honest-blamed", "receive " ++ toString rid ++ " blames " ++ toString b ++ " who sent no conflicting payloads under " ++ cid)
    else none

def checkTrace (cfg : Config) (evs : List Ev) (rhs : String) (ignoreWhen : Bool) : Verdict :=
  match parseResults? rhs, modelResults cfg evs with
  | none, _ => .unsupported "rhs"
  | _, none => .unsupported "sched-internal"
  | some impl, some model =>
    -- 1. oracles on every implementation result
    let rec go (rs : List (Nat × Option Nat × String)) (done : List String) : Option (String × String) :=
      match rs with
      | [] => none
      | (rid, _, res) :: rest =>
        let cid := (recvOf evs rid).map (·.1)
        let first := match cid with | some c => ¬ done.contains c | none => true
        match oracle cfg evs rid res first with
        | some b => some b
        | none => go rest (if res.startsWith "ok:" then (match cid with | some c => c :: done | none => done) else done)
    -- order by return time so that "first completed on the cid" is meaningful
    let byTime := sortBy (fun a b => a.2.1.getD 1000000000 * 100000 + a.1 < b.2.1.getD 1000000000 * 100000 + b.1) impl
    match go byTime [] with
    | some (k, why) => .bad k why
    | none =>
      -- 2. model-relative property clauses
      let viol := impl.findSome? fun (rid, _, res) =>
        match model.find? (·.1 = rid) with
        | none => none
        | some (_, _, mres) =>
          if res == "blocked" ∧ mres != "blocked" then
            some ("deadlock", "receive " ++ toString rid ++ " still blocked although the model returns " ++ mres)
          else if mres.startsWith "poison:" ∧ res.startsWith "ok:" then
            some ("conflict-accepted", "receive " ++ toString rid ++ " returned " ++ res ++ " although " ++ mres)
          else none
      match viol with
      | some (k, why) => .bad k why
      | none =>
        if ignoreWhen then
          let strip := fun (rs : List (Nat × Option Nat × String)) => rs.map fun (rid, k, r) => (rid, k.map (fun _ => 0), r)
          mirror (renderResults (strip model)) (renderResults (strip impl))
        else mirror (renderResults model) (renderResults impl)

/-! ### echo -/

def lookupStr (k : String) (m : List (String × String)) : Option String := (m.find? (·.1 = k)).map (·.2)

def parseKV? (s : String) : Option (List (String × String)) :=
  (splitComma s).mapM fun t =>
    match t.splitOn "=" with
    | [a, b] => some (a, b)
    | _ => none

def checkEcho (quorum honest : List Nat) (msgs byz1 byz2 : List (String × String)) (rhs : String) : Verdict :=
  let H : String → String := fun v => "h" ++ v
  -- payload party p holds for sender s after round 1
  let r1 := fun (p s : Nat) =>
    if honest.contains s then (lookupStr (toString s) msgs).getD "?"
    else (lookupStr (toString s ++ ">" ++ toString p) byz1).getD "?"
  -- digest echoer e reported to p for sender s
  let echo := fun (p e s : Nat) =>
    if honest.contains e then Echo.honestEcho H (r1 e) s
    else (lookupStr (toString e ++ ">" ++ toString p ++ ":" ++ toString s) byz2).getD "z"
  let model := ";".intercalate (honest.map fun p =>
    toString p ++ "=" ++ (match Echo.round3 H quorum p (r1 p) (echo p) with
      | some m => "ok:" ++ renderMap m
      | none => "fail"))
  -- agreement oracle on the implementation's answer
  let impl : List (Nat × List (Nat × String)) := (rhs.splitOn ";").filterMap fun t =>
    match t.splitOn "=ok:" with
    | [p, m] => do let p ← p.toNat?; let m ← parseMap? m; pure (p, m)
    | _ => none
  let dis := impl.findSome? fun (p, mp) => impl.findSome? fun (q, mq) =>
    mp.findSome? fun (s, v) =>
      match mq.find? (·.1 = s) with
      | some (_, v') => if v ≠ v' then some ("parties " ++ toString p ++ " and " ++ toString q ++ " accepted " ++ v ++ " and " ++ v' ++ " from " ++ toString s) else none
      | none => none
  match dis with
  | some why => .bad "echo-disagreement" why
  | none => mirror model rhs

/-! ### dispatch -/

def handle (op : String) (args : List String) (rhs : String) : Verdict :=
  match op, args with
  | "tr", ms :: bs :: evs =>
    match parseIds? ms, bs.toNat?, evs.mapM parseEvent? with
    | some members, some bound, some evs => checkTrace { members, bound } evs rhs false
    | _, _, _ => .unsupported "args"
  | "stress", ms :: bs :: evs =>
    match parseIds? ms, bs.toNat?, evs.mapM parseEvent? with
    | some members, some bound, some evs => checkTrace { members, bound } evs rhs true
    | _, _, _ => .unsupported "args"
  | "send", [path, cid, msgs] =>
    match parseMap? msgs with
    | none => .unsupported "args"
    | some m =>
      let w := String.ofList (wire ((splitComma path).map String.toList) cid.toList)
      spec "namespace-wire-id" (joinComma ((sortBy (fun a b => a.1 < b.1) m).map fun (to, p) =>
        toString to ++ ":" ++ w ++ ":" ++ p)) rhs
  | "echo", [qs, hs, msgs, b1, b2] =>
    match parseIds? qs, parseIds? hs, parseKV? msgs, parseKV? b1, parseKV? b2 with
    | some q, some h, some m, some b1, some b2 => checkEcho q h m b1 b2 rhs
    | _, _, _, _, _ => .unsupported "args"
  | "run", [_proto, ns, _variant] =>
    -- rhs: <round-by-round sample>|<p=sample,...> ; the runner outputs must all equal the
    -- round-by-round output
    match ns.toNat?, rhs.splitOn "|" with
    | some n, [ref, outs] =>
      match parseKV? outs with
      | some kv =>
        if kv.length ≠ n then .bad "runner-missing-output" ("expected " ++ toString n ++ " outputs: " ++ rhs)
        else if ref == "" ∨ ref.startsWith "err" then .unsupported "reference run failed"
        else match kv.find? (·.2 ≠ ref) with
          | some (p, v) => .bad "runner-inconsistent" ("party " ++ p ++ " output " ++ v ++ " round-by-round " ++ ref)
          | none => .ok
      | none => .unsupported "rhs"
    | _, _ => .unsupported "args"
  | _, _ => .unsupported ("C11 op " ++ op)

end BronVerif.Drive.C11
