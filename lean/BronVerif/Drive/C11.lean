import BronVerif.Drive.Common
/-! Driver handlers for C11. -/
namespace BronVerif.Drive.C11
open BronVerif BronVerif.Drive

def handle (op : String) (_args : List String) (_rhs : String) : Verdict :=
  .unsupported ("C11 op " ++ op)

end BronVerif.Drive.C11
