import BronVerif.Drive.Common
import BronVerif.Model.Router
import BronVerif.Model.Echo
/-! Driver handlers for C11 (router traces, namespacing, echo broadcast, runner consistency). -/
namespace BronVerif.Drive.C11
open BronVerif BronVerif.Drive BronVerif.Router BronVerif.Router.Sched

abbrev Ev := Event String String
abbrev Res := Result String

/-! ### parsing -/

def parseIds? (s : String) : Option (List Nat) := (splitComma s).mapM String.toNat?

def floodItems (sender n : Nat) (tag : String) : List (Item String String) :=
  (List.range n).map fun i => .msg sender (tag ++ toString i) "00"

def parseEvent? (tok : String) : Option Ev :=
  match tok.splitOn ":" with
  | ["d", f, cid, p] => do let f ← f.toNat?; pure (.enqueue [.msg f cid p])
  | ["g", f] => do let f ← f.toNat?; pure (.enqueue [.garbage f])
  | ["e"] => some (.enqueue [.err])
  | ["f", f, n, tag] => do let f ← f.toNat?; let n ← n.toNat?; pure (.enqueue (floodItems f n tag))
  | ["r", rid, cid, exp] => do let rid ← rid.toNat?; let exp ← parseIds? exp; pure (.recv rid cid exp false)
  | ["r", rid, cid, exp, "p"] => do let rid ← rid.toNat?; let exp ← parseIds? exp; pure (.recv rid cid exp true)
  | ["r", rid, cid, exp, "g"] => do let rid ← rid.toNat?; let exp ← parseIds? exp; pure (.recvHeld rid cid exp)
  | ["c", rid] => do let rid ← rid.toNat?; pure (.cancel rid)
  | ["u", rid] => do let rid ← rid.toNat?; pure (.release rid)
  | ["x"] => some .close
  | _ => none

/-! ### rendering -/

def insertSorted {α} (lt : α → α → Bool) (a : α) : List α → List α
  | [] => [a]
  | b :: l => if lt a b then a :: b :: l else b :: insertSorted lt a l

def sortBy {α} (lt : α → α → Bool) (l : List α) : List α := l.foldl (fun acc a => insertSorted lt a acc) []

def renderFatal : Fatal → String
  | .closed => "closed" | .full => "full" | .decode => "decode" | .transport => "transport"

def renderMap (m : List (Nat × String)) : String :=
  joinComma ((sortBy (fun a b => a.1 < b.1) m).map fun e => toString e.1 ++ "=" ++ e.2)

def renderRes : Res → String
  | .complete m => "ok:" ++ renderMap m
  | .poisoned b => "poison:" ++ toString b
  | .fatal k => "fatal:" ++ renderFatal k
  | .cancelled => "cancelled"
  | .concurrent => "concurrent"

/-- `(rid, some k, res)` returned after event `k`; `(rid, none, "blocked")` -/
def renderResults (rs : List (Nat × Option Nat × String)) : String :=
  let rs := sortBy (fun a b => a.1 < b.1) rs
  if rs.isEmpty then "-" else
  ";".intercalate (rs.map fun (rid, k, r) =>
    toString rid ++ "@" ++ (match k with | some k => toString k | none => "-") ++ "=" ++ r)

def parseResults? (s : String) : Option (List (Nat × Option Nat × String)) :=
  if s == "-" then some [] else
  (s.splitOn ";").mapM fun t =>
    match t.splitOn "=" with
    | hd :: rest =>
      match hd.splitOn "@" with
      | [rid, k] => do
        let rid ← rid.toNat?
        let k ← if k == "-" then pure none else (k.toNat?).map some
        pure (rid, k, "=".intercalate rest)
      | _ => none
    | _ => none

def parseMap? (s : String) : Option (List (Nat × String)) :=
  (splitComma s).mapM fun t =>
    match t.splitOn "=" with
    | [a, b] => do let a ← a.toNat?; pure (a, b)
    | _ => none

/-! ### model run -/

/-- the scheduler only ever applied `step`: its state is `run cfg steps init` (and its mailbox keys
are `runBoxes`); `none` if that re-check fails -/
def modelRun (cfg : Config) (evs : List Ev) : Option (L2 String String) :=
  let l := runEvents cfg evs
  let sb := runBoxes cfg l.steps.reverse ((init : State String String), [])
  let s := sb.1
  if s.log ≠ l.core.log ∨ s.entries ≠ l.core.entries ∨ s.buffered ≠ l.core.buffered ∨ sb.2 ≠ l.boxes then none
  else some l

def resultsOf (l : L2 String String) : List (Nat × Option Nat × String) :=
  l.results.map (fun (rid, k, r) => (rid, some k, renderRes r)) ++
    l.active.map (fun a => (a.1, none, "blocked"))

/-- observation suffix of a trace result: `<results>|b=<buffered after every event>|x=<mailbox objects …>` -/
def splitObs (rhs : String) : String × Option String × Option String :=
  match rhs.splitOn "|" with
  | [r, b, x] =>
    if b.startsWith "b=" ∧ x.startsWith "x=" then (r, some (b.drop 2).toString, some (x.drop 2).toString)
    else (rhs, none, none)
  | _ => (rhs, none, none)

def renderNats (xs : List Nat) : String := joinComma (xs.map toString)

/-! ### property oracles on the implementation's answer (independent of the model run) -/

/-- all well-formed deliveries of the trace, in enqueue order -/
def deliveries (evs : List Ev) : List (Nat × String × String) :=
  evs.flatMap fun
    | .enqueue items => items.filterMap fun
        | .msg f c p => some (f, c, p)
        | _ => none
    | _ => []

def recvOf (evs : List Ev) (rid : Nat) : Option (String × List Nat) :=
  evs.findSome? fun
    | .recv r cid exp _ => if r = rid then some (cid, exp) else none
    | .recvHeld r cid exp => if r = rid then some (cid, exp) else none
    | _ => none

def sameSet (a b : List Nat) : Bool := a.all (b.contains ·) && b.all (a.contains ·)

/-- checks one implementation result against the property; `firstOnCid` says whether no earlier
receive on the same correlation ID completed (one exchange per ID) -/
def oracle (cfg : Config) (evs : List Ev) (rid : Nat) (res : String) (firstOnCid : Bool) : Option (String × String) :=
  match recvOf evs rid with
  | none => some ("unknown-receive", toString rid)
  | some (cid, exp) =>
    let ds := deliveries evs
    if res.startsWith "ok:" then
      match parseMap? (res.drop 3).toString with
      | none => some ("unparsable-result", res)
      | some m =>
        if ¬ sameSet (m.map (·.1)) exp then some ("wrong-sender-set", "receive " ++ toString rid ++ " returned " ++ res)
        else
          m.findSome? fun (id, p) =>
            if ¬ cfg.members.contains id then some ("non-member-payload", "receive " ++ toString rid ++ " sender " ++ toString id)
            else if ¬ ds.any (fun d => d.1 = id ∧ d.2.1 = cid ∧ d.2.2 = p) then
              some ("foreign-payload", "receive " ++ toString rid ++ " on " ++ cid ++ " returned " ++ p ++ " for sender " ++ toString id ++ " who never sent it under that id")
            else if firstOnCid then
              match ds.find? (fun d => d.1 = id ∧ d.2.1 = cid) with
              | some d => if d.2.2 = p then none else
                  some ("not-first-payload", "receive " ++ toString rid ++ " sender " ++ toString id ++ " expected " ++ d.2.2 ++ " got " ++ p)
              | none => none
            else none
    else if res.startsWith "poison:" then
      match (res.drop 7).toString.toNat? with
      | none => some ("unparsable-result", res)
      | some b =>
        let mine := ds.filter fun d => d.1 = b ∧ d.2.1 = cid
        let conflicting := mine.any fun d => mine.any fun d' => d.2.2 ≠ d'.2.2
        if cfg.members.contains b ∧ conflicting then none
        else some ("honest-blamed", "receive " ++ toString rid ++ " blames " ++ toString b ++ " who sent no conflicting payloads under " ++ cid)
    else none

/-- property clauses that are decided relative to the model's run of the same linearisation:
* `deadlock`: the receive is still blocked at quiescence although its outcome is decided;
* `conflict-accepted`: a conflicting retransmission was swallowed;
* `buffer-full-below-bound`: the receive failed with `ErrReceiveBufferFull` although the reader of
  the model had not seen `bound` undelivered messages by then (`buffered_eq_sum`: the model's counter *is* the
  number of undelivered messages), and the implementation has collected everything the model has;
* `failed-while-deliverable`: an unclassified error or a panic where the receive completes. -/
def modelViolation (l : L2 String String) (impl model : List (Nat × Option Nat × String)) (bound : Nat) :
    Option (String × String) :=
  -- the reader of the model had not latched `full` when the receive returned after event `k`
  let notYetFull : Option Nat → Bool := fun k => match l.fullAt, k with
    | none, _ => true
    | some f, some k => decide (k < f)
    | some _, none => false
  -- every receive that completes in the model and whose result is known completed in the
  -- implementation too (or is one of the failures in question)
  let collectedAll := model.all fun (rid, _, mres) =>
    !mres.startsWith "ok:" || (match impl.find? (·.1 = rid) with
      | some (_, _, r) => r.startsWith "ok:" || r == "fatal:full"
      | none => true)
  let maxBuf := l.obs.foldl (fun m o => max m o.1) 0
  impl.findSome? fun (rid, k, res) =>
    match model.find? (·.1 = rid) with
    | none => none
    | some (_, _, mres) =>
      if res == "blocked" ∧ mres != "blocked" then
        some ("deadlock", "receive " ++ toString rid ++ " still blocked although the model returns " ++ mres)
      else if mres.startsWith "poison:" ∧ res.startsWith "ok:" then
        some ("conflict-accepted", "receive " ++ toString rid ++ " returned " ++ res ++ " although " ++ mres)
      else if res == "fatal:full" ∧ mres != "fatal:full" ∧ notYetFull k = true ∧ collectedAll then
        some ("buffer-full-below-bound", "receive " ++ toString rid ++ " failed with ErrReceiveBufferFull (model: " ++ mres ++
          ") although the number of undelivered messages had not reached the bound by then (maximum over the trace " ++ toString maxBuf ++ ", bound " ++ toString bound ++ ")")
      else if mres.startsWith "ok:" ∧ (res.startsWith "err:" ∨ res.startsWith "panic") then
        some ("failed-while-deliverable", "receive " ++ toString rid ++ " returned " ++ res ++ " although all its messages were deposited: " ++ mres)
      else none

def checkTrace (cfg : Config) (evs : List Ev) (rhs : String) (ignoreWhen : Bool) : Verdict :=
  let (rres, bobs, xobs) := splitObs rhs
  match parseResults? rres, modelRun cfg evs with
  | none, _ => .unsupported "rhs"
  | _, none => .unsupported "sched-internal"
  | some impl, some l =>
    let model := resultsOf l
    -- 1. oracles on every implementation result
    let rec go (rs : List (Nat × Option Nat × String)) (done : List String) : Option (String × String) :=
      match rs with
      | [] => none
      | (rid, _, res) :: rest =>
        let cid := (recvOf evs rid).map (·.1)
        let first := match cid with | some c => ¬ done.contains c | none => true
        match oracle cfg evs rid res first with
        | some b => some b
        | none => go rest (if res.startsWith "ok:" then (match cid with | some c => c :: done | none => done) else done)
    -- order by return time so that "first completed on the cid" is meaningful
    let byTime := sortBy (fun a b => a.2.1.getD 1000000000 * 100000 + a.1 < b.2.1.getD 1000000000 * 100000 + b.1) impl
    match go byTime [] with
    | some (k, why) => .bad k why
    | none =>
      -- 2. model-relative property clauses
      match modelViolation l impl model cfg.bound with
      | some (k, why) => .bad k why
      | none =>
        let strip := fun (rs : List (Nat × Option Nat × String)) =>
          if ignoreWhen then rs.map fun (rid, k, r) => (rid, k.map (fun _ => 0), r) else rs
        -- 3. the results, one by one
        match mirror (renderResults (strip model)) (renderResults (strip impl)) with
        | .ok =>
          -- 4. observed accounting state (only present in serialised traces)
          let obs := l.obs.reverse
          match bobs, xobs with
          | some b, some x =>
            -- the documented bound refers to undelivered messages: `buffered = Σ |payloads|` is an
            -- invariant of the proved model (`buffered_eq_sum`)
            match spec "buffered-accounting" (renderNats (obs.map (·.1))) b with
            | .ok => mirror ("mailboxes=" ++ renderNats (obs.map (·.2))) ("mailboxes=" ++ x)
            | v => v
          | _, _ => .ok
        | v => v

/-! ### long-lived routers ("life" lines) -/

def hex2 (n : Nat) : String := String.ofList [hexDigit ((n / 16) % 16), hexDigit (n % 16)]

def lifePayload (i s : Nat) : String := hex2 s ++ hex2 i ++ hex2 (i / 256)
def lifeConflict (i s : Nat) : String := "ee" ++ hex2 s ++ hex2 i

structure Macro where
  count : Nat
  start : Nat
  tag : String
  exp : List Nat
  tpls : Array String

def macroRidBase : Nat := 100000

structure Expand where
  evs : Array Ev := #[]
  next : Nat := 0

/-- one template letter of round `i` (see harness/c11_life.go) -/
def expandLetter (m : Macro) (i : Nat) (cid : String) (st : Expand × Option Nat) (ch : Char) : Expand × Option Nat :=
  let (e, last) := st
  let push := fun (ev : Ev) => ({ e with evs := e.evs.push ev }, last)
  match ch with
  | '2' => push (.enqueue [.msg 2 cid (lifePayload i 2)])
  | '3' => push (.enqueue [.msg 3 cid (lifePayload i 3)])
  | '4' => push (.enqueue [.msg 4 cid (lifePayload i 4)])
  | '9' => push (.enqueue [.msg 9 cid (lifePayload i 9)])
  | 'a' => push (.enqueue [.msg 2 cid (lifeConflict i 2)])
  | 'b' => push (.enqueue [.msg 3 cid (lifeConflict i 3)])
  | 'c' => push (.enqueue [.msg 4 cid (lifeConflict i 4)])
  | 'o' => push (.enqueue [.msg 2 ("zz/" ++ cid) (lifePayload i 2)])
  | 'w' => push (.enqueue [.msg 3 (cid ++ "/") (lifePayload i 3)])
  | 'r' => ({ evs := e.evs.push (.recv (macroRidBase + e.next) cid m.exp false), next := e.next + 1 }, some (macroRidBase + e.next))
  | 'p' => ({ evs := e.evs.push (.recv (macroRidBase + e.next) cid m.exp true), next := e.next + 1 }, some (macroRidBase + e.next))
  | 'g' => ({ evs := e.evs.push (.recvHeld (macroRidBase + e.next) cid m.exp), next := e.next + 1 }, some (macroRidBase + e.next))
  | 'k' => match last with
    | some rid => push (.cancel rid)
    | none => st
  | 'u' => match last with
    | some rid => push (.release rid)
    | none => st
  | _ => st

def expandMacro (m : Macro) (e : Expand) : Expand :=
  if m.tpls.isEmpty then e else
  (List.range m.count).foldl (fun e j =>
    let i := m.start + j
    let tpl := m.tpls[i % m.tpls.size]!
    (tpl.toList.foldl (expandLetter m i (m.tag ++ toString i)) (e, none)).1) e

def parseMacro? (tok : String) : Option Macro :=
  match tok.splitOn ":" with
  | ["M", count, start, tag, exp, tpls] => do
    let count ← count.toNat?
    let start ← start.toNat?
    let exp ← parseIds? exp
    pure { count, start, tag, exp, tpls := (splitComma tpls).toArray }
  | _ => none

def expandLife (toks : List String) : Option (List Ev) :=
  (toks.foldl (fun (acc : Option Expand) tok => do
    let e ← acc
    match parseMacro? tok with
    | some m => pure (expandMacro m e)
    | none => do
      let ev ← parseEvent? tok
      pure { e with evs := e.evs.push ev }) (some {})).map (·.evs.toList)

def fnv (h : UInt64) (s : String) : UInt64 :=
  s.toUTF8.foldl (fun h b => (h ^^^ b.toUInt64) * 1099511628211) h

def lifeStat (xs : List Nat) : String :=
  match xs.getLast? with
  | none => "na"
  | some e => toString e ++ "/" ++ toString (xs.foldl max 0) ++ "/" ++ toString (xs.foldl (· + ·) 0)

def lifeBadShown : Nat := 24

def checkLife (cfg : Config) (toks : List String) (rhs : String) : Verdict :=
  match expandLife toks with
  | none => .unsupported "args"
  | some evs =>
    match modelRun cfg evs with
    | none => .unsupported "sched-internal"
    | some l =>
      let model := ((resultsOf l).toArray.qsort (fun a b => a.1 < b.1)).toList
      let field := fun (k : String) => (rhs.splitOn "|").findSome? fun f =>
        if f.startsWith (k ++ "=") then some (f.drop (k.length + 1)).toString else none
      match field "n", field "h", field "nbad", field "bad", field "b", field "x" with
      | some n, some h, some nbad, some bad, some b, some x =>
        match parseResults? bad with
        | none => .unsupported "rhs"
        | some implBad =>
          let rendered := model.map fun (rid, k, r) =>
            toString rid ++ "@" ++ (match k with | some k => toString k | none => "-") ++ "=" ++ r
          let mh := natToHex (rendered.foldl (fun h r => fnv h (r ++ ";")) 14695981039346656037).toNat
          let mbad := model.filter fun (_, _, r) => !r.startsWith "ok:"
          -- the implementation's view: the (first `lifeBadShown`) failures; every receive before the
          -- last listed one that is not listed completed
          let viol := modelViolation l implBad (model.filter fun m => implBad.any (·.1 = m.1)) cfg.bound
          match viol with
          | some (k, why) => .bad k why
          | none =>
            let obs := l.obs.reverse
            let summary := fun (b x : String) =>
              "n=" ++ toString model.length ++ "|h=" ++ mh ++ "|nbad=" ++ toString mbad.length ++ "|bad=" ++
                renderResults (mbad.take lifeBadShown) ++ "|b=" ++ b ++ "|x=" ++ x
            let ms := summary b x
            let is := "n=" ++ n ++ "|h=" ++ h ++ "|nbad=" ++ nbad ++ "|bad=" ++ bad ++ "|b=" ++ b ++ "|x=" ++ x
            match mirror ms is with
            | .ok =>
              if b == "na" ∨ x == "na" then .ok else
              match spec "buffered-accounting" (lifeStat (obs.map (·.1))) b with
              | .ok => mirror ("mailboxes=" ++ lifeStat (obs.map (·.2))) ("mailboxes=" ++ x)
              | v => v
            | v => v
      | _, _, _, _, _, _ => .unsupported "rhs"

/-! ### echo -/

def lookupStr (k : String) (m : List (String × String)) : Option String := (m.find? (·.1 = k)).map (·.2)

def parseKV? (s : String) : Option (List (String × String)) :=
  (splitComma s).mapM fun t =>
    match t.splitOn "=" with
    | [a, b] => some (a, b)
    | _ => none

def checkEcho (quorum honest : List Nat) (msgs byz1 byz2 : List (String × String)) (rhs : String) : Verdict :=
  let H : String → String := fun v => "h" ++ v
  -- payload party p holds for sender s after round 1
  let r1 := fun (p s : Nat) =>
    if honest.contains s then (lookupStr (toString s) msgs).getD "?"
    else (lookupStr (toString s ++ ">" ++ toString p) byz1).getD "?"
  -- digest echoer e reported to p for sender s
  let echo := fun (p e s : Nat) =>
    if honest.contains e then Echo.honestEcho H (r1 e) s
    else (lookupStr (toString e ++ ">" ++ toString p ++ ":" ++ toString s) byz2).getD "z"
  let model := ";".intercalate (honest.map fun p =>
    toString p ++ "=" ++ (match Echo.round3 H quorum p (r1 p) (echo p) with
      | some m => "ok:" ++ renderMap m
      | none => "fail"))
  -- agreement oracle on the implementation's answer
  let impl : List (Nat × List (Nat × String)) := (rhs.splitOn ";").filterMap fun t =>
    match t.splitOn "=ok:" with
    | [p, m] => do let p ← p.toNat?; let m ← parseMap? m; pure (p, m)
    | _ => none
  let dis := impl.findSome? fun (p, mp) => impl.findSome? fun (q, mq) =>
    mp.findSome? fun (s, v) =>
      match mq.find? (·.1 = s) with
      | some (_, v') => if v ≠ v' then some ("parties " ++ toString p ++ " and " ++ toString q ++ " accepted " ++ v ++ " and " ++ v' ++ " from " ++ toString s) else none
      | none => none
  match dis with
  | some why => .bad "echo-disagreement" why
  | none => mirror model rhs

/-! ### dispatch -/

def handle (op : String) (args : List String) (rhs : String) : Verdict :=
  match op, args with
  | "tr", ms :: bs :: evs =>
    match parseIds? ms, bs.toNat?, evs.mapM parseEvent? with
    | some members, some bound, some evs => checkTrace { members, bound } evs rhs false
    | _, _, _ => .unsupported "args"
  | "stress", ms :: bs :: evs =>
    match parseIds? ms, bs.toNat?, evs.mapM parseEvent? with
    | some members, some bound, some evs => checkTrace { members, bound } evs rhs true
    | _, _, _ => .unsupported "args"
  | "life", ms :: bs :: toks =>
    match parseIds? ms, bs.toNat? with
    | some members, some bound => checkLife { members, bound } toks rhs
    | _, _ => .unsupported "args"
  | "race", [_ms, _bs, rounds] =>
    -- every round: both messages of an attached receive are deposited, nothing is poisoned, far
    -- below the bound: the receive completes under every interleaving (`progress_complete`)
    match rounds.toNat? with
    | some n => spec "deadlock" ("ok=" ++ toString n ++ ";bad=-") rhs
    | none => .unsupported "args"
  | "send", [path, cid, msgs] =>
    match parseMap? msgs with
    | none => .unsupported "args"
    | some m =>
      let w := String.ofList (wire ((splitComma path).map String.toList) cid.toList)
      spec "namespace-wire-id" (joinComma ((sortBy (fun a b => a.1 < b.1) m).map fun (to, p) =>
        toString to ++ ":" ++ w ++ ":" ++ p)) rhs
  | "echo", [qs, hs, msgs, b1, b2] =>
    match parseIds? qs, parseIds? hs, parseKV? msgs, parseKV? b1, parseKV? b2 with
    | some q, some h, some m, some b1, some b2 => checkEcho q h m b1 b2 rhs
    | _, _, _, _, _ => .unsupported "args"
  | "run", [_proto, ns, _variant] =>
    -- rhs: <round-by-round sample>|<p=sample,...> ; the runner outputs must all equal the
    -- round-by-round output
    match ns.toNat?, rhs.splitOn "|" with
    | some n, [ref, outs] =>
      match parseKV? outs with
      | some kv =>
        if kv.length ≠ n then .bad "runner-missing-output" ("expected " ++ toString n ++ " outputs: " ++ rhs)
        else if ref == "" ∨ ref.startsWith "err" then .unsupported "reference run failed"
        else match kv.find? (·.2 ≠ ref) with
          | some (p, v) => .bad "runner-inconsistent" ("party " ++ p ++ " output " ++ v ++ " round-by-round " ++ ref)
          | none => .ok
      | none => .unsupported "rhs"
    | _, _ => .unsupported "args"
  | _, _ => .unsupported ("C11 op " ++ op)

end BronVerif.Drive.C11
