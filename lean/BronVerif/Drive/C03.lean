import BronVerif.Drive.Common
import BronVerif.Model.SignAlg
/-! Driver handlers for C03 (key generation): every relation is evaluated in model curve arithmetic. -/
namespace BronVerif.Drive.C03
open BronVerif BronVerif.Drive BronVerif.LinAlg BronVerif.SignAlg

def splitBar (s : String) : List String := if s == "-" || s == "" then [] else s.splitOn "|"

def parseMat {p : Nat} [NeZero p] (rows cols : Nat) (s : String) : Option (Mat (Fp p)) := do
  let xs ← parseNatList? s
  if xs.length ≠ rows * cols then none
  if cols = 0 then return List.replicate rows []
  return chunk (fpList xs) cols

def parsePts (C : Curves.Params) (s : String) : Option (List (GPt C)) :=
  (Curves.parseList? C s).map fun ps => ps.map fun p => (⟨p⟩ : GPt C)

/-- `id:hex,hex` (id decimal) -/
def parseShare {p : Nat} [NeZero p] (s : String) : Option (Nat × List (Fp p)) :=
  match s.splitOn ":" with
  | [ids, vs] => do
    let id ← ids.toNat?
    let xs ← parseNatList? vs
    some (id, fpList xs)
  | _ => none

/-- share scalar of MSP row `k`: the position of `k` among the rows of its holder (generic in the
scalar type so that `Props/C03Line` can state theorems about this very function) -/
def shareOfRow {F : Type} [OfNat F 0] (labels : List Nat) (shares : List (Nat × List F)) (k : Nat) : F :=
  match labels[k]? with
  | none => 0
  | some id =>
    match shares.find? (fun sh => sh.1 == id) with
    | none => 0
    | some (_, vals) => vals.getD ((rowsOf labels id).idxOf k) 0

def firstSome {α} (xs : List α) (f : α → Option Verdict) : Option Verdict :=
  xs.foldl (fun acc x => match acc with | some v => some v | none => f x) none

def handleDkg (C : Curves.Params) (rs cs labelsS ms dealersS dvvS partiesS pvS ppkS sharesS : String) : Verdict :=
  withPrime C.n (.unsupported "n=0") fun q =>
  match rs.toNat?, cs.toNat?, parseDecList? labelsS, parseDecList? dealersS, parseDecList? partiesS with
  | some rows, some cols, some labels, some dealers, some parties =>
    match parseMat (p := q) rows cols ms, (splitBar dvvS).mapM (parsePts C), (splitBar pvS).mapM (parsePts C),
          parsePts C ppkS, (splitBar sharesS).mapM (parseShare (p := q)) with
    | some M, some dvv, some pvs, some ppks, some shares =>
      if labels.length ≠ rows then .unsupported "labels" else
      if dvv.length ≠ dealers.length ∨ pvs.length ≠ parties.length ∨ ppks.length ≠ parties.length
          ∨ shares.length ≠ parties.length then .unsupported "lengths" else
      match pvs.head? with
      | none => .unsupported "no parties"
      | some V =>
        let g := GPt.gen C
        if V.length ≠ cols then .bad "dkg-vv-length" s!"V has {V.length} entries, MSP has {cols} columns" else
        -- (a) V = Σ V⁽ⁱ⁾
        let sumOk := dealers.isEmpty || decide (vvSum cols dvv = V) && dvv.all (fun v => v.length == cols)
        if !sumOk then .bad "dkg-vv-sum" "final verification vector is not the sum of the dealers' broadcast vectors" else
        -- (b) all parties report the same V and pk = V₀
        if !(pvs.all fun v => decide (v = V)) then .bad "dkg-parties-disagree" "parties hold different verification vectors" else
        if !(ppks.all fun pk => decide (some pk = V.head?)) then .bad "dkg-pk" "a party's public key is not V[0]" else
        -- (c) lift(share_j) = M_j · V for every party
        match firstSome (parties.zip shares) (fun (pid, sh) =>
            if sh.1 ≠ pid then some (.bad "dkg-share-id" s!"share of party {pid} carries id {sh.1}")
            else if shareLiftOk M labels V g pid sh.2 then none
            else some (.bad "dkg-share-lift" s!"share of party {pid} does not lift to M_j·V")) with
        | some v => v
        | none => .ok
    | _, _, _, _, _ => .unsupported "parse"
  | _, _, _, _, _ => .unsupported "args"

def parseSets (s : String) : Option (List (List Nat)) := (splitBar s).mapM parseDecList?

def handleRecon (C : Curves.Params) (rs cs labelsS ms pkS sharesS qS uS : String) : Verdict :=
  withPrime C.n (.unsupported "n=0") fun q =>
  match rs.toNat?, cs.toNat?, parseDecList? labelsS, parseSets qS, parseSets uS with
  | some rows, some cols, some labels, some qsets, some usets =>
    match parseMat (p := q) rows cols ms, Curves.parse? C pkS, (splitBar sharesS).mapM (parseShare (p := q)) with
    | some M, some pkp, some shares =>
      if labels.length ≠ rows then .unsupported "labels" else
      let g := GPt.gen C
      let pk : GPt C := ⟨pkp⟩
      let sor := shareOfRow labels shares
      match firstSome qsets (fun S =>
          match reconstruct M cols labels sor S with
          | none => some (.bad "qualified-set-not-spanning" s!"e0 not in the span of the rows of {S}")
          | some s => if decide (s • g = pk) then none
                      else some (.bad "reconstruct-not-dlog-pk" s!"set {S} reconstructs {s.toHex}, whose lift is not pk")) with
      | some v => v
      | none =>
        match firstSome usets (fun S =>
            match reconCoeffs M cols (rowsOfSet labels S) with
            | none => none
            | some _ => some (.bad "unqualified-set-spans" s!"e0 is in the span of the rows of unqualified {S}")) with
        | some v => v
        | none => .ok
    | _, _, _ => .unsupported "parse"
  | _, _, _, _, _ => .unsupported "args"

def handle (op : String) (args : List String) (rhs : String) : Verdict :=
  if rhs != "ok" then .unsupported ("rhs " ++ rhs) else
  match op, args with
  | "dkg", [_proto, curve, _spec, rs, cs, labels, ms, dealers, dvv, parties, pvs, ppks, shares] =>
    match Curves.byName? curve with
    | none => .unsupported ("curve " ++ curve)
    | some C => handleDkg C rs cs labels ms dealers dvv parties pvs ppks shares
  | "recon", [curve, rs, cs, labels, ms, pk, shares, qs, us] =>
    match Curves.byName? curve with
    | none => .unsupported ("curve " ++ curve)
    | some C => handleRecon C rs cs labels ms pk shares qs us
  | _, _ => .unsupported ("C03 op " ++ op)

end BronVerif.Drive.C03
