import BronVerif.Drive.Common
/-! Driver handlers for C03. -/
namespace BronVerif.Drive.C03
open BronVerif BronVerif.Drive

def handle (op : String) (_args : List String) (_rhs : String) : Verdict :=
  .unsupported ("C03 op " ++ op)

end BronVerif.Drive.C03
