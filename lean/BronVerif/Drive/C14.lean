import BronVerif.Drive.Common
/-! Driver handlers for C14. -/
namespace BronVerif.Drive.C14
open BronVerif BronVerif.Drive

def handle (op : String) (_args : List String) (_rhs : String) : Verdict :=
  .unsupported ("C14 op " ++ op)

end BronVerif.Drive.C14
