import BronVerif.Drive.Common
import BronVerif.Model.Curves
import BronVerif.Gen.Weierstrass
import BronVerif.Gen.Edwards
import BronVerif.Model.Window
/-!
Driver handlers for C14 (curve, field and pairing arithmetic).

* group operations of the public point types are replayed on the affine model
  (`Model/Curve.lean`, the mathematical chord-and-tangent / Edwards law) — verdicts are `spec`;
* the raw projective / extended-coordinate operations (`padd`, `pdbl`, … `eadd`, …) are replayed on
  the formulas REGENERATED from the Go source (`Gen/Weierstrass.lean`, `Gen/Edwards.lean`): exact
  coordinate agreement (`mirror`), and — when the inputs are points of the curve — the affine image
  of the result must be the model's group operation (`spec`);
* the structured scalar / multi-scalar lines (`smulg`, `msmg`: points given as multiples `mᵢ·G`, scalars
  and multipliers as compact specs; `smulrawb`, `msmrawb`: explicit points and raw byte strings) are
  judged against `(Σ kᵢ·mᵢ mod n)·G` resp. the affine model (`spec`), and the hand-written model of
  the Go windowed ladder / bucket method (`Model/Window.lean`) is EXECUTED on the same bytes — over
  `ℤ/n` for the multiples-of-`G` lines, over the curve points for the explicit ones; a disagreement
  between that model and the specification is reported as `UNSUPPORTED window-model-inconsistent`
  (it contradicts `Props/C14.bucket_msm_spec` / `smul_nibble_spec`, never the implementation);
* field operations are replayed on `Fp` / `Fp2`; inverse, quotient and square root are judged by the
  defining relation (`a·r = 1`, `r² = a`, "no root" only for non-squares by Euler's criterion).
-/
namespace BronVerif.Drive.C14
open BronVerif BronVerif.Drive BronVerif.Curves BronVerif.Curve

/-- `ed25519full` (the cofactor-8 curve type) and `curve25519` (same Edwards impl point behind a
Montgomery affine view) are judged against the Edwards model. -/
def curveOf? (cn : String) : Option Params :=
  if cn == "ed25519full" || cn == "curve25519" then some ed25519 else byName? cn

def boolStr (b : Bool) : String := if b then "true" else "false"

/-- reading and printing field elements of the line protocol -/
structure FIO (F : Type) where
  parse : String → Option F
  render : F → String

def fpIO (q : Nat) [NeZero q] : FIO (Fp q) :=
  ⟨fun s => (hexToNat? s).bind (fun n => if n < q then some (Fp.ofNat q n) else none), Fp.toHex⟩

def fp2IO (q : Nat) [NeZero q] : FIO (Fp2 q) :=
  ⟨fun s => match s.splitOn "/" with
    | [a, b] => do
      let x ← (fpIO q).parse a
      let y ← (fpIO q).parse b
      some ⟨x, y⟩
    | _ => none,
   Fp2.toHex⟩

section generic
variable {F : Type} [Add F] [Mul F] [Sub F] [Neg F] [Inv F] [OfNat F 0] [OfNat F 1] [DecidableEq F]

def parseTuple (io : FIO F) (s : String) : Option (List F) := (s.splitOn ",").mapM io.parse
def renderTuple (io : FIO F) (xs : List F) : String := ",".intercalate (xs.map io.render)

def wptStr (io : FIO F) : WPt F → String
  | .inf => "inf"
  | .aff x y => io.render x ++ ":" ++ io.render y

/-- projective (X:Y:Z) satisfies the homogeneous curve equation and is not (0,0,0) -/
def wOnCurveProj (a b x y z : F) : Bool :=
  (y * y * z == x * x * x + a * x * z * z + b * z * z * z) && !(x == 0 && y == 0 && z == 0)

def wToAff (x y z : F) : WPt F := if z = 0 then .inf else .aff (x * z⁻¹) (y * z⁻¹)

/-- judge a Go result triple against (i) the regenerated formula, exactly, and (ii) the affine law -/
def judgeW (io : FIO F) (key : String) (gen : F × F × F) (valid : Bool) (want : WPt F) (rhs : String) : Verdict :=
  let (x3, y3, z3) := gen
  let g := renderTuple io [x3, y3, z3]
  if g != rhs then .diff g else
  if !valid then .ok else
  if x3 = 0 ∧ y3 = 0 ∧ z3 = 0 then .bad key ("result (0,0,0) for curve points; expected " ++ wptStr io want) else
  spec key (wptStr io want) (wptStr io (wToAff x3 y3 z3))

def wproj (io : FIO F) (a b : F) (op : String) (args : List String) (rhs : String) : Verdict :=
  let b3 := b + b + b
  match op, args.mapM (parseTuple io) with
  | "padd", some [[x1, y1, z1], [x2, y2, z2]] =>
    judgeW io "padd-group-law" (Gen.Weierstrass.add a b3 x1 y1 z1 x2 y2 z2)
      (wOnCurveProj a b x1 y1 z1 && wOnCurveProj a b x2 y2 z2)
      (W.add a (wToAff x1 y1 z1) (wToAff x2 y2 z2)) rhs
  | "pdbl", some [[x1, y1, z1]] =>
    judgeW io "pdbl-group-law" (Gen.Weierstrass.double a b3 x1 y1 z1) (wOnCurveProj a b x1 y1 z1)
      (W.add a (wToAff x1 y1 z1) (wToAff x1 y1 z1)) rhs
  | "pneg", some [[x1, y1, z1]] =>
    judgeW io "pneg-group-law" (Gen.Weierstrass.neg x1 y1 z1) (wOnCurveProj a b x1 y1 z1)
      (W.neg (wToAff x1 y1 z1)) rhs
  | "peq", some [[x1, y1, z1], [x2, y2, z2]] =>
    let g := boolStr (Gen.Weierstrass.equal x1 y1 z1 x2 y2 z2)
    if g != rhs then .diff g else
    if wOnCurveProj a b x1 y1 z1 && wOnCurveProj a b x2 y2 z2 then
      spec "peq-projective-equality" (boolStr (wToAff x1 y1 z1 == wToAff x2 y2 z2)) rhs
    else .ok
  | "piszero", some [[x1, y1, z1]] =>
    let g := boolStr (Gen.Weierstrass.isZero z1)
    if g != rhs then .diff g else
    if wOnCurveProj a b x1 y1 z1 then spec "piszero" (boolStr (wToAff x1 y1 z1 == .inf)) rhs else .ok
  | "psetaffine", some [[x], [y]] =>
    -- the receiver was SetZero before the call
    let (z0x, z0y, z0z) := (Gen.Weierstrass.setZero : F × F × F)
    let (ok, x3, y3, z3) := Gen.Weierstrass.setAffine a b z0x z0y z0z x y
    let g := boolStr ok ++ "," ++ renderTuple io [x3, y3, z3]
    if g != rhs then .diff g else
    spec "setaffine-curve-equation" (boolStr (W.onCurve a b (.aff x y))) (boolStr ok)
  | _, _ => .unsupported ("C14 " ++ op)

/-- extended coordinates (X:Y:T:Z) of a point of the twisted Edwards curve -/
def eOnCurveExt (a d x y t z : F) : Bool :=
  (a * x * x + y * y == z * z + d * t * t) && (t * z == x * y) && !(z == 0)

def eToAff (x y z : F) : EPt F := ⟨x * z⁻¹, y * z⁻¹⟩
def eptStr (io : FIO F) (P : EPt F) : String := io.render P.x ++ ":" ++ io.render P.y

def judgeE (io : FIO F) (key : String) (gen : F × F × F × F) (valid : Bool) (want : EPt F) (rhs : String) : Verdict :=
  let (x3, y3, t3, z3) := gen
  let g := renderTuple io [x3, y3, t3, z3]
  if g != rhs then .diff g else
  if !valid then .ok else
  if z3 = 0 then .bad key ("Z3 = 0 for curve points; expected " ++ eptStr io want) else
  if t3 * z3 ≠ x3 * y3 then .bad key "extended-coordinate invariant T·Z = X·Y broken" else
  spec key (eptStr io want) (eptStr io (eToAff x3 y3 z3))

def eproj (io : FIO F) (a d : F) (op : String) (args : List String) (rhs : String) : Verdict :=
  match op, args.mapM (parseTuple io) with
  | "eadd", some [[x1, y1, t1, z1], [x2, y2, t2, z2]] =>
    judgeE io "eadd-group-law" (Gen.Edwards.add a d x1 y1 t1 z1 x2 y2 t2 z2)
      (eOnCurveExt a d x1 y1 t1 z1 && eOnCurveExt a d x2 y2 t2 z2)
      (E.add a d (eToAff x1 y1 z1) (eToAff x2 y2 z2)) rhs
  | "edbl", some [[x1, y1, t1, z1]] =>
    judgeE io "edbl-group-law" (Gen.Edwards.double a x1 y1 z1) (eOnCurveExt a d x1 y1 t1 z1)
      (E.add a d (eToAff x1 y1 z1) (eToAff x1 y1 z1)) rhs
  | "eneg", some [[x1, y1, t1, z1]] =>
    judgeE io "eneg-group-law" (Gen.Edwards.neg x1 y1 t1 z1) (eOnCurveExt a d x1 y1 t1 z1)
      (E.neg (eToAff x1 y1 z1)) rhs
  | "eeq", some [[x1, y1, t1, z1], [x2, y2, t2, z2]] =>
    let g := boolStr (Gen.Edwards.equal x1 y1 z1 x2 y2 z2)
    if g != rhs then .diff g else
    if eOnCurveExt a d x1 y1 t1 z1 && eOnCurveExt a d x2 y2 t2 z2 then
      spec "eeq-projective-equality" (boolStr (eToAff x1 y1 z1 == eToAff x2 y2 z2)) rhs
    else .ok
  | "eiszero", some [[x1, y1, t1, z1]] =>
    let g := boolStr (Gen.Edwards.isZero x1 y1 z1)
    if g != rhs then .diff g else
    if eOnCurveExt a d x1 y1 t1 z1 then spec "eiszero" (boolStr (eToAff x1 y1 z1 == E.zero)) rhs else .ok
  | "esetaffine", some [[x], [y]] =>
    let (z0x, z0y, z0t, z0z) := (Gen.Edwards.setZero : F × F × F × F)
    let (ok, x3, y3, t3, z3) := Gen.Edwards.setAffine a d z0x z0y z0t z0z x y
    let g := boolStr ok ++ "," ++ renderTuple io [x3, y3, t3, z3]
    if g != rhs then .diff g else
    spec "setaffine-curve-equation" (boolStr (E.onCurve a d ⟨x, y⟩)) (boolStr ok)
  | _, _ => .unsupported ("C14 " ++ op)

/-- square-and-multiply (fuel = bit length) for the Euler criterion in `Fp2` -/
def powAux : Nat → F → Nat → F → F
  | 0, _, _, acc => acc
  | fuel + 1, b, e, acc =>
    if e = 0 then acc else powAux fuel (b * b) (e / 2) (if e % 2 = 1 then acc * b else acc)
def powNat (x : F) (e : Nat) : F := powAux (e.log2 + 1) x e 1

/-- field operations shared by `Fp` and `Fp2`; `isSq` decides squareness (Euler) -/
def fieldOp (io : FIO F) (pre : String) (isSq : F → Bool) (op : String) (args : List String) (rhs : String) : Verdict :=
  match op, args.mapM io.parse with
  | "add", some [a, b] => spec "field-add" (io.render (a + b)) rhs
  | "sub", some [a, b] => spec "field-sub" (io.render (a - b)) rhs
  | "mul", some [a, b] => spec "field-mul" (io.render (a * b)) rhs
  | "neg", some [a] => spec "field-neg" (io.render (-a)) rhs
  | "sq", some [a] => spec "field-square" (io.render (a * a)) rhs
  | "dbl", some [a] => spec "field-double" (io.render (a + a)) rhs
  | "inv", some [a] =>
    if rhs == "none" then (if a = 0 then .ok else .bad "field-inv" "no inverse reported for a non-zero element")
    else match io.parse rhs with
      | some r => if a * r = 1 then .ok else .bad "field-inv" ("a*r != 1; expected=" ++ io.render a⁻¹)
      | none => .unsupported "inv result"
  | "div", some [a, b] =>
    if rhs == "none" then (if b = 0 then .ok else .bad "field-div" "no quotient reported for a non-zero divisor")
    else match io.parse rhs with
      | some r => if b ≠ 0 ∧ r * b = a then .ok else .bad "field-div" ("r*b != a; expected=" ++ io.render (a * b⁻¹))
      | none => .unsupported "div result"
  | "sqrt", some [a] =>
    if rhs == "none" then (if isSq a then .bad (pre ++ "sqrt-missed") "no root reported for a square (Euler criterion)" else .ok)
    else match io.parse rhs with
      | some r => if r * r = a then .ok else .bad (pre ++ "sqrt-wrong") "returned root does not square back"
      | none => .unsupported "sqrt result"
  | _, _ => .unsupported ("C14 field op " ++ op)

end generic

/-! ## structured scalar / multi-scalar multiplication lines (window thresholds) -/

open BronVerif.Window in
/-- `len` little-endian bytes of `k` (`none` if `k` does not fit) -/
def natToLE? (len k : Nat) : Option (Array UInt8) :=
  if k < 2 ^ (8 * len) then some ((Array.range len).map fun i => UInt8.ofNat ((k >>> (8 * i)) % 256)) else none

/-- hex byte string in slice order (`-`/`_` = empty) -/
def hexLE? (s : String) : Option (Array UInt8) :=
  if s == "-" || s == "_" then some #[] else (hexToBytes? s).map (·.data)

/-- multipliers `mᵢ` of the points `Pᵢ = mᵢ·G` -/
def expandPSpec (order n : Nat) (s : String) : Option (List Nat) :=
  match s.splitOn ":" with
  | ["a", a, b] => do
    let a ← hexToNat? a
    let b ← hexToNat? b
    some ((List.range n).map fun i => (a * i + b) % order)
  | ["l", l] => do
    let ms ← parseNatList? l
    if ms.length = n then some (ms.map (· % order)) else none
  | _ => none

def parseAssign? (s : String) : Option (Nat × Nat) :=
  match s.splitOn "=" with
  | [i, v] => do some (← i.toNat?, ← hexToNat? v)
  | _ => none

/-- scalars as little-endian byte strings -/
def expandSSpec (n : Nat) (s : String) : Option (List (Array UInt8)) :=
  match s.splitOn ":" with
  | kind :: rest =>
    let tag := (kind.take 1).toString
    let len? := (kind.drop 1).toString.toNat?
    match tag, len?, rest with
    | "l", some len, [l] => do
      let ks ← parseNatList? l
      if ks.length = n then ks.mapM (natToLE? len) else none
    | "s", some len, [d, ex] => do
      let d ← hexToNat? d
      let dflt ← natToLE? len d
      let exs ← (splitComma ex).mapM parseAssign?
      let arr ← exs.foldlM (fun (a : Array (Array UInt8)) (iv : Nat × Nat) =>
        if iv.1 < a.size then (natToLE? len iv.2).map (a.set! iv.1 ·) else none) (Array.replicate n dflt)
      some arr.toList
    | "a", some len, [a, b, m] => do
      let a ← hexToNat? a
      let b ← hexToNat? b
      let m ← hexToNat? m
      if m = 0 then none else (List.range n).mapM fun i => natToLE? len ((a * i + b) % m)
    | "p", some len, [c] => do
      let c ← c.toNat?
      if c = 0 then none else (List.range n).mapM fun i => natToLE? len (2 ^ (i % c))
    | "b", none, [l] => do
      let bs ← (splitComma l).mapM hexLE?
      if bs.length = n then some bs else none
    | _, _, _ => none
  | [] => none

open BronVerif.Window in
/-- the Go functions' model on `ℤ/order` -/
def znMsm (order : Nat) (bs : List (Array UInt8)) (ms : List Nat) : Nat :=
  (Window.msm (G := ZN order) (fun x => x.val == 0) bs (ms.map fun m => ⟨m % order⟩)).val

open BronVerif.Window in
/-- the Go-literal nibble ladder and the generic ladder of every width `1 … 10` plus one of
`11 … 16` (their tables have up to `2^16` entries; the choice depends on the scalar) -/
def znSmulAgree (order : Nat) (bs : Array UInt8) (m total : Nat) : Bool :=
  (smulNibble (G := ZN order) ⟨m % order⟩ bs).val == total &&
  ((List.range 10).map (· + 1) ++ [11 + (bs.size + total) % 6]).all fun w =>
    (windowedSmul (G := ZN order) w ⟨m % order⟩ bs).val == total

/-- the Go functions' model on the runtime curve points -/
def ptSmulNibble (C : Params) (bs : Array UInt8) (P : Pt) : Pt :=
  letI : Add Pt := ⟨Curves.add C⟩
  letI : OfNat Pt 0 := ⟨Curves.zero C⟩
  Window.smulNibble P bs

def ptMsm (C : Params) (bs : List (Array UInt8)) (ps : List Pt) : Pt :=
  letI : Add Pt := ⟨Curves.add C⟩
  letI : OfNat Pt 0 := ⟨Curves.zero C⟩
  Window.msm (fun P => Curves.isZero C P) bs ps

def groupOp (C : Params) (op : String) (args : List String) (rhs : String) : Verdict :=
  match op, args with
  | "add", [p, q] => match parse? C p, parse? C q with
    | some P, some Q => spec "add" (render C (add C P Q)) rhs
    | _, _ => .unsupported "point"
  | "sub", [p, q] => match parse? C p, parse? C q with
    | some P, some Q => spec "sub" (render C (sub C P Q)) rhs
    | _, _ => .unsupported "point"
  | "eq", [p, q] => match parse? C p, parse? C q with
    | some P, some Q => spec "equal" (boolStr (P == Q)) rhs
    | _, _ => .unsupported "point"
  | "dbl", [p] => match parse? C p with
    | some P => spec "double" (render C (add C P P)) rhs
    | _ => .unsupported "point"
  | "neg", [p] => match parse? C p with
    | some P => spec "neg" (render C (neg C P)) rhs
    | _ => .unsupported "point"
  | "isid", [p] => match parse? C p with
    | some P => spec "is-identity" (boolStr (isZero C P)) rhs
    | _ => .unsupported "point"
  | "smul", [k, p] => match hexToNat? k, parse? C p with
    | some k, some P => spec "scalar-mul" (render C (smul C k P)) rhs
    | _, _ => .unsupported "smul args"
  | "smulraw", [k, p] => match hexToNat? k, parse? C p with
    | some k, some P => spec "scalar-mul-raw" (render C (smul C k P)) rhs
    | _, _ => .unsupported "smul args"
  | "basemul", [k] => match hexToNat? k with
    | some k => spec "scalar-base-mul" (render C (baseMul C k)) rhs
    | _ => .unsupported "basemul args"
  | "msm", [ks, ps] => match parseNatList? ks, parseList? C ps with
    | some ks, some ps =>
      if ks.length != ps.length then .unsupported "msm lengths" else
      let want := msm C ks ps
      -- the public API hands `Scalar.V.Bytes()` (little-endian, fixed size) to the bucket method
      -- (executed for the short vectors: naive path and the bucket method with w = 4, 5; the long
      -- ones are covered over ℤ/n by the `msmg` lines)
      match (if ks.length ≤ 16 then ks.mapM (natToLE? ((C.n.log2 + 8) / 8)) else none) with
      | some bs =>
        if ptMsm C bs ps != want then .unsupported "window-model-inconsistent msm" else
        spec "msm" (render C want) rhs
      | none => spec "msm" (render C want) rhs
    | _, _ => .unsupported "msm args"
  | _, _ => .unsupported ("C14 op " ++ op)


def windowOp (C : Params) (op : String) (args : List String) (rhs : String) : Verdict :=
  match op, args with
  | "smulg", [variant, bytes, m] =>
    match hexLE? bytes, hexToNat? m with
    | some bs, some m =>
      let total := (Window.leToNat bs * m) % C.n
      if !(znSmulAgree C.n bs m total) then .unsupported "window-model-inconsistent smulg" else
      spec ("scalar-mul-" ++ variant) (render C (smul C total (gen C))) rhs
    | _, _ => .unsupported "smulg args"
  | "smulrawb", [bytes, p] =>
    match hexLE? bytes, parse? C p with
    | some bs, some P =>
      let want := smul C (Window.leToNat bs) P
      if ptSmulNibble C bs P != want then .unsupported "window-model-inconsistent smulrawb" else
      spec "scalar-mul-raw" (render C want) rhs
    | _, _ => .unsupported "smulrawb args"
  | "msmg", [variant, n, pspec, sspec] =>
    match n.toNat? with
    | some n =>
      match expandPSpec C.n n pspec, expandSSpec n sspec with
      | some ms, some bs =>
        let total := (List.zipWith (fun b m => Window.leToNat b * m) bs ms).foldl (fun acc t => (acc + t) % C.n) 0
        -- the generic twin in algebrautils has no empty case; the model is that of mul.go
        if znMsm C.n bs ms != total then .unsupported "window-model-inconsistent msmg" else
        spec ("msm-" ++ variant) (render C (smul C total (gen C))) rhs
      | _, _ => .unsupported "msmg specs"
    | none => .unsupported "msmg n"
  | "msmrawb", [bytes, ps] =>
    match (splitComma bytes).mapM hexLE?, parseList? C ps with
    | some bs, some ps =>
      if bs.length != ps.length then .unsupported "msmrawb lengths" else
      let want := msm C (bs.map Window.leToNat) ps
      if ptMsm C bs ps != want then .unsupported "window-model-inconsistent msmrawb" else
      spec "msm-raw" (render C want) rhs
    | _, _ => .unsupported "msmrawb args"
  | _, _ => .unsupported ("C14 op " ++ op)


def projOp (C : Params) (op : String) (args : List String) (rhs : String) : Verdict :=
  withPrime C.p (.unsupported "p = 0") fun q =>
    match C.kind with
    | .weierstrass => wproj (fpIO q) (Fp.ofNat q C.a) (Fp.ofNat q C.b) op args rhs
    | .weierstrass2 =>
      wproj (fp2IO q) (⟨Fp.ofNat q C.a, Fp.ofNat q 0⟩ : Fp2 q) ⟨Fp.ofNat q C.b, Fp.ofNat q C.b1⟩ op args rhs
    | .edwards => eproj (fpIO q) (Fp.ofNat q C.a) (Fp.ofNat q C.b) op args rhs

def handle (op : String) (args : List String) (rhs : String) : Verdict :=
  match op, args with
  | "gen", [cn] =>
    match byName? cn with
    | some C => spec "generator" (render C (gen C)) rhs
    | none => .unsupported ("curve " ++ cn)
  | "zero", [cn] =>
    match byName? cn with
    | some C => spec "identity" (render C (zero C)) rhs
    | none => .unsupported ("curve " ++ cn)
  | _, _ =>
  if ["add", "sub", "eq", "dbl", "neg", "isid", "smul", "smulraw", "basemul", "msm"].contains op then
    match args with
    | cn :: rest => match curveOf? cn with
      | some C => groupOp C op rest rhs
      | none => .unsupported ("curve " ++ cn)
    | [] => .unsupported "no curve"
  else if ["smulg", "smulrawb", "msmg", "msmrawb"].contains op then
    match args with
    | cn :: rest => match curveOf? cn with
      | some C => windowOp C op rest rhs
      | none => .unsupported ("curve " ++ cn)
    | [] => .unsupported "no curve"
  else if op.startsWith "p" || op.startsWith "e" then
    match args with
    | cn :: rest => match curveOf? cn with
      | some C => projOp C op rest rhs
      | none => .unsupported ("curve " ++ cn)
    | [] => .unsupported "no curve"
  else if op.startsWith "f2" then
    -- f2<op> <p> args…
    match args with
    | ph :: rest => match hexToNat? ph with
      | some p => withPrime p (.unsupported "p = 0") fun q =>
          fieldOp (fp2IO q) "f2" (fun x => x = 0 || powNat x ((q * q - 1) / 2) = 1) (op.drop 2).toString rest rhs
      | none => .unsupported "modulus"
    | [] => .unsupported "no modulus"
  else if op == "fwide" then
    -- fwide <tag> <p> <len> <value> : reduction of an integer of up to 2·size bytes
    match args with
    | [_, ph, _, vh] => match hexToNat? ph, hexToNat? vh with
      | some p, some v =>
        if p = 0 then .unsupported "p = 0" else
        if rhs == "reject" then .bad "wide-reduce" "wide input within the documented length rejected"
        else spec "wide-reduce" (natToHex (v % p)) rhs
      | _, _ => .unsupported "fwide args"
    | _ => .unsupported "fwide arity"
  else if op.startsWith "f" then
    -- f<op> <tag> <p> args…
    match args with
    | _ :: ph :: rest => match hexToNat? ph with
      | some p => withPrime p (.unsupported "p = 0") fun q =>
          fieldOp (fpIO q) "f" (fun x => Fp.isSquare x) (op.drop 1).toString rest rhs
      | none => .unsupported "modulus"
    | _ => .unsupported "field arity"
  else .unsupported ("C14 op " ++ op)

end BronVerif.Drive.C14
