import BronVerif.Drive.Common
import BronVerif.Model.Curves
/-! Driver handlers for C14 (curve, field and pairing arithmetic). -/
namespace BronVerif.Drive.C14
open BronVerif BronVerif.Drive BronVerif.Curves

def handle (op : String) (args : List String) (rhs : String) : Verdict :=
  match op, args with
  | "gen", [cn] =>
    match byName? cn with
    | some C => spec "generator" (render C (gen C)) rhs
    | none => .unsupported ("curve " ++ cn)
  | "zero", [cn] =>
    match byName? cn with
    | some C => spec "identity" (render C (zero C)) rhs
    | none => .unsupported ("curve " ++ cn)
  | _, _ => .unsupported ("C14 op " ++ op)

end BronVerif.Drive.C14
