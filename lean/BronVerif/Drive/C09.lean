import BronVerif.Drive.Common
import BronVerif.Model.Bf128
import BronVerif.Model.OT
import BronVerif.Model.PackedBits
import BronVerif.Model.Rvole
/-! Driver handlers for C09 (OT correlation, SoftSpoken check, rvole check, bf128). -/
namespace BronVerif.Drive.C09
open BronVerif BronVerif.Drive BronVerif.Bf128 BronVerif.OT BronVerif.Rvole

/-! ### parsing / rendering -/

def bytesList? (s : String) : Option (List Nat) :=
  (hexToBytes? s).map fun b => b.toList.map UInt8.toNat

def bitString? (s : String) : Option (List Bool) :=
  if s == "-" then some [] else
  s.toList.mapM fun c => if c == '0' then some false else if c == '1' then some true else none

def byteHex (n : Nat) : String :=
  String.singleton (hexDigit ((n / 16) % 16)) ++ String.singleton (hexDigit (n % 16))

def bytesHex (bs : List Nat) : String := if bs.isEmpty then "-" else String.join (bs.map byteHex)

/-- a 16-byte big-endian block as the field element (Nat) -/
def beNat (bs : List Nat) : Nat := bs.foldl (fun acc b => acc * 256 + b) 0

def natBE16 (n : Nat) : List Nat := (List.range 16).map fun i => (n >>> (8 * (15 - i))) % 256

/-- the 128-bit blocks of a packed row, as field elements (`FromBytes` of each 16-byte slice) -/
def blocksOfBits (bs : List Bool) : List BF := (chunk (pack bs) 16).map fun c => ⟨beNat c⟩

def rowsOf? (s : String) : Option (List (List Bool)) := (splitComma s).mapM fun r => (bytesList? r).map unpack

def rowsHex (rows : List (List Bool)) : String := joinComma (rows.map fun r => bytesHex (pack r))

def bfList? (s : String) : Option (List BF) := (parseNatList? s).map fun xs => xs.map BF.mk

def bf16Hex (x : BF) : String := bytesHex (natBE16 x.val)

/-- `<nrows>:<row>,<row>,…` with `-` for an empty row -/
def matrix? (s : String) : Option (List (List Nat)) :=
  match s.splitOn ":" with
  | [ns, body] =>
    match ns.toNat? with
    | some 0 => if body == "" then some [] else none
    | some n =>
      match (body.splitOn ",").mapM bytesList? with
      | some rows => if rows.length == n then some rows else none
      | none => none
    | none => none
  | _ => none

def matrixStr (m : List (List Nat)) : String :=
  toString m.length ++ ":" ++ ",".intercalate (m.map bytesHex)

/-! ### handlers -/

def handleBf (op : String) (args : List String) (rhs : String) : Verdict :=
  match op, args.mapM hexToNat? with
  | "bfmul", some [a, b] => spec "bf128-mul" (natToHex (mul a b)) rhs
  | "bfadd", some [a, b] => spec "bf128-add" (natToHex (add a b) ++ ";" ++ natToHex (add a b) ++ ";" ++ natToHex a) rhs
  | "bfinv", some [a] => spec "bf128-inv" (if a = 0 then "err:zero" else natToHex (inv a)) rhs
  | "bfdiv", some [a, b] => spec "bf128-div" (if b = 0 then "err:zero" else natToHex (mul a (inv b))) rhs
  | "bfmisc", some [a, b] =>
    spec "bf128-misc" (bytesHex (natBE16 a) ++ ";" ++ natToHex (mul a a) ++ ";" ++ natToHex a ++ ";" ++ natToHex b) rhs
  | _, _ => .unsupported ("C09 " ++ op)

def handleBits (op : String) (args : List String) (rhs : String) : Verdict :=
  match op, args with
  | "bitspack", [s] =>
    match bytesList? s with
    | none => .unsupported "args"
    | some raw =>
      let model := if raw.any (· > 1) then "reject" else
        let p := pack (raw.map (· == 1))
        bytesHex p ++ ";" ++ bytesHex ((unpack p).map fun b => if b then 1 else 0)
      spec "bits-pack" model rhs
  | "bitsrepeat", [s, ns] =>
    match bytesList? s, ns.toNat? with
    | some p, some n =>
      -- the unpacked model and the byte-level loop model (`Props/C09Bits.packedbits_repeat`) must both agree
      match spec "bits-repeat" (bytesHex (pack (repeatBits (unpack p) n))) rhs with
      | .ok => spec "bits-repeat" (bytesHex (PackedBits.repeatBits p n)) rhs
      | v => v
    | _, _ => .unsupported "args"
  | "bitstranspose", [_rs, cs, ms] =>
    match cs.toNat?, rowsOf? ms with
    | some cb, some rows => spec "bits-transpose" (rowsHex (transpose rows (8 * cb))) rhs
    | _, _ => .unsupported "args"
  | "bitsget", [s, is] =>
    match bytesList? s, is.toNat? with
    | some p, some i =>
      if i ≥ 8 * p.length then .unsupported "index" else
      spec "bits-get" (if PackedBits.get p i then "1" else "0") rhs
    | _, _ => .unsupported "args"
  | "bitsset", [s, is] =>
    match bytesList? s, is.toNat? with
    | some p, some i =>
      if i ≥ 8 * p.length then .unsupported "index" else spec "bits-set" (bytesHex (PackedBits.set p i)) rhs
    | _, _ => .unsupported "args"
  | "bitsclear", [s, is] =>
    match bytesList? s, is.toNat? with
    | some p, some i =>
      if i ≥ 8 * p.length then .unsupported "index" else spec "bits-clear" (bytesHex (PackedBits.clear p i)) rhs
    | _, _ => .unsupported "args"
  | "bitsswap", [s, is, js] =>
    match bytesList? s, is.toNat?, js.toNat? with
    | some p, some i, some j =>
      if i ≥ 8 * p.length ∨ j ≥ 8 * p.length then .unsupported "index" else
      spec "bits-swap" (bytesHex (PackedBits.swap p i j)) rhs
    | _, _, _ => .unsupported "args"
  | "bitstp", [ms] =>
    match matrix? ms with
    | none => .unsupported "args"
    | some m =>
      let model := match PackedBits.transposePacked m with
        | none => "reject"
        | some t => matrixStr t
      if model == rhs then
        -- second opinion on accepted inputs: the unpacked-row model of `Model/OT.lean`
        match PackedBits.transposePacked m with
        | none => .ok
        | some t =>
          let C := (m.headD []).length
          if (transpose (m.map unpack) (8 * C)).map pack == t ∨ m.length = 0 ∨ C = 0 then .ok
          else .unsupported "the two transposition models disagree"
      else if model != "reject" && rhs != "reject" then
        .bad "bits-transpose" "transposed matrix ≠ bit-wise transpose of the input"
      else .diff model
  | _, _ => .unsupported ("C09 " ++ op)

/-- `ot <proto> <curve> <xi> <l> <choices> => ok:<s0>|<s1>|<recv>` -/
def handleOt (args : List String) (rhs : String) : Verdict :=
  match args with
  | [_proto, _curve, xis, ls, cs] =>
    match xis.toNat?, ls.toNat?, bitString? cs with
    | some xi, some l, some choices =>
      if !rhs.startsWith "ok:" then .diff "ok:…" else
      match ((rhs.drop 3).toString).splitOn "|" with
      | [a, b, r] =>
        let s0 := splitComma a; let s1 := splitComma b; let recv := splitComma r
        if choices.length ≠ xi ∨ s0.length ≠ xi * l then .bad "ot-shape" "wrong number of outputs" else
        if correlated s0 s1 recv (repeatBits choices l) then .ok
        else .bad "ot-correlation" "recv[i] ≠ send[i][choice_i] or send[i][0] = send[i][1] for some instance"
      | _ => .unsupported "rhs"
    | _, _, _ => .unsupported "args"
  | _ => .unsupported "args"

/-- `ssrecv xi l choices sigma chi t0 t1 => U;X;T` : Receiver.Round1 as a function -/
def handleSsRecv (args : List String) (rhs : String) : Verdict :=
  match args with
  | [_xi, ls, cs, sig, chis, t0s, t1s] =>
    match ls.toNat?, bitString? cs, bytesList? sig, bfList? chis, rowsOf? t0s, rowsOf? t1s with
    | some l, some choices, some sigma, some chi, some t0, some t1 =>
      let x' := repeatBits choices l ++ unpack sigma
      let us := List.zipWith (fun a b => receiverU a b x') t0 t1
      let X := lin chi (blocksOfBits x')
      let T := t0.map fun r => lin chi (blocksOfBits r)
      mirror (rowsHex us ++ ";" ++ bf16Hex X ++ ";" ++ joinComma (T.map bf16Hex)) rhs
    | _, _, _, _, _, _ => .unsupported "args"
  | _ => .unsupported "args"

/-- `sssend xi l delta tb chi U X T => ok|abort` : Sender.Round2's consistency check -/
def handleSsSend (args : List String) (rhs : String) : Verdict :=
  match args with
  | [_xi, _l, ds, tbs, chis, us, xs, ts] =>
    match bitString? ds, rowsOf? tbs, bfList? chis, rowsOf? us, hexToNat? xs, bfList? ts with
    | some delta, some tb, some chi, some u, some x, some t =>
      if tb.length ≠ delta.length ∨ u.length ≠ delta.length then .unsupported "shape" else
      let qs := (delta.zip (tb.zip u)).map fun (d, b, w) => blocksOfBits (senderQ d b w)
      let model := if ssVerify chi ⟨x⟩ delta qs t then "ok" else "abort"
      if model == rhs then .ok
      else if rhs == "ok" then .bad "softspoken-check-accepted" "sender accepted a response that fails q̇ = ṫ + Δ·ẋ"
      else .diff model
    | _, _, _, _, _, _ => .unsupported "args"
  | _ => .unsupported "args"

def handleRvole (args : List String) (rhs : String) : Verdict :=
  match args with
  | [_variant, _curve, ps, ls, as] =>
    match hexToNat? ps, ls.toNat?, parseNatList? as with
    | some p, some l, some a => withPrime p (.unsupported "p=0") fun q =>
      if !rhs.startsWith "ok:" then .diff "ok:…" else
      match ((rhs.drop 3).toString).splitOn ";" with
      | [bs, cs, ds] =>
        match hexToNat? bs, parseNatList? cs, parseNatList? ds with
        | some b, some c, some d =>
          let aq : List (Fp q) := fpList a
          let bq : Fp q := Fp.ofNat q b
          let sums : List (Fp q) := List.zipWith (· + ·) (fpList c) (fpList d)
          if a.length ≠ l ∨ c.length ≠ l ∨ d.length ≠ l then .bad "rvole-shape" "wrong output length"
          else spec "rvole-product" (fpHexList (aq.map (· * bq))) (fpHexList sums)
        | _, _, _ => .unsupported "rhs"
      | _ => .unsupported "rhs"
    | _, _, _ => .unsupported "args"
  | _ => .unsupported "args"

instance {p : Nat} : DecidableEq (Vec (Fp p)) := fun a b =>
  if h : a.xs = b.xs then isTrue (by cases a; cases b; simp_all) else isFalse (fun e => h (by rw [e]))

/-- `rvchk p xi l rho g beta alpha0 alpha1 a ahat theta aTilde' eta' theta' muflag => c;ok:d | c;abort` -/
def handleRvchk (args : List String) (rhs : String) : Verdict :=
  match args with
  | [ps, xis, ls, rhos, gs, bs, a0s, a1s, as, ahs, ths, ats, etas, thps, mfs] =>
    match hexToNat? ps, xis.toNat?, ls.toNat?, rhos.toNat?, parseNatList? gs, bitString? bs,
          parseNatList? a0s, parseNatList? a1s, parseNatList? (as), parseNatList? ahs with
    | some p, some xi, some l, some rho, some g, some beta, some a0, some a1, some a, some ah =>
      match parseNatList? ths, parseNatList? ats, parseNatList? etas, parseNatList? thps, mfs.toNat? with
      | some th, some at', some eta, some thp, some mf => withPrime p (.unsupported "p=0") fun q =>
        let L := l + rho
        if g.length ≠ xi ∨ beta.length ≠ xi ∨ a0.length ≠ xi * L ∨ a1.length ≠ xi * L ∨ at'.length ≠ xi * L
            ∨ a.length ≠ l ∨ ah.length ≠ rho ∨ eta.length ≠ rho ∨ th.length ≠ l * rho ∨ thp.length ≠ l * rho then
          .unsupported "shape" else
        let rows (xs : List Nat) : List (Vec (Fp q)) := (chunk (fpList xs) L).map Vec.mk
        let insts : List (Inst (Fp q) (Vec (Fp q))) :=
          (List.zip (fpList g) (List.zip beta (List.zip (rows a0) (rows a1)))).map
            fun (gj, bj, x0, x1) => { g := gj, beta := bj, a0 := x0, a1 := x1 }
        let Θ := thetaMap l rho (chunk (fpList (p := q) th) rho)
        let Θ' := thetaMap l rho (chunk (fpList (p := q) thp) rho)
        let recvd := insts.zip (rows at')
        let etaV : Vec (Fp q) := ⟨fpList eta⟩
        let c := (Vec.norm L (aliceC insts)).take l
        let d := (Vec.norm L (bobD recvd)).take l
        let acc := accepts Θ Θ' etaV recvd && mf == 0
        let model := fpHexList c ++ ";" ++ (if acc then "ok:" ++ fpHexList d else "abort")
        if model == rhs then .ok
        else if !acc && (rhs.splitOn ";ok:").length == 2 then
          .bad "rvole-check-accepted" "Bob accepted check values with μ' ≠ μ (or an altered μ digest)"
        else .diff (if model.length > 200 then (model.take 200).toString ++ "…" else model)
      | _, _, _, _, _ => .unsupported "args"
    | _, _, _, _, _, _, _, _, _, _ => .unsupported "args"
  | _ => .unsupported "args"

/-- `fault … => abort@k | reject@k | completed` : implementation-side oracle (no model needed) -/
def handleFault (rhs : String) : Verdict :=
  if rhs.startsWith "abort" || rhs.startsWith "reject" then .ok
  else if rhs == "completed" then .bad "tamper-accepted" "a run with an altered consistency-check field completed"
  else .diff "abort"

def handle (op : String) (args : List String) (rhs : String) : Verdict :=
  match op with
  | "bfmul" | "bfadd" | "bfinv" | "bfdiv" | "bfmisc" => handleBf op args rhs
  | "bitspack" | "bitsrepeat" | "bitstranspose" | "bitsget" | "bitsset" | "bitsclear" | "bitsswap" | "bitstp" =>
    handleBits op args rhs
  | "ot" => handleOt args rhs
  | "ssrecv" => handleSsRecv args rhs
  | "sssend" => handleSsSend args rhs
  | "rvole" => handleRvole args rhs
  | "rvchk" => handleRvchk args rhs
  | "fault" => handleFault rhs
  | _ => .unsupported ("C09 op " ++ op)

end BronVerif.Drive.C09
