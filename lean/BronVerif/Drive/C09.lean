import BronVerif.Drive.Common
/-! Driver handlers for C09. -/
namespace BronVerif.Drive.C09
open BronVerif BronVerif.Drive

def handle (op : String) (_args : List String) (_rhs : String) : Verdict :=
  .unsupported ("C09 op " ++ op)

end BronVerif.Drive.C09
