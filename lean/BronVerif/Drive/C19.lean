import BronVerif.Drive.Common
import BronVerif.Model.Hash.Keccak
import BronVerif.Model.Hash.Sha2
import BronVerif.Model.Hash.Blake2b
/-! Driver handlers for C19. -/
namespace BronVerif.Drive.C19
open BronVerif BronVerif.Drive BronVerif.Hash

def hmacSha3_256 (key msg : ByteArray) : ByteArray := hmac sha3_256 136 key msg

/-- `hash <alg> <params…> <msg>`: evaluate the Lean model of the named primitive -/
def hashModel (alg : String) (params : List String) : Option ByteArray :=
  match alg, params with
  | "sha256", [m] => (hexToBytes? m).map sha256
  | "sha224", [m] => (hexToBytes? m).map sha224
  | "sha512", [m] => (hexToBytes? m).map sha512
  | "sha384", [m] => (hexToBytes? m).map sha384
  | "sha512_256", [m] => (hexToBytes? m).map sha512_256
  | "sha3_256", [m] => (hexToBytes? m).map sha3_256
  | "sha3_512", [m] => (hexToBytes? m).map sha3_512
  | "sha3_384", [m] => (hexToBytes? m).map sha3_384
  | "sha3_224", [m] => (hexToBytes? m).map sha3_224
  | "shake128", [n, m] => do shake128 (← hexToBytes? m) (← n.toNat?)
  | "shake256", [n, m] => do shake256 (← hexToBytes? m) (← n.toNat?)
  | "cshake128", [N, S, n, m] => do cshake128 (← hexToBytes? N) (← hexToBytes? S) (← hexToBytes? m) (← n.toNat?)
  | "cshake256", [N, S, n, m] => do cshake256 (← hexToBytes? N) (← hexToBytes? S) (← hexToBytes? m) (← n.toNat?)
  | "kmac128", [k, S, n, m] => do kmac128 (← hexToBytes? k) (← hexToBytes? S) (← hexToBytes? m) (← n.toNat?)
  | "kmac256", [k, S, n, m] => do kmac256 (← hexToBytes? k) (← hexToBytes? S) (← hexToBytes? m) (← n.toNat?)
  | "blake2b", [k, n, m] => do blake2b (← hexToBytes? k) (← hexToBytes? m) (← n.toNat?)
  | "blake2xb", [k, x, n, m] => do blake2xb (← hexToBytes? k) (← hexToBytes? m) (← x.toNat?) (← n.toNat?)
  | "hmacSha256", [k, m] => do hmacSha256 (← hexToBytes? k) (← hexToBytes? m)
  | "hmacSha512", [k, m] => do hmacSha512 (← hexToBytes? k) (← hexToBytes? m)
  | "hmacSha3_256", [k, m] => do hmacSha3_256 (← hexToBytes? k) (← hexToBytes? m)
  | "hkdfSha256", [salt, info, n, ikm] => do
      hkdfExpand sha256 64 (hkdfExtract sha256 64 (← hexToBytes? salt) (← hexToBytes? ikm)) (← hexToBytes? info) (← n.toNat?)
  | "hkdfSha3_256", [salt, info, n, ikm] => do
      hkdfExpand sha3_256 136 (hkdfExtract sha3_256 136 (← hexToBytes? salt) (← hexToBytes? ikm)) (← hexToBytes? info) (← n.toNat?)
  | _, _ => none

def handle (op : String) (args : List String) (rhs : String) : Verdict :=
  match op, args with
  | "hash", alg :: params =>
    match hashModel alg params with
    | some d => spec ("hash." ++ alg) (bytesToHex d) rhs
    | none => .unsupported ("C19 hash " ++ alg)
  | _, _ => .unsupported ("C19 op " ++ op)

end BronVerif.Drive.C19
