import BronVerif.Drive.Common
/-! Driver handlers for C19. -/
namespace BronVerif.Drive.C19
open BronVerif BronVerif.Drive

def handle (op : String) (_args : List String) (_rhs : String) : Verdict :=
  .unsupported ("C19 op " ++ op)

end BronVerif.Drive.C19
