import BronVerif.Drive.Common
import BronVerif.Model.Hash.Keccak
import BronVerif.Model.Hash.Sha2
import BronVerif.Model.Hash.Blake2b
import BronVerif.Model.Transcript
import BronVerif.Model.H2C
import BronVerif.Model.Curves
/-! Driver handlers for C19. -/
namespace BronVerif.Drive.C19
open BronVerif BronVerif.Drive BronVerif.Hash

def hmacSha3_256 (key msg : ByteArray) : ByteArray := hmac sha3_256 136 key msg

/-- `hash <alg> <params…> <msg>`: evaluate the Lean model of the named primitive -/
def hashModel (alg : String) (params : List String) : Option ByteArray :=
  match alg, params with
  | "sha256", [m] => (hexToBytes? m).map sha256
  | "sha224", [m] => (hexToBytes? m).map sha224
  | "sha512", [m] => (hexToBytes? m).map sha512
  | "sha384", [m] => (hexToBytes? m).map sha384
  | "sha512_256", [m] => (hexToBytes? m).map sha512_256
  | "sha3_256", [m] => (hexToBytes? m).map sha3_256
  | "sha3_512", [m] => (hexToBytes? m).map sha3_512
  | "sha3_384", [m] => (hexToBytes? m).map sha3_384
  | "sha3_224", [m] => (hexToBytes? m).map sha3_224
  | "shake128", [n, m] => do shake128 (← hexToBytes? m) (← n.toNat?)
  | "shake256", [n, m] => do shake256 (← hexToBytes? m) (← n.toNat?)
  | "cshake128", [N, S, n, m] => do cshake128 (← hexToBytes? N) (← hexToBytes? S) (← hexToBytes? m) (← n.toNat?)
  | "cshake256", [N, S, n, m] => do cshake256 (← hexToBytes? N) (← hexToBytes? S) (← hexToBytes? m) (← n.toNat?)
  | "kmac128", [k, S, n, m] => do kmac128 (← hexToBytes? k) (← hexToBytes? S) (← hexToBytes? m) (← n.toNat?)
  | "kmac256", [k, S, n, m] => do kmac256 (← hexToBytes? k) (← hexToBytes? S) (← hexToBytes? m) (← n.toNat?)
  | "blake2b", [k, n, m] => do blake2b (← hexToBytes? k) (← hexToBytes? m) (← n.toNat?)
  | "blake2xb", [k, x, n, m] => do blake2xb (← hexToBytes? k) (← hexToBytes? m) (← x.toNat?) (← n.toNat?)
  | "hmacSha256", [k, m] => do hmacSha256 (← hexToBytes? k) (← hexToBytes? m)
  | "hmacSha512", [k, m] => do hmacSha512 (← hexToBytes? k) (← hexToBytes? m)
  | "hmacSha3_256", [k, m] => do hmacSha3_256 (← hexToBytes? k) (← hexToBytes? m)
  | "hkdfSha256", [salt, info, n, ikm] => do
      hkdfExpand sha256 64 (hkdfExtract sha256 64 (← hexToBytes? salt) (← hexToBytes? ikm)) (← hexToBytes? info) (← n.toNat?)
  | "hkdfSha3_256", [salt, info, n, ikm] => do
      hkdfExpand sha3_256 136 (hkdfExtract sha3_256 136 (← hexToBytes? salt) (← hexToBytes? ikm)) (← hexToBytes? info) (← n.toNat?)
  | _, _ => none

/-! ### transcript scripts -/

def hexToList? (s : String) : Option (List UInt8) := (hexToBytes? s).map (·.toList)

def parseMsgs? (s : String) : Option (List (List UInt8)) :=
  if s == "." then some [] else (s.splitOn "/").mapM hexToList?

def parseCmd? (s : String) : Option Transcript.Cmd :=
  match s.splitOn ":" with
  | ["n", name] => do some (.new (← hexToList? name))
  | ["d", i, tag] => do some (.domSep (← i.toNat?) (← hexToList? tag))
  | ["a", i, label, ms] => do some (.append (← i.toNat?) (← hexToList? label) (← parseMsgs? ms))
  | ["x", i, label, n] => do some (.extract (← i.toNat?) (← hexToList? label) (← n.toNat?))
  | ["c", i] => do some (.clone (← i.toNat?))
  | _ => none

def renderEvent : Transcript.Event → String
  | none => "err"
  | some bs => bytesToHex (ByteArray.mk bs.toArray)

/-- `tr <script>`: run the script on the transcript machine with the cSHAKE256 model -/
def trModel (script : String) : Option String := do
  let cmds ← (script.splitOn ";").mapM parseCmd?
  let (_, evs) := Transcript.run Transcript.cshakeH [] cmds
  some (joinComma (evs.map renderEvent))

/-! ### RFC 9380 -/

def xmdByName? : String → Option H2C.XmdHash
  | "sha256" => some H2C.xmdSha256
  | "sha512" => some H2C.xmdSha512
  | "sha3_256" => some H2C.xmdSha3_256
  | "blake2b512" => some H2C.xmdBlake2b512
  | _ => none

def renderExpand : Option ByteArray → String
  | none => "panic"
  | some b => bytesToHex b

def xmdModel (args : List String) : Option String :=
  match args with
  | [h, dst, len, msg] => do
    some (renderExpand (H2C.expandXmd (← xmdByName? h) (← hexToBytes? dst) (← hexToBytes? msg) (← len.toNat?)))
  | _ => none

def xofModel (args : List String) : Option String :=
  match args with
  | [x, k, dst, len, msg] => do
    let X ← match x with
      | "shake128" => some shake128
      | "shake256" => some shake256
      | _ => none
    some (renderExpand (H2C.expandXof X (← k.toNat?) (← hexToBytes? dst) (← hexToBytes? msg) (← len.toNat?)))
  | _ => none

def h2fModel (args : List String) : Option String :=
  match args with
  | [p, h, L, dst, msg] => do
    let hh ← xmdByName? h
    match H2C.hashToField (H2C.expandXmd hh) (← hexToNat? p) (← L.toNat?) 1 (← hexToBytes? dst) (← hexToBytes? msg) with
    | some [x] => some (natToHex x)
    | _ => some "err"
  | _ => none

def handle (op : String) (args : List String) (rhs : String) : Verdict :=
  match op, args with
  | "hash", alg :: params =>
    match hashModel alg params with
    | some d => spec ("hash." ++ alg) (bytesToHex d) rhs
    | none => .unsupported ("C19 hash " ++ alg)
  | "tr", [script] =>
    match trModel script with
    | some m => spec "transcript.output" m rhs
    | none => .unsupported "C19 tr unparsable-script"
  | "xmd", _ =>
    match xmdModel args with
    | some m => spec "rfc9380.expand_message_xmd" m rhs
    | none => .unsupported "C19 xmd"
  | "xof", _ =>
    match xofModel args with
    | some m => spec "rfc9380.expand_message_xof" m rhs
    | none => .unsupported "C19 xof"
  | "h2f", _ =>
    match h2fModel args with
    | some m => mirror m rhs
    | none => .unsupported "C19 h2f"
  | "h2c", [curve, _dst, _msg] =>
    -- the map itself is not modelled (TODO): the property's membership clause is decided exactly
    match Curves.byName? curve with
    | none => .unsupported ("C19 h2c curve " ++ curve)
    | some C =>
      match Curves.parse? C rhs with
      | none => .bad "h2c.output" ("not a point: " ++ rhs)
      | some P =>
        if !Curves.onCurve C P then .bad "h2c.on-curve" ("hash-to-curve output is not on " ++ curve)
        else if !Curves.inSubgroup C P then .bad "h2c.subgroup" ("hash-to-curve output is not in the prime-order subgroup of " ++ curve)
        else .ok
  | _, _ => .unsupported ("C19 op " ++ op)

end BronVerif.Drive.C19
