import BronVerif.Drive.Common
import BronVerif.Model.Hash.Keccak
import BronVerif.Model.Hash.Sha2
import BronVerif.Model.Hash.Blake2b
import BronVerif.Model.Transcript
import BronVerif.Model.H2C
import BronVerif.Model.H2CMap
import BronVerif.Model.Curves
/-! Driver handlers for C19. -/
namespace BronVerif.Drive.C19
open BronVerif BronVerif.Drive BronVerif.Hash

def hmacSha3_256 (key msg : ByteArray) : ByteArray := hmac sha3_256 136 key msg

/-- `hash <alg> <params…> <msg>`: evaluate the Lean model of the named primitive -/
def hashModel (alg : String) (params : List String) : Option ByteArray :=
  match alg, params with
  | "sha256", [m] => (hexToBytes? m).map sha256
  | "sha224", [m] => (hexToBytes? m).map sha224
  | "sha512", [m] => (hexToBytes? m).map sha512
  | "sha384", [m] => (hexToBytes? m).map sha384
  | "sha512_256", [m] => (hexToBytes? m).map sha512_256
  | "sha3_256", [m] => (hexToBytes? m).map sha3_256
  | "sha3_512", [m] => (hexToBytes? m).map sha3_512
  | "sha3_384", [m] => (hexToBytes? m).map sha3_384
  | "sha3_224", [m] => (hexToBytes? m).map sha3_224
  | "shake128", [n, m] => do shake128 (← hexToBytes? m) (← n.toNat?)
  | "shake256", [n, m] => do shake256 (← hexToBytes? m) (← n.toNat?)
  | "cshake128", [N, S, n, m] => do cshake128 (← hexToBytes? N) (← hexToBytes? S) (← hexToBytes? m) (← n.toNat?)
  | "cshake256", [N, S, n, m] => do cshake256 (← hexToBytes? N) (← hexToBytes? S) (← hexToBytes? m) (← n.toNat?)
  | "kmac128", [k, S, n, m] => do kmac128 (← hexToBytes? k) (← hexToBytes? S) (← hexToBytes? m) (← n.toNat?)
  | "kmac256", [k, S, n, m] => do kmac256 (← hexToBytes? k) (← hexToBytes? S) (← hexToBytes? m) (← n.toNat?)
  | "blake2b", [k, n, m] => do blake2b (← hexToBytes? k) (← hexToBytes? m) (← n.toNat?)
  | "blake2xb", [k, x, n, m] => do blake2xb (← hexToBytes? k) (← hexToBytes? m) (← x.toNat?) (← n.toNat?)
  | "hmacSha256", [k, m] => do hmacSha256 (← hexToBytes? k) (← hexToBytes? m)
  | "hmacSha512", [k, m] => do hmacSha512 (← hexToBytes? k) (← hexToBytes? m)
  | "hmacSha3_256", [k, m] => do hmacSha3_256 (← hexToBytes? k) (← hexToBytes? m)
  | "hkdfSha256", [salt, info, n, ikm] => do
      hkdfExpand sha256 64 (hkdfExtract sha256 64 (← hexToBytes? salt) (← hexToBytes? ikm)) (← hexToBytes? info) (← n.toNat?)
  | "hkdfSha3_256", [salt, info, n, ikm] => do
      hkdfExpand sha3_256 136 (hkdfExtract sha3_256 136 (← hexToBytes? salt) (← hexToBytes? ikm)) (← hexToBytes? info) (← n.toNat?)
  | _, _ => none

/-! ### transcript scripts -/

def hexToList? (s : String) : Option (List UInt8) := (hexToBytes? s).map (·.toList)

def parseMsgs? (s : String) : Option (List (List UInt8)) :=
  if s == "." then some [] else (s.splitOn "/").mapM hexToList?

def parseCmd? (s : String) : Option Transcript.Cmd :=
  match s.splitOn ":" with
  | ["n", name] => do some (.new (← hexToList? name))
  | ["d", i, tag] => do some (.domSep (← i.toNat?) (← hexToList? tag))
  | ["a", i, label, ms] => do some (.append (← i.toNat?) (← hexToList? label) (← parseMsgs? ms))
  | ["x", i, label, n] => do some (.extract (← i.toNat?) (← hexToList? label) (← n.toNat?))
  | ["c", i] => do some (.clone (← i.toNat?))
  | _ => none

def renderEvent : Transcript.Event → String
  | none => "err"
  | some bs => bytesToHex (ByteArray.mk bs.toArray)

/-- `tr <script>`: run the script on the transcript machine with the cSHAKE256 model -/
def trModel (script : String) : Option String := do
  let cmds ← (script.splitOn ";").mapM parseCmd?
  let (_, evs) := Transcript.run Transcript.cshakeH [] cmds
  some (joinComma (evs.map renderEvent))

/-! ### RFC 9380 -/

def xmdByName? : String → Option H2C.XmdHash
  | "sha256" => some H2C.xmdSha256
  | "sha512" => some H2C.xmdSha512
  | "sha3_256" => some H2C.xmdSha3_256
  | "blake2b512" => some H2C.xmdBlake2b512
  | _ => none

def renderExpand : Option ByteArray → String
  | none => "panic"
  | some b => bytesToHex b

def xmdModel (args : List String) : Option String :=
  match args with
  | [h, dst, len, msg] => do
    some (renderExpand (H2C.expandXmd (← xmdByName? h) (← hexToBytes? dst) (← hexToBytes? msg) (← len.toNat?)))
  | _ => none

def xofModel (args : List String) : Option String :=
  match args with
  | [x, k, dst, len, msg] => do
    let X ← match x with
      | "shake128" => some shake128
      | "shake256" => some shake256
      | _ => none
    some (renderExpand (H2C.expandXof X (← k.toNat?) (← hexToBytes? dst) (← hexToBytes? msg) (← len.toNat?)))
  | _ => none

def h2fModel (args : List String) : Option String :=
  match args with
  | [p, h, L, dst, msg] => do
    let hh ← xmdByName? h
    match H2C.hashToField (H2C.expandXmd hh) (← hexToNat? p) (← L.toNat?) 1 (← hexToBytes? dst) (← hexToBytes? msg) with
    | some [x] => some (natToHex x)
    | _ => some "err"
  | _ => none

/-- field element(s) `c0[/c1]` -/
def parseElem? (s : String) : Option (List Nat) := (s.splitOn "/").mapM hexToNat?

def renderElem (cs : List Nat) : String := "/".intercalate (cs.map natToHex)

/-- Decide a hash-to-curve output against the property: the point must be on the curve, in the prime-order
subgroup, and equal `clear_cofactor(map(u0) + map(u1))` computed from the *straight-line RFC 9380
specification* (`H2C.refMap`, published suite constants, `h_eff`).  The formulas regenerated from the Go
source (`H2C.genMap`) must give the same two mapped points; a difference there alone is a broken tie
(`DIFF`), not a failing input. -/
def h2cDecide (curve : String) (us : List (List Nat)) (rhs : String) : Verdict :=
  match Curves.byName? curve, H2C.rfcSuite? curve with
  | some C, some S =>
    if rhs.startsWith "err:script" then .unsupported ("C19 h2cmap " ++ rhs) else
    match Curves.parse? C rhs with
    | none => .bad "h2c.output" ("not a point: " ++ rhs)
    | some P =>
      if !Curves.onCurve C P then .bad "h2c.on-curve" ("hash-to-curve output is not on " ++ curve)
      else if !Curves.inSubgroup C P then .bad "h2c.subgroup" ("hash-to-curve output is not in the prime-order subgroup of " ++ curve)
      else match us with
      | [u0, u1] =>
        match H2C.refMap curve u0, H2C.refMap curve u1, H2C.genMap curve u0, H2C.genMap curve u1 with
        | some r0, some r1, some g0, some g1 =>
          if !(Curves.onCurve C r0 && Curves.onCurve C r1) then .unsupported ("C19 reference map of " ++ curve ++ " left the curve")
          else
            let ref := Curves.render C (H2C.combine C S.hEff r0 r1)
            if ref != rhs then
              -- RFC 9380 §6.6.3: a point of the isogeny's kernel is mapped to the identity
              .bad (if r0 == .inf || r1 == .inf then "h2c.iso-kernel" else "h2c.rfc") ("expected=" ++ ref ++ " observed=" ++ rhs ++ " u=" ++ renderElem u0 ++ "," ++ renderElem u1)
            else if g0 != r0 || g1 != r1 then
              .diff ("generated-map=" ++ Curves.render C g0 ++ "," ++ Curves.render C g1 ++ " reference-map=" ++ Curves.render C r0 ++ "," ++ Curves.render C r1)
            else .ok
        | _, _, _, _ => .unsupported ("C19 h2c map " ++ curve)
      | _ => .unsupported "C19 h2c field elements"
  | _, _ => .unsupported ("C19 h2c curve " ++ curve)

def h2cHashed (curve : String) (dst msg : Option ByteArray) (rhs : String) : Verdict :=
  match dst, msg with
  | some d, some m =>
    match H2C.h2cFieldElems curve d m with
    | some us => h2cDecide (H2C.modelCurve curve) us rhs
    | none => .unsupported ("C19 h2c hash_to_field " ++ curve)
  | _, _ => .unsupported "C19 h2c arguments"

def handle (op : String) (args : List String) (rhs : String) : Verdict :=
  match op, args with
  | "hash", alg :: params =>
    match hashModel alg params with
    | some d => spec ("hash." ++ alg) (bytesToHex d) rhs
    | none => .unsupported ("C19 hash " ++ alg)
  | "tr", [script] =>
    match trModel script with
    | some m => spec "transcript.output" m rhs
    | none => .unsupported "C19 tr unparsable-script"
  | "xmd", _ =>
    match xmdModel args with
    | some m => spec "rfc9380.expand_message_xmd" m rhs
    | none => .unsupported "C19 xmd"
  | "xof", _ =>
    match xofModel args with
    | some m => spec "rfc9380.expand_message_xof" m rhs
    | none => .unsupported "C19 xof"
  | "h2f", _ =>
    match h2fModel args with
    | some m => mirror m rhs
    | none => .unsupported "C19 h2f"
  -- `h2fs <curve> <modulus> <msg>`: ScalarField.Hash — the suite string, L and expander are the regenerated ones
  | "h2fs", [curve, p, msg] =>
    match H2C.genScalarSuite? curve, hexToNat? p, hexToBytes? msg with
    | some (suite, L, exp), some p, some m =>
      match H2C.xmdByName? exp with
      | some X =>
        match H2C.hashToField (H2C.expandXmd X) p L 1 (Gen.H2CMaps.appTag ++ suite).toUTF8 m with
        | some [x] => spec "rfc9380.hash_to_field" (natToHex x) rhs
        | _ => .unsupported "C19 h2fs model"
      | none => .unsupported ("C19 h2fs expander " ++ exp)
    | _, _, _ => .unsupported "C19 h2fs"
  -- `h2fb <curve> <msg>`: BaseField.Hash (one element of the curve's base field under the curve's default DST)
  | "h2fb", [curve, msg] =>
    match H2C.genSuite? curve, Curves.byName? (if curve == "curve25519" then "ed25519" else curve), H2C.defaultDst? curve, hexToBytes? msg with
    | some G, some C, some d, some m =>
      match H2C.xmdByName? G.expander with
      | some X =>
        match H2C.hashToFieldM (H2C.expandXmd X) C.p G.m G.L 1 d m with
        | some [e] => spec "rfc9380.hash_to_field" (renderElem e) rhs
        | _ => .unsupported "C19 h2fb model"
      | none => .unsupported ("C19 h2fb expander " ++ G.expander)
    | _, _, _, _ => .unsupported "C19 h2fb"
  -- `h2c <curve> <dst> <msg>`: HashWithDst
  | "h2c", [curve, dst, msg] => h2cHashed curve (hexToBytes? dst) (hexToBytes? msg) rhs
  -- `h2cdef <curve> <msg>`: Hash — the default DST is `appTag ++ suite` as regenerated from the source
  | "h2cdef", [curve, msg] => h2cHashed curve (H2C.defaultDst? curve) (hexToBytes? msg) rhs
  -- `h2cmap <curve> <u0> <u1>`: the point obtained from chosen field elements (Curve.Random with a scripted reader)
  | "h2cmap", [curve, u0, u1] =>
    match parseElem? u0, parseElem? u1 with
    | some a, some b => h2cDecide curve [a, b] rhs
    | _, _ => .unsupported "C19 h2cmap"
  -- `h2cvec <curve> <dst> <msg> <expected>`: published test vector of the suite
  | "h2cvec", [curve, dst, msg, expected] =>
    if rhs != expected then .bad "h2c.rfc-vector" ("expected=" ++ expected ++ " observed=" ++ rhs)
    else h2cHashed curve (hexToBytes? dst) (hexToBytes? msg) rhs
  -- `h2chyp <curve>`: the hypotheses of the map theorems hold for the suite's constants (a failure is a broken tie)
  | "h2chyp", [curve] =>
    match H2C.theoremHypotheses curve with
    | some hs =>
      match hs.filter (fun h => !h.2) with
      | [] => mirror "ok" rhs
      | bad => .diff ("hypotheses failing for " ++ curve ++ ": " ++ ", ".intercalate (bad.map (·.1)))
    | none => .unsupported ("C19 h2chyp " ++ curve)
  | _, _ => .unsupported ("C19 op " ++ op)

end BronVerif.Drive.C19
