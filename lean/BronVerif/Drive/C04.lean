import BronVerif.Drive.Common
import BronVerif.Model.CheckGraph
import BronVerif.Model.CheckGraphs
import BronVerif.Model.CheckGraphVec
/-! Driver handlers for C04 (tamper matrix against the check graphs).

Lines (see harness/c04.go):

    C04 honest <proto> <cfg> <ids> => <id=class;…>|agg=<class>|out=<valid|none|invalid:…>
    C04 tamper <proto> <cfg> <round> <sender> <rcpt|b> <path> <op> <changed> <ids> => (same rhs)

Verdict of a tampering, from the check graph of `<proto>` (`Model/CheckGraphs.lean`):

* an honest party (≠ sender) or the aggregator that panics / hangs            ⇒ BAD `panic` / `hang`
  (every BAD carries `site=<proto>/r<round>/<b|u>/<normalised path>/<op>`, the stable identifier of a finding)
* … that blames anybody but the sender                                        ⇒ BAD `blamed-honest`
* a released output that the independent verifiers reject                      ⇒ BAD `bad-output-released`
* site classified **bound** (or structural: container shape, whole message) and the decoded value
  changed (or the message is missing), but no honest receiver / aggregator rejects — for a unicast:
  the recipient does not reject                                                ⇒ BAD `accepted-bound-leaf`
  when every predicate binding the leaf is tagged, the first rejecting party must blame exactly the
  sender (otherwise DIFF: the model's tag expectation is not met);
* value-preserving re-encoding: may be accepted;
* **unbound** leaf: any outcome, but if everybody accepts the outputs must be valid;
* a site the graph does not know                                               ⇒ UNSUPPORTED.

RELATIONAL tamperings (harness/c04_rel.go) change two sites together so that sums / aggregates stay
intact: `<path>` is `<pathA>~<pathB>` (pshift pscale vswap: both sites change; vcopy: only B), the
site class is the stronger of the two (bound > structural > unbound); between the unicasts to two
recipients `<rcpt>` is `<A>+<B>` and `<changed>` is `<cA>+<cB>`: EACH recipient whose message changed
must reject. A bound vector-valued leaf (`Graph.vectors`) must be bound by a per-row family
(`Pred.perRow`): the prediction "rejected, sender blamed" for a paired shift inside such a vector
rests on the per-component form of the check (`Props/C04.lean`, `detect_boldyreva_component`).

COHERENT deviations (harness/c04_coh.go)

    C04 coherent <proto> <cfg> <kind> <deviator> <lo|mid|hi> <changed> <ids> => (same rhs)

the deviator's messages are mutually consistent (substituted input, consistent dealing of another
value, changed claim about the past with everything derived from it). `<kind>` must be declared in
`Graph.coherent`; verdict: sanity as above; a released output that is invalid for the ORIGINAL public
key ⇒ BAD `bad-output-released`; nobody honest (nor the aggregator) rejects ⇒ BAD
`accepted-coherent-deviation` (the predicates of `caughtBy` are the ones that must have fired), unless
`<changed>` is 0: no message of the deviator differs from the honest run (the substituted input is
not used) — then everybody may accept and the outputs must be valid.
-/
namespace BronVerif.Drive.C04
open BronVerif BronVerif.Drive BronVerif.CheckGraph

structure Outcome where
  parties : List (Nat × String)
  agg : String
  out : String

def parseOutcome (rhs : String) : Option Outcome :=
  match rhs.splitOn "|" with
  | [st, ag, ou] =>
    if !(ag.startsWith "agg=") || !(ou.startsWith "out=") then none else
    let ps := (st.splitOn ";").mapM fun t =>
      match t.splitOn "=" with
      | [i, c] => (i.toNat?).map fun n => (n, c)
      | _ => none
    ps.map fun p => { parties := p, agg := (ag.drop 4).toString, out := (ou.drop 4).toString }
  | _ => none

def blamedOf (cls : String) : List Nat :=
  if cls.startsWith "abort-blame:" then ((cls.drop 12).toString.splitOn ",").filterMap String.toNat? else []

def isOk (cls : String) : Bool := cls == "ok"

/-- sanity of one honest class: no panic, no hang, blames only the sender -/
def classBad (who : String) (sender : Nat) (cls : String) : Option Verdict :=
  let cls := if cls.startsWith "alt-" then (cls.drop 4).toString else cls
  if cls.startsWith "panic" then some (.bad "panic" (who ++ " " ++ cls))
  else if cls == "hang" then some (.bad "hang" who)
  else if (blamedOf cls).any (· != sender) then some (.bad "blamed-honest" (who ++ " " ++ cls))
  else none

def firstSome {α} : List (Option α) → Option α
  | [] => none
  | some a :: _ => some a
  | none :: r => firstSome r

/-- the stronger of two site classes: unknown > bound > structural > unbound -/
def strongerClass : SiteClass → SiteClass → SiteClass
  | .unknown, _ => .unknown
  | _, .unknown => .unknown
  | .boundLeaf l ps, .boundLeaf _ qs => .boundLeaf l (ps ++ qs.filter fun q => !ps.contains q)
  | .boundLeaf l ps, _ => .boundLeaf l ps
  | _, .boundLeaf l ps => .boundLeaf l ps
  | .structural, _ => .structural
  | _, .structural => .structural
  | c, _ => c

/-- class of the path token of a line: `a~b` for the relational operators (`vcopy` changes only `b`) -/
def classifyToken (g : Graph) (round : Nat) (kind : Kind) (path op : String) : SiteClass :=
  match path.splitOn "~" with
  | [a, b] =>
    if op == "vcopy" then g.classify round kind b
    else strongerClass (g.classify round kind a) (g.classify round kind b)
  | _ => g.classify round kind path

/-- a bound leaf under a declared vector must be bound by a per-row family -/
def vectorBoundPerRow (g : Graph) (l : Leaf) (ps : List Pred) : Bool :=
  !(g.vectors.contains l) || ps.any (·.perRow)

def normToken (path : String) : String := "~".intercalate ((path.splitOn "~").map normPath)

def handleTamper (g : Graph) (round sender : Nat) (rcpt path op changed : String) (o : Outcome) : Verdict :=
  let honest := o.parties.filter (·.1 != sender)
  let aggPresent := o.agg != "-"
  let kind := if rcpt == "b" then Kind.bcast else Kind.ucast
  -- stable identifier of the tampered site (the same token is in the harness's !VIOLATION lines)
  let site := "site=" ++ g.proto ++ "/r" ++ toString round ++ "/" ++ (if rcpt == "b" then "b" else "u") ++ "/" ++
    normToken path ++ "/" ++ op
  let sane := firstSome ((honest.map fun (i, c) => classBad ("party-" ++ toString i ++ " " ++ site) sender c) ++
    [if aggPresent then classBad ("aggregator " ++ site) sender o.agg else none])
  match sane with
  | some v => v
  | none =>
  if o.out.startsWith "invalid" then .bad "bad-output-released" (o.out ++ " " ++ site) else
  let aggRejects := aggPresent && o.agg != "ok" && o.agg != "none"
  let rejecting := honest.filter fun (_, c) => !isOk c
  -- a deviator that aborts itself ends the run before anybody accepted anything (the round-by-round
  -- runner stops there; on a network the others would wait for its next message): no acceptance
  let senderStopped := (o.parties.any fun (i, c) => i == sender && !isOk c) && o.out == "none"
  let rejected := !rejecting.isEmpty || aggRejects || senderStopped
  -- recipients and their `changed` flags: `A+B` / `cA+cB` for the relational operators between two unicasts
  let rcpts := rcpt.splitOn "+"
  let flags := changed.splitOn "+"
  let oneRejected (r : Nat) : Bool :=
    (honest.any fun (i, c) => i == r && !isOk c) || (!(honest.any fun (i, _) => i == r)) || senderStopped
  let rcptRejected : Bool :=
    if rcpt == "b" then rejected else
    (rcpts.zip (if flags.length == rcpts.length then flags else rcpts.map fun _ => changed)).all fun (r, f) =>
      match r.toNat? with
      | some n => f == "0" || oneRejected n
      | none => false
  let deviation := flags.any (· != "0")
  let missing := flags.any fun f => f == "u" || f == "d"
  let accepted := !rejected
  let outOk : Verdict :=
    if accepted && o.out != "valid" then .bad "bad-output-released" ("accepted but out=" ++ o.out ++ " " ++ site) else .ok
  let mustReject (what : String) (tagged toAggregator : Bool) : Verdict :=
    if !deviation then outOk
    -- a missing partial signature: the aggregator may still succeed with the remaining qualified set
    else if toAggregator && missing then outOk
    else if !rejected then .bad "accepted-bound-leaf" (what ++ " accepted by every honest party " ++ site)
    else if !rcptRejected then .bad "accepted-bound-leaf" (what ++ " not rejected by its recipient " ++ rcpt ++ " " ++ site)
    else if tagged && !senderStopped then
      -- the first rejecting party blames exactly the sender
      let want := "abort-blame:" ++ toString sender
      match rejecting.head? with
      | some (_, c) => if c == want then .ok else .diff (want ++ " (tagged predicate) observed=" ++ c)
      | none => if o.agg == want then .ok else .diff (want ++ " (tagged aggregator check) observed=" ++ o.agg)
    else .ok
  -- messages of the round after the last receiver predicate go to the aggregator
  let toAgg := g.preds.any fun p => p.who == .aggregator && p.binds.any fun l => l.round == round && l.kind == kind
  match classifyToken g round kind path op with
  | .unknown => .unsupported ("site not in the check graph of " ++ g.proto ++ ": r" ++ toString round ++ " " ++ rcpt ++ " " ++ path)
  | .structural => mustReject ("structural site " ++ path) false toAgg
  | .boundLeaf l ps =>
    if !vectorBoundPerRow g l ps then
      .unsupported ("vector-valued leaf " ++ l.path ++ " of " ++ g.proto ++ " is not bound by a per-row predicate family")
    else mustReject ("bound leaf " ++ l.path ++ " (" ++ ",".intercalate (ps.map fun p => p.name ++ (if p.perRow then "[row]" else "")) ++ ")") (ps.all (·.tagged)) toAgg
  | .unboundLeaf _ => outOk

def handleCoherent (g : Graph) (kind : String) (dev : Nat) (changed : String) (o : Outcome) : Verdict :=
  match g.coherent.find? (·.kind == kind) with
  | none => .unsupported ("coherent deviation " ++ kind ++ " is not declared in the check graph of " ++ g.proto)
  | some c =>
  let honest := o.parties.filter (·.1 != dev)
  let aggPresent := o.agg != "-"
  let site := "site=" ++ g.proto ++ "/coherent/" ++ kind
  let sane := firstSome ((honest.map fun (i, cl) => classBad ("party-" ++ toString i ++ " " ++ site) dev cl) ++
    [if aggPresent then classBad ("aggregator " ++ site) dev o.agg else none])
  match sane with
  | some v => v
  | none =>
  if o.out.startsWith "invalid" then .bad "bad-output-released" (o.out ++ " " ++ site) else
  let aggRejects := aggPresent && o.agg != "ok" && o.agg != "none"
  let senderStopped := (o.parties.any fun (i, cl) => i == dev && !isOk cl) && o.out == "none"
  let rejected := (honest.any fun (_, cl) => !isOk cl) || aggRejects || senderStopped
  if !rejected && changed == "0" then
    (if o.out == "valid" then .ok else .bad "bad-output-released" ("accepted but out=" ++ o.out ++ " " ++ site))
  else if !rejected then
    .bad "accepted-coherent-deviation" ("no honest party rejected; expected one of " ++ ",".intercalate c.caughtBy ++ " " ++ site)
  else if o.out != "none" && o.out != "valid" then .bad "bad-output-released" (o.out ++ " " ++ site)
  else .ok

def handle (op : String) (args : List String) (rhs : String) : Verdict :=
  match op, args with
  | "honest", [proto, _cfg, _ids] =>
    match graphOf proto, parseOutcome rhs with
    | none, _ => .unsupported ("no check graph for " ++ proto)
    | _, none => .unsupported "rhs"
    | some _, some o =>
      if o.parties.all (fun (_, c) => isOk c) && (o.agg == "-" || o.agg == "ok") && o.out == "valid" then .ok
      else .bad "honest-run-failed" rhs
  | "tamper", [proto, _cfg, round, sender, rcpt, path, op, changed, _ids] =>
    match graphOf proto, round.toNat?, sender.toNat?, parseOutcome rhs with
    | some g, some r, some s, some o => handleTamper g r s rcpt path op changed o
    | none, _, _, _ => .unsupported ("no check graph for " ++ proto)
    | _, _, _, _ => .unsupported "args"
  | "coherent", [proto, _cfg, kind, dev, _pos, changed, _ids] =>
    match graphOf proto, dev.toNat?, parseOutcome rhs with
    | some g, some d, some o => handleCoherent g kind d changed o
    | none, _, _ => .unsupported ("no check graph for " ++ proto)
    | _, _, _ => .unsupported "args"
  | _, _ => .unsupported ("C04 op " ++ op)

end BronVerif.Drive.C04
