import BronVerif.Drive.Common
/-! Driver handlers for C04. -/
namespace BronVerif.Drive.C04
open BronVerif BronVerif.Drive

def handle (op : String) (_args : List String) (_rhs : String) : Verdict :=
  .unsupported ("C04 op " ++ op)

end BronVerif.Drive.C04
