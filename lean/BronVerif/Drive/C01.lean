import BronVerif.Drive.Common
import BronVerif.Drive.C03
import BronVerif.Model.SignAlg
/-! Driver handlers for C01 (threshold signing): independent verification of the emitted signature in
model curve arithmetic, with the message digest / challenge scalar as an explicit argument. -/
namespace BronVerif.Drive.C01
open BronVerif BronVerif.Drive BronVerif.LinAlg BronVerif.SignAlg

def pt (C : Curves.Params) (s : String) : Option (GPt C) := (Curves.parse? C s).map fun p => ⟨p⟩

def yIsOdd (C : Curves.Params) (P : GPt C) : Bool :=
  match P.pt.coords with
  | some (_, [y]) => y % 2 == 1
  | _ => false

def gneg (C : Curves.Params) (P : GPt C) : GPt C := ⟨Curves.neg C P.pt⟩

def handleEcdsa (C : Curves.Params) (pkS mS rS sS noncesS pksS : String) : Verdict :=
  withPrime C.n (.unsupported "n=0") fun q =>
  match pt C pkS, hexToNat? mS, hexToNat? rS, hexToNat? sS, C03.parsePts C noncesS, C03.parsePts C pksS with
  | some pk, some m, some r, some s, some nonces, some pkShares =>
    let g := GPt.gen C
    let mF : Fp q := Fp.ofNat q m
    let rF : Fp q := Fp.ofNat q r
    let sF : Fp q := Fp.ofNat q s
    if r ≥ q ∨ s ≥ q then .bad "ecdsa-scalar-range" "r or s is not a canonical scalar" else
    if !(ecdsaVerify g pk (GPt.xScalar C (q := q)) mF rF sF) then
      .bad "ecdsa-invalid" "independent verification of (r,s) against pk and the digest scalar fails" else
    if !nonces.isEmpty && GPt.xScalar C (q := q) (gsum nonces) != some rF then
      .bad "ecdsa-r-not-x-of-sum-R" "r differs from x(Σ Rᵢ) mod n of the broadcast nonce points" else
    if !pkShares.isEmpty && decide (gsum pkShares ≠ pk) then
      .bad "ecdsa-pkshares-sum" "broadcast additive public key shares do not sum to pk" else .ok
  | _, _, _, _, _, _ => .unsupported "parse"

def handleSchnorr (C : Curves.Params) (variant pkS eS RS sS noncesS : String) : Verdict :=
  withPrime C.n (.unsupported "n=0") fun q =>
  match pt C pkS, hexToNat? eS, pt C RS, hexToNat? sS, C03.parsePts C noncesS with
  | some pk, some e, some R, some s, some nonces =>
    let g := GPt.gen C
    let eF : Fp q := Fp.ofNat q e
    let sF : Fp q := Fp.ofNat q s
    if s ≥ q then .bad "schnorr-scalar-range" "s is not a canonical scalar" else
    let sumR := gsum nonces
    match variant with
    | "vanilla" =>
      if !(schnorrVerify g pk R eF sF false) then .bad "schnorr-invalid" "s•G ≠ R + e•pk" else
      if !nonces.isEmpty && decide (sumR ≠ R) then .bad "schnorr-R-not-sum" "R differs from Σ Rᵢ" else .ok
    | "bip340" =>
      let pk' := if yIsOdd C pk then gneg C pk else pk
      if yIsOdd C R then .bad "bip340-R-odd" "R has odd y" else
      if !(schnorrVerify g pk' R eF sF false) then .bad "schnorr-invalid" "s•G ≠ R + e•lift_x(pk)" else
      if !nonces.isEmpty && decide (sumR ≠ R) && decide (gneg C sumR ≠ R) then
        .bad "schnorr-R-not-sum" "R differs from ±Σ Rᵢ" else .ok
    | v => .unsupported ("variant " ++ v)
  | _, _, _, _, _ => .unsupported "parse"

def handleAddConv (C : Curves.Params) (rs cs labelsS ms vS pkS qS : String) : Verdict :=
  withPrime C.n (.unsupported "n=0") fun q =>
  match rs.toNat?, cs.toNat?, parseDecList? labelsS, C03.parsePts C vS, pt C pkS, parseDecList? qS with
  | some rows, some cols, some labels, some V, some pk, some quorum =>
    match C03.parseMat (p := q) rows cols ms with
    | none => .unsupported "matrix"
    | some M =>
      if labels.length ≠ rows ∨ V.length ≠ cols then .unsupported "shape" else
      if decide (V.head? ≠ some pk) then .bad "pk-not-V0" "pk differs from V[0]" else
      match liftedReconstruct M cols labels (fun k => gdot (M.getD k []) V) quorum with
      | none => .bad "quorum-not-spanning" s!"e0 is not in the span of the rows of the signing quorum {quorum}"
      | some P => if decide (P = pk) then .ok
                  else .bad "additive-conversion" "Σ coeff • pkShare over the quorum differs from pk"
  | _, _, _, _, _, _ => .unsupported "args"

def handle (op : String) (args : List String) (rhs : String) : Verdict :=
  if rhs != "ok" then .unsupported ("rhs " ++ rhs) else
  match op, args with
  | "ecdsa", [_proto, curve, pk, _msg, _digest, m, r, s, nonces, pks] =>
    match Curves.byName? curve with
    | none => .unsupported ("curve " ++ curve)
    | some C => handleEcdsa C pk m r s nonces pks
  | "schnorr", [variant, curve, pk, _msg, e, R, s, nonces] =>
    match Curves.byName? curve with
    | none => .unsupported ("curve " ++ curve)
    | some C => handleSchnorr C variant pk e R s nonces
  | "addconv", [curve, rs, cs, labels, ms, v, pk, q] =>
    match Curves.byName? curve with
    | none => .unsupported ("curve " ++ curve)
    | some C => handleAddConv C rs cs labels ms v pk q
  | _, _ => .unsupported ("C01 op " ++ op)

end BronVerif.Drive.C01
