import BronVerif.Drive.Common
/-! Driver handlers for C01. -/
namespace BronVerif.Drive.C01
open BronVerif BronVerif.Drive

def handle (op : String) (_args : List String) (_rhs : String) : Verdict :=
  .unsupported ("C01 op " ++ op)

end BronVerif.Drive.C01
