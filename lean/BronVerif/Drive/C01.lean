import BronVerif.Drive.Common
import BronVerif.Drive.C03
import BronVerif.Model.SignAlg
import BronVerif.Model.Hash.Sha2
import BronVerif.Model.Hash.Keccak
import BronVerif.Model.Hash.Blake2b
/-! Driver handlers for C01 (threshold signing): independent verification of the emitted signature in
model curve arithmetic.  The message digest (ECDSA) and the Fiat–Shamir challenge (BIP-340 and the
configurable Schnorr scheme) are recomputed from the message itself with the hash models of
`Model/Hash`; the values the implementation printed are only compared (a difference there is a broken
tie, `DIFF`, because the property speaks about verification of the message, which the driver decides
with its own value).  The Mina challenge (Poseidon) and the BLS hash-to-curve point are taken from the
line. -/
namespace BronVerif.Drive.C01
open BronVerif BronVerif.Drive BronVerif.LinAlg BronVerif.SignAlg

def pt (C : Curves.Params) (s : String) : Option (GPt C) := (Curves.parse? C s).map fun p => ⟨p⟩

def yIsOdd (C : Curves.Params) (P : GPt C) : Bool :=
  match P.pt.coords with
  | some (_, [y]) => y % 2 == 1
  | _ => false

def gneg (C : Curves.Params) (P : GPt C) : GPt C := ⟨Curves.neg C P.pt⟩

/-! ### hashes, digest-to-scalar, challenges -/

def hashByName? : String → Option (ByteArray → ByteArray)
  | "sha256" => some Hash.sha256
  | "sha512" => some Hash.sha512
  | "sha3-256" => some Hash.sha3_256
  | "blake2b-256" => some Hash.blake2b256
  | _ => none

/-- `ecdsa.DigestToScalar` = FIPS 186-5 bits2int followed by reduction: the leftmost
`min(len, ⌈bits/8⌉)` bytes, right-shifted to `bits` bits, mod `n` -/
def digestToScalar (n : Nat) [NeZero n] (digest : ByteArray) : Fp n :=
  let bits := n.log2 + 1
  let size := (bits + 7) / 8
  if digest.size ≥ size then
    let v := bytesToNatBE (digest.extract 0 size)
    Fp.ofNat n (v >>> (size * 8 - bits))
  else Fp.ofNat n (bytesToNatBE digest)

/-- canonical encodings hashed by the configurable Schnorr challenge (`Point.Bytes()`): SEC1
compressed for k256/p256, RFC 8032 for ed25519; other curves: not modelled -/
def encodePoint (C : Curves.Params) (P : GPt C) : Option ByteArray :=
  match P.pt.coords with
  | some ([x], [y]) =>
    if Curves.isZero C P.pt then none else
    if C.name == "k256" || C.name == "p256" then
      some (ByteArray.mk #[if y % 2 == 0 then 2 else 3] ++ natToBytesBE x 32)
    else if C.name == "ed25519" then
      some (natToBytesLE (y + (x % 2) * 2 ^ 255) 32)
    else none
  | _ => none

/-- `MakeGenericChallenge`: `H(R ‖ P ‖ m)`, digest byte-reversed when `le`, reduced mod `n` -/
def vanillaChallenge (C : Curves.Params) {q : Nat} [NeZero q] (H : ByteArray → ByteArray) (le : Bool)
    (R pk : GPt C) (msg : ByteArray) : Option (Fp q) :=
  match encodePoint C R, encodePoint C pk with
  | some rb, some pb =>
    let d := H (rb ++ pb ++ msg)
    some (Fp.ofNat q (if le then bytesToNatLE d else bytesToNatBE d))
  | _, _ => none

/-- BIP-340: tagged SHA-256 of `x(R) ‖ x(P) ‖ m`, reduced mod `n` -/
def bip340Challenge (C : Curves.Params) {q : Nat} [NeZero q] (R pk : GPt C) (msg : ByteArray) : Option (Fp q) :=
  match R.pt.coords, pk.pt.coords with
  | some ([rx], _), some ([px], _) =>
    let tag := Hash.sha256 "BIP0340/challenge".toUTF8
    some (Fp.ofNat q (bytesToNatBE (Hash.sha256 (tag ++ tag ++ natToBytesBE rx 32 ++ natToBytesBE px 32 ++ msg))))
  | _, _ => none

inductive Flavour where
  | bip340
  | mina
  | vanilla (hash : String) (neg le : Bool)

def parseFlavour (s : String) : Option Flavour :=
  if s == "bip340" then some .bip340 else
  if s.startsWith "mina-" then some .mina else
  match s.splitOn ":" with
  | ["vanilla", h, n, l] =>
    if (n == "0" || n == "1") && (l == "0" || l == "1") then some (.vanilla h (n == "1") (l == "1")) else none
  | _ => none

/-! ### handlers with the digest scalar / challenge as an explicit argument (used by the C06 driver,
whose sign-after-epoch lines carry only the scalar) -/

def handleEcdsa (C : Curves.Params) (pkS mS rS sS noncesS pksS : String) : Verdict :=
  withPrime C.n (.unsupported "n=0") fun q =>
  match pt C pkS, hexToNat? mS, hexToNat? rS, hexToNat? sS, C03.parsePts C noncesS, C03.parsePts C pksS with
  | some pk, some m, some r, some s, some nonces, some pkShares =>
    let g := GPt.gen C
    let mF : Fp q := Fp.ofNat q m
    let rF : Fp q := Fp.ofNat q r
    let sF : Fp q := Fp.ofNat q s
    if r ≥ q ∨ s ≥ q then .bad "ecdsa-scalar-range" "r or s is not a canonical scalar" else
    if !(ecdsaVerify g pk (GPt.xScalar C (q := q)) mF rF sF) then
      .bad "ecdsa-invalid" "independent verification of (r,s) against pk and the digest scalar fails" else
    if !nonces.isEmpty && GPt.xScalar C (q := q) (gsum nonces) != some rF then
      .bad "ecdsa-r-not-x-of-sum-R" "r differs from x(Σ Rᵢ) mod n of the broadcast nonce points" else
    if !pkShares.isEmpty && decide (gsum pkShares ≠ pk) then
      .bad "ecdsa-pkshares-sum" "broadcast additive public key shares do not sum to pk" else .ok
  | _, _, _, _, _, _ => .unsupported "parse"

def handleSchnorr (C : Curves.Params) (variant pkS eS RS sS noncesS : String) : Verdict :=
  withPrime C.n (.unsupported "n=0") fun q =>
  match pt C pkS, hexToNat? eS, pt C RS, hexToNat? sS, C03.parsePts C noncesS with
  | some pk, some e, some R, some s, some nonces =>
    let g := GPt.gen C
    let eF : Fp q := Fp.ofNat q e
    let sF : Fp q := Fp.ofNat q s
    if s ≥ q then .bad "schnorr-scalar-range" "s is not a canonical scalar" else
    let sumR := gsum nonces
    match variant with
    | "vanilla" =>
      if !(schnorrVerify g pk R eF sF false) then .bad "schnorr-invalid" "s•G ≠ R + e•pk" else
      if !nonces.isEmpty && decide (sumR ≠ R) then .bad "schnorr-R-not-sum" "R differs from Σ Rᵢ" else .ok
    | "bip340" =>
      let pk' := if yIsOdd C pk then gneg C pk else pk
      if yIsOdd C R then .bad "bip340-R-odd" "R has odd y" else
      if !(schnorrVerify g pk' R eF sF false) then .bad "schnorr-invalid" "s•G ≠ R + e•lift_x(pk)" else
      if !nonces.isEmpty && decide (sumR ≠ R) && decide (gneg C sumR ≠ R) then
        .bad "schnorr-R-not-sum" "R differs from ±Σ Rᵢ" else .ok
    | v => .unsupported ("variant " ++ v)
  | _, _, _, _, _ => .unsupported "parse"

/-! ### handlers that recompute the digest / challenge from the message -/

def handleEcdsaMsg (C : Curves.Params) (hash pkS msgS digestS mS rS sS noncesS pksS : String) : Verdict :=
  withPrime C.n (.unsupported "n=0") fun q =>
  match pt C pkS, hexToBytes? msgS, hexToBytes? digestS, hexToNat? mS, hexToNat? rS, hexToNat? sS,
        C03.parsePts C noncesS, C03.parsePts C pksS with
  | some pk, some msg, some digLine, some mLine, some r, some s, some nonces, some pkShares =>
    match hashByName? hash with
    | none => .unsupported ("hash " ++ hash)
    | some H =>
    let g := GPt.gen C
    let dig := H msg
    -- the digest scalar of the MESSAGE, computed by the model alone
    let mF : Fp q := digestToScalar q dig
    let rF : Fp q := Fp.ofNat q r
    let sF : Fp q := Fp.ofNat q s
    if r ≥ q ∨ s ≥ q then .bad "ecdsa-scalar-range" "r or s is not a canonical scalar" else
    if !(ecdsaVerify g pk (GPt.xScalar C (q := q)) mF rF sF) then
      .bad "ecdsa-invalid" ("independent verification of (r,s) against pk and the model digest of the message fails; model m=" ++ mF.toHex ++ " line m=" ++ natToHex mLine) else
    if !nonces.isEmpty && GPt.xScalar C (q := q) (gsum nonces) != some rF then
      .bad "ecdsa-r-not-x-of-sum-R" "r differs from x(Σ Rᵢ) mod n of the broadcast nonce points" else
    if !pkShares.isEmpty && decide (gsum pkShares ≠ pk) then
      .bad "ecdsa-pkshares-sum" "broadcast additive public key shares do not sum to pk" else
    if dig.data != digLine.data then .diff ("digest=" ++ bytesToHex dig) else
    if mF.val != mLine then .diff ("m=" ++ mF.toHex) else
    -- both aggregation paths (dkls23.Aggregate, lindell17 Round5) return the low-s form; the property does
    -- not demand it (`ecdsa_normalise_valid`: both forms verify), so a high s is a broken tie, not a violation
    if 2 * s > q then .diff ("s=" ++ (-sF).toHex ++ " (low-s form)") else .ok
  | _, _, _, _, _, _, _, _ => .unsupported "parse"

def handleSchnorrMsg (C : Curves.Params) (variant pkS msgS eS RS sS noncesS pRsS pSsS : String) : Verdict :=
  withPrime C.n (.unsupported "n=0") fun q =>
  match parseFlavour variant, pt C pkS, hexToBytes? msgS, hexToNat? eS, pt C RS, hexToNat? sS,
        C03.parsePts C noncesS, C03.parsePts C pRsS, parseNatList? pSsS with
  | some fl, some pk, some msg, some eLine, some R, some s, some nonces, some pRs, some pSs =>
    let g := GPt.gen C
    let sF : Fp q := Fp.ofNat q s
    let eLineF : Fp q := Fp.ofNat q eLine
    if s ≥ q then .bad "schnorr-scalar-range" "s is not a canonical scalar" else
    if pSs.any (· ≥ q) then .bad "schnorr-scalar-range" "a partial s is not a canonical scalar" else
    let sumR := gsum nonces
    -- the challenge of the MESSAGE, computed by the model alone where the hash is modelled
    let eModel : Option (Option (Fp q)) :=
      match fl with
      | .bip340 => some (bip340Challenge C R pk msg)
      | .mina => some none
      | .vanilla h _ le =>
        match hashByName? h with
        | none => none
        | some H => some (vanillaChallenge C H le R pk msg)
    match eModel with
    | none => .unsupported ("hash of " ++ variant)
    | some eM =>
    let eF : Fp q := eM.getD eLineF
    let partialChecks : Verdict :=
      if pRs.length != pSs.length then .unsupported "partials" else
      if !pRs.isEmpty && decide (gsum pRs ≠ R) then
        .bad "schnorr-partial-R-sum" "the nonce commitments of the partial signatures do not sum to R" else
      if !pSs.isEmpty && decide ((fpList (p := q) pSs).foldl (· + ·) (0 : Fp q) ≠ sF) then
        .bad "schnorr-partial-s-sum" "the partial responses do not sum to s" else
      if eF != eLineF then .diff ("e=" ++ eF.toHex) else .ok
    match fl with
    | .vanilla _ neg _ =>
      if !(schnorrVerify g pk R eF sF neg) then
        .bad "schnorr-invalid" (if neg then "s•G + e•pk ≠ R" else "s•G ≠ R + e•pk") else
      if !nonces.isEmpty && decide (sumR ≠ R) then .bad "schnorr-R-not-sum" "R differs from Σ Rᵢ" else partialChecks
    | .bip340 =>
      let pk' := if yIsOdd C pk then gneg C pk else pk
      if yIsOdd C R then .bad "bip340-R-odd" "R has odd y" else
      if !(schnorrVerify g pk' R eF sF false) then .bad "schnorr-invalid" "s•G ≠ R + e•lift_x(pk)" else
      if !nonces.isEmpty && decide (sumR ≠ R) && decide (gneg C sumR ≠ R) then
        .bad "schnorr-R-not-sum" "R differs from ±Σ Rᵢ" else partialChecks
    | .mina =>
      if yIsOdd C R then .bad "mina-R-odd" "R has odd y" else
      if !(schnorrVerify g pk R eF sF false) then .bad "schnorr-invalid" "s•G ≠ R + e•pk" else
      if !nonces.isEmpty && decide (sumR ≠ R) && decide (gneg C sumR ≠ R) then
        .bad "schnorr-R-not-sum" "R differs from ±Σ Rᵢ" else partialChecks
  | _, _, _, _, _, _, _, _, _ => .unsupported "parse"

/-- Boldyreva: with `sk` the secret reconstructed from all shards, `sk•G = pk` and `σ = sk•H(m)` (in
the other source group) is equivalent to the pairing equation `e(pk, H(m)) = e(G, σ)` by bilinearity and
non-degeneracy; likewise for the proof of possession. -/
def handleBls (Ck Cs : Curves.Params) (skS pkS hmS sigS hpS popS : String) : Verdict :=
  withPrime Ck.n (.unsupported "n=0") fun q =>
  if Cs.n != Ck.n then .unsupported "group orders differ" else
  match hexToNat? skS, pt Ck pkS, pt Cs hmS, pt Cs sigS with
  | some sk, some pk, some hm, some sig =>
    let skF : Fp q := Fp.ofNat q sk
    if sk ≥ q ∨ sk = 0 then .bad "bls-secret-range" "reconstructed secret is not a canonical non-zero scalar" else
    if decide (skF • GPt.gen Ck ≠ pk) then
      .bad "bls-secret-pk-mismatch" "the secret reconstructed from all shards is not the discrete logarithm of pk" else
    if Curves.isZero Cs hm.pt then .diff "H(m)=inf" else
    if decide (skF • hm ≠ sig) then .bad "bls-invalid" "σ ≠ sk•H(m): the pairing equation e(pk,H(m)) = e(G,σ) fails" else
    if popS == "-" && hpS == "-" then .ok else
    match pt Cs hpS, pt Cs popS with
    | some hp, some pop =>
      if decide (skF • hp ≠ pop) then .bad "bls-pop-invalid" "proof of possession ≠ sk•H_pop(pk)" else .ok
    | _, _ => .unsupported "parse pop"
  | _, _, _, _ => .unsupported "parse"

def handleAddConv (C : Curves.Params) (rs cs labelsS ms vS pkS qS : String) : Verdict :=
  withPrime C.n (.unsupported "n=0") fun q =>
  match rs.toNat?, cs.toNat?, parseDecList? labelsS, C03.parsePts C vS, pt C pkS, parseDecList? qS with
  | some rows, some cols, some labels, some V, some pk, some quorum =>
    match C03.parseMat (p := q) rows cols ms with
    | none => .unsupported "matrix"
    | some M =>
      if labels.length ≠ rows ∨ V.length ≠ cols then .unsupported "shape" else
      if decide (V.head? ≠ some pk) then .bad "pk-not-V0" "pk differs from V[0]" else
      match liftedReconstruct M cols labels (fun k => gdot (M.getD k []) V) quorum with
      | none => .bad "quorum-not-spanning" s!"e0 is not in the span of the rows of the signing quorum {quorum}"
      | some P => if decide (P = pk) then .ok
                  else .bad "additive-conversion" "Σ coeff • pkShare over the quorum differs from pk"
  | _, _, _, _, _, _ => .unsupported "args"

def handle (op : String) (args : List String) (rhs : String) : Verdict :=
  if rhs != "ok" then .unsupported ("rhs " ++ rhs) else
  match op, args with
  | "ecdsa", [_proto, curve, hash, pk, msg, digest, m, r, s, nonces, pks] =>
    match Curves.byName? curve with
    | none => .unsupported ("curve " ++ curve)
    | some C => handleEcdsaMsg C hash pk msg digest m r s nonces pks
  | "schnorr", [variant, curve, pk, msg, e, R, s, nonces, pRs, pSs] =>
    match Curves.byName? curve with
    | none => .unsupported ("curve " ++ curve)
    | some C => handleSchnorrMsg C variant pk msg e R s nonces pRs pSs
  | "bls", [kc, sc, _alg, sk, pk, hm, sig, hp, pop] =>
    match Curves.byName? kc, Curves.byName? sc with
    | some Ck, some Cs => handleBls Ck Cs sk pk hm sig hp pop
    | _, _ => .unsupported ("curves " ++ kc ++ " " ++ sc)
  | "addconv", [curve, rs, cs, labels, ms, v, pk, q] =>
    match Curves.byName? curve with
    | none => .unsupported ("curve " ++ curve)
    | some C => handleAddConv C rs cs labels ms v pk q
  | _, _ => .unsupported ("C01 op " ++ op)

end BronVerif.Drive.C01
