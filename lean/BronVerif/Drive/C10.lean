import BronVerif.Drive.Common
import BronVerif.Model.Session
import BronVerif.Model.Curves
import BronVerif.Model.Hash.Keccak
import BronVerif.Model.Hash.Blake2b
/-!
Driver handlers for C10 (session setup, sub-contexts, pseudorandom zero shares, setup faults).

Line formats (harness/c10.go, harness/c10_run.go); `<desc>` = five tokens
`<ids> <r1b: id;ck;com,…> <r2b: id;msg;wit,…> <r2u: from;to;com,…> <r3u: from;to;msg;wit,…>`:

* `setup <desc> <params> => id;sid;extract;peer=seed&…|…`
* `subctx <desc> <params> <parent outputs> => q.q.q|id;sid;extract;peer=seed&…|…,…`  (also `outer>…>inner|…`)
* `newctx <ids> <commonSeed> <i;j;seed,…> <params> => id;sid;extract;peer=seed&…|…` (`err`/`ok` per party if rejected)
  `<params>` = `extractLabel;extractLen;seedLen;appendLabel|-;appendMsg|-` (what the harness reads from a context)
* `xsession <n> => <outputs of session 1>,<outputs of session 2>,…`
* `przs <group> <ids> <sid> => q.q.q|id;share;peer=v&…|…,…`
* `fault <desc> <kind;field;from;to;value,…> => <round>|id=outcome&…`

Relations (agreement, symmetry, distinctness, zero sum, acceptance) are decided on every line, and
sid / transcript extract / seed bytes (of contexts and sub-contexts) and every commitment opening are
recomputed EXACTLY from the broadcast and unicast messages with the SHA3-512 / cSHAKE256 / BLAKE2b models.
-/
namespace BronVerif.Drive.C10
open BronVerif BronVerif.Drive BronVerif.Session

def toBA (b : Bytes) : ByteArray := ⟨b.toArray⟩
def ofBA (b : ByteArray) : Bytes := b.data.toList

/-- the executable hash models (validated byte-for-byte against Go by the C19 stream) -/
def hashes : Hashes :=
  { h512 := fun b => ofBA (Hash.sha3_512 (toBA b))
    xof := fun s m n => ofBA (Hash.cshake256 ByteArray.empty (toBA s) (toBA m) n) }

/-- hashcom: BLAKE2b-256 keyed with the commitment key over `message ‖ witness` -/
def commitOracle : Bytes → Bytes → Bytes := fun k x => ofBA (Hash.blake2b (toBA k) (toBA x) 32)

/-- what the harness reads from every context (c10CtxOut): `extLen` bytes extracted under `extLabel`
from a clone of the transcript (after appending `(appLabel, appMsg)` to the clone when present) and
the first `seedLen` bytes of every pairwise seed -/
structure Params where
  extLabel : Bytes
  extLen : Nat
  seedLen : Nat
  app : Option (Bytes × Bytes)

/-! ### parsing -/

def bytes? (s : String) : Option Bytes := (hexToBytes? s).map ofBA
def hexOf (b : Bytes) : String := bytesToHex (toBA b)

def parseParams? (s : String) : Option Params :=
  match s.splitOn ";" with
  | [l, n, m, al, am] => do
    let extLabel ← bytes? l
    let extLen ← n.toNat?
    let seedLen ← m.toNat?
    let app ← (if al == "-" then some none else do some (some (← bytes? al, ← bytes? am)))
    some { extLabel, extLen, seedLen, app }
  | _ => none

structure Desc where
  ids : List Nat
  r1 : List (Nat × Bytes × Bytes)
  r2b : List (Nat × Bytes × Bytes)
  r2u : List (Nat × Nat × Bytes)
  r3u : List (Nat × Nat × Bytes × Bytes)

def parseDesc? (a b c d e : String) : Option Desc := do
  let ids ← parseNatList? a
  let r1 ← (splitComma b).mapM fun t => match t.splitOn ";" with
    | [i, x, y] => do some (← hexToNat? i, ← bytes? x, ← bytes? y)
    | _ => none
  let r2b ← (splitComma c).mapM fun t => match t.splitOn ";" with
    | [i, x, y] => do some (← hexToNat? i, ← bytes? x, ← bytes? y)
    | _ => none
  let r2u ← (splitComma d).mapM fun t => match t.splitOn ";" with
    | [i, j, x] => do some (← hexToNat? i, ← hexToNat? j, ← bytes? x)
    | _ => none
  let r3u ← (splitComma e).mapM fun t => match t.splitOn ";" with
    | [i, j, x, y] => do some (← hexToNat? i, ← hexToNat? j, ← bytes? x, ← bytes? y)
    | _ => none
  some { ids, r1, r2b, r2u, r3u }

/-- what one context exposes -/
structure CtxOut where
  id : Nat
  sid : Bytes
  ext : Bytes
  seeds : List (Nat × Bytes)
deriving DecidableEq

def parseCtxOut? (s : String) : Option CtxOut :=
  match s.splitOn ";" with
  | [i, sid, ext, m] => do
    let seeds ← (if m == "-" then some [] else (m.splitOn "&").mapM fun kv => match kv.splitOn "=" with
      | [k, v] => do some (← hexToNat? k, ← bytes? v)
      | _ => none)
    some { id := ← hexToNat? i, sid := ← bytes? sid, ext := ← bytes? ext, seeds }
  | _ => none

def parseCtxOuts? (s : String) : Option (List CtxOut) := (s.splitOn "|").mapM parseCtxOut?

def renderCtxOut (c : CtxOut) : String :=
  natToHex c.id ++ ";" ++ hexOf c.sid ++ ";" ++ hexOf c.ext ++ ";" ++
    (if c.seeds.isEmpty then "-" else "&".intercalate (c.seeds.map fun kv => natToHex kv.1 ++ "=" ++ hexOf kv.2))

/-! ### relations on the outputs of the members of one (sub)quorum -/

def allEq {α} [BEq α] : List α → Bool
  | [] => true
  | x :: xs => xs.all (· == x)

def distinct {α} [BEq α] : List α → Bool
  | [] => true
  | x :: xs => !xs.contains x && distinct xs

def seedOf (outs : List CtxOut) (i j : Nat) : Option Bytes := do
  let c ← outs.find? (·.id == i)
  c.seeds.lookup j

/-- one seed per unordered pair (taken from the smaller ID's context) -/
def pairSeeds (outs : List CtxOut) : List Bytes :=
  outs.flatMap fun c => (c.seeds.filter (fun kv => c.id < kv.1)).map (·.2)

/-- agreement inside one (sub)quorum `q` (sorted): members, equal sid/extract, symmetric seeds,
pairwise different seeds.  `pre` prefixes the violation keys. -/
def checkQuorum (p : Params) (pre : String) (q : List Nat) (outs : List CtxOut) : Option Verdict :=
  if p.extLen < 16 || p.seedLen < 16 then some (.unsupported "read lengths below 16 bytes") else
  if outs.map (·.id) != q then some (.bad (pre ++ "members") "the contexts are not those of the (sub)quorum members") else
  if !outs.all (fun c => c.sid.length == 32 && c.ext.length == p.extLen && c.seeds.all (·.2.length == p.seedLen)) then
    some (.unsupported "output lengths") else
  if !allEq (outs.map (·.sid)) then some (.bad (pre ++ "sid-agree") "parties hold different session ids") else
  if !allEq (outs.map (·.ext)) then some (.bad (pre ++ "transcript-agree") "parties hold different transcript states") else
  if !outs.all (fun c => c.seeds.map (·.1) == q.filter (· != c.id)) then
    some (.bad (pre ++ "seed-peers") "a context's seeds are not keyed by exactly the other members") else
  if !outs.all (fun c => c.seeds.all fun kv => seedOf outs kv.1 c.id == some kv.2) then
    some (.bad (pre ++ "seed-symmetric") "seed(i,j) differs from seed(j,i)") else
  if !distinct (pairSeeds outs) then some (.bad (pre ++ "seed-distinct") "two different pairs share a seed") else
  none

/-! ### exact recomputation (hash models) -/

def viewOf (d : Desc) (i : Nat) : Contribution :=
  let (ck, com) := (d.r1.lookup i).getD ([], [])
  let (msg, wit) := (d.r2b.lookup i).getD ([], [])
  { ck, com, msg, wit }

def contribOf (d : Desc) (a b : Nat) : Bytes :=
  match d.r3u.find? (fun e => e.1 == a && e.2.1 == b) with
  | some e => e.2.2.1
  | none => []

def modelCtx (H : Hashes) (d : Desc) (i : Nat) : Ctx := honestContext H i d.ids (viewOf d) (contribOf d)

def ctxOutOf (H : Hashes) (p : Params) (c : Ctx) : CtxOut :=
  let log := match p.app with
    | some (l, m) => c.tlog ++ tAppend l m
    | none => c.tlog
  { id := c.holder, sid := c.sid, ext := tExtract H log p.extLabel p.extLen,
    seeds := c.seeds.map fun kv => (kv.1, kv.2.read H p.seedLen) }

/-- one entry of a `subctx` line: `q.q.q|ctx|ctx…` or nested `outer>inner|ctx|…` -/
structure SubEntry where
  key : String
  chain : List (List Nat)   -- successive sub-quorums
  outs : List CtxOut

def SubEntry.quorum (e : SubEntry) : List Nat := e.chain.getLast?.getD []

def parseSubEntries? (s : String) : Option (List SubEntry) :=
  (splitComma s).mapM fun en => match en.splitOn "|" with
    | key :: parts => do
      let chain ← (key.splitOn ">").mapM fun q => (q.splitOn ".").mapM hexToNat?
      let outs ← parts.mapM parseCtxOut?
      some { key, chain, outs }
    | [] => none

/-! ### groups for the zero shares -/

structure GroupOps where
  G : Type
  add : G → G → G
  neg : G → G
  zero : G
  parse : String → Option G
  render : G → String
  eq : G → G → Bool

def groupOf? (name : String) : Option GroupOps :=
  if name.startsWith "F" then
    match hexToNat? (name.drop 1).toString with
    | some p => if h : p = 0 then none else
        haveI : NeZero p := ⟨h⟩
        some { G := Fp p, add := (· + ·), neg := (- ·), zero := Fp.ofNat p 0,
               parse := fun s => (hexToNat? s).map (Fp.ofNat p), render := Fp.toHex, eq := fun a b => a == b }
    | none => none
  else
    (Curves.byName? name).map fun C =>
      { G := Curves.Pt, add := Curves.add C, neg := Curves.neg C, zero := Curves.zero C,
        parse := fun s => (Curves.parse? C s).bind fun P => if Curves.onCurve C P then some P else none,
        render := Curves.render C, eq := fun a b => a == b }

/-- one member's line in a `przs` entry: its share and the per-peer elements -/
structure PShare (G : Type) where
  id : Nat
  share : G
  vs : List (Nat × G)

def parsePShare? (g : GroupOps) (p : String) : Option (PShare g.G) :=
  match p.splitOn ";" with
  | [i, sh, m] => do
    let vs ← (m.splitOn "&").mapM fun (kv : String) => match kv.splitOn "=" with
      | [k, v] => do some (← hexToNat? k, ← g.parse v)
      | _ => none
    some { id := ← hexToNat? i, share := ← g.parse sh, vs }
  | _ => none

def modelShare (g : GroupOps) (m : PShare g.G) : g.G := zeroShareWith g.add g.neg g.zero m.id m.vs

def checkPrzsEntry (g : GroupOps) (entry : String) : Option Verdict :=
  match entry.splitOn "|" with
  | [] => some (.unsupported "przs entry")
  | qs :: parts =>
    match (qs.splitOn ".").mapM hexToNat?, parts.mapM (parsePShare? g) with
    | some q, some ms =>
      if ms.map (·.id) != q then some (.bad "przs-members" ("shares are not those of the members of " ++ qs)) else
      if !ms.all (fun m => m.vs.map (·.1) == q.filter (· != m.id)) then some (.bad "przs-peers" qs) else
      -- v(i,j) = v(j,i)
      if !ms.all (fun m => m.vs.all fun kv => match ms.find? (·.id == kv.1) with
          | some m' => match m'.vs.find? (·.1 == m.id) with
            | some kv' => g.eq kv.2 kv'.2
            | none => false
          | none => false) then some (.bad "przs-pair-symmetric" ("v(i,j) != v(j,i) in " ++ qs)) else
      -- Σ shares = identity
      let total := ms.foldl (fun acc m => g.add acc m.share) g.zero
      if !g.eq total g.zero then some (.bad "przs-sum-zero" ("shares of " ++ qs ++ " sum to " ++ g.render total)) else
      -- share_i = Σ_j ±v(i,j)  (sign by ID order), as the implementation defines it
      match ms.find? (fun m => !g.eq (modelShare g m) m.share) with
      | some m => some (.diff ("share of " ++ natToHex m.id ++ " in " ++ qs ++ " = " ++ g.render (modelShare g m)))
      | none =>
        -- degenerate: every per-peer element is the identity (the shares would carry no randomness)
        if ms.all (fun m => m.vs.all fun kv => g.eq kv.2 g.zero) then some (.diff ("all elements are the identity in " ++ qs))
        else none
    | _, _ => some (.unsupported ("przs entry " ++ qs))

/-! ### faults -/

structure Tamper where
  kind : String
  field : String
  frm : Nat
  to : Option Nat   -- none: every recipient
  value : Bytes

def parseTampers? (s : String) : Option (List Tamper) :=
  (splitComma s).mapM fun t => match t.splitOn ";" with
    | [k, f, a, b, v] => do
      let to ← (if b == "*" then some none else (hexToNat? b).map some)
      some { kind := k, field := f, frm := ← hexToNat? a, to, value := ← bytes? v }
    | _ => none

/-- the view of recipient `me`: the honest messages with the tampers addressed to `me` applied -/
def viewFor (d : Desc) (ts : List Tamper) (me : Nat) : View :=
  let hit (kind : String) (s : Nat) := ts.filter fun t => t.kind == kind && t.frm == s && (t.to == none || t.to == some me)
  let dropped (kind : String) (s : Nat) := (hit kind s).any (·.field == "drop")
  let upd (kind field : String) (s : Nat) (b : Bytes) : Bytes :=
    (hit kind s).foldl (fun acc t => if t.field == field then t.value else acc) b
  { r1 := fun s => if dropped "r1b" s then none else
      (d.r1.lookup s).map fun (ck, com) => (upd "r1b" "ck" s ck, upd "r1b" "com" s com)
    r2b := fun s => if dropped "r2b" s then none else
      (d.r2b.lookup s).map fun (m, w) => (upd "r2b" "msg" s m, upd "r2b" "wit" s w)
    r2u := fun s => if dropped "r2u" s then none else
      (d.r2u.find? fun e => e.1 == s && e.2.1 == me).map fun e => upd "r2u" "com" s e.2.2
    r3u := fun s => if dropped "r3u" s then none else
      (d.r3u.find? fun e => e.1 == s && e.2.1 == me).map fun e => (upd "r3u" "msg" s e.2.2.1, upd "r3u" "wit" s e.2.2.2) }

def renderRun (r : Nat × List (Nat × Outcome)) : String :=
  toString r.1 ++ "|" ++ "&".intercalate (r.2.map fun o => natToHex o.1 ++ "=" ++ o.2.render)

/-- does `me`'s view of sender `s` differ from what `s` sent? -/
def cheatsOn (d : Desc) (ts : List Tamper) (me s : Nat) : Bool :=
  let v := viewFor d ts me
  let h := viewFor d [] me
  v.r1 s != h.r1 s || v.r2b s != h.r2b s || v.r2u s != h.r2u s || v.r3u s != h.r3u s

def handle (op : String) (args : List String) (rhs : String) : Verdict :=
  match op, args with
  | "setup", [a, b, c, d, e, ps] =>
    match parseDesc? a b c d e, parseParams? ps, parseCtxOuts? rhs with
    | some desc, some p, some outs =>
      match checkQuorum p "" (sortIds desc.ids) outs with
      | some v => v
      | none =>
        let H := hashes
        mirror ("|".intercalate ((sortIds desc.ids).map fun i => renderCtxOut (ctxOutOf H p (modelCtx H desc i)))) rhs
    | _, _, _ => .unsupported "setup args"
  | "subctx", [a, b, c, d, e, ps, parent] =>
    match parseDesc? a b c d e, parseParams? ps, parseCtxOuts? parent with
    | some desc, some p, some pouts =>
      match parseSubEntries? rhs with
      | none => .unsupported "subctx entries"
      | some es =>
        let psid := (pouts.head?.map (·.sid)).getD []
        -- per sub-quorum: agreement between its members
        match es.findSome? (fun en =>
            match checkQuorum p "subctx-" en.quorum en.outs with
            | some v => some v
            | none => if en.outs.all (·.sid == psid) then none
                      else some (.bad "subctx-sid" ("sub-context " ++ en.key ++ " does not carry the session id"))) with
        | some v => v
        | none =>
          -- between sub-quorums (and the parent): different transcript states, different seeds
          let exts := (pouts.head?.map (·.ext)).toList ++ es.filterMap fun en => en.outs.head?.map (·.ext)
          let seeds := pairSeeds pouts ++ es.flatMap fun en => pairSeeds en.outs
          if !distinct exts then .bad "subctx-separate" "two different sub-quorums (or parent) share a transcript state" else
          if !distinct seeds then .bad "subctx-seed-separate" "two different sub-quorums (or parent) share a pairwise seed" else
          let H := hashes
          let parents := (sortIds desc.ids).map fun i => (i, modelCtx H desc i)
          let model := es.map fun en =>
            en.key ++ "|" ++ "|".intercalate (en.quorum.map fun i =>
              renderCtxOut (ctxOutOf H p (en.chain.foldl (subContext H) ((parents.lookup i).getD (modelCtx H desc i)))))
          mirror (joinComma model) rhs
    | _, _, _ => .unsupported "subctx args"
  | "newctx", [a, cs, prs, ps] =>
    match parseNatList? a, bytes? cs, parseParams? ps, (splitComma prs).mapM (fun t => match t.splitOn ";" with
        | [i, j, x] => do some ((← hexToNat? i, ← hexToNat? j), ← bytes? x)
        | _ => none) with
    | some ids, some common, some p, some prs =>
      let q := sortIds ids
      let seedFor (i j : Nat) : Bytes := (prs.lookup (min i j, max i j)).getD []
      -- `NewContext` rejects a common seed or a pairwise seed of fewer than 32 bytes
      let rejects (i : Nat) : Bool := common.length < 32 || (q.filter (· != i)).any fun j => (seedFor i j).length < 32
      if q.any rejects then
        mirror ("|".intercalate (q.map fun i => if rejects i then "err" else "ok")) rhs
      else
      match parseCtxOuts? rhs with
      | none => .diff "all parties obtain a context"
      | some outs =>
        match checkQuorum p "newctx-" q outs with
        | some v => v
        | none =>
          let H := hashes
          mirror ("|".intercalate (q.map fun i => renderCtxOut (ctxOutOf H p (newContext H i ids common (seedFor i))))) rhs
    | _, _, _, _ => .unsupported "newctx args"
  | "xsession", [_] =>
    match (splitComma rhs).mapM parseCtxOuts? with
    | none => .unsupported "xsession rhs"
    | some ss =>
      if !distinct (ss.filterMap fun outs => outs.head?.map (·.sid)) then .bad "xsession-sid" "two sessions share a session id" else
      if !distinct (ss.filterMap fun outs => outs.head?.map (·.ext)) then .bad "xsession-transcript" "two sessions share a transcript state" else
      if !distinct (ss.flatMap pairSeeds) then .bad "xsession-seed" "a pairwise seed occurs in two sessions" else .ok
  | "przs", [gname, _, _] =>
    match groupOf? gname with
    | none => .unsupported ("group " ++ gname)
    | some g => ((splitComma rhs).findSome? (checkPrzsEntry g)).getD .ok
  | "fault", [a, b, c, d, e, t] =>
    match parseDesc? a b c d e, parseTampers? t with
    | some desc, some ts =>
      let C := commitOracle
      let myck (i : Nat) : Bytes := ((desc.r1.lookup i).map (·.1)).getD []
      let model := runSetup C desc.ids myck (viewFor desc ts)
      let ms := renderRun model
      if ms == rhs then .ok else
      -- classify the difference against the property
      match rhs.splitOn "|" with
      | [_, os] =>
        let go := (os.splitOn "&").filterMap fun kv => match kv.splitOn "=" with
          | [k, v] => (hexToNat? k).map fun i => (i, v)
          | _ => none
        match go.findSome? (fun (i, o) =>
            let m := ((model.2.lookup i).map Outcome.render).getD "?"
            if o.startsWith "panic" then some (Verdict.bad "fault-panic" ("party " ++ natToHex i ++ ": " ++ o))
            else if o == "ok" && m != "ok" then some (.bad "fault-accepted" ("party " ++ natToHex i ++ " accepted; expected " ++ ms))
            else if o != "ok" && m == "ok" then some (.bad "fault-spurious-abort" ("party " ++ natToHex i ++ " reports " ++ o ++ "; expected " ++ ms))
            else if o.startsWith "abort-blame:" then
              match hexToNat? (o.drop 12).toString with
              | some x => if cheatsOn desc ts i x then none
                          else some (.bad "fault-blamed-honest" ("party " ++ natToHex i ++ " blames " ++ natToHex x ++ "; expected " ++ ms))
              | none => some (.bad "fault-blame-set" ("party " ++ natToHex i ++ " reports " ++ o ++ "; expected " ++ ms))
            else if o != "ok" then some (.bad "fault-unblamed" ("party " ++ natToHex i ++ " reports " ++ o ++ "; expected " ++ ms))
            else none) with
        | some v => v
        | none => .diff ms
      | _ => .unsupported "fault rhs"
    | _, _ => .unsupported "fault args"
  | _, _ => .unsupported ("C10 op " ++ op)

end BronVerif.Drive.C10
