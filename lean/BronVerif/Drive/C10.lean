import BronVerif.Drive.Common
/-! Driver handlers for C10. -/
namespace BronVerif.Drive.C10
open BronVerif BronVerif.Drive

def handle (op : String) (_args : List String) (_rhs : String) : Verdict :=
  .unsupported ("C10 op " ++ op)

end BronVerif.Drive.C10
