import BronVerif.Drive.Common
import BronVerif.Model.CurveEnc
/-! Driver handlers for C13 (element encodings). -/
namespace BronVerif.Drive.C13
open BronVerif BronVerif.Drive BronVerif.Curve BronVerif.Curves BronVerif.CurveEnc

/-! runtime points (`Curves.Pt`) ↔ typed points -/

def wOf {q : Nat} [NeZero q] (P : Pt) : WPt (Fp q) :=
  match P.coords with
  | some ([x], [y]) => .aff (Fp.ofNat q x) (Fp.ofNat q y)
  | _ => .inf
def wTo {q : Nat} : WPt (Fp q) → Pt
  | .inf => .inf
  | .aff x y => ⟨some ([x.val], [y.val])⟩
def w2Of {q : Nat} [NeZero q] (P : Pt) : WPt (Fp2 q) :=
  match P.coords with
  | some ([x0, x1], [y0, y1]) => .aff ⟨Fp.ofNat q x0, Fp.ofNat q x1⟩ ⟨Fp.ofNat q y0, Fp.ofNat q y1⟩
  | _ => .inf
def w2To {q : Nat} : WPt (Fp2 q) → Pt
  | .inf => .inf
  | .aff x y => ⟨some ([x.c0.val, x.c1.val], [y.c0.val, y.c1.val])⟩
def eOf {q : Nat} [NeZero q] (P : Pt) : EPt (Fp q) :=
  match P.coords with
  | some ([x], [y]) => ⟨Fp.ofNat q x, Fp.ofNat q y⟩
  | _ => E.zero
def eTo {q : Nat} (P : EPt (Fp q)) : Pt := ⟨some ([P.x.val], [P.y.val])⟩

/-- one curve type as the stream sees it -/
structure Codec where
  C : Params
  /-- `none` = the encoder panics -/
  encode : String → Pt → Option (List Nat)
  decode : String → List Nat → Option Pt
  /-- a valid element of the type: on the curve and, where the type promises it, in the subgroup
  (decided with the inversion-free arithmetic; on a deterministic quarter of the points the affine
  reference law `Curves.inSubgroup` is evaluated too, `none` = the two disagree) -/
  valid : Pt → Option Bool
  aff : List Nat → List Nat → Option Pt
  affx : Option (List Nat → Nat → Option Pt)
  /-- the decoder's result is only determined up to sign (curve25519 `u`-only form) -/
  upToSign : String → Bool
  /-- expected byte length of a format (0 = not fixed) -/
  len : String → Nat
  weierstrass : Bool
  /-- tag byte / flag bits of a (base-format) byte string are among those the format defines -/
  flagsOk : String → List Nat → Bool := fun _ _ => true
  /-- byte layout of a base format (`none`: the wire coordinates are not those of the rendered point) -/
  layout : String → Option Layout := fun _ => none

def sec1Flags (f : String) (bs : List Nat) : Bool :=
  match bs with
  | t :: _ => if f == "compressed" then t == 2 || t == 3 else t == 4
  | [] => false

/-- ZCash flags: compressed form has C = 1, uncompressed C = 0 and S = 0; the infinity flag excludes the
sort flag and every coordinate bit -/
def blsFlags (f : String) (bs : List Nat) : Bool :=
  match bs with
  | b0 :: rest =>
    let c := b0 / 128 % 2 == 1
    let i := b0 / 64 % 2 == 1
    let s := b0 / 32 % 2 == 1
    let infOk := !i || (!s && ((b0 % 32) :: rest).all (· == 0))
    (if f == "compressed" then c else !c && !s) && infOk
  | [] => false

def fmtBase (mont : Bool) (f : String) : Option String :=
  if f == "compressed" || f == "bytes" then some "compressed"
  else if f == "uncompressed" then some "uncompressed"
  else if f == "cbor" then some (if mont then "uncompressed" else "compressed")
  else none

/-- lift a (compressed, uncompressed) pair to the four formats of the stream -/
def mkEncode (mont : Bool) (enc : String → Pt → Option (List Nat)) (f : String) (P : Pt) : Option (List Nat) :=
  match fmtBase mont f with
  | none => none
  | some b => if f == "cbor" then (enc b P).map Cbor.wrap else enc b P

def mkDecode (mont : Bool) (dec : String → List Nat → Option Pt) (f : String) (bs : List Nat) : Option Pt :=
  match fmtBase mont f with
  | none => none
  | some b => if f == "cbor" then (Cbor.unwrap? bs).bind (dec b) else dec b bs

def codec? (name : String) : Option Codec :=
  let mk (C : Params) (mont : Bool) (sub : Option (Pt → Bool)) (wei : Bool)
      (enc : String → Pt → Option (List Nat)) (dec : String → List Nat → Option Pt)
      (aff : List Nat → List Nat → Option Pt) (affx : Option (List Nat → Nat → Option Pt))
      (lc lu : Nat) : Codec :=
    { C := C, encode := mkEncode mont enc, decode := mkDecode mont dec,
      valid := fun P => match sub with
        | none => some (onCurve C P)
        | some fast =>
          let f := onCurve C P && fast P
          let sampled := match P.coords with
            | some (x, _) => x.headD 0 % 4 == 0
            | none => true
          if sampled then (if inSubgroup C P == f then some f else none) else some f,
      aff := aff, affx := affx,
      upToSign := fun f => mont && (f == "compressed" || f == "bytes"),
      len := fun f => if f == "compressed" || f == "bytes" then lc else if f == "uncompressed" then lu else 0,
      weierstrass := wei }
  let sec1 (C : Params) (strict0 : Bool) : Option Codec := withPrime C.p none fun q =>
    let io := fpIO q
    let a := Fp.ofNat q C.a
    let b := Fp.ofNat q C.b
    some <| mk C false none true
      (fun f P => some (if f == "compressed" then Sec1.encodeCompressed io 32 (wOf P) else Sec1.encodeUncompressed io 32 (wOf P)))
      (fun f bs => (if f == "compressed" then (if strict0 then Sec1.decodeCompressedS io a b 32 bs else Sec1.decodeCompressed io a b 32 bs)
        else Sec1.decodeUncompressed io a b 32 bs).map wTo)
      (fun x y => (fromAffineW a b (Fp.ofNat q (x.headD 0)) (Fp.ofNat q (y.headD 0))).map wTo)
      (some fun x odd => (fromAffineX io a b (Fp.ofNat q (x.headD 0)) odd).map wTo)
      33 65
  let pasta (C : Params) : Option Codec := withPrime C.p none fun q =>
    let io := fpIO q
    let a := Fp.ofNat q C.a
    let b := Fp.ofNat q C.b
    some <| mk C false none true
      (fun f P => some (if f == "compressed" then Pasta.encodeCompressed io 32 (wOf P) else Pasta.encodeUncompressed io 32 (wOf P)))
      (fun f bs => (if f == "compressed" then Pasta.decodeCompressed io a b 32 bs else Pasta.decodeUncompressed io a b 32 bs).map wTo)
      (fun x y => (fromAffineW a b (Fp.ofNat q (x.headD 0)) (Fp.ofNat q (y.headD 0))).map wTo)
      (some fun x odd => (fromAffineX io a b (Fp.ofNat q (x.headD 0)) odd).map wTo)
      32 64
  let ed (sub : Bool) : Option Codec := withPrime ed25519.p none fun q =>
    let C := ed25519
    let io := fpIO q
    let a := Fp.ofNat q C.a
    let d := Fp.ofNat q C.b
    let flt (r : Option (EPt (Fp q))) : Option Pt := ((if sub then Ed.subOnly a d C.n r else r)).map eTo
    some <| mk C false (if sub then some (fun P => Ed.inSub a d C.n (eOf P)) else none) false
      (fun f P => some (if f == "compressed" then Ed.encodeCompressed io 32 (eOf P) else Ed.encodeUncompressed io 32 (eOf P)))
      (fun f bs => flt (if f == "compressed" then Ed.decodeCompressed io a d 32 bs else Ed.decodeUncompressed io a d 32 bs))
      (fun x y => flt (Ed.fromAffine a d (Fp.ofNat q (x.headD 0)) (Fp.ofNat q (y.headD 0))))
      none 32 64
  let mont (sub : Bool) : Option Codec := withPrime ed25519.p none fun q =>
    let C := ed25519
    let io := fpIO q
    let a := Fp.ofNat q C.a
    let d := Fp.ofNat q C.b
    let c := Fp.ofNat q montC
    let flt (r : Option (EPt (Fp q))) : Option Pt := ((if sub then Ed.subOnly a d C.n r else r)).map eTo
    some <| mk C true (if sub then some (fun P => Ed.inSub a d C.n (eOf P)) else none) false
      (fun f P => if f == "compressed" then Mont.encodeCompressed io 32 (eOf P) else Mont.encodeUncompressed io c 32 (eOf P))
      (fun f bs => flt (if f == "compressed" then Mont.decodeCompressed io a d 32 bs else Mont.decodeUncompressed io a d c 32 bs))
      (fun x y => flt (Mont.fromAffine io a d c 32 (Fp.ofNat q (x.headD 0)) (Fp.ofNat q (y.headD 0))))
      none 32 64
  let lay (hdr : Nat) (be : Bool) (len k flagsC flagsU : Nat) (strictU : Bool) (f : String) : Option Layout :=
    if f == "compressed" then some ⟨hdr, be, len, k, flagsC, false⟩
    else if f == "uncompressed" then some ⟨hdr, be, len, 2 * k, flagsU, strictU⟩
    else none
  if name == "k256" then (sec1 k256 false).map fun c => { c with flagsOk := sec1Flags, layout := lay 1 true 32 1 0 0 false }
  else if name == "p256" then (sec1 p256 true).map fun c => { c with flagsOk := sec1Flags, layout := lay 1 true 32 1 0 0 false }
  else if name == "pallas" then (pasta pallas).map fun c => { c with layout := lay 0 false 32 1 1 0 false }
  else if name == "vesta" then (pasta vesta).map fun c => { c with layout := lay 0 false 32 1 1 0 false }
  else if name == "ed25519" then (ed false).map fun c => { c with layout := lay 0 false 32 1 1 0 true }
  else if name == "ed25519sub" then (ed true).map fun c => { c with layout := lay 0 false 32 1 1 0 true }
  else if name == "curve25519" then mont false
  else if name == "curve25519sub" then mont true
  else if name == "bls12381g1" then (fun (o : Option Codec) => o.map fun c => { c with flagsOk := blsFlags, layout := lay 0 true 48 1 3 3 false }) <| withPrime blsP none fun q =>
    let C := bls12381g1
    let io := g1IO q
    let a := Fp.ofNat q C.a
    let b := Fp.ofNat q C.b
    some <| mk C false (some fun P => Bls.inSub a C.n (wOf (q := q) P)) true
      (fun f P => some (if f == "compressed" then Bls.encodeCompressed io 48 (wOf P) else Bls.encodeUncompressed io 48 (wOf P)))
      (fun f bs => (if f == "compressed" then Bls.decodeCompressed io a b C.n 48 bs else Bls.decodeUncompressed io a b C.n 48 bs).map wTo)
      (fun x y => (Bls.fromAffine a b C.n (Fp.ofNat q (x.headD 0)) (Fp.ofNat q (y.headD 0))).map wTo)
      (some fun x odd => ((fromAffineX (fpIO q) a b (Fp.ofNat q (x.headD 0)) odd).bind fun P =>
        if Bls.inSub a C.n P then some P else none).map wTo)
      48 96
  else if name == "bls12381g2" then (fun (o : Option Codec) => o.map fun c => { c with flagsOk := blsFlags, layout := lay 0 true 48 2 3 3 false }) <| withPrime blsP none fun q =>
    let C := bls12381g2
    let io := g2IO q
    let a : Fp2 q := ⟨Fp.ofNat q C.a, Fp.ofNat q 0⟩
    let b : Fp2 q := ⟨Fp.ofNat q C.b, Fp.ofNat q C.b1⟩
    let fe (x : List Nat) : Fp2 q := ⟨Fp.ofNat q (x.getD 0 0), Fp.ofNat q (x.getD 1 0)⟩
    some <| mk C false (some fun P => Bls.inSub a C.n (w2Of (q := q) P)) true
      (fun f P => some (if f == "compressed" then Bls.encodeCompressed io 48 (w2Of P) else Bls.encodeUncompressed io 48 (w2Of P)))
      (fun f bs => (if f == "compressed" then Bls.decodeCompressed io a b C.n 48 bs else Bls.decodeUncompressed io a b C.n 48 bs).map w2To)
      (fun x y => (Bls.fromAffine a b C.n (fe x) (fe y)).map w2To)
      none 96 192
  else none

def bytesOf? (s : String) : Option (List Nat) := (hexToBytes? s).map fun b => b.toList.map UInt8.toNat

def hexOf (bs : List Nat) : String :=
  if bs.isEmpty then "-" else String.join (bs.map fun b => byteToHex (UInt8.ofNat b))

def coords? (s : String) : Option (List Nat) := (s.splitOn "/").mapM hexToNat?

def renderEnc (r : Option (List Nat)) : String :=
  match r with
  | some bs => hexOf bs
  | none => "panic"

def renderDec (C : Params) (r : Option Pt) : String :=
  match r with
  | some P => "ok:" ++ render C P
  | none => "reject"

/-- `bytes` and `cbor` are the compressed (curve25519: uncompressed) codec behind another API: findings
are keyed by the underlying format -/
def baseName (cd : Codec) (f : String) : String :=
  if f == "bytes" then "compressed"
  else if f == "cbor" then (if cd.upToSign "compressed" then "uncompressed" else "compressed")
  else f

/-- stable key: the inputs with `x = 0` on a Weierstrass curve are classified by the parity of `y` -/
def keyFor (cd : Codec) (kind cv fmt0 : String) (P : Pt) : String :=
  let fmt := baseName cd fmt0
  match P.coords with
  | some (x, y) =>
    if cd.weierstrass && x.all (· == 0) then
      cv ++ "-" ++ fmt ++ "-x0-y" ++ (if y.headD 0 % 2 = 0 then "even" else "odd")
    else kind ++ "-" ++ cv ++ "-" ++ fmt
  | none => kind ++ "-" ++ cv ++ "-" ++ fmt

def parseOk? (C : Params) (rhs : String) : Option Pt :=
  if rhs.startsWith "ok:" then parse? C (rhs.drop 3).toString else none

/-- how a decoder-like call was made: what the input denotes when the mirror model has no answer,
and whether the input is the canonical encoding of the model's answer -/
structure DecInput where
  /-- the accepted element `P` is the one the input denotes (used when the mirror model rejects);
  `none`: the driver cannot tell -/
  denotes : Pt → Option Bool
  /-- the input is the canonical encoding of `M` (encoder output / reduced affine coordinates) -/
  canonicalFor : Pt → Bool

/-- verdict for a decoder-like call.  Property clauses decided here:
* accepted ⇒ valid element (on the curve, in the subgroup where the type promises it);
* accepted ⇒ the element is the one the bytes denote (coordinates read per the format, reduced mod p);
* the canonical encoding of a valid element is accepted (that is the round trip);
accept / reject of non-canonical inputs mirrors the model. -/
def decVerdict (cd : Codec) (keyInvalid keyValue keyRejects : String) (upToSign : Bool) (inp : DecInput)
    (model : Option Pt) (rhs : String) : Verdict :=
  let C := cd.C
  if rhs.startsWith "panic" then .bad ("decode-panic-" ++ C.name) rhs
  else if rhs == "reject" then
    match model with
    | none => .ok
    | some M =>
      if !upToSign && inp.canonicalFor M && cd.valid M == some true then
        .bad keyRejects ("rejected the canonical encoding of the valid element " ++ render C M)
      else .diff (renderDec C model)
  else match parseOk? C rhs with
    | none => .unsupported "rhs"
    | some P =>
      match cd.valid P with
      | none => .unsupported "projective and affine subgroup tests disagree"
      | some false => .bad keyInvalid ("accepted bytes denote an invalid element: " ++ rhs)
      | some true =>
      if upToSign then
        match model with
        | some M => if P == M || P == neg C M then .ok else .diff (renderDec C model)
        | none => .diff "reject"
      else
        match model with
        | some M =>
          if P == M then .ok
          -- reserved identity encoding `x = 0` of the Weierstrass forms: a point `(0, y)` instead of the
          -- identity is the other reading of the same bytes (the convention is mirrored, not demanded)
          else if cd.weierstrass && M.coords.isNone && (P.coords.map fun c => c.1.all (· == 0)) == some true then
            .diff (renderDec C model)
          else .bad keyValue ("accepted, but the input denotes " ++ render C M ++ " observed=" ++ rhs)
        | none =>
          match inp.denotes P with
          | some false => .bad keyValue ("accepted, but the input does not denote the returned element: " ++ rhs)
          | _ => .diff "reject"

def handlePoint (op cv fmt : String) (args : List String) (rhs : String) : Verdict :=
  match codec? cv with
  | none => .unsupported ("curve " ++ cv)
  | some cd =>
    let C := cd.C
    match op, args with
    | "enc", [ps] =>
      match parse? C ps with
      | none => .unsupported "point"
      | some P =>
        if !onCurve C P then .unsupported "enc: point not on the curve" else
        let m := cd.encode fmt P
        if rhs.startsWith "panic" then .bad ("encode-panic-" ++ cv ++ "-" ++ baseName cd fmt) ("encoder panics on a curve point; model=" ++ renderEnc m)
        else mirror (renderEnc m) rhs
    | "rt", [ps] =>
      match parse? C ps with
      | none => .unsupported "point"
      | some P =>
        if !onCurve C P then .unsupported "rt: point not on the curve" else
        let expected := "ok:" ++ render C P
        if rhs.startsWith "panic" then .bad ("encode-panic-" ++ cv ++ "-" ++ baseName cd fmt) "encoder or decoder panics on a curve point"
        else if rhs != expected then .bad (keyFor cd "roundtrip" cv fmt P) ("expected=" ++ expected ++ " observed=" ++ rhs)
        else if cd.upToSign fmt then .ok
        else
          -- the mirror model must agree that this point round-trips
          let m := (cd.encode fmt P).bind (cd.decode fmt)
          mirror (renderDec C m) rhs
    | "inj", [ps, qs] =>
      match parse? C ps, parse? C qs, rhs.splitOn "," with
      | some P, some Q, [e1, e2] =>
        if !onCurve C P || !onCurve C Q then .unsupported "inj: point not on the curve" else
        if P != Q && e1 == e2 then
          let K := if P.coords.isNone || (cd.weierstrass && (Q.coords.map fun c => c.1.all (· == 0)) == some true) then Q else P
          .bad (keyFor cd "inj" cv fmt K) ("distinct elements " ++ ps ++ " and " ++ qs ++ " share the encoding " ++ e1)
        else if P == Q && e1 != e2 then .diff "same element, two encodings"
        else mirror (renderEnc (cd.encode fmt P) ++ "," ++ renderEnc (cd.encode fmt Q)) rhs
      | _, _, _ => .unsupported "inj args"
    | "dec", [bs] =>
      match bytesOf? bs with
      | none => .unsupported "bytes"
      | some b =>
        let model := cd.decode fmt b
        if rhs.startsWith "ok:" && cd.len fmt != 0 && b.length != cd.len fmt then
          .bad ("decode-len-" ++ cv ++ "-" ++ baseName cd fmt) ("accepted " ++ toString b.length ++ " bytes")
        else if rhs.startsWith "ok:" && !(cd.flagsOk (baseName cd fmt) (if fmt == "cbor" then (Cbor.unwrap? b).getD [] else b)) then
          .bad ("decode-flags-" ++ cv ++ "-" ++ baseName cd fmt) ("accepted a tag/flag combination outside the format: " ++ rhs)
        else
          let base := baseName cd fmt
          let payload := if fmt == "cbor" then Cbor.unwrap? b else some b
          let canon := payload.bind fun pl => (cd.layout base).bind fun L => L.canon C.p pl
          let inp : DecInput :=
            { denotes := fun P => match canon, cd.encode base P with
                | some c, some e => some (c == e)
                | _, _ => none,
              canonicalFor := fun M => cd.encode fmt M == some b }
          decVerdict cd ("decode-invalid-" ++ cv ++ "-" ++ base)
            (keyFor cd "decode-value" cv fmt (model.getD .inf)) (keyFor cd "decode-rejects-valid" cv fmt (model.getD .inf))
            (cd.upToSign fmt) inp model rhs
    | _, _ => .unsupported ("C13 op " ++ op)

def handle (op : String) (args : List String) (rhs : String) : Verdict :=
  match op, args with
  | "aff", [cv, xs, ys] =>
    match codec? cv, coords? xs, coords? ys with
    | some cd, some x, some y =>
      let mont := cd.upToSign "compressed"
      let inp : DecInput :=
        { denotes := fun P => if mont then none else some (P.coords == some (x.map (· % cd.C.p), y.map (· % cd.C.p))),
          canonicalFor := fun _ => x.all (· < cd.C.p) && y.all (· < cd.C.p) }
      decVerdict cd ("affine-invalid-" ++ cv) ("affine-value-" ++ cv) ("affine-rejects-valid-" ++ cv) false inp (cd.aff x y) rhs
    | _, _, _ => .unsupported "aff args"
  | "affx", [cv, xs, os] =>
    match codec? cv, coords? xs, os.toNat? with
    | some cd, some x, some odd =>
      match cd.affx with
      | some f =>
        let inp : DecInput :=
          { denotes := fun P => match P.coords with
              | some (px, py) => some (px == x.map (· % cd.C.p) && py.headD 0 % 2 == odd)
              | none => some false,
            canonicalFor := fun _ => x.all (· < cd.C.p) }
        decVerdict cd ("affx-invalid-" ++ cv) ("affx-value-" ++ cv) ("affx-rejects-valid-" ++ cv) false inp (f x odd) rhs
      | none => .unsupported "affx on a curve without FromAffineX"
    | _, _, _ => .unsupported "affx args"
  | "gtdec", [bs] =>
    match bytesOf? bs with
    | none => .unsupported "bytes"
    | some b =>
      if rhs.startsWith "panic" then .bad "decode-panic-gt" rhs else
      match GT.decode blsP 48 b with
      | none => mirror "reject" rhs
      | some cs =>
        let m := "ok:" ++ joinComma (cs.map natToHex)
        -- property: accepted ⇒ the twelve components are the bytes read mod p; canonical encodings are accepted
        if rhs.startsWith "ok:" then spec "gt-value" m rhs
        else if GT.encode 48 cs == b then .bad "gt-rejects-valid" ("rejected a canonical encoding, expected=" ++ m)
        else mirror m rhs
  | "gtenc", [cs] =>
    match parseNatList? cs with
    | some c => mirror (hexOf (GT.encode 48 c)) rhs
    | none => .unsupported "gt comps"
  | "gtrt", [cs] =>
    match parseNatList? cs with
    | some c =>
      if c.length != 12 || c.any (· ≥ blsP) then .unsupported "gt comps" else
      spec "roundtrip-gt" ("ok:" ++ cs) rhs
    | none => .unsupported "gt comps"
  | "sfb", [name, qs, ls, bs] =>
    match hexToNat? qs, ls.toNat?, bytesOf? bs with
    | some q, some len, some b =>
      if rhs.startsWith "panic" then .bad ("scalar-panic-" ++ name) rhs else
      let model := if name == "ed25519.base" then Scalar.fromBytesClearTop q len b else Scalar.fromBytes q len b
      -- property: an accepted string denotes `bytes mod order`
      if rhs.startsWith "ok:" && rhs != "ok:" ++ natToHex (beNat b % q) then
        .bad ("scalar-frombytes-" ++ name) ("expected=ok:" ++ natToHex (beNat b % q) ++ " observed=" ++ rhs)
      else if rhs == "reject" && b.length == len && beNat b < q then
        .bad ("scalar-rejects-canonical-" ++ name) ("rejected the canonical encoding of " ++ natToHex (beNat b))
      else mirror (match model with | some v => "ok:" ++ natToHex v | none => "reject") rhs
    | _, _, _ => .unsupported "sfb args"
  | "sbytes", [name, qs, ls, vs] =>
    match hexToNat? qs, ls.toNat?, hexToNat? vs with
    | some q, some len, some v =>
      if v ≥ q then .unsupported "sbytes: unreduced value" else
      match bytesOf? rhs with
      | none => .unsupported "rhs"
      | some b =>
        -- property: decoding the encoding gives the element back
        if Scalar.fromBytes q len b != some v then .bad ("scalar-roundtrip-" ++ name) ("Bytes() does not decode to the element: " ++ rhs)
        else mirror (hexOf (Scalar.toBytes len v)) rhs
    | _, _, _ => .unsupported "sbytes args"
  | "swide", [name, qs, ws, bs] =>
    match hexToNat? qs, ws.toNat?, bytesOf? bs with
    | some q, some wide, some b =>
      if rhs.startsWith "panic" then .bad ("scalar-panic-" ++ name) rhs else
      if rhs.startsWith "ok:" && rhs != "ok:" ++ natToHex (beNat b % q) then
        .bad ("scalar-fromwide-" ++ name) ("expected=ok:" ++ natToHex (beNat b % q) ++ " observed=" ++ rhs)
      else
        -- the fiat fields split the padded string in two halves (`fromWideSplit`, proved equal to the
        -- one-shot reduction: `Props.C13.fromWide_split_reduces`); edwards25519's base field masks bits instead
        let model := if name == "ed25519.base" || wide % 2 != 0 then Scalar.fromWideBytes q wide b
                     else Scalar.fromWideSplit q (wide / 2) b
        mirror (match model with | some v => "ok:" ++ natToHex v | none => "reject") rhs
    | _, _, _ => .unsupported "swide args"
  | "sred", [name, qs, bs] =>
    match hexToNat? qs, bytesOf? bs with
    | some q, some b =>
      if rhs.startsWith "panic" then .bad ("scalar-panic-" ++ name) rhs else
      -- property: the accepted string denotes `bytes mod order` (the API promises the reduction for every length)
      if rhs.startsWith "ok:" then spec ("scalar-reduce-" ++ name) ("ok:" ++ natToHex (beNat b % q)) rhs
      else mirror ("ok:" ++ natToHex (beNat b % q)) rhs
    | _, _ => .unsupported "sred args"
  | _, cv :: fmt :: rest => handlePoint op cv fmt rest rhs
  | _, _ => .unsupported ("C13 op " ++ op)

end BronVerif.Drive.C13
