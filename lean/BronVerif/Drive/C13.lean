import BronVerif.Drive.Common
/-! Driver handlers for C13. -/
namespace BronVerif.Drive.C13
open BronVerif BronVerif.Drive

def handle (op : String) (_args : List String) (_rhs : String) : Verdict :=
  .unsupported ("C13 op " ++ op)

end BronVerif.Drive.C13
