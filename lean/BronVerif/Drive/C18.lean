import BronVerif.Drive.Common
/-! Driver handlers for C18. -/
namespace BronVerif.Drive.C18
open BronVerif BronVerif.Drive

def handle (op : String) (_args : List String) (_rhs : String) : Verdict :=
  .unsupported ("C18 op " ++ op)

end BronVerif.Drive.C18
