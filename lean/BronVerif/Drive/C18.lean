import BronVerif.Drive.Common
import BronVerif.Model.Curves
import BronVerif.Model.Commit
import BronVerif.Model.Hash.Blake2b
/-!
Driver handlers for C18 (commitments).

Lines (`sch` ∈ `ped eg int pai`, `par` = curve name or `-`, `key` = comma list):

    commit  sch par key m w                       => c
    open    sch par key c m w                     => accept | reject
    step    sch par key kind c1;m1;w1 extra       => c;m;w      kind ∈ op inv scalar rerand shift
    tcommit sch par tkey m w                      => c          trapdoor commit = public commit
    opens   ped par g,lam m0 w0 dc m w            => accept | reject   Open (commit m0 w0 + dc•g) m w
    equiv   sch par tkey m w m'                   => w'         opens the same commitment to m'
    pedkey  curve g h                             => ok | reject   NewCommitmentKeyUnchecked
    xkey    sch par key                           => ok         key extracted from a transcript is valid
    hcommit key m w                               => c          hashcom
    hopen   k0 m0 w0 c0 k c m w                   => accept | reject

Every verdict is computed with the definitions of `Model/Commit.lean` instantiated with the runtime
curve arithmetic of `Model/Curves.lean` resp. modular arithmetic on `Nat`.
-/
namespace BronVerif.Drive.C18
open BronVerif BronVerif.Drive BronVerif.Commit

/-! ### runtime instances -/

/-- a point of the runtime curve `C` with additive notation -/
structure CPt (C : Curves.Params) where
  pt : Curves.Pt
deriving DecidableEq

instance {C : Curves.Params} : Add (CPt C) := ⟨fun a b => ⟨Curves.add C a.pt b.pt⟩⟩
instance {C : Curves.Params} : Neg (CPt C) := ⟨fun a => ⟨Curves.neg C a.pt⟩⟩
instance {C : Curves.Params} {n : Nat} : SMul (Fp n) (CPt C) := ⟨fun k a => ⟨Curves.smul C k.val a.pt⟩⟩

/-- a scheme with its line-protocol syntax -/
structure Sch where
  {M W C S : Type}
  hom : Hom M W C S
  [decC : DecidableEq C]
  parseM : String → Option M
  parseW : String → Option W
  parseC : String → Option C
  parseS : String → Option S
  showM : M → String
  showW : W → String
  showC : C → String

def parsePt (C : Curves.Params) (s : String) : Option (CPt C) := (Curves.parse? C s).map (⟨·⟩)
def showPt {C : Curves.Params} (P : CPt C) : String := Curves.render C P.pt
def parseFp (n : Nat) [NeZero n] (s : String) : Option (Fp n) :=
  (hexToNat? s).bind fun v => if v < n then some (Fp.ofNat n v) else none

def parsePair (C : Curves.Params) (s : String) : Option (CPt C × CPt C) :=
  match s.splitOn "+" with
  | [a, b] => do let x ← parsePt C a; let y ← parsePt C b; some (x, y)
  | _ => none

def parseZU (N : Nat) (s : String) : Option (ZU N) :=
  (hexToNat? s).bind fun v => if v < N then some ⟨v⟩ else none
def parseBelow (N : Nat) (s : String) : Option Nat :=
  (hexToNat? s).bind fun v => if v < N then some v else none

def pedSch (C : Curves.Params) (n : Nat) [NeZero n] (g h : CPt C) : Sch where
  hom := pedersen (S := Fp n) g h
  parseM := parseFp n
  parseW := parseFp n
  parseC := parsePt C
  parseS := parseFp n
  showM := Fp.toHex
  showW := Fp.toHex
  showC := showPt

def egSch (C : Curves.Params) (n : Nat) [NeZero n] (g h : CPt C) : Sch where
  hom := elgamal (S := Fp n) ⟨Curves.zero C⟩ g h
  parseM := parsePt C
  parseW := parseFp n
  parseC := parsePair C
  parseS := parseFp n
  showM := showPt
  showW := Fp.toHex
  showC := fun c => showPt c.1 ++ "+" ++ showPt c.2

def intSch (N : Nat) (s t : ZU N) : Sch where
  hom := ringPedersen s t
  parseM := hexToInt?
  parseW := hexToInt?
  parseC := parseZU N
  parseS := hexToInt?
  showM := intToHex
  showW := intToHex
  showC := fun c => natToHex c.v

def paiSch (N : Nat) : Sch where
  hom := paillier N
  parseM := parseBelow N
  parseW := parseBelow N
  parseC := parseBelow (N * N)
  parseS := hexToInt?
  showM := natToHex
  showW := natToHex
  showC := natToHex

/-- build the scheme named on a line -/
def mkSch (sch par key : String) : Option Sch :=
  match sch, splitComma key with
  | "ped", [gs, hs] =>
    match Curves.byName? par with
    | none => none
    | some C =>
      match parsePt C gs, parsePt C hs with
      | some g, some h => withPrime C.n none fun n => some (pedSch C n g h)
      | _, _ => none
  | "eg", [gs, hs] =>
    match Curves.byName? par with
    | none => none
    | some C =>
      match parsePt C gs, parsePt C hs with
      | some g, some h => withPrime C.n none fun n => some (egSch C n g h)
      | _, _ => none
  | "int", [ns, ss, ts] =>
    match hexToNat? ns with
    | none => none
    | some N =>
      match parseZU N ss, parseZU N ts with
      | some s, some t => some (intSch N s t)
      | _, _ => none
  | "pai", [ns] =>
    match hexToNat? ns with
    | some N => if N < 2 then none else some (paiSch N)
    | none => none
  | _, _ => none

def triple? (k : Sch) (s : String) : Option (k.C × k.M × k.W) :=
  match s.splitOn ";" with
  | [c, m, w] => do some (← k.parseC c, ← k.parseM m, ← k.parseW w)
  | _ => none

def triples? (k : Sch) (s : String) : Option (List (k.C × k.M × k.W)) :=
  let parts := s.splitOn ";"
  if parts.length % 3 ≠ 0 then none else
  (chunk parts 3).mapM fun
    | [c, m, w] => do some (← k.parseC c, ← k.parseM m, ← k.parseW w)
    | _ => none

def showTriple (k : Sch) (c : k.C) (m : k.M) (w : k.W) : String :=
  k.showC c ++ ";" ++ k.showM m ++ ";" ++ k.showW w

def acc (b : Bool) : String := if b then "accept" else "reject"

/-- one homomorphic step on an opening triple -/
def step (k : Sch) (kind : String) (x : k.C × k.M × k.W) (extra : String) : Option (k.C × k.M × k.W) :=
  let (c, m, w) := x
  match kind with
  | "op" => do
    let ys ← triples? k extra
    if ys.isEmpty then none else
    some (ys.foldl (fun (a : k.C × k.M × k.W) y => (k.hom.cOp a.1 y.1, k.hom.mOp a.2.1 y.2.1, k.hom.wOp a.2.2 y.2.2)) (c, m, w))
  | "inv" => some (k.hom.cInv c, k.hom.mInv m, k.hom.wInv w)
  | "scalar" => do
    let s ← k.parseS extra
    some (k.hom.cScalar c s, k.hom.mScalar m s, k.hom.wScalar w s)
  | "rerand" => do
    let s ← k.parseW extra
    some (k.hom.reRandomise c s, m, k.hom.wOp w s)
  | "shift" => do
    let d ← k.parseM extra
    some (k.hom.shift c d, k.hom.mOp m d, w)
  | _ => none

def handleSch (k : Sch) (op : String) (rest : List String) (rhs : String) : Verdict :=
  haveI := k.decC
  match op, rest with
  | "commit", [ms, ws] =>
    match k.parseM ms, k.parseW ws with
    | some m, some w => spec "commit" (k.showC (k.hom.commit m w)) rhs
    | _, _ => .unsupported "commit args"
  | "open", [cs, ms, ws] =>
    match k.parseC cs, k.parseM ms, k.parseW ws with
    | some c, some m, some w => spec "open" (acc (k.hom.open c m w)) rhs
    | _, _, _ => .unsupported "open args"
  | "step", [kind, xs, extra] =>
    match triple? k xs with
    | none => .unsupported "step triple"
    | some x =>
      match step k kind x extra with
      | none => .unsupported ("step " ++ kind)
      | some (c, m, w) =>
        -- commitment, message and witness of the combination are exactly the model's; that the
        -- combination opens is decided by the `open` lines that follow (and `Props.C18.*_hom`)
        spec ("hom-" ++ kind) (showTriple k c m w) rhs
  | _, _ => .unsupported ("C18 " ++ op)

/-! ### trapdoor keys -/

def handleTrapdoor (op sch par key : String) (rest : List String) (rhs : String) : Verdict :=
  match sch, splitComma key with
  | "ped", [gs, ls] =>
    match Curves.byName? par with
    | none => .unsupported "curve"
    | some C => withPrime C.n (.unsupported "n=0") fun n =>
      match parsePt C gs, parseFp n ls with
      | some g, some lam =>
        let hOf : Unit → CPt C := fun _ => lam • g
        match op, rest with
        | "tkey", [] => spec "trapdoor-key" (showPt (hOf ())) rhs
        | "tcommit", [ms, ws] =>
          match parseFp n ms, parseFp n ws with
          | some m, some w =>
            let viaTrapdoor := pedTrapdoorCommit g lam m w
            let viaPublic := pedCommit g (hOf ()) m w
            if viaTrapdoor ≠ viaPublic then .unsupported "model: trapdoor commit ≠ public commit"
            else spec "trapdoor-commit" (showPt viaPublic) rhs
          | _, _ => .unsupported "tcommit args"
        | "opens", [m0s, w0s, dcs, ms, ws] =>
          -- Open of `commit m0 w0 + dc • g` with `(m, w)` under the exported key `(g, lam • g)`,
          -- predicted from the scalars alone (`Props.C18.ped_open_iff_scalars`)
          match parseFp n m0s, parseFp n w0s, parseFp n dcs, parseFp n ms, parseFp n ws with
          | some m0, some w0, some dc, some m, some w =>
            spec "open" (acc (pedOpenScalars lam m0 w0 dc m w)) rhs
          | _, _, _, _, _ => .unsupported "opens args"
        | "equiv", [ms, ws, m2s] =>
          match parseFp n ms, parseFp n ws, parseFp n m2s, parseFp n rhs with
          | some m, some w, some m', some w' =>
            -- the property: the SAME commitment opens to m' with the returned witness under the
            -- exported public key (g, h)
            let h := hOf ()
            let c := pedCommit g h m w
            if !(genericOpen (pedCommit g h) c m' w') then
              .bad "equivocate" ("returned witness does not open the commitment to the new message; formula gives " ++ (pedEquivocate lam m w m').toHex)
            else mirror (pedEquivocate lam m w m').toHex rhs
          | _, _, _, _ => if rhs.startsWith "err" then .bad "equivocate" ("trapdoor holder could not equivocate: " ++ rhs) else .unsupported "equiv args"
        | _, _ => .unsupported ("C18 " ++ op)
      | _, _ => .unsupported "trapdoor key"
  | "int", [ns, ts, ls, os] =>
    match hexToNat? ns, hexToNat? ls, hexToNat? os with
    | some N, some lam, some ord =>
      match parseZU N ts with
      | none => .unsupported "t"
      | some t =>
        let sOf : Unit → ZU N := fun _ => t ^ (lam : Int)
        match op, rest with
        | "tkey", [] => spec "trapdoor-key" (natToHex (sOf ()).v) rhs
        | "tcommit", [ms, ws] =>
          match hexToInt? ms, hexToInt? ws with
          | some m, some w =>
            -- the trapdoor path reduces the exponent modulo the group order it knows
            let viaTrapdoor : ZU N := t ^ ((m * (lam : Int) + w) % (ord : Int))
            let viaPublic := intCommit (sOf ()) t m w
            if viaTrapdoor ≠ viaPublic then .unsupported "model: trapdoor commit ≠ public commit (is ord the order of t?)"
            else spec "trapdoor-commit" (natToHex viaPublic.v) rhs
          | _, _ => .unsupported "tcommit args"
        | "equiv", [ms, ws, m2s] =>
          match hexToInt? ms, hexToInt? ws, hexToInt? m2s, hexToInt? rhs with
          | some m, some w, some m', some w' =>
            let s := sOf ()
            let c := intCommit s t m w
            let bound : Int := (N : Int) * (2 : Int) ^ 80
            if !(genericOpen (intCommit s t) c m' w') then
              .bad "equivocate" "returned witness does not open the commitment to the new message"
            else if (w' - intEquivocateRaw lam m w m') % (ord : Int) ≠ 0 then
              .diff ("r+lam(m-m') mod ord = " ++ intToHex (intEquivocateRaw lam m w m' % (ord : Int)))
            else if m ≠ m' ∧ ¬ (-bound ≤ w' ∧ w' < bound) then .diff "witness outside [-N 2^80, N 2^80)"
            else .ok
          | _, _, _, _ => if rhs.startsWith "err" then .bad "equivocate" ("trapdoor holder could not equivocate: " ++ rhs) else .unsupported "equiv args"
        | _, _ => .unsupported ("C18 " ++ op)
    | _, _, _ => .unsupported "trapdoor key"
  | _, _ => .unsupported "trapdoor scheme"

/-! ### keys -/

def jacobiAux : Nat → Nat → Nat → Int → Int
  | 0, _, _, _ => 0
  | fuel + 1, a, n, acc =>
    if a = 0 then (if n = 1 then acc else 0) else
    if a % 2 = 0 then
      jacobiAux fuel (a / 2) n (if n % 8 = 3 ∨ n % 8 = 5 then -acc else acc)
    else
      jacobiAux fuel (n % a) a (if a % 4 = 3 ∧ n % 4 = 3 then -acc else acc)

/-- Jacobi symbol `(a / n)` for odd `n` -/
def jacobi (a n : Nat) : Int := jacobiAux (4 * n.log2 + 8) (a % n) n 1

/-- `pedkey curve g h => ok|reject` (NewCommitmentKeyUnchecked); `xkey …` keys from transcripts -/
def handleKey (op : String) (args : List String) (rhs : String) : Verdict :=
  match op, args with
  | "pedkey", [par, gs, hs] =>
    match Curves.byName? par with
    | none => .unsupported "curve"
    | some C =>
      match Curves.parse? C gs, Curves.parse? C hs with
      | some g, some h =>
        spec "pedersen-key-validation" (if pedKeyValid (Curves.zero C) g h then "ok" else "reject") rhs
      | _, _ => .unsupported "points"
  | "xkey", ["ped", par, key] =>
    match Curves.byName? par, splitComma key with
    | some C, [gs, hs] =>
      match Curves.parse? C gs, Curves.parse? C hs with
      | some g, some h =>
        if !(pedKeyValid (Curves.zero C) g h) then .bad "extracted-key" "h is the identity or equals g"
        else if !(Curves.inSubgroup C h) then .bad "extracted-key" "h is not in the prime-order subgroup"
        else spec "extracted-key" "ok" rhs
      | _, _ => .unsupported "points"
    | _, _ => .unsupported "xkey ped"
  | "xkey", ["int", _, key] =>
    match (splitComma key).mapM hexToNat? with
    | some [N, s, t] =>
      if s = t ∨ s % N = 1 ∨ t % N = 1 ∨ s = 0 ∨ t = 0 ∨ s ≥ N ∨ t ≥ N then .bad "extracted-key" "s, t must be distinct non-trivial residues"
      else if jacobi s N ≠ 1 ∨ jacobi t N ≠ 1 then .bad "extracted-key" "s, t must have Jacobi symbol 1"
      else if Nat.gcd (s - 1) N ≠ 1 ∨ Nat.gcd (t - 1) N ≠ 1 then .bad "extracted-key" "gcd(x-1,N) must be 1"
      else spec "extracted-key" "ok" rhs
    | _ => .unsupported "xkey int"
  | _, _ => .unsupported ("C18 " ++ op)

/-! ### hash commitments -/

/-- The keyed hash of `hashcom` (`blake2b.New256(key)`): the BLAKE2b model with a 32-byte output.
`some`: commitments are recomputed exactly, `commitment = BLAKE2b_key(m ‖ w)`.  (With `none` the
handlers fall back to what follows from injectivity of the hash alone, `hashOpenPredict`.) -/
def keyedHash? : Option (List UInt8 → List UInt8 → List UInt8) :=
  some fun k x => (Hash.blake2b ⟨k.toArray⟩ ⟨x.toArray⟩ 32).toList

def bytes? (s : String) : Option (List UInt8) := (hexToBytes? s).map (·.toList)

def handleHash (op : String) (args : List String) (rhs : String) : Verdict :=
  match op, args with
  | "hcommit", [ks, ms, ws] =>
    match bytes? ks, bytes? ms, bytes? ws, bytes? rhs with
    | some k, some m, some w, some c =>
      if k.length ≠ 32 ∨ w.length ≠ 32 then .unsupported "key/witness length"
      else if c.length ≠ 32 then .bad "hashcom-digest" "commitment is not 32 bytes"
      else match keyedHash? with
        | some H => if hashCommit H k m w = c then .ok else .bad "hashcom-digest" "commitment ≠ BLAKE2b_key(m ‖ w)"
        | none => .ok
    | _, _, _, _ => .unsupported "hcommit args"
  | "hopen", [k0s, m0s, w0s, c0s, ks, cs, ms, ws] =>
    match bytes? k0s, bytes? m0s, bytes? w0s, bytes? c0s, bytes? ks, bytes? cs, bytes? ms, bytes? ws with
    | some k0, some m0, some w0, some c0, some k, some c, some m, some w =>
      if k0.length ≠ 32 ∨ k.length ≠ 32 ∨ w0.length ≠ 32 ∨ w.length ≠ 32 ∨ c0.length ≠ 32 ∨ c.length ≠ 32 then
        .unsupported "lengths"
      else match keyedHash? with
        | some H =>
          if hashCommit H k0 m0 w0 ≠ c0 then .bad "hashcom-digest" "c0 ≠ BLAKE2b_k0(m0 ‖ w0)"
          else
            let exact := hashOpen H k c m w
            match hashOpenPredict k0 m0 w0 c0 k c m w with
            | some b =>
              -- a disagreement would be a collision of the keyed hash on inputs that occur
              if b ≠ exact then .unsupported "hash model: collision on occurring inputs (HashInj fails)"
              else spec "hashcom-open" (acc exact) rhs
            | none => spec "hashcom-open" (acc exact) rhs
        | none =>
          match hashOpenPredict k0 m0 w0 c0 k c m w with
          | some b => spec "hashcom-open" (acc b) rhs
          | none => .unsupported "hopen: more than one component changed (needs the hash model)"
    | _, _, _, _, _, _, _, _ => .unsupported "hopen args"
  | _, _ => .unsupported ("C18 " ++ op)

def handle (op : String) (args : List String) (rhs : String) : Verdict :=
  match op, args with
  | "commit", sch :: par :: key :: rest | "open", sch :: par :: key :: rest
  | "step", sch :: par :: key :: rest =>
    match mkSch sch par key with
    | some k => handleSch k op rest rhs
    | none => .unsupported "scheme/key"
  | "tkey", sch :: par :: key :: rest | "tcommit", sch :: par :: key :: rest
  | "opens", sch :: par :: key :: rest
  | "equiv", sch :: par :: key :: rest => handleTrapdoor op sch par key rest rhs
  | "pedkey", _ | "xkey", _ => handleKey op args rhs
  | "hcommit", _ | "hopen", _ => handleHash op args rhs
  | _, _ => .unsupported ("C18 op " ++ op)

end BronVerif.Drive.C18
