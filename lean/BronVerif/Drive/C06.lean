import BronVerif.Drive.Common
/-! Driver handlers for C06. -/
namespace BronVerif.Drive.C06
open BronVerif BronVerif.Drive

def handle (op : String) (_args : List String) (_rhs : String) : Verdict :=
  .unsupported ("C06 op " ++ op)

end BronVerif.Drive.C06
