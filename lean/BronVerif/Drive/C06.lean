import BronVerif.Drive.Common
import BronVerif.Drive.C03
import BronVerif.Drive.C01
import BronVerif.Model.SignAlg
import BronVerif.Model.Vss
import BronVerif.Model.Epoch
/-! Driver handlers for C06 (refresh / recovery / redistribution histories): every relation is
evaluated in model curve arithmetic with the model's own reconstruction coefficients (`solveLeft`). -/
namespace BronVerif.Drive.C06
open BronVerif BronVerif.Drive BronVerif.LinAlg BronVerif.SignAlg
open BronVerif.Drive.C03 (splitBar parseMat parsePts parseShare shareOfRow firstSome parseSets)

def holdersOf (labels : List Nat) : List Nat := labels.eraseDups

/-- a parsed epoch: MSP, labels, per-holder share scalars -/
structure Ep (q : Nat) where
  rows : Nat
  cols : Nat
  labels : List Nat
  M : Mat (Fp q)
  shares : List (Nat × List (Fp q))

def parseEp {q : Nat} [NeZero q] (rs cs labelsS ms sharesS : String) : Option (Ep q) := do
  let rows ← rs.toNat?
  let cols ← cs.toNat?
  let labels ← parseDecList? labelsS
  let M ← parseMat (p := q) rows cols ms
  let shares ← (splitBar sharesS).mapM (parseShare (p := q))
  if labels.length ≠ rows then none
  some { rows, cols, labels, M, shares }

def Ep.sor {q : Nat} [NeZero q] (e : Ep q) : Nat → Fp q := shareOfRow e.labels e.shares

/-- the secret reconstructed from ALL holders with the model's coefficients -/
def Ep.secret {q : Nat} [NeZero q] (e : Ep q) : Option (Fp q) :=
  reconstruct e.M e.cols e.labels e.sor (holdersOf e.labels)

/-- every holder has a share entry with one scalar per owned row -/
def Ep.complete {q : Nat} [NeZero q] (e : Ep q) : Bool :=
  (holdersOf e.labels).all fun id =>
    match e.shares.find? (fun sh => sh.1 == id) with
    | none => false
    | some (_, vals) => vals.length == (rowsOf e.labels id).length

def handleStep (C : Curves.Params) (pkS oR oC oL oM oSh nR nC nL nM nVS nSh qS uS : String) : Verdict :=
  withPrime C.n (.unsupported "n=0") fun q =>
  match parseEp (q := q) oR oC oL oM oSh, parseEp (q := q) nR nC nL nM nSh, Curves.parse? C pkS,
        parsePts C nVS, parseSets qS, parseSets uS with
  | some old, some new, some pkp, some V, some qsets, some usets =>
    let g := GPt.gen C
    let pk : GPt C := ⟨pkp⟩
    if !old.complete then .unsupported "old epoch incomplete" else
    match old.secret with
    | none => .unsupported "old epoch does not reconstruct"
    | some s0 =>
      if decide (s0 • g ≠ pk) then .bad "secret-not-dlog-pk0" "the secret of the previous epoch does not lift to the original public key" else
      if V.length ≠ new.cols then .bad "vv-length" s!"V has {V.length} entries, MSP has {new.cols} columns" else
      if decide (V.head? ≠ some pk) then .bad "pk-changed" "V[0] of the new epoch differs from the original public key" else
      if !new.complete then .bad "missing-share" "a holder of the current structure has no (complete) share" else
      match firstSome new.shares (fun (id, vals) =>
          if shareLiftOk new.M new.labels V g id vals then none
          else some (.bad "new-share-does-not-verify" s!"share of holder {id} does not lift to M_j·V")) with
      | some v => v
      | none =>
        match firstSome qsets (fun S =>
            match reconstruct new.M new.cols new.labels new.sor S with
            | none => some (.bad "qualified-set-not-spanning" s!"e0 not in the span of the rows of {S}")
            | some s =>
              if s ≠ s0 then some (.bad "secret-changed" s!"set {S} reconstructs {s.toHex}, before the step the secret was {s0.toHex}")
              else if decide (s • g ≠ pk) then some (.bad "reconstruct-not-dlog-pk0" s!"set {S}")
              else none) with
        | some v => v
        | none =>
          match firstSome usets (fun S =>
              match reconCoeffs new.M new.cols (rowsOfSet new.labels S) with
              | none => none
              | some _ => some (.bad "unqualified-set-spans" s!"e0 is in the span of the rows of unqualified {S}")) with
          | some v => v
          | none => .ok
  | _, _, _, _, _, _ => .unsupported "parse"

/-- `to:hex,hex;to:hex` -/
def parseSubs {q : Nat} [NeZero q] (s : String) : Option (List (Nat × List (Fp q))) :=
  if s == "-" then some [] else (s.splitOn ";").mapM (parseShare (p := q))

def vsub {q : Nat} (a b : List (Fp q)) : List (Fp q) := List.zipWith (· - ·) a b
def vaddF {q : Nat} (a b : List (Fp q)) : List (Fp q) := List.zipWith (· + ·) a b

def handleRedist (C : Curves.Params) (a : List String) : Verdict :=
  withPrime C.n (.unsupported "n=0") fun q =>
  match a with
  | [pkS, oR, oC, oL, oM, oVS, qS, zR, zC, zL, zM, zVS, nR, nC, nL, nM, nVS, sendS, cvS, subS, nSh] =>
    match parseEp (q := q) oR oC oL oM "-", parseEp (q := q) zR zC zL zM "-", parseEp (q := q) nR nC nL nM nSh,
          Curves.parse? C pkS, parsePts C oVS, parsePts C zVS, parsePts C nVS, parseDecList? qS, parseDecList? sendS,
          (splitBar cvS).mapM (parsePts C), (splitBar subS).mapM (parseSubs (q := q)) with
    | some old, some zer, some new, some pkp, some oV, some zV, some nV, some Q, some senders, some cvs, some subs =>
      let g := GPt.gen C
      let pk : GPt C := ⟨pkp⟩
      if senders ≠ Q ∨ cvs.length ≠ Q.length ∨ subs.length ≠ Q.length then .unsupported "senders" else
      if oV.length ≠ old.cols ∨ zV.length ≠ zer.cols ∨ nV.length ≠ new.cols then .bad "vv-length" "a verification vector has the wrong length" else
      if decide (zV.head? ≠ some (0 : GPt C)) then .bad "zero-vv-not-identity" "the zero sharing's public value is not the identity" else
      let rowsQ := rowsOfSet old.labels Q
      match reconCoeffs old.M old.cols rowsQ, reconCoeffs zer.M zer.cols (List.range zer.rows) with
      | none, _ => .bad "driving-set-unqualified" s!"e0 is not in the span of the rows of the previous holders {Q}"
      | _, none => .unsupported "zero MSP does not span"
      | some c, some cz =>
        let labelsQ := rowsQ.map fun k => old.labels.getD k 0
        let liftedQ : List (GPt C) := rowsQ.map fun k => gdot (old.M.getD k []) oV
        let zlifted : List (GPt C) := (List.range zer.rows).map fun k => gdot (zer.M.getD k []) zV
        let partials : List (GPt C) := Q.map fun id => Epoch.partialPk labelsQ c liftedQ zer.labels cz zlifted id
        -- Σ partial public keys = pk0 (old V commits to the key and the shift sums to zero)
        if decide (gsum partials ≠ pk) then .bad "partial-keys-do-not-sum-to-pk0" "Σ of the blinded partial public keys differs from the original public key" else
        -- every sender's 0-th commitment is its blinded partial public key
        match firstSome ((Q.zip cvs).zip partials) (fun ((id, cv), P) =>
            if cv.length ≠ new.cols then some (.bad "vv-length" s!"contribution of {id}")
            else if decide (cv.head? ≠ some P) then some (.bad "partial-pk-mismatch" s!"0-th commitment of previous holder {id} is not its blinded partial public key")
            else none) with
        | some v => v
        | none =>
          if decide (Epoch.vvSum new.cols cvs ≠ nV) then .bad "vv-not-sum-of-contributions" "the new verification vector is not the sum of the broadcast contributions" else
          if decide (nV.head? ≠ some pk) then .bad "pk-changed" "V[0] of the new epoch differs from the original public key" else
          -- every sub-share on the wire verifies against its sender's vector
          match firstSome ((Q.zip cvs).zip subs) (fun ((id, cv), ss) =>
              firstSome ss (fun (to, vals) =>
                if Epoch.subShareOk new.M new.labels g cv to vals then none
                else some (.bad "sub-share-does-not-verify" s!"sub-share {id}→{to}"))) with
          | some v => v
          | none =>
            -- aggregation: share' = Σ sub-shares; a previous holder's own (unsent) contribution is
            -- what is left and must verify against its own broadcast vector
            match firstSome new.shares (fun (j, vals) =>
                let received := (subs.filterMap fun ss => (ss.find? (fun p => p.1 == j)).map (·.2))
                let total := received.foldl vaddF (List.replicate vals.length 0)
                if Q.contains j then
                  if received.length + 1 ≠ Q.length then some (.unsupported s!"sub-shares for {j}") else
                  match (Q.zip cvs).find? (fun p => p.1 == j) with
                  | none => some (.unsupported "own vector")
                  | some (_, cv) =>
                    if Epoch.subShareOk new.M new.labels g cv j (vsub vals total) then none
                    else some (.bad "own-contribution-inconsistent" s!"share of {j} minus the received sub-shares does not verify against {j}'s own broadcast vector")
                else
                  if received.length ≠ Q.length then some (.unsupported s!"sub-shares for {j}") else
                  if total = vals then none
                  else some (.bad "share-not-sum-of-sub-shares" s!"holder {j}")) with
            | some v => v
            | none => .ok
    | _, _, _, _, _, _, _, _, _, _, _ => .unsupported "parse"
  | _ => .unsupported "redist arity"

/-- `S/B` with comma-separated decimal ids -/
def parsePair (s : String) : Option (List Nat × List Nat) :=
  match s.splitOn "/" with
  | [a, b] => do some ((← parseDecList? a), (← parseDecList? b))
  | _ => none

def handleMix (C : Curves.Params) (pkS rs cs lS mS shA shB pairsS : String) : Verdict :=
  withPrime C.n (.unsupported "n=0") fun q =>
  match parseEp (q := q) rs cs lS mS shA, parseEp (q := q) rs cs lS mS shB, Curves.parse? C pkS,
        (splitBar pairsS).mapM parsePair with
  | some ea, some eb, some pkp, some pairs =>
    let g := GPt.gen C
    let pk : GPt C := ⟨pkp⟩
    if !ea.complete || !eb.complete then .unsupported "epoch incomplete" else
    if pairs.isEmpty then .unsupported "no pairs" else
    match ea.secret, eb.secret with
    | some s0, some s1 =>
      if decide (s0 • g ≠ pk) then .bad "secret-not-dlog-pk0" "epoch A" else
      if s1 ≠ s0 then .bad "secret-changed" "the two epochs reconstruct different secrets" else
      match firstSome pairs (fun (S, B) =>
          let rows := rowsOfSet ea.labels S
          match reconCoeffs ea.M ea.cols rows with
          | none => some (.unsupported s!"mix set {S} is not qualified")
          | some c =>
            let labelsS := rows.map fun k => ea.labels.getD k 0
            let MS := rows.map fun k => ea.M.getD k []
            -- the mix is essential: Σ_{k∈B} c_k M_k has a non-zero entry beyond column 0
            let w := Epoch.weightOn ea.cols labelsS B c MS
            if (w.drop 1).all (· = 0) then some (.unsupported s!"mix pair {S}/{B} is not essential") else
            let lam := Epoch.mixedShares labelsS B (rows.map ea.sor) (rows.map eb.sor)
            if dot c lam = s0 then
              some (.bad "mixed-epoch-reconstructs-secret" s!"holders {B} from the later epoch, the rest of {S} from the earlier one")
            else none) with
      | some v => v
      | none => .ok
    | _, _ => .unsupported "epoch does not reconstruct"
  | _, _, _, _ => .unsupported "parse"

def handle (op : String) (args : List String) (rhs : String) : Verdict :=
  if rhs != "ok" then .unsupported ("rhs " ++ rhs) else
  match op, args with
  | "step", [curve, _kind, pk, oR, oC, oL, oM, oSh, nR, nC, nL, nM, nV, nSh, qs, us] =>
    match Curves.byName? curve with
    | none => .unsupported ("curve " ++ curve)
    | some C => handleStep C pk oR oC oL oM oSh nR nC nL nM nV nSh qs us
  | "redist", curve :: rest =>
    match Curves.byName? curve with
    | none => .unsupported ("curve " ++ curve)
    | some C => handleRedist C rest
  | "mix", [curve, pk, rs, cs, l, m, a, b, pairs] =>
    match Curves.byName? curve with
    | none => .unsupported ("curve " ++ curve)
    | some C => handleMix C pk rs cs l m a b pairs
  | "sign-ecdsa", [_proto, curve, pk, m, r, s] =>
    match Curves.byName? curve with
    | none => .unsupported ("curve " ++ curve)
    | some C => C01.handleEcdsa C pk m r s "-" "-"
  | "sign-schnorr", [variant, curve, pk, e, R, s] =>
    match Curves.byName? curve with
    | none => .unsupported ("curve " ++ curve)
    | some C => C01.handleSchnorr C variant pk e R s "-"
  | _, _ => .unsupported ("C06 op " ++ op)

end BronVerif.Drive.C06
