import BronVerif.Drive.Common
/-! Driver handlers for C15. -/
namespace BronVerif.Drive.C15
open BronVerif BronVerif.Drive

def handle (op : String) (_args : List String) (_rhs : String) : Verdict :=
  .unsupported ("C15 op " ++ op)

end BronVerif.Drive.C15
