import BronVerif.Drive.Common
import BronVerif.Model.Curves
import BronVerif.Model.Sig
import BronVerif.Model.Hash.Sha2
import BronVerif.Model.Hash.Keccak
import BronVerif.Model.Hash.Blake2b
/-!
Driver handlers for C15 (single-party signatures).

The generic models of `Model/Sig.lean` are instantiated with `F := Fp C.n` and `G := CPt C`
(runtime curve points of `Model/Curves.lean`, arithmetic = the affine chord-and-tangent /
Edwards laws).  Message digests and Fiat–Shamir challenges are taken from the line (the Go harness
recomputes them independently of the library where a standard hash is used); the handlers are
structured as `… (e : Fp n)` so that recomputation from the message can replace the argument once
the hash models are available.

Adversarially constructed inputs (no honest signer) use, besides the `*.verify` ops,
* `ecdsa.forge` — a freely chosen `(r, s, v)` under the key recovered from it (`Sig.ecdsaForge`; the
  verification equation is the truth, cf. `Props.C15.ecdsa_recover_eq_not_sufficient`);
* `bip340.wire`, `mina.wire` — the byte-level verifiers (range / canonicity checks, `lift_x`);
* `bls.dst` — the ciphersuite identifiers of the BLS draft.
-/
namespace BronVerif.Drive.C15
open BronVerif BronVerif.Drive BronVerif.Curves BronVerif.Sig

/-- curve points as a type carrying the notation classes the signature models need -/
structure CPt (C : Params) where
  pt : Pt
deriving DecidableEq

instance (C : Params) : Add (CPt C) := ⟨fun a b => ⟨Curves.add C a.pt b.pt⟩⟩
instance (C : Params) : Neg (CPt C) := ⟨fun a => ⟨Curves.neg C a.pt⟩⟩
instance (C : Params) : OfNat (CPt C) 0 := ⟨⟨Curves.zero C⟩⟩
instance (C : Params) [NeZero C.n] : SMul (Fp C.n) (CPt C) := ⟨fun k P => ⟨Curves.smul C k.val P.pt⟩⟩

def withCurve (name : String) (f : (C : Params) → [NeZero C.n] → Verdict) : Verdict :=
  match byName? name with
  | none => .unsupported ("curve " ++ name)
  | some C => if h : C.n = 0 then .unsupported "n=0" else
    haveI : NeZero C.n := ⟨h⟩
    f C

def gen' (C : Params) : CPt C := ⟨Curves.gen C⟩

def parsePt (C : Params) (s : String) : Option (CPt C) := (Curves.parse? C s).map (⟨·⟩)
def parsePts (C : Params) (s : String) : Option (List (CPt C)) := (Curves.parseList? C s).map (·.map (⟨·⟩))
def renderPt {C : Params} (P : CPt C) : String := Curves.render C P.pt

/-- membership in the prime-order subgroup; for cofactor 1 every curve point is in it (the group has
prime order `n`), so the `n•P = 0` test is skipped there -/
def tf {C : Params} (P : CPt C) : Bool := if C.h = 1 then Curves.onCurve C P.pt else Curves.inSubgroup C P.pt

/-- affine x / y of a single-component point -/
def xOf {C : Params} (P : CPt C) : Option Nat := match P.pt.coords with
  | some ([x], _) => some x
  | _ => none
def yOf {C : Params} (P : CPt C) : Option Nat := match P.pt.coords with
  | some (_, [y]) => some y
  | _ => none

/-- x-coordinate reduced into the scalar field (0 for the identity; the verifier rejects it before) -/
def xr {C : Params} [NeZero C.n] (P : CPt C) : Fp C.n := Fp.ofNat C.n ((xOf P).getD 0)

def evenY {C : Params} (P : CPt C) : Bool := match yOf P with
  | some y => y % 2 == 0
  | none => true

/-- `IsNormalized`: `s ≤ n − s` as integers -/
def lowS {n : Nat} [NeZero n] (s : Fp n) : Bool := s.val ≤ (-s).val

/-- `FromAffineX` after the `r (+ n) mod p` computation of `RecoverPublicKey` -/
def liftR (C : Params) [NeZero C.n] (r : Fp C.n) (v : Nat) : Option (CPt C) :=
  if v ≥ 4 then none else
  if h : C.p = 0 then none else
    haveI : NeZero C.p := ⟨h⟩
    let x : Fp C.p := Fp.ofNat C.p (r.val + (if v / 2 % 2 = 1 then C.n else 0))
    let rhs := x * x * x + Fp.ofNat C.p C.a * x + Fp.ofNat C.p C.b
    match Fp.sqrt? rhs with
    | none => none
    | some y =>
      let y' := if (y.val % 2 == 1) == (v % 2 == 1) then y else -y
      some ⟨⟨some ([x.val], [y'.val])⟩⟩

/-- `DigestToScalar`: leftmost `min(len, ⌈bits/8⌉)` bytes, right-shifted to `bits` bits, mod `n` -/
def digestToScalar (n : Nat) [NeZero n] (digest : ByteArray) : Fp n :=
  let size := (n.log2 + 1 + 7) / 8
  let bits := n.log2 + 1
  if digest.size ≥ size then
    let d := digest.extract 0 size
    let v := bytesToNatBE d
    Fp.ofNat n (v >>> (size * 8 - bits))
  else Fp.ofNat n (bytesToNatBE digest)

def parseV (s : String) : Option (Option Nat) :=
  if s == "-" then some none else s.toNat?.map some

def renderV : Option Nat → String
  | none => "-"
  | some v => toString v

def acc (b : Bool) : String := if b then "accept" else "reject"

def fpOf (n : Nat) [NeZero n] (s : String) : Option (Fp n) :=
  (hexToNat? s).bind fun v => if v < n then some (Fp.ofNat n v) else none

def allDistinct {α} [DecidableEq α] : List α → Bool
  | [] => true
  | x :: xs => !(xs.contains x) && allDistinct xs

/-- the hash models available for exact recomputation (SHA-1 is not modelled: its digest is taken from
the line, computed there by Go's crypto/sha1) -/
def hashByName? (name : String) : Option (ByteArray → ByteArray) :=
  match (name.splitOn "-rfc6979").headD name with
  | "sha256" => some Hash.sha256
  | "sha512" => some Hash.sha512
  | "sha224" => some Hash.sha224
  | "sha384" => some Hash.sha384
  | "sha512-256" => some Hash.sha512_256
  | "sha3-256" => some Hash.sha3_256
  | "sha3-512" => some Hash.sha3_512
  | "blake2b-256" => some Hash.blake2b256
  | _ => none

/-- message digest: recomputed from the message when the hash is modelled (`none` when the recomputed
digest differs from the one Go's standard library produced — a broken hash model, not a property
failure), else the digest of the line -/
def digestOf (hash : String) (msg lineDigest : ByteArray) : Option ByteArray :=
  match hashByName? hash with
  | none => some lineDigest
  | some h => let d := h msg; if d.data == lineDigest.data then some d else none

/-- canonical point encodings hashed by the configurable Schnorr challenge: SEC1 compressed for
k256/p256, RFC 8032 for ed25519 -/
def encodePoint {C : Params} (P : CPt C) : Option ByteArray :=
  match P.pt.coords with
  | some ([x], [y]) =>
    if C.name == "k256" || C.name == "p256" then
      some (ByteArray.mk #[if y % 2 == 0 then 2 else 3] ++ natToBytesBE x 32)
    else if C.name == "ed25519" then
      if Curves.isZero C P.pt then none else
      some (natToBytesLE (y + (x % 2) * 2 ^ 255) 32)
    else none
  | _ => none

/-- configurable-Schnorr challenge `H(R ‖ P ‖ m)` (digest byte-reversed when `le`), reduced mod `n` -/
def schnorrChallenge {C : Params} [NeZero C.n] (hash : String) (le : Bool) (R pk : CPt C) (msg : ByteArray) : Option (Fp C.n) :=
  match hashByName? hash, encodePoint R, encodePoint pk with
  | some h, some rb, some pb =>
    let d := h (rb ++ pb ++ msg)
    some (Fp.ofNat C.n (if le then bytesToNatLE d else bytesToNatBE d))
  | _, _, _ => none

/-- BIP-340 challenge: tagged SHA-256 of `x(R) ‖ x(P) ‖ m`, reduced mod `n` -/
def bip340Challenge {C : Params} [NeZero C.n] (R pk : CPt C) (msg : ByteArray) : Option (Fp C.n) :=
  match xOf R, xOf pk with
  | some rx, some px =>
    let tag := Hash.sha256 "BIP0340/challenge".toUTF8
    some (Fp.ofNat C.n (bytesToNatBE (Hash.sha256 (tag ++ tag ++ natToBytesBE rx 32 ++ natToBytesBE px 32 ++ msg))))
  | _, _ => none

/-- use the recomputed challenge when available; it must agree with the value in the line -/
def withChallenge {n : Nat} (key : String) (model : Option (Fp n)) (line : Fp n) (k : Fp n → Verdict) : Verdict :=
  match model with
  | none => k line
  | some e => if e = line then k e else .bad key ("challenge recomputed from the message = " ++ e.toHex ++ ", library/harness value = " ++ line.toHex)

/-- `lift_x` of BIP-340 / the x-only decoders of BIP-340 and Mina: the curve point with affine
x-coordinate `x < p` and the requested y-parity (`none` when `x ≥ p` or `x` is not an x-coordinate) -/
def liftX (C : Params) (x : Nat) (odd : Bool) : Option (CPt C) :=
  if h : C.p = 0 then none else
    haveI : NeZero C.p := ⟨h⟩
    if x ≥ C.p then none else
    let xf : Fp C.p := Fp.ofNat C.p x
    let rhs := xf * xf * xf + Fp.ofNat C.p C.a * xf + Fp.ofNat C.p C.b
    match Fp.sqrt? rhs with
    | none => none
    | some y =>
      if y * y ≠ rhs then none else
      let y' := if (y.val % 2 == 1) == odd then y else -y
      if (y'.val % 2 == 1) != odd then none else
      some ⟨⟨some ([xf.val], [y'.val])⟩⟩

/-- BIP-340 verification of the 32-byte key / 64-byte signature encodings (BIP-340 "Verification"):
`P = lift_x(int(pk))`, `r = int(sig[0:32]) < p`, `s = int(sig[32:64]) < n`,
`e = int(hash_{BIP0340/challenge}(bytes(r) ‖ bytes(P) ‖ m)) mod n`, `R = s•G − e•P`,
fail if `R` is infinite, has odd y or `x(R) ≠ r`.  An `r` that is not an x-coordinate can never equal
`x(R)`, so lifting it first (as the library's decoder does) decides the same predicate. -/
def bip340Wire (C : Params) [NeZero C.n] (pk sg msg : ByteArray) : Bool :=
  if pk.size ≠ 32 ∨ sg.size ≠ 64 then false else
  let r := bytesToNatBE (sg.extract 0 32)
  let s := bytesToNatBE (sg.extract 32 64)
  if s ≥ C.n then false else
  match liftX C (bytesToNatBE pk) false, liftX C r false with
  | some P, some R =>
    match bip340Challenge R P msg with
    | some e => bip340Verify xOf evenY (gen' C) P R e (Fp.ofNat C.n s)
    | none => false
  | _, _ => false

/-- Mina verification of the 64-byte signature encoding (`R.x ‖ s`, both little-endian, canonical):
`R` = the point with that x and even y, accept iff `s•G = R + e•P` (the o1js verifier computes
`s•G − e•P` and compares x and parity — the same predicate).  The Poseidon challenge `e` depends only on
`(P, R.x, m)` and is taken from the line. -/
def minaWire (C : Params) [NeZero C.n] (pk : CPt C) (sg : ByteArray) (e : Fp C.n) : Bool :=
  if sg.size ≠ 64 then false else
  let rx := bytesToNatLE (sg.extract 0 32)
  let s := bytesToNatLE (sg.extract 32 64)
  if s ≥ C.n then false else
  match liftX C rx false with
  | some R => schnorrVerify tf false (gen' C) pk R e (Fp.ofNat C.n s)
  | none => false

/-- ciphersuite identifiers of draft-irtf-cfrg-bls-signature §4.2 (signature / proof-of-possession tags) -/
def blsDst (sigCurve kind : String) : Option String :=
  let grp := if sigCurve == "bls12381g2" then some "G2" else if sigCurve == "bls12381g1" then some "G1" else none
  let sfx := match kind with
    | "b" => some ("SIG", "NUL") | "a" => some ("SIG", "AUG") | "p" => some ("SIG", "POP")
    | "pop" => some ("POP", "POP") | _ => none
  match grp, sfx with
  | some g, some (pre, tag) => some ("BLS_" ++ pre ++ "_BLS12381" ++ g ++ "_XMD:SHA-256_SSWU_RO_" ++ tag ++ "_")
  | _, _ => none

def wireVerdict (rhs : String) : String := if rhs == "undecodable" then "reject" else rhs

def handle (op : String) (args : List String) (rhs : String) : Verdict :=
  match op, args with
  /- ecdsa.verify <curve> <hash> <d|s> <pk> <msg> <digest> <r> <s> <v|-> <tag> => accept|reject -/
  | "ecdsa.verify", [cn, hash, mode, pks, msgs, dg, rs, ss, vs, _tag] => withCurve cn fun C =>
    match parsePt C pks, hexToBytes? dg, hexToNat? rs, hexToNat? ss, parseV vs, hexToBytes? msgs with
    | some pk, some lineDigest, some r, some s, some v, some msg =>
      if r ≥ C.n ∨ s ≥ C.n then .unsupported "r/s out of range" else
      match digestOf hash msg lineDigest with
      | none => .diff "digest recomputed by the Lean hash model differs from the Go stdlib digest"
      | some digest =>
      let e := digestToScalar C.n digest
      let model := ecdsaVerify xr (liftR C) lowS (mode == "s") (gen' C) pk e (Fp.ofNat C.n r, Fp.ofNat C.n s, v)
      spec "ecdsa-verify" (acc model) rhs
    | _, _, _, _, _, _ => .unsupported "args"
  /- ecdsa.sign <curve> <hash> <sk> <msg> <digest> => r,s,v : the produced signature must verify for
     pk = sk•g with the recovery id present (hence v is the true one) -/
  | "ecdsa.sign", [cn, hash, sks, msgs, dg] => withCurve cn fun C =>
    match fpOf C.n sks, (hexToBytes? dg).bind (fun d => (hexToBytes? msgs).bind fun m => digestOf hash m d), rhs.splitOn "," with
    | some sk, some digest, [rs, ss, vs] =>
      match fpOf C.n rs, fpOf C.n ss, vs.toNat? with
      | some r, some s, some v =>
        let e := digestToScalar C.n digest
        let pk : CPt C := sk • gen' C
        if ecdsaVerify xr (liftR C) lowS false (gen' C) pk e (r, s, some v) then .ok
        else .bad "ecdsa-sign-invalid" "signature produced by Sign does not verify in the model (core check or recovery id)"
      | _, _, _ => .bad "ecdsa-sign-invalid" ("unparsable signature " ++ rhs)
    | some _, some _, _ => .bad "ecdsa-sign-failed" ("Sign returned " ++ rhs)
    | _, _, _ => .unsupported "args"
  /- ecdsa.recover <curve> <digest> <r> <s> <v> => <point>|none -/
  | "ecdsa.recover", [cn, dg, rs, ss, vs] => withCurve cn fun C =>
    match hexToBytes? dg, fpOf C.n rs, fpOf C.n ss, vs.toNat? with
    | some digest, some r, some s, some v =>
      let e := digestToScalar C.n digest
      let model := match ecdsaRecover (liftR C) (gen' C) e r s v with
        | none => "none"
        | some P => if P = 0 then "none" else renderPt P
      spec "ecdsa-recover" model rhs
    | _, _, _, _ => .unsupported "args"
  /- ecdsa.normalise <curve> <r> <s> <v|-> => r,s,v -/
  | "ecdsa.normalise", [cn, rs, ss, vs] => withCurve cn fun C =>
    match fpOf C.n rs, fpOf C.n ss, parseV vs with
    | some r, some s, some v =>
      let (r', s', v') := ecdsaNormalise lowS (r, s, v)
      spec "ecdsa-normalise" (r'.toHex ++ "," ++ s'.toHex ++ "," ++ renderV v' ++ "," ++ (if lowS s' then "low" else "high")) rhs
    | _, _, _ => .unsupported "args"
  /- schnorr.verify <curve> <neg 0|1> <pk> <R> <s> <e> <msg> <tag> => accept|reject -/
  | "schnorr.verify", [cn, cfg, pks, Rs, ss, es, msgs, _tag] => withCurve cn fun C =>
    match cfg.splitOn ".", parsePt C pks, parsePt C Rs, fpOf C.n ss, fpOf C.n es, hexToBytes? msgs with
    | [negs, les, hash], some pk, some R, some s, some eLine, some msg =>
      withChallenge "schnorr-challenge" (schnorrChallenge hash (les == "1") R pk msg) eLine fun e =>
        spec "schnorr-verify" (acc (schnorrVerify tf (negs == "1") (gen' C) pk R e s)) rhs
    | _, _, _, _, _, _ => .unsupported "args"
  /- schnorr.sign <curve> <neg> <sk> <e> <msg> => R,s : the signature verifies for pk = sk•g -/
  | "schnorr.sign", [cn, cfg, sks, es, msgs] => withCurve cn fun C =>
    match cfg.splitOn ".", fpOf C.n sks, fpOf C.n es, hexToBytes? msgs, rhs.splitOn "," with
    | [negs, les, hash], some sk, some eLine, some msg, [Rs, ss] =>
      match parsePt C Rs, fpOf C.n ss with
      | some R, some s =>
        let pk : CPt C := sk • gen' C
        withChallenge "schnorr-challenge" (schnorrChallenge hash (les == "1") R pk msg) eLine fun e =>
          if schnorrVerify tf (negs == "1") (gen' C) pk R e s then .ok
          else .bad "schnorr-sign-invalid" "signature produced by Sign does not verify in the model"
      | _, _ => .bad "schnorr-sign-invalid" ("unparsable signature " ++ rhs)
    | [_, _, _], some _, some _, some _, _ => .bad "schnorr-sign-failed" ("Sign returned " ++ rhs)
    | _, _, _, _, _ => .unsupported "args"
  /- bip340.verify <pk> <R> <s> <e> <msg> <tag> => accept|reject   (e = challenge for (x R, x pk, msg)) -/
  | "bip340.verify", [pks, Rs, ss, es, msgs, _tag] => withCurve "k256" fun C =>
    match parsePt C pks, parsePt C Rs, fpOf C.n ss, fpOf C.n es, hexToBytes? msgs with
    | some pk, some R, some s, some eLine, some msg =>
      withChallenge "bip340-challenge" (bip340Challenge R pk msg) eLine fun e =>
        spec "bip340-verify" (acc (bip340Verify xOf evenY (gen' C) pk R e s)) rhs
    | _, _, _, _, _ => .unsupported "args"
  /- bip340.sign <sk> <e> <msg> => R,s : verifies for sk•g and R has even y (so x-only encoding is faithful) -/
  | "bip340.sign", [sks, es, msgs] => withCurve "k256" fun C =>
    match fpOf C.n sks, fpOf C.n es, hexToBytes? msgs, rhs.splitOn "," with
    | some sk, some eLine, some msg, [Rs, ss] =>
      match parsePt C Rs, fpOf C.n ss with
      | some R, some s =>
        let pk : CPt C := sk • gen' C
        withChallenge "bip340-challenge" (bip340Challenge R pk msg) eLine fun e =>
          if !(evenY R) then .bad "bip340-sign-odd-R" "Sign returned R with odd y"
          else if bip340Verify xOf evenY (gen' C) pk R e s then .ok
          else .bad "bip340-sign-invalid" "signature produced by Sign does not verify in the model"
      | _, _ => .bad "bip340-sign-invalid" ("unparsable signature " ++ rhs)
    | some _, some _, some _, _ => .bad "bip340-sign-failed" ("Sign returned " ++ rhs)
    | _, _, _, _ => .unsupported "args"
  /- bls.new <curve> <point> => ok|err : constructors admit exactly the non-identity subgroup points -/
  | "bls.new", [cn, ps] => withCurve cn fun C =>
    match parsePt C ps with
    | some P => spec "bls-admissible" (if blsAdmissible tf P then "ok" else "err") rhs
    | none => .unsupported "args"
  /- bls.verify <keycurve> <sigcurve> <sk|-> <pk> <Hm> <sig> <tag> => accept|reject
     group-level truth (Props.C15.bls_verify_iff): accept ⇔ pk, σ admissible ∧ σ = sk•H(m), where sk
     is the discrete log of the pk in the line (`-` only for a pk outside the subgroup / identity) -/
  | "bls.verify", [kc, sc, sks, pks, hms, sigs, _tag] => withCurve kc fun K => withCurve sc fun S =>
    match parsePt K pks, parsePt S hms, parsePt S sigs with
    | some pk, some hm, some sig =>
      if !(blsAdmissible tf hm) then .bad "bls-hash-to-curve" "H(m) is not a non-identity subgroup point" else
      if !(blsAdmissible tf pk) || !(blsAdmissible tf sig) then spec "bls-verify" "reject" rhs else
      match hexToNat? sks with
      | none => .unsupported "sk needed for an admissible pk"
      | some skn =>
        let sk := skn % K.n
        if (⟨Curves.smul K sk (Curves.gen K)⟩ : CPt K) ≠ pk then .unsupported "pk != sk*g" else
        spec "bls-verify" (acc (decide (blsSign (Fp.ofNat S.n sk) hm = sig))) rhs
    | _, _, _ => .unsupported "args"
  /- bls.aggregate <curve> <points> => <point>|err -/
  | "bls.aggregate", [cn, ps] => withCurve cn fun C =>
    match parsePts C ps with
    | some xs =>
      if xs.isEmpty then spec "bls-aggregate" "err" rhs else
      if (xs.drop 1).any (fun P => !(blsAdmissible tf P)) then spec "bls-aggregate" "err" rhs else
      spec "bls-aggregate" (renderPt (blsAggregate xs)) rhs
    | none => .unsupported "args"
  /- bls.aggverify <keycurve> <sigcurve> <mode b|a|p> <sks> <pks> <Hms> <sig> <Hpops|-> <pops|-> <tag> => accept|reject
     accept ⇔ every pk admissible, σ admissible, (basic: messages pairwise distinct),
     (pop: every popᵢ admissible and = skᵢ•Hpop(pkᵢ)), σ = Σ skᵢ•H(mᵢ)  (Props.C15.bls_aggregate_iff) -/
  | "bls.aggverify", [kc, sc, mode, sks, pks, hms, sigs, hps, pops, _tag] => withCurve kc fun K => withCurve sc fun S =>
    match parseNatList? sks, parsePts K pks, parsePts S hms, parsePt S sigs, parsePts S hps, parsePts S pops with
    | some sk, some pk, some hm, some sig, some hp, some pop =>
      if sk.length ≠ pk.length ∨ pk.length ≠ hm.length then .unsupported "lengths" else
      if mode == "p" ∧ hp.length ≠ pop.length then .unsupported "pop lengths" else
      if mode == "p" ∧ pop.length ≠ pk.length then spec "bls-aggverify" "reject" rhs else
      if hm.any (fun h => !(blsAdmissible tf h)) || hp.any (fun h => !(blsAdmissible tf h)) then
        .bad "bls-hash-to-curve" "H(m) is not a non-identity subgroup point" else
      if pk.isEmpty then spec "bls-aggverify" "reject" rhs else
      if pk.any (fun P => !(blsAdmissible tf P)) || !(blsAdmissible tf sig) then spec "bls-aggverify" "reject" rhs else
      if (List.zip sk pk).any (fun (s, P) => (⟨Curves.smul K (s % K.n) (Curves.gen K)⟩ : CPt K) ≠ P) then .unsupported "pk != sk*g" else
      if mode == "b" ∧ !(allDistinct hm) then spec "bls-aggverify" "reject" rhs else
      let popsOk := mode != "p" ||
        (List.zip sk (List.zip hp pop)).all fun (s, h, π) => blsAdmissible tf π && decide (blsSign (Fp.ofNat S.n s) h = π)
      if !popsOk then spec "bls-aggverify" "reject" rhs else
      let expect : CPt S := blsAggregate ((List.zip sk hm).map fun (s, h) => blsSign (Fp.ofNat S.n s) h)
      spec "bls-aggverify" (acc (decide (expect = sig))) rhs
    | _, _, _, _, _, _ => .unsupported "args"
  /- ecdsa.forge <curve> <hash> <msg> <digest> <r> <s> <v> => none | <Q>,<dv>,<sv>,<dn>,<sn>,<do>
     a freely chosen triple (r,s,v): Q = RecoverPublicKey; verdicts of the default / strict verifier under Q
     with v (dv, sv) and with v omitted (dn, sn), and of the default verifier under Q+G with v (do).
     Truth (Sig.ecdsaForge, Props.C15.ecdsaForge_spec / ecdsa_verify_other_key): Q is the model's
     recovered point; dv = dn = the textbook equation under Q; sv = sn = low-S ∧ that; do = reject. -/
  | "ecdsa.forge", [cn, hash, msgs, dg, rs, ss, vs] => withCurve cn fun C =>
    match fpOf C.n rs, fpOf C.n ss, vs.toNat?, hexToBytes? dg, hexToBytes? msgs with
    | some r, some s, some v, some lineDigest, some msg =>
      if s = 0 then .unsupported "s = 0 (NewSignature refuses it; not a forge case)" else
      match digestOf hash msg lineDigest with
      | none => .diff "digest recomputed by the Lean hash model differs from the Go stdlib digest"
      | some digest =>
      let e := digestToScalar C.n digest
      match ecdsaForge xr (liftR C) lowS (gen' C) e r s v with
      | none => spec "ecdsa-recover" "none" rhs
      | some (Q, c, cs) =>
        if Q = 0 then spec "ecdsa-recover" "none" rhs else
        match rhs.splitOn "," with
        | [qs, dv, sv, dn, sn, dother] =>
          if qs ≠ renderPt Q then .bad "ecdsa-recover" ("expected=" ++ renderPt Q ++ " observed=" ++ qs) else
          if dv ≠ acc c then .bad "ecdsa-forge-v" ("crafted (r,s,v) under its recovered key: the verification equation says " ++ acc c ++ ", library says " ++ dv) else
          if dn ≠ acc c then .bad "ecdsa-forge-nov" ("crafted (r,s) under the key recovered with v=" ++ vs ++ ", v omitted: the verification equation says " ++ acc c ++ ", library says " ++ dn) else
          if sv ≠ acc cs then .bad "ecdsa-forge-strict" ("strict verifier with v: expected=" ++ acc cs ++ " observed=" ++ sv) else
          if sn ≠ acc cs then .bad "ecdsa-forge-strict" ("strict verifier without v: expected=" ++ acc cs ++ " observed=" ++ sn) else
          if dother ≠ "reject" then .bad "ecdsa-forge-other-key" ("accepted with v under Q+G although the recovered key is Q") else .ok
        | _ => .bad "ecdsa-recover" ("expected=" ++ renderPt Q ++ " observed=" ++ rhs)
    | _, _, _, _, _ => .unsupported "args"
  /- bip340.wire <pk32> <sig64> <msg> <tag> => accept|reject|undecodable  (the byte-level BIP-340 verifier) -/
  | "bip340.wire", [pkb, sigb, msgs, _tag] => withCurve "k256" fun C =>
    match hexToBytes? pkb, hexToBytes? sigb, hexToBytes? msgs with
    | some pk, some sg, some msg => spec "bip340-wire" (acc (bip340Wire C pk sg msg)) (wireVerdict rhs)
    | _, _, _ => .unsupported "args"
  /- mina.wire <pk> <sig64> <e> <tag> => accept|reject|undecodable -/
  | "mina.wire", [pks, sigb, es, _tag] => withCurve "pallas" fun C =>
    match parsePt C pks, hexToBytes? sigb, fpOf C.n es with
    | some pk, some sg, some e => spec "mina-wire" (acc (minaWire C pk sg e)) (wireVerdict rhs)
    | _, _, _ => .unsupported "args"
  /- bls.dst <sigcurve> <b|a|p|pop> => <hex of the domain separation tag the scheme uses> -/
  | "bls.dst", [sc, kind] =>
    match blsDst sc kind with
    | some d => spec "bls-dst" (bytesToHex d.toUTF8) rhs
    | none => .unsupported "args"
  | _, _ => .unsupported ("C15 op " ++ op)

end BronVerif.Drive.C15
