import BronVerif.Drive.Common
/-! Driver handlers for C05. -/
namespace BronVerif.Drive.C05
open BronVerif BronVerif.Drive

def handle (op : String) (_args : List String) (_rhs : String) : Verdict :=
  .unsupported ("C05 op " ++ op)

end BronVerif.Drive.C05
