import BronVerif.Drive.Common
import BronVerif.Model.Curves
import BronVerif.Model.Vss
/-!
Driver handlers for C05 (Feldman / Pedersen share verification).

Every line carries the MSP matrix `M` (row-major), the row → holder labels, the verification
vector as points and the share as scalars.  The handler instantiates `Model/Vss.lean` with the
scalar field `Fp n` and the runtime curve points of `Model/Curves.lean` and recomputes the
verdict (`M_id · V` by the left action in model curve arithmetic against `share • G`).  Accept /
reject is exactly determined by the property, hence `spec`.
-/
namespace BronVerif.Drive.C05
open BronVerif BronVerif.Drive BronVerif.LinAlg BronVerif.Curves BronVerif.Vss

/-- scalar action of `Fp n` on the points of the prime-order group of `C` (`n = C.n`); residues
above `n/2` act as the negative of their complement (the group has order `n`), which keeps
the small negative coefficients of MSP matrices cheap -/
def smulFp (C : Params) {n : Nat} (k : Fp n) (P : Pt) : Pt :=
  if 2 * k.val > n then Curves.neg C (Curves.smul C (n - k.val) P) else Curves.smul C k.val P

@[reducible] def instAddPt (C : Params) : Add Pt := ⟨Curves.add C⟩
@[reducible] def instZeroPt (C : Params) : OfNat Pt 0 := ⟨Curves.zero C⟩
@[reducible] def instSMulPt (C : Params) (n : Nat) : HSMul (Fp n) Pt Pt := ⟨smulFp C⟩

def parseMat {p : Nat} [NeZero p] (rows cols : Nat) (s : String) : Option (Mat (Fp p)) := do
  let xs ← parseNatList? s
  if xs.length ≠ rows * cols then none
  if cols = 0 then return List.replicate rows []
  return chunk (fpList xs) cols

def parseScalars {p : Nat} [NeZero p] (s : String) : Option (List (Fp p)) :=
  (parseNatList? s).map fpList

/-- `id:v,v;id:v` -/
def parseShares {p : Nat} [NeZero p] (s : String) : Option (List (Nat × List (Fp p))) :=
  if s == "-" || s == "" then some [] else
  (s.splitOn ";").mapM fun part =>
    match part.splitOn ":" with
    | [ids, vs] => do
      let id ← ids.toNat?
      let v ← parseScalars vs
      some (id, v)
    | _ => none

/-- `id:s,s/b,b;id:s/b` -/
def parsePShares {p : Nat} [NeZero p] (s : String) : Option (List (Nat × List (Fp p) × List (Fp p))) :=
  if s == "-" || s == "" then some [] else
  (s.splitOn ";").mapM fun part =>
    match part.splitOn ":" with
    | [ids, rest] =>
      match rest.splitOn "/" with
      | [ss, bs] => do
        let id ← ids.toNat?
        let sv ← parseScalars ss
        let bv ← parseScalars bs
        some (id, sv, bv)
      | _ => none
    | _ => none

def renderShares {p : Nat} (xs : List (Nat × List (Fp p))) : String :=
  ";".intercalate (xs.map fun (id, v) => toString id ++ ":" ++ fpHexList v)

def renderPts (C : Params) (ps : List Pt) : String := joinComma (ps.map (render C))

def acc (b : Bool) : String := if b then "accept" else "reject"

/-- the MSP context shared by all ops: `<curve> <cols> <M> <labels>` -/
structure Ctx (n : Nat) where
  C : Params
  cols : Nat
  M : Mat (Fp n)
  labels : List Nat

def parseCtx (cn cols ms ls : String) (k : (n : Nat) → [NeZero n] → Ctx n → Verdict) : Verdict :=
  match byName? cn, cols.toNat?, parseDecList? ls with
  | some C, some c, some labels =>
    withPrime C.n (.unsupported "n=0") fun n =>
      match parseMat (p := n) labels.length c ms with
      | some M => if M.length ≠ labels.length then .unsupported "matrix-shape" else k n ⟨C, c, M, labels⟩
      | none => .unsupported "matrix"
  | _, _, _ => .unsupported "ctx"

/-- entry of the concatenated share column at each selected row, in row order -/
def assemble {α : Type} (labels : List Nat) (shares : List (Nat × List α)) : Option (List α) :=
  let idx := List.range labels.length
  (idx.filter fun i => (shares.lookup (labels.getD i 0)).isSome).mapM fun i =>
    let l := labels.getD i 0
    match shares.lookup l with
    | some vs => vs[(labels.take i).count l]?
    | none => none

def handleCore (op : String) (args : List String) (rhs : String) : Verdict :=
  match op, args with
  -- dealing with the dealer's column revealed: V = r • G and the shares M·r, exactly
  | "fdeal", [_kind, cn, cols, ms, ls, rs] =>
    parseCtx cn cols ms ls fun n _ x =>
      letI := instAddPt x.C; letI := instZeroPt x.C; letI := instSMulPt x.C n
      match parseScalars (p := n) rs with
      | none => .unsupported "column"
      | some r =>
        if r.length ≠ x.cols then spec "deal-column-length" "reject" rhs else
        let V : List Pt := liftColumn r (gen x.C)
        let sh := (holders x.labels).map fun id => (id, shareOf x.M x.labels r id)
        spec "deal" (renderPts x.C V ++ "|" ++ renderShares sh) rhs
  | "fverify", [kind, cn, cols, ms, ls, vs, dls, ids, ss] =>
    parseCtx cn cols ms ls fun n _ x =>
      letI := instAddPt x.C; letI := instZeroPt x.C; letI := instSMulPt x.C n
      match parseList? x.C vs, ids.toNat?, parseScalars (p := n) ss with
      | some V, some id, some s =>
        let model := feldmanVerify x.M x.labels V (gen x.C) id s
        -- cross-check with the scalar characterisation (`feldman_verify_iff`) when the harness
        -- knows the discrete logarithms of V
        let consistent : Bool :=
          if dls == "-" then true else
          match parseScalars (p := n) dls with
          | some dl =>
            dl.length == V.length &&
            (model == (numCols x.M == dl.length && x.labels.contains id && s == shareOf x.M x.labels dl id))
          | none => false
        if !consistent then .unsupported "model: curve verdict differs from scalar verdict"
        else spec ("feldman-verify-" ++ kind) (acc model) rhs
      | _, _, _ => .unsupported "args"
  | "fnewvv", [cn, cols, ms, ls, vs] =>
    parseCtx cn cols ms ls fun _ _ x =>
      match parseList? x.C vs with
      | some V => spec "vv-length" (if vvLenOk x.M V then "ok" else "reject") rhs
      | none => .unsupported "args"
  | "fsum", [cn, cols, ms, ls, vss, ids, sss] =>
    parseCtx cn cols ms ls fun n _ x =>
      letI := instAddPt x.C; letI := instZeroPt x.C; letI := instSMulPt x.C n
      match (vss.splitOn ";").mapM (parseList? x.C), ids.toNat?, (sss.splitOn ";").mapM (parseScalars (p := n)) with
      | some (V0 :: Vs), some id, some (s0 :: srest) =>
        let Vsum : Option (List Pt) := Vs.foldl (fun a W => a.bind fun v => vvOp v W) (some V0)
        match Vsum with
        | none => spec "vv-op" "reject" rhs
        | some V =>
          let s := srest.foldl shareAdd s0
          spec "vv-op-sum" (renderPts x.C V ++ "|" ++ fpHexList s ++ "|" ++ acc (feldmanVerify x.M x.labels V (gen x.C) id s)) rhs
      | _, _, _ => .unsupported "args"
  | "frecexp", [cn, cols, ms, ls, vs, idss] =>
    parseCtx cn cols ms ls fun n _ x =>
      letI := instAddPt x.C; letI := instZeroPt x.C; letI := instSMulPt x.C n
      match parseList? x.C vs, parseDecList? idss with
      | some V, some ids =>
        if !(vvLenOk x.M V) then spec "recexp" "reject" rhs else
        -- public shares of the presented holders, concatenated in row order
        let lam : List Pt := actOnColumn (pickSet x.labels ids x.M) V
        match reconstructInExponent x.M x.labels ids lam with
        | none => spec "recexp-unqualified" "reject" rhs
        | some P =>
          -- `reconstruct_in_exponent`: the result is the committed public value `V₀`
          if P ≠ V.headD (Curves.zero x.C) then .unsupported "model: reconstruction in the exponent differs from V0"
          else spec "recexp" (render x.C P) rhs
      | _, _ => .unsupported "args"
  | "frecver", [_kind, cn, cols, ms, ls, vs, shs] =>
    parseCtx cn cols ms ls fun n _ x =>
      letI := instAddPt x.C; letI := instZeroPt x.C; letI := instSMulPt x.C n
      match parseList? x.C vs, parseShares (p := n) shs with
      | some V, some shares =>
        let ids := shares.map (·.1)
        if !(shares.all fun (id, s) => feldmanVerify x.M x.labels V (gen x.C) id s) then
          spec "recver-verify" "reject" rhs
        else
          match assemble x.labels shares with
          | none => spec "recver-assemble" "reject" rhs
          | some lam =>
            match reconstruct x.M x.labels ids lam with
            | none => spec "recver-unqualified" "reject" rhs
            | some sec => spec "recver" ("ok:" ++ sec.toHex) rhs
      | _, _ => .unsupported "args"
  | "fshard", [_kind, cn, cols, ms, ls, vs, ids, ss] =>
    parseCtx cn cols ms ls fun n _ x =>
      letI := instAddPt x.C; letI := instZeroPt x.C; letI := instSMulPt x.C n
      match parseList? x.C vs, ids.toNat?, parseScalars (p := n) ss with
      | some V, some id, some s =>
        if !(vvLenOk x.M V) || !(feldmanVerify x.M x.labels V (gen x.C) id s) then spec "shard" "reject" rhs
        else
          let pks := (holders x.labels).map fun h =>
            toString h ++ ":" ++ renderPts x.C (liftedShareOf x.M x.labels V h)
          spec "shard" ("ok:" ++ render x.C (liftedSecret x.M V) ++ "|" ++ ";".intercalate pks) rhs
      | _, _, _ => .unsupported "args"
  -- `mpc.NewBasePublicMaterial` / `BasePublicMaterial.UnmarshalCBOR`: the public key and the public
  -- key shares of every holder are those of the vector the object holds
  | "fpubmat", [_kind, cn, cols, ms, ls, vs] =>
    parseCtx cn cols ms ls fun n _ x =>
      letI := instAddPt x.C; letI := instZeroPt x.C; letI := instSMulPt x.C n
      match parseList? x.C vs with
      | some V =>
        if !(vvLenOk x.M V) then spec "pubmat" "reject" rhs
        else
          let pks := (holders x.labels).map fun h =>
            toString h ++ ":" ++ renderPts x.C (liftedShareOf x.M x.labels V h)
          spec "pubmat" ("ok:" ++ render x.C (liftedSecret x.M V) ++ "|" ++ ";".intercalate pks) rhs
      | none => .unsupported "args"

  -- ---------------------------------------------------------------- Pedersen
  | "pdeal", [_kind, cn, cols, ms, ls, hs, rgs, rhs'] =>
    parseCtx cn cols ms ls fun n _ x =>
      letI := instAddPt x.C; letI := instZeroPt x.C; letI := instSMulPt x.C n
      match parse? x.C hs, parseScalars (p := n) rgs, parseScalars (p := n) rhs' with
      | some H, some rg, some rh =>
        if rg.length ≠ x.cols || rh.length ≠ x.cols then spec "pdeal-column-length" "reject" rhs else
        let V : List Pt := pedersenColumn rg rh (gen x.C) H
        let sh := (holders x.labels).map fun id =>
          toString id ++ ":" ++ fpHexList (shareOf x.M x.labels rg id) ++ "/" ++ fpHexList (shareOf x.M x.labels rh id)
        spec "pdeal" (renderPts x.C V ++ "|" ++ ";".intercalate sh) rhs
      | _, _, _ => .unsupported "args"
  | "pverify", [kind, cn, cols, ms, ls, hs, vs, ids, ss, bs] =>
    parseCtx cn cols ms ls fun n _ x =>
      letI := instAddPt x.C; letI := instZeroPt x.C; letI := instSMulPt x.C n
      match parse? x.C hs, parseList? x.C vs, ids.toNat?, parseScalars (p := n) ss, parseScalars (p := n) bs with
      | some H, some V, some id, some s, some b =>
        spec ("pedersen-verify-" ++ kind) (acc (pedersenVerify x.M x.labels V (gen x.C) H id s b)) rhs
      | _, _, _, _, _ => .unsupported "args"
  | "psum", [cn, cols, ms, ls, hs, vss, ids, sss, bss] =>
    parseCtx cn cols ms ls fun n _ x =>
      letI := instAddPt x.C; letI := instZeroPt x.C; letI := instSMulPt x.C n
      match parse? x.C hs, (vss.splitOn ";").mapM (parseList? x.C), ids.toNat?,
            (sss.splitOn ";").mapM (parseScalars (p := n)), (bss.splitOn ";").mapM (parseScalars (p := n)) with
      | some H, some (V0 :: Vs), some id, some (s0 :: srest), some (b0 :: brest) =>
        let Vsum : Option (List Pt) := Vs.foldl (fun a W => a.bind fun v => vvOp v W) (some V0)
        match Vsum with
        | none => spec "pvv-op" "reject" rhs
        | some V =>
          let s := srest.foldl shareAdd s0
          let b := brest.foldl shareAdd b0
          spec "pvv-op-sum" (renderPts x.C V ++ "|" ++ fpHexList s ++ "|" ++ fpHexList b ++ "|" ++
            acc (pedersenVerify x.M x.labels V (gen x.C) H id s b)) rhs
      | _, _, _, _, _ => .unsupported "args"
  | "precver", [_kind, cn, cols, ms, ls, hs, vs, shs] =>
    parseCtx cn cols ms ls fun n _ x =>
      letI := instAddPt x.C; letI := instZeroPt x.C; letI := instSMulPt x.C n
      match parse? x.C hs, parseList? x.C vs, parsePShares (p := n) shs with
      | some H, some V, some shares =>
        let ids := shares.map (·.1)
        if !(shares.all fun (id, s, b) => pedersenVerify x.M x.labels V (gen x.C) H id s b) then
          spec "precver-verify" "reject" rhs
        else
          match assemble x.labels (shares.map fun (id, s, _) => (id, s)) with
          | none => spec "precver-assemble" "reject" rhs
          | some lam =>
            match reconstruct x.M x.labels ids lam with
            | none => spec "precver-unqualified" "reject" rhs
            | some sec => spec "precver" ("ok:" ++ sec.toHex) rhs
      | _, _, _ => .unsupported "args"
  | "pextract", [cn, cols, ms, ls, hs, vs, ids, s1s, b1s, s2s, b2s] =>
    parseCtx cn cols ms ls fun n _ x =>
      letI := instAddPt x.C; letI := instZeroPt x.C; letI := instSMulPt x.C n
      match parse? x.C hs, parseList? x.C vs, ids.toNat?, parseScalars (p := n) s1s, parseScalars (p := n) b1s,
            parseScalars (p := n) s2s, parseScalars (p := n) b2s with
      | some H, some V, some id, some s1, some b1, some s2, some b2 =>
        let a1 := pedersenVerify x.M x.labels V (gen x.C) H id s1 b1
        let a2 := pedersenVerify x.M x.labels V (gen x.C) H id s2 b2
        -- `pedersen_binding_extract_partial`: two different accepted openings give log_G H
        let extractOk : Bool :=
          if a1 && a2 && (s1 ≠ s2 || b1 ≠ b2) then
            match pedersenExtract s1 b1 s2 b2 with
            | some a => smulFp x.C a (gen x.C) == H
            | none => false
          else true
        if !extractOk then .unsupported "model: extractor does not yield log_G H"
        else spec "pedersen-openings" (acc a1 ++ "," ++ acc a2) rhs
      | _, _, _, _, _, _, _ => .unsupported "args"
  | _, _ => .unsupported ("C05 op " ++ op)

/-- Lines tagged `<op>@reuse` were produced on an object that had been used before and was then
changed in place (`c05_reuse.go`); they carry the value the object holds *now*.  The model is
stateless: the expected result is the one of a fresh object with that value
(`Props.C05.verify_depends_only_on_current_value`), so the untagged handler decides, and a
disagreement is reported under the key `stale-state-…` (the library's answer depends on the
object's history, not on the verification data presented). -/
def handle (op : String) (args : List String) (rhs : String) : Verdict :=
  match op.splitOn "@" with
  | [base, "reuse"] =>
    match handleCore base args rhs with
    | .bad k w => .bad ("stale-state-" ++ k) w
    | v => v
  | _ => handleCore op args rhs

end BronVerif.Drive.C05
