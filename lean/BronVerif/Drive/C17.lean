import BronVerif.Drive.Common
/-! Driver handlers for C17. -/
namespace BronVerif.Drive.C17
open BronVerif BronVerif.Drive

def handle (op : String) (_args : List String) (_rhs : String) : Verdict :=
  .unsupported ("C17 op " ++ op)

end BronVerif.Drive.C17
