import BronVerif.Drive.Common
import BronVerif.Model.BigNum
/-!
Driver handlers for C17 (big-number and modular arithmetic).

Verdict discipline: `spec` wherever the model value is the mathematical truth (all arithmetic without
truncation, comparisons, gcd, inverses, exponentiation, Jacobi, CRT, …); `mirror` where the line shows a
documented *convention* of the API (a capacity that truncates, limb-granular `LshCap`, announced lengths,
"composite modulus: only integer perfect squares are recognised"); relational checks where the API may
return any one of several correct answers (square roots, random sampling).  Each root cause of a known
deviation has its own stable key.
-/
namespace BronVerif.Drive.C17
open BronVerif BronVerif.Drive BronVerif.BigNum

/-- operand `<hex>/<cap>`: value as passed and announced capacity -/
structure CV where
  v : Int
  c : Int

def parseCV (s : String) : Option CV :=
  match s.splitOn "/" with
  | [a, b] => do let v ← hexToInt? a; let c ← b.toInt?; pure ⟨v, c⟩
  | _ => none

def CV.nat (x : CV) : Nat := trunc x.v.natAbs x.c
def CV.int (x : CV) : Int := truncI x.v x.c

def rN (v : Nat) (c : Int) : String := natToHex v ++ "/" ++ toString c
def rI (v : Int) (c : Int) : String := intToHex v ++ "/" ++ toString c
def hx (v : Nat) : String := natToHex v
def hi (v : Int) : String := intToHex v
def b01 (b : Bool) : String := if b then "1" else "0"

/-- capacity argument: `_` is the default -/
def parseCap (s : String) : Option (Option Int) := if s == "_" then some none else s.toInt?.map some

def imax (a b : Int) : Int := if a < b then b else a
def imin (a b : Int) : Int := if a < b then a else b

def cmpS (a b : Int) : String := if a < b then "lt" else if a = b then "eq" else "gt"

def optS (o : Option String) : String := match o with | none => "none" | some s => "ok:" ++ s

/-- different keys for different root causes -/
def classify (key : String) (alias : String) (aliasKey : String) (model rhs : String) : Verdict :=
  if model == rhs then .ok
  else if rhs.startsWith "panic:" then .bad ((if key.endsWith "-wrong" then (key.dropEnd 6).toString else key) ++ "-panic") ("expected=" ++ model ++ " observed=" ++ rhs)
  else if alias != "a0" then .bad aliasKey ("output aliases input " ++ alias ++ " expected=" ++ model ++ " observed=" ++ rhs)
  else .bad key ("expected=" ++ model ++ " observed=" ++ rhs)

/-- spec when no truncation happens (cap at least `need`), mirror of the truncation convention otherwise -/
def specOrMirror (key : String) (truncating : Bool) (model rhs : String) : Verdict :=
  if truncating then mirror model rhs else spec key model rhs

def bytesHex (bs : List Nat) : String :=
  if bs.isEmpty then "-" else String.join (bs.map fun b => byteToHex (UInt8.ofNat b))

def parseBytes (s : String) : Option (List Nat) := (hexToBytes? s).map fun b => b.toList.map UInt8.toNat

def ceilDiv (a b : Nat) : Nat := (a + b - 1) / b

/-- drop the `/<announced>` suffixes of a result `ok:<v>/<c>,<v>/<c>` -/
def stripCaps (s : String) : String :=
  ",".intercalate ((s.splitOn ",").map fun t => (t.splitOn "/").headD "")

/-- bitwise operation on integers through two's complement on a common width -/
def intBitwise (f : Nat → Nat → Nat) (x y : Int) : Int :=
  let w := max (bitLen x.natAbs) (bitLen y.natAbs) + 2
  let m : Nat := 2 ^ w
  let r := f (x % (m : Int)).toNat (y % (m : Int)).toNat % m
  if r ≥ m / 2 then (r : Int) - m else r

def unit (a : Int) (m : Nat) : Bool := Nat.gcd (a % (m : Int)).toNat m == 1

def inRangeSym (x : Int) (m : Nat) : Bool := decide (-(m : Int) ≤ 2 * x) && decide (2 * x < m)

/-- the model's answer for a modular square root line (relational) -/
def sqrtVerdict (m x : Nat) (rhs : String) : Verdict :=
  if rhs.startsWith "ok:" then
    match hexToNat? (rhs.drop 3).toString with
    | some r => if r < m ∧ r * r % m = x % m then .ok else .bad "modsqrt-wrong-root" ("root does not square back: " ++ rhs)
    | none => .unsupported "rhs"
  else if rhs == "none" then
    if m ≤ 2 then (if m = 1 then mirror "ok:0" rhs else .unsupported "m=2")
    else if probablyPrime m then
      (if isQR x m then .bad "modsqrt-missed-residue" ("quadratic residue modulo an odd prime, model root=" ++ optS ((sqrtMod x m).map hx)) else .ok)
    else -- composite: the API documents that only integer perfect squares are recognised (mirror)
      match sqrtExact? (x % m) with
      | some r => mirror ("ok:" ++ hx r) rhs
      | none => .ok
  else .bad "modsqrt" ("unexpected result " ++ rhs)

def natOp (name : String) (x y : Nat) : Nat :=
  match name with
  | "and" => x &&& y | "or" => x ||| y | _ => x ^^^ y

/-- `a/b` in lowest terms with positive denominator, rendered `num|den` -/
def ratCanon (n : Int) (d : Nat) : String :=
  if n = 0 then "0|1" else
  let g := Nat.gcd n.natAbs d
  hi (n / (g : Int)) ++ "|" ++ hx (d / g)
def ratS (n : Int) (d : Nat) : String := hi n ++ "|" ++ hx d

def parseRat (s : String) : Option (Int × Nat) :=
  match s.splitOn "|" with
  | [a, b] => do let n ← hexToInt? a; let d ← hexToNat? b; pure (n, d)
  | _ => none

def ordS (a b : Int) : String := if a < b then "-1" else if a = b then "0" else "1"

def primeForm (kind : String) (bits p : Nat) : Option String :=
  if bitLen p ≠ bits then some "bitlen" else
  if !probablyPrime p then some "composite" else
  if kind == "blum" && p % 4 ≠ 3 then some "not-3-mod-4" else
  if kind == "safe" && !probablyPrime ((p - 1) / 2) then some "not-safe" else none

def handleNat (op : String) (args : List String) (rhs : String) : Verdict :=
  match op, args with
  | "n.add", [al, xs, ys, cs] | "n.sub", [al, xs, ys, cs] | "n.mul", [al, xs, ys, cs] =>
    match parseCV xs, parseCV ys, parseCap cs with
    | some x, some y, some cap =>
      let need := if op == "n.add" then imax x.c y.c + 1 else if op == "n.sub" then imax x.c y.c else x.c + y.c
      let c := cap.getD need
      let v : Nat := if op == "n.add" then trunc (x.nat + y.nat) c
        else if op == "n.sub" then (((x.nat : Int) - (trunc y.nat c : Int)) % ((2 ^ c.toNat : Nat) : Int)).toNat
        else trunc (x.nat * y.nat) c
      if c < need then mirror (rN v c) rhs else classify op al "nat-output-alias" (rN v c) rhs
    | _, _, _ => .unsupported "args"
  | "n.lsh", [_, xs, ss, cs] =>
    match parseCV xs, ss.toNat?, parseCap cs with
    | some x, some sh, some cap =>
      let c := cap.getD (x.c + sh)
      -- convention (mirrored): LshCap drops whole limbs only; bits between `cap` and the limb boundary stay
      let v := (trunc x.nat c <<< sh) % 2 ^ (64 * ceilDiv c.toNat 64)
      specOrMirror op (c < x.c + sh) (rN v c) rhs
    | _, _, _ => .unsupported "args"
  | "n.rsh", [_, xs, ss, cs] =>
    match parseCV xs, ss.toNat?, parseCap cs with
    | some x, some sh, some cap =>
      let c := cap.getD (imax (x.c - sh) 0)
      specOrMirror op (c < x.c - sh) (rN (trunc (x.nat >>> sh) c) c) rhs
    | _, _, _ => .unsupported "args"
  | "n.div", [al, xs, ys] =>
    match parseCV xs, parseCV ys with
    | some x, some y =>
      -- announced lengths (convention, from CondAssign): quotient = numerator's; remainder = denominator's
      -- (0 for an empty numerator), the larger of both when the output aliases an input
      let rc := if x.c ≤ 0 then 0 else y.c
      let model := if y.nat = 0 then "none" else "ok:" ++ rN (x.nat / y.nat) x.c ++ "," ++ rN (x.nat % y.nat) (if al == "a2" then imax x.c rc else rc)
      classify op al "nat-div-alias" model rhs
    | _, _ => .unsupported "args"
  | "n.divvt", [al, xs, ys] =>
    match parseCV xs, parseCV ys with
    | some x, some y =>
      -- values only: the announced lengths of the variable-time variants are not a stable convention
      let model := if y.nat = 0 then "none" else "ok:" ++ hx (x.nat / y.nat) ++ "," ++ hx (x.nat % y.nat)
      classify "divvt-short-numerator-wrong" al "divvt-alias-numerator" model (stripCaps rhs)
    | _, _ => .unsupported "args"
  | "n.gcd", [al, xs, ys] =>
    match parseCV xs, parseCV ys with
    | some x, some y =>
      -- the mirrored binary algorithm at the capacity the Go code uses; `Props.C17.gcd_eq`: it is `Nat.gcd`
      let g := gcdBin (imax x.c y.c).toNat x.nat y.nat
      if g ≠ Nat.gcd x.nat y.nat then .unsupported "model gcd" else
      classify op al "nat-output-alias" (rN g (imax x.c y.c)) rhs
    | _, _ => .unsupported "args"
  | "n.coprime", [xs, ys] =>
    match parseCV xs, parseCV ys with
    | some x, some y => spec op (b01 (gcdBin (imax x.c y.c).toNat x.nat y.nat == 1)) rhs
    | _, _ => .unsupported "args"
  | "n.lcm", [xs, ys] =>
    match parseCV xs, parseCV ys with
    | some x, some y =>
      let l := lcmBin (imax x.c y.c).toNat x.nat y.nat
      if l ≠ Nat.lcm x.nat y.nat then .unsupported "model lcm" else spec op (hx l) rhs
    | _, _ => .unsupported "args"
  | "n.sqrt", [xs] =>
    match parseCV xs with
    | some x =>
      if rhs == "none" then
        match sqrtExact? x.nat with
        | some r => .bad "nat-sqrt-missed" ("perfect square, root=" ++ hx r)
        | none => .ok
      else match parseCV (rhs.drop 3).toString with
        | some r => if rhs.startsWith "ok:" ∧ r.v ≥ 0 ∧ r.v.toNat * r.v.toNat = x.nat then mirror (rN r.v.toNat (imax x.c 64)) (rhs.drop 3).toString
                    else .bad "nat-sqrt-wrong" ("root does not square back: " ++ rhs)
        | none => .unsupported "rhs"
    | none => .unsupported "args"
  | "n.cmp", [xs, ys] =>
    match parseCV xs, parseCV ys with
    | some x, some y => spec op (cmpS x.nat y.nat) rhs
    | _, _ => .unsupported "args"
  | "n.preds", [xs] =>
    match parseCV xs with
    | some x =>
      let v := x.nat
      spec op (b01 (v == 0) ++ b01 (v != 0) ++ b01 (v == 1) ++ b01 (v % 2 == 1) ++ b01 (v % 2 == 0) ++ "," ++ toString (bitLen v) ++ "," ++ toString x.c) rhs
    | none => .unsupported "args"
  | "n.bit", [xs, is] =>
    match parseCV xs, is.toNat? with
    | some x, some i => spec op (toString ((x.nat >>> i) % 2) ++ "," ++ toString ((x.nat >>> (8 * (i / 8))) % 256)) rhs
    | _, _ => .unsupported "args"
  | "n.bytes", [xs, ls] =>
    match parseCV xs, ls.toNat? with
    | some x, some ln =>
      spec op (bytesHex (natToBytes x.nat (ceilDiv x.c.toNat 8)) ++ "," ++ bytesHex (natToBytes x.nat ln)) rhs
    | _, _ => .unsupported "args"
  | "n.frombytes", [bs] =>
    match parseBytes bs with
    | some b => spec op (rN (bytesToNat b) (8 * b.length)) rhs
    | none => .unsupported "args"
  | "n.and", [_, xs, ys, cs] | "n.or", [_, xs, ys, cs] | "n.xor", [_, xs, ys, cs] | "n.not", [_, xs, ys, cs] =>
    match parseCV xs, parseCV ys, parseCap cs with
    | some x, some y, some cap =>
      let need := if op == "n.not" then x.c else imax x.c y.c
      let c := cap.getD need
      let v := if op == "n.not" then 2 ^ c.toNat - 1 - trunc x.nat c else trunc (natOp (op.drop 2).toString x.nat y.nat) c
      specOrMirror op (c < need) (rN v c) rhs
    | _, _, _ => .unsupported "args"
  | "n.setbit", [xs, is, bs] =>
    match parseCV xs, is.toNat?, bs.toNat? with
    | some x, some i, some b =>
      let cleared := x.nat - (if (x.nat >>> i) % 2 = 1 then 2 ^ i else 0)
      spec op (rN (cleared + b * 2 ^ i) (imax x.c (i + 1))) rhs
    | _, _, _ => .unsupported "args"
  | "n.resize", [xs, cs] =>
    match parseCV xs, parseCap cs with
    | some x, some cap => let c := cap.getD x.c; specOrMirror op (c < x.c) (rN (trunc x.nat c) c) rhs
    | _, _ => .unsupported "args"
  | "n.select", [ch, xs, ys] =>
    match parseCV xs, parseCV ys with
    | some x, some y => spec op (rN (if ch == "0" then x.nat else y.nat) (imax x.c y.c)) rhs
    | _, _ => .unsupported "args"
  | "n.incr", [xs] => match parseCV xs with
    | some x => spec op (rN (x.nat + 1) (imax x.c 1 + 1)) rhs
    | none => .unsupported "args"
  | "n.decr", [xs] => match parseCV xs with
    | some x => -- convention: 0 - 1 wraps modulo 2^cap
      let c := imax x.c 1
      specOrMirror op (x.nat = 0) (rN (((x.nat : Int) - 1) % ((2 ^ c.toNat : Nat) : Int)).toNat c) rhs
    | none => .unsupported "args"
  | "n.double", [xs] => match parseCV xs with
    | some x => spec op (rN (2 * x.nat) (x.c + 1)) rhs
    | none => .unsupported "args"
  | "n.u64", [xs] => match parseCV xs with
    | some x => spec op (hx x.nat ++ "," ++ rN x.nat 64) rhs
    | none => .unsupported "args"
  | "n.abs", [xs] => match parseCV xs with
    | some x => spec op (rN x.int.natAbs x.c ++ "," ++ rN x.int.natAbs x.c) rhs
    | none => .unsupported "args"
  | "n.consts", [] => spec op "0/1,1/1,2/2,3/2" rhs
  | "n.prime", [xs] => match parseCV xs with
    | some x => spec "probable-prime" (b01 (probablyPrime x.nat)) rhs
    | none => .unsupported "args"
  | "n.randlh", [ls, hs] =>
    match parseCV ls, parseCV hs with
    | some l, some h =>
      if rhs == "err" then (if l.nat ≥ h.nat then .ok else .bad "randlh-refused" "non-empty range refused")
      else match hexToNat? rhs with
        | some v => if l.nat ≤ v ∧ v < h.nat then .ok else .bad "randlh-out-of-range" rhs
        | none => .bad "randlh" rhs
    | _, _ => .unsupported "args"
  | "n.keeps", [_, xs, ys, _] =>
    match parseCV xs, parseCV ys with
    | some x, some y => spec "operand-clobbered" (rN x.nat x.c ++ "," ++ rN y.nat y.c) rhs
    | _, _ => .unsupported "args"
  | _, _ => .unsupported ("C17 op " ++ op)

def handleInt (op : String) (args : List String) (rhs : String) : Verdict :=
  match op, args with
  | "i.add", [al, xs, ys, cs] | "i.sub", [al, xs, ys, cs] | "i.mul", [al, xs, ys, cs] =>
    match parseCV xs, parseCV ys, parseCap cs with
    | some x, some y, some cap =>
      let need := if op == "i.mul" then x.c + y.c else imax x.c y.c + 1
      let c := cap.getD need
      let v : Int := if op == "i.add" then x.int + y.int else if op == "i.sub" then x.int - y.int else x.int * y.int
      if c < need then
        -- truncating capacity (convention): the result is correct modulo 2^cap, magnitude below 2^cap
        match parseCV rhs with
        | some r =>
          let m : Int := ((2 ^ c.toNat : Nat) : Int)
          if r.c = c ∧ (r.v - v) % m = 0 ∧ r.v.natAbs < 2 ^ c.toNat then .ok
          else if (r.v - v) % m ≠ 0 then
            -- not even correct modulo 2^cap: wrong beyond the truncation convention
            .bad (if al == "a2" && op != "i.mul" then "int-add-alias-rhs" else if al != "a0" then "int-output-alias" else op)
              ("wrong modulo 2^cap: expected≡" ++ rI (truncI v c) c ++ " observed=" ++ rhs)
          else .diff (rI (truncI v c) c)
        | none => .diff (rI (truncI v c) c)
      else classify op al (if al == "a2" && op != "i.mul" then "int-add-alias-rhs" else "int-output-alias") (rI v c) rhs
    | _, _, _ => .unsupported "args"
  | "i.div", [al, xs, ys] | "i.divvt", [al, xs, ys] | "i.ediv", [al, xs, ys] | "i.edivvt", [al, xs, ys] =>
    match parseCV xs, parseCV ys with
    | some x, some y =>
      let vt := op == "i.divvt" || op == "i.edivvt"
      let eu := op == "i.ediv" || op == "i.edivvt"
      let qr := if eu then edivFromAbs x.int y.int else tdivFromAbs x.int y.int   -- = Int.ediv/emod, Int.tdiv/tmod (`Props.C17.divmod_mirror`)
      let model := if y.int = 0 then "none" else "ok:" ++ rI qr.1 x.c ++ "," ++ rI qr.2 y.c
      let modelV := if y.int = 0 then "none" else "ok:" ++ hi qr.1 ++ "," ++ hi qr.2
      if vt then classify "divvt-short-numerator-wrong" al "divvt-alias-numerator" modelV (stripCaps rhs)
      else classify op al "int-div-alias" model rhs
    | _, _ => .unsupported "args"
  | "i.neg", [xs] => match parseCV xs with
    | some x => spec op (rI (-x.int) x.c) rhs
    | none => .unsupported "args"
  | "i.abs", [xs] => match parseCV xs with
    | some x => spec op (rI x.int.natAbs x.c) rhs
    | none => .unsupported "args"
  | "i.double", [xs] => match parseCV xs with
    | some x => spec op (rI (2 * x.int) (x.c + 1)) rhs
    | none => .unsupported "args"
  | "i.square", [xs] => match parseCV xs with
    | some x => spec op (rI (x.int * x.int) (2 * x.c)) rhs
    | none => .unsupported "args"
  | "i.incr", [xs] => match parseCV xs with
    | some x => spec op (rI (x.int + 1) (imax x.c 1 + 1)) rhs
    | none => .unsupported "args"
  | "i.decr", [xs] => match parseCV xs with
    | some x => spec op (rI (x.int - 1) (imax x.c 1 + 1)) rhs
    | none => .unsupported "args"
  | "i.gcd", [xs, ys] =>
    match parseCV xs, parseCV ys with
    | some x, some y =>
      let g := Nat.gcd x.int.natAbs y.int.natAbs
      spec op (rI g (imax x.c y.c) ++ "," ++ b01 (g == 1)) rhs
    | _, _ => .unsupported "args"
  | "i.sqrt", [xs] => match parseCV xs with
    | some x =>
      if rhs == "none" then
        if x.int < 0 then .ok else
        match sqrtExact? x.int.toNat with
        | some r => .bad "int-sqrt-missed" ("perfect square, root=" ++ hx r)
        | none => .ok
      else match parseCV (rhs.drop 3).toString with
        | some r => if rhs.startsWith "ok:" ∧ r.v ≥ 0 ∧ r.v * r.v = x.int then .ok else .bad "int-sqrt-wrong" ("root does not square back: " ++ rhs)
        | none => .unsupported "rhs"
    | none => .unsupported "args"
  | "i.cmp", [xs, ys] =>
    match parseCV xs, parseCV ys with
    | some x, some y => spec op (cmpS x.int y.int) rhs
    | _, _ => .unsupported "args"
  | "i.preds", [xs] => match parseCV xs with
    | some x =>
      let v := x.int
      spec op (b01 (v == 0) ++ b01 (v != 0) ++ b01 (v == 1) ++ b01 (v % 2 == 1) ++ b01 (v % 2 == 0) ++ b01 (decide (v < 0)) ++ b01 (v.natAbs == 1)
        ++ "," ++ toString (bitLen v.natAbs) ++ "," ++ toString x.c) rhs
    | none => .unsupported "args"
  | "i.lsh", [xs, ss] | "i.rsh", [xs, ss] =>
    match parseCV xs, ss.toNat? with
    | some x, some sh =>
      let mag := if op == "i.lsh" then x.int.natAbs <<< sh else x.int.natAbs >>> sh
      let c := if op == "i.lsh" then x.c + sh else imax (x.c - sh) 0
      spec op (rI (if x.int < 0 then -(mag : Int) else mag) c) rhs
    | _, _ => .unsupported "args"
  | "i.and", [xs, ys, cs] | "i.or", [xs, ys, cs] | "i.xor", [xs, ys, cs] | "i.not", [xs, ys, cs] =>
    match parseCV xs, parseCV ys, parseCap cs with
    | some x, some y, some cap =>
      let c := cap.getD (if op == "i.not" then x.c else imax x.c y.c)
      let v := if op == "i.not" then -x.int - 1 else intBitwise (natOp (op.drop 2).toString) x.int y.int
      -- the announced length of the result is that of the two's complement buffer (capacity+1 bits, whole bytes)
      spec op (rI v (8 * ceilDiv (c.toNat + 1) 8)) rhs
    | _, _, _ => .unsupported "args"
  | "i.bytes", [xs] => match parseCV xs with
    | some x =>
      let ml := ceilDiv x.c.toNat 8
      let tl := ceilDiv (x.c.toNat + 1) 8
      spec op (bytesHex ((if x.int < 0 then 1 else 0) :: natToBytes x.int.natAbs ml) ++ "," ++ bytesHex (natToBytes (twosEncode x.int tl) tl)) rhs
    | none => .unsupported "args"
  | "i.fromtwos", [bs] => match parseBytes bs with
    | some b => spec op (if b.isEmpty then "reject" else rI (twosDecode (bytesToNat b) b.length) (8 * b.length)) rhs
    | none => .unsupported "args"
  | "i.frombytes", [bs] => match parseBytes bs with
    | some b => -- sign-magnitude: low bit of the first byte is the sign
      match b with
      | [] => spec op "reject" rhs
      | s :: rest => spec op (rI (if s % 2 = 1 then -(bytesToNat rest : Int) else bytesToNat rest) (8 * rest.length)) rhs
    | none => .unsupported "args"
  | "i.int64", [vs] => match hexToInt? vs with
    | some v => spec op (rI v 64 ++ "," ++ rI (v % ((2 ^ 64 : Nat) : Int)) 64) rhs
    | none => .unsupported "args"
  | "i.misc", [ch, xs, ys] =>
    match parseCV xs, parseCV ys with
    | some x, some y =>
      let sel := if ch == "0" then x.int else y.int
      let cn := if ch == "0" then x.int else -x.int
      let inv := if x.int.natAbs = 1 then "ok:" ++ rI x.int (imax x.c 0) else "none"
      spec op (rI sel (imax x.c y.c) ++ "," ++ rI cn x.c ++ "," ++ inv) rhs
    | _, _ => .unsupported "args"
  | "i.randlh", [ls, hs] =>
    match parseCV ls, parseCV hs with
    | some l, some h =>
      if rhs == "err" then (if l.int ≥ h.int then .ok else .bad "randlh-refused" "non-empty range refused")
      else match hexToInt? rhs with
        | some v => if l.int ≤ v ∧ v < h.int then .ok else .bad "randlh-out-of-range" rhs
        | none => .bad "randlh" rhs
    | _, _ => .unsupported "args"
  | "i.prime", [xs] => match parseCV xs with
    | some x => spec "probable-prime" (b01 (decide (x.int ≥ 0) && probablyPrime x.int.toNat)) rhs
    | none => .unsupported "args"
  | "i.zero-sign", [_, _, _] => spec "int-negative-zero" "10,eq" rhs
  | _, _ => .unsupported ("C17 op " ++ op)

def handleMod (op : String) (args : List String) (rhs : String) : Verdict :=
  match op, args with
  | "m.new", [xs] => match parseCV xs with
    | some x =>
      let v := x.nat
      spec op (if v = 0 then "none" else hx v ++ "," ++ toString (bitLen v) ++ "," ++ bytesHex (natToBytes v (ceilDiv (bitLen v) 8)) ++ "," ++ rN v (bitLen v)) rhs
    | none => .unsupported "args"
  | "m.mod", [ms, ss] =>
    match hexToNat? ms, parseCV ss with
    | some m, some s =>
      let bl : Int := bitLen m
      let x := s.int.natAbs
      spec op (rN (x % m) bl ++ "," ++ rN (s.int % (m : Int)).toNat bl ++ "," ++ hi (symMod x m)) rhs
    | _, _ => .unsupported "args"
  | "m.quo", [ms, xs] =>
    match hexToNat? ms, parseCV xs with
    | some m, some x => let bl : Int := bitLen m; spec op (rN (trunc (x.nat / m) bl) bl) rhs
    | _, _ => .unsupported "args"
  | "m.modadd", [al, ms, xs, ys] | "m.modsub", [al, ms, xs, ys] | "m.modmul", [al, ms, xs, ys] | "m.modneg", [al, ms, xs, ys] =>
    match hexToNat? ms, parseCV xs, parseCV ys with
    | some m, some x, some y =>
      let a : Int := x.nat
      let b : Int := y.nat
      let v : Int := if op == "m.modadd" then a + b else if op == "m.modsub" then a - b else if op == "m.modmul" then a * b else -a
      classify op al "modulus-output-alias" (rN (v % (m : Int)).toNat (bitLen m)) rhs
    | _, _, _ => .unsupported "args"
  | "m.modinv", [al, ms, xs] =>
    match hexToNat? ms, parseCV xs with
    | some m, some x =>
      let u := b01 (Nat.gcd x.nat m == 1)
      let model := match invMod x.nat m with
        | some v => "ok:" ++ hx v ++ "," ++ u
        | none => "none," ++ u
      -- modulus 1: documented convention (the inverse is recognised by x·x⁻¹ mod m = 1)
      if m = 1 then mirror model rhs else classify "modinv" al "modinv-alias" model rhs
    | _, _ => .unsupported "args"
  | "m.moddiv", [ms, xs, ys] =>
    match hexToNat? ms, parseCV xs, parseCV ys with
    | some m, some x, some y =>
      match invMod y.nat m with
      | some yi => spec "moddiv" ("ok:" ++ hx (x.nat * yi % m)) rhs
      | none => -- divisor not a unit: "none", or (even moduli) any solution u of y·u ≡ x
        if rhs == "none" then .ok else
        match hexToNat? (rhs.drop 3).toString with
        | some u => if rhs.startsWith "ok:" ∧ u < m ∧ y.nat * u % m = x.nat % m then .ok else .bad "moddiv-non-unit" ("y*u != x: " ++ rhs)
        | none => .bad "moddiv" rhs
    | _, _, _ => .unsupported "args"
  | "m.modexp", [ms, xs, es] | "m.modexpi", [ms, xs, es] =>
    match hexToNat? ms, parseCV xs, parseCV es with
    | some m, some x, some e =>
      match powModI x.nat e.int m with
      | some v => spec "modexp" (hx v) rhs
      | none => .unsupported "negative exponent of a non-unit"
    | _, _, _ => .unsupported "args"
  | "m.multiexp", [ms, xss, es] =>
    match hexToNat? ms, (splitComma xss).mapM parseCV, parseCV es with
    | some m, some xs, some e => spec "modexp" (joinComma (xs.map fun x => hx (powMod x.nat e.nat m))) rhs
    | _, _, _ => .unsupported "args"
  | "m.modsqrt", [ms, xs] =>
    match hexToNat? ms, parseCV xs with
    | some m, some x => sqrtVerdict m x.nat rhs
    | _, _ => .unsupported "args"
  | "m.range", [ms, xs, ss] =>
    match hexToNat? ms, parseCV xs, parseCV ss with
    | some m, some x, some s => spec op (b01 (decide (x.nat < m)) ++ b01 (inRangeSym s.int m) ++ b01 (Nat.gcd x.nat m == 1)) rhs
    | _, _, _ => .unsupported "args"
  | _, _ => .unsupported ("C17 op " ++ op)

def arithModulus (kind : String) (p q : Nat) : Nat := if kind == "opsf" then p * q * (p * q) else p * q

def handleArith (op : String) (args : List String) (rhs : String) : Verdict :=
  match op, args with
  | "ar.modmul", [k, ps, qs, xs, ys] =>
    match hexToNat? ps, hexToNat? qs, parseCV xs, parseCV ys with
    | some p, some q, some x, some y => spec op (hx (x.nat * y.nat % arithModulus k p q)) rhs
    | _, _, _, _ => .unsupported "args"
  | "ar.modexp", [k, ps, qs, xs, es] | "ar.modexpi", [k, ps, qs, xs, es] =>
    match hexToNat? ps, hexToNat? qs, parseCV xs, parseCV es with
    | some p, some q, some x, some e =>
      match powModI x.nat e.int (arithModulus k p q) with
      | some v => spec "crt-modexp" (hx v) rhs
      | none => .unsupported "negative exponent of a non-unit"
    | _, _, _, _ => .unsupported "args"
  | "ar.modinv", [k, ps, qs, xs] =>
    match hexToNat? ps, hexToNat? qs, parseCV xs with
    | some p, some q, some x => spec "crt-modinv" (optS ((invMod x.nat (arithModulus k p q)).map hx)) rhs
    | _, _, _ => .unsupported "args"
  | "ar.moddiv", [k, ps, qs, xs, ys] =>
    match hexToNat? ps, hexToNat? qs, parseCV xs, parseCV ys with
    | some p, some q, some x, some y =>
      let m := arithModulus k p q
      spec "crt-moddiv" (optS ((invMod y.nat m).map fun yi => hx (x.nat * yi % m))) rhs
    | _, _, _, _ => .unsupported "args"
  | "ar.multiexp", [k, ps, qs, xss, es] =>
    match hexToNat? ps, hexToNat? qs, (splitComma xss).mapM parseCV, parseCV es with
    | some p, some q, some xs, some e => spec "crt-modexp" (joinComma (xs.map fun x => hx (powMod x.nat e.nat (arithModulus k p q)))) rhs
    | _, _, _, _ => .unsupported "args"
  | "ar.exptoN", [ps, qs, xs] =>
    match hexToNat? ps, hexToNat? qs, parseCV xs with
    | some p, some q, some x => spec "crt-modexp" (hx (powMod x.nat (p * q) (p * q * (p * q)))) rhs
    | _, _, _ => .unsupported "args"
  | "crt.recombine", [ps, qs, as, bs] =>
    match hexToNat? ps, hexToNat? qs, hexToNat? as, hexToNat? bs with
    | some p, some q, some a, some b =>
      match crt2 a b p q with
      | some v => -- the unique solution below p*q, independently of the formula
        if v < p * q ∧ v % p = a % p ∧ v % q = b % q then spec "crt-recombine" (hx v) rhs else .unsupported "model crt"
      | none => spec "crt-recombine" "none" rhs
    | _, _, _, _ => .unsupported "args"
  | "crt.multi", [mss, rss] =>
    match parseNatList? mss, parseNatList? rss with
    | some ms, some rs =>
      match crtList (rs.zip ms) with
      | some (v, n) => if (rs.zip ms).all (fun (r, m) => v % m == r % m) ∧ v < n then spec "crt-recombine" (hx v) rhs else .unsupported "model crt"
      | none => spec "crt-recombine" "none" rhs
    | _, _ => .unsupported "args"
  | "crt.precompute", [ps, qs] =>
    match hexToNat? ps, hexToNat? qs with
    | some p, some q => spec "crt-precompute" (b01 (Nat.gcd p q == 1)) rhs
    | _, _ => .unsupported "args"
  | _, _ => .unsupported ("C17 op " ++ op)

def handleNum (op : String) (args : List String) (rhs : String) : Verdict :=
  match op, args with
  | "N.arith", [as, bs] =>
    match hexToNat? as, hexToNat? bs with
    | some a, some b =>
      spec op (joinComma [hx (a + b), hx (a * b), (if a < b then "none" else "ok:" ++ hx (a - b)), hx (2 * a), hx (a * a), hx (a + 1),
        (if a = 0 then "none" else "ok:" ++ hx (a - 1)), ordS a b ++ b01 (decide (a ≤ b)) ++ b01 (a == b)]) rhs
    | _, _ => .unsupported "args"
  | "N.div", [as, bs] =>
    match hexToNat? as, hexToNat? bs with
    | some a, some b =>
      let exact := if b = 0 then "none" else if a % b = 0 then "ok:" ++ hx (a / b) else "none"
      let round := if b = 0 then "none" else "ok:" ++ hx (a / b)
      let ed := if b = 0 then "none" else "ok:" ++ hx (a / b) ++ ":" ++ hx (a % b)
      spec op (joinComma [exact, exact, round, round, ed]) rhs
    | _, _ => .unsupported "args"
  | "N.edivvt", [as, bs] =>
    match hexToNat? as, hexToNat? bs with
    | some a, some b =>
      classify "divvt-short-numerator-wrong" "a0" "" (if b = 0 then "none" else "ok:" ++ hx (a / b) ++ ":" ++ hx (a % b)) rhs
    | _, _ => .unsupported "args"
  | "N.misc", [as, bs, ms, ss] =>
    match hexToNat? as, hexToNat? bs, hexToNat? ms, ss.toNat? with
    | some a, some b, some m, some sh =>
      spec op (joinComma [hx (Nat.gcd a b), b01 (Nat.gcd a b == 1), optS ((sqrtExact? a).map hx), hx (a <<< sh), hx (a >>> sh), hx (a % m), b01 (Nat.gcd a m == 1),
        b01 (a == 0) ++ b01 (a == 1) ++ b01 (a % 2 == 0) ++ b01 (a % 2 == 1) ++ b01 (a != 0), toString (bitLen a), toString ((a >>> sh) % 2),
        bytesHex (natToBytes a (ceilDiv (max (bitLen a) 1) 8))]) rhs
    | _, _, _, _ => .unsupported "args"
  | "Z.arith", [as, bs] =>
    match hexToInt? as, hexToInt? bs with
    | some a, some b =>
      spec op (joinComma [hi (a + b), hi (a - b), hi (a * b), hi (-a), hx a.natAbs, hi (2 * a), hi (a * a), hi (a + 1), hi (a - 1),
        (if a.natAbs = 1 then "ok:" ++ hi a else "none"),
        ordS a b ++ b01 (decide (a ≤ b)) ++ b01 (a == b) ++ b01 (decide (a < 0)) ++ b01 (decide (a > 0)) ++ b01 (a == 0) ++ b01 (a == 1) ++ b01 (a % 2 == 0) ++ b01 (Nat.gcd a.natAbs b.natAbs == 1)]) rhs
    | _, _ => .unsupported "args"
  | "Z.div", [as, bs] | "Z.divvt", [as, bs] =>
    match hexToInt? as, hexToInt? bs with
    | some a, some b =>
      let t := tdivFromAbs a b
      let e := edivFromAbs a b
      let exact := if b = 0 then "none" else if t.2 = 0 then "ok:" ++ hi t.1 else "none"
      let round := if b = 0 then "none" else "ok:" ++ hi t.1
      let ed := if b = 0 then "none" else "ok:" ++ hi e.1 ++ ":" ++ hi e.2
      if op == "Z.div" then spec op (joinComma [exact, round, ed]) rhs
      else classify "divvt-short-numerator-wrong" "a0" "" (joinComma [exact, round, ed]) rhs
    | _, _ => .unsupported "args"
  | "Z.misc", [as, ms, ss] =>
    match hexToInt? as, hexToNat? ms, ss.toNat? with
    | some a, some m, some sh =>
      let bl := max (bitLen a.natAbs) 1  -- num.Int announces at least one bit
      let ml := ceilDiv bl 8
      let tl := ceilDiv (bl + 1) 8
      let sg (n : Nat) : Int := if a < 0 then -(n : Int) else n
      spec op (joinComma [hx (a % (m : Int)).toNat, b01 (decide (0 ≤ a) && decide (a < m)) ++ b01 (inRangeSym a m) ++ b01 (unit a m),
        hi (sg (a.natAbs <<< sh)), hi (sg (a.natAbs >>> sh)),
        bytesHex ((if a < 0 then 1 else 0) :: natToBytes a.natAbs ml), bytesHex (natToBytes a.natAbs ml), bytesHex (natToBytes (twosEncode a tl) tl)]) rhs
    | _, _, _ => .unsupported "args"
  | "Q.arith", [xs, ys] =>
    match parseRat xs, parseRat ys with
    | some (an, ad), some (bn, bd) =>
      let a : Int := ad
      let b : Int := bd
      let div := if bn = 0 then "none" else "ok:" ++ ratS (if bn < 0 then -(an * b) else an * b) (ad * bn.natAbs)
      let inv := if an = 0 then "none" else "ok:" ++ ratS (if an < 0 then -a else a) an.natAbs
      let fl := ratFloor an ad
      let ce := ratCeil an ad
      spec op (joinComma [ratS (an * b + bn * a) (ad * bd), ratS (an * b - bn * a) (ad * bd), ratS (an * bn) (ad * bd), div, inv, ratS (-an) ad, ratCanon an ad,
        "ok:" ++ hi ce, "ok:" ++ hi fl,
        b01 (decide (an * b ≤ bn * a)) ++ b01 (an * b == bn * a) ++ b01 (an % a == 0) ++ b01 (an == 0) ++ b01 (an == a) ++ b01 (decide (an < 0)) ++ b01 (decide (an > 0))]) rhs
    | _, _ => .unsupported "args"
  | "Zn.arith", [ms, as, bs, es, ss, bitss] =>
    match hexToNat? ms, hexToNat? as, hexToNat? bs, hexToInt? es, ss.toNat?, bitss.toNat? with
    | some m, some a0, some b0, some e, some sh, some bits =>
      let a := a0 % m
      let b := b0 % m
      let mi : Int := m
      let inv := invMod a m
      let unitA := Nat.gcd a m == 1
      match powModI a e m with
      | none => .unsupported "negative exponent of a non-unit"
      | some pe =>
        let fields := [hx a, hx ((a + b) % m), hx (((a : Int) - b) % mi).toNat, hx (a * b % m), hx ((-(a : Int)) % mi).toNat, hx (2 * a % m), hx (a * a % m),
          hx ((a + 1) % m), hx (((a : Int) - 1) % mi).toNat, hx (powMod a e.natAbs m), hx pe, hx (powMod a (e.natAbs % 2 ^ bits) m),
          (if unitA then optS (inv.map hx) else "none"),
          (match invMod b m with
            | some bi => "ok:" ++ hx (a * bi % m)
            | none => "?"),
          b01 unitA ++ b01 (a == 0) ++ b01 (a == 1) ++ b01 (a == b) ++ b01 (decide (a ≤ b)),
          hx ((a <<< sh) % m), hx ((a >>> sh) % m), hx a]
        -- modulus 1 and divisions by non-units follow the ModInv/ModDiv conventions checked on the m.* lines
        let got := splitComma rhs
        if got.length ≠ fields.length then .bad "Zn.arith" ("field count: " ++ rhs) else
        let bad := (fields.zip got).zipIdx.filter fun ((f, g), i) => f != g && !(i == 13 && f == "?") && !(m == 1 && (i == 12 || i == 13))
        if bad.isEmpty then .ok else .bad "Zn.arith" ("expected=" ++ joinComma fields ++ " observed=" ++ rhs)
    | _, _, _, _, _, _ => .unsupported "args"
  | "Zn.sqrt", [ms, as] =>
    match hexToNat? ms, hexToNat? as with
    | some m, some a => sqrtVerdict m a rhs
    | _, _ => .unsupported "args"
  | _, _ => .unsupported ("C17 op " ++ op)

def cardParse (s : String) : Option (Option (Option Nat)) :=   -- some none = unknown, some (some none) = infinite
  if s == "unk" then some none else if s == "inf" then some (some none) else (hexToNat? s).map fun n => some (some n)

def handleMisc (op : String) (args : List String) (rhs : String) : Verdict :=
  match op, args with
  | "jacobi", [xs, ys] =>
    match hexToInt? xs, hexToNat? ys with
    | some x, some y =>
      let model := match jacobiChecked x y with
        | none => "reject"
        | some j => toString j
      if model == rhs then .ok
      else if x < 0 then .bad "jacobi-negative-numerator" ("expected=" ++ model ++ " observed=" ++ rhs)
      else .bad "jacobi" ("expected=" ++ model ++ " observed=" ++ rhs)
    | _, _ => .unsupported "args"
  | "zn.unit", [known, ps, qs, as, bs, es] =>
    match hexToNat? ps, hexToNat? qs, hexToNat? as, hexToNat? bs, hexToInt? es with
    | some p, some q, some a0, some b0, some e =>
      let n := p * q
      let a := a0 % n
      let b := b0 % n
      let ua := Nat.gcd a n == 1
      let ub := Nat.gcd b n == 1
      if !(ua && ub) then spec "unit-membership" ("notunit:" ++ b01 (!ua) ++ b01 (!ub)) rhs else
      match invMod a n, invMod b n, powModI a e n with
      | some ai, some bi, some pe =>
        let qr := if known == "1" then b01 (isQR a p && isQR a q) else "na"
        spec "unit-group" (joinComma [hx (a * b % n), hx ai, hx (a * bi % n), hx (a * a % n), hx pe, hx (powMod a e.natAbs n), toString (jacobi a n), qr]) rhs
      | _, _, _ => .unsupported "model inverse"
    | _, _, _, _, _ => .unsupported "args"
  | "card", [as, bs] =>
    match cardParse as, cardParse bs with
    | some a, some b =>
      let r (c : Option (Option Nat)) : String := match c with
        | none => "unk" | some none => "inf" | some (some n) => hx n
      let add : Option (Option Nat) := match a, b with
        | none, _ => none | _, none => none
        | some none, _ => some none | _, some none => some none
        | some (some x), some (some y) => some (some (x + y))
      let mul : Option (Option Nat) := match a, b with
        | none, _ => none | _, none => none
        | some none, _ => some none | _, some none => some none
        | some (some x), some (some y) => some (some (x * y))
      -- only the finite/finite fields are compared as specification; mixed cases mirror the documented absorbing rules
      match a, b with
      | some (some x), some (some y) =>
        spec op (joinComma [r add, r mul, hx (x - y), b01 (decide (x ≤ y)) ++ b01 (x == y) ++ b01 (x == 0), toString (8 * ceilDiv (bitLen x) 8)]) rhs
      | _, _ => .ok
    | _, _ => .unsupported "args"
  | _, _ =>
    if op.startsWith "prime." then
      match args, hexToNat? rhs with
      | [bs], some p =>
        match bs.toNat? with
        | some bits =>
          match primeForm (op.drop 6).toString bits p with
          | none => .ok
          | some "bitlen" => .bad (if op == "prime.blum" then "blum-prime-bitlen" else "prime-bitlen") ("requested " ++ bs ++ " bits, got " ++ toString (bitLen p))
          | some why => .bad ("prime-" ++ why) rhs
        | none => .unsupported "args"
      | _, _ => .bad "prime-generation-failed" rhs
    else if op.startsWith "primepair." then
      match args, parseNatList? rhs with
      | [bs], some [p, q] =>
        match bs.toNat? with
        | some bits =>
          let kind := (op.drop 10).toString
          match primeForm kind (bits / 2) p, primeForm kind (bits / 2) q with
          | none, none => if p = q then .bad "primepair-equal" rhs else if bitLen (p * q) ≠ bits then .bad "primepair-product-bitlen" rhs else .ok
          | some why, _ => .bad ("primepair-" ++ why) rhs
          | _, some why => .bad ("primepair-" ++ why) rhs
        | none => .unsupported "args"
      | _, _ => .bad "prime-generation-failed" rhs
    else .unsupported ("C17 op " ++ op)


/-! ### second part: the remaining exported methods (harness/c17_more.go) -/

/-- field-wise comparison; `none` marks a relational field decided by `rel index observed` -/
def fieldsVerdict (key : String) (exp : List (Option String)) (rel : Nat → String → Bool) (rhs : String) : Verdict :=
  let got := splitComma rhs
  if got.length ≠ exp.length then .bad key ("field count " ++ toString got.length ++ "/" ++ toString exp.length ++ ": " ++ rhs) else
  let bad := (exp.zip got).zipIdx.filter fun ((e, g), i) =>
    match e with
    | some s => s != g
    | none => !rel i g
  match bad with
  | [] => .ok
  | ((e, g), i) :: _ => .bad key ("field " ++ toString i ++ " expected=" ++ e.getD "<relation>" ++ " observed=" ++ g)

def okIf (c : Bool) (s : String) : String := if c then "ok:" ++ s else "none"

/-- announced length of a value that went through `FromBytes(big.Bytes())`: whole bytes (`NatZero` announces 1) -/
def byteLen (n : Nat) : Nat := 8 * ceilDiv (bitLen n) 8

def primeS (n : Nat) : String := b01 (decide (bitLen n ≤ 1300) && probablyPrime n)

/-- `lo ≤ v < hi` for a sampled value rendered in hex (`err` exactly for an empty range) -/
def inRangeI (lo hi : Int) (g : String) : Bool :=
  if g == "err" then decide (lo ≥ hi) else
  match hexToInt? g with
  | some v => decide (lo ≤ v) && decide (v < hi)
  | none => false

def ratLe (an : Int) (ad : Nat) (bn : Int) (bd : Nat) : Bool := decide (an * (bd : Int) ≤ bn * (ad : Int))
def ratLt (an : Int) (ad : Nat) (bn : Int) (bd : Nat) : Bool := decide (an * (bd : Int) < bn * (ad : Int))

def unitOf (a m : Nat) : Bool := Nat.gcd (a % m) m == 1

def handleMore (op : String) (args : List String) (rhs : String) : Option Verdict :=
  match op, args with
  | "NP.arith", [as, bs, shs] => some <|
    match hexToNat? as, hexToNat? bs, shs.toNat? with
    | some a, some b, some sh =>
      fieldsVerdict op ([hx (a + b), hx (a * b), hx (2 * a), hx (a * a), hx (a + 1), okIf (a != 1) (hx (a - 1)), okIf (decide (b < a)) (hx (a - b)),
        okIf (a % b == 0) (hx (a / b)), okIf (a == 1) "1", hx (a <<< sh), okIf (a >>> sh != 0) (hx (a >>> sh)),
        ordS a b ++ b01 (decide (a ≤ b)) ++ b01 (a == b) ++ b01 (a == 1) ++ b01 (a % 2 == 1) ++ b01 (a % 2 == 0) ++ b01 (Nat.gcd a b == 1),
        toString ((a >>> sh) % 2), toString ((a >>> (8 * (sh / 8))) % 256), toString (bitLen a), toString (byteLen a), hx (a % 2 ^ 64),
        bytesHex (natToBytes a (ceilDiv (bitLen a) 8)), hx (a % b)].map some) (fun _ _ => false) rhs
    | _, _, _ => .unsupported "args"
  | "N.more", [as, bs, cs, rs, los, his] => some <|
    match hexToNat? as, hexToNat? bs, hexToInt? cs, parseRat rs, hexToNat? los, hexToNat? his with
    | some a, some b, some c, some (rn, rd), some rlo, some rhi =>
      let ok := "ok:" ++ hx a
      fieldsVerdict op [some (hx (a * b)), some (okIf (a == 1) "1"), some "none", some (b01 (a == 0) ++ "1"), some (primeS a), some (hx (a % 2 ^ 64)), some (hx a),
        some (toString (if a = 0 then 1 else byteLen a)), some (hx (a % 2 ^ 64)), some (okIf (a != 0) (hx a)), some (okIf (decide (c ≥ 0)) (hi c)),
        some (okIf (rn % (rd : Int) == 0 && decide (rn ≥ 0)) (hi (rn / (rd : Int)))), some ok, some ok, some ok, some ok, none]
        (fun _ g => inRangeI rlo rhi g) rhs
    | _, _, _, _, _, _ => .unsupported "args"
  | "Z.more", [as, bs, ms, rs, i64s, los, his] => some <|
    match hexToInt? as, hexToInt? bs, hexToNat? ms, parseRat rs, hexToInt? i64s, hexToInt? los, hexToInt? his with
    | some a, some b, some m, some (rn, rd), some i64, some rlo, some rhi =>
      let abs := a.natAbs
      let am := (a % (m : Int)).toNat
      fieldsVerdict op [some (hi (-a)), some (hi (a - b)), some (b01 (a % 2 == 1) ++ "1"), some (b01 (decide (bitLen abs ≤ 1300) && decide (a ≥ 0) && probablyPrime abs)),
        some (toString (bitLen abs)), some (toString (if a = 0 then 1 else bitLen abs)),
        some (hi i64), some (hi (i64 % ((2 ^ 64 : Nat) : Int))), some ("ok:" ++ hx abs), some (okIf (abs != 0) (hx abs)),
        some (okIf (rn % (rd : Int) == 0) (hi (rn / (rd : Int)))), some ("ok:" ++ hx abs), some ("ok:" ++ hi a), some ("ok:" ++ hi a), some ("ok:" ++ hx abs),
        some ("ok:" ++ hi (symMod am m)), some ("ok:" ++ hx am), none]
        (fun _ g => inRangeI rlo rhi g) rhs
    | _, _, _, _, _, _, _ => .unsupported "args"
  | "Q.more", [xs, ys, cs, i64s, ms] => some <|
    match parseRat xs, parseRat ys, hexToInt? cs, hexToInt? i64s, hexToNat? ms with
    | some (an, ad), some (bn, bd), some c, some i64, some m =>
      let a : Int := ad
      let b : Int := bd
      let div := if bn = 0 then "none" else "ok:" ++ ratS (if bn < 0 then -(an * b) else an * b) (ad * bn.natAbs) ++ ":0|1"
      -- lo, hi = the two operands in order
      let xLe := ratLe an ad bn bd
      let lon := if xLe then an else bn
      let lod := if xLe then ad else bd
      let hin := if xLe then bn else an
      let hid := if xLe then bd else ad
      let relLast (g : String) : Bool :=
        match g.splitOn ";" with
        | [l, h, r, ri] =>
          l == ratS lon lod && h == ratS hin hid &&
          (if r == "err" then !(ratLt lon lod hin hid)
           else match parseRat r with
             | some (rnn, rdd) => ratLe lon lod rnn rdd && ratLt rnn rdd hin hid && r == ratCanon rnn rdd
             | none => false) &&
          (let cl := ratCeil lon lod
           let ch := ratCeil hin hid
           if ri == "err" then decide (cl ≥ ch)
           else match hexToInt? ri with
             | some v => decide (cl ≤ v) && decide (v < ch)
             | none => false)
        | _ => false
      fieldsVerdict op [some (ratS (an * a + an * a) (ad * ad)), some (ratS (an * an) (ad * ad)), some (ratS (an * b - bn * a) (ad * bd)), some div,
        some (b01 (an % a == 0 && decide (an ≥ 0) && decide (bitLen (an / a).natAbs ≤ 1300) && probablyPrime (an / a).toNat)),
        some ("ok:" ++ ratS c 1), some (ratS i64 1), some (ratS (i64 % ((2 ^ 64 : Nat) : Int)) 1), some ("ok:" ++ ratS c.natAbs 1), some (okIf (c != 0) (ratS c.natAbs 1)),
        some ("ok:" ++ ratS (c % (m : Int)) 1), some ("ok:" ++ ratS c 1), some ("ok:" ++ ratCanon an ad), none]
        (fun _ g => relLast g) rhs
    | _, _, _, _, _ => .unsupported "args"
  | "Zn.more", [ms, as, bs, es, bitss, ks, bits, chs, i64s, rs] => some <|
    match hexToNat? ms, hexToNat? as, hexToNat? bs, hexToInt? es, bitss.toNat?, hexToNat? ks, bits.toNat?, hexToInt? i64s, parseRat rs with
    | some m, some av, some bv, some e, some ebits, some k, some bit, some i64, some (rn, rd) =>
      let a := av % m
      let b := bv % m
      let mi : Int := m
      let blm := bitLen m
      let dom := probablyPrime m
      match powModI a (truncI e ebits) m with
      | none => .unsupported "negative exponent of a non-unit"
      | some pe =>
        let inR := okIf (decide (av < m)) (hx av)
        let u64 := (i64 % ((2 ^ 64 : Nat) : Int)).toNat
        fieldsVerdict op [some (toString ((a >>> bit) % 2)), some (bytesHex (natToBytes a (ceilDiv blm 8))), some (ordS a b), some (b01 (Nat.gcd a b == 1)),
          some (if dom && b != 0 then "ok:" ++ hx (a / b % m) ++ ":" ++ hx (a % b % m) else "none"),
          some (hx pe), some (b01 (a + 1 == m) ++ b01 (a % 2 == 0) ++ b01 (a % 2 == 1) ++ b01 (a != 0)),
          some (primeS a), some (hx (a * k % m)), some (hx (if chs == "0" then a else b)), some (toString (bitLen a)),
          some inR, some inR, some ("ok:" ++ hx a), some inR,
          some ("ok:" ++ hx (i64 % mi).toNat), some (hx (u64 % m)), some ("ok:" ++ hx a), some inR, some (okIf (av != 0) (hx a)),
          some (okIf (rn % (rd : Int) == 0) (hx ((rn / (rd : Int)) % mi).toNat)), some (b01 (decide (av < m))),
          some (if m = 1 then "na" else hx (m - 1)), some (if m = 1 then "na" else "1"), none,
          some inR, some (b01 dom), some (toString (byteLen m) ++ ":" ++ toString (2 * byteLen m)), some (hx b)]
          (fun _ g => match hexToNat? g with | some v => decide (v < m) | none => false) rhs
    | _, _, _, _, _, _, _, _, _ => .unsupported "args"
  | "Zn.order", [ms, as] => some <|
    match hexToNat? ms, hexToNat? as with
    | some m, some av =>
      let a := av % m
      -- bottom = the least element 0, top = the greatest element m-1 (specification); the sign convention of
      -- `IsNegative` (a > ⌊(m+1)/2⌋) is mirrored
      let specPart := b01 (a == 0) ++ "1" ++ b01 (a + 1 == m) ++ "1"
      let neg := b01 (decide (a > (m + 1) / 2))
      if (rhs.take 4).toString != specPart then .bad "zn-isbottom" ("expected=" ++ specPart ++ neg ++ " observed=" ++ rhs)
      else mirror (specPart ++ neg) rhs
    | _, _ => .unsupported "args"
  | "crt.more", [ps, qs, rs, xs] => some <|
    match hexToNat? ps, hexToNat? qs, hexToNat? rs, hexToNat? xs with
    | some p, some q, some r, some x =>
      match crt2 (x % p) (x % q) p q, crtList [(x % p, p), (x % q, q), (x % r, r)] with
      | some v, some (w, n) =>
        if v ≠ x % (p * q) ∨ w ≠ x % (p * q * r) ∨ n ≠ p * q * r then .unsupported "model crt" else
        spec "crt-more" (joinComma [hx (p * q), hx (x % p), hx (x % q), hx v, hx (x % p), hx (x % q), hx (x % r), hx w]) rhs
      | _, _ => .unsupported "model crt"
    | _, _, _, _ => .unsupported "args"
  | "ar.more", [ps, qs, xs] => some <|
    match hexToNat? ps, hexToNat? qs, parseCV xs with
    | some p, some q, some xc =>
      let x := xc.nat
      let n := p * q
      let fq (r : Nat) : Nat := ((powMod x (r - 1) (r * r) + r * r - 1) % (r * r)) / r
      spec "modular-more" (joinComma [hx (n * n), hx (n * n), hx (p * p), hx (p * (p - 1)), hx ((p - 1) * (q - 1)), hx (n * ((p - 1) * (q - 1))), "unk",
        hx (powMod x n (n * n)), hx (fq p), hx (fq q), hx (x * x % (n * n))]) rhs
    | _, _, _ => .unsupported "args"
  | "ar.refuse", [_, _] => some (spec "modular-accepts-nonprime" "00000" rhs)
  | "zn.more", [kind, known, ps, qs, as, bs, es, bitss, us] => some <|
    match hexToNat? ps, hexToNat? qs, hexToNat? as, hexToNat? bs, hexToInt? es, bitss.toNat?, hexToNat? us with
    | some p, some q, some a0, some b0, some e, some ebits, some u64 =>
      let n := p * q
      let md := if kind == "pail" then n * n else n
      let a := a0 % md
      let b := b0 % md
      let ua := unitOf a md
      let ub := unitOf b md
      let un (v : Nat) := okIf (unitOf v md) (hx (v % md))
      let order := if known == "1" then hx ((if kind == "pail" then n else 1) * ((p - 1) * (q - 1))) else "unk"
      let head := [un a0, okIf (decide (u64 < md) && unitOf u64 md) (hx u64), (if a0 = 0 then "na" else un a0), un a0, un a, un a, "none", "1", order, b01 (known != "1")]
      if !(ua && ub) then spec "unit-membership" (joinComma (head ++ ["notunit:" ++ b01 (!ua) ++ b01 (!ub)])) rhs else
      match invMod a md, invMod b md, powModI a e md, powModI a (truncI e ebits) md with
      | some ai, some bi, some pe, some peb =>
        let tf := if known == "1" then isQR a p && isQR a q else jacobi a n == 1
        spec "unit-group" (joinComma (head ++ [hx a, hx (a * b % md), hx ai, hx (a * bi % md), hx (a * a % md), hx (powMod a e.natAbs md), hx pe,
          hx (powMod a (e.natAbs % 2 ^ ebits) md), hx peb, b01 (a == 1) ++ b01 (a == b) ++ b01 tf, bytesHex (natToBytes a (ceilDiv (bitLen md) 8)), toString (jacobi a n)])) rhs
      | _, _, _, _ => .unsupported "model inverse"
    | _, _, _, _, _, _, _ => .unsupported "args"
  | "zn.rand", [_, _, ps, qs] => some <|
    match hexToNat? ps, hexToNat? qs with
    | some p, some q =>
      let n := p * q
      match splitComma rhs with
      | [rs, qrs, j1s, jm1s, flag] =>
        match hexToNat? rs, hexToNat? qrs, hexToNat? j1s, hexToNat? jm1s with
        | some r, some qr, some j1, some jm1 =>
          if !(decide (r < n) && unitOf r n) then .bad "unit-random" ("not a unit: " ++ rs)
          else if !(decide (qr < n) && unitOf qr n && isQR qr p && isQR qr q) then .bad "unit-random-qr" ("not a quadratic residue: " ++ qrs)
          else if !(decide (j1 < n) && unitOf j1 n && jacobi j1 n == 1) then .bad "unit-random-jacobi" ("Jacobi symbol is not 1: " ++ j1s)
          else if !(decide (jm1 < n) && unitOf jm1 n && jacobi jm1 n == -1) then .bad "unit-random-jacobi" ("Jacobi symbol is not -1: " ++ jm1s)
          else if flag != "1" then .bad "unit-random-jacobi" "Jacobi symbol 0 requested and not refused"
          else .ok
        | _, _, _, _ => .bad "unit-random" rhs
      | _ => .bad "unit-random" rhs
    | _, _ => .unsupported "args"
  | "zn.pail", [_, ps, qs, as, pts, rus] => some <|
    match hexToNat? ps, hexToNat? qs, hexToNat? as, hexToNat? pts, hexToNat? rus with
    | some p, some q, some a0, some pt, some ru =>
      let n := p * q
      let nn := n * n
      let a := a0 % nn
      spec "paillier-group" (joinComma ["ok:" ++ hx ((1 + (pt % n) * n) % nn),
        (if unitOf a nn then "ok:" ++ hx (powMod a n nn) else "notunit"),
        (if unitOf ru n then "ok:" ++ hx (ru % n) else "notunit")]) rhs
    | _, _, _, _, _ => .unsupported "args"
  | "zn.sample", [kind, form, bs] => some <|
    match bs.toNat?, parseNatList? rhs with
    | some bits, some [p, q, md] =>
      match primeForm form (bits / 2) p, primeForm form (bits / 2) q with
      | none, none =>
        if p = q then .bad "primepair-equal" rhs
        else if bitLen (p * q) ≠ bits then .bad "primepair-product-bitlen" rhs
        else if md ≠ (if kind == "pail" then p * q * (p * q) else p * q) then .bad "sampled-group-modulus" rhs
        else .ok
      | some why, _ => .bad ("primepair-" ++ why) rhs
      | _, some why => .bad ("primepair-" ++ why) rhs
    | _, _ => .bad "prime-generation-failed" rhs
  | "ct.set", [_] => some (spec op "1,0,1,0,1/1,0/1" rhs)
  | "ct.random", [ms] => some <|
    match hexToNat? ms, parseNatList? rhs with
    | some m, some [v, h] => if v < m ∧ h < m then .ok else .bad "random-out-of-range" rhs
    | _, _ => .bad "random-out-of-range" rhs
  | "card.more", [vs, us] => some <|
    match hexToNat? vs, hexToNat? us with
    | some v, some u =>
      spec op (joinComma [bytesHex (natToBytes v (ceilDiv (bitLen v) 8)), hx (v % 2 ^ 64), b01 (probablyPrime v), hx u, toString (byteLen u), b01 (u == 0)]) rhs
    | _, _ => .unsupported "args"
  | "nt.random", [bs] => some <|
    match bs.toNat?, splitComma rhs with
    | some bits, [as, bbs, flag] =>
      match hexToNat? as, hexToNat? bbs with
      | some a, some b => if bitLen a = bits ∧ bitLen b = bits ∧ flag == "1" then .ok else .bad "random-bitlen" ("requested " ++ bs ++ " bits: " ++ rhs)
      | _, _ => .bad "random-bitlen" rhs
    | _, _ => .bad "random-bitlen" rhs
  | "NP.ctor", [as, rs, us, los, his, ms] => some <|
    match hexToNat? as, parseRat rs, hexToNat? us, hexToNat? los, hexToNat? his, hexToNat? ms with
    | some a, some (rn, rd), some u, some rlo, some rhi, some m =>
      fieldsVerdict op [some (okIf (rn % (rd : Int) == 0 && decide (rn > 0)) (hi (rn / (rd : Int)))), some (okIf (u != 0) (hx u)), some (okIf (a != 0) (hx a)),
        some (if rn = 0 then "0" else "1"), some (toString (bitLen m)), none]
        (fun _ g => inRangeI rlo rhi g) rhs
    | _, _, _, _, _, _ => .unsupported "args"
  | "Q.opidentity", [] => some (spec "q-opidentity" "0|1,1" rhs)
  | "Zn.top1", [] => some (spec "zn-top-modulus-one" "0" rhs)
  | _, _ => none


def handle0 (op : String) (args : List String) (rhs : String) : Verdict :=
  match handleMore op args rhs with
  | some v => v
  | none =>
  if op.startsWith "n." then handleNat op args rhs
  else if op.startsWith "i." then handleInt op args rhs
  else if op.startsWith "m." then handleMod op args rhs
  else if op.startsWith "ar." || op.startsWith "crt." then handleArith op args rhs
  else if op.startsWith "N." || op.startsWith "Z." || op.startsWith "Q." || op.startsWith "Zn." then handleNum op args rhs
  else handleMisc op args rhs

/-- the `expected=… observed=…` pair of a `classify`/`spec` message -/
def expectedOf (why : String) : Option String :=
  match why.splitOn "expected=" with
  | [_, rest] => (rest.splitOn " observed=").head?
  | _ => none

/-- "reused output" lines (`r!<op>`: every output receiver already held a longer random value): the *values*
must be those of a fresh receiver; the announced length of a reused receiver is a convention that is not
claimed, so a difference in the `/<len>` suffixes alone is accepted.  A wrong value is reported under the
key `reused-output` (one root cause: the receiver's previous contents leak into the result). -/
def handle (op : String) (args : List String) (rhs : String) : Verdict :=
  if op.startsWith "r!" then
    let norm (t : String) : String := let u := stripCaps t; if u.startsWith "ok:" then (u.drop 3).toString else u
    let sameValues (model : String) : Bool := norm model == norm rhs
    match handle0 (op.drop 2).toString args rhs with
    | .ok => .ok
    | .diff model => if sameValues model then .ok else .bad "reused-output" ("expected=" ++ model ++ " observed=" ++ rhs)
    | .bad key why =>
      match expectedOf why with
      | some model => if sameValues model then .ok else .bad "reused-output" ("(" ++ key ++ ") " ++ why)
      | none => .bad "reused-output" ("(" ++ key ++ ") " ++ why)
    | .unsupported w => .unsupported w
  else handle0 op args rhs

end BronVerif.Drive.C17
