import BronVerif.Drive.Common
import BronVerif.Model.BigNum
/-!
Driver handlers for C17 (big-number and modular arithmetic).

Verdict discipline: `spec` wherever the model value is the mathematical truth (all arithmetic without
truncation, comparisons, gcd, inverses, exponentiation, Jacobi, CRT, …); `mirror` where the line shows a
documented *convention* of the API (a capacity that truncates, limb-granular `LshCap`, announced lengths,
"composite modulus: only integer perfect squares are recognised"); relational checks where the API may
return any one of several correct answers (square roots, random sampling).  Each root cause of a known
deviation has its own stable key.
-/
namespace BronVerif.Drive.C17
open BronVerif BronVerif.Drive BronVerif.BigNum

/-- operand `<hex>/<cap>`: value as passed and announced capacity -/
structure CV where
  v : Int
  c : Int

def parseCV (s : String) : Option CV :=
  match s.splitOn "/" with
  | [a, b] => do let v ← hexToInt? a; let c ← b.toInt?; pure ⟨v, c⟩
  | _ => none

def CV.nat (x : CV) : Nat := trunc x.v.natAbs x.c
def CV.int (x : CV) : Int := truncI x.v x.c

def rN (v : Nat) (c : Int) : String := natToHex v ++ "/" ++ toString c
def rI (v : Int) (c : Int) : String := intToHex v ++ "/" ++ toString c
def hx (v : Nat) : String := natToHex v
def hi (v : Int) : String := intToHex v
def b01 (b : Bool) : String := if b then "1" else "0"

/-- capacity argument: `_` is the default -/
def parseCap (s : String) : Option (Option Int) := if s == "_" then some none else s.toInt?.map some

def imax (a b : Int) : Int := if a < b then b else a
def imin (a b : Int) : Int := if a < b then a else b

def cmpS (a b : Int) : String := if a < b then "lt" else if a = b then "eq" else "gt"

def optS (o : Option String) : String := match o with | none => "none" | some s => "ok:" ++ s

/-- different keys for different root causes -/
def classify (key : String) (alias : String) (aliasKey : String) (model rhs : String) : Verdict :=
  if model == rhs then .ok
  else if rhs.startsWith "panic:" then .bad ((if key.endsWith "-wrong" then (key.dropEnd 6).toString else key) ++ "-panic") ("expected=" ++ model ++ " observed=" ++ rhs)
  else if alias != "a0" then .bad aliasKey ("output aliases input " ++ alias ++ " expected=" ++ model ++ " observed=" ++ rhs)
  else .bad key ("expected=" ++ model ++ " observed=" ++ rhs)

/-- spec when no truncation happens (cap at least `need`), mirror of the truncation convention otherwise -/
def specOrMirror (key : String) (truncating : Bool) (model rhs : String) : Verdict :=
  if truncating then mirror model rhs else spec key model rhs

def bytesHex (bs : List Nat) : String :=
  if bs.isEmpty then "-" else String.join (bs.map fun b => byteToHex (UInt8.ofNat b))

def parseBytes (s : String) : Option (List Nat) := (hexToBytes? s).map fun b => b.toList.map UInt8.toNat

def ceilDiv (a b : Nat) : Nat := (a + b - 1) / b

/-- drop the `/<announced>` suffixes of a result `ok:<v>/<c>,<v>/<c>` -/
def stripCaps (s : String) : String :=
  ",".intercalate ((s.splitOn ",").map fun t => (t.splitOn "/").headD "")

/-- bitwise operation on integers through two's complement on a common width -/
def intBitwise (f : Nat → Nat → Nat) (x y : Int) : Int :=
  let w := max (bitLen x.natAbs) (bitLen y.natAbs) + 2
  let m : Nat := 2 ^ w
  let r := f (x % (m : Int)).toNat (y % (m : Int)).toNat % m
  if r ≥ m / 2 then (r : Int) - m else r

def unit (a : Int) (m : Nat) : Bool := Nat.gcd (a % (m : Int)).toNat m == 1

def inRangeSym (x : Int) (m : Nat) : Bool := decide (-(m : Int) ≤ 2 * x) && decide (2 * x < m)

/-- the model's answer for a modular square root line (relational) -/
def sqrtVerdict (m x : Nat) (rhs : String) : Verdict :=
  if rhs.startsWith "ok:" then
    match hexToNat? (rhs.drop 3).toString with
    | some r => if r < m ∧ r * r % m = x % m then .ok else .bad "modsqrt-wrong-root" ("root does not square back: " ++ rhs)
    | none => .unsupported "rhs"
  else if rhs == "none" then
    if m ≤ 2 then (if m = 1 then mirror "ok:0" rhs else .unsupported "m=2")
    else if probablyPrime m then
      (if isQR x m then .bad "modsqrt-missed-residue" ("quadratic residue modulo an odd prime, model root=" ++ optS ((sqrtMod x m).map hx)) else .ok)
    else -- composite: the API documents that only integer perfect squares are recognised (mirror)
      match sqrtExact? (x % m) with
      | some r => mirror ("ok:" ++ hx r) rhs
      | none => .ok
  else .bad "modsqrt" ("unexpected result " ++ rhs)

def natOp (name : String) (x y : Nat) : Nat :=
  match name with
  | "and" => x &&& y | "or" => x ||| y | _ => x ^^^ y

/-- `a/b` in lowest terms with positive denominator, rendered `num|den` -/
def ratCanon (n : Int) (d : Nat) : String :=
  if n = 0 then "0|1" else
  let g := Nat.gcd n.natAbs d
  hi (n / (g : Int)) ++ "|" ++ hx (d / g)
def ratS (n : Int) (d : Nat) : String := hi n ++ "|" ++ hx d

def parseRat (s : String) : Option (Int × Nat) :=
  match s.splitOn "|" with
  | [a, b] => do let n ← hexToInt? a; let d ← hexToNat? b; pure (n, d)
  | _ => none

def ordS (a b : Int) : String := if a < b then "-1" else if a = b then "0" else "1"

def primeForm (kind : String) (bits p : Nat) : Option String :=
  if bitLen p ≠ bits then some "bitlen" else
  if !probablyPrime p then some "composite" else
  if kind == "blum" && p % 4 ≠ 3 then some "not-3-mod-4" else
  if kind == "safe" && !probablyPrime ((p - 1) / 2) then some "not-safe" else none

def handleNat (op : String) (args : List String) (rhs : String) : Verdict :=
  match op, args with
  | "n.add", [al, xs, ys, cs] | "n.sub", [al, xs, ys, cs] | "n.mul", [al, xs, ys, cs] =>
    match parseCV xs, parseCV ys, parseCap cs with
    | some x, some y, some cap =>
      let need := if op == "n.add" then imax x.c y.c + 1 else if op == "n.sub" then imax x.c y.c else x.c + y.c
      let c := cap.getD need
      let v : Nat := if op == "n.add" then trunc (x.nat + y.nat) c
        else if op == "n.sub" then (((x.nat : Int) - (trunc y.nat c : Int)) % ((2 ^ c.toNat : Nat) : Int)).toNat
        else trunc (x.nat * y.nat) c
      if c < need then mirror (rN v c) rhs else classify op al "nat-output-alias" (rN v c) rhs
    | _, _, _ => .unsupported "args"
  | "n.lsh", [_, xs, ss, cs] =>
    match parseCV xs, ss.toNat?, parseCap cs with
    | some x, some sh, some cap =>
      let c := cap.getD (x.c + sh)
      -- convention (mirrored): LshCap drops whole limbs only; bits between `cap` and the limb boundary stay
      let v := (trunc x.nat c <<< sh) % 2 ^ (64 * ceilDiv c.toNat 64)
      specOrMirror op (c < x.c + sh) (rN v c) rhs
    | _, _, _ => .unsupported "args"
  | "n.rsh", [_, xs, ss, cs] =>
    match parseCV xs, ss.toNat?, parseCap cs with
    | some x, some sh, some cap =>
      let c := cap.getD (imax (x.c - sh) 0)
      specOrMirror op (c < x.c - sh) (rN (trunc (x.nat >>> sh) c) c) rhs
    | _, _, _ => .unsupported "args"
  | "n.div", [al, xs, ys] =>
    match parseCV xs, parseCV ys with
    | some x, some y =>
      -- announced lengths (convention, from CondAssign): quotient = numerator's; remainder = denominator's
      -- (0 for an empty numerator), the larger of both when the output aliases an input
      let rc := if x.c ≤ 0 then 0 else y.c
      let model := if y.nat = 0 then "none" else "ok:" ++ rN (x.nat / y.nat) x.c ++ "," ++ rN (x.nat % y.nat) (if al == "a2" then imax x.c rc else rc)
      classify op al "nat-div-alias" model rhs
    | _, _ => .unsupported "args"
  | "n.divvt", [al, xs, ys] =>
    match parseCV xs, parseCV ys with
    | some x, some y =>
      -- values only: the announced lengths of the variable-time variants are not a stable convention
      let model := if y.nat = 0 then "none" else "ok:" ++ hx (x.nat / y.nat) ++ "," ++ hx (x.nat % y.nat)
      classify "divvt-short-numerator-wrong" al "divvt-alias-numerator" model (stripCaps rhs)
    | _, _ => .unsupported "args"
  | "n.gcd", [al, xs, ys] =>
    match parseCV xs, parseCV ys with
    | some x, some y =>
      -- the mirrored binary algorithm at the capacity the Go code uses; `Props.C17.gcd_eq`: it is `Nat.gcd`
      let g := gcdBin (imax x.c y.c).toNat x.nat y.nat
      if g ≠ Nat.gcd x.nat y.nat then .unsupported "model gcd" else
      classify op al "nat-output-alias" (rN g (imax x.c y.c)) rhs
    | _, _ => .unsupported "args"
  | "n.coprime", [xs, ys] =>
    match parseCV xs, parseCV ys with
    | some x, some y => spec op (b01 (gcdBin (imax x.c y.c).toNat x.nat y.nat == 1)) rhs
    | _, _ => .unsupported "args"
  | "n.lcm", [xs, ys] =>
    match parseCV xs, parseCV ys with
    | some x, some y =>
      let l := lcmBin (imax x.c y.c).toNat x.nat y.nat
      if l ≠ Nat.lcm x.nat y.nat then .unsupported "model lcm" else spec op (hx l) rhs
    | _, _ => .unsupported "args"
  | "n.sqrt", [xs] =>
    match parseCV xs with
    | some x =>
      if rhs == "none" then
        match sqrtExact? x.nat with
        | some r => .bad "nat-sqrt-missed" ("perfect square, root=" ++ hx r)
        | none => .ok
      else match parseCV (rhs.drop 3).toString with
        | some r => if rhs.startsWith "ok:" ∧ r.v ≥ 0 ∧ r.v.toNat * r.v.toNat = x.nat then mirror (rN r.v.toNat (imax x.c 64)) (rhs.drop 3).toString
                    else .bad "nat-sqrt-wrong" ("root does not square back: " ++ rhs)
        | none => .unsupported "rhs"
    | none => .unsupported "args"
  | "n.cmp", [xs, ys] =>
    match parseCV xs, parseCV ys with
    | some x, some y => spec op (cmpS x.nat y.nat) rhs
    | _, _ => .unsupported "args"
  | "n.preds", [xs] =>
    match parseCV xs with
    | some x =>
      let v := x.nat
      spec op (b01 (v == 0) ++ b01 (v != 0) ++ b01 (v == 1) ++ b01 (v % 2 == 1) ++ b01 (v % 2 == 0) ++ "," ++ toString (bitLen v) ++ "," ++ toString x.c) rhs
    | none => .unsupported "args"
  | "n.bit", [xs, is] =>
    match parseCV xs, is.toNat? with
    | some x, some i => spec op (toString ((x.nat >>> i) % 2) ++ "," ++ toString ((x.nat >>> (8 * (i / 8))) % 256)) rhs
    | _, _ => .unsupported "args"
  | "n.bytes", [xs, ls] =>
    match parseCV xs, ls.toNat? with
    | some x, some ln =>
      spec op (bytesHex (natToBytes x.nat (ceilDiv x.c.toNat 8)) ++ "," ++ bytesHex (natToBytes x.nat ln)) rhs
    | _, _ => .unsupported "args"
  | "n.frombytes", [bs] =>
    match parseBytes bs with
    | some b => spec op (rN (bytesToNat b) (8 * b.length)) rhs
    | none => .unsupported "args"
  | "n.and", [_, xs, ys, cs] | "n.or", [_, xs, ys, cs] | "n.xor", [_, xs, ys, cs] | "n.not", [_, xs, ys, cs] =>
    match parseCV xs, parseCV ys, parseCap cs with
    | some x, some y, some cap =>
      let need := if op == "n.not" then x.c else imax x.c y.c
      let c := cap.getD need
      let v := if op == "n.not" then 2 ^ c.toNat - 1 - trunc x.nat c else trunc (natOp (op.drop 2).toString x.nat y.nat) c
      specOrMirror op (c < need) (rN v c) rhs
    | _, _, _ => .unsupported "args"
  | "n.setbit", [xs, is, bs] =>
    match parseCV xs, is.toNat?, bs.toNat? with
    | some x, some i, some b =>
      let cleared := x.nat - (if (x.nat >>> i) % 2 = 1 then 2 ^ i else 0)
      spec op (rN (cleared + b * 2 ^ i) (imax x.c (i + 1))) rhs
    | _, _, _ => .unsupported "args"
  | "n.resize", [xs, cs] =>
    match parseCV xs, parseCap cs with
    | some x, some cap => let c := cap.getD x.c; specOrMirror op (c < x.c) (rN (trunc x.nat c) c) rhs
    | _, _ => .unsupported "args"
  | "n.select", [ch, xs, ys] =>
    match parseCV xs, parseCV ys with
    | some x, some y => spec op (rN (if ch == "0" then x.nat else y.nat) (imax x.c y.c)) rhs
    | _, _ => .unsupported "args"
  | "n.incr", [xs] => match parseCV xs with
    | some x => spec op (rN (x.nat + 1) (imax x.c 1 + 1)) rhs
    | none => .unsupported "args"
  | "n.decr", [xs] => match parseCV xs with
    | some x => -- convention: 0 - 1 wraps modulo 2^cap
      let c := imax x.c 1
      specOrMirror op (x.nat = 0) (rN (((x.nat : Int) - 1) % ((2 ^ c.toNat : Nat) : Int)).toNat c) rhs
    | none => .unsupported "args"
  | "n.double", [xs] => match parseCV xs with
    | some x => spec op (rN (2 * x.nat) (x.c + 1)) rhs
    | none => .unsupported "args"
  | "n.u64", [xs] => match parseCV xs with
    | some x => spec op (hx x.nat ++ "," ++ rN x.nat 64) rhs
    | none => .unsupported "args"
  | "n.abs", [xs] => match parseCV xs with
    | some x => spec op (rN x.int.natAbs x.c ++ "," ++ rN x.int.natAbs x.c) rhs
    | none => .unsupported "args"
  | "n.consts", [] => spec op "0/1,1/1,2/2,3/2" rhs
  | "n.prime", [xs] => match parseCV xs with
    | some x => spec "probable-prime" (b01 (probablyPrime x.nat)) rhs
    | none => .unsupported "args"
  | "n.randlh", [ls, hs] =>
    match parseCV ls, parseCV hs with
    | some l, some h =>
      if rhs == "err" then (if l.nat ≥ h.nat then .ok else .bad "randlh-refused" "non-empty range refused")
      else match hexToNat? rhs with
        | some v => if l.nat ≤ v ∧ v < h.nat then .ok else .bad "randlh-out-of-range" rhs
        | none => .bad "randlh" rhs
    | _, _ => .unsupported "args"
  | "n.keeps", [_, xs, ys, _] =>
    match parseCV xs, parseCV ys with
    | some x, some y => spec "operand-clobbered" (rN x.nat x.c ++ "," ++ rN y.nat y.c) rhs
    | _, _ => .unsupported "args"
  | _, _ => .unsupported ("C17 op " ++ op)

def handleInt (op : String) (args : List String) (rhs : String) : Verdict :=
  match op, args with
  | "i.add", [al, xs, ys, cs] | "i.sub", [al, xs, ys, cs] | "i.mul", [al, xs, ys, cs] =>
    match parseCV xs, parseCV ys, parseCap cs with
    | some x, some y, some cap =>
      let need := if op == "i.mul" then x.c + y.c else imax x.c y.c + 1
      let c := cap.getD need
      let v : Int := if op == "i.add" then x.int + y.int else if op == "i.sub" then x.int - y.int else x.int * y.int
      if c < need ∧ !(al == "a2" && op != "i.mul") then
        -- truncating capacity (convention): the result is correct modulo 2^cap, magnitude below 2^cap
        match parseCV rhs with
        | some r =>
          let m : Int := ((2 ^ c.toNat : Nat) : Int)
          if r.c = c ∧ (r.v - v) % m = 0 ∧ r.v.natAbs < 2 ^ c.toNat then .ok else .diff (rI (truncI v c) c)
        | none => .diff (rI (truncI v c) c)
      else classify op al (if al == "a2" && op != "i.mul" then "int-add-alias-rhs" else "int-output-alias") (rI v c) rhs
    | _, _, _ => .unsupported "args"
  | "i.div", [al, xs, ys] | "i.divvt", [al, xs, ys] | "i.ediv", [al, xs, ys] | "i.edivvt", [al, xs, ys] =>
    match parseCV xs, parseCV ys with
    | some x, some y =>
      let vt := op == "i.divvt" || op == "i.edivvt"
      let eu := op == "i.ediv" || op == "i.edivvt"
      let qr := if eu then edivFromAbs x.int y.int else tdivFromAbs x.int y.int   -- = Int.ediv/emod, Int.tdiv/tmod (`Props.C17.divmod_mirror`)
      let model := if y.int = 0 then "none" else "ok:" ++ rI qr.1 x.c ++ "," ++ rI qr.2 y.c
      let modelV := if y.int = 0 then "none" else "ok:" ++ hi qr.1 ++ "," ++ hi qr.2
      if vt then classify "divvt-short-numerator-wrong" al "divvt-alias-numerator" modelV (stripCaps rhs)
      else classify op al "int-div-alias" model rhs
    | _, _ => .unsupported "args"
  | "i.neg", [xs] => match parseCV xs with
    | some x => spec op (rI (-x.int) x.c) rhs
    | none => .unsupported "args"
  | "i.abs", [xs] => match parseCV xs with
    | some x => spec op (rI x.int.natAbs x.c) rhs
    | none => .unsupported "args"
  | "i.double", [xs] => match parseCV xs with
    | some x => spec op (rI (2 * x.int) (x.c + 1)) rhs
    | none => .unsupported "args"
  | "i.square", [xs] => match parseCV xs with
    | some x => spec op (rI (x.int * x.int) (2 * x.c)) rhs
    | none => .unsupported "args"
  | "i.incr", [xs] => match parseCV xs with
    | some x => spec op (rI (x.int + 1) (imax x.c 1 + 1)) rhs
    | none => .unsupported "args"
  | "i.decr", [xs] => match parseCV xs with
    | some x => spec op (rI (x.int - 1) (imax x.c 1 + 1)) rhs
    | none => .unsupported "args"
  | "i.gcd", [xs, ys] =>
    match parseCV xs, parseCV ys with
    | some x, some y =>
      let g := Nat.gcd x.int.natAbs y.int.natAbs
      spec op (rI g (imax x.c y.c) ++ "," ++ b01 (g == 1)) rhs
    | _, _ => .unsupported "args"
  | "i.sqrt", [xs] => match parseCV xs with
    | some x =>
      if rhs == "none" then
        if x.int < 0 then .ok else
        match sqrtExact? x.int.toNat with
        | some r => .bad "int-sqrt-missed" ("perfect square, root=" ++ hx r)
        | none => .ok
      else match parseCV (rhs.drop 3).toString with
        | some r => if rhs.startsWith "ok:" ∧ r.v ≥ 0 ∧ r.v * r.v = x.int then .ok else .bad "int-sqrt-wrong" ("root does not square back: " ++ rhs)
        | none => .unsupported "rhs"
    | none => .unsupported "args"
  | "i.cmp", [xs, ys] =>
    match parseCV xs, parseCV ys with
    | some x, some y => spec op (cmpS x.int y.int) rhs
    | _, _ => .unsupported "args"
  | "i.preds", [xs] => match parseCV xs with
    | some x =>
      let v := x.int
      spec op (b01 (v == 0) ++ b01 (v != 0) ++ b01 (v == 1) ++ b01 (v % 2 == 1) ++ b01 (v % 2 == 0) ++ b01 (decide (v < 0)) ++ b01 (v.natAbs == 1)
        ++ "," ++ toString (bitLen v.natAbs) ++ "," ++ toString x.c) rhs
    | none => .unsupported "args"
  | "i.lsh", [xs, ss] | "i.rsh", [xs, ss] =>
    match parseCV xs, ss.toNat? with
    | some x, some sh =>
      let mag := if op == "i.lsh" then x.int.natAbs <<< sh else x.int.natAbs >>> sh
      let c := if op == "i.lsh" then x.c + sh else imax (x.c - sh) 0
      spec op (rI (if x.int < 0 then -(mag : Int) else mag) c) rhs
    | _, _ => .unsupported "args"
  | "i.and", [xs, ys, cs] | "i.or", [xs, ys, cs] | "i.xor", [xs, ys, cs] | "i.not", [xs, ys, cs] =>
    match parseCV xs, parseCV ys, parseCap cs with
    | some x, some y, some cap =>
      let c := cap.getD (if op == "i.not" then x.c else imax x.c y.c)
      let v := if op == "i.not" then -x.int - 1 else intBitwise (natOp (op.drop 2).toString) x.int y.int
      -- the announced length of the result is that of the two's complement buffer (capacity+1 bits, whole bytes)
      spec op (rI v (8 * ceilDiv (c.toNat + 1) 8)) rhs
    | _, _, _ => .unsupported "args"
  | "i.bytes", [xs] => match parseCV xs with
    | some x =>
      let ml := ceilDiv x.c.toNat 8
      let tl := ceilDiv (x.c.toNat + 1) 8
      spec op (bytesHex ((if x.int < 0 then 1 else 0) :: natToBytes x.int.natAbs ml) ++ "," ++ bytesHex (natToBytes (twosEncode x.int tl) tl)) rhs
    | none => .unsupported "args"
  | "i.fromtwos", [bs] => match parseBytes bs with
    | some b => spec op (if b.isEmpty then "reject" else rI (twosDecode (bytesToNat b) b.length) (8 * b.length)) rhs
    | none => .unsupported "args"
  | "i.frombytes", [bs] => match parseBytes bs with
    | some b => -- sign-magnitude: low bit of the first byte is the sign
      match b with
      | [] => spec op "reject" rhs
      | s :: rest => spec op (rI (if s % 2 = 1 then -(bytesToNat rest : Int) else bytesToNat rest) (8 * rest.length)) rhs
    | none => .unsupported "args"
  | "i.int64", [vs] => match hexToInt? vs with
    | some v => spec op (rI v 64 ++ "," ++ rI (v % ((2 ^ 64 : Nat) : Int)) 64) rhs
    | none => .unsupported "args"
  | "i.misc", [ch, xs, ys] =>
    match parseCV xs, parseCV ys with
    | some x, some y =>
      let sel := if ch == "0" then x.int else y.int
      let cn := if ch == "0" then x.int else -x.int
      let inv := if x.int.natAbs = 1 then "ok:" ++ rI x.int (imax x.c 0) else "none"
      spec op (rI sel (imax x.c y.c) ++ "," ++ rI cn x.c ++ "," ++ inv) rhs
    | _, _ => .unsupported "args"
  | "i.randlh", [ls, hs] =>
    match parseCV ls, parseCV hs with
    | some l, some h =>
      if rhs == "err" then (if l.int ≥ h.int then .ok else .bad "randlh-refused" "non-empty range refused")
      else match hexToInt? rhs with
        | some v => if l.int ≤ v ∧ v < h.int then .ok else .bad "randlh-out-of-range" rhs
        | none => .bad "randlh" rhs
    | _, _ => .unsupported "args"
  | "i.prime", [xs] => match parseCV xs with
    | some x => spec "probable-prime" (b01 (decide (x.int ≥ 0) && probablyPrime x.int.toNat)) rhs
    | none => .unsupported "args"
  | "i.zero-sign", [_, _, _] => spec "int-negative-zero" "10,eq" rhs
  | _, _ => .unsupported ("C17 op " ++ op)

def handleMod (op : String) (args : List String) (rhs : String) : Verdict :=
  match op, args with
  | "m.new", [xs] => match parseCV xs with
    | some x =>
      let v := x.nat
      spec op (if v = 0 then "none" else hx v ++ "," ++ toString (bitLen v) ++ "," ++ bytesHex (natToBytes v (ceilDiv (bitLen v) 8)) ++ "," ++ rN v (bitLen v)) rhs
    | none => .unsupported "args"
  | "m.mod", [ms, ss] =>
    match hexToNat? ms, parseCV ss with
    | some m, some s =>
      let bl : Int := bitLen m
      let x := s.int.natAbs
      spec op (rN (x % m) bl ++ "," ++ rN (s.int % (m : Int)).toNat bl ++ "," ++ hi (symMod x m)) rhs
    | _, _ => .unsupported "args"
  | "m.quo", [ms, xs] =>
    match hexToNat? ms, parseCV xs with
    | some m, some x => let bl : Int := bitLen m; spec op (rN (trunc (x.nat / m) bl) bl) rhs
    | _, _ => .unsupported "args"
  | "m.modadd", [al, ms, xs, ys] | "m.modsub", [al, ms, xs, ys] | "m.modmul", [al, ms, xs, ys] | "m.modneg", [al, ms, xs, ys] =>
    match hexToNat? ms, parseCV xs, parseCV ys with
    | some m, some x, some y =>
      let a : Int := x.nat
      let b : Int := y.nat
      let v : Int := if op == "m.modadd" then a + b else if op == "m.modsub" then a - b else if op == "m.modmul" then a * b else -a
      classify op al "modulus-output-alias" (rN (v % (m : Int)).toNat (bitLen m)) rhs
    | _, _, _ => .unsupported "args"
  | "m.modinv", [al, ms, xs] =>
    match hexToNat? ms, parseCV xs with
    | some m, some x =>
      let u := b01 (Nat.gcd x.nat m == 1)
      let model := match invMod x.nat m with
        | some v => "ok:" ++ hx v ++ "," ++ u
        | none => "none," ++ u
      -- modulus 1: documented convention (the inverse is recognised by x·x⁻¹ mod m = 1)
      if m = 1 then mirror model rhs else classify "modinv" al "modinv-alias" model rhs
    | _, _ => .unsupported "args"
  | "m.moddiv", [ms, xs, ys] =>
    match hexToNat? ms, parseCV xs, parseCV ys with
    | some m, some x, some y =>
      match invMod y.nat m with
      | some yi => spec "moddiv" ("ok:" ++ hx (x.nat * yi % m)) rhs
      | none => -- divisor not a unit: "none", or (even moduli) any solution u of y·u ≡ x
        if rhs == "none" then .ok else
        match hexToNat? (rhs.drop 3).toString with
        | some u => if rhs.startsWith "ok:" ∧ u < m ∧ y.nat * u % m = x.nat % m then .ok else .bad "moddiv-non-unit" ("y*u != x: " ++ rhs)
        | none => .bad "moddiv" rhs
    | _, _, _ => .unsupported "args"
  | "m.modexp", [ms, xs, es] | "m.modexpi", [ms, xs, es] =>
    match hexToNat? ms, parseCV xs, parseCV es with
    | some m, some x, some e =>
      match powModI x.nat e.int m with
      | some v => spec "modexp" (hx v) rhs
      | none => .unsupported "negative exponent of a non-unit"
    | _, _, _ => .unsupported "args"
  | "m.multiexp", [ms, xss, es] =>
    match hexToNat? ms, (splitComma xss).mapM parseCV, parseCV es with
    | some m, some xs, some e => spec "modexp" (joinComma (xs.map fun x => hx (powMod x.nat e.nat m))) rhs
    | _, _, _ => .unsupported "args"
  | "m.modsqrt", [ms, xs] =>
    match hexToNat? ms, parseCV xs with
    | some m, some x => sqrtVerdict m x.nat rhs
    | _, _ => .unsupported "args"
  | "m.range", [ms, xs, ss] =>
    match hexToNat? ms, parseCV xs, parseCV ss with
    | some m, some x, some s => spec op (b01 (decide (x.nat < m)) ++ b01 (inRangeSym s.int m) ++ b01 (Nat.gcd x.nat m == 1)) rhs
    | _, _, _ => .unsupported "args"
  | _, _ => .unsupported ("C17 op " ++ op)

def arithModulus (kind : String) (p q : Nat) : Nat := if kind == "opsf" then p * q * (p * q) else p * q

def handleArith (op : String) (args : List String) (rhs : String) : Verdict :=
  match op, args with
  | "ar.modmul", [k, ps, qs, xs, ys] =>
    match hexToNat? ps, hexToNat? qs, parseCV xs, parseCV ys with
    | some p, some q, some x, some y => spec op (hx (x.nat * y.nat % arithModulus k p q)) rhs
    | _, _, _, _ => .unsupported "args"
  | "ar.modexp", [k, ps, qs, xs, es] | "ar.modexpi", [k, ps, qs, xs, es] =>
    match hexToNat? ps, hexToNat? qs, parseCV xs, parseCV es with
    | some p, some q, some x, some e =>
      match powModI x.nat e.int (arithModulus k p q) with
      | some v => spec "crt-modexp" (hx v) rhs
      | none => .unsupported "negative exponent of a non-unit"
    | _, _, _, _ => .unsupported "args"
  | "ar.modinv", [k, ps, qs, xs] =>
    match hexToNat? ps, hexToNat? qs, parseCV xs with
    | some p, some q, some x => spec "crt-modinv" (optS ((invMod x.nat (arithModulus k p q)).map hx)) rhs
    | _, _, _ => .unsupported "args"
  | "ar.moddiv", [k, ps, qs, xs, ys] =>
    match hexToNat? ps, hexToNat? qs, parseCV xs, parseCV ys with
    | some p, some q, some x, some y =>
      let m := arithModulus k p q
      spec "crt-moddiv" (optS ((invMod y.nat m).map fun yi => hx (x.nat * yi % m))) rhs
    | _, _, _, _ => .unsupported "args"
  | "ar.multiexp", [k, ps, qs, xss, es] =>
    match hexToNat? ps, hexToNat? qs, (splitComma xss).mapM parseCV, parseCV es with
    | some p, some q, some xs, some e => spec "crt-modexp" (joinComma (xs.map fun x => hx (powMod x.nat e.nat (arithModulus k p q)))) rhs
    | _, _, _, _ => .unsupported "args"
  | "ar.exptoN", [ps, qs, xs] =>
    match hexToNat? ps, hexToNat? qs, parseCV xs with
    | some p, some q, some x => spec "crt-modexp" (hx (powMod x.nat (p * q) (p * q * (p * q)))) rhs
    | _, _, _ => .unsupported "args"
  | "crt.recombine", [ps, qs, as, bs] =>
    match hexToNat? ps, hexToNat? qs, hexToNat? as, hexToNat? bs with
    | some p, some q, some a, some b =>
      match crt2 a b p q with
      | some v => -- the unique solution below p*q, independently of the formula
        if v < p * q ∧ v % p = a % p ∧ v % q = b % q then spec "crt-recombine" (hx v) rhs else .unsupported "model crt"
      | none => spec "crt-recombine" "none" rhs
    | _, _, _, _ => .unsupported "args"
  | "crt.multi", [mss, rss] =>
    match parseNatList? mss, parseNatList? rss with
    | some ms, some rs =>
      match crtList (rs.zip ms) with
      | some (v, n) => if (rs.zip ms).all (fun (r, m) => v % m == r % m) ∧ v < n then spec "crt-recombine" (hx v) rhs else .unsupported "model crt"
      | none => spec "crt-recombine" "none" rhs
    | _, _ => .unsupported "args"
  | "crt.precompute", [ps, qs] =>
    match hexToNat? ps, hexToNat? qs with
    | some p, some q => spec "crt-precompute" (b01 (Nat.gcd p q == 1)) rhs
    | _, _ => .unsupported "args"
  | _, _ => .unsupported ("C17 op " ++ op)

def handleNum (op : String) (args : List String) (rhs : String) : Verdict :=
  match op, args with
  | "N.arith", [as, bs] =>
    match hexToNat? as, hexToNat? bs with
    | some a, some b =>
      spec op (joinComma [hx (a + b), hx (a * b), (if a < b then "none" else "ok:" ++ hx (a - b)), hx (2 * a), hx (a * a), hx (a + 1),
        (if a = 0 then "none" else "ok:" ++ hx (a - 1)), ordS a b ++ b01 (decide (a ≤ b)) ++ b01 (a == b)]) rhs
    | _, _ => .unsupported "args"
  | "N.div", [as, bs] =>
    match hexToNat? as, hexToNat? bs with
    | some a, some b =>
      let exact := if b = 0 then "none" else if a % b = 0 then "ok:" ++ hx (a / b) else "none"
      let round := if b = 0 then "none" else "ok:" ++ hx (a / b)
      let ed := if b = 0 then "none" else "ok:" ++ hx (a / b) ++ ":" ++ hx (a % b)
      spec op (joinComma [exact, exact, round, round, ed]) rhs
    | _, _ => .unsupported "args"
  | "N.edivvt", [as, bs] =>
    match hexToNat? as, hexToNat? bs with
    | some a, some b =>
      classify "divvt-short-numerator-wrong" "a0" "" (if b = 0 then "none" else "ok:" ++ hx (a / b) ++ ":" ++ hx (a % b)) rhs
    | _, _ => .unsupported "args"
  | "N.misc", [as, bs, ms, ss] =>
    match hexToNat? as, hexToNat? bs, hexToNat? ms, ss.toNat? with
    | some a, some b, some m, some sh =>
      spec op (joinComma [hx (Nat.gcd a b), b01 (Nat.gcd a b == 1), optS ((sqrtExact? a).map hx), hx (a <<< sh), hx (a >>> sh), hx (a % m), b01 (Nat.gcd a m == 1),
        b01 (a == 0) ++ b01 (a == 1) ++ b01 (a % 2 == 0) ++ b01 (a % 2 == 1) ++ b01 (a != 0), toString (bitLen a), toString ((a >>> sh) % 2),
        bytesHex (natToBytes a (ceilDiv (max (bitLen a) 1) 8))]) rhs
    | _, _, _, _ => .unsupported "args"
  | "Z.arith", [as, bs] =>
    match hexToInt? as, hexToInt? bs with
    | some a, some b =>
      spec op (joinComma [hi (a + b), hi (a - b), hi (a * b), hi (-a), hx a.natAbs, hi (2 * a), hi (a * a), hi (a + 1), hi (a - 1),
        (if a.natAbs = 1 then "ok:" ++ hi a else "none"),
        ordS a b ++ b01 (decide (a ≤ b)) ++ b01 (a == b) ++ b01 (decide (a < 0)) ++ b01 (decide (a > 0)) ++ b01 (a == 0) ++ b01 (a == 1) ++ b01 (a % 2 == 0) ++ b01 (Nat.gcd a.natAbs b.natAbs == 1)]) rhs
    | _, _ => .unsupported "args"
  | "Z.div", [as, bs] | "Z.divvt", [as, bs] =>
    match hexToInt? as, hexToInt? bs with
    | some a, some b =>
      let t := tdivFromAbs a b
      let e := edivFromAbs a b
      let exact := if b = 0 then "none" else if t.2 = 0 then "ok:" ++ hi t.1 else "none"
      let round := if b = 0 then "none" else "ok:" ++ hi t.1
      let ed := if b = 0 then "none" else "ok:" ++ hi e.1 ++ ":" ++ hi e.2
      if op == "Z.div" then spec op (joinComma [exact, round, ed]) rhs
      else classify "divvt-short-numerator-wrong" "a0" "" (joinComma [exact, round, ed]) rhs
    | _, _ => .unsupported "args"
  | "Z.misc", [as, ms, ss] =>
    match hexToInt? as, hexToNat? ms, ss.toNat? with
    | some a, some m, some sh =>
      let bl := max (bitLen a.natAbs) 1  -- num.Int announces at least one bit
      let ml := ceilDiv bl 8
      let tl := ceilDiv (bl + 1) 8
      let sg (n : Nat) : Int := if a < 0 then -(n : Int) else n
      spec op (joinComma [hx (a % (m : Int)).toNat, b01 (decide (0 ≤ a) && decide (a < m)) ++ b01 (inRangeSym a m) ++ b01 (unit a m),
        hi (sg (a.natAbs <<< sh)), hi (sg (a.natAbs >>> sh)),
        bytesHex ((if a < 0 then 1 else 0) :: natToBytes a.natAbs ml), bytesHex (natToBytes a.natAbs ml), bytesHex (natToBytes (twosEncode a tl) tl)]) rhs
    | _, _, _ => .unsupported "args"
  | "Q.arith", [xs, ys] =>
    match parseRat xs, parseRat ys with
    | some (an, ad), some (bn, bd) =>
      let a : Int := ad
      let b : Int := bd
      let div := if bn = 0 then "none" else "ok:" ++ ratS (if bn < 0 then -(an * b) else an * b) (ad * bn.natAbs)
      let inv := if an = 0 then "none" else "ok:" ++ ratS (if an < 0 then -a else a) an.natAbs
      let fl := ratFloor an ad
      let ce := ratCeil an ad
      spec op (joinComma [ratS (an * b + bn * a) (ad * bd), ratS (an * b - bn * a) (ad * bd), ratS (an * bn) (ad * bd), div, inv, ratS (-an) ad, ratCanon an ad,
        "ok:" ++ hi ce, "ok:" ++ hi fl,
        b01 (decide (an * b ≤ bn * a)) ++ b01 (an * b == bn * a) ++ b01 (an % a == 0) ++ b01 (an == 0) ++ b01 (an == a) ++ b01 (decide (an < 0)) ++ b01 (decide (an > 0))]) rhs
    | _, _ => .unsupported "args"
  | "Zn.arith", [ms, as, bs, es, ss, bitss] =>
    match hexToNat? ms, hexToNat? as, hexToNat? bs, hexToInt? es, ss.toNat?, bitss.toNat? with
    | some m, some a0, some b0, some e, some sh, some bits =>
      let a := a0 % m
      let b := b0 % m
      let mi : Int := m
      let inv := invMod a m
      let unitA := Nat.gcd a m == 1
      match powModI a e m with
      | none => .unsupported "negative exponent of a non-unit"
      | some pe =>
        let fields := [hx a, hx ((a + b) % m), hx (((a : Int) - b) % mi).toNat, hx (a * b % m), hx ((-(a : Int)) % mi).toNat, hx (2 * a % m), hx (a * a % m),
          hx ((a + 1) % m), hx (((a : Int) - 1) % mi).toNat, hx (powMod a e.natAbs m), hx pe, hx (powMod a (e.natAbs % 2 ^ bits) m),
          (if unitA then optS (inv.map hx) else "none"),
          (match invMod b m with
            | some bi => "ok:" ++ hx (a * bi % m)
            | none => "?"),
          b01 unitA ++ b01 (a == 0) ++ b01 (a == 1) ++ b01 (a == b) ++ b01 (decide (a ≤ b)),
          hx ((a <<< sh) % m), hx ((a >>> sh) % m), hx a]
        -- modulus 1 and divisions by non-units follow the ModInv/ModDiv conventions checked on the m.* lines
        let got := splitComma rhs
        if got.length ≠ fields.length then .bad "Zn.arith" ("field count: " ++ rhs) else
        let bad := (fields.zip got).zipIdx.filter fun ((f, g), i) => f != g && !(i == 13 && f == "?") && !(m == 1 && (i == 12 || i == 13))
        if bad.isEmpty then .ok else .bad "Zn.arith" ("expected=" ++ joinComma fields ++ " observed=" ++ rhs)
    | _, _, _, _, _, _ => .unsupported "args"
  | "Zn.sqrt", [ms, as] =>
    match hexToNat? ms, hexToNat? as with
    | some m, some a => sqrtVerdict m a rhs
    | _, _ => .unsupported "args"
  | _, _ => .unsupported ("C17 op " ++ op)

def cardParse (s : String) : Option (Option (Option Nat)) :=   -- some none = unknown, some (some none) = infinite
  if s == "unk" then some none else if s == "inf" then some (some none) else (hexToNat? s).map fun n => some (some n)

def handleMisc (op : String) (args : List String) (rhs : String) : Verdict :=
  match op, args with
  | "jacobi", [xs, ys] =>
    match hexToInt? xs, hexToNat? ys with
    | some x, some y =>
      let model := match jacobiChecked x y with
        | none => "reject"
        | some j => toString j
      if model == rhs then .ok
      else if x < 0 then .bad "jacobi-negative-numerator" ("expected=" ++ model ++ " observed=" ++ rhs)
      else .bad "jacobi" ("expected=" ++ model ++ " observed=" ++ rhs)
    | _, _ => .unsupported "args"
  | "zn.unit", [known, ps, qs, as, bs, es] =>
    match hexToNat? ps, hexToNat? qs, hexToNat? as, hexToNat? bs, hexToInt? es with
    | some p, some q, some a0, some b0, some e =>
      let n := p * q
      let a := a0 % n
      let b := b0 % n
      let ua := Nat.gcd a n == 1
      let ub := Nat.gcd b n == 1
      if !(ua && ub) then spec "unit-membership" ("notunit:" ++ b01 (!ua) ++ b01 (!ub)) rhs else
      match invMod a n, invMod b n, powModI a e n with
      | some ai, some bi, some pe =>
        let qr := if known == "1" then b01 (isQR a p && isQR a q) else "na"
        spec "unit-group" (joinComma [hx (a * b % n), hx ai, hx (a * bi % n), hx (a * a % n), hx pe, hx (powMod a e.natAbs n), toString (jacobi a n), qr]) rhs
      | _, _, _ => .unsupported "model inverse"
    | _, _, _, _, _ => .unsupported "args"
  | "card", [as, bs] =>
    match cardParse as, cardParse bs with
    | some a, some b =>
      let r (c : Option (Option Nat)) : String := match c with
        | none => "unk" | some none => "inf" | some (some n) => hx n
      let add : Option (Option Nat) := match a, b with
        | none, _ => none | _, none => none
        | some none, _ => some none | _, some none => some none
        | some (some x), some (some y) => some (some (x + y))
      let mul : Option (Option Nat) := match a, b with
        | none, _ => none | _, none => none
        | some none, _ => some none | _, some none => some none
        | some (some x), some (some y) => some (some (x * y))
      -- only the finite/finite fields are compared as specification; mixed cases mirror the documented absorbing rules
      match a, b with
      | some (some x), some (some y) =>
        spec op (joinComma [r add, r mul, hx (x - y), b01 (decide (x ≤ y)) ++ b01 (x == y) ++ b01 (x == 0), toString (8 * ceilDiv (bitLen x) 8)]) rhs
      | _, _ => .ok
    | _, _ => .unsupported "args"
  | _, _ =>
    if op.startsWith "prime." then
      match args, hexToNat? rhs with
      | [bs], some p =>
        match bs.toNat? with
        | some bits =>
          match primeForm (op.drop 6).toString bits p with
          | none => .ok
          | some "bitlen" => .bad (if op == "prime.blum" then "blum-prime-bitlen" else "prime-bitlen") ("requested " ++ bs ++ " bits, got " ++ toString (bitLen p))
          | some why => .bad ("prime-" ++ why) rhs
        | none => .unsupported "args"
      | _, _ => .bad "prime-generation-failed" rhs
    else if op.startsWith "primepair." then
      match args, parseNatList? rhs with
      | [bs], some [p, q] =>
        match bs.toNat? with
        | some bits =>
          let kind := (op.drop 10).toString
          match primeForm kind (bits / 2) p, primeForm kind (bits / 2) q with
          | none, none => if p = q then .bad "primepair-equal" rhs else if bitLen (p * q) ≠ bits then .bad "primepair-product-bitlen" rhs else .ok
          | some why, _ => .bad ("primepair-" ++ why) rhs
          | _, some why => .bad ("primepair-" ++ why) rhs
        | none => .unsupported "args"
      | _, _ => .bad "prime-generation-failed" rhs
    else .unsupported ("C17 op " ++ op)

def handle (op : String) (args : List String) (rhs : String) : Verdict :=
  if op.startsWith "n." then handleNat op args rhs
  else if op.startsWith "i." then handleInt op args rhs
  else if op.startsWith "m." then handleMod op args rhs
  else if op.startsWith "ar." || op.startsWith "crt." then handleArith op args rhs
  else if op.startsWith "N." || op.startsWith "Z." || op.startsWith "Q." || op.startsWith "Zn." then handleNum op args rhs
  else handleMisc op args rhs

end BronVerif.Drive.C17
