import BronVerif.Drive.Common
import BronVerif.Model.LinAlg
import BronVerif.Model.Poly
import BronVerif.Model.Curves
/-! Driver handlers for the polynomial / interpolation / module-valued-matrix half of C20. -/
namespace BronVerif.Drive.C20Poly
open BronVerif BronVerif.Drive BronVerif.LinAlg BronVerif.Poly

/-- curve points of the runtime curve `C` as a type carrying the notation classes of the models -/
structure CPt (C : Curves.Params) where
  pt : Curves.Pt
deriving DecidableEq

instance {C : Curves.Params} : Add (CPt C) := ⟨fun a b => ⟨Curves.add C a.pt b.pt⟩⟩
instance {C : Curves.Params} : OfNat (CPt C) 0 := ⟨⟨Curves.zero C⟩⟩
instance {C : Curves.Params} {n : Nat} : HSMul (Fp n) (CPt C) (CPt C) :=
  ⟨fun k P => ⟨Curves.smul C k.val P.pt⟩⟩

def renderPts {C : Curves.Params} (ps : List (CPt C)) : String :=
  joinComma (ps.map fun P => Curves.render C P.pt)

def parsePts? (C : Curves.Params) (s : String) : Option (List (CPt C)) :=
  (Curves.parseList? C s).map fun l => l.map fun P => ⟨P⟩

def parsePt? (C : Curves.Params) (s : String) : Option (CPt C) := (Curves.parse? C s).map fun P => ⟨P⟩

def parseMat {p : Nat} [NeZero p] (rows cols : Nat) (s : String) : Option (Mat (Fp p)) := do
  let xs ← parseNatList? s
  if xs.length ≠ rows * cols then none
  if cols = 0 then return List.replicate rows []
  return chunk (fpList xs) cols

def parseGMat (C : Curves.Params) (rows cols : Nat) (s : String) : Option (List (List (CPt C))) := do
  let xs ← parsePts? C s
  if xs.length ≠ rows * cols then none
  if cols = 0 then return List.replicate rows []
  return chunk xs cols

def renderMat {p : Nat} (m : Mat (Fp p)) : String := joinComma (m.flatten.map Fp.toHex)

/-- an `ok` model value is what the property demands (`spec`); a model error class only mirrors the
implementation's choice of how to refuse inputs outside the property's domain (`mirror`) -/
def judge (key : String) (model : Except String String) (rhs : String) : Verdict :=
  match model with
  | .ok v => spec key v rhs
  | .error e => mirror e rhs

def nodupF {p : Nat} (xs : List (Fp p)) : Bool := xs.eraseDups.length == xs.length

def trimF {p : Nat} [NeZero p] (cs : List (Fp p)) : List (Fp p) := Poly.trim cs

/-- the same polynomial: equal after dropping trailing zeros -/
def samePoly {p : Nat} [NeZero p] (a b : List (Fp p)) : Bool := trimF a == trimF b

def withCurve (cn : String) (f : (C : Curves.Params) → (q : Nat) → [NeZero q] → Verdict) : Verdict :=
  match Curves.byName? cn with
  | none => .unsupported ("curve " ++ cn)
  | some C => withPrime C.n (.unsupported "n=0") fun q => f C q

def handle (op : String) (args : List String) (rhs : String) : Verdict :=
  match op, args with
  | "polyEval", [ps, cs, xs] =>
    match hexToNat? ps, parseNatList? cs, hexToNat? xs with
    | some p, some c, some x => withPrime p (.unsupported "p=0") fun q =>
      spec "polyEval" (Poly.eval (fpList (p := q) c) (Fp.ofNat q x)).toHex rhs
    | _, _, _ => .unsupported "args"
  | "polyDeriv", [ps, cs] =>
    match hexToNat? ps, parseNatList? cs, parseNatList? rhs with
    | some p, some c, some r => withPrime p (.unsupported "p=0") fun q =>
      let model := Poly.deriv (fpList (p := q) c)
      if !samePoly model (fpList r) then .bad "polyDeriv" ("expected=" ++ fpHexList model ++ " observed=" ++ rhs)
      else mirror (fpHexList model) rhs
    | _, _, _ => .unsupported "args"
  | "polyAdd", [ps, as, bs] =>
    match hexToNat? ps, parseNatList? as, parseNatList? bs with
    | some p, some a, some b => withPrime p (.unsupported "p=0") fun q =>
      spec "polyAdd" (fpHexList (Poly.add (fpList (p := q) a) (fpList b))) rhs
    | _, _, _ => .unsupported "args"
  | "polyScalarMul", [ps, as, ss] =>
    match hexToNat? ps, parseNatList? as, hexToNat? ss with
    | some p, some a, some s => withPrime p (.unsupported "p=0") fun q =>
      spec "polyScalarMul" (fpHexList (Poly.smul (fpList (p := q) a) (Fp.ofNat q s))) rhs
    | _, _, _ => .unsupported "args"
  | "polyMul", [ps, as, bs] =>
    match hexToNat? ps, parseNatList? as, parseNatList? bs with
    | some p, some a, some b => withPrime p (.unsupported "p=0") fun q =>
      spec "polyMul" (fpHexList (Poly.mulPoly (fpList (p := q) a) (fpList b))) rhs
    | _, _, _ => .unsupported "args"
  | "lagrangeBasisAt", [ps, ns, xs] =>
    match hexToNat? ps, parseNatList? ns, hexToNat? xs with
    | some p, some n, some x => withPrime p (.unsupported "p=0") fun q =>
      let model : Except String String := match Poly.basisAt (fpList (p := q) n) (Fp.ofNat q x) with
        | none => .error "err:div0"
        | some b => .ok (if n.isEmpty then "0" else fpHexList b)   -- `PolynomialRing.New()` of no terms is `[0]`
      judge "lagrangeBasisAt" model rhs
    | _, _, _ => .unsupported "args"
  | "lagrangeAt", [ps, ns, vs, xs] =>
    match hexToNat? ps, parseNatList? ns, parseNatList? vs, hexToNat? xs with
    | some p, some n, some v, some x => withPrime p (.unsupported "p=0") fun q =>
      judge "lagrangeAt" ((Poly.interpolateAt (fpList (p := q) n) (fpList v) (Fp.ofNat q x)).map Fp.toHex) rhs
    | _, _, _, _ => .unsupported "args"
  | "vanderMatrix", [ps, ns, cs] =>
    match hexToNat? ps, parseNatList? ns, cs.toNat? with
    | some p, some n, some c => withPrime p (.unsupported "p=0") fun q =>
      judge "vanderMatrix" ((Poly.vandermondeMatrix (fpList (p := q) n) c).map renderMat) rhs
    | _, _, _ => .unsupported "args"
  | "vanderInterp", [ps, ns, vs] =>
    match hexToNat? ps, parseNatList? ns, parseNatList? vs with
    | some p, some n, some v => withPrime p (.unsupported "p=0") fun q =>
      let nq : List (Fp q) := fpList n
      let vq : List (Fp q) := fpList v
      let model := (Poly.vandermondeInterpolate nq vq).map fpHexList
      if nodupF nq then
        -- distinct nodes: the interpolating polynomial of degree < n is unique
        match parseNatList? rhs with
        | some r =>
          let rq : List (Fp q) := fpList r
          if nq.length = vq.length ∧ (rq.length ≠ nq.length ∨ nq.map (Poly.eval rq) ≠ vq) then
            .bad "vanderInterp-wrong" ("does not interpolate; model=" ++ (match model with | .ok s => s | .error e => e))
          else judge "vanderInterp" model rhs
        | none => judge "vanderInterp" model rhs
      else
        match model with
        | .ok s => mirror s rhs
        | .error e => mirror e rhs
    | _, _, _ => .unsupported "args"
  | "birkhoffMatrix", [ps, xs, js, cs] =>
    match hexToNat? ps, parseNatList? xs, parseDecList? js, cs.toNat? with
    | some p, some x, some j, some c => withPrime p (.unsupported "p=0") fun q =>
      spec "birkhoffMatrix" (renderMat (Poly.birkhoffMatrix (fpList (p := q) x) j c)) rhs
    | _, _, _, _ => .unsupported "args"
  | "birkhoffInterp", [ps, xs, js, ys] =>
    match hexToNat? ps, parseNatList? xs, parseDecList? js, parseNatList? ys with
    | some p, some x, some j, some y => withPrime p (.unsupported "p=0") fun q =>
      let xq : List (Fp q) := fpList x
      let yq : List (Fp q) := fpList y
      let model := (Poly.birkhoffInterpolate det Fp.val xq j yq).map fpHexList
      match parseNatList? rhs with
      | some r =>
        -- model-side oracle on the implementation's answer: every derivative constraint holds
        let rq : List (Fp q) := fpList r
        let okAll := (List.zip xq (List.zip j yq)).all fun n => Poly.eval (Poly.iterDeriv n.2.1 rq) n.1 == n.2.2
        if xq.length = j.length ∧ xq.length = yq.length ∧ (rq.length ≠ xq.length ∨ !okAll) then
          .bad "birkhoffInterp-wrong" ("a derivative constraint fails; model=" ++ (match model with | .ok s => s | .error e => e))
        else judge "birkhoffInterp" model rhs
      | none => judge "birkhoffInterp" model rhs
    | _, _, _, _ => .unsupported "args"
  | "transpose", [ps, rs, cs, ms] =>
    match hexToNat? ps, rs.toNat?, cs.toNat? with
    | some p, some r, some c => withPrime p (.unsupported "p=0") fun q =>
      match parseMat (p := q) r c ms with
      | none => .unsupported "matrix"
      | some m => spec "transpose" (renderMat (transpose m)) rhs
    | _, _, _ => .unsupported "args"
  | "dot", [ps, ras, cas, as, rbs, cbs, bs] =>
    match hexToNat? ps, ras.toNat?, cas.toNat?, parseNatList? as, rbs.toNat?, cbs.toNat?, parseNatList? bs with
    | some p, some ra, some ca, some a, some rb, some cb, some b => withPrime p (.unsupported "p=0") fun q =>
      judge "dot" ((Poly.dotProduct ra ca (fpList (p := q) a) rb cb (fpList b)).map Fp.toHex) rhs
    | _, _, _, _, _, _, _ => .unsupported "args"
  -- in the exponent
  | "polyEvalExp", [cn, cs, xs] => withCurve cn fun C q =>
    match parsePts? C cs, hexToNat? xs with
    | some c, some x => spec "polyEvalExp" (Curves.render C (Poly.evalG c (Fp.ofNat q x)).pt) rhs
    | _, _ => .unsupported "args"
  | "polyDerivExp", [cn, cs] => withCurve cn fun C _ =>
    match parsePts? C cs with
    | some c => spec "polyDerivExp" (renderPts (Poly.derivG c)) rhs
    | _ => .unsupported "args"
  | "liftPoly", [cn, cs, gs] => withCurve cn fun C q =>
    match parseNatList? cs, parsePt? C gs with
    | some c, some g => spec "liftPoly" (renderPts (Poly.liftPoly (fpList (p := q) c) g)) rhs
    | _, _ => .unsupported "args"
  | "lagrangeExpAt", [cn, ns, vs, xs] => withCurve cn fun C q =>
    match parseNatList? ns, parsePts? C vs, hexToNat? xs with
    | some n, some v, some x =>
      judge "lagrangeExpAt" ((Poly.interpolateExpAt (fpList (p := q) n) v (Fp.ofNat q x)).map fun P => Curves.render C P.pt) rhs
    | _, _, _ => .unsupported "args"
  | "birkhoffExp", [cn, xs, js, ys] => withCurve cn fun C q =>
    match parseNatList? xs, parseDecList? js, parsePts? C ys with
    | some x, some j, some y =>
      judge "birkhoffExp" ((Poly.birkhoffExpInterpolate det Fp.val (fpList (p := q) x) j y).map renderPts) rhs
    | _, _, _ => .unsupported "args"
  | "lift", [cn, rs, cs, ms, gs] => withCurve cn fun C q =>
    match rs.toNat?, cs.toNat?, parsePt? C gs with
    | some r, some c, some g =>
      match parseMat (p := q) r c ms with
      | none => .unsupported "matrix"
      | some m => spec "lift" (renderPts (lift m g).flatten) rhs
    | _, _, _ => .unsupported "args"
  | "leftAction", [cn, ms, ks, as, k2s, ns, xs] => withCurve cn fun C q =>
    match ms.toNat?, ks.toNat?, k2s.toNat?, ns.toNat? with
    | some m, some k, some k2, some n =>
      match parseMat (p := q) m k as, parseGMat C k2 n xs with
      | some a, some x =>
        if k ≠ k2 then mirror "err:dim" rhs
        else spec "leftAction" (renderPts (leftAction a x).flatten) rhs
      | _, _ => .unsupported "matrix"
    | _, _, _, _ => .unsupported "args"
  | "rightAction", [cn, ms, ks, xs, k2s, ns, as] => withCurve cn fun C q =>
    match ms.toNat?, ks.toNat?, k2s.toNat?, ns.toNat? with
    | some m, some k, some k2, some n =>
      match parseGMat C m k xs, parseMat (p := q) k2 n as with
      | some x, some a =>
        if k ≠ k2 then mirror "err:dim" rhs
        else spec "rightAction" (renderPts (rightAction x a).flatten) rhs
      | _, _ => .unsupported "matrix"
    | _, _, _, _ => .unsupported "args"
  | _, _ => .unsupported ("C20 op " ++ op)

end BronVerif.Drive.C20Poly
