import BronVerif.Drive.Common
/-! Driver handlers for C16. -/
namespace BronVerif.Drive.C16
open BronVerif BronVerif.Drive

def handle (op : String) (_args : List String) (_rhs : String) : Verdict :=
  .unsupported ("C16 op " ++ op)

end BronVerif.Drive.C16
