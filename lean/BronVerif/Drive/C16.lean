import BronVerif.Drive.Common
import BronVerif.Model.Paillier
import BronVerif.Model.ElGamal
import BronVerif.Model.Curves
/-!
Driver handlers for C16 (Paillier / ElGamal: decryption and exact homomorphisms).

Every verdict is decided by the textbook model of `Model/Paillier.lean` (`enc N m r =
(1+N)^m · r^N mod N²` on GMP naturals, λ-based decryption, the group/plaintext/nonce algebra) and
of `Model/ElGamal.lean` instantiated with the curve arithmetic of `Model/Curves.lean`.

The secret-key mirrors of the model (`decCRT`, `openCRT`, `encSk`, `noiseSk`, `ctScalarSk`,
`invModSk`, `rerandSk`, `nonceScalarSk`, `nonceMulSk` — the definitions `Props/C16.lean` proves
equal to the textbook ones) are evaluated next to the textbook value on every `dec`, `open` and
`skops` line; a disagreement there is a broken model (`UNSUPPORTED`), never a pass.

`spec` is used where the property fixes the value (textbook ciphertext, decrypted plaintext,
homomorphic images, membership decisions); `mirror` where the model only follows an implementation
choice (reduction of over-long constructor inputs, error class names, order of validation).
-/
namespace BronVerif.Drive.C16
open BronVerif BronVerif.Drive BronVerif.Paillier

def okNat (n : Nat) : String := "ok:" ++ natToHex n
def okList (xs : List Nat) : String := "ok:" ++ joinComma (xs.map natToHex)

/-- accept/reject disagreements violate the property; differing error classes only break the mirror -/
def specClass (key model rhs : String) : Verdict :=
  if model == rhs then .ok
  else if model.startsWith "ok" != rhs.startsWith "ok" then
    .bad key ("expected=" ++ model ++ " observed=" ++ rhs)
  else if model.startsWith "ok" then .bad key ("expected=" ++ model ++ " observed=" ++ rhs)
  else .diff model

/-- the precondition of a homomorphic step: `(m, r, c)` is a valid encryption triple of the model -/
def validTriple (N m r c : Nat) : Bool := isPt N m && isNonce N r && enc N m r == c

/-- one homomorphic step on a tracked triple; returns the model's `(c', m', r')` -/
def homStep (N : Nat) (kind : String) (m r c : Nat) (operands : List String) : Option (Nat × Nat × Nat) :=
  match kind, operands with
  | "op", [ms, rs, cs] => do
    let ms ← parseNatList? ms
    let rs ← parseNatList? rs
    let cs ← parseNatList? cs
    if ms.length ≠ rs.length ∨ ms.length ≠ cs.length ∨ ms.isEmpty then none
    if !(List.zip ms (List.zip rs cs)).all (fun (m, r, c) => validTriple N m r c) then none
    some (ctProd N (c :: cs), ptSum N (m :: ms), nonceProd N (r :: rs))
  | "inv", [] => some (ctInv N c, ptNeg N m, nonceInv N r)
  | "scal", [ks] => do
    let k ← hexToInt? ks
    some (ctScalar N c k, ptScalar N m k, nonceScalar N r k)
  | "shift", [ds] => do
    let d ← hexToNat? ds
    if !isPt N d then none
    some (shift N c d, ptAdd N m d, r)
  | "rerand", [ss] => do
    let s ← hexToNat? ss
    if !isNonce N s then none
    some (rerand N c s, m, nonceMul N r s)
  | _, _ => none

/-- structural key checks decidable without a primality certificate; `none` = well-formed -/
def keyDefect (flavour : String) (bits p q : Nat) : Option String :=
  let N := p * q
  if p == q then some "p=q"
  else if bitLen p != bitLen q then some "lengths-differ"
  else if bitLen N != bits then some "modulus-length"
  else if !probablyPrime p || !probablyPrime q then some "composite-factor"
  else if Nat.gcd N ((p - 1) * (q - 1)) != 1 then some "gcd(N,phi)!=1"
  else if flavour == "blum" && (p % 4 != 3 || q % 4 != 3) then some "not-blum"
  else if flavour == "safe" && (!probablyPrime ((p - 1) / 2) || !probablyPrime ((q - 1) / 2)) then some "not-safe"
  else none

/-- mirror of `znstar.NewPaillierGroup` + `newSecretKey` validation order -/
def newKeyModel (floor p q : Nat) : String :=
  if bitLen p != bitLen q then "err:value"
  else if !probablyPrime p || !probablyPrime q then "err:value"
  else if p == q || p % 2 == 0 || q % 2 == 0 then "err:zfailed"
  else if bitLen (p * q) < floor then "err:failed"
  else okNat (p * q)

/-! ### ElGamal over the model curves -/
section elgamal
open BronVerif.Curves

def egOps (C : Params) : ElGamal.Ops Pt :=
  { mul := add C, inv := neg C, pow := fun P k => smul C k P }

def renderPair (C : Params) (c : Pt × Pt) : String := render C c.1 ++ "," ++ render C c.2

def egHom (C : Params) (a : Nat) (path kind : String) (M : Pt) (r : Nat) (c : Pt × Pt)
    (operands : List String) : Option ((Pt × Pt) × Pt × Nat) :=
  let o := egOps C
  let g := gen C
  let h := ElGamal.pub o g a
  match kind, operands with
  | "op", [m2s, r2s, c2as, c2bs] => do
    -- one or several further operands (comma lists of equal length), each a valid encryption
    let Ms ← (m2s.splitOn ",").mapM (parse? C)
    let rs ← (r2s.splitOn ",").mapM hexToNat?
    let cas ← (c2as.splitOn ",").mapM (parse? C)
    let cbs ← (c2bs.splitOn ",").mapM (parse? C)
    if Ms.isEmpty || Ms.length ≠ rs.length || Ms.length ≠ cas.length || Ms.length ≠ cbs.length then none
    let cs := List.zip cas cbs
    if !(List.zip Ms (List.zip rs cs)).all (fun (Mi, ri, ci) => ElGamal.enc o g h Mi ri == ci) then none
    some (cs.foldl (ElGamal.ctOp o) c, Ms.foldl (add C) M, (rs.foldl (· + ·) r) % C.n)
  | "inv", [] => some (ElGamal.ctInv o c, neg C M, (C.n - r % C.n) % C.n)
  | "scal", [ks] => do
    let k ← hexToNat? ks
    some (ElGamal.ctScalar o c k, smul C k M, r * k % C.n)
  | "shift", [ds] => do
    let D ← parse? C ds
    some (ElGamal.shift o c D, add C M D, r)
  | "rerand", [ss] => do
    let s ← hexToNat? ss
    let c' := if path == "sk" then ElGamal.rerandSk o g C.n a c s else ElGamal.rerand o g h c s
    some (c', M, (r + s) % C.n)
  | _, _ => none

def handleElGamal (op : String) (args : List String) (rhs : String) : Verdict :=
  match op, args with
  | "eg-key", [cn, as] =>
    match byName? cn, hexToNat? as with
    | some C, some a =>
      let model := if a % C.n == 0 || a % C.n == 1 then "err:failed"
        else "ok:" ++ render C (ElGamal.pub (egOps C) (gen C) a)
      specClass "elgamal-key" model rhs
    | _, _ => .unsupported "eg-key args"
  | "eg-enc", [path, cn, as, ms, rs] =>
    match byName? cn, hexToNat? as, hexToNat? rs with
    | some C, some a, some r =>
      match parse? C ms with
      | none => .unsupported "eg-enc point"
      | some M =>
        if path != "pk" && path != "sk" then .unsupported "eg-enc path" else
        if !onCurve C M then .unsupported "eg-enc plaintext not on curve" else
        let o := egOps C
        let c := ElGamal.enc o (gen C) (ElGamal.pub o (gen C) a) M r
        spec "elgamal-enc" ("ok:" ++ renderPair C c) rhs
    | _, _, _ => .unsupported "eg-enc args"
  | "eg-dec", [cn, as, c1s, c2s] =>
    match byName? cn, hexToNat? as with
    | some C, some a =>
      match parse? C c1s, parse? C c2s with
      | some c1, some c2 => spec "elgamal-dec" ("ok:" ++ render C (ElGamal.dec (egOps C) a (c1, c2))) rhs
      | _, _ => .unsupported "eg-dec points"
    | _, _ => .unsupported "eg-dec args"
  | "eg-hom", path :: cn :: as :: kind :: ms :: rs :: c1s :: c2s :: operands =>
    match byName? cn, hexToNat? as, hexToNat? rs with
    | some C, some a, some r =>
      match parse? C ms, parse? C c1s, parse? C c2s with
      | some M, some c1, some c2 =>
        let o := egOps C
        let h := ElGamal.pub o (gen C) a
        if ElGamal.enc o (gen C) h M r != (c1, c2) then .unsupported "eg-hom precondition" else
        match egHom C a path kind M r (c1, c2) operands with
        | none => .unsupported ("eg-hom operands " ++ kind)
        | some (c', M', r') =>
          -- the homomorphism itself, evaluated on the model: the image is the encryption of (M', r')
          if ElGamal.enc o (gen C) h M' r' != c' then
            .unsupported ("eg-hom model homomorphism " ++ kind)
          else if ElGamal.dec o a c' != M' then .unsupported ("eg-hom model dec " ++ kind)
          else spec ("elgamal-hom-" ++ kind)
            ("ok:" ++ renderPair C c' ++ "," ++ render C M' ++ "," ++ natToHex r') rhs
      | _, _, _ => .unsupported "eg-hom points"
    | _, _, _ => .unsupported "eg-hom args"
  | _, _ => .unsupported ("C16 op " ++ op)

end elgamal

def handle (op : String) (args : List String) (rhs : String) : Verdict :=
  if op.startsWith "eg-" then handleElGamal op args rhs else
  match op, args with
  -- generated key material: flavour predicates and gcd(N, φ(N)) = 1
  | "key", [flavour, bitss, ps, qs] =>
    match bitss.toNat?, hexToNat? ps, hexToNat? qs with
    | some bits, some p, some q =>
      match keyDefect flavour bits p q with
      | some why => .bad "keygen" (flavour ++ " key: " ++ why)
      | none => spec "keygen-modulus" (okNat (p * q)) rhs
    | _, _, _ => .unsupported "key args"
  -- constructor validation: malformed factors and the key-size floor
  | "newkey", [floors, ps, qs] =>
    match floors.toNat?, hexToNat? ps, hexToNat? qs with
    | some fl, some p, some q => specClass "newkey" (newKeyModel fl p q) rhs
    | _, _, _ => .unsupported "newkey args"
  | "newpk", [floors, ns] =>
    match floors.toNat?, hexToNat? ns with
    | some fl, some N => specClass "newpk" (if bitLen N < fl then "err:failed" else "ok") rhs
    | _, _ => .unsupported "newpk args"
  -- value constructors
  | "newpt", [ns, vs] =>
    match hexToNat? ns, hexToNat? vs with
    | some N, some v => specClass "plaintext-range" (if v < N then okNat v else "err:range") rhs
    | _, _ => .unsupported "newpt args"
  | "newnonce", [ns, vs] =>
    match hexToNat? ns, hexToNat? vs with
    | some N, some v =>
      -- reduction of an over-long input is an implementation choice; unit-ness is the property
      if Nat.gcd (v % N) N != 1 then specClass "nonce-unit" "err:value" rhs
      else if v < N then spec "nonce-unit" (okNat v) rhs else mirror (okNat (v % N)) rhs
    | _, _ => .unsupported "newnonce args"
  | "newct", [ns, vs] =>
    match hexToNat? ns, hexToNat? vs with
    | some N, some v =>
      if Nat.gcd (v % (N * N)) N != 1 then specClass "ciphertext-unit" "err:value" rhs
      else if v < N * N then spec "ciphertext-unit" (okNat v) rhs else mirror (okNat (v % (N * N))) rhs
    | _, _ => .unsupported "newct args"
  | "sym", [ns, xs] =>
    match hexToNat? ns, hexToInt? xs with
    | some N, some x =>
      specClass "symmetric-range" (if inSymRange N x then okNat (fromSym N x) else "err:range") rhs
    | _, _ => .unsupported "sym args"
  | "norm", [ns, ms] =>
    match hexToNat? ns, hexToNat? ms with
    | some N, some m =>
      if !isPt N m then .unsupported "norm range" else
      spec "symmetric-normalise" ("ok:" ++ intToHex (toSym N m)) rhs
    | _, _ => .unsupported "norm args"
  -- encryption: textbook ciphertext, both key paths
  | "enc", [path, ns, ms, rs] =>
    match hexToNat? ns, hexToNat? ms, hexToNat? rs with
    | some N, some m, some r =>
      if path != "pk" && path != "sk" then .unsupported "enc path" else
      if !isPt N m then specClass "plaintext-range" "err:range" rhs
      else if Nat.gcd (r % N) N != 1 then specClass "nonce-unit" "err:value" rhs
      else if r < N then spec ("enc-textbook-" ++ path) (okNat (enc N m r)) rhs
      else mirror (okNat (enc N m (r % N))) rhs
    | _, _, _ => .unsupported "enc args"
  | "rep", [path, ns, ms] =>
    match hexToNat? ns, hexToNat? ms with
    | some N, some m =>
      if !isPt N m then .unsupported "rep range" else spec ("representative-" ++ path) (okNat (rep N m)) rhs
    | _, _ => .unsupported "rep args"
  | "noise", [path, ns, rs] =>
    match hexToNat? ns, hexToNat? rs with
    | some N, some r =>
      if !isNonce N r then .unsupported "noise nonce" else spec ("identity-noise-" ++ path) (okNat (noise N r)) rhs
    | _, _ => .unsupported "noise args"
  -- decryption (ciphertext carries the modulus of its own group)
  | "dec", [ps, qs, ncs, cs] =>
    match hexToNat? ps, hexToNat? qs, hexToNat? ncs, hexToNat? cs with
    | some p, some q, some Nc, some c =>
      if Nc != p * q then specClass "decrypt-membership" "err:membership" rhs
      else if !isCt (p * q) c then .unsupported "dec: ciphertext not a unit"
      else
        let m := dec p q c
        -- the model's own CRT/Fermat-quotient path must agree with the textbook one
        if decCRT p q c != m then .unsupported "model: decCRT != dec" else
        spec "decrypt" (okNat m) rhs
    | _, _, _, _ => .unsupported "dec args"
  | "open", [ps, qs, ncs, cs] =>
    match hexToNat? ps, hexToNat? qs, hexToNat? ncs, hexToNat? cs with
    | some p, some q, some Nc, some c =>
      let N := p * q
      if Nc != N then specClass "decrypt-membership" "err:membership" rhs
      else if !isCt N c then .unsupported "open: ciphertext not a unit"
      else
        let m := dec p q c
        let r := recoverNonce p q c m
        -- model-side sanity: the recovered pair re-encrypts to c (else the model is broken)
        if enc N m r != c then .unsupported "model: recovered pair does not re-encrypt" else
        -- the model's own CRT N-th root (mirror of `SecretKey.Open`) must agree with the textbook one
        if openCRT p q c != (m, r) then .unsupported "model: openCRT != (dec, recoverNonce)" else
        if rhs.startsWith "ok:" then
          match parseNatList? (rhs.drop 3).toString with
          | some [m', r'] =>
            -- property oracle on the implementation's own answer: re-encryption gives c
            if !(isPt N m' && isNonce N r' && enc N m' r' == c) then
              .bad "open-reencrypt" ("Enc(m',r') != c; expected=" ++ okList [m, r] ++ " observed=" ++ rhs)
            else spec "open" (okList [m, r]) rhs
          | _ => .unsupported "open rhs"
        else spec "open" (okList [m, r]) rhs
    | _, _, _, _ => .unsupported "open args"
  -- every secret-key-accelerated operation on one tuple: CRT mirrors, textbook, implementation
  | "skops", [ps, qs, ms, rs, ss, ks] =>
    match hexToNat? ps, hexToNat? qs, hexToNat? ms, hexToNat? rs, hexToNat? ss, hexToInt? ks with
    | some p, some q, some m, some r, some s, some k =>
      let N := p * q
      if !(isPt N m && isNonce N r && isNonce N s) then .unsupported "skops precondition" else
      let c := enc N m r
      let textbook := [c, noise N r, ctScalar N c k, ctInv N c, rerand N c s, nonceScalar N r k, nonceMul N r s]
      let mirror := [encSk p q m r, noiseSk p q r, ctScalarSk p q c k, invModSk p q c, rerandSk p q c s,
        nonceScalarSk p q r k, nonceMulSk p q r s]
      if mirror != textbook then .unsupported "model: secret-key mirror != textbook" else
      spec "sk-ops-textbook" (okList textbook) rhs
    | _, _, _, _, _, _ => .unsupported "skops args"
  -- signed plaintext -> encrypt -> decrypt -> normalise
  | "symenc", [path, ns, xs, rs] =>
    match hexToNat? ns, hexToInt? xs, hexToNat? rs with
    | some N, some x, some r =>
      if path != "pk" && path != "sk" then .unsupported "symenc path" else
      if !isNonce N r then .unsupported "symenc nonce" else
      if !inSymRange N x then specClass "symmetric-range" "err:range" rhs else
      let m := fromSym N x
      if toSym N m != x then .unsupported "model: toSym (fromSym x) != x" else
      spec ("symmetric-enc-dec-" ++ path) ("ok:" ++ natToHex (enc N m r) ++ "," ++ intToHex x) rhs
    | _, _, _ => .unsupported "symenc args"
  -- values outside Z*_{N²}: no public route may turn them into a ciphertext that decrypts
  | "decbad", [ps, qs, vs] =>
    match hexToNat? ps, hexToNat? qs, hexToNat? vs with
    | some p, some q, some v =>
      let N := p * q
      let routes := (rhs.splitOn ",").map (fun t => (t.splitOn "="))
      if routes.isEmpty || routes.any (fun kv => kv.length != 2) then .unsupported "decbad rhs" else
      let results := routes.map (fun kv => (kv.getD 0 "", kv.getD 1 ""))
      if v != 0 && v < N * N && Nat.gcd v N == 1 then
        -- control: a unit goes through every route and decrypts to the textbook plaintext
        let want := okNat (dec p q v)
        match results.find? (fun (_, r) => r != want && r != "na") with
        | some (name, r) => .bad "decrypt" ("route " ++ name ++ " expected=" ++ want ++ " observed=" ++ r)
        | none => if results.all (fun (_, r) => r == "na") then .unsupported "decbad: no live route" else .ok
      else
        match results.find? (fun (_, r) => r != "reject" && r != "na") with
        | some (name, r) =>
          .bad "nonunit-ciphertext-accepted" ("route " ++ name ++ " v=" ++ natToHex v ++ " observed=" ++ r)
        | none => if results.all (fun (_, r) => r == "na") then .unsupported "decbad: no live route" else .ok
    | _, _, _ => .unsupported "decbad args"
  -- homomorphic step on a tracked (m, r, c)
  | "hom", path :: ns :: kind :: ms :: rs :: cs :: operands =>
    match hexToNat? ns, hexToNat? ms, hexToNat? rs, hexToNat? cs with
    | some N, some m, some r, some c =>
      if path != "pk" && path != "sk" then .unsupported "hom path" else
      if !validTriple N m r c then .unsupported "hom precondition" else
      match homStep N kind m r c operands with
      | none => .unsupported ("hom operands " ++ kind)
      | some (c', m', r') =>
        -- the homomorphism itself, evaluated on the model: the image encrypts (m', r')
        if enc N m' r' != c' then .unsupported ("hom model homomorphism " ++ kind)
        else spec ("hom-" ++ kind ++ "-" ++ path) (okList [c', m', r']) rhs
    | _, _, _, _ => .unsupported "hom args"
  | _, _ => .unsupported ("C16 op " ++ op)

end BronVerif.Drive.C16
