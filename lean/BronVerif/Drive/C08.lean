import BronVerif.Drive.Common
import BronVerif.Model.Curves
import BronVerif.Model.Sigma
/-!
Driver handlers for C08 (sigma protocols, their compilers and compositions).

Line shapes (`;` separates list entries whose own encoding may contain `,`):

    verify   <kind> <cv> <params> <X> <A> <e> <Z>                 => accept|reject
    fs       <kind> <cv> <params> <X> <A> <e> <eCtx> <Z>          => accept|reject
    zk       <kind> <cv> <params> <X> <A> <e> <Z> <open:0|1>      => accept|reject
    sim      <kind> <cv> <params> <X> <e> <A> <Z>                 => accept|reject
    extract  <kind> <cv> <params> <X> <A> <e1> <Z1> <e2> <Z2>     => ok:<W>|err
    and      <kind> <cv> <params> <n> <Xs> <As> <e> <Zs>          => accept|reject   (n = configured branches)
    or       <kind> <cv> <params> <n> <Xs> <As> <e> <es> <Zs>     => accept|reject
    fischlin <kind> <cv> <params> <rho> <X> <As> <es> <Zs> <ts>   => accept|reject   (rho = specified repetitions)
    fischlinbits <tag> <kind> <rho> <ts> <vs>                     => accept|reject   (per-repetition target / sigma bits)
    batch    <cv> <k> <G> <Xs> <A> <e> <Z>   /  batchfs … <e> <eCtx> <Z>  /  batchsim <cv> <k> <G> <Xs> <e> <A> <Z>
    elog     <cv> <G,PK,H> <X1> <X2> <A1> <A2> <e> <Z1> <Z2>      => accept|reject
    zkopen   <tag> <kind> <opens:0|1>                             => answered|refused
    params   fischlin <nthroot|other> <ss> <rho> <b> <t>  /  params randfischlin <lambda> <l> <r> <t>  => ok

The number of repetitions / branches / statements in these lines is the *specified* one (the compiler's
published parameters, the count the composition was constructed with), not the one found in the proof:
the model rejects every proof whose component count differs, whatever its hashes say.

`<eCtx>` is the challenge the harness derived *independently* from the verifier's context with the
real transcript (domain separator, statement, commitment); `ts` are the per-repetition hash-target
bits derived the same way.  They stand in for the hash model (`fsVerify`'s challenge oracle /
`fischlinVerify`'s `target`) until `Model/Hash` + `Model/Transcript` are merged: then the
challenge oracle inside `fsOn` below is the only place to change.
-/
namespace BronVerif.Drive.C08
open BronVerif BronVerif.Drive BronVerif.Sigma BronVerif.Curves

def curveGrp (C : Params) : Grp Pt :=
  ⟨Curves.zero C, Curves.add C, Curves.neg C, fun P n => Curves.smul C n P⟩

def splitSemi (s : String) : List String := if s == "-" || s == "" then [] else s.splitOn ";"

def acc (b : Bool) : String := if b then "accept" else "reject"

/-- a protocol instance together with the codecs of its line encoding -/
structure Inst (H G : Type) where
  P : Maurer H G
  parseG : String → Option G
  parseH : String → Option H
  renderH : H → String

/-- challenge bytes (hex) as the number the sigma verifier uses (big-endian) -/
def chalNat? (s : String) : Option Nat := (hexToBytes? s).map bytesToNatBE

/-- Fiat–Shamir on top of a verifier taking the numeric challenge: the proof's challenge *bytes*
must equal the context-derived bytes -/
def fsOn {X A Z : Type} (verify : X → A → Nat → Z → Bool) (x : X) (a : A) (eBytes eCtx : String) (z : Z) : Bool :=
  fsVerify (fun (_ : Unit) => eCtx) (fun (_ : Unit) (_ : X) (_ : A) => ()) 
    (fun x a (e : String) z => match chalNat? e with
      | some n => verify x a n z
      | none => false) () x (a, eBytes, z)

def runInst {H G : Type} [DecidableEq G] (I : Inst H G) (op : String) (args : List String) (rhs : String) : Verdict :=
  let P := I.P
  match op, args with
  | "verify", [xs, as, es, zs] =>
    match I.parseG xs, I.parseG as, hexToNat? es, I.parseH zs with
    | some x, some a, some e, some z => spec "sigma-verify" (acc (P.verify x a e z)) rhs
    | _, _, _, _ => .unsupported "verify args"
  | "fs", [xs, as, es, ecs, zs] =>
    match I.parseG xs, I.parseG as, chalNat? es, chalNat? ecs, I.parseH zs with
    | some x, some a, some _, some _, some z => spec "fs-verify" (acc (fsOn P.verify x a es ecs z)) rhs
    | _, _, _, _, _ => .unsupported "fs args"
  | "zk", [xs, as, es, zs, os] =>
    match I.parseG xs, I.parseG as, hexToNat? es, I.parseH zs with
    | some x, some a, some e, some z =>
      let opened := zkRound4 (fun (_ _ : Unit) (_ : Nat) (_ : Unit) => os == "1") (fun _ => z) () () e ()
      let model := match opened with
        | some z' => P.verify x a e z'
        | none => false
      spec "zk-verify" (acc model) rhs
    | _, _, _, _ => .unsupported "zk args"
  | "sim", [xs, es, as, zs] =>
    match I.parseG xs, hexToNat? es, I.parseG as, I.parseH zs with
    | some x, some e, some a, some z =>
      -- the simulated commitment is the one the model simulator computes from (x, e, z), and it verifies
      if P.simulate x e z ≠ a then
        (if P.verify x a e z then .diff "simulated commitment differs from model (but verifies)"
         else .bad "sim-not-verifying" "simulated transcript does not satisfy the verification equation")
      else spec "sim-verify" (acc (P.verify x a e z)) rhs
    | _, _, _, _ => .unsupported "sim args"
  | "extract", [xs, as, e1s, z1s, e2s, z2s] =>
    match I.parseG xs, I.parseG as, hexToNat? e1s, I.parseH z1s, hexToNat? e2s, I.parseH z2s with
    | some x, some a, some e1, some z1, some e2, some z2 =>
      let model := P.extract x a e1 e2 z1 z2
      if rhs.startsWith "ok:" then
        match I.parseH (rhs.drop 3).toString with
        | none => .unsupported "extract rhs"
        | some w =>
          if P.phi w ≠ x then .bad "extract-wrong-witness" "phi(w) != x for the extracted witness"
          else match model with
            | some wm => mirror ("ok:" ++ I.renderH wm) rhs
            | none => .diff "model extractor refuses"
      else match model with
        | some wm => .bad "extract-failed" ("two accepting transcripts, model extracts " ++ I.renderH wm)
        | none => mirror "err" rhs
    | _, _, _, _, _, _ => .unsupported "extract args"
  | "and", ns :: xss :: ass :: es :: zss :: fsArgs =>
    match ns.toNat?, (splitSemi xss).mapM I.parseG, (splitSemi ass).mapM I.parseG, hexToNat? es, (splitSemi zss).mapM I.parseH with
    | some n, some xs, some as, some e, some zs =>
      match fsArgs with
      | [] => spec "and-verify" (acc (andVerifyN n P.verify xs as e zs)) rhs
      | [eb, ec] => spec "and-fs-verify" (acc (fsOn (andVerifyN n P.verify) xs as eb ec zs)) rhs
      | _ => .unsupported "and fs args"
    | _, _, _, _, _ => .unsupported "and args"
  | "or", ns :: xss :: ass :: es :: ess :: zss :: fsArgs =>
    match ns.toNat?, (splitSemi xss).mapM I.parseG, (splitSemi ass).mapM I.parseG, hexToNat? es, parseNatList? ess, (splitSemi zss).mapM I.parseH with
    | some n, some xs, some as, some e, some ees, some zs =>
      match fsArgs with
      | [] => spec "or-verify" (acc (orVerifyN n P.verify xs as e ees zs)) rhs
      | [eb, ec] => spec "or-fs-verify" (acc (fsOn (fun xs as e (z : List Nat × List H) => orVerifyN n P.verify xs as e z.1 z.2) xs as eb ec (ees, zs))) rhs
      | _ => .unsupported "or fs args"
    | _, _, _, _, _, _ => .unsupported "or args"
  | "fischlin", [rhos, xs, ass, ess, zss, tss] =>
    match rhos.toNat?, I.parseG xs, (splitSemi ass).mapM I.parseG, parseNatList? ess, (splitSemi zss).mapM I.parseH, parseNatList? tss with
    | some rho, some x, some as, some ees, some zs, some ts =>
      if as.length ≠ ees.length ∨ as.length ≠ zs.length ∨ as.length ≠ ts.length then .unsupported "fischlin lengths" else
      let π : List (G × Nat × H) := List.zip as (List.zip ees zs)
      let model := fischlinVerify rho (fun (_ : Unit) (_ : G) (_ : List G) => ())
        (fun _ i _ _ => ts.getD i 0 == 1) P.verify () x π
      spec "fischlin-verify" (acc model) rhs
    | _, _, _, _, _, _ => .unsupported "fischlin args"
  | _, _ => .unsupported ("C08 op " ++ op)

def parseScalar (q : Nat) (s : String) : Option Nat := (hexToNat? s).map (· % q)

def schnorrInst (C : Params) (g : Pt) : Inst Nat Pt :=
  { P := schnorr (curveGrp C) C.n g, parseG := Curves.parse? C, parseH := parseScalar C.n, renderH := natToHex }

def okamotoInst (C : Params) (gs : List Pt) : Inst (List Nat) Pt :=
  { P := okamoto (curveGrp C) C.n gs, parseG := Curves.parse? C,
    parseH := fun s => (splitComma s).mapM (parseScalar C.n),
    renderH := fun zs => joinComma (zs.map natToHex) }

def parsePair (C : Params) (s : String) : Option (Pt × Pt) :=
  match splitComma s with
  | [a, b] => do some ((← Curves.parse? C a), (← Curves.parse? C b))
  | _ => none

def elcomopInst (C : Params) (g pk : Pt) : Inst (Pt × Nat) (Pt × Pt) :=
  { P := elcomop (curveGrp C) C.n g pk, parseG := parsePair C,
    parseH := fun s => match splitComma s with
      | [m, l] => do some ((← Curves.parse? C m), (← parseScalar C.n l))
      | _ => none,
    renderH := fun w => Curves.render C w.1 ++ "," ++ natToHex w.2 }

def nthrootInst (n : Nat) : Inst Nat Nat :=
  { P := nthroot n, parseG := fun s => (hexToNat? s).map (· % (n * n)),
    parseH := fun s => (hexToNat? s).map (· % (n * n)), renderH := natToHex }

def handle (op : String) (args : List String) (rhs : String) : Verdict :=
  match op, args with
  | "batch", [cv, ks, gs, xss, as, es, zs] =>
    match byName? cv with
    | none => .unsupported "curve"
    | some C =>
      match ks.toNat?, Curves.parse? C gs, Curves.parseList? C xss, Curves.parse? C as, hexToNat? es, parseScalar C.n zs with
      | some k, some g, some xs, some a, some e, some z =>
        spec "batch-verify" (acc (batchVerifyK k (curveGrp C) g xs a (e % C.n) z)) rhs
      | _, _, _, _, _, _ => .unsupported "batch args"
  | "batchfs", [cv, ks, gs, xss, as, es, ecs, zs] =>
    match byName? cv with
    | none => .unsupported "curve"
    | some C =>
      match ks.toNat?, Curves.parse? C gs, Curves.parseList? C xss, Curves.parse? C as, chalNat? es, chalNat? ecs, parseScalar C.n zs with
      | some k, some g, some xs, some a, some _, some _, some z =>
        let model := fsOn (fun xs a e z => batchVerifyK k (curveGrp C) g xs a (e % C.n) z) xs a es ecs z
        spec "batch-fs-verify" (acc model) rhs
      | _, _, _, _, _, _, _ => .unsupported "batchfs args"
  | "batchsim", [cv, ks, gs, xss, es, as, zs] =>
    match byName? cv with
    | none => .unsupported "curve"
    | some C =>
      match ks.toNat?, Curves.parse? C gs, Curves.parseList? C xss, hexToNat? es, Curves.parse? C as, parseScalar C.n zs with
      | some k, some g, some xs, some e, some a, some z =>
        spec "batch-sim-verify" (acc (batchVerifyK k (curveGrp C) g xs a (e % C.n) z)) rhs
      | _, _, _, _, _, _ => .unsupported "batchsim args"
  | "fischlinbits", [_, _, rhos, tss, vss] =>
    match rhos.toNat?, parseNatList? tss, parseNatList? vss with
    | some rho, some ts, some vs =>
      if ts.length ≠ vs.length then .unsupported "fischlinbits lengths" else
      -- the proof as the list of its repetition indices; target / sigma verdicts are looked up
      let π : List (Nat × Unit × Unit) := (List.range ts.length).map fun i => (i, (), ())
      let model := fischlinVerify rho (fun (_ : Unit) (_ : Unit) (_ : List Nat) => ())
        (fun _ i _ _ => ts.getD i 0 == 1) (fun _ i _ _ => vs.getD i 0 == 1) () () π
      spec "fischlin-verify" (acc model) rhs
    | _, _, _ => .unsupported "fischlinbits args"
  | "zkopen", [_, _, os] =>
    if os ≠ "0" ∧ os ≠ "1" then .unsupported "zkopen bit" else
    let model := zkRound4 (fun (_ _ : Unit) (_ : Unit) (_ : Unit) => os == "1") (fun _ => ()) () () () ()
    spec "zk-open" (if model.isSome then "answered" else "refused") rhs
  | "params", ["fischlin", name, sss, rhos, bs, ts] =>
    match sss.toNat?, rhos.toNat?, bs.toNat?, ts.toNat? with
    | some ss, some rho, some b, some t =>
      let m := fischlinSpec (name == "nthroot") ss
      if rhs ≠ "ok" then .unsupported "params rhs" else
      mirror (toString m.1 ++ "," ++ toString m.2.1 ++ "," ++ toString m.2.2) (toString rho ++ "," ++ toString b ++ "," ++ toString t)
    | _, _, _, _ => .unsupported "params args"
  | "params", ["randfischlin", lams, ls, rs, ts] =>
    match lams.toNat?, ls.toNat?, rs.toNat?, ts.toNat? with
    | some lam, some l, some r, some t =>
      if lam ≠ 128 ∨ l ≠ 8 then .diff "randfischlin lambda/l differ from the specification (128, 8)" else
      let m := randFischlinSpec lam l
      if rhs ≠ "ok" then .unsupported "params rhs" else
      mirror (toString m.1 ++ "," ++ toString m.2) (toString r ++ "," ++ toString t)
    | _, _, _, _ => .unsupported "params args"
  | "elog", cv :: ps :: x1s :: x2s :: a1s :: a2s :: es :: z1s :: z2s :: fsArgs =>
    match byName? cv with
    | none => .unsupported "curve"
    | some C =>
      match Curves.parseList? C ps with
      | some [g, pk, h] =>
        let I1 := elcomopInst C g pk
        let I2 := schnorrInst C h
        match I1.parseG x1s, I2.parseG x2s, I1.parseG a1s, I2.parseG a2s, hexToNat? es, I1.parseH z1s, I2.parseH z2s with
        | some x1, some x2, some a1, some a2, some e, some z1, some z2 =>
          let v := fun (x : (Pt × Pt) × Pt) (a : (Pt × Pt) × Pt) (e : Nat) (z : (Pt × Nat) × Nat) =>
            I1.P.verify x.1 a.1 e z.1 && I2.P.verify x.2 a.2 e z.2
          match fsArgs with
          | [] => spec "elog-verify" (acc (v (x1, x2) (a1, a2) e (z1, z2))) rhs
          | [eb, ec] => spec "elog-fs-verify" (acc (fsOn v (x1, x2) (a1, a2) eb ec (z1, z2))) rhs
          | _ => .unsupported "elog fs args"
        | _, _, _, _, _, _, _ => .unsupported "elog args"
      | _ => .unsupported "elog params"
  | _, kind :: cv :: ps :: rest =>
    if kind == "nthroot" then
      match hexToNat? ps with
      | some n => if n < 2 then .unsupported "N" else runInst (nthrootInst n) op rest rhs
      | none => .unsupported "N"
    else
    match byName? cv with
    | none => .unsupported ("curve " ++ cv)
    | some C =>
      match kind, Curves.parseList? C ps with
      | "schnorr", some [g] => runInst (schnorrInst C g) op rest rhs
      | "okamoto", some gs => if gs.isEmpty then .unsupported "okamoto params" else runInst (okamotoInst C gs) op rest rhs
      | "elcomop", some [g, pk] => runInst (elcomopInst C g pk) op rest rhs
      | _, _ => .unsupported ("C08 kind " ++ kind)
  | _, _ => .unsupported ("C08 op " ++ op)

end BronVerif.Drive.C08
