import BronVerif.Drive.Common
/-! Driver handlers for C08. -/
namespace BronVerif.Drive.C08
open BronVerif BronVerif.Drive

def handle (op : String) (_args : List String) (_rhs : String) : Verdict :=
  .unsupported ("C08 op " ++ op)

end BronVerif.Drive.C08
