import BronVerif.Drive.Common
import BronVerif.Model.Cbor
import BronVerif.Model.Wire
import BronVerif.Model.Curves
import BronVerif.Model.CurveEnc
/-! Driver handlers for C12 (wire formats): every verdict is computed with the CBOR model
(`Model/Cbor.lean`: generic strict decoding, canonical re-encoding, container-level classification
of mutants) and, for the modelled types, with the typed wire models of `Model/Wire.lean`
(`decodeWith decT`, `encodeWith encT`, `validT` — the very definitions `Props/C12.lean` proves
`decodeT_valid` / `decodeT_encodeT` about), instantiated with `Fp n` and the runtime curve points:

* `canon <type> <bytes>`: the library's own encoding must be canonical, round-trip byte for byte
  and — modelled types — be the canonical encoding of a value satisfying `validT` (a disagreement
  on an honestly constructed value is a model/implementation mismatch: `DIFF`);
* `mut <type> <kind> <bytes> => accept:<re-encoding>`: the accepted object, as re-encoded by Go, must
  satisfy `validT` (`BAD key=accepted-object-invalid` otherwise: the decoder returned an object that
  violates the rules its constructor enforces, e.g. a shard whose private share does not match
  `M_rows · V` in some component). -/
namespace BronVerif.Drive.C12
open BronVerif BronVerif.Drive BronVerif.Cbor

def parseBytes? (s : String) : Option Bytes := (hexToBytes? s).map (·.toList)

def renderBytes (b : Bytes) : String := bytesToHex (ByteArray.mk b.toArray)

/-! ## typed models (`Model/Wire.lean`) instantiated with the executable fields and curves -/

section typed
open BronVerif.Wire BronVerif.Curve BronVerif.Curves BronVerif.CurveEnc

def wOf {q : Nat} [NeZero q] (P : Pt) : WPt (Fp q) :=
  match P.coords with
  | some ([x], [y]) => .aff (Fp.ofNat q x) (Fp.ofNat q y)
  | _ => .inf
def wTo {q : Nat} : WPt (Fp q) → Pt
  | .inf => .inf
  | .aff x y => ⟨some ([x.val], [y.val])⟩

def toNats (b : Bytes) : List Nat := b.map (·.toNat)
def ofNats (xs : List Nat) : Bytes := xs.map UInt8.ofNat

/-- Jacobian → affine -/
def jToAffine {q : Nat} [NeZero q] (P : Fast.JPt (Fp q)) : WPt (Fp q) :=
  if P.z = 0 then .inf else
    let zi := P.z⁻¹
    let zi2 := zi * zi
    .aff (P.x * zi2) (P.y * zi2 * zi)

/-- scalar multiplication with the inversion-free Jacobian ladder of `Model/CurveEnc.lean` (one
field inversion at the end instead of one per step) -/
def fastSmul (C : Params) (k : Nat) (P : Pt) : Pt :=
  withPrime C.p .inf fun q =>
    match wOf (q := q) P with
    | .inf => .inf
    | .aff x y => wTo (jToAffine (Fast.jSmulAux (Fp.ofNat q C.a) (k.log2 + 1) k ⟨x, y, 1⟩ Fast.jInf))

/-- scalar action of `Fp n` on the prime-order group of `C` (`n = C.n`); residues above `n/2` act
as the negative of their complement, which keeps the small negative MSP coefficients cheap -/
def smulFp (C : Params) {n : Nat} (k : Fp n) (P : Pt) : Pt :=
  if 2 * k.val > n then Curves.neg C (fastSmul C (n - k.val) P) else fastSmul C k.val P

/-- `FromBytes` of a scalar field of `len` bytes: exactly `len` big-endian bytes of a canonical
residue (the re-encodings the driver looks at are canonical) -/
def scalarIO (n : Nat) [NeZero n] (len : Nat) : ElemIO (Fp n) where
  dec b := if b.length = len ∧ beVal b < n then some (Fp.ofNat n (beVal b)) else none
  enc s := Cbor.beBytes s.val len

/-- compressed points of the prime-order group: SEC1 for k256, the Zcash form for BLS12-381 G1 -/
def pointIO (C : Params) : Option (ElemIO Pt) :=
  if C.name == "k256" then
    withPrime C.p none fun q =>
      let io := fpIO q
      let a := Fp.ofNat q C.a
      let b := Fp.ofNat q C.b
      some { dec := fun bs => (Sec1.decodeCompressed io a b 32 (toNats bs)).map wTo,
             enc := fun P => ofNats (Sec1.encodeCompressed io 32 (wOf (q := q) P)) }
  else if C.name == "bls12381g1" then
    withPrime C.p none fun q =>
      let io := g1IO q
      let a := Fp.ofNat q C.a
      let b := Fp.ofNat q C.b
      some { dec := fun bs => (Bls.decodeCompressed io a b C.n 48 (toNats bs)).map wTo,
             enc := fun P => ofNats (Bls.encodeCompressed io 48 (wOf (q := q) P)) }
  else none

/-- `decodeT b = some v` and `encodeT v = b`: the bytes are the canonical encoding of a valid value -/
def roundTrips {T : Type} (dec : Item → Option T) (enc : T → Item) (b : Bytes) : Bool :=
  match decodeWith dec b with
  | some v => encodeWith enc v == b
  | none => false

/-- `{"base": x}` wrapper of `bls.Shard` -/
def unwrapBase : Item → Option Item
  | .map [.text k, x] => if k = kBase then some x else none
  | _ => none

/-- `some ok`: the type is modelled and `ok` says whether `b` is the canonical encoding of a value
satisfying the type's validity predicate; `none`: no Lean-side model for this type. -/
def typedValid (ty : String) (b : Bytes) : Option Bool :=
  match ty.splitOn "/" with
  | ["threshold.Threshold"] => some (roundTrips decThreshold encThreshold b)
  | ["unanimity.Unanimity"] => some (roundTrips decUnanimity encUnanimity b)
  | ["cnf.CNF"] => some (roundTrips decCNF encCNF b)
  | ["hierarchical.HierarchicalConjunctiveThreshold"] => some (roundTrips decHierarchical encHierarchical b)
  | ["boolexpr.ThresholdGateAccessStructure"] => some (roundTrips decBoolAS encBoolAS b)
  | ["paillier.PublicKey"] => some (roundTrips decPaillierPK encPaillierPK b)
  | [name, cn] =>
    match byName? cn with
    | none => none
    | some C =>
      withPrime C.n none fun n =>
        let fio := scalarIO n 32
        match pointIO C with
        | none => none
        | some gio =>
          letI : Add Pt := ⟨Curves.add C⟩
          letI : OfNat Pt 0 := ⟨Curves.zero C⟩
          letI : HSMul (Fp n) Pt Pt := ⟨smulFp C⟩
          let g := Curves.gen C
          if name == "mpc.BaseShard" || name == "dkls23.Shard" || name == "schnorr.Shard" then
            some (roundTrips (decShardW fio gio g) (encShardW fio gio) b)
          else if name == "bls.Shard" then
            some (roundTrips (fun x => (unwrapBase x).bind (decShardW fio gio g))
              (fun v => .map [.text kBase, encShardW fio gio v]) b)
          else if name == "mpc.BasePublicMaterial" then some (roundTrips (decPMW fio gio) (encPMW fio gio) b)
          else if name == "msp.MSP" then some (roundTrips (decMSPW fio) (encMSPW fio) b)
          else if name == "kw.Share" then some (roundTrips (decShareW fio) (encShareW fio) b)
          else if name == "feldman.VerificationVector" then some (roundTrips (decVV gio) (encVV gio) b)
          else if name == "mat.Matrix" then
            some (roundTrips (decMatW (decScalar fio)) (encMatW (encScalar fio)) b)
          else if name == "ecdsa.Signature" then some (roundTrips (decSigW fio) (encSigW fio) b)
          else none
  | _ => none

end typed

/-- mutation kinds whose product is malformed at container level by construction -/
def containerKinds : List String := ["trailing", "indef", "dupkey", "reserved", "truncate"]

def handle (op : String) (args : List String) (rhs : String) : Verdict :=
  match op, args with
  -- Go: b = Marshal(v); rhs = Marshal(Unmarshal(b)).  Spec: b is the canonical encoding of the
  -- item it denotes and the round trip reproduces it byte for byte.
  | "canon", [_ty, hs] =>
    match parseBytes? hs with
    | none => .unsupported "hex"
    | some b =>
      match decode b with
      | none => .bad "own-encoding-rejected-by-strict-decoder" ("bytes=" ++ hs)
      | some x =>
        let e := encode x
        if e ≠ b then .bad "non-canonical-encoding" ("expected=" ++ renderBytes e)
        else if !(isCanon x) then .bad "non-canonical-encoding" "map keys not strictly ascending"
        else if typedValid _ty b == some false then
          .diff "the typed model (Model/Wire.lean) does not accept this honest encoding as a valid value"
        else spec "roundtrip-bytes" hs rhs
  -- a mutated encoding handed to the typed decoder
  | "mut", [_ty, kind, hs] =>
    match parseBytes? hs with
    | none => .unsupported "hex"
    | some b =>
      let d := decode b
      if containerKinds.contains kind && d.isSome then
        .diff ("model accepts a mutant of container kind " ++ kind)
      else if rhs == "reject" then .ok
      else if rhs.startsWith "accept:" then
        match d with
        | none => .bad "malformed-container-accepted" ("kind=" ++ kind)
        | some _ =>
          match parseBytes? (rhs.drop 7).toString with
          | none => .unsupported "rhs"
          | some b2 =>
            match decode b2 with
            | none => .bad "accepted-object-reencodes-malformed" ("kind=" ++ kind)
            | some y =>
              if encode y ≠ b2 then
                .bad "accepted-object-reencodes-noncanonical" ("expected=" ++ renderBytes (encode y))
              -- the accepted object (as re-encoded by Go) must satisfy the type's validity predicate
              else if typedValid _ty b2 == some false then
                .bad "accepted-object-invalid" ("type=" ++ _ty ++ " kind=" ++ kind ++ " object=" ++ renderBytes b2)
              else .ok
      else .unsupported "rhs"
  -- generic decoding into `any` with the library's decoding mode
  | "any", [hs] =>
    match parseBytes? hs with
    | none => .unsupported "hex"
    | some b =>
      match decode b with
      | none =>
        if rhs == "reject" then .ok
        else .bad "malformed-container-accepted" "generic decode"
      | some x =>
        match anyClass x with
        | .unknown => if rhs == "accept" ∨ rhs == "reject" then .ok else .unsupported "rhs"
        | .accept => mirror "accept" rhs
        | .reject => mirror "reject" rhs
  -- sloppy (non-shortest, unsorted) encoding → Go decode into any → Go deterministic encode
  | "enc", [hs] =>
    match parseBytes? hs with
    | none => .unsupported "hex"
    | some b =>
      match decode b with
      | none => mirror "reject" rhs
      | some x => spec "coredet-encoding" (renderBytes (encode x)) rhs
  | _, _ => .unsupported ("C12 op " ++ op)

end BronVerif.Drive.C12
