import BronVerif.Drive.Common
/-! Driver handlers for C12. -/
namespace BronVerif.Drive.C12
open BronVerif BronVerif.Drive

def handle (op : String) (_args : List String) (_rhs : String) : Verdict :=
  .unsupported ("C12 op " ++ op)

end BronVerif.Drive.C12
