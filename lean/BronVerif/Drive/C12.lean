import BronVerif.Drive.Common
import BronVerif.Model.Cbor
/-! Driver handlers for C12 (wire formats): every verdict is computed with the CBOR model
(`Model/Cbor.lean`): generic strict decoding, canonical re-encoding, container-level
classification of mutants. -/
namespace BronVerif.Drive.C12
open BronVerif BronVerif.Drive BronVerif.Cbor

def parseBytes? (s : String) : Option Bytes := (hexToBytes? s).map (·.toList)

def renderBytes (b : Bytes) : String := bytesToHex (ByteArray.mk b.toArray)

/-- mutation kinds whose product is malformed at container level by construction -/
def containerKinds : List String := ["trailing", "indef", "dupkey", "reserved", "truncate"]

def handle (op : String) (args : List String) (rhs : String) : Verdict :=
  match op, args with
  -- Go: b = Marshal(v); rhs = Marshal(Unmarshal(b)).  Spec: b is the canonical encoding of the
  -- item it denotes and the round trip reproduces it byte for byte.
  | "canon", [_ty, hs] =>
    match parseBytes? hs with
    | none => .unsupported "hex"
    | some b =>
      match decode b with
      | none => .bad "own-encoding-rejected-by-strict-decoder" ("bytes=" ++ hs)
      | some x =>
        let e := encode x
        if e ≠ b then .bad "non-canonical-encoding" ("expected=" ++ renderBytes e)
        else if !(isCanon x) then .bad "non-canonical-encoding" "map keys not strictly ascending"
        else spec "roundtrip-bytes" hs rhs
  -- a mutated encoding handed to the typed decoder
  | "mut", [_ty, kind, hs] =>
    match parseBytes? hs with
    | none => .unsupported "hex"
    | some b =>
      let d := decode b
      if containerKinds.contains kind && d.isSome then
        .diff ("model accepts a mutant of container kind " ++ kind)
      else if rhs == "reject" then .ok
      else if rhs.startsWith "accept:" then
        match d with
        | none => .bad "malformed-container-accepted" ("kind=" ++ kind)
        | some _ =>
          match parseBytes? (rhs.drop 7).toString with
          | none => .unsupported "rhs"
          | some b2 =>
            match decode b2 with
            | none => .bad "accepted-object-reencodes-malformed" ("kind=" ++ kind)
            | some y =>
              if encode y = b2 then .ok
              else .bad "accepted-object-reencodes-noncanonical" ("expected=" ++ renderBytes (encode y))
      else .unsupported "rhs"
  -- generic decoding into `any` with the library's decoding mode
  | "any", [hs] =>
    match parseBytes? hs with
    | none => .unsupported "hex"
    | some b =>
      match decode b with
      | none =>
        if rhs == "reject" then .ok
        else .bad "malformed-container-accepted" "generic decode"
      | some x =>
        match anyClass x with
        | .unknown => if rhs == "accept" ∨ rhs == "reject" then .ok else .unsupported "rhs"
        | .accept => mirror "accept" rhs
        | .reject => mirror "reject" rhs
  -- sloppy (non-shortest, unsorted) encoding → Go decode into any → Go deterministic encode
  | "enc", [hs] =>
    match parseBytes? hs with
    | none => .unsupported "hex"
    | some b =>
      match decode b with
      | none => mirror "reject" rhs
      | some x => spec "coredet-encoding" (renderBytes (encode x)) rhs
  | _, _ => .unsupported ("C12 op " ++ op)

end BronVerif.Drive.C12
