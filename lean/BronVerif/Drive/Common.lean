import BronVerif.Model.Util
import BronVerif.Model.Fp
/-! Shared pieces of the line-protocol driver (core-only). -/
namespace BronVerif.Drive
open BronVerif

/-- Result of replaying one harness line `<PROP> <op> <args…> => <rhs>` on the model.
* `ok`    : implementation result equals the model's result (or satisfies the model-side relation);
* `diff`  : implementation differs from the model, but the line alone does not show the property
            failing (correspondence broken);
* `bad`   : the implementation's result on this input violates the property itself
            (`key` is a stable identifier used by known_findings.json);
* `unsupported` : the driver does not know the op (treated as a broken check, never as a pass). -/
inductive Verdict where
  | ok
  | diff (model : String)
  | bad (key : String) (why : String)
  | unsupported (what : String)

def Verdict.render : Verdict → String
  | .ok => "OK"
  | .diff m => "DIFF model=" ++ m
  | .bad k w => "BAD key=" ++ k ++ " " ++ w
  | .unsupported w => "UNSUPPORTED " ++ w

/-- compare the model's canonical result with the implementation's -/
def mirror (model rhs : String) : Verdict := if model == rhs then .ok else .diff model

/-- the model's result is the mathematical truth demanded by the property: a difference is a violation -/
def spec (key : String) (model rhs : String) : Verdict :=
  if model == rhs then .ok else .bad key ("expected=" ++ model ++ " observed=" ++ rhs)

def splitComma (s : String) : List String := if s == "-" || s == "" then [] else s.splitOn ","

def parseNatList? (s : String) : Option (List Nat) := (splitComma s).mapM hexToNat?
def parseIntList? (s : String) : Option (List Int) := (splitComma s).mapM hexToInt?
def parseDecList? (s : String) : Option (List Nat) := (splitComma s).mapM String.toNat?

def joinComma (xs : List String) : String := if xs.isEmpty then "-" else ",".intercalate xs

def chunk {α} (xs : List α) (n : Nat) : List (List α) :=
  if n = 0 then [] else
  let rec go (fuel : Nat) (ys : List α) (acc : List (List α)) : List (List α) :=
    match fuel with
    | 0 => acc.reverse
    | fuel + 1 => if ys.isEmpty then acc.reverse else go fuel (ys.drop n) (ys.take n :: acc)
  go (xs.length + 1) xs []

/-- run `f` with the prime-field model `Fp p` for a runtime modulus `p > 0` -/
def withPrime {α} (p : Nat) (dflt : α) (f : (q : Nat) → [NeZero q] → α) : α :=
  if h : p = 0 then dflt else
    haveI : NeZero p := ⟨h⟩
    f p

def fpList {p : Nat} [NeZero p] (xs : List Nat) : List (Fp p) := xs.map (Fp.ofNat p)
def fpHexList {p : Nat} (xs : List (Fp p)) : String := joinComma (xs.map Fp.toHex)

end BronVerif.Drive
