import BronVerif.Model.H2C
import Mathlib.Data.Set.Function
import Mathlib.Algebra.Group.Basic
import Mathlib.Algebra.Module.Defs
import Mathlib.Tactic.Ring
/-! Lemmas about the executable `expand_message_xmd` / `hash_to_field` model (`Model/H2C.lean`). -/
namespace BronVerif.Lemmas.H2CExpand
open BronVerif BronVerif.H2C

theorem fold_size (H : ByteArray → ByteArray) (b : Nat) (hH : ∀ x, (H x).size = b)
    (g : Nat → ByteArray × ByteArray → ByteArray) (n : Nat) (init : ByteArray × ByteArray) :
    (Nat.fold n (fun j _ (st : ByteArray × ByteArray) => (H (g j st), st.2 ++ H (g j st))) init).2.size =
      init.2.size + n * b := by
  induction n with
  | zero => simp
  | succ n ih =>
    rw [Nat.fold_succ]
    simp only [ByteArray.size_append, hH]
    rw [ih]
    ring

/-- `expand_message_xmd` returns exactly the requested number of bytes (whenever it does not abort), for any
hash with a fixed non-zero output size -/
theorem expand_xmd_len (h : XmdHash) (hH : ∀ x, (h.H x).size = (h.H ByteArray.empty).size)
    (hb : 0 < (h.H ByteArray.empty).size) (dst msg out : ByteArray) (len : Nat)
    (hout : expandXmd h dst msg len = some out) : out.size = len := by
  unfold expandXmd at hout
  simp only at hout
  split at hout
  · exact absurd hout (by simp)
  · rename_i hguard
    simp only [Option.some.injEq] at hout
    rw [← hout, ByteArray.size_extract, fold_size h.H _ hH]
    simp only [hH]
    have hlen : len ≠ 0 := by
      intro h0
      apply hguard
      simp [h0]
    set b := (h.H ByteArray.empty).size with hbdef
    have h1 := Nat.div_add_mod (len + b - 1) b
    have h2 := Nat.mod_lt (len + b - 1) hb
    obtain ⟨q, hq⟩ : ∃ q, (len + b - 1) / b = q + 1 := by
      have : 1 ≤ (len + b - 1) / b := (Nat.one_le_div_iff hb).mpr (by omega)
      exact ⟨(len + b - 1) / b - 1, by omega⟩
    rw [hq] at h1 ⊢
    simp only [Nat.add_sub_cancel]
    have h3 : b * (q + 1) = b + q * b := by ring
    rw [h3] at h1
    generalize q * b = t at h1 ⊢
    omega

/-- `hash_to_field` (m = 1): `count` elements, the `i`-th being `OS2IP` of the `i`-th `L`-byte block of
`expand_message(msg, DST, count·L)` reduced modulo `p` -/
theorem h2f_reduces (expand : ByteArray → ByteArray → Nat → Option ByteArray) (p L count : Nat)
    (dst msg : ByteArray) (us : List Nat) (h : hashToField expand p L count dst msg = some us) :
    ∃ u, expand dst msg (count * L) = some u ∧ us.length = count ∧
      ∀ i, i < count → us[i]? = some (bytesToNatBE (u.extract (L * i) (L * i + L)) % p) := by
  unfold hashToField at h
  cases hu : expand dst msg (count * L) with
  | none => rw [hu] at h; exact absurd h (by simp)
  | some u =>
    rw [hu] at h
    simp only [Option.map_some, Option.some.injEq] at h
    refine ⟨u, rfl, ?_, ?_⟩
    · rw [← h]; simp
    · intro i hi
      rw [← h]
      simp [hi]

/-- every output of `hash_to_field` is a canonical residue -/
theorem h2f_lt (expand : ByteArray → ByteArray → Nat → Option ByteArray) (p L count : Nat) (hp : 0 < p)
    (dst msg : ByteArray) (us : List Nat) (h : hashToField expand p L count dst msg = some us) :
    ∀ x ∈ us, x < p := by
  unfold hashToField at h
  cases hu : expand dst msg (count * L) with
  | none => rw [hu] at h; exact absurd h (by simp)
  | some u =>
    rw [hu] at h
    simp only [Option.map_some, Option.some.injEq] at h
    intro x hx
    rw [← h] at hx
    simp only [List.mem_map, List.mem_range] at hx
    obtain ⟨i, -, rfl⟩ := hx
    exact Nat.mod_lt _ hp

/-- domain separation under the idealisation that the expander is injective **on the set `S` of
(DST, message, length) triples that occur**: different tags give different uniform byte strings -/
theorem dst_separation (X : ByteArray → ByteArray → Nat → Option ByteArray) (S : Set (ByteArray × ByteArray × Nat))
    (hinj : Set.InjOn (fun t : ByteArray × ByteArray × Nat => X t.1 t.2.1 t.2.2) S)
    {dst dst' msg msg' : ByteArray} {len len' : Nat} (h : (dst, msg, len) ∈ S) (h' : (dst', msg', len') ∈ S)
    (hne : (dst, msg, len) ≠ (dst', msg', len')) : X dst msg len ≠ X dst' msg' len' :=
  fun he => hne (hinj h h' he)

/-- cofactor clearing: if `h·n` annihilates the group (the group order is `h·n`, or more generally its exponent
divides `h·n`), then `h • P` lies in the subgroup annihilated by `n` -/
theorem clear_cofactor_in_subgroup {G : Type} [AddCommGroup G] (h n : ℕ) (hord : ∀ P : G, (h * n) • P = 0)
    (P : G) : n • (h • P) = 0 := by
  rw [← mul_nsmul]; exact hord P

end BronVerif.Lemmas.H2CExpand
