import Mathlib.Data.Matrix.Mul
import Mathlib.LinearAlgebra.Lagrange
import Mathlib.Algebra.BigOperators.Fin
import Mathlib.Algebra.Polynomial.Eval.Degree
import Mathlib.Algebra.Polynomial.BigOperators
import Mathlib.Data.Fintype.Sum
import Mathlib.Tactic.LinearCombination
/-!
# Liu–Cao–Wong gate insertion (helper lemmas for C02)
`lcwInsert` is one iteration of the loop of `boolexpr.convert` (`Model.Access.lcwStep`) with the
rows/columns indexed by sum types instead of positions.
-/
namespace BronVerif.Lemmas.SharingLCW
open Matrix BigOperators Polynomial

variable {F : Type*} [Field F]

theorem lagrange_zero_sum' {ι : Type*} [DecidableEq ι] (T : Finset ι) (v : ι → F)
    (hv : Set.InjOn v T) (f : F[X]) (hf : f.degree < T.card) :
    ∑ i ∈ T, (Lagrange.basis T v i).eval 0 * f.eval (v i) = f.eval 0 := by
  conv_rhs => rw [Lagrange.eq_interpolate hv hf]
  simp [Lagrange.interpolate_apply, eval_finsetSum, mul_comm]

/-- fewer than `t` distinct non-zero nodes: vanishing moments `1..t-1` force the weights to vanish -/
theorem moments_zero {ι : Type*} [Fintype ι] [DecidableEq ι] (x : ι → F) (hx : Function.Injective x)
    (hx0 : ∀ i, x i ≠ 0) (t : ℕ) (K : Finset ι) (hK : K.card < t) (b : ι → F)
    (hb : ∀ i ∉ K, b i = 0) (hm : ∀ k : Fin (t - 1), ∑ i, b i * x i ^ ((k : ℕ) + 1) = 0) :
    ∀ i, b i = 0 := by
  intro i₀
  by_cases hi₀ : i₀ ∈ K
  swap
  · exact hb i₀ hi₀
  let P : F[X] := X * ∏ i ∈ K.erase i₀, (X - C (x i))
  have hdeg : P.natDegree < t := by
    have h1 : (∏ i ∈ K.erase i₀, (X - C (x i)) : F[X]).natDegree ≤ (K.erase i₀).card := by
      refine (natDegree_prod_le _ _).trans ?_
      calc ∑ i ∈ K.erase i₀, (X - C (x i) : F[X]).natDegree ≤ ∑ _i ∈ K.erase i₀, 1 :=
            Finset.sum_le_sum fun i _ => (natDegree_X_sub_C_le _)
        _ = (K.erase i₀).card := by simp
    have h2 : P.natDegree ≤ 1 + (K.erase i₀).card :=
      (natDegree_mul_le).trans (add_le_add natDegree_X_le h1)
    rw [Finset.card_erase_of_mem hi₀] at h2
    have : 0 < K.card := Finset.card_pos.mpr ⟨i₀, hi₀⟩
    omega
  have hc0 : P.coeff 0 = 0 := by simp [P, coeff_zero_eq_eval_zero]
  -- Σ_i b_i P(x_i) = 0
  have hsum : ∑ i, b i * P.eval (x i) = 0 := by
    have ht : t = (t - 1) + 1 := by omega
    have hev : ∀ y : F, P.eval y = ∑ k ∈ Finset.range (t - 1), P.coeff (k + 1) * y ^ (k + 1) := by
      intro y
      rw [eval_eq_sum_range' hdeg, ht, Finset.sum_range_succ', hc0]
      simp
    simp only [hev, Finset.mul_sum]
    rw [Finset.sum_comm]
    refine Finset.sum_eq_zero fun k hk => ?_
    have := hm ⟨k, Finset.mem_range.mp hk⟩
    simp only at this
    calc ∑ i, b i * (P.coeff (k + 1) * x i ^ (k + 1))
        = P.coeff (k + 1) * ∑ i, b i * x i ^ (k + 1) := by
          rw [Finset.mul_sum]; refine Finset.sum_congr rfl fun i _ => by ring
      _ = 0 := by rw [this, mul_zero]
  -- only i₀ survives
  have hsingle : ∑ i, b i * P.eval (x i) = b i₀ * P.eval (x i₀) := by
    refine Finset.sum_eq_single i₀ ?_ (fun h => absurd (Finset.mem_univ _) h)
    intro i _ hne
    by_cases hiK : i ∈ K
    · have : P.eval (x i) = 0 := by
        simp only [P, eval_mul, eval_X, eval_prod, eval_sub, eval_C]
        rw [Finset.prod_eq_zero (Finset.mem_erase.mpr ⟨hne, hiK⟩) (sub_self _), mul_zero]
      rw [this, mul_zero]
    · rw [hb i hiK, zero_mul]
  have hne : P.eval (x i₀) ≠ 0 := by
    simp only [P, eval_mul, eval_X, eval_prod, eval_sub, eval_C]
    refine mul_ne_zero (hx0 i₀) (Finset.prod_ne_zero_iff.mpr fun i hi => ?_)
    exact sub_ne_zero.mpr fun h => (Finset.mem_erase.mp hi).1 (hx h).symm
  rw [hsingle] at hsum
  exact (mul_eq_zero.mp hsum).resolve_right hne

section Insertion
variable {ρ δ ι : Type*} [Fintype ρ] [Fintype δ] [Fintype ι] [DecidableEq ρ] [DecidableEq δ]
  [DecidableEq ι]

/-- One Liu–Cao–Wong insertion step: the row `z₀` is replaced by one row per child `i`
(`[M z₀ | xᵢ, xᵢ², …, xᵢ^(t-1)]`), every other row is padded with zeros. -/
def lcwInsert (M : Matrix ρ δ F) (z₀ : ρ) (x : ι → F) (t : ℕ) : Matrix (ρ ⊕ ι) (δ ⊕ Fin (t - 1)) F :=
  fun r c => match r, c with
    | .inl r, .inl j => M r j
    | .inl _, .inr _ => 0
    | .inr _, .inl j => M z₀ j
    | .inr i, .inr k => x i ^ ((k : ℕ) + 1)

theorem lcwInsert_vecMul_inl (M : Matrix ρ δ F) (z₀ : ρ) (x : ι → F) (t : ℕ) (c' : ρ ⊕ ι → F) (j : δ) :
    (c' ᵥ* lcwInsert M z₀ x t) (.inl j) =
      ∑ r, c' (.inl r) * M r j + (∑ i, c' (.inr i)) * M z₀ j := by
  simp [vecMul, dotProduct, Fintype.sum_sum_type, lcwInsert, Finset.sum_mul]

theorem lcwInsert_vecMul_inr (M : Matrix ρ δ F) (z₀ : ρ) (x : ι → F) (t : ℕ) (c' : ρ ⊕ ι → F)
    (k : Fin (t - 1)) :
    (c' ᵥ* lcwInsert M z₀ x t) (.inr k) = ∑ i, c' (.inr i) * x i ^ ((k : ℕ) + 1) := by
  simp [vecMul, dotProduct, Fintype.sum_sum_type, lcwInsert]


end Insertion

end BronVerif.Lemmas.SharingLCW
