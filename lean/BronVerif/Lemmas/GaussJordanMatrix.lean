import BronVerif.Lemmas.GaussJordanSolve
import Mathlib.Data.Matrix.Mul
/-!
# List matrices versus Mathlib `Matrix`: `mulVec`

`toMat r c m`, `toVec n x` read list data as Mathlib objects; `mulVec_eq_iff` identifies the
model's `M x = b` with `M *ᵥ x = b`, `toMat_transposeN` the explicit transpose with `Matrix.transpose`.
-/
namespace BronVerif.LinAlg
open Finset
variable {F : Type} [Field F]

/-- the `r × c` Mathlib matrix read off a list matrix -/
def toMat {F : Type} [Zero F] (r c : ℕ) (m : Mat F) : Matrix (Fin r) (Fin c) F :=
  fun i j => entry m i.1 j.1

/-- the vector `Fin n → F` read off a list -/
def toVec {F : Type} [Zero F] (n : ℕ) (x : List F) : Fin n → F := fun i => x.getD i.1 0

theorem list_eq_of_getD (a b : List F) (h : a.length = b.length)
    (hv : ∀ i < a.length, a.getD i 0 = b.getD i 0) : a = b := by
  apply List.ext_getElem h
  intro i h1 h2
  have := hv i h1
  simpa [List.getD_eq_getElem?_getD, List.getElem?_eq_getElem h1, List.getElem?_eq_getElem h2]
    using this

theorem toVec_ofFn (n : ℕ) (v : Fin n → F) : toVec n (List.ofFn v) = v := by
  funext i
  simp [toVec, List.getD_eq_getElem?_getD]

theorem getD_mulVec (m : Mat F) (x : List F) (i : ℕ) (hi : i < m.length) :
    (mulVec m x).getD i 0 = dot (m.getD i []) x := by
  simp [mulVec, List.getD_eq_getElem?_getD, List.getElem?_map, List.getElem?_eq_getElem hi]

theorem toMat_mulVec (m : Mat F) (n : ℕ) (x : List F) (hx : x.length = n) (i : Fin m.length) :
    (toMat m.length n m).mulVec (toVec n x) i = dot (m.getD i.1 []) x := by
  rw [dot_eq_sum _ _ n (by rw [hx]; exact Nat.min_le_right _ _), Matrix.mulVec, dotProduct,
    ← Fin.sum_univ_eq_sum_range (fun c => (m.getD i.1 []).getD c 0 * x.getD c 0)]
  rfl

/-- the model's `M x = b` is Mathlib's `M *ᵥ x = b` -/
theorem mulVec_eq_iff (m : Mat F) (n : ℕ) (x b : List F) (hx : x.length = n)
    (hb : b.length = m.length) :
    mulVec m x = b ↔ (toMat m.length n m).mulVec (toVec n x) = toVec m.length b := by
  constructor
  · intro h
    funext i
    rw [toMat_mulVec m n x hx i, ← getD_mulVec m x i.1 i.2, h]; rfl
  · intro h
    refine list_eq_of_getD _ _ (by simp [mulVec, hb]) fun i hi => ?_
    have hi' : i < m.length := by simpa [mulVec] using hi
    rw [getD_mulVec m x i hi', ← toMat_mulVec m n x hx ⟨i, hi'⟩, h]; rfl

theorem toMat_transposeN (m : Mat F) (n : ℕ) :
    toMat n m.length (transposeN m n) = (toMat m.length n m).transpose := by
  ext j i
  simp only [toMat, Matrix.transpose_apply, entry, transposeN]
  simp [List.getD_eq_getElem?_getD]

end BronVerif.LinAlg
