import BronVerif.Lemmas.PaillierCRT
/-!
# The secret-key paths of the executable Paillier model

For `N = p·q` with distinct primes and `gcd(N, φ(N)) = 1`:

* `decCRT_enc`, `openCRT_enc`      : the Fermat-quotient / CRT decryption and the N-th root by CRT
                                     invert `enc`
* `recoverNonce_enc`, `exists_enc_eq` : textbook nonce recovery; every unit of `Z*_{N²}` is an
                                     encryption (so statements about `enc m r` cover all ciphertexts)
* `powModSk_eq`, `invModSk_eq`, `ctScalarSk_eq`, `noiseSk_eq`, `encSk_eq`, `rerandSk_eq`,
  `nonceScalarSk_eq`, `nonceMulSk_eq`, `repLin_eq_rep` : every CRT-accelerated operation equals the
                                     public-key formula
-/
namespace BronVerif.Lemmas.Paillier
open BronVerif.Paillier

/-- the key hypotheses of every statement below -/
structure KeyOK (p q : ℕ) : Prop where
  hp : p.Prime
  hq : q.Prime
  hpq : p ≠ q
  hco : Nat.Coprime (p * q) ((p - 1) * (q - 1))

namespace KeyOK
theorem dvd_sq {p q : ℕ} (_ : KeyOK p q) : p * p ∣ p * q * (p * q) := ⟨q * q, by ring⟩
theorem dvd_NN {p q : ℕ} (_ : KeyOK p q) : p ∣ p * q * (p * q) := ⟨q * (p * q), by ring⟩

theorem cop_of_N {p q : ℕ} (_ : KeyOK p q) {r : ℕ} (hr : Nat.Coprime r (p * q)) : Nat.gcd r p = 1 :=
  Nat.Coprime.coprime_mul_right_right hr

variable {p q : ℕ} (k : KeyOK p q)
include k

theorem symm : KeyOK q p :=
  ⟨k.hq, k.hp, k.hpq.symm, by have := k.hco; rwa [mul_comm q p, mul_comm (q - 1) (p - 1)]⟩

theorem cop : Nat.Coprime p q := (Nat.coprime_primes k.hp k.hq).2 k.hpq

/-- `gcd(N, φ(N)) = 1` forces both primes to be odd -/
theorem two_lt : 2 < p := by
  have h2 := k.hp.two_le
  rcases Nat.lt_or_ge 2 p with h | h
  · exact h
  · exfalso
    have hp2 : p = 2 := by omega
    have hq2 : q ≠ 2 := fun e => k.hpq (hp2.trans e.symm)
    have hqodd : q % 2 = 1 := (Nat.Prime.eq_two_or_odd k.hq).resolve_left hq2
    have hq1 := k.hq.two_le
    have d1 : 2 ∣ p * q := ⟨q, by rw [hp2]⟩
    have d2 : 2 ∣ (p - 1) * (q - 1) := by
      have : 2 ∣ q - 1 := by omega
      exact Dvd.dvd.mul_left this _
    have := Nat.dvd_gcd d1 d2
    rw [show Nat.gcd (p * q) ((p - 1) * (q - 1)) = 1 from k.hco] at this
    omega

theorem pos : 0 < p := k.hp.pos
theorem one_lt_N : 1 < p * q := by
  have := k.hp.two_le
  have := k.hq.two_le
  nlinarith

/-- `q` is invertible modulo `p − 1` -/
theorem cop_q_pred : Nat.Coprime q (p - 1) :=
  Nat.Coprime.coprime_mul_left (Nat.Coprime.coprime_mul_right_right k.hco)

/-- `p ≡ 1 (mod p − 1)`, hence `N ≡ q` -/
theorem N_mod_pred : p * q ≡ q [MOD p - 1] := by
  have h2 := k.two_lt
  have h1 : p ≡ 1 [MOD p - 1] := by
    have e : p = (p - 1) + 1 := by omega
    conv_lhs => rw [e]
    simp [Nat.ModEq]
  simpa using h1.mul_right q

theorem totient_N : Nat.totient (p * q) = (p - 1) * (q - 1) := by
  rw [Nat.totient_mul k.cop, Nat.totient_prime k.hp, Nat.totient_prime k.hq]

end KeyOK

theorem cast_mul_invModD {p q : ℕ} (hp : 0 < p) (hco : Nat.Coprime q p) :
    (q : ZMod p) * (invModD (q % p) p : ZMod p) = 1 := by
  have h := invModD_mul_modEq hp (coprime_mod hco)
  rw [← ZMod.natCast_eq_natCast_iff] at h
  simpa [ZMod.natCast_mod] using h

/-- a ciphertext with a unit nonce is a unit (the `Ciphertext` type invariant is preserved) -/
theorem enc_coprime (N m : ℕ) {r : ℕ} (hr : Nat.Coprime r N) : Nat.Coprime (enc N m r) N := by
  have h : enc N m r ≡ (1 + N) ^ m * r ^ N [MOD N] := (enc_modEq N m r).of_mul_left N
  rw [Nat.Coprime, h.gcd_eq]
  exact Nat.Coprime.mul_left (Nat.Coprime.pow_left m (by simp)) (Nat.Coprime.pow_left N hr)

/-- the ciphertext only depends on the nonce modulo `N` -/
theorem enc_mod_nonce (N m r : ℕ) : enc N m (r % N) = enc N m r := by
  have h := eq_enc_of_modEq (enc_modEq N m (r % N)) (Nat.ModEq.refl m) (Nat.mod_modEq r N)
  have h3 : enc N m (r % N) % (N * N) = enc N m (r % N) := by unfold enc; exact Nat.mod_mod _ _
  rw [h3] at h
  exact h

/-! ### decryption -/

/-- `c^(p-1) ≡ 1 + (m(p−1)q)·p (mod p²)` for `c = (1+N)^m r^N` -/
theorem enc_pow_pred {p q : ℕ} (k : KeyOK p q) (m : ℕ) {r : ℕ} (hr : Nat.Coprime r (p * q)) :
    enc (p * q) m r ^ (p - 1) ≡ 1 + (m * (p - 1) * q) * p [MOD p * p] := by
  have h0 : enc (p * q) m r ≡ (1 + p * q) ^ m * r ^ (p * q) [MOD p * p] :=
    (enc_modEq (p * q) m r).of_dvd k.dvd_sq
  have h1 := h0.pow (p - 1)
  rw [mul_pow, ← pow_mul, ← pow_mul] at h1
  have a : (1 + p * q) ^ (m * (p - 1)) ≡ 1 + (m * (p - 1) * q) * p [MOD p * p] := by
    have := (one_add_mul_pow (p * q) 1 (m * (p - 1))).of_dvd k.dvd_sq
    simp only [one_mul, mul_one] at this
    have e : 1 + m * (p - 1) * (p * q) = 1 + (m * (p - 1) * q) * p := by ring
    rwa [e] at this
  have b : r ^ (p * q * (p - 1)) ≡ 1 [MOD p * p] := by
    have e : p * q * (p - 1) = (p - 1) * p * q := by ring
    rw [e, pow_mul]
    simpa using (pow_phi_prime_sq k.hp (k.cop_of_N hr)).pow q
  simpa using h1.trans (a.mul b)

/-- the `p`-side residue computed by `Decrypt` is `m mod p` -/
theorem dec_residue {p q : ℕ} (k : KeyOK p q) (m : ℕ) {r : ℕ} (hr : Nat.Coprime r (p * q)) :
    m ≡ fermatQuot p (enc (p * q) m r) % p * ((p - invModD (q % p) p % p) % p) % p [MOD p] := by
  have hp0 := k.pos
  rw [fermatQuot_of_modEq k.hp.one_lt (enc_pow_pred k m hr)]
  rw [← ZMod.natCast_eq_natCast_iff]
  have hinv := cast_mul_invModD hp0 k.cop.symm
  have h1 : 1 ≤ p := hp0
  have h2 : invModD (q % p) p % p ≤ p := (Nat.mod_lt _ hp0).le
  simp only [Nat.cast_mul, ZMod.natCast_mod, Nat.cast_sub h1, Nat.cast_sub h2, ZMod.natCast_self,
    Nat.cast_one]
  linear_combination (-(m : ZMod p)) * hinv

/-- **CRT / Fermat-quotient decryption inverts encryption** -/
theorem decCRT_enc {p q m r : ℕ} (k : KeyOK p q) (hm : m < p * q) (hr : Nat.Coprime r (p * q)) :
    decCRT p q (enc (p * q) m r) = m := by
  unfold decCRT
  dsimp only
  have hr' : Nat.Coprime r (q * p) := by rwa [mul_comm]
  have hq := dec_residue k.symm m hr'
  rw [mul_comm q p] at hq
  rw [crt_eq_of_modEq k.pos k.cop (dec_residue k m hr) hq (Nat.mod_lt _ k.symm.pos),
    Nat.mod_eq_of_lt hm]

/-! ### nonce recovery -/

/-- `c·(1 − mN) ≡ r^N (mod N²)` -/
theorem rep_pow (N m : ℕ) : (1 + N) ^ m ≡ 1 + m * N [MOD N * N] := by
  have h := one_add_mul_pow N 1 m
  simp only [one_mul, mul_one] at h
  exact h

theorem one_add_mul_of_mod_eq_one {N w : ℕ} (hw : w < N * N) (h1 : w % N = 1) :
    ∃ t, t < N ∧ w = 1 + t * N := by
  refine ⟨w / N, Nat.div_lt_of_lt_mul hw, ?_⟩
  have := Nat.mod_add_div w N
  rw [h1, mul_comm] at this
  exact this.symm

theorem strip_plaintext {N : ℕ} (hN : 0 < N) (m r : ℕ) :
    enc N m r * ((1 + N * N - m * N % (N * N)) % (N * N)) % (N * N) ≡ r ^ N [MOD N * N] := by
  have hNN : 0 < N * N := Nat.mul_pos hN hN
  refine (Nat.mod_modEq _ _).trans ?_
  rw [← ZMod.natCast_eq_natCast_iff]
  have hz : ((N : ZMod (N * N))) * (N : ZMod (N * N)) = 0 := by
    rw [← Nat.cast_mul]; exact ZMod.natCast_self _
  have hc : ((enc N m r : ℕ) : ZMod (N * N)) = (1 + (m : ZMod (N * N)) * N) * (r : ZMod (N * N)) ^ N := by
    have h := (enc_modEq N m r).trans ((rep_pow N m).mul_right (r ^ N))
    rw [← ZMod.natCast_eq_natCast_iff] at h
    simpa using h
  have hle : m * N % (N * N) ≤ 1 + N * N := (Nat.mod_lt _ hNN).le.trans (by omega)
  simp only [Nat.cast_mul, ZMod.natCast_mod, Nat.cast_sub hle, Nat.cast_add, Nat.cast_one, hc,
    Nat.cast_pow]
  linear_combination ((r : ZMod (N * N)) ^ N *
    (1 + (m : ZMod (N * N)) * N - (m : ZMod (N * N)) ^ 2)) * hz

/-- the `p`-side root computed by `Open` is `r mod p` -/
theorem open_residue {p q y r : ℕ} (k : KeyOK p q) (hr : Nat.Coprime r (p * q))
    (hy : y ≡ r ^ (p * q) [MOD p * q * (p * q)]) :
    r ≡ powMod (y % p) (invModD (q % (p - 1)) (p - 1)) p [MOD p] := by
  have h2 := k.two_lt
  rw [powMod_eq]
  refine Nat.ModEq.trans ?_ (Nat.mod_modEq _ _).symm
  have hyp : y % p ≡ r ^ (p * q) [MOD p] := (Nat.mod_modEq _ _).trans (hy.of_dvd k.dvd_NN)
  have hd : p * q * invModD (q % (p - 1)) (p - 1) ≡ 1 [MOD p - 1] := by
    have h := invModD_mul_modEq (show 0 < p - 1 by omega) (coprime_mod k.cop_q_pred)
    exact ((k.N_mod_pred.trans (Nat.mod_modEq q (p - 1)).symm).mul_right _).trans h
  exact ((hyp.pow _).trans
    (pow_root (show 1 < p - 1 by omega) (pow_pred_prime k.hp (k.cop_of_N hr)) hd)).symm

/-- **`Open` returns the plaintext and the nonce** -/
theorem openCRT_enc {p q m r : ℕ} (k : KeyOK p q) (hm : m < p * q) (hr : Nat.Coprime r (p * q)) :
    openCRT p q (enc (p * q) m r) = (m, r % (p * q)) := by
  unfold openCRT
  dsimp only
  rw [decCRT_enc k hm hr]
  have hy := strip_plaintext (Nat.mul_pos k.pos k.symm.pos) m r
  have hr' : Nat.Coprime r (q * p) := by rwa [mul_comm]
  have hy' : enc (p * q) m r * ((1 + p * q * (p * q) - m * (p * q) % (p * q * (p * q))) %
      (p * q * (p * q))) % (p * q * (p * q)) ≡ r ^ (q * p) [MOD q * p * (q * p)] := by
    rw [mul_comm q p]; exact hy
  have hq := open_residue k.symm hr' hy'
  rw [crt_eq_of_modEq k.pos k.cop (open_residue k hr hy) hq
    (by rw [powMod_eq]; exact Nat.mod_lt _ k.symm.pos)]

/-- textbook nonce recovery returns the nonce -/
theorem recoverNonce_enc {p q m r : ℕ} (k : KeyOK p q) (hr : Nat.Coprime r (p * q)) :
    recoverNonce p q (enc (p * q) m r) m = r % (p * q) := by
  have h2 := k.two_lt
  have h2' := k.symm.two_lt
  unfold recoverNonce
  dsimp only
  have hs : ctMul (p * q) (enc (p * q) m r) (rep (p * q) (ptNeg (p * q) m)) =
      enc (p * q) (ptAdd (p * q) m (ptNeg (p * q) m)) r := shift_enc _ _ _ _
  rw [hs, powMod_eq]
  have h1 : ∀ j, (1 + p * q) ^ j ≡ 1 [MOD p * q] := fun j => by
    have : 1 + p * q ≡ 1 [MOD p * q] := by simp [Nat.ModEq]
    simpa using this.pow j
  have hy : enc (p * q) (ptAdd (p * q) m (ptNeg (p * q) m)) r % (p * q) ≡ r ^ (p * q) [MOD p * q] := by
    refine (Nat.mod_modEq _ _).trans ?_
    have := (enc_modEq (p * q) (ptAdd (p * q) m (ptNeg (p * q) m)) r).of_mul_left (p * q)
    simpa using this.trans ((h1 _).mul_right _)
  have hphi : 1 < (p - 1) * (q - 1) := by
    have : 2 ≤ p - 1 := by omega
    have : 2 ≤ q - 1 := by omega
    nlinarith
  have hd : p * q * invModD (p * q % ((p - 1) * (q - 1))) ((p - 1) * (q - 1)) ≡ 1
      [MOD (p - 1) * (q - 1)] := by
    have h := invModD_mul_modEq (show 0 < (p - 1) * (q - 1) by omega) (coprime_mod k.hco)
    exact ((Nat.mod_modEq _ _).symm.mul_right _).trans h
  have hE : r ^ ((p - 1) * (q - 1)) ≡ 1 [MOD p * q] := by
    have := Nat.ModEq.pow_totient hr
    rwa [k.totient_N] at this
  have := (hy.pow (invModD (p * q % ((p - 1) * (q - 1))) ((p - 1) * (q - 1)))).trans
    (pow_root hphi hE hd)
  exact this

/-! ### every unit of `Z*_{N²}` is an encryption -/

theorem exists_enc_eq {p q c : ℕ} (k : KeyOK p q) (hc : c < p * q * (p * q))
    (hcu : Nat.Coprime c (p * q)) :
    ∃ m r, m < p * q ∧ r < p * q ∧ Nat.Coprime r (p * q) ∧ enc (p * q) m r = c := by
  have h2 := k.two_lt
  have h2' := k.symm.two_lt
  have hN1 := k.one_lt_N
  have hN0 : 0 < p * q := by omega
  have hNN : 0 < p * q * (p * q) := Nat.mul_pos hN0 hN0
  -- the N-th root of c modulo N
  have hphi : 1 < (p - 1) * (q - 1) := by
    have : 2 ≤ p - 1 := by omega
    have : 2 ≤ q - 1 := by omega
    nlinarith
  obtain ⟨d, hd⟩ : ∃ d, p * q * d ≡ 1 [MOD (p - 1) * (q - 1)] :=
    ⟨_, ((Nat.mod_modEq _ _).symm.mul_right _).trans
      (invModD_mul_modEq (show 0 < (p - 1) * (q - 1) by omega) (coprime_mod k.hco))⟩
  have hE : c ^ ((p - 1) * (q - 1)) ≡ 1 [MOD p * q] := by
    have := Nat.ModEq.pow_totient hcu
    rwa [k.totient_N] at this
  let r := c ^ d % (p * q)
  have hrlt : r < p * q := Nat.mod_lt _ hN0
  have hru : Nat.Coprime r (p * q) := coprime_mod (Nat.Coprime.pow_left d hcu)
  have hrN : r ^ (p * q) ≡ c [MOD p * q] := by
    have a : r ^ (p * q) ≡ (c ^ d) ^ (p * q) [MOD p * q] := (Nat.mod_modEq _ _).pow _
    have b : (c ^ d) ^ (p * q) = (c ^ (p * q)) ^ d := by rw [← pow_mul, ← pow_mul, mul_comm]
    rw [b] at a
    exact a.trans (pow_root hphi hE hd)
  -- u = r^N mod N² and its inverse
  have hu : Nat.Coprime (r ^ (p * q)) (p * q * (p * q)) :=
    Nat.Coprime.pow_left _ (Nat.Coprime.mul_right hru hru)
  have hinv := invModD_mul_modEq hNN hu
  set ui := invModD (r ^ (p * q)) (p * q * (p * q)) with hui
  -- w = c · u⁻¹ ≡ 1 (mod N)
  have hw1 : c * ui ≡ 1 [MOD p * q] :=
    (hrN.symm.mul_right ui).trans (hinv.of_mul_left (p * q))
  have hwlt : c * ui % (p * q * (p * q)) < p * q * (p * q) := Nat.mod_lt _ hNN
  have hwN : c * ui % (p * q * (p * q)) % (p * q) = 1 := by
    rw [Nat.mod_mul_right_mod]
    exact Eq.trans hw1 (Nat.mod_eq_of_lt hN1)
  obtain ⟨t, htlt, hwt⟩ := one_add_mul_of_mod_eq_one hwlt hwN
  refine ⟨t, r, htlt, hrlt, hru, ?_⟩
  have e1 : enc (p * q) t r ≡ (1 + t * (p * q)) * r ^ (p * q) [MOD p * q * (p * q)] :=
    (enc_modEq _ _ _).trans ((rep_pow _ _).mul_right _)
  rw [← hwt] at e1
  have e2 : c * ui % (p * q * (p * q)) * r ^ (p * q) ≡ c [MOD p * q * (p * q)] := by
    have a : c * ui % (p * q * (p * q)) * r ^ (p * q) ≡ c * ui * r ^ (p * q) [MOD p * q * (p * q)] :=
      (Nat.mod_modEq _ _).mul_right _
    have b : c * ui * r ^ (p * q) = c * (r ^ (p * q) * ui) := by ring
    rw [b] at a
    simpa using a.trans (hinv.mul_left c)
  exact Nat.ModEq.eq_of_lt_of_lt (e1.trans e2) (enc_lt hN0 _ _) hc

/-! ### the secret-key operations equal the public-key formulas -/

theorem rep_eq_lin (N m : ℕ) : rep N m = (1 + m * N) % (N * N) := by
  unfold rep
  rw [powMod_eq]
  exact rep_pow N m

theorem repLin_eq_rep (N m : ℕ) : repLin N m = rep N m := by
  rw [rep_eq_lin]
  unfold repLin
  rw [Nat.mod_add_mod, add_comm]

theorem shiftLin_eq (N c d : ℕ) : shiftLin N c d = shift N c d := by
  unfold shiftLin shift
  rw [repLin_eq_rep]

theorem sq_regroup (p q : ℕ) : p * q * (p * q) = p * p * (q * q) := by ring

/-- **CRT exponentiation modulo `N²` is exact for every base and exponent** -/
theorem powModSk_eq {p q : ℕ} (k : KeyOK p q) (b e : ℕ) :
    powModSk p q b e = powMod b e (p * q * (p * q)) := by
  unfold powModSk
  rw [powMod_eq, sq_regroup]
  exact powModCRTWith_eq (Nat.mul_pos k.pos k.pos) (Nat.mul_pos k.symm.pos k.symm.pos)
    (coprime_sq_sq k.cop) (fun b hb => pow_phi_prime_sq k.hp hb)
    (fun b hb => pow_phi_prime_sq k.hq hb) b e

/-- CRT exponentiation modulo `N` (nonce group) is exact for every base and exponent -/
theorem powModSkN_eq {p q : ℕ} (k : KeyOK p q) (b e : ℕ) :
    powModSkN p q b e = powMod b e (p * q) := by
  unfold powModSkN
  rw [powMod_eq]
  exact powModCRTWith_eq k.pos k.symm.pos k.cop (fun b hb => pow_pred_prime k.hp hb)
    (fun b hb => pow_pred_prime k.hq hb) b e

theorem invModSk_eq {p q a : ℕ} (k : KeyOK p q) (ha : Nat.Coprime a (p * q)) :
    invModSk p q a = invModD a (p * q * (p * q)) := by
  unfold invModSk
  have hp1 := k.hp.one_lt
  have hq1 := k.hq.one_lt
  rw [sq_regroup]
  refine invModCRT_eq (by nlinarith) (by nlinarith) (coprime_sq_sq k.cop) ?_
  rw [← sq_regroup]
  exact Nat.Coprime.mul_right ha ha

/-- **`SecretKey.CiphertextScalarOp` equals the public-key `c^k mod N²`** for every unit `c` (the
`Contains` guard of the method) and every integer `k` -/
theorem ctScalarSk_eq {p q c : ℕ} (k : KeyOK p q) (hc : Nat.Coprime c (p * q)) (s : ℤ) :
    ctScalarSk p q c s = ctScalar (p * q) c s := by
  unfold ctScalarSk ctScalar
  dsimp only
  rw [powModSk_eq k]
  split
  · apply invModSk_eq k
    rw [powMod_eq]
    have : Nat.Coprime (c ^ s.natAbs) (p * q * (p * q)) :=
      Nat.Coprime.pow_left _ (Nat.Coprime.mul_right hc hc)
    exact Nat.Coprime.coprime_mul_right_right (coprime_mod this)
  · rfl

theorem nonceScalarSk_eq {p q r : ℕ} (k : KeyOK p q) (hr : Nat.Coprime r (p * q)) (s : ℤ) :
    nonceScalarSk p q r s = nonceScalar (p * q) r s := by
  unfold nonceScalarSk nonceScalar
  dsimp only
  rw [powModSkN_eq k]
  split
  · apply invModCRT_eq k.hp.one_lt k.hq.one_lt k.cop
    rw [powMod_eq]
    exact coprime_mod (Nat.Coprime.pow_left _ hr)
  · rfl

theorem nonceMulSk_eq {p q : ℕ} (k : KeyOK p q) (a b : ℕ) :
    nonceMulSk p q a b = nonceMul (p * q) a b := by
  unfold nonceMulSk nonceMul
  refine crt_eq_of_modEq (x := a * b) k.pos k.cop ?_ ?_ (Nat.mod_lt _ k.symm.pos)
  · exact ((Nat.mod_modEq _ _).trans ((Nat.mod_modEq _ _).mul (Nat.mod_modEq _ _))).symm
  · exact ((Nat.mod_modEq _ _).trans ((Nat.mod_modEq _ _).mul (Nat.mod_modEq _ _))).symm

/-- the `p²`-side of `ExpToN` -/
theorem expToN_residue {p q r : ℕ} (k : KeyOK p q) (hr : Nat.Coprime r (p * q)) :
    r ^ (p * q) ≡ powMod r (p * (p * q % (p - 1))) (p * p) [MOD p * p] := by
  have h2 := k.two_lt
  rw [powMod_eq]
  refine Nat.ModEq.trans ?_ (Nat.mod_modEq _ _).symm
  have e : p * (p * q % (p - 1)) = p * q % ((p - 1) * p) := by
    rw [show p * q % (p - 1) = q % (p - 1) from k.N_mod_pred, mul_comm (p - 1) p,
      Nat.mul_mod_mul_left]
  rw [e]
  exact pow_mod_exponent (pow_phi_prime_sq k.hp (k.cop_of_N hr)) _

/-- **`SecretKey.IdentityNoise` (`ExpToN`) equals `r^N mod N²`** for every unit nonce -/
theorem noiseSk_eq {p q r : ℕ} (k : KeyOK p q) (hr : Nat.Coprime r (p * q)) :
    noiseSk p q r = noise (p * q) r := by
  unfold noiseSk noise
  dsimp only
  have hr' : Nat.Coprime r (q * p) := by rwa [mul_comm]
  have hq := expToN_residue k.symm hr'
  rw [mul_comm q p] at hq
  rw [crt_eq_of_modEq (Nat.mul_pos k.pos k.pos) (coprime_sq_sq k.cop) (expToN_residue k hr) hq
    (by rw [powMod_eq]; exact Nat.mod_lt _ (Nat.mul_pos k.symm.pos k.symm.pos)),
    powMod_eq, sq_regroup]

theorem encPk_eq (N m r : ℕ) : encPk N m r = enc N m r := by
  unfold encPk enc ctMul
  rw [repLin_eq_rep]

/-- **`SecretKey.EncryptWithNonce` gives the textbook ciphertext** -/
theorem encSk_eq {p q : ℕ} (k : KeyOK p q) (m : ℕ) {r : ℕ} (hr : Nat.Coprime r (p * q)) :
    encSk p q m r = enc (p * q) m r := by
  unfold encSk enc ctMul
  rw [repLin_eq_rep, noiseSk_eq k hr]

theorem rerandSk_eq {p q : ℕ} (k : KeyOK p q) (c : ℕ) {s : ℕ} (hs : Nat.Coprime s (p * q)) :
    rerandSk p q c s = rerand (p * q) c s := by
  unfold rerandSk rerand
  rw [noiseSk_eq k hs]

end BronVerif.Lemmas.Paillier
