import BronVerif.Lemmas.RouterFrame
/-! The stored payload is the *first* one its sender deposited (core-only).

`FirstInv`: under the one-exchange hypothesis (`noCollect`: no receive on the correlation ID has
collected yet) the payload stored for `(cid, id)` is `firstDeposit cfg tr cid id`, and while the
reader is alive an absent key means that no member deposit for it has occurred. -/
namespace BronVerif.Router
set_option linter.unusedSectionVars false

variable {C P : Type} [DecidableEq C] [DecidableEq P]

/-! ### monotone parts of the state -/

theorem scan_stopped (s : State C P) (cid : C) : (scan s cid).stopped = s.stopped := by
  unfold scan
  split
  · rfl
  · split
    · split
      · rfl
      · split
        · rfl
        · split
          · rfl
          · split <;> rfl
    · rfl

theorem scan_fatal (s : State C P) (cid : C) : (scan s cid).fatal = s.fatal := by
  unfold scan
  split
  · rfl
  · split
    · split
      · rfl
      · split
        · rfl
        · split
          · rfl
          · split <;> rfl
    · rfl

/-- what `deposit` can do -/
theorem deposit_cases (cfg : Config) (s : State C P) (sender : Nat) (c : C) (p : P) :
    ((deposit cfg s sender c p).entries = s.entries ∧ (deposit cfg s sender c p).stopped = s.stopped ∧
      (deposit cfg s sender c p).buffered = s.buffered ∧ (deposit cfg s sender c p).log = s.log ∧
      (s.stopped = true ∨ sender ∉ cfg.members ∨ ∃ q, get s c sender = some q)) ∨
    (get s c sender = none ∧ sender ∈ cfg.members ∧ s.stopped = false ∧ cfg.bound ≤ s.buffered ∧
      (deposit cfg s sender c p).entries = s.entries ∧ (deposit cfg s sender c p).stopped = true ∧
      (deposit cfg s sender c p).log = s.log) ∨
    (get s c sender = none ∧ sender ∈ cfg.members ∧ s.stopped = false ∧ s.buffered < cfg.bound ∧
      (deposit cfg s sender c p).entries = ((c, sender), p) :: s.entries ∧
      (deposit cfg s sender c p).buffered = s.buffered + 1 ∧
      (deposit cfg s sender c p).stopped = false ∧ (deposit cfg s sender c p).log = s.log) := by
  unfold deposit
  split
  · rename_i h; left; exact ⟨rfl, rfl, rfl, rfl, Or.inl h⟩
  · rename_i hst
    have hst' : s.stopped = false := by cases h : s.stopped <;> simp_all
    split
    · rename_i hm
      split
      · rename_i q hq
        left
        split
        · exact ⟨rfl, rfl, rfl, rfl, Or.inr (Or.inr ⟨q, hq⟩)⟩
        · have hf := signal_fields ({ s with poison := upd s.poison c (some sender) } : State C P) c
          exact ⟨hf.1, hf.2.2.2.2.1, hf.2.2.2.1, hf.2.2.1, Or.inr (Or.inr ⟨q, hq⟩)⟩
      · rename_i hn
        split
        · rename_i hb
          right; left
          have hf := failWith_fields s .full
          exact ⟨hn, hm, hst', hb, hf.1, rfl, hf.2.2.1⟩
        · rename_i hb
          right; right
          have hf := signal_fields ({ s with entries := ((c, sender), p) :: s.entries, buffered := s.buffered + 1 } : State C P) c
          exact ⟨hn, hm, hst', by omega, hf.1, hf.2.2.2.1, by rw [hf.2.2.2.2.1]; exact hst', hf.2.2.1⟩
    · rename_i hm; left; exact ⟨rfl, rfl, rfl, rfl, Or.inr (Or.inl hm)⟩

/-- steps other than `deliver`, `scan`, `attach` do not write the log; `stopped` is only ever set -/
theorem step_log (cfg : Config) (s : State C P) (st : Step C P) :
    (step cfg s st).log = s.log ∨ ∃ e, (step cfg s st).log = e :: s.log := by
  cases st with
  | deliver sender c p =>
    left
    rcases deposit_cases cfg s sender c p with h | h | h
    · exact h.2.2.2.1
    · exact h.2.2.2.2.2.2
    · exact h.2.2.2.2.2.2.2
  | scan c =>
    simp only [step]
    rcases scan_cases s c with ⟨_, _, _, hl | ⟨r, _, hl⟩⟩ | ⟨w, _, _, _, _, _, _, hl⟩
    · exact Or.inl hl
    · exact Or.inr ⟨_, hl⟩
    · exact Or.inr ⟨_, hl⟩
  | garbage sender =>
    left; simp only [step, garbageStep]
    split
    · rfl
    · split
      · simp [failWith_fields]
      · rfl
  | transportErr =>
    left; simp only [step, transportStep]
    split
    · rfl
    · simp [failWith_fields]
  | attach cid exp =>
    simp only [step, attach]
    split
    · exact Or.inr ⟨_, rfl⟩
    · split
      · exact Or.inr ⟨_, rfl⟩
      · exact Or.inl rfl
  | wakeToken cid => left; simp only [step, wake]; split; · rfl
                     · split <;> rfl
  | wakeCtx cid => left; simp only [step, wake]; split; · rfl
                   · split <;> rfl
  | wakeFailed cid => left; simp only [step, wake]; split; · rfl
                      · split <;> rfl
  | detach cid => left; simp only [step, detach]; split; · rfl
                  · split <;> rfl
  | cancel cid => left; simp only [step, cancelStep]; split <;> rfl
  | close => left; simp [step, failWith_fields]

theorem log_sub (cfg : Config) (s : State C P) (st : Step C P) (e : C × Result P) (h : e ∈ s.log) :
    e ∈ (step cfg s st).log := by
  rcases step_log cfg s st with hl | ⟨x, hl⟩ <;> rw [hl]
  · exact h
  · exact List.mem_cons_of_mem _ h

theorem noCollect_of_step {cfg : Config} {s : State C P} {st : Step C P} {cid : C}
    (h : noCollect (step cfg s st) cid) : noCollect s cid :=
  fun m hm => h m (log_sub cfg s st _ hm)

theorem stopped_mono (cfg : Config) (s : State C P) (st : Step C P) (h : s.stopped = true) :
    (step cfg s st).stopped = true := by
  cases st with
  | deliver sender c p => simp [step, deposit, h]
  | scan c => simp only [step]; rw [scan_stopped]; exact h
  | garbage sender => simp [step, garbageStep, h]
  | transportErr => simp [step, transportStep, h]
  | attach cid exp =>
    simp only [step, attach]
    split
    · exact h
    · split <;> exact h
  | wakeToken cid => simp only [step, wake]; split; · exact h
                     · split <;> exact h
  | wakeCtx cid => simp only [step, wake]; split; · exact h
                   · split <;> exact h
  | wakeFailed cid => simp only [step, wake]; split; · exact h
                      · split <;> exact h
  | detach cid => simp only [step, detach]; split; · exact h
                  · split <;> exact h
  | cancel cid => simp only [step, cancelStep]; split <;> exact h
  | close => simp only [step]; rw [(failWith_fields s .closed).2.2.2.2.1]; exact h

theorem not_stopped_of_step {cfg : Config} {s : State C P} {st : Step C P}
    (h : (step cfg s st).stopped = false) : s.stopped = false := by
  cases hs : s.stopped with
  | false => rfl
  | true => rw [stopped_mono cfg s st hs] at h; cases h

/-! ### `firstDeposit` along a trace -/

/-- the payload a single step deposits for `(cid, id)` -/
def depositOf (cfg : Config) (cid : C) (id : Nat) : Step C P → Option P
  | .deliver sender c p => if sender = id ∧ c = cid ∧ id ∈ cfg.members then some p else none
  | _ => none

theorem firstDeposit_eq (cfg : Config) (tr : List (Step C P)) (cid : C) (id : Nat) :
    firstDeposit cfg tr cid id = tr.findSome? (depositOf cfg cid id) := by
  unfold firstDeposit
  congr 1

theorem firstDeposit_snoc_some {cfg : Config} {tr : List (Step C P)} {cid : C} {id : Nat} {p : P}
    (st : Step C P) (h : firstDeposit cfg tr cid id = some p) : firstDeposit cfg (tr ++ [st]) cid id = some p := by
  rw [firstDeposit_eq] at h ⊢
  rw [List.findSome?_append, h]; rfl

theorem firstDeposit_snoc_none {cfg : Config} {tr : List (Step C P)} {cid : C} {id : Nat}
    (st : Step C P) (h : firstDeposit cfg tr cid id = none) :
    firstDeposit cfg (tr ++ [st]) cid id = depositOf cfg cid id st := by
  rw [firstDeposit_eq] at h ⊢
  rw [List.findSome?_append, h]
  simp [List.findSome?]
  cases depositOf cfg cid id st <;> rfl

theorem firstDeposit_snoc_skip {cfg : Config} {tr : List (Step C P)} {cid : C} {id : Nat}
    (st : Step C P) (h : depositOf cfg cid id st = none) :
    firstDeposit cfg (tr ++ [st]) cid id = firstDeposit cfg tr cid id := by
  cases hf : firstDeposit cfg tr cid id with
  | some p => exact firstDeposit_snoc_some st hf
  | none => rw [firstDeposit_snoc_none st hf, h]

/-! ### the invariant -/

def FirstInv (cfg : Config) (tr : List (Step C P)) (s : State C P) : Prop :=
  ∀ cid id, noCollect s cid →
    (∀ p, get s cid id = some p → firstDeposit cfg tr cid id = some p) ∧
    (s.stopped = false → get s cid id = none → firstDeposit cfg tr cid id = none)

theorem first_of_same {cfg : Config} {tr : List (Step C P)} {s s' : State C P} {st : Step C P}
    {cid : C} {id : Nat}
    (hskip : depositOf cfg cid id st = none) (hget : get s' cid id = get s cid id)
    (hstop : s'.stopped = false → s.stopped = false)
    (h : (∀ p, get s cid id = some p → firstDeposit cfg tr cid id = some p) ∧
      (s.stopped = false → get s cid id = none → firstDeposit cfg tr cid id = none)) :
    (∀ p, get s' cid id = some p → firstDeposit cfg (tr ++ [st]) cid id = some p) ∧
    (s'.stopped = false → get s' cid id = none → firstDeposit cfg (tr ++ [st]) cid id = none) := by
  rw [firstDeposit_snoc_skip st hskip, hget]
  exact ⟨h.1, fun hs => h.2 (hstop hs)⟩

theorem first_step {cfg : Config} {tr : List (Step C P)} {s : State C P} (st : Step C P)
    (h : FirstInv cfg tr s) : FirstInv cfg (tr ++ [st]) (step cfg s st) := by
  intro cid id hnc'
  have hnc : noCollect s cid := noCollect_of_step hnc'
  have h0 := h cid id hnc
  by_cases hd : ∃ a b c, st = .deliver a b c
  · obtain ⟨sender, c, p, rfl⟩ := hd
    simp only [step] at hnc' ⊢
    by_cases hk : sender = id ∧ c = cid
    · obtain ⟨rfl, rfl⟩ := hk
      rcases deposit_cases cfg s sender c p with ⟨he, hs, _, _, hwhy⟩ | ⟨hn, hm, hst, _, he, hs, _⟩ | ⟨hn, hm, hst, _, he, _, hs, _⟩
      · have hget : get (deposit cfg s sender c p) c sender = get s c sender := by simp [get, he]
        rw [hget, hs]
        rcases hwhy with hstop | hnm | ⟨q, hq⟩
        · refine ⟨fun p' hp' => firstDeposit_snoc_some _ (h0.1 p' hp'), fun hf => ?_⟩
          rw [hstop] at hf; cases hf
        · have : depositOf cfg c sender (Step.deliver sender c p) = none := by simp [depositOf, hnm]
          rw [firstDeposit_snoc_skip _ this]
          exact h0
        · refine ⟨fun p' hp' => firstDeposit_snoc_some _ (h0.1 p' hp'), fun _ hnone => ?_⟩
          rw [hq] at hnone; cases hnone
      · have hget : get (deposit cfg s sender c p) c sender = get s c sender := by simp [get, he]
        rw [hget, hs]
        refine ⟨fun p' hp' => ?_, fun hf => by cases hf⟩
        rw [hn] at hp'; cases hp'
      · have hget : get (deposit cfg s sender c p) c sender = some p := by simp [get, he, lookupE]
        rw [hget]
        refine ⟨fun p' hp' => ?_, fun _ hnone => by cases hnone⟩
        cases hp'
        rw [firstDeposit_snoc_none _ (h0.2 hst hn)]
        simp [depositOf, hm]
    · have hskip : depositOf cfg cid id (Step.deliver sender c p) = none := by
        simp only [depositOf]
        rw [if_neg]
        intro hh; exact hk ⟨hh.1, hh.2.1⟩
      have hget : get (deposit cfg s sender c p) cid id = get s cid id := by
        rcases deposit_cases cfg s sender c p with ⟨he, _⟩ | ⟨_, _, _, _, he, _⟩ | ⟨_, _, _, _, he, _⟩
        · simp [get, he]
        · simp [get, he]
        · simp only [get, he, lookupE]
          rw [if_neg]
          intro e; cases e; exact hk ⟨rfl, rfl⟩
      exact first_of_same hskip hget (fun hs => not_stopped_of_step (cfg := cfg) (st := .deliver sender c p) hs) h0
  · by_cases hs : ∃ c, st = .scan c
    · obtain ⟨c, rfl⟩ := hs
      simp only [step] at hnc' ⊢
      have hskip : depositOf cfg cid id (Step.scan c : Step C P) = none := rfl
      refine first_of_same hskip ?_ (fun hs => by rw [scan_stopped] at hs; exact hs) h0
      rcases scan_cases s c with ⟨he, _⟩ | ⟨w, _, _, _, _, he, _, hl⟩
      · simp [get, he]
      · have hc : cid ≠ c := by
          intro e; subst e
          exact hnc' _ (by rw [hl]; exact List.mem_cons_self)
        simp only [get, he]
        exact lookupE_removeAll_of_not (by intro i _ e; cases e; exact hc rfl)
    · have hf := step_frame cfg s st (fun a b c e => hd ⟨a, b, c, e⟩) (fun c e => hs ⟨c, e⟩)
      have hskip : depositOf cfg cid id st = none := by
        cases st with
        | deliver a b c => exact absurd ⟨a, b, c, rfl⟩ hd
        | _ => rfl
      exact first_of_same hskip (by simp [get, hf.1]) not_stopped_of_step h0

theorem first_run (cfg : Config) (tr : List (Step C P)) : FirstInv cfg tr (run cfg tr (init : State C P)) := by
  apply run_induction cfg (fun tr s => FirstInv cfg tr s)
  · intro cid id _
    exact ⟨by intro p h; simp [init, get, lookupE] at h, by intro _ _; rfl⟩
  · intro tr s st h; exact first_step st h

/-- looking a requested sender up in the collected map gives the stored payload -/
theorem lookupE_collected (s : State C P) (cid : C) (id : Nat) : ∀ (exp : List Nat), id ∈ exp →
    lookupE id (collected s cid exp) = get s cid id
  | [], h => by simp at h
  | a :: exp, h => by
    simp only [collected, List.filterMap_cons]
    cases hg : get s cid a with
    | none =>
      simp only [Option.map_none]
      rcases List.mem_cons.mp h with rfl | h'
      · have := lookupE_collected s cid id exp
        by_cases hm : id ∈ exp
        · rw [hg]; rw [← hg]; simpa [collected] using this hm
        · rw [hg]
          apply lookupE_eq_none_iff.mpr
          intro hmem
          obtain ⟨e, he, hk⟩ := List.mem_map.mp hmem
          simp only [List.mem_filterMap] at he
          obtain ⟨i, hi, hmap⟩ := he
          cases hgi : get s cid i with
          | none => simp [hgi] at hmap
          | some q =>
            simp [hgi] at hmap
            rw [← hmap] at hk
            simp at hk
            exact hm (hk ▸ hi)
      · simpa [collected] using lookupE_collected s cid id exp h'
    | some p =>
      simp only [Option.map_some, lookupE]
      by_cases ha : a = id
      · rw [if_pos ha, ← ha, hg]
      · rw [if_neg ha]
        rcases List.mem_cons.mp h with rfl | h'
        · exact absurd rfl ha
        · simpa [collected] using lookupE_collected s cid id exp h'

/-! ### without the one-exchange hypothesis: first deposit since the last completed collection -/

theorem sinceRun_aux (cfg : Config) (cid : C) (id : Nat) (tr : List (Step C P)) (sa : State C P × Option P) :
    (tr.foldl (fun sa st => (step cfg sa.1 st, sinceStep cfg cid id sa.1 sa.2 st)) sa).1 = run cfg tr sa.1 := by
  induction tr generalizing sa with
  | nil => rfl
  | cons st tr ih => simp only [List.foldl_cons, run]; rw [ih]; rfl

theorem sinceRun_fst (cfg : Config) (cid : C) (id : Nat) (tr : List (Step C P)) :
    (sinceRun cfg cid id tr).1 = run cfg tr (init : State C P) := sinceRun_aux cfg cid id tr _

theorem firstSince_snoc (cfg : Config) (cid : C) (id : Nat) (tr : List (Step C P)) (st : Step C P) :
    firstSince cfg (tr ++ [st]) cid id
      = sinceStep cfg cid id (run cfg tr (init : State C P)) (firstSince cfg tr cid id) st := by
  simp only [firstSince, sinceRun, List.foldl_append, List.foldl_cons, List.foldl_nil]
  rw [← sinceRun_fst cfg cid id tr]; rfl

theorem lookupE_eraseKey_self {K V : Type} [DecidableEq K] {k : K} : ∀ {l : List (K × V)}, (l.map Prod.fst).Nodup →
    lookupE k (eraseKey k l) = none
  | [], _ => by simp [eraseKey, lookupE]
  | (k', v') :: l, h => by
    simp only [List.map_cons, List.nodup_cons] at h
    simp only [eraseKey]
    split
    · rename_i hk; subst hk; exact lookupE_eq_none_iff.mpr h.1
    · rename_i hk
      simp only [lookupE]
      rw [if_neg hk]
      exact lookupE_eraseKey_self h.2

theorem lookupE_removeAll_none {cid : C} {k : C × Nat} {exp : List Nat} {l : List ((C × Nat) × P)}
    (h : lookupE k l = none) : lookupE k (removeAll cid exp l) = none := by
  apply lookupE_eq_none_iff.mpr
  intro hm
  obtain ⟨e, he, hk⟩ := List.mem_map.mp hm
  exact lookupE_eq_none_iff.mp h (List.mem_map.mpr ⟨e, mem_removeAll he, hk⟩)

theorem lookupE_removeAll_mem {cid : C} {id : Nat} : ∀ {exp : List Nat} {l : List ((C × Nat) × P)},
    (l.map Prod.fst).Nodup → id ∈ exp → lookupE (cid, id) (removeAll cid exp l) = none
  | [], _, _, h => by simp at h
  | a :: exp, l, hnd, h => by
    simp only [removeAll, List.foldl_cons]
    by_cases ha : a = id
    · subst ha
      exact lookupE_removeAll_none (cid := cid) (exp := exp) (lookupE_eraseKey_self hnd)
    · rcases List.mem_cons.mp h with h | h
      · exact absurd h.symm ha
      · exact lookupE_removeAll_mem (cid := cid) (exp := exp) (nodup_eraseKey hnd) h

/-- the stored payload is the first deposit since the last completed collection; while the reader
is alive an absent key means nothing is pending for it -/
def SinceInv (cfg : Config) (tr : List (Step C P)) (s : State C P) : Prop :=
  s = run cfg tr (init : State C P) ∧ ∀ cid id,
    (∀ p, get s cid id = some p → firstSince cfg tr cid id = some p) ∧
    (s.stopped = false → get s cid id = none → firstSince cfg tr cid id = none)

theorem since_step {cfg : Config} {tr : List (Step C P)} {s : State C P} (st : Step C P)
    (h : SinceInv cfg tr s) : SinceInv cfg (tr ++ [st]) (step cfg s st) := by
  obtain ⟨hs, h⟩ := h
  refine ⟨by rw [run_snoc, ← hs], ?_⟩
  intro cid id
  have h0 := h cid id
  rw [firstSince_snoc, ← hs]
  have hacc : Acc cfg s := by rw [hs]; exact acc_run cfg tr
  -- steps that leave the key, the ghost and (monotonically) `stopped` alone
  have same : ∀ {s' : State C P}, get s' cid id = get s cid id → (s'.stopped = false → s.stopped = false) →
      sinceStep cfg cid id s (firstSince cfg tr cid id) st = firstSince cfg tr cid id →
      (∀ p, get s' cid id = some p → sinceStep cfg cid id s (firstSince cfg tr cid id) st = some p) ∧
      (s'.stopped = false → get s' cid id = none → sinceStep cfg cid id s (firstSince cfg tr cid id) st = none) := by
    intro s' hget hstop hg
    rw [hg, hget]
    exact ⟨h0.1, fun hs' => h0.2 (hstop hs')⟩
  by_cases hd : ∃ a b c, st = .deliver a b c
  · obtain ⟨sender, c, p, rfl⟩ := hd
    simp only [step]
    by_cases hk : sender = id ∧ c = cid
    · obtain ⟨rfl, rfl⟩ := hk
      rcases deposit_cases cfg s sender c p with ⟨he, hst, _, _, hwhy⟩ | ⟨hn, hm, hst, _, he, hst', _⟩ | ⟨hn, hm, hst, _, he, _, hst', _⟩
      · have hget : get (deposit cfg s sender c p) c sender = get s c sender := by simp [get, he]
        rcases hwhy with hstop | hnm | ⟨q, hq⟩
        · rw [hget, hst]
          refine ⟨fun p' hp' => ?_, fun hf => (by rw [hstop] at hf; cases hf)⟩
          have := h0.1 p' hp'
          simp only [sinceStep, this]
          split <;> rfl
        · exact same hget (by rw [hst]; exact fun h => h) (by simp [sinceStep, hnm])
        · rw [hget]
          refine ⟨fun p' hp' => ?_, fun _ hnone => (by rw [hq] at hnone; cases hnone)⟩
          have := h0.1 p' hp'
          simp only [sinceStep, this]
          split <;> rfl
      · have hget : get (deposit cfg s sender c p) c sender = get s c sender := by simp [get, he]
        rw [hget, hst']
        exact ⟨fun p' hp' => (by rw [hn] at hp'; cases hp'), fun hf => (by cases hf)⟩
      · have hget : get (deposit cfg s sender c p) c sender = some p := by simp [get, he, lookupE]
        rw [hget]
        refine ⟨fun p' hp' => ?_, fun _ hnone => (by cases hnone)⟩
        cases hp'
        simp [sinceStep, hm, h0.2 hst hn]
    · have hget : get (deposit cfg s sender c p) cid id = get s cid id := by
        rcases deposit_cases cfg s sender c p with ⟨he, _⟩ | ⟨_, _, _, _, he, _⟩ | ⟨_, _, _, _, he, _⟩
        · simp [get, he]
        · simp [get, he]
        · simp only [get, he, lookupE]
          rw [if_neg]
          intro e; cases e; exact hk ⟨rfl, rfl⟩
      refine same hget (fun hs' => not_stopped_of_step (cfg := cfg) (st := .deliver sender c p) hs') ?_
      simp only [sinceStep]
      rw [if_neg]
      intro hh; exact hk ⟨hh.1, hh.2.1⟩
  · by_cases hsc : ∃ c, st = .scan c
    · obtain ⟨c, rfl⟩ := hsc
      simp only [step]
      have hstop : (scan s c).stopped = false → s.stopped = false := by rw [scan_stopped]; exact fun h => h
      by_cases hcol : c = cid ∧ collects s cid id = true
      · obtain ⟨rfl, hcol⟩ := hcol
        -- the scan collects the key: it is gone, and so is the ghost
        simp only [collects] at hcol
        cases hw : s.waiter c with
        | none => simp [hw] at hcol
        | some w =>
          simp only [hw, Bool.and_eq_true, decide_eq_true_eq, Option.isNone_iff_eq_none] at hcol
          obtain ⟨⟨⟨hph, hpo⟩, hc⟩, hid⟩ := hcol
          have hent : (scan s c).entries = removeAll c w.exp s.entries := by
            simp [scan, hw, hph, hpo, hc, finish]
          have hget : get (scan s c) c id = none := by
            simp only [get, hent]
            exact lookupE_removeAll_mem hacc.nodup hid
          rw [hget]
          refine ⟨fun p' hp' => (by cases hp'), fun _ _ => ?_⟩
          simp [sinceStep, collects, hw, hph, hpo, hc, hid]
      · have hg : sinceStep cfg cid id s (firstSince cfg tr cid id) (Step.scan c) = firstSince cfg tr cid id := by
          simp only [sinceStep]; rw [if_neg hcol]
        refine same ?_ hstop hg
        rcases scan_cases s c with ⟨he, _⟩ | ⟨w, hw, hph, hpo, hc, he, _, _⟩
        · simp [get, he]
        · simp only [get, he]
          apply lookupE_removeAll_of_not
          intro i hi e
          cases e
          apply hcol
          refine ⟨rfl, ?_⟩
          simp [collects, hw, hph, hpo, hc, hi]
    · have hf := step_frame cfg s st (fun a b c e => hd ⟨a, b, c, e⟩) (fun c e => hsc ⟨c, e⟩)
      refine same (by simp [get, hf.1]) not_stopped_of_step ?_
      cases st with
      | deliver a b c => exact absurd ⟨a, b, c, rfl⟩ hd
      | scan c => exact absurd ⟨c, rfl⟩ hsc
      | _ => rfl

theorem since_run (cfg : Config) (tr : List (Step C P)) : ∀ cid id,
    (∀ p, get (run cfg tr (init : State C P)) cid id = some p → firstSince cfg tr cid id = some p) ∧
    ((run cfg tr (init : State C P)).stopped = false → get (run cfg tr (init : State C P)) cid id = none →
      firstSince cfg tr cid id = none) := by
  have : SinceInv cfg tr (run cfg tr (init : State C P)) := by
    apply run_induction cfg (fun tr s => SinceInv cfg tr s)
    · refine ⟨rfl, ?_⟩
      intro cid id
      exact ⟨by intro p h; simp [init, get, lookupE] at h, by intro _ _; rfl⟩
    · intro tr s st h; exact since_step st h
  exact this.2

end BronVerif.Router
