import Mathlib.Data.Nat.GCD.Basic
import Mathlib.Data.Nat.Prime.Basic
import Mathlib.Tactic.Ring
import Mathlib.Tactic.Linarith
import BronVerif.Model.BigNum
import BronVerif.Lemmas.BigNumBytes
/-!
# The binary gcd of `numct/internal/gcd.go` (mirrored by `BigNum.gcdBin`) is `Nat.gcd`

Invariant: `gcd(u, v) · shift` is preserved by every round.  Termination within `2·cap` rounds: the
measure `μ(u, v)` (sum of the bit lengths; for two odd numbers `1 + bitLen(min) + bitLen(max − min)`)
is at most `2·cap` for operands below `2^cap` and drops by at least one per round until `u = 0`.
-/
namespace BronVerif.Lemmas.BigNumGcd
open BronVerif.BigNum
open BronVerif.Lemmas.BigNumBytes (bitLen_le_iff lt_two_pow_bitLen)

/-! ### bit lengths -/

theorem bitLen_mono {a b : Nat} (h : a ≤ b) : bitLen a ≤ bitLen b :=
  (bitLen_le_iff a (bitLen b)).mpr (lt_of_le_of_lt h (lt_two_pow_bitLen b))

theorem bitLen_pos {n : Nat} (h : n ≠ 0) : 1 ≤ bitLen n := by
  by_contra hc
  have h0 : bitLen n ≤ 0 := by omega
  have := (bitLen_le_iff n 0).mp h0
  simp at this; exact h this

theorem bitLen_half {n : Nat} (h : n ≠ 0) : bitLen (n / 2) + 1 ≤ bitLen n := by
  have h1 := bitLen_pos h
  have h2 : n < 2 ^ bitLen n := lt_two_pow_bitLen n
  have h3 : n / 2 < 2 ^ (bitLen n - 1) := by
    have e : 2 ^ bitLen n = 2 * 2 ^ (bitLen n - 1) := by
      conv_lhs => rw [show bitLen n = (bitLen n - 1) + 1 by omega, pow_succ]
      ring
    omega
  have := (bitLen_le_iff (n / 2) (bitLen n - 1)).mpr h3
  omega

/-! ### one round -/

/-- the measure that drops in every round -/
def mu (u v : Nat) : Nat :=
  if u % 2 = 1 ∧ v % 2 = 1 then 1 + bitLen (min u v) + bitLen (max u v - min u v) else bitLen u + bitLen v

theorem gcdStep_fst (u v sh : Nat) :
    (gcdStep u v sh).1 = min (if u % 2 = 0 then u / 2 else u) (if v % 2 = 0 then v / 2 else v) := by
  unfold gcdStep
  dsimp only
  split_ifs <;> omega

theorem gcdStep_zero (v sh : Nat) : (gcdStep 0 v sh).1 = 0 := by
  rw [gcdStep_fst]; simp

theorem half_gcd_both (u v : Nat) (hu : u % 2 = 0) (hv : v % 2 = 0) : Nat.gcd (u / 2) (v / 2) * 2 = Nat.gcd u v := by
  obtain ⟨a, rfl⟩ : ∃ a, u = 2 * a := ⟨u / 2, by omega⟩
  obtain ⟨b, rfl⟩ : ∃ b, v = 2 * b := ⟨v / 2, by omega⟩
  rw [Nat.gcd_mul_left, Nat.mul_div_cancel_left _ (by norm_num), Nat.mul_div_cancel_left _ (by norm_num)]
  ring

theorem half_gcd_left (u v : Nat) (hu : u % 2 = 0) (hv : v % 2 = 1) : Nat.gcd (u / 2) v = Nat.gcd u v := by
  obtain ⟨a, rfl⟩ : ∃ a, u = 2 * a := ⟨u / 2, by omega⟩
  have hc : Nat.Coprime 2 v := Nat.coprime_two_left.mpr (Nat.odd_iff.mpr hv)
  rw [Nat.mul_div_cancel_left _ (by norm_num), Nat.Coprime.gcd_mul_left_cancel a hc]

theorem half_gcd_right (u v : Nat) (hu : u % 2 = 1) (hv : v % 2 = 0) : Nat.gcd u (v / 2) = Nat.gcd u v := by
  rw [Nat.gcd_comm, half_gcd_left v u hv hu, Nat.gcd_comm]

/-- the invariant `gcd(u, v) · shift` -/
theorem gcdStep_gcd (u v sh : Nat) :
    Nat.gcd (gcdStep u v sh).1 (gcdStep u v sh).2.1 * (gcdStep u v sh).2.2 = Nat.gcd u v * sh := by
  -- stage 1: halving
  have stage1 : Nat.gcd (if u % 2 = 0 then u / 2 else u) (if v % 2 = 0 then v / 2 else v) *
      (if u % 2 = 0 ∧ v % 2 = 0 then 2 * sh else sh) = Nat.gcd u v * sh := by
    by_cases hu : u % 2 = 0 <;> by_cases hv : v % 2 = 0
    · simp only [hu, hv, and_self, if_true]
      rw [← half_gcd_both u v hu hv]; ring
    · simp only [hu, hv, and_false, if_true, if_false]
      rw [half_gcd_left u v hu (by omega)]
    · simp only [hu, hv, false_and, if_true, if_false]
      rw [half_gcd_right u v (by omega) hv]
    · simp only [hu, hv, and_self, if_false]
  rw [← stage1]
  unfold gcdStep
  dsimp only
  generalize (if u % 2 = 0 then u / 2 else u) = u1
  generalize (if v % 2 = 0 then v / 2 else v) = v1
  congr 1
  by_cases hlt : v1 < u1
  · simp only [hlt, if_true]
    by_cases hodd : v1 % 2 = 1 ∧ u1 % 2 = 1
    · rw [if_pos hodd, Nat.gcd_sub_self_right (le_of_lt hlt), Nat.gcd_comm]
    · rw [if_neg hodd, Nat.gcd_comm]
  · simp only [hlt, if_false]
    by_cases hodd : u1 % 2 = 1 ∧ v1 % 2 = 1
    · rw [if_pos hodd, Nat.gcd_sub_self_right (by omega)]
    · rw [if_neg hodd]

/-- progress: a round with `u ≠ 0` either reaches `u = 0` or lowers the measure -/
theorem gcdStep_mu (u v sh : Nat) (hu : u ≠ 0) :
    (gcdStep u v sh).1 = 0 ∨ mu (gcdStep u v sh).1 (gcdStep u v sh).2.1 + 1 ≤ mu u v := by
  by_cases hv : v = 0
  · left
    subst hv
    rw [gcdStep_fst]; simp
  right
  -- the halving stage lowers the plain sum unless both are odd
  by_cases hodd : u % 2 = 1 ∧ v % 2 = 1
  · -- both odd: no halving, subtraction
    obtain ⟨ho1, ho2⟩ := hodd
    have hu2 : ¬ u % 2 = 0 := by omega
    have hv2 : ¬ v % 2 = 0 := by omega
    unfold gcdStep
    simp only [hu2, hv2, if_false, false_and]
    unfold mu
    by_cases hlt : v < u
    · simp only [hlt, if_true, ho1, ho2, and_self]
      have e1 : ¬ (True ∧ (u - v) % 2 = 1) := by rintro ⟨_, h⟩; omega
      rw [if_neg e1, min_eq_right (le_of_lt hlt), max_eq_left (le_of_lt hlt)]
      omega
    · simp only [hlt, if_false, ho1, ho2, and_self, if_true]
      have e1 : ¬ (True ∧ (v - u) % 2 = 1) := by rintro ⟨_, h⟩; omega
      rw [if_neg e1, min_eq_left (by omega), max_eq_right (by omega)]
      omega
  · -- at least one is even (and both are non-zero): the halving stage lowers the sum of the bit lengths
    have hmu : mu u v = bitLen u + bitLen v := by unfold mu; rw [if_neg hodd]
    have hsum : bitLen (if u % 2 = 0 then u / 2 else u) + bitLen (if v % 2 = 0 then v / 2 else v) + 1 ≤ bitLen u + bitLen v := by
      by_cases h1 : u % 2 = 0 <;> by_cases h2 : v % 2 = 0
      · simp only [h1, h2, if_true]
        have := bitLen_half hu; have := bitLen_half hv; omega
      · simp only [h1, h2, if_true, if_false]
        have := bitLen_half hu; omega
      · simp only [h1, h2, if_true, if_false]
        have := bitLen_half hv; omega
      · exfalso; apply hodd; omega
    rw [hmu]
    unfold gcdStep
    dsimp only
    generalize (if u % 2 = 0 then u / 2 else u) = u1 at hsum
    generalize (if v % 2 = 0 then v / 2 else v) = v1 at hsum
    by_cases hlt : v1 < u1
    · simp only [hlt, if_true]
      by_cases ho : v1 % 2 = 1 ∧ u1 % 2 = 1
      · rw [if_pos ho]
        have e1 : ¬ (v1 % 2 = 1 ∧ (u1 - v1) % 2 = 1) := by omega
        unfold mu; rw [if_neg e1]
        have := bitLen_mono (Nat.sub_le u1 v1); omega
      · rw [if_neg ho]
        unfold mu; rw [if_neg ho]; omega
    · simp only [hlt, if_false]
      by_cases ho : u1 % 2 = 1 ∧ v1 % 2 = 1
      · rw [if_pos ho]
        have e1 : ¬ (u1 % 2 = 1 ∧ (v1 - u1) % 2 = 1) := by omega
        unfold mu; rw [if_neg e1]
        have := bitLen_mono (Nat.sub_le v1 u1); omega
      · rw [if_neg ho]
        unfold mu; rw [if_neg ho]; omega

/-! ### the loop -/

theorem gcdLoop_zero : ∀ (n v sh : Nat), (gcdLoop n 0 v sh).1 = 0 := by
  intro n
  induction n with
  | zero => intro v sh; rfl
  | succ k ih =>
    intro v sh
    unfold gcdLoop
    dsimp only
    have h := gcdStep_zero v sh
    generalize gcdStep 0 v sh = r at h
    obtain ⟨r1, r2, r3⟩ := r
    dsimp only at h ⊢
    subst h
    exact ih r2 r3

theorem gcdLoop_gcd : ∀ (n u v sh : Nat),
    Nat.gcd (gcdLoop n u v sh).1 (gcdLoop n u v sh).2.1 * (gcdLoop n u v sh).2.2 = Nat.gcd u v * sh := by
  intro n
  induction n with
  | zero => intro u v sh; rfl
  | succ k ih =>
    intro u v sh
    unfold gcdLoop
    dsimp only
    rw [ih, gcdStep_gcd]

theorem mu_pos {u v : Nat} (hu : u ≠ 0) : 1 ≤ mu u v := by
  unfold mu
  split_ifs
  · omega
  · have := bitLen_pos hu; omega

theorem gcdLoop_terminates : ∀ (n u v sh : Nat), mu u v ≤ n → (gcdLoop n u v sh).1 = 0 := by
  intro n
  induction n with
  | zero =>
    intro u v sh h
    by_cases hu : u = 0
    · subst hu; rfl
    · have := mu_pos (v := v) hu; omega
  | succ k ih =>
    intro u v sh h
    by_cases hu : u = 0
    · subst hu; exact gcdLoop_zero _ _ _
    · unfold gcdLoop
      dsimp only
      rcases gcdStep_mu u v sh hu with h0 | hdec
      · generalize gcdStep u v sh = r at h0
        obtain ⟨r1, r2, r3⟩ := r
        dsimp only at h0 ⊢
        subst h0
        exact gcdLoop_zero _ _ _
      · exact ih _ _ _ (by omega)

theorem mu_le_cap (cap x y : Nat) (hx : x < 2 ^ cap) (hy : y < 2 ^ cap) : mu x y ≤ 2 * cap := by
  have bx := (bitLen_le_iff x cap).mpr hx
  have bY := (bitLen_le_iff y cap).mpr hy
  unfold mu
  split_ifs with hodd
  · -- both odd
    have hcap : cap ≠ 0 := by
      rintro rfl; simp at hx; omega
    have hmin : min x y < 2 ^ cap := lt_of_le_of_lt (min_le_left _ _) hx
    have hmax : max x y < 2 ^ cap := max_lt hx hy
    have hle : min x y ≤ max x y := le_trans (min_le_left _ _) (le_max_left _ _)
    have e : 2 ^ cap = 2 * 2 ^ (cap - 1) := by
      conv_lhs => rw [show cap = (cap - 1) + 1 by omega, pow_succ]
      ring
    by_cases hs : min x y < 2 ^ (cap - 1)
    · have h1 := (bitLen_le_iff _ (cap - 1)).mpr hs
      have h2 := (bitLen_le_iff (max x y - min x y) cap).mpr (by omega)
      omega
    · have h1 := (bitLen_le_iff _ cap).mpr hmin
      have h2 := (bitLen_le_iff (max x y - min x y) (cap - 1)).mpr (by omega)
      omega
  · omega

/-- **the mirrored binary gcd is `Nat.gcd`**, at every capacity -/
theorem gcdBin_eq (cap x y : Nat) : gcdBin cap x y = Nat.gcd (x % 2 ^ cap) (y % 2 ^ cap) := by
  have hpos : 0 < 2 ^ cap := by positivity
  have hx := Nat.mod_lt x hpos
  have hy := Nat.mod_lt y hpos
  unfold gcdBin
  dsimp only
  have hterm := gcdLoop_terminates (2 * cap) (x % 2 ^ cap) (y % 2 ^ cap) 1 (mu_le_cap cap _ _ hx hy)
  have hinv := gcdLoop_gcd (2 * cap) (x % 2 ^ cap) (y % 2 ^ cap) 1
  rw [hterm, Nat.gcd_zero_left, Nat.mul_one] at hinv
  rw [hinv]
  apply Nat.mod_eq_of_lt
  by_cases h0 : x % 2 ^ cap = 0
  · rw [h0, Nat.gcd_zero_left]; exact hy
  · exact lt_of_le_of_lt (Nat.gcd_le_left _ (Nat.pos_of_ne_zero h0)) hx

theorem lcmBin_eq (cap a b : Nat) (ha : a < 2 ^ cap) (hb : b < 2 ^ cap) : lcmBin cap a b = Nat.lcm a b := by
  unfold lcmBin
  by_cases h0 : a = 0 ∨ b = 0
  · rw [if_pos h0]
    rcases h0 with rfl | rfl <;> simp
  · rw [if_neg h0, gcdBin_eq, Nat.mod_eq_of_lt ha, Nat.mod_eq_of_lt hb]
    rfl

end BronVerif.Lemmas.BigNumGcd
