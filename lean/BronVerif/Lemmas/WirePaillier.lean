import BronVerif.Lemmas.WireShard
/-!
# Paillier public key on the wire: the size floor is part of what the decoder guarantees
-/
namespace BronVerif.Wire
open BronVerif.Cbor

theorem decPaillierPK_valid (x : Item) (v : PaillierPK) (h : decPaillierPK x = some v) :
    validPaillierPK v = true := by
  unfold decPaillierPK at h
  split at h
  · split at h
    · split at h
      · cases h; assumption
      · cases h
    · cases h
  · cases h

/-- what the floor means: a decoded key has a modulus of at least `2^3071`, i.e. at least 3072 bits -/
theorem decPaillierPK_floor (x : Item) (v : PaillierPK) (h : decPaillierPK x = some v) :
    2 ^ (ifcKeyLength - 1) ≤ beVal v.nBytes := by
  have hv := decPaillierPK_valid x v h
  simp only [validPaillierPK, Bool.and_eq_true, decide_eq_true_eq] at hv
  exact hv.1

theorem decPaillierPK_encPaillierPK (v : PaillierPK) (h : validPaillierPK v = true) :
    decPaillierPK (encPaillierPK v) = some v := by
  simp [encPaillierPK, decPaillierPK, h]

theorem pai_tag_canon (t : Nat) (x : List Item) (d : Nat) (ht : t < two64) (h2 : t ≠ 2) (h3 : t ≠ 3)
    (h : shd_Canon (.map x) d) : shd_Canon (.tag t (.map x)) d := by
  obtain ⟨w, c, dd⟩ := h
  refine ⟨?_, ?_, ?_⟩
  · have e : wf (.tag t (.map x)) = (decide (t < two64) && decide (t ≠ 2) && decide (t ≠ 3) && wf (.map x)) := by
      simp only [wf]
    rw [e, w]
    simp [ht, h2, h3]
  · simpa only [isCanon] using c
  · simp only [depth, isTag] at dd ⊢
    simpa using dd

theorem encPaillierPK_canonical (v : PaillierPK) (h : validPaillierPK v = true) :
    wf (encPaillierPK v) = true ∧ isCanon (encPaillierPK v) = true ∧ depth (encPaillierPK v) ≤ 4 := by
  simp only [validPaillierPK, Bool.and_eq_true, decide_eq_true_eq] at h
  have h0 : shd_Canon (.bytes v.nBytes) 0 := by
    refine ⟨?_, rfl, ?_⟩
    · simp only [wf, decide_eq_true_eq]; exact h.2
    · simp [depth]
  have h1 := shd_struct1 kNatBytes _ 0 (by decide) h0
  have h2 := shd_struct1 kNatPlus _ 1 (by decide) h1
  have h3 := shd_struct1 kN _ 2 (by decide) h2
  have h4 := pai_tag_canon tagPaillierGroupUnknownOrder _ 3 (by decide) (by decide) (by decide) h3
  exact shd_struct1 kGroup _ 3 (by decide) h4

theorem decodePaillierPK_valid (b : Bytes) (v : PaillierPK)
    (h : decodeWith decPaillierPK b = some v) : validPaillierPK v = true :=
  shd_decodeWith_valid decPaillierPK (fun v => validPaillierPK v = true) decPaillierPK_valid b v h

theorem decodePaillierPK_encodePaillierPK (v : PaillierPK) (h : validPaillierPK v = true) :
    decodeWith decPaillierPK (encodeWith encPaillierPK v) = some v :=
  shd_decodeWith_encodeWith encPaillierPK decPaillierPK v 4 (decPaillierPK_encPaillierPK v h)
    (encPaillierPK_canonical v h) (by decide)

/-- non-vacuity: a 3072-bit modulus (top byte `0x80`, 383 further bytes) is accepted, the same
string with the top bit cleared (3071 bits) is not -/
example : validPaillierPK ⟨0x80 :: List.replicate 383 1⟩ = true := by decide +kernel
example : validPaillierPK ⟨0x7f :: List.replicate 383 0xff⟩ = false := by decide +kernel

end BronVerif.Wire
