import BronVerif.Lemmas.RouterFrame
/-! Provenance of stored payloads and poison marks; the wake-up token invariant (core-only). -/
namespace BronVerif.Router
set_option linter.unusedSectionVars false

variable {C P : Type} [DecidableEq C] [DecidableEq P]

/-- every stored payload was delivered by that member under exactly that correlation ID; every
poison mark names a member that delivered two different payloads under that ID -/
def Prov (cfg : Config) (tr : List (Step C P)) (s : State C P) : Prop :=
  (∀ cid id p, ((cid, id), p) ∈ s.entries → Step.deliver id cid p ∈ tr ∧ id ∈ cfg.members) ∧
  (∀ cid b, s.poison cid = some b → b ∈ cfg.members ∧
    ∃ p q, p ≠ q ∧ Step.deliver b cid p ∈ tr ∧ Step.deliver b cid q ∈ tr)

theorem prov_of_same {cfg : Config} {tr : List (Step C P)} {s s' : State C P} (st : Step C P)
    (he : ∀ e, e ∈ s'.entries → e ∈ s.entries) (hp : s'.poison = s.poison) (h : Prov cfg tr s) :
    Prov cfg (tr ++ [st]) s' := by
  refine ⟨?_, ?_⟩
  · intro cid id p hm
    have := h.1 cid id p (he _ hm)
    exact ⟨List.mem_append_left _ this.1, this.2⟩
  · intro cid b hb
    rw [hp] at hb
    obtain ⟨hm, p, q, hne, h1, h2⟩ := h.2 cid b hb
    exact ⟨hm, p, q, hne, List.mem_append_left _ h1, List.mem_append_left _ h2⟩

theorem prov_step {cfg : Config} {tr : List (Step C P)} {s : State C P} (st : Step C P) (h : Prov cfg tr s) :
    Prov cfg (tr ++ [st]) (step cfg s st) := by
  by_cases hd : ∃ a b c, st = .deliver a b c
  · obtain ⟨sender, cid, p, rfl⟩ := hd
    simp only [step, deposit]
    split
    · exact prov_of_same _ (fun _ h => h) rfl h
    split
    · rename_i hmem
      split
      · rename_i q hq
        split
        · exact prov_of_same _ (fun _ h => h) rfl h
        · rename_i hne
          have hf := signal_fields ({ s with poison := upd s.poison cid (some sender) } : State C P) cid
          refine ⟨?_, ?_⟩
          · intro c' id p' hm
            rw [hf.1] at hm
            have := h.1 c' id p' hm
            exact ⟨List.mem_append_left _ this.1, this.2⟩
          · intro c' b hb
            rw [hf.2.1] at hb
            simp only [upd_apply] at hb
            split at hb
            · rename_i hc; subst hc; cases hb
              refine ⟨hmem, p, q, fun e => hne e.symm, by simp, ?_⟩
              exact List.mem_append_left _ (h.1 _ _ _ (mem_of_lookupE hq)).1
            · obtain ⟨hm, p1, q1, hne1, h1, h2⟩ := h.2 c' b hb
              exact ⟨hm, p1, q1, hne1, List.mem_append_left _ h1, List.mem_append_left _ h2⟩
      · split
        · exact prov_of_same _ (fun e h => by simpa [(failWith_fields s .full).1] using h)
            (by simp [(failWith_fields s .full).2.1]) h
        · have hf := signal_fields ({ s with entries := ((cid, sender), p) :: s.entries, buffered := s.buffered + 1 } : State C P) cid
          refine ⟨?_, ?_⟩
          · intro c' id p' hm
            rw [hf.1] at hm
            rcases List.mem_cons.mp hm with hm | hm
            · cases hm; exact ⟨by simp, hmem⟩
            · have := h.1 c' id p' hm
              exact ⟨List.mem_append_left _ this.1, this.2⟩
          · intro c' b hb
            rw [hf.2.1] at hb
            obtain ⟨hm, p1, q1, hne1, h1, h2⟩ := h.2 c' b hb
            exact ⟨hm, p1, q1, hne1, List.mem_append_left _ h1, List.mem_append_left _ h2⟩
    · exact prov_of_same _ (fun _ h => h) rfl h
  · by_cases hs : ∃ c, st = .scan c
    · obtain ⟨cid, rfl⟩ := hs
      simp only [step]
      rcases scan_cases s cid with ⟨he, _, hp, _⟩ | ⟨w, _, _, _, _, he, hp, _⟩
      · exact prov_of_same _ (fun _ h => by rw [he] at h; exact h) hp h
      · exact prov_of_same _ (fun _ h => by rw [he] at h; exact mem_removeAll h) hp h
    · have hf := step_frame cfg s st (fun a b c e => hd ⟨a, b, c, e⟩) (fun c e => hs ⟨c, e⟩)
      exact prov_of_same _ (fun _ h => by rw [hf.1] at h; exact h) hf.2.1 h

theorem prov_run (cfg : Config) (tr : List (Step C P)) : Prov cfg tr (run cfg tr (init : State C P)) := by
  apply run_induction cfg (fun tr s => Prov cfg tr s)
  · exact ⟨by intro cid id p h; simp [init] at h, by intro cid b h; simp [init] at h⟩
  · intro tr s st h; exact prov_step st h

end BronVerif.Router
