import Mathlib.Data.Matrix.Mul
import Mathlib.Algebra.BigOperators.Fin
import Mathlib.Algebra.BigOperators.Option
import Mathlib.Data.Fintype.Option
import Mathlib.Algebra.Field.Defs
import Mathlib.Tactic.Ring
import Mathlib.Tactic.LinearCombination
/-!
# Span programmes built from clause vectors (helper lemmas for C02)

`clauseMatrix` is the matrix of `cnf.InducedMSP` (and, with one row per clause, of
`unanimity.InducedMSP`) up to re-indexing: the `m` columns are `Option κ` with `none` the target
column 0 and `some i` column `i+1`; clause `some i` (the Go clause `i < m-1`) carries `e_{i+1}` and
the last clause `none` carries `e₀ - e₁ - … - e_{m-1}`.
-/
namespace BronVerif.Lemmas.SharingSpan
open Matrix BigOperators

variable {F : Type*} [Field F] {ρ κ : Type*} [Fintype ρ] [Fintype κ] [DecidableEq κ] [DecidableEq ρ]

/-- clause vector: clause `some i ↦ e_{some i}`, the last clause `none ↦ e_none − Σᵢ e_{some i}` -/
def clauseVec (j : Option κ) : Option κ → F :=
  match j with
  | some i => Pi.single (some i) 1
  | none => fun c => if c = none then 1 else -1

/-- the span programme of a CNF-type structure: row `r` carries the vector of its clause `cl r` -/
def clauseMatrix (cl : ρ → Option κ) : Matrix ρ (Option κ) F := fun r => clauseVec (cl r)

omit [DecidableEq ρ] [Fintype κ] in
theorem clause_vecMul_none (cl : ρ → Option κ) (c : ρ → F) :
    (c ᵥ* clauseMatrix cl) none = ∑ r, if cl r = none then c r else 0 := by
  simp only [vecMul, dotProduct, clauseMatrix]
  refine Finset.sum_congr rfl fun r _ => ?_
  cases h : cl r <;> simp [clauseVec]

omit [DecidableEq ρ] [Fintype κ] in
theorem clause_vecMul_some (cl : ρ → Option κ) (c : ρ → F) (i : κ) :
    (c ᵥ* clauseMatrix cl) (some i) =
      (∑ r, if cl r = some i then c r else 0) - ∑ r, if cl r = none then c r else 0 := by
  simp only [vecMul, dotProduct, clauseMatrix, ← Finset.sum_sub_distrib]
  refine Finset.sum_congr rfl fun r _ => ?_
  cases h : cl r with
  | none => simp [clauseVec]
  | some j =>
    by_cases hji : j = i
    · subst hji; simp [clauseVec]
    · simp [clauseVec, hji, Ne.symm hji]

/-- **CNF-type programmes accept exactly the row sets that meet every clause.** -/
theorem clause_accepts_iff (cl : ρ → Option κ) (R : Finset ρ) :
    (∃ c : ρ → F, (∀ r ∉ R, c r = 0) ∧ c ᵥ* clauseMatrix cl = Pi.single none 1) ↔
      ∀ j, ∃ r ∈ R, cl r = j := by
  constructor
  · rintro ⟨c, hsupp, hc⟩ j
    by_contra hno
    push Not at hno
    have ha : ∀ j', (∑ r, if cl r = j' then c r else 0) = 1 := by
      have h0 : (∑ r, if cl r = none then c r else 0) = 1 := by
        rw [← clause_vecMul_none, hc]; simp
      intro j'
      cases j' with
      | none => exact h0
      | some i =>
        have := clause_vecMul_some cl c i
        rw [hc, h0] at this
        simp at this
        linear_combination -this
    have hz : (∑ r, if cl r = j then c r else 0) = 0 := by
      refine Finset.sum_eq_zero fun r _ => ?_
      by_cases hr : r ∈ R
      · simp [hno r hr]
      · simp [hsupp r hr]
    rw [ha j] at hz
    exact one_ne_zero hz
  · intro h
    choose g hgR hg using h
    have hinj : ∀ r, r = g (cl r) ↔ ∃ j, r = g j := by
      intro r
      constructor
      · intro hr; exact ⟨_, hr⟩
      · rintro ⟨j, rfl⟩; rw [hg j]
    let c : ρ → F := fun r => if r = g (cl r) then 1 else 0
    have ha : ∀ j, (∑ r, if cl r = j then c r else 0) = 1 := by
      intro j
      rw [Finset.sum_eq_single (g j)]
      · simp [c, hg j]
      · intro r _ hne
        by_cases hcl : cl r = j
        · have : r ≠ g (cl r) := by rw [hcl]; exact hne
          simp [c, this]
        · simp [hcl]
      · intro h; exact absurd (Finset.mem_univ _) h
    refine ⟨c, ?_, ?_⟩
    · intro r hr
      have : r ≠ g (cl r) := fun h => hr (h ▸ hgR _)
      simp [c, this]
    · ext col
      cases col with
      | none => rw [clause_vecMul_none, ha]; simp
      | some i => rw [clause_vecMul_some, ha, ha]; simp

end BronVerif.Lemmas.SharingSpan
