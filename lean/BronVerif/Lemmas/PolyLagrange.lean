import Mathlib.LinearAlgebra.Lagrange
import BronVerif.Lemmas.PolyList
/-!
# Coefficient lists as Mathlib polynomials; the Lagrange model against `Mathlib.LinearAlgebra.Lagrange`
-/
namespace BronVerif.Lemmas.PolyLagrange
open BronVerif BronVerif.LinAlg BronVerif.Poly BronVerif.Lemmas.PolyList Polynomial
open scoped BigOperators

variable {F : Type} [Field F]

/-- the polynomial with coefficient list `cs` (ascending) -/
noncomputable def toPoly (cs : List F) : F[X] :=
  ∑ i ∈ Finset.range cs.length, C (cs.getD i 0) * X ^ i

theorem toPoly_nil : toPoly ([] : List F) = 0 := by simp [toPoly]

theorem toPoly_cons (c : F) (cs : List F) : toPoly (c :: cs) = C c + X * toPoly cs := by
  unfold toPoly
  rw [List.length_cons, Finset.sum_range_succ', Finset.mul_sum]
  simp only [List.getD_cons_succ, List.getD_cons_zero, pow_zero, mul_one]
  rw [add_comm]; congr 1
  apply Finset.sum_congr rfl; intro i _; ring

theorem eval_eq_toPoly (cs : List F) (x : F) : Poly.eval cs x = (toPoly cs).eval x := by
  induction cs with
  | nil => simp [Poly.eval, toPoly_nil]
  | cons c cs ih =>
    have : Poly.eval (c :: cs) x = Poly.eval cs x * x + c := rfl
    rw [this, ih, toPoly_cons]; simp; ring

theorem getD_of_le (cs : List F) {m : ℕ} (h : cs.length ≤ m) : cs.getD m 0 = 0 := by
  simp [List.getD_eq_getElem?_getD, List.getElem?_eq_none h]

theorem coeff_toPoly (cs : List F) (i : ℕ) : (toPoly cs).coeff i = cs.getD i 0 := by
  unfold toPoly
  simp only [finsetSum_coeff, coeff_C_mul, coeff_X_pow]
  by_cases h : i < cs.length
  · rw [Finset.sum_eq_single i]
    · simp
    · intro b _ hb; simp [Ne.symm hb]
    · intro hi; simp at hi; omega
  · rw [Finset.sum_eq_zero]
    · rw [getD_of_le _ (not_lt.mp h)]
    · intro j hj; simp at hj; have : i ≠ j := by omega
      simp [this]

theorem degree_toPoly_lt (cs : List F) : (toPoly cs).degree < cs.length := by
  rw [Polynomial.degree_lt_iff_coeff_zero]
  intro m hm
  rw [coeff_toPoly, getD_of_le _ hm]

/-- node function of a node list -/
def nodeFn (xs : List F) : ℕ → F := fun j => xs.getD j 0

theorem nodeFn_injOn {xs : List F} (h : xs.Nodup) :
    Set.InjOn (nodeFn xs) (Finset.range xs.length : Set ℕ) := by
  intro i hi j hj hij
  simp only [Finset.coe_range, Set.mem_Iio] at hi hj
  simp only [nodeFn, List.getD_eq_getElem?_getD, List.getElem?_eq_getElem hi,
    List.getElem?_eq_getElem hj, Option.getD_some] at hij
  exact (List.Nodup.getElem_inj_iff h).mp hij

theorem othersIdx_prod (n i : ℕ) (f : ℕ → F) :
    ((othersIdx n i).map f).prod = ∏ j ∈ (Finset.range n).erase i, f j := by
  unfold othersIdx
  rw [← List.prod_toFinset f (List.Nodup.filter _ List.nodup_range)]
  congr 1
  ext j; simp [and_comm]

theorem basisNum_eq (xs : List F) (x : F) (i : ℕ) :
    basisNum xs x i = ∏ j ∈ (Finset.range xs.length).erase i, (x - nodeFn xs j) := by
  unfold basisNum; rw [prodL_eq_prod, othersIdx_prod]; rfl

theorem basisDen_eq (xs : List F) (i : ℕ) :
    basisDen xs i = ∏ j ∈ (Finset.range xs.length).erase i, (nodeFn xs i - nodeFn xs j) := by
  unfold basisDen; rw [prodL_eq_prod, othersIdx_prod]; rfl

theorem basisDen_ne_zero {xs : List F} (h : xs.Nodup) {i : ℕ} (hi : i < xs.length) :
    basisDen xs i ≠ 0 := by
  rw [basisDen_eq, Finset.prod_ne_zero_iff]
  intro j hj
  rw [Finset.mem_erase, Finset.mem_range] at hj
  intro h0
  exact hj.1 ((nodeFn_injOn h (by simpa using hj.2) (by simpa using hi) (sub_eq_zero.mp h0).symm))

/-- the model's basis value is the value of Mathlib's Lagrange basis polynomial -/
theorem basisTerm_eq (xs : List F) (x : F) (i : ℕ) :
    basisNum xs x i * (basisDen xs i)⁻¹
      = (Lagrange.basis (Finset.range xs.length) (nodeFn xs) i).eval x := by
  rw [basisNum_eq, basisDen_eq, Lagrange.basis, eval_prod, ← Finset.prod_inv_distrib,
    ← Finset.prod_mul_distrib]
  apply Finset.prod_congr rfl
  intro j _
  simp [Lagrange.basisDivisor, mul_comm]

theorem basisAt_eq_basis [DecidableEq F] {xs : List F} (h : xs.Nodup) (x : F) :
    basisAt xs x = some ((List.range xs.length).map fun i =>
      (Lagrange.basis (Finset.range xs.length) (nodeFn xs) i).eval x) := by
  unfold basisAt
  rw [if_neg]
  · simp only [basisTerms, basisTerm_eq]
  · simp only [List.any_eq_true, List.mem_range, decide_eq_true_eq, not_exists, not_and]
    intro i hi; exact basisDen_ne_zero h hi

theorem dot_powers (x : F) (c : List F) : dot (powers x c.length) c = Poly.eval c x := by
  induction c with
  | nil => simp [powers, Poly.eval]
  | cons a c ih =>
    have : Poly.eval (a :: c) x = Poly.eval c x * x + a := rfl
    rw [this, List.length_cons, powers, dot_cons, dot_map_mul_right, ih]; ring

theorem toPoly_injective {a b : List F} (hlen : a.length = b.length) (h : toPoly a = toPoly b) :
    a = b := by
  apply List.ext_getElem hlen
  intro i h1 h2
  have := congrArg (fun p => Polynomial.coeff p i) h
  simpa [coeff_toPoly, List.getD_eq_getElem?_getD, h1, h2] using this

/-- every solution of the model's Vandermonde system interpolates -/
theorem vandermonde_solution_eval (xs ys c : List F) (hc : c.length = xs.length)
    (hsol : mulVec (xs.map fun x => powers x xs.length) c = ys) :
    ∀ i, i < xs.length → Poly.eval c (xs.getD i 0) = ys.getD i 0 := by
  intro i hi
  subst hsol
  unfold mulVec
  rw [List.map_map]
  simp only [List.getD_eq_getElem?_getD, List.getElem?_map, List.getElem?_eq_getElem hi,
    Option.map_some, Option.getD_some, Function.comp]
  rw [← hc, dot_powers]

end BronVerif.Lemmas.PolyLagrange
