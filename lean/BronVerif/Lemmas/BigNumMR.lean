import BronVerif.Lemmas.BigNumSqrt
/-!
# Miller–Rabin of `Model/BigNum.lean` never rejects a prime

`mrWitnessOk_prime`: for a prime `p` with `p - 1 = 2^s · d`, every base passes the strong-probable-prime
test of the model; `probablyPrime_of_prime`: the 40-base test of the driver accepts every prime.
(The converse — what the test accepts is prime — is *not* a theorem: it is the named partial of C17.)
-/
namespace BronVerif.Lemmas.BigNumMR
open BronVerif.BigNum BronVerif.Lemmas.BigNumSqrt
open BronVerif.Lemmas.BigNumArith (powMod_eq)

section prime
variable {p : Nat} [hpf : Fact p.Prime]

/-- if `y^(2^k) = 1` and `y ≠ 1`, squaring repeatedly meets `-1` within `k - 1` further squarings -/
theorem mrLoop_spec : ∀ (k y : Nat), y < p → (y : ZMod p) ^ 2 ^ k = 1 → (y : ZMod p) ≠ 1 →
    y = p - 1 ∨ mrLoop (k - 1) p (y * y % p) = true := by
  have hp0 : 0 < p := hpf.out.pos
  intro k
  induction k with
  | zero => intro y _ h hne; exact absurd (by simpa using h) hne
  | succ k ih =>
    intro y hy h hne
    by_cases hm : y = p - 1
    · exact Or.inl hm
    · right
      have hy' : y * y % p < p := Nat.mod_lt _ hp0
      have hpow : ((y * y % p : ℕ) : ZMod p) ^ 2 ^ k = 1 := by
        rw [cast_mulmod, ← pow_two_pow_succ]; exact h
      have hne' : ((y * y % p : ℕ) : ZMod p) ≠ 1 := by
        rw [cast_mulmod]
        intro hc
        rcases mul_self_eq_one_iff.mp hc with h1 | h1
        · exact hne h1
        · exact hm ((cast_eq_neg_one_iff y hy).mp h1)
      have hne1 : ¬ (y * y % p == 1) = true := by
        rw [beq_iff_eq]; intro hc; apply hne'; rw [hc, Nat.cast_one]
      have hk0 : k ≠ 0 := by
        rintro rfl; apply hne'; simpa using hpow
      obtain ⟨k', rfl⟩ := Nat.exists_eq_succ_of_ne_zero hk0
      simp only [Nat.succ_eq_add_one, Nat.add_sub_cancel] at *
      unfold mrLoop
      rcases ih (y * y % p) hy' hpow hne' with h1 | h1
      · rw [if_pos (by rw [beq_iff_eq]; exact h1)]
      · by_cases hc : (y * y % p == p - 1) = true
        · rw [if_pos hc]
        · rw [if_neg hc, if_neg hne1]; exact h1

/-- every base passes the strong-probable-prime test of the model modulo a prime -/
theorem mrWitnessOk_prime (s d a : Nat) (hsd : p - 1 = 2 ^ s * d) : mrWitnessOk p s d a = true := by
  have hp0 : 0 < p := hpf.out.pos
  unfold mrWitnessOk
  dsimp only
  by_cases h0 : (a % p == 0) = true
  · rw [if_pos h0]
  · rw [if_neg h0]
    rw [beq_iff_eq] at h0
    have hx : powMod (a % p) d p < p := by rw [powMod_eq]; exact Nat.mod_lt _ hp0
    have ha : ((a % p : ℕ) : ZMod p) ≠ 0 := by
      rw [Ne, cast_eq_zero_iff, Nat.mod_mod]; exact h0
    have hpow : ((powMod (a % p) d p : ℕ) : ZMod p) ^ 2 ^ s = 1 := by
      rw [cast_powMod, ← pow_mul, mul_comm, ← hsd]
      exact ZMod.pow_card_sub_one_eq_one ha
    by_cases h1 : (powMod (a % p) d p : ZMod p) = 1
    · have := (cast_eq_one_iff _ hx).mp h1
      simp [this]
    · rcases mrLoop_spec s _ hx hpow h1 with h | h
      · simp [h]
      · simp [h]

/-- the 40-base Miller–Rabin test of the driver accepts every prime -/
theorem probablyPrime_of_prime : probablyPrime p = true := by
  have h2 : 2 ≤ p := hpf.out.two_le
  unfold probablyPrime
  rw [if_neg (by omega)]
  by_cases hc : mrBases.contains p = true
  · rw [if_pos hc]
  · rw [if_neg hc]
    have hany : ¬ mrBases.any (fun b => p % b == 0) = true := by
      rw [List.any_eq_true]
      rintro ⟨b, hb, hdiv⟩
      rw [beq_iff_eq] at hdiv
      have hbd : b ∣ p := Nat.dvd_of_mod_eq_zero hdiv
      have hb2 : ∀ b ∈ mrBases, 2 ≤ b := by decide
      rcases (Nat.dvd_prime hpf.out).mp hbd with h | h
      · have := hb2 b hb; omega
      · apply hc; rw [List.contains_iff_mem]; rw [← h]; exact hb
    rw [if_neg hany]
    dsimp only
    rw [List.all_eq_true]
    intro b _
    have hp1 : p - 1 ≠ 0 := by omega
    have hlt : p - 1 < 2 ^ bitLen p := lt_of_le_of_lt (Nat.sub_le _ _) (BronVerif.Lemmas.Jacobi.lt_two_pow_bitLen p)
    exact mrWitnessOk_prime _ _ b (BronVerif.Lemmas.Jacobi.twoAdic_spec (bitLen p) (p - 1) hp1 hlt).1

end prime

end BronVerif.Lemmas.BigNumMR
