import BronVerif.Lemmas.PolyList
/-!
# `Lift` / `LeftAction` / `RightAction` helpers
-/
namespace BronVerif.Lemmas.PolyMatrix
open BronVerif BronVerif.LinAlg BronVerif.Poly BronVerif.Lemmas.PolyList

variable {F G : Type} [Field F] [AddCommGroup G] [Module F G]

theorem getD_map_smul (row : List F) (g : G) (j : ℕ) :
    (row.map fun c => c • g).getD j 0 = row.getD j 0 • g := by
  by_cases h : j < row.length
  · simp [List.getD_eq_getElem?_getD, h]
  · have h' : row.length ≤ j := not_lt.mp h
    simp [List.getD_eq_getElem?_getD, h']

theorem gtranspose_lift (R : Mat F) (g : G) :
    gtranspose (lift R g) = (transpose R).map fun col => col.map fun c => c • g := by
  unfold gtranspose transpose transposeN numCols lift
  have hlen : ((R.map fun r => r.map fun c => c • g).headD []).length = (R.headD []).length := by
    cases R <;> simp
  rw [hlen, List.map_map]
  apply List.map_congr_left
  intro j _
  simp only [Function.comp, List.map_map]
  apply List.map_congr_left
  intro row _
  exact getD_map_smul row g j

end BronVerif.Lemmas.PolyMatrix
