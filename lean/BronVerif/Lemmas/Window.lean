import Mathlib.Data.Nat.Bitwise
import Mathlib.Algebra.BigOperators.Group.List.Basic
import Mathlib.Algebra.Group.Basic
import Mathlib.Tactic.Ring
import Mathlib.Tactic.Linarith
import Mathlib.Tactic.Abel
import BronVerif.Model.Window
/-!
Lemmas about the window model (`Model/Window.lean`): the digit extraction `getWindow` is
`(k >>> start) % 2^w`, base-`2^w` digits recompose the number, the precomputed table holds the
multiples `j • P`, the bucket scatter / running-sum collapse compute `Σ d • P`.
-/
namespace BronVerif.Lemmas.Window
open BronVerif.Window

/-! ## bytes and bits -/

theorem leToNatL_lt (b : List UInt8) : leToNatL b < 2 ^ (8 * b.length) := by
  induction b with
  | nil => simp [leToNatL]
  | cons x xs ih =>
    have hx : x.toNat < 256 := x.toNat_lt
    simp only [leToNatL, List.length_cons]
    have : 2 ^ (8 * (xs.length + 1)) = 256 * 2 ^ (8 * xs.length) := by
      rw [Nat.mul_add, Nat.pow_add]; norm_num [Nat.mul_comm]
    rw [this]
    nlinarith

theorem leToNat_lt (b : Array UInt8) : leToNat b < 2 ^ (8 * b.size) := by
  simpa [leToNat] using leToNatL_lt b.toList

theorem testBit_leToNatL (b : List UInt8) (i : Nat) :
    (leToNatL b).testBit i = (b.getD (i / 8) 0).toNat.testBit (i % 8) := by
  induction b generalizing i with
  | nil => simp [leToNatL]
  | cons x xs ih =>
    have hx : x.toNat < 2 ^ 8 := x.toNat_lt
    have h := Nat.testBit_two_pow_mul_add (leToNatL xs) hx i
    have e : leToNatL (x :: xs) = 2 ^ 8 * leToNatL xs + x.toNat := by simp only [leToNatL]; omega
    rw [e, h]
    by_cases hi : i < 8
    · have h0 : i / 8 = 0 := by omega
      have h1 : i % 8 = i := by omega
      simp [hi, h0, h1]
    · have h0 : i / 8 = (i - 8) / 8 + 1 := by omega
      have h1 : i % 8 = (i - 8) % 8 := by omega
      simp only [hi, if_false, ih, h0, List.getD_cons_succ, h1]

theorem testBit_leToNat (b : Array UInt8) (i : Nat) :
    (leToNat b).testBit i = (b.getD (i / 8) 0).toNat.testBit (i % 8) := by
  rw [leToNat, testBit_leToNatL]
  simp [Array.getD_eq_getD_getElem?, List.getD_eq_getElem?_getD]

theorem bitOf_eq (x : UInt8) (s : Nat) : bitOf x s = (x.toNat.testBit s).toNat := by
  rw [bitOf, Nat.and_one_is_mod, Nat.shiftRight_eq_div_pow, Nat.toNat_testBit]

theorem testBit_boolToNat (c : Bool) (m : Nat) : c.toNat.testBit m = (decide (m = 0) && c) := by
  cases c
  · simp
  · cases m with
    | zero => simp
    | succ m => simp [Nat.testBit_succ]

/-- one iteration of the `getWindow` loop extends the window by one bit -/
theorem window_step (N s k : Nat) :
    ((N >>> s) % 2 ^ k) ||| ((N.testBit (s + k)).toNat <<< k) = (N >>> s) % 2 ^ (k + 1) := by
  apply Nat.eq_of_testBit_eq
  intro j
  rw [Nat.testBit_or, Nat.testBit_mod_two_pow, Nat.testBit_mod_two_pow, Nat.testBit_shiftLeft,
    Nat.testBit_shiftRight, testBit_boolToNat]
  by_cases h1 : j < k
  · have : ¬ j ≥ k := by omega
    have h2 : j < k + 1 := by omega
    simp [h1, this, h2]
  · by_cases h2 : j = k
    · subst h2; simp
    · have h3 : ¬ j < k + 1 := by omega
      have h4 : j - k ≠ 0 := by omega
      simp [h1, h3, h4]

theorem getWindowAux_eq (b : Array UInt8) (s : Nat) :
    ∀ (r k acc : Nat), acc = (leToNat b >>> s) % 2 ^ k →
      getWindowAux b s r k acc = (leToNat b >>> s) % 2 ^ (k + r) := by
  intro r
  induction r with
  | zero => intro k acc h; simpa [getWindowAux] using h
  | succ r ih =>
    intro k acc h
    unfold getWindowAux
    by_cases hb : (s + k) / 8 ≥ b.size
    · simp only [hb, if_true]
      have hN := leToNat_lt b
      have hlt : leToNat b < 2 ^ (s + k) :=
        lt_of_lt_of_le hN (Nat.pow_le_pow_right (by norm_num) (by omega))
      have hsm : leToNat b >>> s < 2 ^ k := by
        rw [Nat.shiftRight_eq_div_pow, Nat.div_lt_iff_lt_mul (Nat.two_pow_pos s), ← Nat.pow_add, Nat.add_comm]
        exact hlt
      rw [h, Nat.mod_eq_of_lt hsm, Nat.mod_eq_of_lt]
      exact lt_of_lt_of_le hsm (Nat.pow_le_pow_right (by norm_num) (by omega))
    · simp only [hb, if_false]
      have := ih (k + 1) (acc ||| (bitOf (b.getD ((s + k) / 8) 0) ((s + k) % 8) <<< k)) (by
        rw [bitOf_eq, ← testBit_leToNat, h, window_step])
      rw [this]
      congr 2
      omega

/-- **the digit extraction is `(k >>> start) mod 2^w`** -/
theorem getWindow_eq (w : Nat) (b : Array UInt8) (s : Nat) :
    getWindow w b s = (leToNat b >>> s) % 2 ^ w := by
  unfold getWindow
  by_cases h : b.size = 0
  · have : b = #[] := Array.eq_empty_of_size_eq_zero h
    subst this
    simp [leToNat, leToNatL]
  · simp only [h, if_false]
    rw [getWindowAux_eq b s w 0 0 (by simp [Nat.mod_one]), Nat.zero_add]

theorem getWindow_lt (w : Nat) (b : Array UInt8) (s : Nat) : getWindow w b s < 2 ^ w := by
  rw [getWindow_eq]; exact Nat.mod_lt _ (Nat.two_pow_pos w)

/-! ## base-`2^w` digits -/

/-- the lowest `m` digits recompose `N mod 2^(w·m)` -/
theorem digits_sum_mod (w N : Nat) : ∀ m : Nat,
    ((List.range m).map fun j => ((N >>> (j * w)) % 2 ^ w) * 2 ^ (j * w)).sum = N % 2 ^ (m * w) := by
  intro m
  induction m with
  | zero => simp [Nat.mod_one]
  | succ m ih =>
    rw [List.range_succ, List.map_append, List.sum_append, ih]
    simp only [List.map_cons, List.map_nil, List.sum_cons, List.sum_nil, Nat.add_zero]
    rw [Nat.succ_mul, Nat.pow_add, Nat.mod_mul, Nat.shiftRight_eq_div_pow, Nat.mul_comm (2 ^ (m * w))]

theorem shift_succ (w N j : Nat) :
    N >>> (j * w) = 2 ^ w * (N >>> ((j + 1) * w)) + (N >>> (j * w)) % 2 ^ w := by
  have : N >>> ((j + 1) * w) = (N >>> (j * w)) / 2 ^ w := by
    rw [Nat.succ_mul, Nat.shiftRight_add, Nat.shiftRight_eq_div_pow (N >>> (j * w))]
  rw [this]
  exact (Nat.div_add_mod _ _).symm

theorem numWindows_cover {w : Nat} (hw : 0 < w) (bits : Nat) : bits ≤ numWindows bits w * w := by
  unfold numWindows
  have h := Nat.div_add_mod (bits + w - 1) w
  have h2 := Nat.mod_lt (bits + w - 1) hw
  have : w * ((bits + w - 1) / w) = (bits + w - 1) / w * w := Nat.mul_comm _ _
  omega

theorem shift_top {w : Nat} (hw : 0 < w) (b : Array UInt8) {bits : Nat} (hb : b.size * 8 ≤ bits) :
    leToNat b >>> (numWindows bits w * w) = 0 := by
  rw [Nat.shiftRight_eq_div_pow]
  apply Nat.div_eq_of_lt
  refine lt_of_lt_of_le (leToNat_lt b) (Nat.pow_le_pow_right (by norm_num) ?_)
  have := numWindows_cover hw bits
  omega


/-! ## doubling, ladder, table -/

section monoid
variable {G : Type} [AddMonoid G]

theorem dblN_eq (n : Nat) (x : G) : dblN n x = 2 ^ n • x := by
  induction n generalizing x with
  | zero => simp [dblN, one_nsmul]
  | succ n ih => rw [dblN, ih, ← two_nsmul, ← mul_nsmul', pow_succ]

omit [AddMonoid G] in
theorem ladder_inv (step : G → Nat → G) (inv : Nat → G → Prop)
    (hstep : ∀ m acc, inv (m + 1) acc → inv m (step acc m)) :
    ∀ m acc, inv m acc → inv 0 (ladder step m acc) := by
  intro m
  induction m with
  | zero => intro acc h; simpa [ladder] using h
  | succ m ih => intro acc h; rw [ladder]; exact ih _ (hstep m acc h)

theorem getD_push_push (t : Array G) (a b : G) (j : Nat) :
    ((t.push a).push b).getD j 0 =
      if j = t.size + 1 then b else if j = t.size then a else t.getD j 0 := by
  simp only [Array.getD_eq_getD_getElem?, Array.getElem?_push, Array.size_push]
  by_cases h1 : j = t.size + 1
  · simp [h1]
  · by_cases h2 : j = t.size
    · simp [h2]
    · simp [h1, h2]

theorem buildTable_spec (P : G) : ∀ (s : Nat) (t : Array G), t.size % 2 = 0 → 2 ≤ t.size →
    (∀ j < t.size, t.getD j 0 = j • P) →
    (buildTable P s t).size = t.size + 2 * s ∧ ∀ j < (buildTable P s t).size, (buildTable P s t).getD j 0 = j • P := by
  intro s
  induction s with
  | zero => intro t _ _ h; exact ⟨by simp [buildTable], by simpa [buildTable] using h⟩
  | succ s ih =>
    intro t hev h2 h
    rw [buildTable]
    have hd : t.getD (t.size / 2) 0 + t.getD (t.size / 2) 0 = t.size • P := by
      rw [h (t.size / 2) (by omega), ← add_nsmul]
      congr 1; omega
    rw [hd]
    have := ih ((t.push (t.size • P)).push (t.size • P + P)) (by simp only [Array.size_push]; omega)
      (by simp only [Array.size_push]; omega) (by
        intro j hj
        rw [getD_push_push]
        simp only [Array.size_push] at hj
        by_cases h1 : j = t.size + 1
        · simp only [h1, if_true]; rw [succ_nsmul]
        · by_cases h2' : j = t.size
          · simp [h2']
          · simp only [h1, h2', if_false]; exact h j (by omega))
    refine ⟨?_, this.2⟩
    rw [this.1]; simp only [Array.size_push]; omega

theorem table_spec {w : Nat} (hw : 0 < w) (P : G) : ∀ j < 2 ^ w, (table w P).getD j 0 = j • P := by
  have h := buildTable_spec P (2 ^ w / 2 - 1) #[0, P] (by simp) (by simp) (by
    intro j hj
    have : j = 0 ∨ j = 1 := by simp at hj; omega
    rcases this with rfl | rfl <;> simp [one_nsmul])
  intro j hj
  apply h.2
  rw [h.1]
  have : 2 ^ w = 2 * 2 ^ (w - 1) := by
    rw [← pow_succ']; congr 1; omega
  have hp : 0 < 2 ^ (w - 1) := Nat.two_pow_pos _
  simp only [List.size_toArray, List.length_cons, List.length_nil]
  omega

/-- the byte is `16·high nibble + low nibble` -/
theorem nibbles (x : UInt8) : 16 * ((x.toNat >>> 4) &&& 0b1111) + (x.toNat &&& 0b1111) = x.toNat := by
  have hx : x.toNat < 256 := x.toNat_lt
  have e : (0b1111 : Nat) = 2 ^ 4 - 1 := by decide
  rw [e, Nat.and_two_pow_sub_one_eq_mod, Nat.and_two_pow_sub_one_eq_mod, Nat.shiftRight_eq_div_pow]
  omega

theorem nibble_lt (y : Nat) : y &&& 0b1111 < 2 ^ 4 := by
  have e : (0b1111 : Nat) = 2 ^ 4 - 1 := by decide
  rw [e, Nat.and_two_pow_sub_one_eq_mod]
  exact Nat.mod_lt _ (by norm_num)

/-- the Go-literal nibble ladder computes `k • P` -/
theorem smulNibble_eq (P : G) (s : Array UInt8) : smulNibble P s = leToNat s • P := by
  unfold smulNibble leToNat
  generalize s.toList = l
  induction l with
  | nil => simp [leToNatL]
  | cons x xs ih =>
    simp only [List.foldr_cons, nibbleBits] at ih ⊢
    rw [ih, dblN_eq, table_spec (by decide) P _ (nibble_lt _), dblN_eq,
      table_spec (by decide) P _ (nibble_lt _)]
    simp only [← mul_nsmul', ← add_nsmul]
    congr 1
    have := nibbles x
    simp only [leToNatL]
    omega

/-- the generic fixed-window ladder computes `k • P` for every width `w ≥ 1` -/
theorem windowedSmul_eq {w : Nat} (hw : 0 < w) (P : G) (s : Array UInt8) :
    windowedSmul w P s = leToNat s • P := by
  unfold windowedSmul
  have h := ladder_inv (fun acc j => dblN w acc + (table w P).getD (getWindow w s (j * w)) 0)
    (fun m acc => acc = (leToNat s >>> (m * w)) • P) (by
      intro m acc hacc
      rw [hacc, dblN_eq, table_spec hw P _ (getWindow_lt w s _), getWindow_eq, ← mul_nsmul', ← add_nsmul,
        ← shift_succ]) (numWindows (s.size * 8) w) 0 (by
      rw [shift_top hw s (le_refl _), zero_nsmul])
  simpa using h

end monoid

/-! ## buckets -/

section comm
variable {G : Type} [AddCommMonoid G]

/-- `Σ (j + index) • bucket` -/
def wsum : Nat → List G → G
  | _, [] => 0
  | j, b :: l => j • b + wsum (j + 1) l

theorem wsum_succ (j : Nat) (l : List G) : wsum (j + 1) l = wsum j l + l.sum := by
  induction l generalizing j with
  | nil => simp [wsum]
  | cons b l ih =>
    simp only [wsum, List.sum_cons, ih (j + 1), succ_nsmul]
    abel

theorem wsum_replicate_zero (j n : Nat) : wsum j (List.replicate n (0 : G)) = 0 := by
  induction n generalizing j with
  | zero => simp [wsum]
  | succ n ih => simp [List.replicate_succ, wsum, ih]

theorem wsum_drop_one (l : List G) : wsum 1 (l.drop 1) = wsum 0 l := by
  cases l with
  | nil => simp [wsum]
  | cons b l => simp [wsum]

theorem wsum_modify (P : G) : ∀ (l : List G) (j i : Nat), i < l.length →
    wsum j (l.modify i (· + P)) = wsum j l + (j + i) • P := by
  intro l
  induction l with
  | nil => intro j i h; simp at h
  | cons b l ih =>
    intro j i h
    cases i with
    | zero =>
      simp only [List.modify_zero_cons, wsum, nsmul_add, Nat.add_zero]
      abel
    | succ i =>
      simp only [List.modify_succ_cons, wsum]
      rw [ih (j + 1) i (by simpa using h)]
      have : j + 1 + i = j + (i + 1) := by omega
      rw [this]
      abel

theorem collapse_eq (isz : G → Bool) (hisz : ∀ x, isz x = true → x = 0) (l : List G) (acc : G) :
    collapse isz l acc = (l.sum, acc + wsum 1 l) := by
  unfold collapse
  induction l with
  | nil => simp [wsum]
  | cons b l ih =>
    simp only [List.foldr_cons, ih]
    have hrun : (if isz b = true then l.sum else l.sum + b) = l.sum + b := by
      by_cases hb : isz b = true
      · simp [hisz b hb]
      · simp [hb]
    rw [hrun]
    simp only [List.sum_cons, wsum, wsum_succ 1 l, one_nsmul, Prod.mk.injEq]
    constructor <;> abel

theorem scatter_spec : ∀ (ds : List Nat) (ps : List G) (B : Array G), (∀ d ∈ ds, d < B.size) →
    wsum 0 (scatter B ds ps).toList = wsum 0 B.toList + (List.zipWith (fun d P => d • P) ds ps).sum := by
  intro ds
  induction ds with
  | nil => intro ps B _; simp [scatter]
  | cons d ds ih =>
    intro ps B hd
    cases ps with
    | nil => simp [scatter]
    | cons P ps =>
      rw [scatter]
      have hdB : d < B.size := hd d (by simp)
      by_cases h0 : d = 0
      · subst h0
        simp only [if_true, List.zipWith_cons_cons, List.sum_cons, zero_nsmul, zero_add]
        exact ih ps B (fun d' hd' => hd d' (by simp [hd']))
      · simp only [h0, if_false, List.zipWith_cons_cons, List.sum_cons]
        rw [ih ps _ (fun d' hd' => by rw [Array.size_modify]; exact hd d' (by simp [hd'])),
          Array.toList_modify, wsum_modify P _ 0 d (by simpa using hdB), Nat.zero_add]
        abel

/-- `Σ f(bᵢ) • Pᵢ` -/
def zsum (f : Array UInt8 → Nat) (scalars : List (Array UInt8)) (points : List G) : G :=
  (List.zipWith (fun b P => f b • P) scalars points).sum

theorem zsum_congr {f g : Array UInt8 → Nat} : ∀ (scalars : List (Array UInt8)) (points : List G),
    (∀ b ∈ scalars, f b = g b) → zsum f scalars points = zsum g scalars points := by
  intro scalars
  induction scalars with
  | nil => intro points _; simp [zsum]
  | cons b bs ih =>
    intro points h
    cases points with
    | nil => simp [zsum]
    | cons P ps =>
      have := ih ps (fun b' hb' => h b' (by simp [hb']))
      simp only [zsum, List.zipWith_cons_cons, List.sum_cons] at this ⊢
      rw [this, h b (by simp)]

theorem zsum_horner (c : Nat) (f g : Array UInt8 → Nat) : ∀ (scalars : List (Array UInt8)) (points : List G),
    c • zsum f scalars points + zsum g scalars points = zsum (fun b => c * f b + g b) scalars points := by
  intro scalars
  induction scalars with
  | nil => intro points; simp [zsum]
  | cons b bs ih =>
    intro points
    cases points with
    | nil => simp [zsum]
    | cons P ps =>
      have := ih ps
      simp only [zsum, List.zipWith_cons_cons, List.sum_cons] at this ⊢
      rw [← this, nsmul_add, add_nsmul, mul_nsmul']
      abel

theorem zsum_zero (scalars : List (Array UInt8)) (points : List G) : zsum (fun _ => 0) scalars points = 0 := by
  induction scalars generalizing points with
  | nil => simp [zsum]
  | cons b bs ih =>
    cases points with
    | nil => simp [zsum]
    | cons P ps =>
      have := ih ps
      simp only [zsum, List.zipWith_cons_cons, List.sum_cons, zero_nsmul, zero_add] at this ⊢
      exact this

theorem windowStep_eq (isz : G → Bool) (hisz : ∀ x, isz x = true → x = 0) (w : Nat)
    (scalars : List (Array UInt8)) (points : List G) (acc : G) (m : Nat) :
    windowStep isz w scalars points acc m =
      2 ^ w • acc + zsum (fun b => getWindow w b (m * w)) scalars points := by
  unfold windowStep
  simp only
  rw [collapse_eq isz hisz, wsum_drop_one, scatter_spec _ _ _ (by
      intro d hd
      rw [Array.size_replicate]
      obtain ⟨b, _, rfl⟩ := List.mem_map.mp hd
      exact getWindow_lt w b _),
    Array.toList_replicate, wsum_replicate_zero, zero_add, dblN_eq, List.zipWith_map_left]
  rfl

theorem maxBits_ge (scalars : List (Array UInt8)) : ∀ b ∈ scalars, b.size * 8 ≤ maxBits scalars := by
  unfold maxBits
  have key : ∀ (l : List (Array UInt8)) (m0 : Nat),
      m0 ≤ l.foldl (fun m b => if b.size * 8 > m then b.size * 8 else m) m0 ∧
      ∀ b ∈ l, b.size * 8 ≤ l.foldl (fun m b => if b.size * 8 > m then b.size * 8 else m) m0 := by
    intro l
    induction l with
    | nil => intro m0; simp
    | cons x xs ih =>
      intro m0
      simp only [List.foldl_cons, List.mem_cons]
      have h := ih (if x.size * 8 > m0 then x.size * 8 else m0)
      refine ⟨le_trans (by split_ifs <;> omega) h.1, ?_⟩
      rintro b (rfl | hb)
      · exact le_trans (by split_ifs <;> omega) h.1
      · exact h.2 b hb
  exact (key scalars 0).2

theorem bucketCore_eq (isz : G → Bool) (hisz : ∀ x, isz x = true → x = 0) {w : Nat} (hw : 0 < w)
    (scalars : List (Array UInt8)) (points : List G) :
    bucketCore isz w (numWindows (maxBits scalars) w) scalars points = zsum leToNat scalars points := by
  unfold bucketCore
  have h := ladder_inv (windowStep isz w scalars points)
    (fun m acc => acc = zsum (fun b => leToNat b >>> (m * w)) scalars points) (by
      intro m acc hacc
      rw [windowStep_eq isz hisz, hacc, zsum_horner]
      apply zsum_congr
      intro b _
      rw [getWindow_eq, ← shift_succ]) (numWindows (maxBits scalars) w) 0 (by
      rw [zsum_congr (g := fun _ => 0) scalars points (fun b hb => shift_top hw b (maxBits_ge scalars b hb)), zsum_zero])
  simpa using h

theorem naiveMsm_eq : ∀ (scalars : List (Array UInt8)) (points : List G) (acc : G),
    naiveMsm scalars points acc = acc + zsum leToNat scalars points := by
  intro scalars
  induction scalars with
  | nil => intro points acc; simp [naiveMsm, zsum]
  | cons b bs ih =>
    intro points acc
    cases points with
    | nil => simp [naiveMsm, zsum]
    | cons P ps =>
      rw [naiveMsm, ih, smulNibble_eq]
      simp only [zsum, List.zipWith_cons_cons, List.sum_cons]
      abel

theorem msmWidth_pos (n : Nat) : 0 < msmWidth n := by
  unfold msmWidth clampLo clampHi
  simp only
  split_ifs <;> omega

/-- the model of `MultiScalarMulLowLevel` computes `Σ kᵢ • Pᵢ` -/
theorem msm_eq (isz : G → Bool) (hisz : ∀ x, isz x = true → x = 0)
    (scalars : List (Array UInt8)) (points : List G) (hlen : scalars.length = points.length) :
    msm isz scalars points = zsum leToNat scalars points := by
  unfold msm
  simp only
  by_cases h0 : points.length = 0
  · have : points = [] := List.eq_nil_of_length_eq_zero h0
    subst this
    simp [zsum]
  · simp only [h0, if_false]
    by_cases h7 : points.length ≤ naiveMax
    · simp only [h7, if_true]
      rw [naiveMsm_eq, zero_add]
    · simp only [h7, if_false]
      by_cases hmb : maxBits scalars = 0
      · simp only [hmb, if_true]
        rw [zsum_congr (g := fun _ => 0) scalars points (fun b hb => by
          have := maxBits_ge scalars b hb
          have hb0 : b = #[] := Array.eq_empty_of_size_eq_zero (by omega)
          subst hb0; rfl), zsum_zero]
      · simp only [hmb, if_false]
        exact bucketCore_eq isz hisz (msmWidth_pos _) scalars points

end comm

end BronVerif.Lemmas.Window
