import Mathlib.Algebra.Module.Defs
import Mathlib.Algebra.Field.Defs
import Mathlib.Algebra.Module.Basic
import BronVerif.Model.SignAlg
/-!
# The executable verifiers of `Model/SignAlg` decide exactly the equations of `Props/C01`

Unfolding lemmas that tie the Boolean functions the driver runs (`schnorrVerify`, `ecdsaVerify`,
`rowLiftOk`) to the propositions used in the property theorems, for any Mathlib field and module.
-/
namespace BronVerif.Lemmas.SignAlgSpec
open BronVerif.SignAlg BronVerif.LinAlg

variable {F G : Type} [Field F] [DecidableEq F] [AddCommGroup G] [Module F G] [DecidableEq G]

theorem schnorrVerify_iff (g pk R : G) (e s : F) :
    schnorrVerify g pk R e s false = true ↔ s • g = R + e • pk := by
  simp [schnorrVerify]

theorem schnorrVerify_neg_iff (g pk R : G) (e s : F) :
    schnorrVerify g pk R e s true = true ↔ s • g + e • pk = R := by
  simp [schnorrVerify]

theorem ecdsaVerify_iff (g pk : G) (xOf : G → Option F) (m r s : F) :
    ecdsaVerify g pk xOf m r s = true ↔
      r ≠ 0 ∧ s ≠ 0 ∧ xOf ((m * s⁻¹) • g + (r * s⁻¹) • pk) = some r := by
  simp [ecdsaVerify, and_assoc]

theorem rowLiftOk_iff (g : G) (row : List F) (V : List G) (s : F) :
    rowLiftOk g row V s = true ↔ s • g = gdot row V := by
  simp [rowLiftOk]


theorem foldl_lift (g : G) : ∀ (row r : List F) (acc : F) (accG : G), accG = acc • g →
    (List.zipWith (fun c (e : G) => c • e) row (r.map (· • g))).foldl (· + ·) accG
      = ((List.zipWith (· * ·) row r).foldl (· + ·) acc) • g := by
  intro row
  induction row with
  | nil => intro r acc accG h; simpa using h
  | cons a row ih =>
    intro r acc accG h
    cases r with
    | nil => simpa using h
    | cons b r =>
      simp only [List.map_cons, List.zipWith_cons_cons, List.foldl_cons]
      exact ih r (acc + a * b) (accG + a • b • g) (by rw [h, add_smul, mul_smul])

/-- `Σ rowₖ • (rₖ • g) = ⟨row, r⟩ • g` for the list-based model functions -/
theorem gdot_lift (g : G) (row r : List F) : gdot row (r.map (· • g)) = dot row r • g := by
  unfold gdot gsum dot
  exact foldl_lift g row r 0 0 (by simp)

/-- an honest share entry `s = ⟨M_k, r⟩` passes the driver's Feldman check against `V = r • g` -/
theorem rowLiftOk_honest (g : G) (row r : List F) : rowLiftOk g row (r.map (· • g)) (dot row r) = true := by
  rw [rowLiftOk_iff, gdot_lift]

/-- conversely, under the generator hypothesis, only the honest value passes -/
theorem rowLiftOk_only_honest (g : G) (hg : ∀ a : F, a • g = 0 → a = 0) (row r : List F) (s : F)
    (h : rowLiftOk g row (r.map (· • g)) s = true) : s = dot row r := by
  rw [rowLiftOk_iff, gdot_lift] at h
  have : (s - dot row r) • g = 0 := by rw [sub_smul, h, sub_self]
  exact sub_eq_zero.mp (hg _ this)

end BronVerif.Lemmas.SignAlgSpec
