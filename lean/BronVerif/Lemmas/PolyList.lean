import Mathlib.Algebra.BigOperators.Group.Finset.Basic
import Mathlib.Algebra.BigOperators.Ring.Finset
import Mathlib.Algebra.Module.BigOperators
import Mathlib.Algebra.Field.Defs
import Mathlib.Algebra.Polynomial.Eval.Defs
import Mathlib.Algebra.Polynomial.Eval.Coeff
import BronVerif.Model.LinAlg
import BronVerif.Model.Poly
/-!
# List-level facts about the `LinAlg` / `Poly` models (fold ↔ big-operator bridges)
-/
namespace BronVerif.Lemmas.PolyList
open BronVerif BronVerif.LinAlg BronVerif.Poly
open scoped BigOperators

section Ring
variable {F : Type} [Field F]

theorem dot_eq_sum (a b : List F) : dot a b = (List.zipWith (· * ·) a b).sum := by
  unfold dot; rw [List.sum_eq_foldl]

theorem prodL_eq_prod (l : List F) : prodL l = l.prod := by
  unfold prodL; rw [List.prod_eq_foldl]

@[simp] theorem dot_nil_left (b : List F) : dot ([] : List F) b = 0 := by simp [dot_eq_sum]
@[simp] theorem dot_nil_right (a : List F) : dot a ([] : List F) = 0 := by simp [dot_eq_sum]
@[simp] theorem dot_cons (x y : F) (a b : List F) : dot (x :: a) (y :: b) = x * y + dot a b := by
  simp [dot_eq_sum]

theorem dot_comm (a b : List F) : dot a b = dot b a := by
  induction a generalizing b with
  | nil => simp
  | cons x a ih => cases b with
    | nil => simp
    | cons y b => simp [ih b, mul_comm]

theorem dot_map_mul_right (a b : List F) (x : F) : dot (a.map (· * x)) b = dot a b * x := by
  induction a generalizing b with
  | nil => simp
  | cons y a ih => cases b with
    | nil => simp
    | cons z b => simp [ih b]; ring

/-- `dot` against a list of the same length as a `Finset.range` sum -/
theorem dot_eq_sum_range (a b : List F) (h : a.length = b.length) :
    dot a b = ∑ i ∈ Finset.range a.length, a.getD i 0 * b.getD i 0 := by
  induction a generalizing b with
  | nil => simp
  | cons x a ih => cases b with
    | nil => simp at h
    | cons y b =>
      simp only [List.length_cons, Nat.add_right_cancel_iff] at h
      rw [dot_cons, ih b h, List.length_cons, Finset.sum_range_succ']
      simp [add_comm]

theorem getD_map_range (n : ℕ) (f : ℕ → F) {i : ℕ} (hi : i < n) :
    ((List.range n).map f).getD i 0 = f i := by
  simp [List.getD_eq_getElem?_getD, hi]

theorem sum_map_range (n : ℕ) (f : ℕ → F) :
    ((List.range n).map f).sum = ∑ i ∈ Finset.range n, f i := by
  rw [← List.sum_toFinset f List.nodup_range, List.toFinset_range]

end Ring

section Module
variable {F G : Type} [Field F] [AddCommGroup G] [Module F G]

theorem gsum_eq_sum (l : List G) : gsum l = l.sum := by
  unfold gsum; rw [List.sum_eq_foldl]

theorem gdot_eq_sum (a : List F) (x : List G) :
    gdot a x = (List.zipWith (fun c (e : G) => c • e) a x).sum := by
  unfold gdot; rw [gsum_eq_sum]

/-- computations in the exponent commute with lifting, list form:
`Σ aᵢ • (rᵢ • g) = (Σ aᵢ rᵢ) • g` -/
theorem gdot_map_smul (a r : List F) (g : G) :
    gdot a (r.map fun c => c • g) = dot a r • g := by
  rw [gdot_eq_sum, dot_eq_sum]
  induction a generalizing r with
  | nil => simp
  | cons x a ih => cases r with
    | nil => simp
    | cons y r => simp [ih r, add_smul, mul_smul]

end Module
end BronVerif.Lemmas.PolyList
