import Mathlib.Data.ZMod.Basic
import Mathlib.FieldTheory.Finite.Basic
import Mathlib.Tactic.Ring
import Mathlib.Tactic.NormNum
import BronVerif.Model.CurveEnc
/-!
# Byte-level lemmas for the encoding model, and a kernel-evaluable Euler criterion
-/
namespace BronVerif.CurveEnc

theorem length_leBytes (len n : Nat) : (leBytes len n).length = len := by
  induction len generalizing n with
  | zero => rfl
  | succ k ih => simp [leBytes, ih]

theorem leNat_leBytes (len n : Nat) (h : n < 256 ^ len) : leNat (leBytes len n) = n := by
  induction len generalizing n with
  | zero =>
    have : n = 0 := by simpa using h
    simp [leBytes, leNat, this]
  | succ k ih =>
    have hk : n / 256 < 256 ^ k := by
      rw [Nat.div_lt_iff_lt_mul (by norm_num)]
      rw [Nat.pow_succ] at h
      exact h
    simp only [leBytes, leNat, ih _ hk]
    omega

theorem length_beBytes (len n : Nat) : (beBytes len n).length = len := by
  simp [beBytes, length_leBytes]

theorem beNat_beBytes (len n : Nat) (h : n < 256 ^ len) : beNat (beBytes len n) = n := by
  simp [beNat, beBytes, leNat_leBytes len n h]

theorem leBytes_zero_all (len : Nat) : ∀ b ∈ leBytes len 0, b = 0 := by
  induction len with
  | zero => simp [leBytes]
  | succ k ih =>
    intro b hb
    simp only [leBytes, Nat.zero_mod, Nat.zero_div, List.mem_cons] at hb
    rcases hb with rfl | hb
    · rfl
    · exact ih b hb

/-! ## the flag bit above a coordinate -/

theorem topBit_double (len : Nat) (h : 0 < len) : 2 * topBit len = 256 ^ len := by
  have h8 : 8 * len = (8 * len - 1) + 1 := by omega
  have : (256 : Nat) ^ len = 2 ^ (8 * len) := by
    rw [show (256 : Nat) = 2 ^ 8 by norm_num, ← pow_mul]
  rw [this, topBit]
  conv_rhs => rw [h8, pow_succ]
  ring

theorem topBit_pos (len : Nat) : 0 < topBit len := by
  unfold topBit; positivity

/-- a coordinate `x < t` with one flag bit `s` on top: both can be read back -/
theorem flag_split (t x s : Nat) (hx : x < t) (hs : s < 2) :
    (x + t * s) / t % 2 = s ∧ (x + t * s) % t = x := by
  have ht : 0 < t := by omega
  constructor
  · rw [Nat.add_mul_div_left _ _ ht, Nat.div_eq_of_lt hx, Nat.zero_add, Nat.mod_eq_of_lt hs]
  · rw [Nat.add_mul_mod_self_left, Nat.mod_eq_of_lt hx]

theorem flag_lt (t x s : Nat) (hx : x < t) (hs : s < 2) : x + t * s < 2 * t := by
  have : t * s ≤ t * 1 := Nat.mul_le_mul_left t (by omega)
  omega

/-- the coordinate-with-flag word fits the byte string and splits back -/
theorem leNat_leBytes_flag (len x s : Nat) (hlen : 0 < len) (hx : x < topBit len) (hs : s < 2) :
    leNat (leBytes len (x + topBit len * s)) = x + topBit len * s := by
  apply leNat_leBytes
  have := flag_lt (topBit len) x s hx hs
  rw [topBit_double len hlen] at this
  exact this

theorem leNat_append (xs ys : List Nat) : leNat (xs ++ ys) = leNat xs + 256 ^ xs.length * leNat ys := by
  induction xs with
  | nil => simp [leNat]
  | cons x xs ih => simp only [List.cons_append, leNat, ih, List.length_cons, pow_succ]; ring

/-! ## `powMod`: square-and-multiply with explicit fuel, evaluable by the kernel -/

def powModAux (m : Nat) : Nat → Nat → Nat → Nat → Nat
  | 0, _, _, acc => acc
  | fuel + 1, b, e, acc =>
    if e = 0 then acc
    else powModAux m fuel (b * b % m) (e / 2) (if e % 2 = 1 then acc * b % m else acc)

/-- `a ^ e mod m` for `e < 2 ^ fuel` -/
def powMod (fuel a e m : Nat) : Nat := powModAux m fuel (a % m) e (1 % m)

theorem powModAux_modEq (m : Nat) : ∀ (fuel b e acc : Nat), e < 2 ^ fuel →
    powModAux m fuel b e acc ≡ acc * b ^ e [MOD m] := by
  intro fuel
  induction fuel with
  | zero =>
    intro b e acc h
    have : e = 0 := by simpa using h
    subst this
    simp [powModAux, Nat.ModEq]
  | succ k ih =>
    intro b e acc h
    unfold powModAux
    split
    · next h0 => subst h0; simp [Nat.ModEq]
    · next h0 =>
      have hk : e / 2 < 2 ^ k := by
        rw [Nat.div_lt_iff_lt_mul (by norm_num)]
        rw [Nat.pow_succ] at h
        exact h
      refine (ih _ _ _ hk).trans ?_
      have hsq : (b * b % m) ^ (e / 2) ≡ (b * b) ^ (e / 2) [MOD m] := (Nat.mod_modEq _ _).pow _
      have he : e = 2 * (e / 2) + e % 2 := by omega
      split
      · next h1 =>
        have : acc * b ^ e = (acc * b) * (b * b) ^ (e / 2) := by
          conv_lhs => rw [he, h1]
          rw [pow_add, pow_mul, pow_one]; ring
        rw [this]
        exact ((Nat.mod_modEq _ _).mul hsq)
      · next h1 =>
        have h2 : e % 2 = 0 := by omega
        have : acc * b ^ e = acc * (b * b) ^ (e / 2) := by
          conv_lhs => rw [he, h2]
          rw [Nat.add_zero, pow_mul]; ring
        rw [this]
        exact (Nat.ModEq.refl _).mul hsq

theorem powMod_cast (fuel a e m : Nat) (h : e < 2 ^ fuel) :
    ((powMod fuel a e m : Nat) : ZMod m) = (a : ZMod m) ^ e := by
  have h1 := powModAux_modEq m fuel (a % m) e (1 % m) h
  have h2 : (1 % m) * (a % m) ^ e ≡ 1 * a ^ e [MOD m] :=
    (Nat.mod_modEq _ _).mul ((Nat.mod_modEq _ _).pow _)
  have h3 := (ZMod.natCast_eq_natCast_iff _ _ _).2 (h1.trans h2)
  simpa [powMod] using h3

/-- Euler's criterion, refutation direction: if `b ^ ((p-1)/2) = -1 (mod p)` then `b` is not a square -/
theorem no_sqrt_of_euler (p b fuel : Nat) [Fact p.Prime] (hp : 2 < p)
    (hfuel : (p - 1) / 2 < 2 ^ fuel) (hodd : p - 1 = 2 * ((p - 1) / 2))
    (h : powMod fuel b ((p - 1) / 2) p = p - 1) :
    ∀ y : ZMod p, y * y ≠ (b : ZMod p) := by
  intro y hy
  have hb : (b : ZMod p) ^ ((p - 1) / 2) = -1 := by
    rw [← powMod_cast fuel b _ p hfuel, h]
    have : ((p - 1 : Nat) : ZMod p) + 1 = 0 := by
      have : ((p - 1 + 1 : Nat) : ZMod p) = 0 := by
        rw [Nat.sub_add_cancel (by omega)]; exact ZMod.natCast_self p
      simpa using this
    exact eq_neg_of_add_eq_zero_left this
  have hpow : y ^ (p - 1) = -1 := by
    rw [hodd, pow_mul, pow_two, hy, hb]
  have h2 : (2 : ZMod p) ≠ 0 := by
    intro h2
    have : ((2 : Nat) : ZMod p) = 0 := by exact_mod_cast h2
    rw [ZMod.natCast_eq_zero_iff] at this
    exact absurd (Nat.le_of_dvd (by norm_num) this) (by omega)
  by_cases hy0 : y = 0
  · subst hy0
    rw [zero_pow (by omega)] at hpow
    have : (1 : ZMod p) = 0 := by
      have := congrArg (fun t => -t) hpow
      simpa using this.symm
    exact one_ne_zero this
  · have h1 := ZMod.pow_card_sub_one_eq_one hy0
    rw [hpow] at h1
    apply h2
    have : (1 : ZMod p) + 1 = 0 := by
      nth_rewrite 1 [← h1]; ring
    calc (2 : ZMod p) = 1 + 1 := by norm_num
      _ = 0 := this

end BronVerif.CurveEnc
