import BronVerif.Lemmas.GaussJordanRows
/-!
# Gauss–Jordan: the pivot step and the loop invariant (DESIGN A.1)

`Inv aug n s pc` is the state invariant after the columns `0 … pc-1` have been processed:
the solution set is unchanged (I1), pivot columns are unit vectors (I2), rows `≥ k` vanish in all
processed columns (I3).  `gjCol` preserves it (`Inv.step`), hence it holds for `gaussJordan`.
-/
namespace BronVerif.LinAlg
open Finset
variable {F : Type} [Field F] [DecidableEq F]

theorem findPivot_some (m : Mat F) (k pc pr : ℕ) (h : findPivot m k pc = some pr) :
    pr < m.length ∧ k ≤ pr ∧ entry m pr pc ≠ 0 := by
  unfold findPivot at h
  have hm := List.mem_of_mem_head? (Option.mem_def.mpr h)
  simpa [List.mem_filter] using hm

theorem findPivot_none (m : Mat F) (k pc : ℕ) (h : findPivot m k pc = none) :
    ∀ r, k ≤ r → r < m.length → entry m r pc = 0 := by
  unfold findPivot at h
  rw [List.head?_eq_none_iff, List.filter_eq_nil_iff] at h
  intro r hkr hr
  have := h r (List.mem_range.mpr hr)
  simpa [hkr] using this

theorem sw_ne_k {k pr i : ℕ} (h : i ≠ pr) : sw k pr i ≠ k := by
  unfold sw; split_ifs with h1
  · subst h1; exact fun h' => h h'.symm
  · exact h1

/-- the pivot step preserves the solution set -/
theorem sol_pivotStep (n : ℕ) (x : List F) (rows : Mat F) (k pr pc w : ℕ) (hk : k < rows.length)
    (hpr : pr < rows.length) (hW : ∀ r ∈ rows, r.length = w) (ha : entry rows pr pc ≠ 0) :
    (∀ i < rows.length, ev n x ((pivotStep rows k pr pc).getD i []) = 0) ↔
      (∀ i < rows.length, ev n x (rows.getD i []) = 0) := by
  have hai : (entry rows pr pc)⁻¹ ≠ 0 := inv_ne_zero ha
  constructor
  · intro h
    have hP : ev n x (rows.getD pr []) = 0 := by
      have := h k hk
      rw [ev_pivotStep n x rows k pr pc k w hk hpr hk hW, if_pos rfl] at this
      exact (mul_eq_zero.mp this).resolve_right hai
    intro i hi
    by_cases hip : i = pr
    · rw [hip]; exact hP
    · have ht : sw k pr i < rows.length := sw_lt hk hpr hi
      have := h _ ht
      rw [ev_pivotStep n x rows k pr pc _ w hk hpr ht hW, if_neg (sw_ne_k hip), sw_sw, hP] at this
      simpa using this
  · intro h i hi
    rw [ev_pivotStep n x rows k pr pc i w hk hpr hi hW, h pr hpr]
    split_ifs
    · simp
    · rw [h _ (sw_lt hk hpr hi)]; simp

/-- after the pivot step column `pc` is the unit vector `e_k` -/
theorem pivotStep_col (rows : Mat F) (k pr pc i w : ℕ) (hk : k < rows.length)
    (hpr : pr < rows.length) (hi : i < rows.length) (hW : ∀ r ∈ rows, r.length = w)
    (ha : entry rows pr pc ≠ 0) :
    entry (pivotStep rows k pr pc) i pc = if i = k then 1 else 0 := by
  rw [entry_pivotStep rows k pr pc i pc w hk hpr hi hW]
  split_ifs
  · exact mul_inv_cancel₀ ha
  · rw [mul_inv_cancel₀ ha]; ring

/-- if the (unscaled) pivot row is zero in column `c`, that column is only permuted (and row `k` cleared) -/
theorem pivotStep_entry_of_zero (rows : Mat F) (k pr pc i c w : ℕ) (hk : k < rows.length)
    (hpr : pr < rows.length) (hi : i < rows.length) (hW : ∀ r ∈ rows, r.length = w)
    (hz : entry rows pr c = 0) :
    entry (pivotStep rows k pr pc) i c = if i = k then 0 else entry rows (sw k pr i) c := by
  rw [entry_pivotStep rows k pr pc i c w hk hpr hi hW, hz]
  split_ifs <;> simp

/-- the loop invariant of `solveAugmented` after columns `< pc` have been processed -/
structure Inv (aug : Mat F) (n : ℕ) (s : GJ F) (pc : ℕ) : Prop where
  len : s.rows.length = aug.length
  width : ∀ r ∈ s.rows, r.length = n + 1
  sol : ∀ x : List F, (∀ i < aug.length, ev n x (s.rows.getD i []) = 0) ↔
    (∀ i < aug.length, ev n x (aug.getD i []) = 0)
  klen : s.pivots.length = s.k
  kle : s.k ≤ aug.length
  plt : ∀ p ∈ s.pivots, p < pc
  nodup : s.pivots.Nodup
  unit : ∀ (j p : ℕ), s.pivots[j]? = some p → ∀ i < aug.length,
    entry s.rows i p = if i = j then 1 else 0
  zero : ∀ i, s.k ≤ i → i < aug.length → ∀ c < pc, entry s.rows i c = 0

omit [DecidableEq F] in
theorem Inv.init (aug : Mat F) (n : ℕ) (hW : ∀ r ∈ aug, r.length = n + 1) :
    Inv aug n { rows := aug, k := 0, pivots := [] } 0 where
  len := rfl
  width := hW
  sol := fun _ => Iff.rfl
  klen := rfl
  kle := Nat.zero_le _
  plt := by simp
  nodup := List.nodup_nil
  unit := by simp
  zero := by simp

omit [DecidableEq F] in
theorem Inv.skip {aug : Mat F} {n : ℕ} {s : GJ F} {pc : ℕ} (h : Inv aug n s pc)
    (hz : ∀ i, s.k ≤ i → i < aug.length → entry s.rows i pc = 0) : Inv aug n s (pc + 1) :=
  { h with
    plt := fun p hp => Nat.lt_succ_of_lt (h.plt p hp)
    zero := fun i hki hi c hc => by
      rcases Nat.lt_succ_iff_lt_or_eq.mp hc with hc | rfl
      · exact h.zero i hki hi c hc
      · exact hz i hki hi }

theorem sw_ge {k pr i : ℕ} (hkpr : k ≤ pr) (hi : k ≤ i) : k ≤ sw k pr i := by
  unfold sw; split_ifs <;> omega

theorem sw_eq_iff_of_lt {k pr i j : ℕ} (hkpr : k ≤ pr) (hj : j < k) : sw k pr i = j ↔ i = j := by
  unfold sw; split_ifs <;> omega

theorem Inv.pivot {aug : Mat F} {n : ℕ} {s : GJ F} {pc pr : ℕ} (h : Inv aug n s pc)
    (hpr : pr < s.rows.length) (hkpr : s.k ≤ pr) (ha : entry s.rows pr pc ≠ 0) :
    Inv aug n { rows := pivotStep s.rows s.k pr pc, k := s.k + 1, pivots := s.pivots ++ [pc] }
      (pc + 1) := by
  have hk : s.k < s.rows.length := Nat.lt_of_le_of_lt hkpr hpr
  have hlen := h.len
  have hW := h.width
  -- the unscaled pivot row vanishes in old pivot columns and in processed columns
  have hPz_old : ∀ (j p : ℕ), s.pivots[j]? = some p → entry s.rows pr p = 0 := by
    intro j p hj
    have hjk : j < s.k := by
      rw [← h.klen]; exact (List.getElem?_eq_some_iff.mp hj).1
    rw [h.unit j p hj pr (hlen ▸ hpr), if_neg (by omega)]
  have hPz_proc : ∀ c < pc, entry s.rows pr c = 0 := fun c hc =>
    h.zero pr hkpr (hlen ▸ hpr) c hc
  refine
    { len := by simp only [length_pivotStep]; exact hlen
      width := width_pivotStep _ _ _ _ _ hk hpr hW
      sol := fun x => ?_
      klen := by simp [h.klen]
      kle := by simp only; omega
      plt := ?_
      nodup := ?_
      unit := ?_
      zero := ?_ }
  · rw [← h.sol x, ← hlen]
    exact sol_pivotStep n x s.rows s.k pr pc (n + 1) hk hpr hW ha
  · intro p hp
    rcases List.mem_append.mp hp with hp | hp
    · exact Nat.lt_succ_of_lt (h.plt p hp)
    · simp only [List.mem_singleton] at hp; omega
  · refine List.Nodup.append h.nodup (List.nodup_singleton pc) ?_
    intro a ha1 ha2
    simp only [List.mem_singleton] at ha2
    have := h.plt a ha1; omega
  · intro j p hj i hi
    simp only at hj ⊢
    have hi' : i < s.rows.length := hlen ▸ hi
    rw [List.getElem?_append] at hj
    split_ifs at hj with hjl
    · -- old pivot column
      have hjk : j < s.k := h.klen ▸ hjl
      rw [pivotStep_entry_of_zero _ _ _ _ i p _ hk hpr hi' hW (hPz_old j p hj)]
      split_ifs with hik hij hij
      · omega
      · rfl
      · have hsw : sw s.k pr i < aug.length := hlen ▸ sw_lt hk hpr hi'
        rw [h.unit j p hj _ hsw, if_pos ((sw_eq_iff_of_lt hkpr hjk).mpr hij)]
      · have hsw : sw s.k pr i < aug.length := hlen ▸ sw_lt hk hpr hi'
        rw [h.unit j p hj _ hsw, if_neg (fun e => hij ((sw_eq_iff_of_lt hkpr hjk).mp e))]
    · -- the new pivot column
      have hjk : j = s.k ∧ p = pc := by
        have hl := h.klen
        rcases Nat.lt_or_ge (j - s.pivots.length) 1 with h1 | h1
        · have h0 : j - s.pivots.length = 0 := by omega
          rw [h0] at hj
          simp only [List.getElem?_cons_zero, Option.some.injEq] at hj
          exact ⟨by omega, hj.symm⟩
        · rw [List.getElem?_eq_none (by simpa using h1)] at hj
          exact absurd hj (by simp)
      obtain ⟨rfl, rfl⟩ := hjk
      exact pivotStep_col _ _ _ _ i _ hk hpr hi' hW ha
  · intro i hki hi c hc
    simp only at hki ⊢
    have hi' : i < s.rows.length := hlen ▸ hi
    rcases Nat.lt_succ_iff_lt_or_eq.mp hc with hc | rfl
    · rw [pivotStep_entry_of_zero _ _ _ _ i c _ hk hpr hi' hW (hPz_proc c hc), if_neg (by omega)]
      exact h.zero _ (sw_ge hkpr (by omega)) (hlen ▸ sw_lt hk hpr hi') c hc
    · rw [pivotStep_col _ _ _ _ i _ hk hpr hi' hW ha, if_neg (by omega)]

end BronVerif.LinAlg
