import BronVerif.Lemmas.CborCanon
import BronVerif.Model.Wire
/-!
# Access-structure wire formats: soundness of the decoders, round trip, canonicity, injectivity

For `T ∈ {Threshold, Unanimity, CNF, Hierarchical, BoolAS}` (definitions of `Model/Wire.lean`):

1. `decT_valid`       : `decT x = some v → validT v`
2. `decT_encT`        : `validT v → decT (encT v) = some v`
3. `encT_canonical`   : `validT v → wf (encT v) ∧ isCanon (encT v) ∧ depth (encT v) ≤ maxDepth`
4. `decodeT_valid`    : `decodeWith decT b = some v → validT v`
5. `decodeT_encodeT`  : `validT v → decodeWith decT (encodeWith encT v) = some v`
6. `encodeT_injective`: `encodeWith encT` is injective on valid values.

All helper lemmas are prefixed `acc_`.
-/
namespace BronVerif.Wire
open BronVerif.Cbor

/-! ## generic byte-level glue -/

theorem acc_decodeWith_valid {T : Type} (dec : Item → Option T) (valid : T → Bool)
    (hdec : ∀ x v, dec x = some v → valid v = true) (b : Bytes) (v : T)
    (h : decodeWith dec b = some v) : valid v = true := by
  unfold decodeWith at h
  cases hd : decode b with
  | none => rw [hd] at h; simp at h
  | some x => rw [hd] at h; exact hdec x v h

theorem acc_decodeWith_encodeWith {T : Type} (dec : Item → Option T) (enc : T → Item) (v : T)
    (h1 : dec (enc v) = some v)
    (h2 : wf (enc v) = true ∧ isCanon (enc v) = true ∧ depth (enc v) ≤ maxDepth) :
    decodeWith dec (encodeWith enc v) = some v := by
  unfold decodeWith encodeWith
  rw [decode_encode (enc v) h2.1 h2.2.1 h2.2.2]
  exact h1

theorem acc_encodeWith_inj {T : Type} (dec : Item → Option T) (enc : T → Item) (v w : T)
    (hv : decodeWith dec (encodeWith enc v) = some v)
    (hw : decodeWith dec (encodeWith enc w) = some w)
    (h : encodeWith enc v = encodeWith enc w) : v = w := by
  rw [h, hw] at hv
  exact (Option.some.inj hv).symm

/-! ## lists of items -/

theorem acc_mapOpt_map {α β : Type} (f : α → Option β) (g : β → α) :
    ∀ (ys : List β), (∀ y ∈ ys, f (g y) = some y) → mapOpt f (ys.map g) = some ys
  | [], _ => rfl
  | y :: ys, h => by
    have h1 := h y (by simp)
    have h2 := acc_mapOpt_map f g ys (fun z hz => h z (List.mem_cons_of_mem _ hz))
    simp only [List.map_cons, mapOpt, h1, h2]

theorem acc_wfList_map {α : Type} (f : α → Item) :
    ∀ (l : List α), (∀ x ∈ l, wf (f x) = true) → wfList (l.map f) = true
  | [], _ => rfl
  | x :: l, h => by
    simp only [List.map_cons, wfList, Bool.and_eq_true]
    exact ⟨h x (by simp), acc_wfList_map f l (fun z hz => h z (List.mem_cons_of_mem _ hz))⟩

theorem acc_isCanonList_map {α : Type} (f : α → Item) :
    ∀ (l : List α), (∀ x ∈ l, isCanon (f x) = true) → isCanonList (l.map f) = true
  | [], _ => rfl
  | x :: l, h => by
    simp only [List.map_cons, isCanonList, Bool.and_eq_true]
    exact ⟨h x (by simp), acc_isCanonList_map f l (fun z hz => h z (List.mem_cons_of_mem _ hz))⟩

theorem acc_depthList_map {α : Type} (f : α → Item) (d : Nat) :
    ∀ (l : List α), (∀ x ∈ l, depth (f x) ≤ d) → depthList (l.map f) ≤ d
  | [], _ => by simp [depthList]
  | x :: l, h => by
    have h1 := h x (by simp)
    have h2 := acc_depthList_map f d l (fun z hz => h z (List.mem_cons_of_mem _ hz))
    simp only [List.map_cons, depthList]
    omega

/-! ## ID sets -/

theorem acc_uint_beq (a b : Nat) : (Item.uint a == Item.uint b) = (a == b) := by
  simp only [BEq.beq, Item.beq]

theorem acc_decIdPairs_enc : ∀ (ids : List Nat), decIdPairs (encIdPairs ids) = some ids
  | [] => rfl
  | i :: r => by simp only [encIdPairs, decIdPairs, acc_decIdPairs_enc r]

theorem acc_decIdSet_enc (ids : List Nat) : decIdSet (encIdSet ids) = some ids := by
  simp only [encIdSet, decIdSet, acc_decIdPairs_enc]

theorem acc_keysOf_encIdPairs : ∀ (ids : List Nat), keysOf (encIdPairs ids) = ids.map Item.uint
  | [] => rfl
  | i :: r => by simp only [encIdPairs, keysOf, List.map_cons, acc_keysOf_encIdPairs r]

theorem acc_length_encIdPairs : ∀ (ids : List Nat), (encIdPairs ids).length = 2 * ids.length
  | [] => rfl
  | i :: r => by simp only [encIdPairs, List.length_cons, acc_length_encIdPairs r]; omega

theorem acc_wfList_encIdPairs : ∀ (ids : List Nat), (∀ i ∈ ids, i < two64) →
    wfList (encIdPairs ids) = true
  | [], _ => rfl
  | i :: r, h => by
    have h1 : i < two64 := h i (by simp)
    have h2 := acc_wfList_encIdPairs r (fun z hz => h z (List.mem_cons_of_mem _ hz))
    simp only [encIdPairs, wfList, wf, h2, Bool.and_true, Bool.and_eq_true, decide_eq_true_eq,
      Bool.or_eq_true]
    exact ⟨h1, Or.inl (by decide)⟩

theorem acc_isCanonList_encIdPairs : ∀ (ids : List Nat), isCanonList (encIdPairs ids) = true
  | [] => rfl
  | i :: r => by
    simp only [encIdPairs, isCanonList, isCanon, acc_isCanonList_encIdPairs r, Bool.and_self]

theorem acc_depthList_encIdPairs : ∀ (ids : List Nat), depthList (encIdPairs ids) = 0
  | [] => rfl
  | i :: r => by
    simp only [encIdPairs, depthList, depth, acc_depthList_encIdPairs r, Nat.max_self]

/-- in a strictly ascending list the head is below every later element -/
theorem acc_ascNat_head_lt : ∀ (r : List Nat) (a : Nat), ascNat (a :: r) = true →
    ∀ x ∈ r, a < x
  | [], _, _ => by intro x hx; cases hx
  | b :: r, a, h => by
    simp only [ascNat, Bool.and_eq_true, decide_eq_true_eq] at h
    intro x hx
    rcases List.mem_cons.mp hx with rfl | hx'
    · exact h.1
    · exact Nat.lt_trans h.1 (acc_ascNat_head_lt r b h.2 x hx')

theorem acc_ascNat_tail : ∀ (r : List Nat) (a : Nat), ascNat (a :: r) = true → ascNat r = true
  | [], _, _ => rfl
  | b :: r, a, h => by
    simp only [ascNat, Bool.and_eq_true, decide_eq_true_eq] at h
    exact h.2

theorem acc_contains_uint_false : ∀ (r : List Nat) (a : Nat), (∀ x ∈ r, a < x) →
    (r.map Item.uint).contains (Item.uint a) = false
  | [], _, _ => rfl
  | b :: r, a, h => by
    have h1 : a < b := h b (by simp)
    have h2 := acc_contains_uint_false r a (fun z hz => h z (List.mem_cons_of_mem _ hz))
    have h3 : (a == b) = false := by
      rw [beq_eq_false_iff_ne]; omega
    simp only [List.map_cons, List.contains_cons, acc_uint_beq, h2, h3, Bool.or_self]

theorem acc_noDup_uints : ∀ (ids : List Nat), ascNat ids = true →
    noDup (ids.map Item.uint) = true
  | [], _ => rfl
  | a :: r, h => by
    have h1 := acc_contains_uint_false r a (acc_ascNat_head_lt r a h)
    have h2 := acc_noDup_uints r (acc_ascNat_tail r a h)
    simp only [List.map_cons, noDup, h1, h2, Bool.not_false, Bool.and_self]

theorem acc_idSetOk_elim (ids : List Nat) (h : idSetOk ids = true) :
    ascNat ids = true ∧ (∀ i ∈ ids, i < two64) ∧ ids.length ≤ maxElems := by
  simp only [idSetOk, Bool.and_eq_true, decide_eq_true_eq, List.all_eq_true] at h
  exact ⟨h.1.1, h.1.2, h.2⟩

theorem acc_encIdSet_wf (ids : List Nat) (h : idSetOk ids = true) : wf (encIdSet ids) = true := by
  obtain ⟨h1, h2, h3⟩ := acc_idSetOk_elim ids h
  have hl := acc_length_encIdPairs ids
  simp only [encIdSet, wf, noDupKeys, acc_keysOf_encIdPairs, acc_noDup_uints ids h1,
    acc_wfList_encIdPairs ids h2, Bool.and_true, Bool.and_eq_true, decide_eq_true_eq]
  omega

theorem acc_encIdSet_isCanon (ids : List Nat) (h : idSetOk ids = true) :
    isCanon (encIdSet ids) = true := by
  obtain ⟨h1, h2, _⟩ := acc_idSetOk_elim ids h
  simp only [encIdSet, isCanon, acc_keysOf_encIdPairs, keysAscending_uints_asc ids h1 h2,
    acc_isCanonList_encIdPairs, Bool.and_self]

theorem acc_encIdSet_depth (ids : List Nat) : depth (encIdSet ids) = 1 := by
  simp only [encIdSet, depth, acc_depthList_encIdPairs]

/-! ## ID lists -/

theorem acc_decIdList_enc (ids : List Nat) : decIdList (encIdList ids) = some ids := by
  simp only [encIdList, decIdList]
  exact acc_mapOpt_map decUint Item.uint ids (fun _ _ => rfl)

theorem acc_encIdList_wf (ids : List Nat) (h : idSetOk ids = true) :
    wf (encIdList ids) = true := by
  obtain ⟨_, h2, h3⟩ := acc_idSetOk_elim ids h
  have hw := acc_wfList_map Item.uint ids
    (fun x hx => by simp only [wf, decide_eq_true_eq]; exact h2 x hx)
  simp only [encIdList, wf, hw, List.length_map, Bool.and_true, decide_eq_true_eq]
  exact h3

theorem acc_encIdList_isCanon (ids : List Nat) : isCanon (encIdList ids) = true := by
  simp only [encIdList, isCanon]
  exact acc_isCanonList_map Item.uint ids (fun _ _ => rfl)

theorem acc_encIdList_depth (ids : List Nat) : depth (encIdList ids) ≤ 1 := by
  have := acc_depthList_map Item.uint 0 ids (fun _ _ => by simp [depth])
  simp only [encIdList, depth]
  omega

/-! ## struct maps with text keys -/

theorem acc_wf_map1 (k : Bytes) (a : Item) (hk : k.length < two64) (ha : wf a = true) :
    wf (.map [.text k, a]) = true := by
  simp only [wf, wfList, noDupKeys, keysOf, noDup, ha, List.length_cons, List.length_nil,
    List.contains_nil, Bool.and_true, Bool.and_eq_true, decide_eq_true_eq, Bool.not_false]
  refine ⟨⟨by decide, by decide⟩, hk⟩

theorem acc_wf_map2 (k1 k2 : Bytes) (a b : Item) (hk1 : k1.length < two64)
    (hk2 : k2.length < two64) (hnd : noDup [Item.text k1, Item.text k2] = true)
    (ha : wf a = true) (hb : wf b = true) :
    wf (.map [.text k1, a, .text k2, b]) = true := by
  simp only [wf, wfList, noDupKeys, keysOf, hnd, ha, hb, List.length_cons, List.length_nil,
    Bool.and_true, Bool.true_and, Bool.and_eq_true, decide_eq_true_eq]
  refine ⟨⟨by decide, by decide⟩, hk1, hk2⟩

theorem acc_isCanon_map1 (k : Bytes) (a : Item) (ha : isCanon a = true) :
    isCanon (.map [.text k, a]) = true := by
  simp only [isCanon, isCanonList, keysOf, keysAscending, ha, Bool.and_self]

theorem acc_isCanon_map2 (k1 k2 : Bytes) (a b : Item)
    (hasc : keysAscending [Item.text k1, Item.text k2] = true)
    (ha : isCanon a = true) (hb : isCanon b = true) :
    isCanon (.map [.text k1, a, .text k2, b]) = true := by
  simp only [isCanon, isCanonList, keysOf, hasc, ha, hb, Bool.and_self]

theorem acc_depth_map1 (k : Bytes) (a : Item) : depth (.map [.text k, a]) = 1 + depth a := by
  simp only [depth, depthList]; omega

theorem acc_depth_map2 (k1 k2 : Bytes) (a b : Item) :
    depth (.map [.text k1, a, .text k2, b]) = 1 + max (depth a) (depth b) := by
  simp only [depth, depthList]; omega

theorem acc_wf_tag (t : Nat) (x : Item) (h1 : t < two64) (h2 : t ≠ 2) (h3 : t ≠ 3)
    (hx : wf x = true) : wf (.tag t x) = true := by
  simp only [wf, hx, Bool.and_true, Bool.and_eq_true, decide_eq_true_eq]
  exact ⟨⟨h1, h2⟩, h3⟩

theorem acc_depth_tag_map (t : Nat) (kvs : List Item) :
    depth (.tag t (.map kvs)) = depth (.map kvs) := by
  simp [depth, isTag]

/-! ## Threshold -/

theorem decThreshold_valid (x : Item) (v : Threshold) (h : decThreshold x = some v) :
    validThreshold v = true := by
  unfold decThreshold at h
  split at h
  · split at h
    · split at h
      · split at h
        · cases h; assumption
        · cases h
      · cases h
    · cases h
  · cases h

theorem decThreshold_encThreshold (v : Threshold) (h : validThreshold v = true) :
    decThreshold (encThreshold v) = some v := by
  simp only [encThreshold, decThreshold, acc_decIdSet_enc, and_self, if_true, h]

theorem encThreshold_canonical (v : Threshold) (h : validThreshold v = true) :
    wf (encThreshold v) = true ∧ isCanon (encThreshold v) = true ∧
      depth (encThreshold v) ≤ maxDepth := by
  simp only [validThreshold, Bool.and_eq_true, decide_eq_true_eq] at h
  obtain ⟨⟨⟨hok, _⟩, _⟩, hle⟩ := h
  obtain ⟨_, _, hlen⟩ := acc_idSetOk_elim v.ps hok
  have ht : v.t < two64 := by simp only [maxElems, two64] at *; omega
  refine ⟨?_, ?_, ?_⟩
  · apply acc_wf_tag _ _ (by decide) (by decide) (by decide)
    apply acc_wf_map2 _ _ _ _ (by decide) (by decide) (by decide)
    · simp only [wf, decide_eq_true_eq]; exact ht
    · exact acc_encIdSet_wf v.ps hok
  · simp only [encThreshold, isCanon]
    exact acc_isCanon_map2 _ _ _ _ (by decide) rfl (acc_encIdSet_isCanon v.ps hok)
  · unfold encThreshold
    rw [acc_depth_tag_map, acc_depth_map2, acc_encIdSet_depth]
    simp only [depth, maxDepth]
    omega

theorem decodeThreshold_valid (b : Bytes) (v : Threshold)
    (h : decodeWith decThreshold b = some v) : validThreshold v = true :=
  acc_decodeWith_valid decThreshold validThreshold decThreshold_valid b v h

theorem decodeThreshold_encodeThreshold (v : Threshold) (h : validThreshold v = true) :
    decodeWith decThreshold (encodeWith encThreshold v) = some v :=
  acc_decodeWith_encodeWith decThreshold encThreshold v (decThreshold_encThreshold v h)
    (encThreshold_canonical v h)

theorem encodeThreshold_injective (v w : Threshold) (hv : validThreshold v = true)
    (hw : validThreshold w = true) (h : encodeWith encThreshold v = encodeWith encThreshold w) :
    v = w :=
  acc_encodeWith_inj decThreshold encThreshold v w (decodeThreshold_encodeThreshold v hv)
    (decodeThreshold_encodeThreshold w hw) h

/-- a real encoding produced by the Go library -/
example : decodeWith decThreshold [0xd9,0x13,0xbd,0xa2,0x69,0x74,0x68,0x72,0x65,0x73,0x68,0x6f,0x6c,
    0x64,0x02,0x6c,0x73,0x68,0x61,0x72,0x65,0x68,0x6f,0x6c,0x64,0x65,0x72,0x73,0xa2,0x01,0xf5,0x04,
    0xf5] = some ⟨2, [1, 4]⟩ := by decide

example : encodeWith encThreshold ⟨2, [1, 4]⟩ = [0xd9,0x13,0xbd,0xa2,0x69,0x74,0x68,0x72,0x65,0x73,
    0x68,0x6f,0x6c,0x64,0x02,0x6c,0x73,0x68,0x61,0x72,0x65,0x68,0x6f,0x6c,0x64,0x65,0x72,0x73,0xa2,
    0x01,0xf5,0x04,0xf5] := by decide

/-- threshold 3 over 2 shareholders is rejected -/
example : decodeWith decThreshold [0xd9,0x13,0xbd,0xa2,0x69,0x74,0x68,0x72,0x65,0x73,0x68,0x6f,0x6c,
    0x64,0x03,0x6c,0x73,0x68,0x61,0x72,0x65,0x68,0x6f,0x6c,0x64,0x65,0x72,0x73,0xa2,0x01,0xf5,0x04,
    0xf5] = none := by decide

example : validThreshold ⟨2, [1, 4]⟩ = true ∧ validThreshold ⟨3, [1, 4]⟩ = false ∧
    validThreshold ⟨1, [1, 4]⟩ = false ∧ validThreshold ⟨2, [0, 4]⟩ = false ∧
    validThreshold ⟨2, [4, 1]⟩ = false := by decide

example : decodeWith decThreshold (encodeWith encThreshold ⟨2, [1, 4, 300]⟩) = some ⟨2, [1, 4, 300]⟩ :=
  decodeThreshold_encodeThreshold _ (by decide)

/-! ## Unanimity -/

theorem decUnanimity_valid (x : Item) (v : Unanimity) (h : decUnanimity x = some v) :
    validUnanimity v = true := by
  unfold decUnanimity at h
  split at h
  · split at h
    · split at h
      · split at h
        · cases h; assumption
        · cases h
      · cases h
    · cases h
  · cases h

theorem decUnanimity_encUnanimity (v : Unanimity) (h : validUnanimity v = true) :
    decUnanimity (encUnanimity v) = some v := by
  simp only [encUnanimity, decUnanimity, acc_decIdSet_enc, and_self, if_true, h]

theorem encUnanimity_canonical (v : Unanimity) (h : validUnanimity v = true) :
    wf (encUnanimity v) = true ∧ isCanon (encUnanimity v) = true ∧
      depth (encUnanimity v) ≤ maxDepth := by
  simp only [validUnanimity, Bool.and_eq_true, decide_eq_true_eq] at h
  obtain ⟨⟨hok, _⟩, _⟩ := h
  refine ⟨?_, ?_, ?_⟩
  · apply acc_wf_tag _ _ (by decide) (by decide) (by decide)
    exact acc_wf_map1 _ _ (by decide) (acc_encIdSet_wf v.ps hok)
  · simp only [encUnanimity, isCanon]
    exact acc_isCanon_map1 _ _ (acc_encIdSet_isCanon v.ps hok)
  · unfold encUnanimity
    rw [acc_depth_tag_map, acc_depth_map1, acc_encIdSet_depth]
    decide

theorem decodeUnanimity_valid (b : Bytes) (v : Unanimity)
    (h : decodeWith decUnanimity b = some v) : validUnanimity v = true :=
  acc_decodeWith_valid decUnanimity validUnanimity decUnanimity_valid b v h

theorem decodeUnanimity_encodeUnanimity (v : Unanimity) (h : validUnanimity v = true) :
    decodeWith decUnanimity (encodeWith encUnanimity v) = some v :=
  acc_decodeWith_encodeWith decUnanimity encUnanimity v (decUnanimity_encUnanimity v h)
    (encUnanimity_canonical v h)

theorem encodeUnanimity_injective (v w : Unanimity) (hv : validUnanimity v = true)
    (hw : validUnanimity w = true) (h : encodeWith encUnanimity v = encodeWith encUnanimity w) :
    v = w :=
  acc_encodeWith_inj decUnanimity encUnanimity v w (decodeUnanimity_encodeUnanimity v hv)
    (decodeUnanimity_encodeUnanimity w hw) h

example : encodeWith encUnanimity ⟨[1, 2, 3]⟩ = [0xd9,0x13,0xbe,0xa1,0x6c,0x73,0x68,0x61,0x72,0x65,
    0x68,0x6f,0x6c,0x64,0x65,0x72,0x73,0xa3,0x01,0xf5,0x02,0xf5,0x03,0xf5] := by decide

example : decodeWith decUnanimity [0xd9,0x13,0xbe,0xa1,0x6c,0x73,0x68,0x61,0x72,0x65,
    0x68,0x6f,0x6c,0x64,0x65,0x72,0x73,0xa3,0x01,0xf5,0x02,0xf5,0x03,0xf5] = some ⟨[1, 2, 3]⟩ := by
  decide

/-- a single shareholder is rejected; so is a value `false` in the shareholder map -/
example : decodeWith decUnanimity [0xd9,0x13,0xbe,0xa1,0x6c,0x73,0x68,0x61,0x72,0x65,
    0x68,0x6f,0x6c,0x64,0x65,0x72,0x73,0xa1,0x01,0xf5] = none ∧
  decodeWith decUnanimity [0xd9,0x13,0xbe,0xa1,0x6c,0x73,0x68,0x61,0x72,0x65,
    0x68,0x6f,0x6c,0x64,0x65,0x72,0x73,0xa2,0x01,0xf5,0x02,0xf4] = none := by decide

example : validUnanimity ⟨[1, 2]⟩ = true ∧ validUnanimity ⟨[1]⟩ = false ∧
    validUnanimity ⟨[0, 1]⟩ = false ∧ validUnanimity ⟨[2, 2]⟩ = false := by decide

/-! ## CNF -/

theorem decCNF_valid (x : Item) (v : CNF) (h : decCNF x = some v) : validCNF v = true := by
  unfold decCNF at h
  split at h
  · split at h
    · split at h
      · split at h
        · cases h; assumption
        · cases h
      · cases h
    · cases h
  · cases h

theorem acc_validCNF_elim (v : CNF) (h : validCNF v = true) :
    v.sets.length ≤ maxElems ∧ (∀ s ∈ v.sets, idSetOk s = true) ∧ idSetOk v.shareholders = true := by
  simp only [validCNF, Bool.and_eq_true, decide_eq_true_eq, List.all_eq_true] at h
  obtain ⟨⟨⟨⟨⟨⟨_, hlen⟩, hall⟩, _⟩, hsh⟩, _⟩, _⟩ := h
  exact ⟨hlen, fun s hs => (hall s hs).1.1, hsh⟩

theorem decCNF_encCNF (v : CNF) (h : validCNF v = true) : decCNF (encCNF v) = some v := by
  have hm : mapOpt decIdSet (v.sets.map encIdSet) = some v.sets :=
    acc_mapOpt_map decIdSet encIdSet v.sets (fun s _ => acc_decIdSet_enc s)
  simp only [encCNF, decCNF, acc_decIdSet_enc, hm, and_self, if_true, h]

theorem encCNF_canonical (v : CNF) (h : validCNF v = true) :
    wf (encCNF v) = true ∧ isCanon (encCNF v) = true ∧ depth (encCNF v) ≤ maxDepth := by
  obtain ⟨hlen, hall, hsh⟩ := acc_validCNF_elim v h
  refine ⟨?_, ?_, ?_⟩
  · apply acc_wf_tag _ _ (by decide) (by decide) (by decide)
    apply acc_wf_map2 _ _ _ _ (by decide) (by decide) (by decide) (acc_encIdSet_wf _ hsh)
    have hw := acc_wfList_map encIdSet v.sets (fun s hs => acc_encIdSet_wf s (hall s hs))
    simp only [wf, hw, List.length_map, Bool.and_true, decide_eq_true_eq]
    exact hlen
  · simp only [encCNF, isCanon]
    apply acc_isCanon_map2 _ _ _ _ (by decide) (acc_encIdSet_isCanon _ hsh)
    simp only [isCanon]
    exact acc_isCanonList_map encIdSet v.sets (fun s hs => acc_encIdSet_isCanon s (hall s hs))
  · have hd := acc_depthList_map encIdSet 1 v.sets (fun s _ => Nat.le_of_eq (acc_encIdSet_depth s))
    unfold encCNF
    rw [acc_depth_tag_map, acc_depth_map2, acc_encIdSet_depth]
    simp only [depth, maxDepth]
    omega

theorem decodeCNF_valid (b : Bytes) (v : CNF) (h : decodeWith decCNF b = some v) :
    validCNF v = true :=
  acc_decodeWith_valid decCNF validCNF decCNF_valid b v h

theorem decodeCNF_encodeCNF (v : CNF) (h : validCNF v = true) :
    decodeWith decCNF (encodeWith encCNF v) = some v :=
  acc_decodeWith_encodeWith decCNF encCNF v (decCNF_encCNF v h) (encCNF_canonical v h)

theorem encodeCNF_injective (v w : CNF) (hv : validCNF v = true) (hw : validCNF w = true)
    (h : encodeWith encCNF v = encodeWith encCNF w) : v = w :=
  acc_encodeWith_inj decCNF encCNF v w (decodeCNF_encodeCNF v hv) (decodeCNF_encodeCNF w hw) h

example : validCNF ⟨[1, 2, 3, 4, 5], [[1, 2], [3, 4], [5]]⟩ = true := by decide

/-- the shareholders must be the union; no set may contain another; no empty set -/
example : validCNF ⟨[1, 2, 3, 4], [[1, 2], [3, 4], [5]]⟩ = false ∧
    validCNF ⟨[1, 2, 3], [[1, 2], [1, 2, 3]]⟩ = false ∧
    validCNF ⟨[1, 2], [[1, 2], []]⟩ = false ∧
    validCNF ⟨[1, 2], [[1, 2], [1, 2]]⟩ = false := by decide

example : decCNF (encCNF ⟨[1, 2, 3, 4, 5], [[1, 2], [3, 4], [5]]⟩)
    = some ⟨[1, 2, 3, 4, 5], [[1, 2], [3, 4], [5]]⟩ := by decide

example : decodeWith decCNF (encodeWith encCNF ⟨[1, 2, 3, 4, 5], [[1, 2], [3, 4], [5]]⟩)
    = some ⟨[1, 2, 3, 4, 5], [[1, 2], [3, 4], [5]]⟩ :=
  decodeCNF_encodeCNF _ (by decide)

/-- shareholder map that is not the union of the sets: rejected at item level -/
example : decCNF (encCNF ⟨[1, 2, 3, 4], [[1, 2], [3, 4], [5]]⟩) = none := by decide

/-! ## Hierarchical

`validHierarchical` does bound the thresholds below `two64`: a threshold is at most the cumulative
number of parties, every level has at most `maxElems` parties and there are at most `maxElems`
levels, so `threshold ≤ maxElems * maxElems = 2^34` (`acc_validLevels_bound`). No extra hypothesis
is needed. -/

theorem acc_validLevels_bound : ∀ (ls : List Level) (t0 : Nat) (seen : List Nat),
    validLevels t0 seen ls = true →
    ∀ l ∈ ls, idSetOk l.parties = true ∧ l.threshold ≤ seen.length + ls.length * maxElems
  | [], _, _, _ => by intro l hl; cases hl
  | l0 :: r, t0, seen, h => by
    simp only [validLevels, Bool.and_eq_true, decide_eq_true_eq] at h
    obtain ⟨⟨⟨⟨⟨⟨hok, _⟩, _⟩, _⟩, _⟩, hle⟩, hrest⟩ := h
    obtain ⟨_, _, hlen⟩ := acc_idSetOk_elim _ hok
    intro l hl
    rcases List.mem_cons.mp hl with heq | hl'
    · rw [heq]
      refine ⟨hok, ?_⟩
      simp only [List.length_append, List.length_cons, maxElems] at *
      omega
    · obtain ⟨h1, h2⟩ := acc_validLevels_bound r _ _ hrest l hl'
      refine ⟨h1, ?_⟩
      simp only [List.length_append, List.length_cons, maxElems] at *
      omega

theorem acc_validHierarchical_elim (v : Hierarchical) (h : validHierarchical v = true) :
    v.levels.length ≤ maxElems ∧
      ∀ l ∈ v.levels, idSetOk l.parties = true ∧ l.threshold < two64 := by
  simp only [validHierarchical, Bool.and_eq_true, decide_eq_true_eq] at h
  obtain ⟨⟨_, hlen⟩, hv⟩ := h
  refine ⟨hlen, fun l hl => ?_⟩
  obtain ⟨h1, h2⟩ := acc_validLevels_bound v.levels 0 [] hv l hl
  refine ⟨h1, ?_⟩
  simp only [List.length_nil, maxElems, two64] at *
  omega

theorem acc_decLevel_enc (l : Level) : decLevel (encLevel l) = some l := by
  simp only [encLevel, decLevel, acc_decIdList_enc, and_self, if_true]

theorem acc_encLevel_wf (l : Level) (hp : idSetOk l.parties = true) (ht : l.threshold < two64) :
    wf (encLevel l) = true := by
  apply acc_wf_map2 _ _ _ _ (by decide) (by decide) (by decide) (acc_encIdList_wf _ hp)
  simp only [wf, decide_eq_true_eq]; exact ht

theorem acc_encLevel_isCanon (l : Level) : isCanon (encLevel l) = true :=
  acc_isCanon_map2 _ _ _ _ (by decide) (acc_encIdList_isCanon _) rfl

theorem acc_encLevel_depth (l : Level) : depth (encLevel l) ≤ 2 := by
  have := acc_encIdList_depth l.parties
  unfold encLevel
  rw [acc_depth_map2]
  simp only [depth]
  omega

theorem decHierarchical_valid (x : Item) (v : Hierarchical) (h : decHierarchical x = some v) :
    validHierarchical v = true := by
  unfold decHierarchical at h
  split at h
  · split at h
    · split at h
      · split at h
        · cases h; assumption
        · cases h
      · cases h
    · cases h
  · cases h

theorem decHierarchical_encHierarchical (v : Hierarchical) (h : validHierarchical v = true) :
    decHierarchical (encHierarchical v) = some v := by
  have hm : mapOpt decLevel (v.levels.map encLevel) = some v.levels :=
    acc_mapOpt_map decLevel encLevel v.levels (fun l _ => acc_decLevel_enc l)
  simp only [encHierarchical, decHierarchical, hm, and_self, if_true, h]

theorem encHierarchical_canonical (v : Hierarchical) (h : validHierarchical v = true) :
    wf (encHierarchical v) = true ∧ isCanon (encHierarchical v) = true ∧
      depth (encHierarchical v) ≤ maxDepth := by
  obtain ⟨hlen, hall⟩ := acc_validHierarchical_elim v h
  refine ⟨?_, ?_, ?_⟩
  · apply acc_wf_tag _ _ (by decide) (by decide) (by decide)
    apply acc_wf_map1 _ _ (by decide)
    have hw := acc_wfList_map encLevel v.levels
      (fun l hl => acc_encLevel_wf l (hall l hl).1 (hall l hl).2)
    simp only [wf, hw, List.length_map, Bool.and_true, decide_eq_true_eq]
    exact hlen
  · simp only [encHierarchical, isCanon]
    apply acc_isCanon_map1
    simp only [isCanon]
    exact acc_isCanonList_map encLevel v.levels (fun l _ => acc_encLevel_isCanon l)
  · have hd := acc_depthList_map encLevel 2 v.levels (fun l _ => acc_encLevel_depth l)
    unfold encHierarchical
    rw [acc_depth_tag_map, acc_depth_map1]
    simp only [depth, maxDepth]
    omega

theorem decodeHierarchical_valid (b : Bytes) (v : Hierarchical)
    (h : decodeWith decHierarchical b = some v) : validHierarchical v = true :=
  acc_decodeWith_valid decHierarchical validHierarchical decHierarchical_valid b v h

theorem decodeHierarchical_encodeHierarchical (v : Hierarchical) (h : validHierarchical v = true) :
    decodeWith decHierarchical (encodeWith encHierarchical v) = some v :=
  acc_decodeWith_encodeWith decHierarchical encHierarchical v
    (decHierarchical_encHierarchical v h) (encHierarchical_canonical v h)

theorem encodeHierarchical_injective (v w : Hierarchical) (hv : validHierarchical v = true)
    (hw : validHierarchical w = true)
    (h : encodeWith encHierarchical v = encodeWith encHierarchical w) : v = w :=
  acc_encodeWith_inj decHierarchical encHierarchical v w
    (decodeHierarchical_encodeHierarchical v hv) (decodeHierarchical_encodeHierarchical w hw) h

example : validHierarchical ⟨[⟨1, [1, 2]⟩, ⟨3, [3, 4, 5]⟩]⟩ = true := by decide

/-- thresholds must increase strictly, stay within the cumulative party count; levels are
non-empty, disjoint and without 0 -/
example : validHierarchical ⟨[⟨2, [1, 2]⟩, ⟨2, [3, 4, 5]⟩]⟩ = false ∧
    validHierarchical ⟨[⟨3, [1, 2]⟩, ⟨4, [3, 4, 5]⟩]⟩ = false ∧
    validHierarchical ⟨[⟨1, [1, 2]⟩, ⟨3, [2, 3]⟩]⟩ = false ∧
    validHierarchical ⟨[⟨1, [0, 2]⟩]⟩ = false ∧
    validHierarchical ⟨[⟨0, [1, 2]⟩]⟩ = false ∧
    validHierarchical ⟨[]⟩ = false := by decide

example : decHierarchical (encHierarchical ⟨[⟨1, [1, 2]⟩, ⟨3, [3, 4, 5]⟩]⟩)
    = some ⟨[⟨1, [1, 2]⟩, ⟨3, [3, 4, 5]⟩]⟩ := by decide

example : decHierarchical (encHierarchical ⟨[⟨2, [1, 2]⟩, ⟨2, [3, 4, 5]⟩]⟩) = none := by decide

example : decodeWith decHierarchical (encodeWith encHierarchical ⟨[⟨1, [1, 2]⟩, ⟨3, [3, 4, 5]⟩]⟩)
    = some ⟨[⟨1, [1, 2]⟩, ⟨3, [3, 4, 5]⟩]⟩ :=
  decodeHierarchical_encodeHierarchical _ (by decide)

/-! ## BoolAS (threshold-gate trees) -/

theorem decBoolAS_valid (x : Item) (v : BoolAS) (h : decBoolAS x = some v) :
    validBoolAS v = true := by
  unfold decBoolAS at h
  split at h
  · split at h
    · split at h
      · split at h
        · cases h; assumption
        · cases h
      · cases h
    · cases h
  · cases h

theorem decBoolAS_encBoolAS (v : BoolAS) (h : validBoolAS v = true) :
    decBoolAS (encBoolAS v) = some v := by
  simp only [encBoolAS, decBoolAS, acc_decIdSet_enc, and_self, if_true, h]

theorem encBoolAS_canonical (v : BoolAS) (h : validBoolAS v = true) :
    wf (encBoolAS v) = true ∧ isCanon (encBoolAS v) = true ∧ depth (encBoolAS v) ≤ maxDepth := by
  simp only [validBoolAS, Bool.and_eq_true, decide_eq_true_eq] at h
  obtain ⟨⟨⟨⟨⟨_, hok⟩, _⟩, hwf⟩, hcan⟩, hdep⟩ := h
  refine ⟨?_, ?_, ?_⟩
  · apply acc_wf_tag _ _ (by decide) (by decide) (by decide)
    exact acc_wf_map2 _ _ _ _ (by decide) (by decide) (by decide) hwf (acc_encIdSet_wf _ hok)
  · simp only [encBoolAS, isCanon]
    exact acc_isCanon_map2 _ _ _ _ (by decide) hcan (acc_encIdSet_isCanon _ hok)
  · unfold encBoolAS
    rw [acc_depth_tag_map, acc_depth_map2, acc_encIdSet_depth]
    simp only [maxDepth] at *
    omega

theorem decodeBoolAS_valid (b : Bytes) (v : BoolAS) (h : decodeWith decBoolAS b = some v) :
    validBoolAS v = true :=
  acc_decodeWith_valid decBoolAS validBoolAS decBoolAS_valid b v h

theorem decodeBoolAS_encodeBoolAS (v : BoolAS) (h : validBoolAS v = true) :
    decodeWith decBoolAS (encodeWith encBoolAS v) = some v :=
  acc_decodeWith_encodeWith decBoolAS encBoolAS v (decBoolAS_encBoolAS v h)
    (encBoolAS_canonical v h)

theorem encodeBoolAS_injective (v w : BoolAS) (hv : validBoolAS v = true)
    (hw : validBoolAS w = true) (h : encodeWith encBoolAS v = encodeWith encBoolAS w) : v = w :=
  acc_encodeWith_inj decBoolAS encBoolAS v w (decodeBoolAS_encodeBoolAS v hv)
    (decodeBoolAS_encodeBoolAS w hw) h

/-- leaf `{"attr": a, "kind": 2}` -/
def acc_exLeaf (a : Nat) : Item := .map [.text kAttr, .uint a, .text kKind, .uint 2]

/-- gate `{"kind": 1, "children": kids, "threshold": t}` -/
def acc_exGate (t : Nat) (kids : List Item) : Item :=
  .map [.text kKind, .uint 1, .text kChildren, .array kids, .text kThreshold, .uint t]

/-- 2-of-(1, 2, (1-of-(3, 4))) -/
def acc_exTree : Item :=
  acc_exGate 2 [acc_exLeaf 1, acc_exLeaf 2, acc_exGate 1 [acc_exLeaf 3, acc_exLeaf 4]]

example : validBoolAS ⟨acc_exTree, [1, 2, 3, 4]⟩ = true := by decide

/-- wrong shareholder set; threshold above the number of children; duplicate leaf under one gate;
attribute 0 -/
example : validBoolAS ⟨acc_exTree, [1, 2, 3]⟩ = false ∧
    validBoolAS ⟨acc_exGate 3 [acc_exLeaf 1, acc_exLeaf 2], [1, 2]⟩ = false ∧
    validBoolAS ⟨acc_exGate 1 [acc_exLeaf 1, acc_exLeaf 1], [1]⟩ = false ∧
    validBoolAS ⟨acc_exGate 1 [acc_exLeaf 0, acc_exLeaf 1], [0, 1]⟩ = false := by decide

example : (decBoolAS (encBoolAS ⟨acc_exTree, [1, 2, 3, 4]⟩)).map (·.shareholders)
    = some [1, 2, 3, 4] := by decide

example : (decBoolAS (encBoolAS ⟨acc_exTree, [1, 2, 3]⟩)).isNone = true := by decide

example : (decodeWith decBoolAS (encodeWith encBoolAS ⟨acc_exTree, [1, 2, 3, 4]⟩)).map
    (·.shareholders) = some [1, 2, 3, 4] := by
  rw [decodeBoolAS_encodeBoolAS _ (by decide)]; rfl

end BronVerif.Wire
