import Mathlib.LinearAlgebra.Matrix.Determinant.Basic
import Mathlib.LinearAlgebra.Matrix.Block
import BronVerif.Lemmas.GaussJordan
/-!
# The model's forward-elimination determinant equals `Matrix.det`

`toMatrix n m` reads a list matrix as a Mathlib `Matrix (Fin n) (Fin n) F`.  The conditional row
swap multiplies `Matrix.det` by `±1` (`det_condSwap`), `elimBelow` leaves it unchanged
(`det_elimBelow`); the loop invariant `DInv` then gives `det_eq_matrix_det`.
-/
namespace BronVerif.LinAlg
open Finset
variable {F : Type} [Field F] [DecidableEq F]

/-- the `n × n` Mathlib matrix read off a list matrix -/
def toMatrix {F : Type} [Zero F] (n : ℕ) (m : Mat F) : Matrix (Fin n) (Fin n) F :=
  fun i j => entry m i.1 j.1

theorem sw_self (k i : ℕ) : sw k k i = i := by
  unfold sw; split_ifs with h <;> simp [h]

omit [Field F] [DecidableEq F] in
/-- the conditional swap of `detStep` -/
theorem getD_condSwap {F : Type} (rows : Mat F) (k pr i : ℕ) (hk : k < rows.length)
    (hpr : pr < rows.length) :
    (if pr = k then rows else swapRows rows k pr).getD i [] = rows.getD (sw k pr i) [] := by
  split_ifs with h
  · subst h; rw [sw_self]
  · exact getD_swapRows rows k pr i hk hpr

omit [Field F] [DecidableEq F] in
theorem length_condSwap {F : Type} (rows : Mat F) (k pr : ℕ) :
    (if pr = k then rows else swapRows rows k pr).length = rows.length := by
  split_ifs <;> simp [length_swapRows]

omit [Field F] [DecidableEq F] in
theorem width_condSwap {F : Type} (rows : Mat F) (k pr w : ℕ) (hk : k < rows.length)
    (hpr : pr < rows.length) (hW : ∀ r ∈ rows, r.length = w) :
    ∀ r ∈ (if pr = k then rows else swapRows rows k pr), r.length = w := by
  intro r hr
  obtain ⟨i, hi, rfl⟩ := exists_getD_of_mem _ [] r hr
  rw [length_condSwap] at hi
  rw [getD_condSwap rows k pr i hk hpr]
  exact hW _ (getD_mem_of_lt rows [] _ (sw_lt hk hpr hi))

omit [DecidableEq F] in
theorem length_elimBelow (rows : Mat F) (k : ℕ) : (elimBelow rows k).length = rows.length := by
  simp [elimBelow]

omit [DecidableEq F] in
theorem getD_elimBelow (rows : Mat F) (k i : ℕ) (hi : i < rows.length) :
    (elimBelow rows k).getD i [] =
      if i ≤ k then rows.getD i []
      else elimRow (rows.getD i []) (rows.getD k []) (entry rows i k * (entry rows k k)⁻¹) := by
  have hi' : rows[i]? = some (rows.getD i []) := by
    simp [List.getD_eq_getElem?_getD, List.getElem?_eq_getElem hi]
  unfold elimBelow
  rw [List.getD_eq_getElem?_getD, List.getElem?_mapIdx, hi']
  simp only [Option.map_some, Option.getD_some, entry]

omit [DecidableEq F] in
theorem entry_elimBelow (rows : Mat F) (k i j w : ℕ) (hk : k < rows.length) (hi : i < rows.length)
    (hW : ∀ r ∈ rows, r.length = w) :
    entry (elimBelow rows k) i j =
      if i ≤ k then entry rows i j
      else entry rows i j - entry rows i k * (entry rows k k)⁻¹ * entry rows k j := by
  have hP : (rows.getD k []).length = w := hW _ (getD_mem_of_lt rows [] k hk)
  have hR : (rows.getD i []).length = w := hW _ (getD_mem_of_lt rows [] i hi)
  rw [entry, getD_elimBelow rows k i hi]
  split_ifs
  · rfl
  · rw [getD_elimRow _ _ _ (by rw [hP, hR])]; rfl

omit [DecidableEq F] in
theorem width_elimBelow (rows : Mat F) (k w : ℕ) (hk : k < rows.length)
    (hW : ∀ r ∈ rows, r.length = w) : ∀ r ∈ elimBelow rows k, r.length = w := by
  intro r hr
  obtain ⟨i, hi, rfl⟩ := exists_getD_of_mem _ [] r hr
  rw [length_elimBelow] at hi
  have hP : (rows.getD k []).length = w := hW _ (getD_mem_of_lt rows [] k hk)
  have hR : (rows.getD i []).length = w := hW _ (getD_mem_of_lt rows [] i hi)
  rw [getD_elimBelow rows k i hi]
  split_ifs
  · exact hR
  · rw [length_elimRow _ _ _ (by rw [hP, hR]), hR]

/-! ## determinants of the two row operations -/

omit [DecidableEq F] in
theorem det_elimBelow (n : ℕ) (rows : Mat F) (k : ℕ) (hn : rows.length = n) (hk : k < n)
    (hW : ∀ r ∈ rows, r.length = n) :
    (toMatrix n (elimBelow rows k)).det = (toMatrix n rows).det := by
  refine Matrix.det_eq_of_forall_row_eq_smul_add_const
    (fun i : Fin n => if i.1 ≤ k then 0 else - (entry rows i.1 k * (entry rows k k)⁻¹)) ⟨k, hk⟩
    (by simp) ?_
  intro i j
  simp only [toMatrix]
  rw [entry_elimBelow rows k i.1 j.1 n (hn ▸ hk) (hn ▸ i.2) hW]
  split_ifs <;> ring

omit [Field F] [DecidableEq F] in
theorem sw_eq_swap {n : ℕ} (k pr i : Fin n) : sw k.1 pr.1 i.1 = (Equiv.swap k pr i).1 := by
  rw [Equiv.swap_apply_def]; unfold sw
  simp only [Fin.ext_iff]
  split_ifs <;> rfl

omit [DecidableEq F] in
theorem det_condSwap (n : ℕ) (rows : Mat F) (k pr : ℕ) (hn : rows.length = n) (hk : k < n)
    (hpr : pr < n) :
    (toMatrix n (if pr = k then rows else swapRows rows k pr)).det =
      (if pr = k then 1 else -1) * (toMatrix n rows).det := by
  have hM : toMatrix n (if pr = k then rows else swapRows rows k pr) =
      (toMatrix n rows).submatrix (Equiv.swap (⟨k, hk⟩ : Fin n) ⟨pr, hpr⟩) id := by
    ext i j
    simp only [toMatrix, Matrix.submatrix_apply, id, entry]
    rw [getD_condSwap rows k pr i.1 (hn ▸ hk) (hn ▸ hpr), ← sw_eq_swap]
  rw [hM, Matrix.det_permute]
  split_ifs with h
  · subst h; simp
  · have hne : (⟨k, hk⟩ : Fin n) ≠ ⟨pr, hpr⟩ := fun e => h (Fin.mk.inj e).symm
    rw [Equiv.Perm.sign_swap hne]; simp

omit [DecidableEq F] in
theorem det_swapRows (n : ℕ) (rows : Mat F) (k pr : ℕ) (hn : rows.length = n) (hk : k < n)
    (hpr : pr < n) :
    (toMatrix n (swapRows rows k pr)).det = (if pr = k then 1 else -1) * (toMatrix n rows).det := by
  have hM : toMatrix n (swapRows rows k pr) =
      (toMatrix n rows).submatrix (Equiv.swap (⟨k, hk⟩ : Fin n) ⟨pr, hpr⟩) id := by
    ext i j
    simp only [toMatrix, Matrix.submatrix_apply, id, entry]
    rw [getD_swapRows rows k pr i.1 (hn ▸ hk) (hn ▸ hpr), ← sw_eq_swap]
  rw [hM, Matrix.det_permute]
  split_ifs with h
  · subst h; simp
  · have hne : (⟨k, hk⟩ : Fin n) ≠ ⟨pr, hpr⟩ := fun e => h (Fin.mk.inj e).symm
    rw [Equiv.Perm.sign_swap hne]; simp

/-- the pivot step multiplies the determinant of the leading `n × n` block by `± a⁻¹` -/
theorem det_pivotStep (n : ℕ) (rows : Mat F) (k pr pc w : ℕ) (hn : rows.length = n) (hk : k < n)
    (hpr : pr < n) (hW : ∀ r ∈ rows, r.length = w) :
    (toMatrix n (pivotStep rows k pr pc)).det =
      (entry rows pr pc)⁻¹ * ((if pr = k then 1 else -1) * (toMatrix n rows).det) := by
  have hk' : k < rows.length := hn ▸ hk
  have hpr' : pr < rows.length := hn ▸ hpr
  rw [← det_swapRows n rows k pr hn hk hpr]
  set M1 := toMatrix n (swapRows rows k pr) with hM1
  have hM1e : ∀ i j : Fin n, M1 i j = entry rows (sw k pr i.1) j.1 := fun i j => by
    simp only [hM1, toMatrix, entry]; rw [getD_swapRows rows k pr i.1 hk' hpr']
  -- scale row k
  have h2 : (Matrix.updateRow M1 ⟨k, hk⟩ ((entry rows pr pc)⁻¹ • M1 ⟨k, hk⟩)).det =
      (entry rows pr pc)⁻¹ * M1.det := by
    rw [Matrix.det_updateRow_smul, Matrix.updateRow_eq_self]
  rw [← h2]
  refine Matrix.det_eq_of_forall_row_eq_smul_add_const
    (fun i : Fin n => if i.1 = k then 0 else - entry rows (sw k pr i.1) pc) ⟨k, hk⟩ (by simp) ?_
  intro i j
  have hswk : sw k pr k = pr := by simp [sw]
  simp only [toMatrix]
  rw [entry_pivotStep rows k pr pc i.1 j.1 w hk' hpr' (hn ▸ i.2) hW]
  by_cases hik : i.1 = k
  · have : i = ⟨k, hk⟩ := Fin.ext hik
    subst this
    simp [Matrix.updateRow_self, hM1e, hswk, mul_comm]
  · have hne : i ≠ ⟨k, hk⟩ := fun e => hik (congrArg Fin.val e)
    simp only [if_neg hik, Matrix.updateRow_ne hne, Matrix.updateRow_self, Pi.smul_apply,
      smul_eq_mul, hM1e, hswk]
    ring

/-! ## the loop invariant -/

/-- invariant of `Determinant`'s loop after `k` diagonal positions -/
structure DInv (n : ℕ) (A : Matrix (Fin n) (Fin n) F) (s : DetState F) (k : ℕ) : Prop where
  len : s.rows.length = n
  width : ∀ r ∈ s.rows, r.length = n
  sing : s.singular = true → A.det = 0
  hdet : s.singular = false → A.det = s.sign * (toMatrix n s.rows).det
  lower : s.singular = false → ∀ i j, j < k → j < i → i < n → entry s.rows i j = 0
  prod : s.singular = false → s.det = ∏ j ∈ range k, entry s.rows j j

omit [DecidableEq F] in
/-- a matrix that is upper triangular in its first `k` columns and whose column `k` vanishes from
row `k` on has determinant zero -/
theorem det_eq_zero_of_no_pivot (n : ℕ) (M : Matrix (Fin n) (Fin n) F) (k : ℕ) (hk : k < n)
    (hlow : ∀ i j : Fin n, j.1 < k → j.1 < i.1 → M i j = 0)
    (hcol : ∀ i : Fin n, k ≤ i.1 → M i ⟨k, hk⟩ = 0) : M.det = 0 := by
  rw [Matrix.twoBlockTriangular_det M (fun i : Fin n => i.1 < k)
    (fun i hi j hj => hlow i j hj (by omega))]
  have : (Matrix.toSquareBlockProp M fun i : Fin n => ¬ i.1 < k).det = 0 := by
    refine Matrix.det_eq_zero_of_column_eq_zero ⟨⟨k, hk⟩, by simp⟩ ?_
    intro i
    exact hcol i.1 (by have := i.2; omega)
  rw [this, mul_zero]

theorem DInv.step {n : ℕ} {A : Matrix (Fin n) (Fin n) F} {s : DetState F} {k : ℕ}
    (h : DInv n A s k) (hk : k < n) : DInv n A (detStep s k) (k + 1) := by
  unfold detStep
  split_ifs with hs
  · exact { h with
      hdet := fun e => by simp [hs] at e
      lower := fun e => by simp [hs] at e
      prod := fun e => by simp [hs] at e }
  · have hs' : s.singular = false := by simpa using hs
    split
    · next hn =>
      have hz := findPivot_none _ _ _ hn
      refine { len := h.len, width := h.width, sing := fun _ => ?_, hdet := fun e => by simp at e,
               lower := fun e => by simp at e, prod := fun e => by simp at e }
      rw [h.hdet hs', det_eq_zero_of_no_pivot n _ k hk, mul_zero]
      · intro i j hj hji; exact h.lower hs' i.1 j.1 hj hji i.2
      · intro i hi; exact hz i.1 hi (h.len ▸ i.2)
    · next pr hp =>
      obtain ⟨hpr, hkpr, ha⟩ := findPivot_some _ _ _ _ hp
      have hk' : k < s.rows.length := h.len ▸ hk
      have hpr' : pr < n := h.len ▸ hpr
      have hlen1 := length_condSwap s.rows k pr
      have hW1 := width_condSwap s.rows k pr n hk' hpr h.width
      have hent1 : ∀ i j, entry (if pr = k then s.rows else swapRows s.rows k pr) i j =
          entry s.rows (sw k pr i) j := fun i j => by
        unfold entry; rw [getD_condSwap s.rows k pr i hk' hpr]
      have hkk : entry (if pr = k then s.rows else swapRows s.rows k pr) k k = entry s.rows pr k := by
        rw [hent1]; simp [sw]
      have hdet1 := det_condSwap n s.rows k pr h.len hk hpr'
      have hsw_k : sw k pr k = pr := by simp [sw]
      have hsw_lt : ∀ j, j < k → sw k pr j = j := fun j hj => by
        unfold sw; split_ifs <;> omega
      have hz : ∀ i' j', j' < k → k ≤ i' → i' < n → entry s.rows i' j' = 0 :=
        fun i' j' hj' hi' hin => h.lower hs' i' j' hj' (by omega) hin
      -- the swapped matrix is still upper triangular in the first `k` columns
      have hlow1 : ∀ i j, j < k → j < i → i < n →
          entry (if pr = k then s.rows else swapRows s.rows k pr) i j = 0 := by
        intro i j hj hji hi
        rw [hent1]
        by_cases hik : i < k
        · rw [hsw_lt i hik]; exact h.lower hs' i j hj hji hi
        · exact hz _ j hj (sw_ge hkpr (by omega)) (h.len ▸ sw_lt hk' hpr (h.len ▸ hi))
      have hdiag1 : ∀ j, j < k →
          entry (if pr = k then s.rows else swapRows s.rows k pr) j j = entry s.rows j j :=
        fun j hj => by rw [hent1, hsw_lt j hj]
      have ha1 : entry (if pr = k then s.rows else swapRows s.rows k pr) k k ≠ 0 := by
        rw [hkk]; exact ha
      show DInv n A ⟨elimBelow (if pr = k then s.rows else swapRows s.rows k pr) k,
        s.det * entry (if pr = k then s.rows else swapRows s.rows k pr) k k,
        if pr = k then s.sign else -s.sign, false⟩ (k + 1)
      clear hkk hent1
      generalize (if pr = k then s.rows else swapRows s.rows k pr) = rows1 at *
      have hk1 : k < rows1.length := by rw [hlen1]; exact hk'
      have hn1 : rows1.length = n := by rw [hlen1]; exact h.len
      refine
        { len := by simp only [length_elimBelow]; exact hn1
          width := width_elimBelow _ k n hk1 hW1
          sing := fun e => by simp at e
          hdet := fun _ => ?_
          lower := fun _ => ?_
          prod := fun _ => ?_ }
      · simp only
        rw [det_elimBelow n _ k hn1 hk hW1, hdet1, h.hdet hs']
        split_ifs <;> ring
      · intro i j hj hji hi
        simp only
        rw [entry_elimBelow _ k i j n hk1 (by rw [hn1]; exact hi) hW1]
        split_ifs with hik
        · exact hlow1 i j (by omega) hji hi
        · rcases Nat.lt_succ_iff_lt_or_eq.mp hj with hjk | rfl
          · rw [hlow1 i j hjk hji hi, hlow1 k j hjk hjk hk]; ring
          · field_simp
            ring
      · simp only
        rw [Finset.prod_range_succ, h.prod hs']
        have hdiag : ∀ j, j ≤ k → entry (elimBelow rows1 k) j j = entry rows1 j j := fun j hj => by
          rw [entry_elimBelow _ k j j n hk1 (by omega) hW1, if_pos hj]
        rw [hdiag k le_rfl]
        congr 1
        refine Finset.prod_congr rfl fun j hj => ?_
        have hjk : j < k := Finset.mem_range.mp hj
        rw [hdiag j (by omega), hdiag1 j hjk]

omit [DecidableEq F] in
theorem DInv.init (n : ℕ) (m : Mat F) (hn : m.length = n) (hW : ∀ r ∈ m, r.length = n) :
    DInv n (toMatrix n m) ⟨m, 1, 1, false⟩ 0 where
  len := hn
  width := hW
  sing := fun e => by simp at e
  hdet := fun _ => by simp
  lower := fun _ i j hj => by omega
  prod := fun _ => by simp

/-- the model's determinant (forward elimination with row swaps, product of pivots times the
permutation sign, `0` when a column has no pivot) is `Matrix.det` -/
theorem det_eq_matrix_det (m : Mat F) (hW : ∀ r ∈ m, r.length = m.length) :
    det m = (toMatrix m.length m).det := by
  have key : ∀ t, t ≤ m.length → DInv m.length (toMatrix m.length m)
      ((List.range t).foldl detStep ⟨m, 1, 1, false⟩) t := by
    intro t
    induction t with
    | zero => intro _; simpa using DInv.init m.length m rfl hW
    | succ t ih =>
      intro ht
      rw [List.range_succ, List.foldl_append]
      exact (ih (by omega)).step (by omega)
  have h := key m.length le_rfl
  unfold det
  simp only
  generalize (List.range m.length).foldl detStep ⟨m, 1, 1, false⟩ = s at h
  split_ifs with hs
  · exact (h.sing hs).symm
  · have hs' : s.singular = false := by simpa using hs
    rw [h.hdet hs', h.prod hs', mul_comm]
    congr 1
    have hup : (toMatrix m.length s.rows).IsUpperTriangular := by
      intro i j hji
      exact h.lower hs' i.1 j.1 j.2 hji i.2
    rw [Matrix.det_of_isUpperTriangular hup, ← Fin.prod_univ_eq_prod_range]
    rfl

end BronVerif.LinAlg
