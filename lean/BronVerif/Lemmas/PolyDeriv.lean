import Mathlib.Algebra.Polynomial.Derivative
import BronVerif.Lemmas.PolyLagrange
/-!
# The list model of `Polynomial.Derivative` against Mathlib's `Polynomial.derivative`

`toPoly (deriv cs) = derivative (toPoly cs)` (the Go code trims to the degree first and returns `[0]`
for constants), iterated derivatives, `internal.Phi`, and the rows of the Birkhoff–Vandermonde
matrix as the functionals `c ↦ (d/dx)^j (Σ cₖ Xᵏ)(x)`.
-/
namespace BronVerif.Lemmas.PolyDeriv
open BronVerif BronVerif.LinAlg BronVerif.Poly BronVerif.Lemmas.PolyList
open BronVerif.Lemmas.PolyLagrange Polynomial
open scoped BigOperators

variable {F : Type} [Field F]

theorem nsmul_eq (n : ℕ) (c : F) : Poly.nsmul n c = (n : F) * c := by
  induction n with
  | zero => simp [Poly.nsmul]
  | succ n ih => simp only [Poly.nsmul, ih, Nat.cast_succ]; ring

theorem toPoly_append (a b : List F) : toPoly (a ++ b) = toPoly a + X ^ a.length * toPoly b := by
  induction a with
  | nil => simp [toPoly_nil]
  | cons c a ih =>
    rw [List.cons_append, toPoly_cons, ih, toPoly_cons, List.length_cons, pow_succ]
    ring

theorem toPoly_singleton (c : F) : toPoly [c] = C c := by
  rw [toPoly_cons, toPoly_nil]; simp

theorem toPoly_append_zero (a : List F) : toPoly (a ++ [0]) = toPoly a := by
  rw [toPoly_append, toPoly_singleton]; simp

variable [DecidableEq F]

theorem toPoly_dropWhile_reverse (l : List F) :
    toPoly (l.dropWhile (· = 0)).reverse = toPoly l.reverse := by
  induction l with
  | nil => rfl
  | cons a l ih =>
    by_cases h : a = 0
    · subst h
      rw [List.dropWhile_cons_of_pos (by simp), ih, List.reverse_cons, toPoly_append_zero]
    · rw [List.dropWhile_cons_of_neg (by simpa using h)]

/-- dropping trailing zero coefficients does not change the polynomial -/
theorem toPoly_trim (cs : List F) : toPoly (trim cs) = toPoly cs := by
  unfold trim
  rw [toPoly_dropWhile_reverse, List.reverse_reverse]

omit [DecidableEq F] in
theorem getD_derivCoeffs (t : List F) (i : ℕ) :
    (derivCoeffs t).getD i 0 = ((i : F) + 1) * t.getD (i + 1) 0 := by
  unfold derivCoeffs
  by_cases h : i < (t.drop 1).length
  · have h' : i + 1 < t.length := by simp at h; omega
    simp only [List.getD_eq_getElem?_getD, List.getElem?_map]
    rw [List.getElem?_eq_getElem (by simpa using h), List.getElem?_eq_getElem h']
    simp only [Option.map_some, Option.getD_some, List.getElem_zipIdx, List.getElem_drop, zero_add,
      nsmul_eq, Nat.cast_add, Nat.cast_one]
    congr 2; omega
  · have h' : t.length ≤ i + 1 := by simp at h; omega
    have h2 : (List.map (fun ci : F × ℕ => Poly.nsmul (ci.2 + 1) ci.1) (t.drop 1).zipIdx).length ≤ i := by
      simpa using h
    rw [getD_of_le _ h2, getD_of_le _ h']; simp

omit [DecidableEq F] in
/-- the un-normalised coefficient-wise derivative is Mathlib's derivative -/
theorem toPoly_derivCoeffs (t : List F) : toPoly (derivCoeffs t) = derivative (toPoly t) := by
  ext i
  rw [coeff_toPoly, coeff_derivative, coeff_toPoly, getD_derivCoeffs]
  ring

omit [DecidableEq F] in
theorem toPoly_of_length_le_one (t : List F) (h : t.length ≤ 1) : derivative (toPoly t) = 0 := by
  match t, h with
  | [], _ => simp [toPoly_nil]
  | [c], _ => simp [toPoly_singleton]

/-- **`Polynomial.Derivative`** (trim to the degree, `[0]` for constants) is the formal derivative -/
theorem toPoly_deriv (cs : List F) : toPoly (deriv cs) = derivative (toPoly cs) := by
  unfold deriv
  simp only
  split
  · rename_i h
    rw [toPoly_singleton, ← toPoly_trim cs, toPoly_of_length_le_one _ h]; simp
  · rw [toPoly_derivCoeffs, toPoly_trim]

theorem toPoly_iterDeriv (j : ℕ) (cs : List F) :
    toPoly (iterDeriv j cs) = derivative^[j] (toPoly cs) := by
  induction j generalizing cs with
  | zero => rfl
  | succ j ih => rw [iterDeriv, ih, toPoly_deriv, Function.iterate_succ_apply]

omit [DecidableEq F] in
theorem toPoly_replicate_zero (t : ℕ) : toPoly (List.replicate t (0 : F)) = 0 := by
  ext i
  rw [coeff_toPoly, coeff_zero]
  simp only [List.getD_eq_getElem?_getD, List.getElem?_replicate]
  split <;> rfl

omit [DecidableEq F] in
theorem toPoly_monomial (t : ℕ) : toPoly (List.replicate t (0 : F) ++ [1]) = X ^ t := by
  rw [toPoly_append, toPoly_replicate_zero, toPoly_singleton]; simp

/-- **`internal.Phi(t, x, j)`** is the `j`-th derivative of `Xᵗ` at `x` -/
theorem phi_eq (t : ℕ) (x : F) (j : ℕ) : phi t x j = (derivative^[j] (X ^ t : F[X])).eval x := by
  unfold phi
  split
  · rename_i h
    rw [iterate_derivative_eq_zero (by rw [natDegree_X_pow]; exact h)]; simp
  · rw [eval_eq_toPoly, toPoly_iterDeriv, toPoly_monomial]

/-- a row `(Phi(0,x,j), …, Phi(n-1,x,j))` of the Birkhoff–Vandermonde matrix, applied to a coefficient
list of length `n`, is the `j`-th derivative of that polynomial at `x` -/
theorem dot_phi_row (x : F) (j : ℕ) (c : List F) :
    dot ((List.range c.length).map fun k => phi k x j) c = Poly.eval (iterDeriv j c) x := by
  rw [dot_eq_sum_range _ _ (by simp), eval_eq_toPoly, toPoly_iterDeriv]
  simp only [List.length_map, List.length_range]
  unfold toPoly
  rw [iterate_derivative_sum, eval_finsetSum]
  apply Finset.sum_congr rfl
  intro k hk
  rw [getD_map_range _ _ (Finset.mem_range.mp hk), iterate_derivative_C_mul, eval_mul, eval_C, phi_eq,
    mul_comm]

/-- hence `B(xs, js) · c` is the list of the derivative values `(d/dx)^{jᵣ} c (xᵣ)` -/
theorem mulVec_birkhoffMatrix (xs : List F) (js : List ℕ) (c : List F) :
    mulVec (birkhoffMatrix xs js c.length) c
      = List.zipWith (fun x j => Poly.eval (iterDeriv j c) x) xs js := by
  unfold mulVec birkhoffMatrix
  rw [List.map_zipWith]
  congr 1
  funext x j
  exact dot_phi_row x j c

/-! ## `Polynomial.Add / ScalarMul / Mul` -/
section Arith
omit [DecidableEq F]

theorem toPoly_add (a b : List F) : toPoly (Poly.add a b) = toPoly a + toPoly b := by
  induction a generalizing b with
  | nil => simp [Poly.add, toPoly_nil]
  | cons x a ih =>
    cases b with
    | nil => simp [Poly.add, toPoly_nil]
    | cons y b => simp only [Poly.add, toPoly_cons, ih, C_add]; ring

theorem toPoly_map_mul_right (cs : List F) (s : F) : toPoly (cs.map (· * s)) = toPoly cs * C s := by
  induction cs with
  | nil => simp [toPoly_nil]
  | cons c cs ih => simp only [List.map_cons, toPoly_cons, ih, C_mul]; ring

theorem toPoly_map_mul_left (cs : List F) (s : F) : toPoly (cs.map (s * ·)) = C s * toPoly cs := by
  induction cs with
  | nil => simp [toPoly_nil]
  | cons c cs ih => simp only [List.map_cons, toPoly_cons, ih, C_mul]; ring

theorem toPoly_smul (cs : List F) (s : F) : toPoly (Poly.smul cs s) = toPoly cs * C s :=
  toPoly_map_mul_right cs s

theorem toPoly_mulPoly (a b : List F) : toPoly (Poly.mulPoly a b) = toPoly a * toPoly b := by
  induction a with
  | nil => cases b <;> simp [Poly.mulPoly, toPoly_nil]
  | cons x a ih =>
    cases b with
    | nil => simp [Poly.mulPoly, toPoly_nil]
    | cons y b =>
      have hdef : Poly.mulPoly (x :: a) (y :: b)
          = Poly.add ((y :: b).map (x * ·)) (0 :: Poly.mulPoly a (y :: b)) := by
        simp [Poly.mulPoly]
      rw [hdef, toPoly_add, toPoly_map_mul_left, toPoly_cons (0 : F), ih, toPoly_cons x a]
      simp only [map_zero, zero_add]; ring

end Arith

/-! ## in the exponent -/
section Exponent
omit [DecidableEq F]
variable {G : Type} [AddCommGroup G] [Module F G]

/-- Horner evaluation in the exponent of a lifted polynomial is the lift of the scalar evaluation -/
theorem evalG_liftPoly (cs : List F) (g : G) (x : F) :
    evalG (liftPoly cs g) x = Poly.eval cs x • g := by
  induction cs with
  | nil => simp [evalG, liftPoly, Poly.eval]
  | cons c cs ih =>
    have h1 : evalG (liftPoly (c :: cs) g) x = x • evalG (liftPoly cs g) x + c • g := rfl
    have h2 : Poly.eval (c :: cs) x = Poly.eval cs x * x + c := rfl
    rw [h1, h2, ih, add_smul, mul_smul, smul_comm]

theorem nsmulG_smul (n : ℕ) (c : F) (g : G) : nsmulG n (c • g) = Poly.nsmul n c • g := by
  induction n with
  | zero => simp [nsmulG, Poly.nsmul]
  | succ n ih => simp only [nsmulG, Poly.nsmul, ih, add_smul]

/-- the coefficient-wise derivative in the exponent of a lifted polynomial is the lift of the
coefficient-wise derivative (`ModuleValuedPolynomial.Derivative` does not trim) -/
theorem derivG_liftPoly (cs : List F) (g : G) :
    derivG (liftPoly cs g) = liftPoly (if cs.length ≤ 1 then [0] else derivCoeffs cs) g := by
  unfold derivG liftPoly derivCoeffs
  simp only [List.length_map]
  split
  · simp
  · rw [← List.map_drop, List.zipIdx_map, List.map_map, List.map_map]
    apply List.map_congr_left
    intro ci _
    simp [Function.comp, nsmulG_smul]

end Exponent

end BronVerif.Lemmas.PolyDeriv
