import Mathlib.Data.Nat.ModEq
import Mathlib.Data.Int.ModEq
import Mathlib.Data.Int.GCD
import Mathlib.Data.Nat.Totient
import Mathlib.FieldTheory.Finite.Basic
import Mathlib.NumberTheory.Basic
import Mathlib.Tactic.Ring
import Mathlib.Tactic.Linarith
import Mathlib.Tactic.Positivity
import BronVerif.Model.Paillier
/-!
# Lemmas about the executable Paillier model (`Model/Paillier.lean`)

* `powMod_eq`     : square-and-multiply computes `b ^ e % m`
* `xgcdAux_spec`, `invModD_mul_modEq` : the extended Euclid of the model returns a modular inverse
* `one_add_mul_pow`, `pow_modEq_sq`   : the two binomial facts behind Paillier
* `enc_modEq`, `rep_modEq_mod`        : the model's `enc` as a congruence class mod `N²`
-/
namespace BronVerif.Lemmas.Paillier
open BronVerif.Paillier

theorem powMod_eq (b e m : ℕ) : powMod b e m = b ^ e % m := by
  induction e using Nat.strong_induction_on with
  | _ e ih =>
    rw [powMod]
    split
    · next h => subst h; simp
    · next h =>
      have hlt : e / 2 < e := by omega
      simp only [ih _ hlt]
      have he : b ^ e = b ^ (e / 2) * b ^ (e / 2) * b ^ (e % 2) := by
        conv_lhs => rw [← Nat.div_add_mod e 2]
        rw [pow_add, two_mul, pow_add]
      have hsq : (b ^ (e / 2) % m * (b ^ (e / 2) % m) % m) ≡ b ^ (e / 2) * b ^ (e / 2) [MOD m] :=
        (Nat.mod_modEq _ _).trans ((Nat.mod_modEq _ _).mul (Nat.mod_modEq _ _))
      split
      · next h1 =>
        rw [he, h1, pow_one]
        exact hsq.mul (Nat.mod_modEq _ _)
      · next h1 =>
        have h0 : e % 2 = 0 := by omega
        rw [he, h0, pow_zero, mul_one]
        exact (Nat.mod_modEq _ _).mul (Nat.mod_modEq _ _)

/-- invariant of the extended Euclid: `sᵢ·a ≡ rᵢ (mod m)`; result is the gcd with its coefficient -/
theorem xgcdAux_spec (a : ℤ) (m : ℤ) : ∀ (r1 r0 : ℕ) (s0 s1 : ℤ),
    s0 * a ≡ r0 [ZMOD m] → s1 * a ≡ r1 [ZMOD m] →
    (xgcdAux r0 r1 s0 s1).1 = Nat.gcd r0 r1 ∧
      (xgcdAux r0 r1 s0 s1).2 * a ≡ ((xgcdAux r0 r1 s0 s1).1 : ℤ) [ZMOD m] := by
  intro r1
  induction r1 using Nat.strong_induction_on with
  | _ r1 ih =>
    intro r0 s0 s1 h0 h1
    rw [xgcdAux]
    split
    · next h => subst h; simpa using h0
    · next h =>
      have hpos : 0 < r1 := Nat.pos_of_ne_zero h
      have hlt : r0 % r1 < r1 := Nat.mod_lt _ hpos
      have hstep : (s0 - ((r0 / r1 : ℕ) : ℤ) * s1) * a ≡ ((r0 % r1 : ℕ) : ℤ) [ZMOD m] := by
        have e1 : (s0 - ((r0 / r1 : ℕ) : ℤ) * s1) * a = s0 * a - ((r0 / r1 : ℕ) : ℤ) * (s1 * a) := by ring
        have e2 : ((r0 % r1 : ℕ) : ℤ) = (r0 : ℤ) - ((r0 / r1 : ℕ) : ℤ) * (r1 : ℤ) := by
          have := Nat.mod_add_div r0 r1
          have h' : ((r0 % r1 : ℕ) : ℤ) + (r1 : ℤ) * ((r0 / r1 : ℕ) : ℤ) = (r0 : ℤ) := by exact_mod_cast this
          linarith
        rw [e1, e2]
        exact h0.sub (h1.mul_left _)
      obtain ⟨g1, g2⟩ := ih (r0 % r1) hlt r1 s1 (s0 - ((r0 / r1 : ℕ) : ℤ) * s1) h1 hstep
      refine ⟨?_, g2⟩
      rw [g1, Nat.gcd_comm r0 r1, Nat.gcd_rec r1 r0, Nat.gcd_comm]

/-- for a unit `a` mod `m > 0` the model's `invMod` returns a genuine inverse below `m` -/
theorem invMod_spec {a m : ℕ} (hm : 0 < m) (h : Nat.Coprime a m) :
    ∃ x, invMod a m = some x ∧ x < m ∧ a * x ≡ 1 [MOD m] := by
  have h0 : (0 : ℤ) * (a : ℤ) ≡ ((m : ℕ) : ℤ) [ZMOD (m : ℤ)] := by
    simp [Int.ModEq]
  have h1 : (1 : ℤ) * (a : ℤ) ≡ ((a % m : ℕ) : ℤ) [ZMOD (m : ℤ)] := by
    rw [one_mul, Int.natCast_mod]
    exact (Int.mod_modEq _ _).symm
  obtain ⟨g1, g2⟩ := xgcdAux_spec (a : ℤ) (m : ℤ) (a % m) m 0 1 h0 h1
  have hg : (xgcdAux m (a % m) 0 1).1 = 1 := by
    rw [g1, Nat.gcd_comm, ← Nat.gcd_rec, Nat.gcd_comm]
    exact h
  have hmz : (0 : ℤ) < (m : ℤ) := by exact_mod_cast hm
  refine ⟨((xgcdAux m (a % m) 0 1).2 % (m : ℤ)).toNat, ?_, ?_, ?_⟩
  · unfold invMod
    simp [hg]
  · have := Int.emod_lt_of_pos (xgcdAux m (a % m) 0 1).2 hmz
    have hn := Int.emod_nonneg (xgcdAux m (a % m) 0 1).2 (ne_of_gt hmz)
    omega
  · have hn := Int.emod_nonneg (xgcdAux m (a % m) 0 1).2 (ne_of_gt hmz)
    rw [← Int.natCast_modEq_iff]
    push_cast
    rw [Int.toNat_of_nonneg hn]
    rw [hg] at g2
    have : (xgcdAux m (a % m) 0 1).2 % (m : ℤ) ≡ (xgcdAux m (a % m) 0 1).2 [ZMOD (m : ℤ)] := Int.mod_modEq _ _
    calc (a : ℤ) * ((xgcdAux m (a % m) 0 1).2 % (m : ℤ))
        ≡ (a : ℤ) * (xgcdAux m (a % m) 0 1).2 [ZMOD (m : ℤ)] := this.mul_left _
      _ = (xgcdAux m (a % m) 0 1).2 * (a : ℤ) := by ring
      _ ≡ ((1 : ℕ) : ℤ) [ZMOD (m : ℤ)] := g2
      _ = 1 := by simp

theorem invModD_lt {a m : ℕ} (hm : 0 < m) (h : Nat.Coprime a m) : invModD a m < m := by
  obtain ⟨x, hx, hlt, _⟩ := invMod_spec hm h
  simp [invModD, hx, hlt]

theorem invModD_mul_modEq {a m : ℕ} (hm : 0 < m) (h : Nat.Coprime a m) :
    a * invModD a m ≡ 1 [MOD m] := by
  obtain ⟨x, hx, _, hmul⟩ := invMod_spec hm h
  simpa [invModD, hx] using hmul

/-- `(1 + tN)^k ≡ 1 + k·t·N (mod N²)` -/
theorem one_add_mul_pow (N t k : ℕ) : (1 + t * N) ^ k ≡ 1 + k * t * N [MOD N * N] := by
  induction k with
  | zero => simp [Nat.ModEq]
  | succ k ih =>
    rw [pow_succ]
    refine (ih.mul_right _).trans ?_
    have : (1 + k * t * N) * (1 + t * N) = 1 + (k + 1) * t * N + N * N * (k * t * t) := by ring
    rw [this]
    exact Nat.add_mul_mod_self_left _ _ _

/-- congruent mod `N` ⇒ `N`-th powers congruent mod `N²` -/
theorem pow_modEq_sq {N a b : ℕ} (h : a ≡ b [MOD N]) : a ^ N ≡ b ^ N [MOD N * N] := by
  have hd : ((N : ℕ) : ℤ) ∣ (b : ℤ) - (a : ℤ) := (Nat.modEq_iff_dvd).1 h
  have := dvd_sub_pow_of_dvd_sub (R := ℤ) (p := N) hd 1
  rw [Nat.modEq_iff_dvd]
  push_cast
  simpa [pow_two, pow_one] using this

/-- `(1 + xN) mod N² = 1 + (x mod N)·N` for `N > 1` -/
theorem one_add_mul_mod {N : ℕ} (hN : 1 < N) (x : ℕ) :
    (1 + x * N) % (N * N) = 1 + (x % N) * N := by
  have hx : 1 + x * N = 1 + (x % N) * N + N * N * (x / N) := by
    conv_lhs => rw [← Nat.mod_add_div x N]
    ring
  rw [hx, Nat.add_mul_mod_self_left]
  apply Nat.mod_eq_of_lt
  have h1 : x % N < N := Nat.mod_lt _ (by omega)
  have h2 : (x % N) * N ≤ (N - 1) * N := Nat.mul_le_mul_right _ (by omega)
  have h3 : (N - 1) * N + N = N * N := by
    have : N - 1 + 1 = N := by omega
    calc (N - 1) * N + N = (N - 1 + 1) * N := by ring
      _ = N * N := by rw [this]
  omega

theorem L_one_add_mul {N : ℕ} (hN : 1 < N) (x : ℕ) : L N ((1 + x * N) % (N * N)) = x % N := by
  rw [one_add_mul_mod hN, L]
  simp only [Nat.add_sub_cancel_left]
  exact Nat.mul_div_cancel _ (by omega)

/-- `(1+N)^x` only depends on `x mod N` (mod `N²`) -/
theorem rep_modEq_mod (N x : ℕ) : (1 + N) ^ x ≡ (1 + N) ^ (x % N) [MOD N * N] := by
  have h1 := one_add_mul_pow N 1 x
  have h2 := one_add_mul_pow N 1 (x % N)
  simp only [one_mul, mul_one] at h1 h2
  refine h1.trans (Nat.ModEq.trans ?_ h2.symm)
  exact Nat.ModEq.add_left 1 (Nat.ModEq.mul_right' N (Nat.mod_modEq x N).symm)

/-- the model's `enc` as a congruence class -/
theorem enc_modEq (N m r : ℕ) : enc N m r ≡ (1 + N) ^ m * r ^ N [MOD N * N] := by
  unfold enc rep noise
  rw [powMod_eq, powMod_eq]
  exact (Nat.mod_modEq _ _).trans ((Nat.mod_modEq _ _).mul (Nat.mod_modEq _ _))

theorem enc_lt {N : ℕ} (hN : 0 < N) (m r : ℕ) : enc N m r < N * N := by
  unfold enc
  exact Nat.mod_lt _ (Nat.mul_pos hN hN)

end BronVerif.Lemmas.Paillier
