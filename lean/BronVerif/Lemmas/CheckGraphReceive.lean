import BronVerif.Model.CheckGraph
import BronVerif.Model.CheckGraphVec
/-! Lemmas about the receiver loop `CheckGraph.receive` and the gate `CheckGraph.release`
(core-only proofs; used by `Props/C04.lean`). -/
namespace BronVerif.CheckGraph

variable {ι : Type}

theorem firstFail_eq_none_iff (preds : List Pred) (passes : Pred → ι → Bool) (s : ι) :
    firstFail preds passes s = none ↔ ∀ p ∈ preds, passes p s = true := by
  unfold firstFail
  rw [List.find?_eq_none]
  constructor
  · intro h p hp
    have := h p hp
    simpa using this
  · intro h p hp
    simp [h p hp]

theorem firstFail_some (preds : List Pred) (passes : Pred → ι → Bool) (s : ι) (p : Pred)
    (h : firstFail preds passes s = some p) : p ∈ preds ∧ passes p s = false := by
  unfold firstFail at h
  have hm := List.mem_of_find?_eq_some h
  have hp := List.find?_some h
  exact ⟨hm, by simpa using hp⟩

theorem receive_accept_iff (preds : List Pred) (passes : Pred → ι → Bool) (senders : List ι) :
    receive preds passes senders = .accept ↔ ∀ s ∈ senders, ∀ p ∈ preds, passes p s = true := by
  induction senders with
  | nil => simp [receive]
  | cons s rest ih =>
    unfold receive
    cases hf : firstFail preds passes s with
    | none =>
      simp only [ih]
      have hs := (firstFail_eq_none_iff preds passes s).1 hf
      constructor
      · intro h t ht
        rcases List.mem_cons.1 ht with rfl | ht
        · exact hs
        · exact h t ht
      · intro h t ht
        exact h t (List.mem_cons_of_mem _ ht)
    | some p =>
      have ⟨hp, hfalse⟩ := firstFail_some preds passes s p hf
      constructor
      · intro h; cases h
      · intro h
        have := h s (List.mem_cons_self) p hp
        rw [hfalse] at this
        cases this

/-- whoever is blamed sent a message on which a *tagged* predicate failed -/
theorem receive_blame (preds : List Pred) (passes : Pred → ι → Bool) (senders : List ι) (b : ι)
    (h : receive preds passes senders = .reject (some b)) :
    b ∈ senders ∧ ∃ p ∈ preds, p.tagged = true ∧ passes p b = false := by
  induction senders with
  | nil => simp [receive] at h
  | cons s rest ih =>
    unfold receive at h
    cases hf : firstFail preds passes s with
    | none =>
      rw [hf] at h
      have ⟨hb, hp⟩ := ih h
      exact ⟨List.mem_cons_of_mem _ hb, hp⟩
    | some p =>
      rw [hf] at h
      have ⟨hp, hfalse⟩ := firstFail_some preds passes s p hf
      by_cases ht : p.tagged = true
      · simp [ht] at h
        subst h
        exact ⟨List.mem_cons_self, p, hp, ht, hfalse⟩
      · simp [ht] at h

/-! ### the receiver loop over per-row families -/

theorem receiveRows_accept_iff (preds : List Pred) (rows : ι → Nat) (passes : CompPred → ι → Bool)
    (senders : List ι) :
    receiveRows preds rows passes senders = .accept ↔
      ∀ s ∈ senders, ∀ c ∈ componentsOf preds (rows s), passes c s = true := by
  induction senders with
  | nil => simp [receiveRows]
  | cons s rest ih =>
    unfold receiveRows
    cases hf : (componentsOf preds (rows s)).find? (fun c => !passes c s) with
    | none =>
      simp only [ih]
      have hs : ∀ c ∈ componentsOf preds (rows s), passes c s = true := by
        intro c hc
        have := List.find?_eq_none.1 hf c hc
        simpa using this
      constructor
      · intro h t ht
        rcases List.mem_cons.1 ht with rfl | ht
        · exact hs
        · exact h t ht
      · intro h t ht
        exact h t (List.mem_cons_of_mem _ ht)
    | some c =>
      have hm := List.mem_of_find?_eq_some hf
      have hp := List.find?_some hf
      constructor
      · intro h; cases h
      · intro h
        have := h s (List.mem_cons_self) c hm
        simp [this] at hp

/-- whoever is blamed sent a message on which a member of a *tagged* family failed -/
theorem receiveRows_blame (preds : List Pred) (rows : ι → Nat) (passes : CompPred → ι → Bool)
    (senders : List ι) (b : ι) (h : receiveRows preds rows passes senders = .reject (some b)) :
    b ∈ senders ∧ ∃ c ∈ componentsOf preds (rows b), c.pred.tagged = true ∧ passes c b = false := by
  induction senders with
  | nil => simp [receiveRows] at h
  | cons s rest ih =>
    unfold receiveRows at h
    cases hf : (componentsOf preds (rows s)).find? (fun c => !passes c s) with
    | none =>
      rw [hf] at h
      have ⟨hb, hp⟩ := ih h
      exact ⟨List.mem_cons_of_mem _ hb, hp⟩
    | some c =>
      rw [hf] at h
      have hm := List.mem_of_find?_eq_some hf
      have hp := List.find?_some hf
      by_cases ht : c.pred.tagged = true
      · simp [ht] at h
        subst h
        exact ⟨List.mem_cons_self, c, hm, ht, by simpa using hp⟩
      · simp [ht] at h

/-- every member of a family belongs to a predicate of the graph -/
theorem mem_componentsOf (preds : List Pred) (rows : Nat) (c : CompPred)
    (h : c ∈ componentsOf preds rows) : c.pred ∈ preds := by
  unfold componentsOf at h
  rcases List.mem_flatMap.1 h with ⟨p, hp, hc⟩
  unfold Pred.components at hc
  split at hc
  · rcases List.mem_map.1 hc with ⟨i, _, rfl⟩
    exact hp
  · have : c = ⟨p, 0⟩ := by simpa using hc
    subst this
    exact hp

/-- a per-row predicate contributes one member per row -/
theorem components_perRow (p : Pred) (rows i : Nat) (hp : p.perRow = true) (hi : i < rows) :
    (⟨p, i⟩ : CompPred) ∈ p.components rows := by
  unfold Pred.components
  simp [hp, hi]

theorem release_some {α : Type} (verdicts : List (Verdict ι)) (gate : Bool) (out o : α)
    (h : release verdicts gate out = some o) :
    o = out ∧ gate = true ∧ ∀ v ∈ verdicts, v = Verdict.accept := by
  unfold release at h
  split at h
  · rename_i hc
    simp only [Bool.and_eq_true, List.all_eq_true] at hc
    refine ⟨by cases h; rfl, hc.2, ?_⟩
    intro v hv
    have := hc.1 v hv
    cases v with
    | accept => rfl
    | reject _ => simp at this
  · cases h

end BronVerif.CheckGraph
