import BronVerif.Lemmas.Cbor
/-!
# Canonical form, uniqueness, decoder monotonicity and strictness of the CBOR model

All statements are about the definitions of `Model/Cbor.lean`.
-/
namespace BronVerif.Cbor

/-! ## 1. the bytewise order is a strict order -/

theorem bytesLt_cons_lt {a b : UInt8} (as bs : Bytes) (h : a < b) :
    bytesLt (a :: as) (b :: bs) = true := by
  simp only [bytesLt, if_pos h]

theorem bytesLt_cons_self (a : UInt8) (as bs : Bytes) :
    bytesLt (a :: as) (a :: bs) = bytesLt as bs := by
  have h : ¬ a < a := by rw [UInt8.lt_iff_toNat_lt]; omega
  simp only [bytesLt, if_neg h]

theorem bytesLt_irrefl (a : Bytes) : bytesLt a a = false := by
  induction a with
  | nil => rfl
  | cons x xs ih => rw [bytesLt_cons_self]; exact ih

theorem bytesLt_asymm (a b : Bytes) : bytesLt a b = true → bytesLt b a = false := by
  induction a generalizing b with
  | nil => cases b <;> simp [bytesLt]
  | cons x xs ih =>
    cases b with
    | nil => simp [bytesLt]
    | cons y ys =>
      intro h
      by_cases h1 : x < y
      · have h2 : ¬ y < x := by rw [UInt8.lt_iff_toNat_lt] at *; omega
        simp only [bytesLt, if_neg h2, if_pos h1]
      · by_cases h2 : y < x
        · simp [bytesLt, h1, h2] at h
        · simp only [bytesLt, if_neg h1, if_neg h2] at h ⊢
          exact ih ys h

example : bytesLt [0x61, 0x62] [0x61, 0x63] = true ∧ bytesLt [0x61, 0x63] [0x61, 0x62] = false := by
  decide

/-! ## 2. flattening and unflattening key/value pairs -/

theorem unpairs_pairs : ∀ (l : List Item) (_ : l.length % 2 = 0), unpairs (pairs l) = l
  | [], _ => rfl
  | [_], h => by simp at h
  | k :: v :: rest, h => by
    have h' : rest.length % 2 = 0 := by simp only [List.length_cons] at h; omega
    simp only [pairs, unpairs, unpairs_pairs rest h']

example : unpairs (pairs [.uint 1, .uint 2, .text [0x61], .uint 3])
    = [.uint 1, .uint 2, .text [0x61], .uint 3] := unpairs_pairs _ (by decide)

theorem keysOf_eq_map_pairs : ∀ (l : List Item), keysOf l = (pairs l).map (·.1)
  | [] => rfl
  | [_] => rfl
  | k :: v :: rest => by simp only [keysOf, pairs, List.map_cons, keysOf_eq_map_pairs rest]

/-! ## 3. insertion sort is the identity on strictly ascending keys -/

theorem sortPairs_of_ascending (ps : List (Item × Item))
    (h : keysAscending (ps.map (·.1)) = true) : sortPairs ps = ps := by
  induction ps with
  | nil => rfl
  | cons p rest ih =>
    cases rest with
    | nil => rfl
    | cons q r =>
      simp only [List.map_cons, keysAscending, Bool.and_eq_true] at h
      have ih' := ih (by simpa only [List.map_cons] using h.2)
      have hq : bytesLt (encRaw q.1) (encRaw p.1) = false := bytesLt_asymm _ _ h.1
      simp only [sortPairs] at ih' ⊢
      rw [ih']
      simp only [insertPair, hq, Bool.false_eq_true, if_false]

example : sortPairs [(.text [0x61], .uint 1), (.text [0x62], .uint 2)]
    = [(.text [0x61], .uint 1), (.text [0x62], .uint 2)] :=
  sortPairs_of_ascending _ (by decide)

/-! ## 4. `canon` is the identity on canonical items -/

mutual
theorem canon_of_isCanon : ∀ x : Item, wf x = true → isCanon x = true → canon x = x
  | .uint _, _, _ => rfl
  | .nint _, _, _ => rfl
  | .bytes _, _, _ => rfl
  | .text _, _, _ => rfl
  | .simple _, _, _ => rfl
  | .float _ _, _, _ => rfl
  | .array xs, hw, hc => by
    simp only [wf, Bool.and_eq_true] at hw
    simp only [isCanon] at hc
    simp only [canon, canonList_of_isCanon xs hw.2 hc]
  | .map kvs, hw, hc => by
    simp only [wf, Bool.and_eq_true, decide_eq_true_eq] at hw
    obtain ⟨⟨⟨he, _⟩, _⟩, hl⟩ := hw
    simp only [isCanon, Bool.and_eq_true] at hc
    have hk : keysAscending ((pairs kvs).map (·.1)) = true := by
      rw [← keysOf_eq_map_pairs]; exact hc.1
    simp only [canon, canonList_of_isCanon kvs hl hc.2, sortPairs_of_ascending _ hk,
      unpairs_pairs kvs he]
  | .tag t y, hw, hc => by
    simp only [wf, Bool.and_eq_true] at hw
    simp only [isCanon] at hc
    simp only [canon, canon_of_isCanon y hw.2 hc]
theorem canonList_of_isCanon : ∀ xs : List Item, wfList xs = true → isCanonList xs = true →
    canonList xs = xs
  | [], _, _ => rfl
  | x :: xs, hw, hc => by
    simp only [wfList, Bool.and_eq_true] at hw
    simp only [isCanonList, Bool.and_eq_true] at hc
    simp only [canonList, canon_of_isCanon x hw.1 hc.1, canonList_of_isCanon xs hw.2 hc.2]
end

/-- a map with two unsorted text keys is sorted by `canon` ... -/
example : canon (.map [.text [0x62], .uint 2, .text [0x61], .uint 1])
    = .map [.text [0x61], .uint 1, .text [0x62], .uint 2] := by
  simp [canon, canonList, pairs, sortPairs, insertPair, unpairs, encRaw, head, bytesLt]

/-- ... and the sorted map is a fixed point -/
example : canon (.map [.text [0x61], .uint 1, .text [0x62], .uint 2])
    = .map [.text [0x61], .uint 1, .text [0x62], .uint 2] :=
  canon_of_isCanon _ (by decide) (by decide)

/-! ## 5./6. round trip of the deterministic encoder; canonical encodings are unique -/

theorem decode_encode (x : Item) (hw : wf x = true) (hc : isCanon x = true)
    (hd : depth x ≤ maxDepth) : decode (encode x) = some x := by
  unfold encode
  rw [canon_of_isCanon x hw hc]
  exact decode_encRaw x hw hd

example : decode (encode (.map [.text [0x61], .uint 1, .text [0x62], .array [.uint 2]]))
    = some (.map [.text [0x61], .uint 1, .text [0x62], .array [.uint 2]]) :=
  decode_encode _ (by decide) (by decide) (by decide)

theorem canonical_unique (x y : Item) (hx : wf x = true) (hy : wf y = true)
    (cx : isCanon x = true) (cy : isCanon y = true)
    (dx : depth x ≤ maxDepth) (dy : depth y ≤ maxDepth)
    (h : encode x = encode y) : x = y := by
  have h1 := decode_encode x hx cx dx
  have h2 := decode_encode y hy cy dy
  rw [h, h2] at h1
  exact (Option.some.inj h1).symm

example : encode (.map [.text [0x62], .uint 2, .text [0x61], .uint 1])
    = encode (.map [.text [0x61], .uint 1, .text [0x62], .uint 2]) := by decide

example (y : Item) (hy : wf y = true) (cy : isCanon y = true) (dy : depth y ≤ maxDepth)
    (h : encode (.map [.text [0x61], .uint 1, .text [0x62], .uint 2]) = encode y) :
    .map [.text [0x61], .uint 1, .text [0x62], .uint 2] = y :=
  canonical_unique _ y (by decide) hy (by decide) cy (by decide) dy h

/-! ## 7. the decoder is monotone in fuel and depth budget -/

theorem decItems_zero (f d : Nat) (bs : Bytes) : decItems f d 0 bs = some ([], bs) := by
  cases f <;> simp only [decItems]

theorem dec_mono_aux : ∀ f : Nat,
    (∀ d bs r, decItem f d bs = some r →
      ∀ f' d', f ≤ f' → d ≤ d' → decItem f' d' bs = some r) ∧
    (∀ d n bs r, decItems f d n bs = some r →
      ∀ f' d', f ≤ f' → d ≤ d' → decItems f' d' n bs = some r) := by
  intro f
  induction f with
  | zero =>
    refine ⟨?_, ?_⟩
    · intro d bs r h; simp [decItem] at h
    · intro d n bs r h f' d' _ _
      cases n with
      | zero => rw [decItems_zero] at h ⊢; exact h
      | succ n => simp [decItems] at h
  | succ f ih =>
    refine ⟨?_, ?_⟩
    · intro d bs r h f' d' hf hd
      obtain ⟨f'', rfl⟩ : ∃ f'', f' = f'' + 1 := ⟨f' - 1, by omega⟩
      have hf' : f ≤ f'' := by omega
      simp only [decItem] at h ⊢
      cases hdh : decHead bs with
      | none => simp [hdh] at h
      | some q =>
        obtain ⟨m, ai, n, rest⟩ := q
        simp only [hdh] at h ⊢
        by_cases h0 : m = 0
        · rw [if_pos h0] at h ⊢; exact h
        rw [if_neg h0] at h ⊢
        by_cases h1 : m = 1
        · rw [if_pos h1] at h ⊢; exact h
        rw [if_neg h1] at h ⊢
        by_cases h2 : m = 2
        · rw [if_pos h2] at h ⊢; exact h
        rw [if_neg h2] at h ⊢
        by_cases h3 : m = 3
        · rw [if_pos h3] at h ⊢; exact h
        rw [if_neg h3] at h ⊢
        by_cases h4 : m = 4
        · rw [if_pos h4] at h ⊢
          by_cases hd0 : d = 0 ∨ maxElems < n
          · rw [if_pos hd0] at h; simp at h
          · have hd0' : ¬ (d' = 0 ∨ maxElems < n) := by omega
            rw [if_neg hd0] at h; rw [if_neg hd0']
            cases hq : decItems f (d - 1) n rest with
            | none => simp [hq] at h
            | some q =>
              rw [ih.2 _ _ _ _ hq f'' (d' - 1) hf' (by omega)]
              rw [hq] at h; exact h
        rw [if_neg h4] at h ⊢
        by_cases h5 : m = 5
        · rw [if_pos h5] at h ⊢
          by_cases hd0 : d = 0 ∨ maxElems < n
          · rw [if_pos hd0] at h; simp at h
          · have hd0' : ¬ (d' = 0 ∨ maxElems < n) := by omega
            rw [if_neg hd0] at h; rw [if_neg hd0']
            cases hq : decItems f (d - 1) (2 * n) rest with
            | none => simp [hq] at h
            | some q =>
              rw [ih.2 _ _ _ _ hq f'' (d' - 1) hf' (by omega)]
              rw [hq] at h; exact h
        rw [if_neg h5] at h ⊢
        by_cases h6 : m = 6
        · rw [if_pos h6] at h ⊢
          by_cases hn : n = 2 ∨ n = 3
          · rw [if_pos hn] at h; simp at h
          rw [if_neg hn] at h ⊢
          by_cases ht : nextIsTag rest = true
          · by_cases hd0 : d = 0
            · rw [if_pos ⟨ht, hd0⟩] at h; simp at h
            · have hd0' : ¬ d' = 0 := by omega
              rw [if_neg (fun hh => hd0 hh.2), if_pos ht] at h
              rw [if_neg (fun hh => hd0' hh.2), if_pos ht]
              cases hq : decItem f (d - 1) rest with
              | none => simp [hq] at h
              | some q =>
                rw [ih.1 _ _ _ hq f'' (d' - 1) hf' (by omega)]
                rw [hq] at h; exact h
          · rw [if_neg (fun hh => ht hh.1), if_neg ht] at h
            rw [if_neg (fun hh => ht hh.1), if_neg ht]
            cases hq : decItem f d rest with
            | none => simp [hq] at h
            | some q =>
              rw [ih.1 _ _ _ hq f'' d' hf' hd]
              rw [hq] at h; exact h
        rw [if_neg h6] at h ⊢
        exact h
    · intro d n bs r h f' d' hf hd
      obtain ⟨f'', rfl⟩ : ∃ f'', f' = f'' + 1 := ⟨f' - 1, by omega⟩
      have hf' : f ≤ f'' := by omega
      cases n with
      | zero => rw [decItems_zero] at h ⊢; exact h
      | succ n =>
        simp only [decItems] at h ⊢
        cases hq : decItem f d bs with
        | none => simp [hq] at h
        | some q =>
          obtain ⟨x, r1⟩ := q
          rw [ih.1 _ _ _ hq f'' d' hf' hd]
          rw [hq] at h
          simp only at h ⊢
          cases hq2 : decItems f d n r1 with
          | none => simp [hq2] at h
          | some q2 =>
            rw [ih.2 _ _ _ _ hq2 f'' d' hf' hd]
            rw [hq2] at h; exact h

theorem decItem_mono : ∀ f d bs r, decItem f d bs = some r →
    ∀ f' d', f ≤ f' → d ≤ d' → decItem f' d' bs = some r :=
  fun f => (dec_mono_aux f).1

theorem decItems_mono : ∀ f d n bs r, decItems f d n bs = some r →
    ∀ f' d', f ≤ f' → d ≤ d' → decItems f' d' n bs = some r :=
  fun f => (dec_mono_aux f).2

example : decItem 100 32 [0x82, 0x01, 0x81, 0x02] = some (.array [.uint 1, .array [.uint 2]], []) :=
  decItem_mono 6 2 _ _ (by rfl) 100 32 (by decide) (by decide)

/-! ## 8. duplicate map keys are rejected, whatever the fuel and depth budget -/

theorem decItem_dupkeys (kvs : List Item) (hw : wfList kvs = true) (he : kvs.length % 2 = 0)
    (hl : kvs.length / 2 < two64) (hdup : noDupKeys kvs = false) (f d : Nat) (rest : Bytes) :
    decItem f d (head 5 (kvs.length / 2) ++ encList kvs ++ rest) = none := by
  cases f with
  | zero => simp only [decItem]
  | succ f0 =>
    have h2 : 2 * (kvs.length / 2) = kvs.length := by omega
    simp only [List.append_assoc, decItem, decHead_head (by decide : 5 < 8) hl, h2]
    by_cases hd0 : d = 0 ∨ maxElems < kvs.length / 2
    · simp [hd0]
    · cases hq : decItems f0 (d - 1) kvs.length (encList kvs ++ rest) with
      | none => simp
      | some q =>
        have hm := decItems_mono _ _ _ _ _ hq (max f0 (needList kvs))
          (max (d - 1) (depthList kvs)) (Nat.le_max_left _ _) (Nat.le_max_left _ _)
        rw [rt_list kvs hw _ _ rest (Nat.le_max_right _ _) (Nat.le_max_right _ _)] at hm
        have hqe : q = (kvs, rest) := (Option.some.inj hm).symm
        subst hqe
        simp [hdup]

theorem decode_dupkeys (kvs : List Item) (hw : wfList kvs = true) (he : kvs.length % 2 = 0)
    (hl : kvs.length / 2 < two64) (hdup : noDupKeys kvs = false) :
    decode (encRaw (.map kvs)) = none := by
  have h := decItem_dupkeys kvs hw he hl hdup
    (2 * (head 5 (kvs.length / 2) ++ encList kvs).length + 1) maxDepth []
  rw [List.append_nil] at h
  simp only [decode, encRaw, h]

example : decode [0xa2, 0x01, 0x02, 0x01, 0x03] = none :=
  decode_dupkeys [.uint 1, .uint 2, .uint 1, .uint 3] (by decide) (by decide) (by decide)
    (by decide)

example : decode [0xa2, 0x01, 0x02, 0x01, 0x03] = none := by decide

/-- the duplicate is found also when the map is nested -/
example (f d : Nat) : decItem f d [0xa2, 0x01, 0x02, 0x01, 0x03, 0xff] = none :=
  decItem_dupkeys [.uint 1, .uint 2, .uint 1, .uint 3] (by decide) (by decide) (by decide)
    (by decide) f d [0xff]

/-! ## 9. bignum tags (2, 3) are rejected for every spelling of the head -/

theorem decItem_bignum_tag (f d : Nat) (bs rest : Bytes) (ai n : Nat)
    (h : decHead bs = some (6, ai, n, rest)) (hn : n = 2 ∨ n = 3) : decItem f d bs = none := by
  cases f with
  | zero => simp only [decItem]
  | succ f =>
    simp only [decItem, h]
    simp [hn]

example (f d : Nat) : decItem f d [0xc2, 0x41, 0x01] = none :=
  decItem_bignum_tag f d _ [0x41, 0x01] 2 2 (by decide) (by decide)

example (f d : Nat) : decItem f d [0xd8, 0x02, 0x41, 0x01] = none :=
  decItem_bignum_tag f d _ [0x41, 0x01] 24 2 (by decide) (by decide)

example (f d : Nat) : decItem f d [0xd9, 0x00, 0x03, 0x41, 0x01] = none :=
  decItem_bignum_tag f d _ [0x41, 0x01] 25 3 (by decide) (by decide)

example : decode [0xc2, 0x41, 0x01] = none ∧ decode [0xd8, 0x02, 0x41, 0x01] = none := by decide

/-! ## 10. unsigned keys: numeric order = bytewise order of the shortest-form encoding -/

/-- number of argument bytes following the initial byte of a shortest-form head -/
def argLen (n : Nat) : Nat :=
  if n < 24 then 0 else if n < 256 then 1 else if n < 65536 then 2
  else if n < 4294967296 then 4 else 8

theorem head_eq (m n : Nat) :
    head m n = UInt8.ofNat (m * 32 + aiOf n) :: beBytes n (argLen n) := by
  unfold head aiOf argLen
  by_cases h1 : n < 24
  · simp only [if_pos h1, beBytes]
  · by_cases h2 : n < 256
    · simp only [if_neg h1, if_pos h2]
    · by_cases h3 : n < 65536
      · simp only [if_neg h1, if_neg h2, if_pos h3]
      · by_cases h4 : n < 4294967296
        · simp only [if_neg h1, if_neg h2, if_neg h3, if_pos h4]
        · simp only [if_neg h1, if_neg h2, if_neg h3, if_neg h4]

theorem aiOf_lt (n : Nat) : aiOf n < 32 := by
  unfold aiOf; split <;> (try split) <;> (try split) <;> (try split) <;> omega

theorem beBytes_lt (k : Nat) : ∀ a b : Nat, a < b → b < 256 ^ k →
    bytesLt (beBytes a k) (beBytes b k) = true := by
  induction k with
  | zero => intro a b h1 h2; simp at h2; omega
  | succ k ih =>
    intro a b hab hb
    have hpos : 0 < 256 ^ k := Nat.pos_of_ne_zero (by simp)
    have hqb : b / 256 ^ k < 256 := by
      rw [Nat.div_lt_iff_lt_mul hpos]; rw [Nat.pow_succ] at hb; omega
    have hle : a / 256 ^ k ≤ b / 256 ^ k := Nat.div_le_div_right (Nat.le_of_lt hab)
    simp only [beBytes]
    by_cases hq : a / 256 ^ k < b / 256 ^ k
    · apply bytesLt_cons_lt
      rw [UInt8.lt_iff_toNat_lt, toNat_ofNat_lt (by omega), toNat_ofNat_lt hqb]
      exact hq
    · have heq : a / 256 ^ k = b / 256 ^ k := by omega
      rw [heq, bytesLt_cons_self]
      apply ih
      · have ha := Nat.div_add_mod a (256 ^ k)
        have hb' := Nat.div_add_mod b (256 ^ k)
        rw [heq] at ha
        generalize 256 ^ k = p at *
        generalize b / p = q at *
        generalize a % p = ra at *
        generalize b % p = rb at *
        generalize p * q = pq at *
        omega
      · exact Nat.mod_lt _ hpos

/-- either the initial byte already decides, or both heads have the same shape -/
theorem aiOf_cases (a b : Nat) (hab : a < b) (hb : b < two64) :
    aiOf a < aiOf b ∨ (aiOf a = aiOf b ∧ argLen a = argLen b ∧ b < 256 ^ argLen b) := by
  unfold two64 at hb
  unfold aiOf argLen
  by_cases b1 : b < 24
  · have a1 : a < 24 := by omega
    simp only [if_pos a1, if_pos b1]; left; exact hab
  · by_cases b2 : b < 256
    · simp only [if_neg b1, if_pos b2]
      by_cases a1 : a < 24
      · simp only [if_pos a1]; left; exact a1
      · have a2 : a < 256 := by omega
        simp only [if_neg a1, if_pos a2]; right; exact ⟨trivial, trivial, by omega⟩
    · by_cases b3 : b < 65536
      · simp only [if_neg b1, if_neg b2, if_pos b3]
        by_cases a1 : a < 24
        · simp only [if_pos a1]; left; omega
        · by_cases a2 : a < 256
          · simp only [if_neg a1, if_pos a2]; left; omega
          · have a3 : a < 65536 := by omega
            simp only [if_neg a1, if_neg a2, if_pos a3]; right; exact ⟨trivial, trivial, by omega⟩
      · by_cases b4 : b < 4294967296
        · simp only [if_neg b1, if_neg b2, if_neg b3, if_pos b4]
          by_cases a1 : a < 24
          · simp only [if_pos a1]; left; omega
          · by_cases a2 : a < 256
            · simp only [if_neg a1, if_pos a2]; left; omega
            · by_cases a3 : a < 65536
              · simp only [if_neg a1, if_neg a2, if_pos a3]; left; omega
              · have a4 : a < 4294967296 := by omega
                simp only [if_neg a1, if_neg a2, if_neg a3, if_pos a4]
                right; exact ⟨trivial, trivial, by omega⟩
        · simp only [if_neg b1, if_neg b2, if_neg b3, if_neg b4]
          by_cases a1 : a < 24
          · simp only [if_pos a1]; left; omega
          · by_cases a2 : a < 256
            · simp only [if_neg a1, if_pos a2]; left; omega
            · by_cases a3 : a < 65536
              · simp only [if_neg a1, if_neg a2, if_pos a3]; left; omega
              · by_cases a4 : a < 4294967296
                · simp only [if_neg a1, if_neg a2, if_neg a3, if_pos a4]; left; omega
                · simp only [if_neg a1, if_neg a2, if_neg a3, if_neg a4]
                  right; exact ⟨trivial, trivial, by omega⟩

theorem head_lt_of_lt (m a b : Nat) (hm : m < 8) (hab : a < b) (hb : b < two64) :
    bytesLt (head m a) (head m b) = true := by
  rw [head_eq, head_eq]
  have ha' := aiOf_lt a
  have hb' := aiOf_lt b
  rcases aiOf_cases a b hab hb with h | ⟨h1, h2, h3⟩
  · apply bytesLt_cons_lt
    rw [UInt8.lt_iff_toNat_lt, toNat_ofNat_lt (by omega), toNat_ofNat_lt (by omega)]
    omega
  · rw [h1, h2, bytesLt_cons_self]
    exact beBytes_lt _ a b hab h3

example : bytesLt (encRaw (.uint 23)) (encRaw (.uint 24)) = true ∧
    bytesLt (encRaw (.uint 255)) (encRaw (.uint 256)) = true ∧
    bytesLt (encRaw (.uint 256)) (encRaw (.uint 511)) = true := by decide

example : bytesLt (head 0 1000) (head 0 70000) = true :=
  head_lt_of_lt 0 1000 70000 (by decide) (by decide) (by decide)

theorem keysAscending_uints_asc : ∀ (ids : List Nat), ascNat ids = true →
    (∀ i ∈ ids, i < two64) → keysAscending (ids.map Item.uint) = true
  | [], _, _ => rfl
  | [_], _, _ => rfl
  | a :: b :: r, hs, hb => by
    simp only [ascNat, Bool.and_eq_true, decide_eq_true_eq] at hs
    have hbb : b < two64 := hb b (by simp)
    have ih := keysAscending_uints_asc (b :: r) hs.2
      (fun i hi => hb i (List.mem_cons_of_mem _ hi))
    simp only [List.map_cons] at ih
    simp only [List.map_cons, keysAscending, encRaw, Bool.and_eq_true]
    exact ⟨head_lt_of_lt 0 a b (by decide) hs.1 hbb, ih⟩

theorem ascNat_of_pairwise : ∀ (ids : List Nat), ids.Pairwise (· < ·) → ascNat ids = true
  | [], _ => rfl
  | [_], _ => rfl
  | a :: b :: r, h => by
    rw [List.pairwise_cons] at h
    simp only [ascNat, Bool.and_eq_true, decide_eq_true_eq]
    exact ⟨h.1 b (by simp), ascNat_of_pairwise (b :: r) h.2⟩

theorem keysAscending_uints (ids : List Nat) (hs : ids.Pairwise (· < ·))
    (hb : ∀ i ∈ ids, i < two64) : keysAscending (ids.map Item.uint) = true :=
  keysAscending_uints_asc ids (ascNat_of_pairwise ids hs) hb

example : keysAscending ([1, 2, 23, 24, 255, 256, 65535, 65536, 4294967296].map Item.uint)
    = true :=
  keysAscending_uints_asc _ (by decide) (by decide)

example : keysAscending ([1, 2, 300].map Item.uint) = true :=
  keysAscending_uints _ (by simp) (by decide)

/-- a map keyed by ascending party identifiers is canonical, hence a fixed point of `canon` -/
example : isCanon (.map [.uint 1, .text [0x61], .uint 2, .text [0x62], .uint 300, .text [0x63]])
    = true := by decide

end BronVerif.Cbor
