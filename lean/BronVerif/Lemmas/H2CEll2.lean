import Mathlib.Tactic.Ring
import Mathlib.Tactic.FieldSimp
import Mathlib.Tactic.LinearCombination
import Mathlib.Algebra.Field.Basic
import Mathlib.Algebra.Group.Even
import BronVerif.Gen.H2CMaps
/-!
# The GENERATED Elligator 2 maps (`Gen/H2CMaps.lean`, from `mappers/elligator2/*.go`) land on the curves
-/
namespace BronVerif.Lemmas.H2CEll2
open BronVerif.Gen.H2CMaps

variable {F : Type} [Field F] [DecidableEq F]

/-- steps 18–39 of `mapToCurveElligator2Curve25519` as a function of the intermediate values -/
def ellFinish (c2 c3 : F) (sgn0 : F → Bool) (u tv1 xd x1n gxd gx1 y11 : F) : F × F × F × F :=
  let y12 := y11 * c3
  let e1 := (y11 * y11 * gxd == gx1)
  let y1 := if e1 then y11 else y12
  let x2n := x1n * tv1
  let y21 := y11 * u * c2
  let y22 := y21 * c3
  let gx2 := gx1 * tv1
  let e2 := (y21 * y21 * gxd == gx2)
  let y2 := if e2 then y21 else y22
  let e3 := (y1 * y1 * gxd == gx1)
  let xn := if e3 then x1n else x2n
  let y := if e3 then y1 else y2
  let e4 := sgn0 y
  let y' := if (e3 != e4) then -y else y
  (xn, xd, y', 1)

theorem ell2_eq_finish (K : Nat → F) (fpow : F → Nat → F) (sgn0 : F → Bool) (u : F) :
    mapToCurveElligator2Curve25519 K fpow sgn0 u =
      (let j := K curve25519Elligator2JLimbs
       let tv1 := u * u + u * u
       let xd := tv1 + 1
       let x1n := -j
       let tv2 := xd * xd
       let gxd := tv2 * xd
       let gx1 := (j * tv1 * x1n + tv2) * x1n
       let tv3 := gxd * gxd
       let tv3' := tv3 * gxd * gx1
       let a := tv3 * tv3 * tv3'
       ellFinish (K curve25519Elligator2C2Limbs) (K curve25519Elligator2C3Limbs) sgn0 u tv1 xd x1n gxd gx1
         (fpow a curve25519Elligator2C4 * tv3')) := rfl

omit [DecidableEq F] in
theorem neg_ite_sq' (c : Bool) (y : F) : (if c then -y else y) ^ 2 = y ^ 2 := by
  cases c <;> simp

theorem ellFinish_sq {c2 c3 : F} (sgn0 : F → Bool) {u tv1 xd x1n gxd gx1 y11 : F} (G : F → F)
    (hc3 : c3 ^ 2 = -1) (hc2 : c2 ^ 4 = -4)
    (ht : (gx1 = 0 ∧ y11 = 0) ∨ ∃ t, t ^ 4 = 1 ∧ y11 ^ 2 * gxd = t * gx1)
    (htv1 : tv1 = 2 * u ^ 2) (hG1 : G x1n = gx1) (hG2 : G (x1n * tv1) = gx1 * tv1) :
    (ellFinish c2 c3 sgn0 u tv1 xd x1n gxd gx1 y11).2.2.1 ^ 2 * gxd =
      G (ellFinish c2 c3 sgn0 u tv1 xd x1n gxd gx1 y11).1 := by
  simp only [ellFinish, neg_ite_sq', beq_iff_eq]
  split_ifs with h1 h3 h2
  · rw [hG1]; linear_combination h1
  · rw [hG1]; linear_combination h3
  · rw [hG2]; linear_combination h2
  · rw [hG2]
    rcases ht with ⟨hg, hy⟩ | ⟨t, ht4, hty⟩
    · exact absurd (by rw [hg, hy]; ring) h1
    · have hg : gx1 ≠ 0 := by
        rintro rfl
        apply h1
        have : y11 ^ 2 * gxd = 0 := by rw [hty]; ring
        linear_combination this
      have ht1 : t ≠ 1 := by
        rintro rfl
        apply h1
        linear_combination hty
      have htm1 : t ≠ -1 := by
        rintro rfl
        apply h3
        linear_combination c3 ^ 2 * hty - gx1 * hc3
      have ht2 : t ^ 2 = -1 := by
        have : (t - 1) * ((t + 1) * (t ^ 2 + 1)) = 0 := by linear_combination ht4
        rcases mul_eq_zero.mp this with h | h
        · exact absurd (by linear_combination h) ht1
        · rcases mul_eq_zero.mp h with h | h
          · exact absurd (by linear_combination h) htm1
          · linear_combination h
      have hct : (c2 ^ 2 * t - 2) * (c2 ^ 2 * t + 2) = 0 := by
        linear_combination t ^ 2 * hc2 - 4 * ht2
      rcases mul_eq_zero.mp hct with h | h
      · exfalso
        apply h2
        linear_combination (u ^ 2 * c2 ^ 2) * hty + (u ^ 2 * gx1) * h - gx1 * htv1
      · linear_combination (u ^ 2 * c2 ^ 2 * c3 ^ 2) * hty + (u ^ 2 * c2 ^ 2 * t * gx1) * hc3 - (u ^ 2 * gx1) * h - gx1 * htv1

theorem elligator2_on_curve' (K : Nat → F) (fpow : F → Nat → F) (sgn0 : F → Bool) (u : F)
    (hpow : ∀ a, fpow a curve25519Elligator2C4 ^ 8 * a ^ 5 = a)
    (hc3 : K curve25519Elligator2C3Limbs ^ 2 = -1) (hc2 : K curve25519Elligator2C2Limbs ^ 4 = -4)
    (h2 : ¬ IsSquare (2 : F)) (r : F × F × F × F) (hr : r = mapToCurveElligator2Curve25519 K fpow sgn0 u) :
    r.2.1 ≠ 0 ∧ r.2.2.2 = 1 ∧
    r.2.2.1 ^ 2 * r.2.1 ^ 3 = r.1 ^ 3 + K curve25519Elligator2JLimbs * r.1 ^ 2 * r.2.1 + r.1 * r.2.1 ^ 2 := by
  rw [ell2_eq_finish] at hr
  extract_lets j tv1 xd x1n tv2 gxd gx1 tv3 tv3' a at hr
  have ej : j = K curve25519Elligator2JLimbs := rfl
  have e1 : tv1 = u * u + u * u := rfl
  have e2 : xd = tv1 + 1 := rfl
  have e3 : x1n = -j := rfl
  have e4 : tv2 = xd * xd := rfl
  have e5 : gxd = tv2 * xd := rfl
  have e6 : gx1 = (j * tv1 * x1n + tv2) * x1n := rfl
  have e7 : tv3 = gxd * gxd := rfl
  have e8 : tv3' = tv3 * gxd * gx1 := rfl
  have e9 : a = tv3 * tv3 * tv3' := rfl
  clear_value a tv3' tv3 gx1 gxd tv2 x1n xd tv1 j
  rw [← ej]
  have hxd : xd ≠ 0 := by
    intro h
    have hu : u ≠ 0 := by
      rintro rfl
      rw [e2, e1] at h
      simp at h
    apply h2
    refine ⟨K curve25519Elligator2C3Limbs / u, ?_⟩
    rw [div_mul_div_comm, eq_div_iff (mul_ne_zero hu hu)]
    rw [e2, e1] at h
    linear_combination h - hc3
  have hgxd : gxd ≠ 0 := by
    rw [e5, e4]; exact mul_ne_zero (mul_ne_zero hxd hxd) hxd
  have key := ellFinish_sq (c2 := K curve25519Elligator2C2Limbs) (c3 := K curve25519Elligator2C3Limbs) sgn0
    (u := u) (tv1 := tv1) (xd := xd) (x1n := x1n) (gxd := gxd) (gx1 := gx1)
    (y11 := fpow a curve25519Elligator2C4 * tv3')
    (fun x => x ^ 3 + j * x ^ 2 * xd + x * xd ^ 2) hc3 hc2 ?_ (by rw [e1]; ring) ?_ ?_
  · rw [← hr] at key
    have r21 : r.2.1 = xd := by rw [hr]; rfl
    have r222 : r.2.2.2 = 1 := by rw [hr]; rfl
    refine ⟨by rw [r21]; exact hxd, r222, ?_⟩
    rw [r21]
    rw [e5, e4] at key
    linear_combination key
  · by_cases hg : gx1 = 0
    · left
      exact ⟨hg, by rw [e8, hg]; ring⟩
    · right
      have ha0 : a ≠ 0 := by
        rw [e9, e8, e7]
        exact mul_ne_zero (mul_ne_zero (mul_ne_zero hgxd hgxd) (mul_ne_zero hgxd hgxd))
          (mul_ne_zero (mul_ne_zero (mul_ne_zero hgxd hgxd) hgxd) hg)
      refine ⟨fpow a curve25519Elligator2C4 ^ 2 * a, ?_, ?_⟩
      · have hp := hpow a
        apply mul_right_cancel₀ ha0
        linear_combination hp
      · rw [e9, e8, e7]; ring
  · show x1n ^ 3 + j * x1n ^ 2 * xd + x1n * xd ^ 2 = gx1
    rw [e6, e4, e3, e2]; ring
  · show (x1n * tv1) ^ 3 + j * (x1n * tv1) ^ 2 * xd + x1n * tv1 * xd ^ 2 = gx1 * tv1
    rw [e6, e4, e3, e2]; ring

/-! ### the rational map to edwards25519 (`mapToCurveElligator2Edwards25519`, edwards25519.go) -/

/-- steps 2–13 of `mapToCurveElligator2Edwards25519` applied to the Montgomery fractions `m` -/
def edFinish (c1 : F) (m : F × F × F × F) : F × F × F × F :=
  let xn := m.1 * m.2.2.2 * c1
  let xd := m.2.1 * m.2.2.1
  let yn := m.1 - m.2.1
  let yd := m.1 + m.2.1
  let e := (xd * yd == 0)
  (if e then 0 else xn, if e then 1 else xd, if e then 1 else yn, if e then 1 else yd)

theorem ed_eq_finish (K : Nat → F) (fpow : F → Nat → F) (sgn0 : F → Bool) (u : F) :
    mapToCurveElligator2Edwards25519 K fpow sgn0 u =
      edFinish (K edwards25519Elligator2C1Limbs) (mapToCurveElligator2Curve25519 K fpow sgn0 u) := rfl

/-- the birational map sends the Montgomery curve `t² = s³ + J s² + s` to `-v² + w² = 1 + d v² w²` when
`c1² = -(J+2)` and `d (J+2) = -(J-2)`; the exceptional points (`t = 0` or `s = -1`) go to `(0, 1)` -/
theorem edFinish_on_curve (c1 J d : F) (m : F × F × F × F) (hc1 : c1 ^ 2 = -(J + 2)) (hd : d * (J + 2) = -(J - 2))
    (hxd : m.2.1 ≠ 0) (hyd : m.2.2.2 = 1)
    (hm : m.2.2.1 ^ 2 * m.2.1 ^ 3 = m.1 ^ 3 + J * m.1 ^ 2 * m.2.1 + m.1 * m.2.1 ^ 2) :
    (edFinish c1 m).2.1 ≠ 0 ∧ (edFinish c1 m).2.2.2 ≠ 0 ∧
    -((edFinish c1 m).1 / (edFinish c1 m).2.1) ^ 2 + ((edFinish c1 m).2.2.1 / (edFinish c1 m).2.2.2) ^ 2 =
      1 + d * ((edFinish c1 m).1 / (edFinish c1 m).2.1) ^ 2 * ((edFinish c1 m).2.2.1 / (edFinish c1 m).2.2.2) ^ 2 := by
  obtain ⟨xMn, xMd, yMn, yMd⟩ := m
  simp only at hxd hyd hm
  subst hyd
  simp only [edFinish, beq_iff_eq]
  by_cases he : xMd * yMn * (xMn + xMd) = 0
  · simp [he]
  · simp only [he, if_false]
    have h1 : xMd * yMn ≠ 0 := left_ne_zero_of_mul he
    have h2 : xMn + xMd ≠ 0 := right_ne_zero_of_mul he
    have hy : yMn ≠ 0 := right_ne_zero_of_mul h1
    refine ⟨h1, h2, ?_⟩
    field_simp
    linear_combination (-(xMn ^ 2 * (xMn + xMd) ^ 2) - xMn ^ 2 * (xMn - xMd) ^ 2 * d) * hc1
      + (xMn ^ 2 * (xMn - xMd) ^ 2) * hd - 4 * xMn * hm

/-- **The generated map to edwards25519 lands on `-x² + y² = 1 + d·x²·y²`** for every `u` (denominators
non-zero): `c1² = -(J+2)`, `d·(J+2) = -(J-2)` and the hypotheses of `elligator2_on_curve'`. -/
theorem elligator2_edwards_on_curve (K : Nat → F) (fpow : F → Nat → F) (sgn0 : F → Bool) (u d : F)
    (hpow : ∀ a, fpow a curve25519Elligator2C4 ^ 8 * a ^ 5 = a)
    (hc3 : K curve25519Elligator2C3Limbs ^ 2 = -1) (hc2 : K curve25519Elligator2C2Limbs ^ 4 = -4)
    (h2 : ¬ IsSquare (2 : F))
    (hc1 : K edwards25519Elligator2C1Limbs ^ 2 = -(K curve25519Elligator2JLimbs + 2))
    (hd : d * (K curve25519Elligator2JLimbs + 2) = -(K curve25519Elligator2JLimbs - 2))
    (r : F × F × F × F) (hr : r = mapToCurveElligator2Edwards25519 K fpow sgn0 u) :
    r.2.1 ≠ 0 ∧ r.2.2.2 ≠ 0 ∧
    -(r.1 / r.2.1) ^ 2 + (r.2.2.1 / r.2.2.2) ^ 2 = 1 + d * (r.1 / r.2.1) ^ 2 * (r.2.2.1 / r.2.2.2) ^ 2 := by
  obtain ⟨hm1, hm2, hm3⟩ := elligator2_on_curve' K fpow sgn0 u hpow hc3 hc2 h2 _ rfl
  rw [hr, ed_eq_finish]
  exact edFinish_on_curve _ _ d _ hc1 hd hm1 hm2 hm3

end BronVerif.Lemmas.H2CEll2
