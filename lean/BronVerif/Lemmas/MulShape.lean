import BronVerif.Gen.MulFacts
import BronVerif.Model.Window
/-!
Expected structure of `ScalarMulLowLevel` / `MultiScalarMulLowLevel` (pkg/base/algebra/impl/mul.go)
as the hand-written model `Model/Window.lean` mirrors it, in the normal form of
`translator/facts_mul.go` (flattened statements, locals renamed in order of declaration, integer
literals in decimal).  Every number that the model uses is spliced in FROM THE MODEL'S CONSTANTS
(`tableSize`, `nibbleBits`, `naiveMax`, `clampLo`, `clampHi`, 8 bits per byte), so
`Props/C14.msm_structure_matches_model` (a `decide` over the whole regenerated table) fails when the
Go code changes a threshold, a mask, a loop bound, the digit it uses, or the shape of `getWindow`.
Model ↔ Go statement correspondence:
  `buildTable`/`table`   the `for v6 := 2; …` loop          `smulNibble`  the `for v8 := len(v4) - 1; …` loop
  `msm`                  the three early returns + clamp    `getWindowAux`/`getWindow`  the closure `v17`
  `windowStep`           body of `for v27 := v16 - 1; …`    `scatter`/`collapse`  its two inner loops
-/
namespace BronVerif.Lemmas.MulShape
open BronVerif.Gen.MulFacts BronVerif.Window

/-- decimal digits of `n` as code points (structural on fuel, so the kernel can evaluate it) -/
def decAux : Nat → Nat → List Nat → List Nat
  | 0, _, acc => acc
  | fuel + 1, n, acc => if n < 10 then (48 + n) :: acc else decAux fuel (n / 10) ((48 + n % 10) :: acc)
def dec (n : Nat) : Str := decAux (n + 1) n []

/-- bits per byte (`bitIndex / 8`, `bitIndex % 8`, `len(s) * 8`) — the model's `getWindowAux`, `maxBits` -/
def byteBits : Nat := 8

def expectedScalarMul : List Str :=
  [ mulcps!"func[v0 GroupElementPtrLowLevel[v0, v1], v1 any](v2, v3 *v1, v4 []byte) {",
    mulcps!"var v5 [" ++ dec (tableSize) ++ mulcps!"]v1",
    mulcps!"v0(&v5[0]).SetZero()",
    mulcps!"v0(&v5[1]).Set(v3)",
    mulcps!"for v6 := 2; v6 < " ++ dec (2 ^ nibbleBits) ++ mulcps!"; v6 += 2 {",
    mulcps!"v0(&v5[v6]).Double(&v5[v6/2])",
    mulcps!"v0(&v5[v6+1]).Add(&v5[v6], v3)",
    mulcps!"}",
    mulcps!"var v7 v1",
    mulcps!"v0(&v7).SetZero()",
    mulcps!"for v8 := len(v4) - 1; v8 >= 0; v8-- {" ] ++
  List.replicate nibbleBits (mulcps!"v0(&v7).Double(&v7)") ++
  [ mulcps!"v9 := (v4[v8] >> " ++ dec nibbleBits ++ mulcps!") & " ++ dec (2 ^ nibbleBits - 1),
    mulcps!"v0(&v7).Add(&v7, &v5[v9])" ] ++
  List.replicate nibbleBits (mulcps!"v0(&v7).Double(&v7)") ++
  [ mulcps!"v9 = v4[v8] & " ++ dec (2 ^ nibbleBits - 1),
    mulcps!"v0(&v7).Add(&v7, &v5[v9])",
    mulcps!"}",
    mulcps!"v0(v2).Set(&v7)",
    mulcps!"}" ]

def expectedMultiScalarMul : List Str :=
  [ mulcps!"func[v0 GroupElementPtrLowLevel[v0, v1], v1 any](v2 *v1, v3 []*v1, v4 [][]byte) {",
    mulcps!"v5 := len(v3)",
    mulcps!"if v5 != len(v4) {",
    mulcps!"panic(\"MultiScalarMul: number of points and scalars must be equal\")",
    mulcps!"}",
    mulcps!"if v5 == 0 {",
    mulcps!"v0(v2).SetZero()",
    mulcps!"return",
    mulcps!"}",
    mulcps!"if v5 <= " ++ dec (naiveMax) ++ mulcps!" {",
    mulcps!"var v6 v1",
    mulcps!"v0(&v6).SetZero()",
    mulcps!"for v7 := range v5 {",
    mulcps!"var v8 v1",
    mulcps!"ScalarMulLowLevel[v0](&v8, v3[v7], v4[v7])",
    mulcps!"v0(&v6).Add(&v6, &v8)",
    mulcps!"}",
    mulcps!"v0(v2).Set(&v6)",
    mulcps!"return",
    mulcps!"}",
    mulcps!"v9 := make([][]byte, v5)",
    mulcps!"v10 := 0",
    mulcps!"for v11, v12 := range v4 {",
    mulcps!"v9[v11] = v12",
    mulcps!"if v13 := len(v12) * " ++ dec (byteBits) ++ mulcps!"; v13 > v10 {",
    mulcps!"v10 = v13",
    mulcps!"}",
    mulcps!"}",
    mulcps!"if v10 == 0 {",
    mulcps!"v0(v2).SetZero()",
    mulcps!"return",
    mulcps!"}",
    mulcps!"v14 := 0",
    mulcps!"if v5 > 0 {",
    mulcps!"v14 = bits.Len(uint(v5))",
    mulcps!"}",
    mulcps!"if v14 < " ++ dec (clampLo) ++ mulcps!" {",
    mulcps!"v14 = " ++ dec (clampLo),
    mulcps!"}",
    mulcps!"if v14 > " ++ dec (clampHi) ++ mulcps!" {",
    mulcps!"v14 = " ++ dec (clampHi),
    mulcps!"}",
    mulcps!"v15 := 1 << v14",
    mulcps!"v16 := (v10 + v14 - 1) / v14",
    mulcps!"v17 := func(v18 []byte, v19 int) uint {",
    mulcps!"if len(v18) == 0 {",
    mulcps!"return 0",
    mulcps!"}",
    mulcps!"var v20 uint",
    mulcps!"for v21 := range v14 {",
    mulcps!"v22 := v19 + v21",
    mulcps!"v23 := v22 / " ++ dec (byteBits),
    mulcps!"if v23 >= len(v18) {",
    mulcps!"break",
    mulcps!"}",
    mulcps!"v24 := uint(v22 % " ++ dec (byteBits) ++ mulcps!")",
    mulcps!"v25 := (v18[v23] >> v24) & 1",
    mulcps!"v20 |= uint(v25) << uint(v21)",
    mulcps!"}",
    mulcps!"return v20",
    mulcps!"}",
    mulcps!"var v26 v1",
    mulcps!"v0(&v26).SetZero()",
    mulcps!"for v27 := v16 - 1; v27 >= 0; v27-- {",
    mulcps!"for range v14 {",
    mulcps!"v0(&v26).Add(&v26, &v26)",
    mulcps!"}",
    mulcps!"v28 := make([]v0, v15)",
    mulcps!"for v29 := range v28 {",
    mulcps!"var v30 v1",
    mulcps!"v0(&v30).SetZero()",
    mulcps!"v28[v29] = v0(&v30)",
    mulcps!"}",
    mulcps!"v31 := v27 * v14",
    mulcps!"for v32 := range v5 {",
    mulcps!"v33 := v17(v9[v32], v31)",
    mulcps!"if v33 == 0 {",
    mulcps!"continue",
    mulcps!"}",
    mulcps!"v28[v33].Add(v28[v33], v3[v32])",
    mulcps!"}",
    mulcps!"var v34 v1",
    mulcps!"v0(&v34).SetZero()",
    mulcps!"for v35 := v15 - 1; v35 > 0; v35-- {",
    mulcps!"if v36 := v28[v35].IsZero(); v36 == ct.False {",
    mulcps!"v0(&v34).Add(&v34, v28[v35])",
    mulcps!"}",
    mulcps!"v0(&v26).Add(&v26, &v34)",
    mulcps!"}",
    mulcps!"}",
    mulcps!"v0(v2).Set(&v26)",
    mulcps!"}" ]

end BronVerif.Lemmas.MulShape
