import BronVerif.Lemmas.PaillierHom
import Mathlib.Data.ZMod.Basic
import Mathlib.Tactic.LinearCombination
/-!
# Garner recombination, CRT exponentiation and the Fermat quotient of the executable Paillier model

* `crt_eq_of_modEq`     : `crt P Q mp mq` is *the* residue below `P·Q` that is `≡ mp (mod P)` and
                          `≡ mq (mod Q)` (for coprime `P`, `Q`)
* `powModCRTWith_eq`    : CRT exponentiation with guarded exponent reduction equals `b^e mod P·Q`
* `invModCRT_eq`        : CRT inversion equals inversion modulo `P·Q`
* `fermatQuot_of_modEq` : the Fermat quotient of `x` with `x^(p-1) ≡ 1 + t·p (mod p²)` is `t mod p`
* `pow_root`            : `(x^a)^d ≡ x (mod n)` when `a·d ≡ 1 (mod φ)` and `x^φ ≡ 1`
-/
namespace BronVerif.Lemmas.Paillier
open BronVerif.Paillier

/-! ### Garner recombination -/

theorem crt_modEq_right (p q mp mq : ℕ) : crt p q mp mq ≡ mq [MOD q] := by
  unfold crt
  simp only [Nat.ModEq, Nat.add_mul_mod_self_left]

theorem crt_modEq_left {p q : ℕ} (hp : 0 < p) (hco : Nat.Coprime q p) (mp mq : ℕ) :
    crt p q mp mq ≡ mp [MOD p] := by
  rw [← ZMod.natCast_eq_natCast_iff]
  have hinv : (q : ZMod p) * (invModD (q % p) p : ZMod p) = 1 := by
    have h := invModD_mul_modEq hp (coprime_mod hco)
    rw [← ZMod.natCast_eq_natCast_iff] at h
    simpa [ZMod.natCast_mod] using h
  have hle : mq % p ≤ mp % p + p := by
    have := Nat.mod_lt mq hp
    omega
  unfold crt
  simp only [Nat.cast_add, Nat.cast_mul, ZMod.natCast_mod, Nat.cast_sub hle, ZMod.natCast_self,
    add_zero]
  linear_combination ((mp : ZMod p) - (mq : ZMod p)) * hinv

theorem crt_lt {p q : ℕ} (hp : 0 < p) {mq : ℕ} (hmq : mq < q) (mp : ℕ) : crt p q mp mq < p * q := by
  unfold crt
  dsimp only
  have hh : ((mp % p + p - mq % p) % p) * invModD (q % p) p % p ≤ p - 1 := by
    have := Nat.mod_lt (((mp % p + p - mq % p) % p) * invModD (q % p) p) hp
    omega
  have h2 : q * (((mp % p + p - mq % p) % p) * invModD (q % p) p % p) ≤ q * (p - 1) :=
    Nat.mul_le_mul_left _ hh
  have h3 : q * (p - 1) + q = p * q := by
    have : p - 1 + 1 = p := by omega
    calc q * (p - 1) + q = q * (p - 1 + 1) := by ring
      _ = p * q := by rw [this, mul_comm]
  omega

/-- `crt P Q mp mq` is the unique residue below `P·Q` with the given residues -/
theorem crt_eq_of_modEq {P Q x mp mq : ℕ} (hP : 0 < P) (hco : Nat.Coprime P Q)
    (h1 : x ≡ mp [MOD P]) (h2 : x ≡ mq [MOD Q]) (hmq : mq < Q) :
    crt P Q mp mq = x % (P * Q) := by
  have hQ : 0 < Q := by omega
  have a : crt P Q mp mq ≡ x % (P * Q) [MOD P * Q] := by
    refine ((Nat.modEq_and_modEq_iff_modEq_mul hco).1 ⟨?_, ?_⟩).trans (Nat.mod_modEq _ _).symm
    · exact (crt_modEq_left hP hco.symm mp mq).trans h1.symm
    · exact (crt_modEq_right P Q mp mq).trans h2.symm
  exact Nat.ModEq.eq_of_lt_of_lt a (crt_lt hP hmq mp) (Nat.mod_lt _ (Nat.mul_pos hP hQ))

/-- recombining the residues of `x` gives `x mod P·Q` -/
theorem crt_mod_mod {P Q : ℕ} (hP : 0 < P) (hQ : 0 < Q) (hco : Nat.Coprime P Q) (x : ℕ) :
    crt P Q (x % P) (x % Q) = x % (P * Q) :=
  crt_eq_of_modEq hP hco (Nat.mod_modEq _ _).symm (Nat.mod_modEq _ _).symm (Nat.mod_lt _ hQ)

/-! ### exponent arithmetic -/

/-- exponents may be reduced modulo any exponent of the base -/
theorem pow_mod_exponent {b φ M : ℕ} (h : b ^ φ ≡ 1 [MOD M]) (e : ℕ) :
    b ^ e ≡ b ^ (e % φ) [MOD M] := by
  conv_lhs => rw [← Nat.div_add_mod e φ, pow_add, pow_mul]
  simpa using (h.pow (e / φ)).mul_right (b ^ (e % φ))

/-- `(x^a)^d ≡ x` when `a·d ≡ 1 (mod φ)` and `x^φ ≡ 1 (mod n)` (`φ > 1`) -/
theorem pow_root {x a d φ n : ℕ} (hφ : 1 < φ) (hx : x ^ φ ≡ 1 [MOD n])
    (had : a * d ≡ 1 [MOD φ]) : (x ^ a) ^ d ≡ x [MOD n] := by
  rw [← pow_mul]
  refine (pow_mod_exponent hx (a * d)).trans ?_
  have : a * d % φ = 1 := by
    have h1 : 1 % φ = 1 := Nat.mod_eq_of_lt hφ
    exact Eq.trans had h1
  rw [this, pow_one]

/-- Fermat / Euler for a prime and for its square, in the `gcd = 1` form the model's guard uses -/
theorem pow_pred_prime {p b : ℕ} (hp : p.Prime) (hb : Nat.gcd b p = 1) : b ^ (p - 1) ≡ 1 [MOD p] := by
  have := Nat.ModEq.pow_totient (show Nat.Coprime b p from hb)
  rwa [Nat.totient_prime hp] at this

theorem pow_phi_prime_sq {p b : ℕ} (hp : p.Prime) (hb : Nat.gcd b p = 1) :
    b ^ ((p - 1) * p) ≡ 1 [MOD p * p] := by
  have hc : Nat.Coprime b (p ^ (1 + 1)) := Nat.Coprime.pow_right _ hb
  have := Nat.ModEq.pow_totient hc
  rw [Nat.totient_prime_pow_succ hp 1, pow_one] at this
  rw [mul_comm (p - 1) p, ← pow_two]
  exact this

theorem coprime_sq_sq {p q : ℕ} (h : Nat.Coprime p q) : Nat.Coprime (p * p) (q * q) :=
  Nat.Coprime.mul_left (Nat.Coprime.mul_right h h) (Nat.Coprime.mul_right h h)

/-! ### CRT exponentiation and inversion -/

/-- **CRT exponentiation is exact for every base** (unit or not), because the exponent is reduced
only under the coprimality guard. -/
theorem powModCRTWith_eq {P Q phiP phiQ p q : ℕ} (hP : 0 < P) (hQ : 0 < Q) (hco : Nat.Coprime P Q)
    (hEP : ∀ b, Nat.gcd b p = 1 → b ^ phiP ≡ 1 [MOD P])
    (hEQ : ∀ b, Nat.gcd b q = 1 → b ^ phiQ ≡ 1 [MOD Q]) (b e : ℕ) :
    powModCRTWith P Q phiP phiQ p q b e = b ^ e % (P * Q) := by
  unfold powModCRTWith
  simp only [powMod_eq]
  apply crt_eq_of_modEq hP hco
  · split
    · next h => exact (pow_mod_exponent (hEP b h) e).trans (Nat.mod_modEq _ _).symm
    · exact (Nat.mod_modEq _ _).symm
  · split
    · next h => exact (pow_mod_exponent (hEQ b h) e).trans (Nat.mod_modEq _ _).symm
    · exact (Nat.mod_modEq _ _).symm
  · exact Nat.mod_lt _ hQ

/-- CRT inversion of a unit equals inversion modulo the product -/
theorem invModCRT_eq {P Q a : ℕ} (hP : 1 < P) (hQ : 1 < Q) (hco : Nat.Coprime P Q)
    (ha : Nat.Coprime a (P * Q)) : invModCRT P Q a = invModD a (P * Q) := by
  have hP0 : 0 < P := by omega
  have hQ0 : 0 < Q := by omega
  have hPQ : 0 < P * Q := Nat.mul_pos hP0 hQ0
  have haP : Nat.Coprime a P := Nat.Coprime.coprime_mul_right_right ha
  have haQ : Nat.Coprime a Q := Nat.Coprime.coprime_mul_left_right ha
  have hinv := invModD_mul_modEq hPQ ha
  have hlt := invModD_lt hPQ ha
  unfold invModCRT
  rw [crt_eq_of_modEq (x := invModD a (P * Q)) hP0 hco ?_ ?_ (invModD_lt hQ0 (coprime_mod haQ)),
    Nat.mod_eq_of_lt hlt]
  · -- mod P: both are inverses of a
    have h1 : a * invModD a (P * Q) ≡ 1 [MOD P] := hinv.of_mul_right Q
    have h2 : a * invModD (a % P) P ≡ 1 [MOD P] :=
      ((Nat.mod_modEq a P).symm.mul_right _).trans (invModD_mul_modEq hP0 (coprime_mod haP))
    exact Nat.ModEq.cancel_left_of_coprime (by rw [Nat.gcd_comm]; exact haP) (h1.trans h2.symm)
  · have h1 : a * invModD a (P * Q) ≡ 1 [MOD Q] := hinv.of_mul_left P
    have h2 : a * invModD (a % Q) Q ≡ 1 [MOD Q] :=
      ((Nat.mod_modEq a Q).symm.mul_right _).trans (invModD_mul_modEq hQ0 (coprime_mod haQ))
    exact Nat.ModEq.cancel_left_of_coprime (by rw [Nat.gcd_comm]; exact haQ) (h1.trans h2.symm)

/-! ### Fermat quotient -/

theorem fermatQuot_of_modEq {p x t : ℕ} (hp : 1 < p) (h : x ^ (p - 1) ≡ 1 + t * p [MOD p * p]) :
    fermatQuot p x = t % p := by
  unfold fermatQuot
  rw [powMod_eq, (h : x ^ (p - 1) % (p * p) = (1 + t * p) % (p * p)), one_add_mul_mod hp]
  have hlt : t % p < p := Nat.mod_lt _ (by omega)
  have h2 : (t % p) * p + p ≤ p * p := by
    have : t % p + 1 ≤ p := hlt
    calc (t % p) * p + p = (t % p + 1) * p := by ring
      _ ≤ p * p := Nat.mul_le_mul_right _ this
  have e : 1 + t % p * p + p * p - 1 = t % p * p + p * p := by omega
  rw [e, Nat.add_mod_right, Nat.mod_eq_of_lt (by omega), Nat.mul_div_cancel _ (by omega)]

end BronVerif.Lemmas.Paillier
