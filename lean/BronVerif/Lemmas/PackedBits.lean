import BronVerif.Model.PackedBits
import Mathlib.Tactic.Ring
/-! Lemmas about the byte-level model of `pkg/ot/bits.go` (`Model/PackedBits.lean`). -/
namespace BronVerif.Lemmas.PackedBits
open BronVerif.PackedBits

theorem length_modifyAt (f : Nat → Nat) (l : List Nat) (k : Nat) : (modifyAt f l k).length = l.length := by
  induction l generalizing k with
  | nil => rfl
  | cons x xs ih => cases k <;> simp [modifyAt, ih]

theorem getD_modifyAt (f : Nat → Nat) (l : List Nat) (k j : Nat) (hk : k < l.length) :
    (modifyAt f l k).getD j 0 = if j = k then f (l.getD k 0) else l.getD j 0 := by
  induction l generalizing k j with
  | nil => simp at hk
  | cons x xs ih =>
    cases k with
    | zero => cases j <;> simp [modifyAt]
    | succ k =>
      cases j with
      | zero => simp [modifyAt]
      | succ j =>
        have := ih k j (by simpa using hk)
        simpa [modifyAt] using this

theorem mem_modifyAt (f : Nat → Nat) (P : Nat → Prop) (hf : ∀ b, P b → P (f b)) (l : List Nat) (k : Nat)
    (h : ∀ b ∈ l, P b) : ∀ b ∈ modifyAt f l k, P b := by
  induction l generalizing k with
  | nil => simp [modifyAt]
  | cons x xs ih =>
    cases k with
    | zero =>
      intro b hb
      simp only [modifyAt, List.mem_cons] at hb
      rcases hb with rfl | hb
      · exact hf _ (h _ (by simp))
      · exact h _ (by simp [hb])
    | succ k =>
      intro b hb
      simp only [modifyAt, List.mem_cons] at hb
      rcases hb with rfl | hb
      · exact h _ (by simp)
      · exact ih k (fun b hb => h b (by simp [hb])) b hb

/-- bit positions: `(i/8, i%8)` determines `i` -/
theorem pos_eq_iff (i j : Nat) : (j / 8 = i / 8 ∧ j % 8 = i % 8) ↔ j = i := by omega

theorem testBit_or_bit (b k j : Nat) (v : Bool) :
    (b ||| (v.toNat <<< k)).testBit j = (b.testBit j || (v && decide (j = k))) := by
  rw [Nat.testBit_or, Nat.testBit_shiftLeft]
  cases v
  · simp
  · by_cases h : j = k
    · subst h; simp
    · by_cases h2 : k ≤ j
      · have : j - k ≠ 0 := by omega
        simp [h, h2, Nat.testBit_one_eq_true_iff_self_eq_zero, this]
      · simp [h, h2]

theorem testBit_clear_bit (b k j : Nat) (hj : j < 8) :
    (b &&& (255 ^^^ (1 <<< k))).testBit j = (b.testBit j && !decide (j = k)) := by
  have h255 : (255 : Nat) = 2 ^ 8 - 1 := by norm_num
  rw [Nat.testBit_and, Nat.testBit_xor, h255, Nat.testBit_two_pow_sub_one, Nat.one_shiftLeft,
    Nat.testBit_two_pow]
  by_cases h : j = k
  · subst h; simp [hj]
  · have : ¬ k = j := fun e => h e.symm
    simp [hj, h, this]

theorem length_orBit (pb : List Nat) (i : Nat) (v : Bool) : (orBit pb i v).length = pb.length :=
  length_modifyAt _ _ _

theorem length_clear (pb : List Nat) (i : Nat) : (clear pb i).length = pb.length :=
  length_modifyAt _ _ _

theorem get_orBit (pb : List Nat) (i k : Nat) (v : Bool) (hi : i < 8 * pb.length) :
    get (orBit pb i v) k = (get pb k || (v && decide (k = i))) := by
  unfold PackedBits.get orBit
  rw [getD_modifyAt _ _ _ _ (by omega)]
  by_cases h : k / 8 = i / 8
  · rw [if_pos h, testBit_or_bit, h]
    congr 2
    have := pos_eq_iff i k
    by_cases h2 : k % 8 = i % 8
    · have : k = i := this.mp ⟨h, h2⟩
      simp [this]
    · have : k ≠ i := fun e => h2 (by rw [e])
      simp [h2, this]
  · have : k ≠ i := fun e => h (by rw [e])
    simp [h, this]

theorem get_clear (pb : List Nat) (i k : Nat) (hi : i < 8 * pb.length) :
    get (clear pb i) k = (get pb k && !decide (k = i)) := by
  unfold PackedBits.get clear
  rw [getD_modifyAt _ _ _ _ (by omega)]
  by_cases h : k / 8 = i / 8
  · rw [if_pos h, testBit_clear_bit _ _ _ (Nat.mod_lt _ (by norm_num)), h]
    congr 2
    have := pos_eq_iff i k
    by_cases h2 : k % 8 = i % 8
    · have : k = i := this.mp ⟨h, h2⟩
      simp [this]
    · have : k ≠ i := fun e => h2 (by rw [e])
      simp [h2, this]
  · have : k ≠ i := fun e => h (by rw [e])
    simp [h, this]

end BronVerif.Lemmas.PackedBits
