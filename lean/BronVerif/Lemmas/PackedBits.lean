import BronVerif.Model.PackedBits
import Mathlib.Tactic.Ring
/-! Lemmas about the byte-level model of `pkg/ot/bits.go` (`Model/PackedBits.lean`). -/
namespace BronVerif.Lemmas.PackedBits
open BronVerif.PackedBits

theorem length_modifyAt (f : Nat → Nat) (l : List Nat) (k : Nat) : (modifyAt f l k).length = l.length := by
  induction l generalizing k with
  | nil => rfl
  | cons x xs ih => cases k <;> simp [modifyAt, ih]

theorem getD_modifyAt (f : Nat → Nat) (l : List Nat) (k j : Nat) (hk : k < l.length) :
    (modifyAt f l k).getD j 0 = if j = k then f (l.getD k 0) else l.getD j 0 := by
  induction l generalizing k j with
  | nil => simp at hk
  | cons x xs ih =>
    cases k with
    | zero => cases j <;> simp [modifyAt]
    | succ k =>
      cases j with
      | zero => simp [modifyAt]
      | succ j =>
        have := ih k j (by simpa using hk)
        simpa [modifyAt] using this

theorem mem_modifyAt (f : Nat → Nat) (P : Nat → Prop) (hf : ∀ b, P b → P (f b)) (l : List Nat) (k : Nat)
    (h : ∀ b ∈ l, P b) : ∀ b ∈ modifyAt f l k, P b := by
  induction l generalizing k with
  | nil => simp [modifyAt]
  | cons x xs ih =>
    cases k with
    | zero =>
      intro b hb
      simp only [modifyAt, List.mem_cons] at hb
      rcases hb with rfl | hb
      · exact hf _ (h _ (by simp))
      · exact h _ (by simp [hb])
    | succ k =>
      intro b hb
      simp only [modifyAt, List.mem_cons] at hb
      rcases hb with rfl | hb
      · exact h _ (by simp)
      · exact ih k (fun b hb => h b (by simp [hb])) b hb

/-- bit positions: `(i/8, i%8)` determines `i` -/
theorem pos_eq_iff (i j : Nat) : (j / 8 = i / 8 ∧ j % 8 = i % 8) ↔ j = i := by omega

theorem testBit_or_bit (b k j : Nat) (v : Bool) :
    (b ||| (v.toNat <<< k)).testBit j = (b.testBit j || (v && decide (j = k))) := by
  rw [Nat.testBit_or, Nat.testBit_shiftLeft]
  cases v
  · simp
  · by_cases h : j = k
    · subst h; simp
    · by_cases h2 : k ≤ j
      · have : j - k ≠ 0 := by omega
        simp [h, h2, Nat.testBit_one_eq_true_iff_self_eq_zero, this]
      · simp [h, h2]

theorem testBit_clear_bit (b k j : Nat) (hj : j < 8) :
    (b &&& (255 ^^^ (1 <<< k))).testBit j = (b.testBit j && !decide (j = k)) := by
  have h255 : (255 : Nat) = 2 ^ 8 - 1 := by norm_num
  rw [Nat.testBit_and, Nat.testBit_xor, h255, Nat.testBit_two_pow_sub_one, Nat.one_shiftLeft,
    Nat.testBit_two_pow]
  by_cases h : j = k
  · subst h; simp [hj]
  · have : ¬ k = j := fun e => h e.symm
    simp [hj, h, this]

theorem length_orBit (pb : List Nat) (i : Nat) (v : Bool) : (orBit pb i v).length = pb.length :=
  length_modifyAt _ _ _

theorem length_clear (pb : List Nat) (i : Nat) : (clear pb i).length = pb.length :=
  length_modifyAt _ _ _

theorem get_orBit (pb : List Nat) (i k : Nat) (v : Bool) (hi : i < 8 * pb.length) :
    get (orBit pb i v) k = (get pb k || (v && decide (k = i))) := by
  unfold PackedBits.get orBit
  rw [getD_modifyAt _ _ _ _ (by omega)]
  by_cases h : k / 8 = i / 8
  · rw [if_pos h, testBit_or_bit, h]
    congr 2
    have := pos_eq_iff i k
    by_cases h2 : k % 8 = i % 8
    · have : k = i := this.mp ⟨h, h2⟩
      simp [this]
    · have : k ≠ i := fun e => h2 (by rw [e])
      simp [h2, this]
  · have : k ≠ i := fun e => h (by rw [e])
    simp [h, this]

theorem get_clear (pb : List Nat) (i k : Nat) (hi : i < 8 * pb.length) :
    get (clear pb i) k = (get pb k && !decide (k = i)) := by
  unfold PackedBits.get clear
  rw [getD_modifyAt _ _ _ _ (by omega)]
  by_cases h : k / 8 = i / 8
  · rw [if_pos h, testBit_clear_bit _ _ _ (Nat.mod_lt _ (by norm_num)), h]
    congr 2
    have := pos_eq_iff i k
    by_cases h2 : k % 8 = i % 8
    · have : k = i := this.mp ⟨h, h2⟩
      simp [this]
    · have : k ≠ i := fun e => h2 (by rw [e])
      simp [h2, this]
  · have : k ≠ i := fun e => h (by rw [e])
    simp [h, this]


/-! ### runs and fills -/

theorem length_orRun (out : List Nat) (v : Bool) (next n : Nat) : (orRun out v next n).length = out.length := by
  induction n generalizing out next with
  | zero => rfl
  | succ n ih => simp [orRun, ih, length_orBit]

theorem get_orRun (out : List Nat) (v : Bool) (next n k : Nat) (h : next + n ≤ 8 * out.length) :
    get (orRun out v next n) k = (get out k || (v && decide (next ≤ k ∧ k < next + n))) := by
  induction n generalizing out next with
  | zero => simp [orRun]
  | succ n ih =>
    rw [orRun, ih _ _ (by rw [length_orBit]; omega), get_orBit _ _ _ _ (by omega)]
    cases v
    · simp
    · by_cases h1 : k = next
      · subst h1; simp
      · have : (next + 1 ≤ k ∧ k < next + 1 + n) ↔ (next ≤ k ∧ k < next + (n + 1)) := by omega
        simp [h1, this]

theorem length_repeatLoop (n : Nat) (bs : List Bool) (out : List Nat) (next : Nat) :
    (repeatLoop n bs out next).length = out.length := by
  induction bs generalizing out next with
  | nil => rfl
  | cons b bs ih => simp [repeatLoop, ih, length_orRun]

theorem get_repeatLoop (n : Nat) (bs : List Bool) (out : List Nat) (next k : Nat)
    (h : next + n * bs.length ≤ 8 * out.length) :
    get (repeatLoop n bs out next) k
      = (get out k || (decide (next ≤ k ∧ k < next + n * bs.length) && bs.getD ((k - next) / n) false)) := by
  induction bs generalizing out next with
  | nil => simp [repeatLoop]
  | cons b bs ih =>
    have hlen : (b :: bs).length = bs.length + 1 := rfl
    rw [hlen, Nat.mul_add, Nat.mul_one] at h
    rw [repeatLoop, ih _ _ (by rw [length_orRun]; omega), get_orRun _ _ _ _ _ (by omega), hlen, Nat.mul_add,
      Nat.mul_one]
    rcases Nat.eq_zero_or_pos n with hn | hn
    · subst hn
      have e : ¬ (next ≤ k ∧ k < next) := by omega
      have e' : ∀ x : Bool, (decide (next ≤ k) && decide (k < next) && x) = false := by
        intro x
        by_cases h1 : next ≤ k
        · have : ¬ k < next := by omega
          simp [this]
        · simp [h1]
      have e'' : ∀ x : Bool, (x && (decide (next ≤ k) && decide (k < next))) = false := by
        intro x; rw [Bool.and_comm]; simpa using e' x
      simp [e', e'']
    · by_cases h1 : k < next
      · have e1 : ¬ (next ≤ k ∧ k < next + n) := by omega
        have e2 : ¬ (next + n ≤ k ∧ k < next + n + n * bs.length) := by omega
        have e3 : ¬ (next ≤ k ∧ k < next + (n * bs.length + n)) := by omega
        simp [e1, e2, e3]
      · by_cases h2 : k < next + n
        · have e1 : (next ≤ k ∧ k < next + n) := by omega
          have e2 : ¬ (next + n ≤ k ∧ k < next + n + n * bs.length) := by omega
          have e3 : (next ≤ k ∧ k < next + (n * bs.length + n)) := by
            have := Nat.zero_le (n * bs.length); omega
          have e4 : (k - next) / n = 0 := Nat.div_eq_of_lt (by omega)
          simp [e1, e2, e3, e4]
        · have e1 : ¬ (next ≤ k ∧ k < next + n) := by omega
          have e3 : (next ≤ k ∧ k < next + (n * bs.length + n)) ↔ (next + n ≤ k ∧ k < next + n + n * bs.length) := by
            omega
          have e4 : (k - next) / n = (k - (next + n)) / n + 1 := by
            have : k - next = (k - (next + n)) + n := by omega
            rw [this, Nat.add_div_right _ hn]
          simp [e1, e3, e4]

theorem length_orFill (f : Nat → Bool) (out : List Nat) (n : Nat) : (orFill f out n).length = out.length := by
  induction n with
  | zero => rfl
  | succ n ih => simp [orFill, length_orBit, ih]

theorem get_orFill (f : Nat → Bool) (out : List Nat) (n k : Nat) (h : n ≤ 8 * out.length) :
    get (orFill f out n) k = (get out k || (decide (k < n) && f k)) := by
  induction n with
  | zero => simp [orFill]
  | succ n ih =>
    rw [orFill, get_orBit _ _ _ _ (by rw [length_orFill]; omega), ih (by omega)]
    by_cases h1 : k = n
    · subst h1; simp
    · by_cases h2 : k < n
      · have : k < n + 1 := by omega
        simp [h1, h2, this]
      · have : ¬ k < n + 1 := by omega
        simp [h1, h2, this]

theorem get_replicate_zero (R k : Nat) : get (List.replicate R 0) k = false := by
  unfold PackedBits.get
  rw [List.getD_eq_getElem?_getD, List.getElem?_replicate]
  split <;> simp

/-! ### bytes stay bytes; extensionality -/

def IsBytes (l : List Nat) : Prop := ∀ b ∈ l, b < 256

theorem isBytes_replicate_zero (R : Nat) : IsBytes (List.replicate R 0) := by
  intro b hb; rw [List.mem_replicate] at hb; omega

theorem isBytes_orBit (pb : List Nat) (i : Nat) (v : Bool) (h : IsBytes pb) : IsBytes (orBit pb i v) := by
  apply mem_modifyAt _ (fun b => b < 256) _ _ _ h
  intro b hb
  have h256 : (256 : Nat) = 2 ^ 8 := by norm_num
  rw [h256]
  apply Nat.or_lt_two_pow (by rw [← h256]; exact hb)
  have : i % 8 < 8 := Nat.mod_lt _ (by norm_num)
  cases v
  · simp
  · simp only [Bool.toNat_true, Nat.one_shiftLeft]
    exact Nat.pow_lt_pow_right (by norm_num) this

theorem isBytes_clear (pb : List Nat) (i : Nat) (h : IsBytes pb) : IsBytes (clear pb i) := by
  apply mem_modifyAt _ (fun b => b < 256) _ _ _ h
  intro b hb
  exact Nat.lt_of_le_of_lt Nat.and_le_left hb

theorem isBytes_orRun (out : List Nat) (v : Bool) (next n : Nat) (h : IsBytes out) : IsBytes (orRun out v next n) := by
  induction n generalizing out next with
  | zero => exact h
  | succ n ih => exact ih _ _ (isBytes_orBit _ _ _ h)

theorem isBytes_repeatLoop (n : Nat) (bs : List Bool) (out : List Nat) (next : Nat) (h : IsBytes out) :
    IsBytes (repeatLoop n bs out next) := by
  induction bs generalizing out next with
  | nil => exact h
  | cons b bs ih => exact ih _ _ (isBytes_orRun _ _ _ _ h)

theorem isBytes_orFill (f : Nat → Bool) (out : List Nat) (n : Nat) (h : IsBytes out) : IsBytes (orFill f out n) := by
  induction n with
  | zero => exact h
  | succ n ih => exact isBytes_orBit _ _ _ ih

theorem byte_ext (a b : Nat) (ha : a < 256) (hb : b < 256) (h : ∀ i < 8, a.testBit i = b.testBit i) : a = b := by
  apply Nat.eq_of_testBit_eq
  intro i
  by_cases hi : i < 8
  · exact h i hi
  · have h256 : (256 : Nat) ≤ 2 ^ i := by
      have : (2 : Nat) ^ 8 ≤ 2 ^ i := Nat.pow_le_pow_right (by norm_num) (by omega)
      simpa using this
    rw [Nat.testBit_lt_two_pow (by omega), Nat.testBit_lt_two_pow (by omega)]

/-- two byte vectors of the same length with the same bits are equal -/
theorem bytes_ext (a b : List Nat) (ha : IsBytes a) (hb : IsBytes b) (hl : a.length = b.length)
    (h : ∀ k < 8 * a.length, get a k = get b k) : a = b := by
  apply List.ext_getElem hl
  intro n h1 h2
  apply byte_ext _ _ (ha _ (List.getElem_mem h1)) (hb _ (List.getElem_mem h2))
  intro i hi
  have := h (8 * n + i) (by omega)
  unfold PackedBits.get at this
  have e1 : (8 * n + i) / 8 = n := by omega
  have e2 : (8 * n + i) % 8 = i := by omega
  rw [e1, e2, List.getD_eq_getElem?_getD, List.getD_eq_getElem?_getD, List.getElem?_eq_getElem h1,
    List.getElem?_eq_getElem h2] at this
  simpa using this

end BronVerif.Lemmas.PackedBits
