import BronVerif.Lemmas.GaussJordanDet
import Mathlib.LinearAlgebra.Matrix.NonsingularInverse
/-!
# `TryInv` (Gauss–Jordan on `[A | I]`): the invariant

For the state `rows` (an `n × 2n` list matrix) after `k` diagonal positions: the leading block has
determinant `c · det A` with `c ≠ 0`, its first `k` columns are unit vectors, and every row
satisfies "left half = right half · A" (expressed by the linear functionals `wcol`).
-/
namespace BronVerif.LinAlg
open Finset
variable {F : Type} [Field F] [DecidableEq F]

/-- a linear functional on rows: `Σ_{c<N} r[c]·w c` -/
def lin (N : ℕ) (w : ℕ → F) (r : List F) : F := ∑ c ∈ range N, r.getD c 0 * w c

omit [DecidableEq F] in
theorem lin_scaleRow (N : ℕ) (w : ℕ → F) (r : List F) (c : F) :
    lin N w (scaleRow r c) = lin N w r * c := by
  simp only [lin, getD_scaleRow, Finset.sum_mul]
  exact Finset.sum_congr rfl fun i _ => by ring

omit [DecidableEq F] in
theorem lin_elimRow (N : ℕ) (w : ℕ → F) (row prow : List F) (f : F)
    (h : row.length = prow.length) :
    lin N w (elimRow row prow f) = lin N w row - f * lin N w prow := by
  simp only [lin, getD_elimRow row prow f h, Finset.mul_sum, ← Finset.sum_sub_distrib]
  exact Finset.sum_congr rfl fun i _ => by ring

/-- a linear functional that vanishes on all rows still does after the pivot step -/
theorem lin_pivotStep_zero (N : ℕ) (w : ℕ → F) (rows : Mat F) (k pr pc wd : ℕ)
    (hk : k < rows.length) (hpr : pr < rows.length) (hW : ∀ r ∈ rows, r.length = wd)
    (h : ∀ i < rows.length, lin N w (rows.getD i []) = 0) :
    ∀ i < rows.length, lin N w ((pivotStep rows k pr pc).getD i []) = 0 := by
  intro i hi
  have hP : (rows.getD pr []).length = wd := hW _ (getD_mem_of_lt rows [] pr hpr)
  have hR : (rows.getD (sw k pr i) []).length = wd :=
    hW _ (getD_mem_of_lt rows [] _ (sw_lt hk hpr hi))
  rw [getD_pivotStep rows k pr pc i hk hpr hi]
  split_ifs
  · rw [lin_scaleRow, h pr hpr, zero_mul]
  · exact h _ (sw_lt hk hpr hi)
  · rw [lin_elimRow _ _ _ _ _ (by rw [length_scaleRow, hP, hR]), lin_scaleRow, h pr hpr,
      h _ (sw_lt hk hpr hi)]
    ring

/-- weights of the relation "left block = right block · A", column `j` -/
def wcol (m : Mat F) (n j : ℕ) (c : ℕ) : F :=
  if c < n then (if c = j then 1 else 0) else - entry m (c - n) j

omit [DecidableEq F] in
theorem lin_wcol (m : Mat F) (n j : ℕ) (hj : j < n) (r : List F) :
    lin (n + n) (wcol m n j) r = r.getD j 0 - ∑ t ∈ range n, r.getD (n + t) 0 * entry m t j := by
  rw [lin, Finset.sum_range_add]
  have h1 : ∑ c ∈ range n, r.getD c 0 * wcol m n j c = r.getD j 0 := by
    have : ∀ c ∈ range n, r.getD c 0 * wcol m n j c = if c = j then r.getD j 0 else 0 := by
      intro c hc
      have hc' : c < n := Finset.mem_range.mp hc
      unfold wcol
      rw [if_pos hc']
      split_ifs with h
      · rw [h, mul_one]
      · rw [mul_zero]
    rw [Finset.sum_congr rfl this, Finset.sum_ite_eq' (range n) j, if_pos (Finset.mem_range.mpr hj)]
  have h2 : ∑ t ∈ range n, r.getD (n + t) 0 * wcol m n j (n + t) =
      - ∑ t ∈ range n, r.getD (n + t) 0 * entry m t j := by
    rw [← Finset.sum_neg_distrib]
    refine Finset.sum_congr rfl fun t _ => ?_
    unfold wcol
    rw [if_neg (by omega), Nat.add_sub_cancel_left]; ring
  rw [h1, h2]; ring

/-- invariant of `TryInv` for a live state -/
structure IInv (n : ℕ) (m rows : Mat F) (k : ℕ) : Prop where
  len : rows.length = n
  width : ∀ r ∈ rows, r.length = n + n
  hdet : ∃ c : F, c ≠ 0 ∧ (toMatrix n rows).det = c * (toMatrix n m).det
  unit : ∀ j < k, ∀ i < n, entry rows i j = if i = j then 1 else 0
  rel : ∀ j < n, ∀ i < n, lin (n + n) (wcol m n j) (rows.getD i []) = 0

/-- invariant of `TryInv` including the failed state -/
def IInvO (n : ℕ) (m : Mat F) (acc : Option (Mat F)) (k : ℕ) : Prop :=
  match acc with
  | none => (toMatrix n m).det = 0
  | some rows => IInv n m rows k

theorem IInvO.step {n : ℕ} {m : Mat F} {acc : Option (Mat F)} {k : ℕ} (h : IInvO n m acc k)
    (hk : k < n) : IInvO n m (invStep acc k) (k + 1) := by
  cases acc with
  | none => exact h
  | some rows =>
    have h : IInv n m rows k := h
    unfold invStep
    simp only
    split
    · next hn =>
      have hz := findPivot_none _ _ _ hn
      obtain ⟨c, hc, hdet⟩ := h.hdet
      show (toMatrix n m).det = 0
      have h0 : (toMatrix n rows).det = 0 := by
        refine det_eq_zero_of_no_pivot n _ k hk ?_ ?_
        · intro i j hj hji
          show entry rows i.1 j.1 = 0
          rw [h.unit j.1 hj i.1 i.2, if_neg (by omega)]
        · intro i hi; exact hz i.1 hi (h.len ▸ i.2)
      rw [h0] at hdet
      exact (mul_eq_zero.mp hdet.symm).resolve_left hc
    · next pr hp =>
      obtain ⟨hpr, hkpr, ha⟩ := findPivot_some _ _ _ _ hp
      have hk' : k < rows.length := h.len ▸ hk
      have hpr' : pr < n := h.len ▸ hpr
      show IInv n m (pivotStep rows k pr k) (k + 1)
      refine
        { len := by rw [length_pivotStep]; exact h.len
          width := width_pivotStep _ _ _ _ _ hk' hpr h.width
          hdet := ?_
          unit := ?_
          rel := ?_ }
      · obtain ⟨c, hc, hdet⟩ := h.hdet
        refine ⟨(entry rows pr k)⁻¹ * (if pr = k then 1 else -1) * c, ?_, ?_⟩
        · refine mul_ne_zero (mul_ne_zero (inv_ne_zero ha) ?_) hc
          split_ifs <;> simp
        · rw [det_pivotStep n rows k pr k (n + n) h.len hk hpr' h.width, hdet]; ring
      · intro j hj i hi
        have hi' : i < rows.length := h.len ▸ hi
        rcases Nat.lt_succ_iff_lt_or_eq.mp hj with hjk | rfl
        · have hz : entry rows pr j = 0 := by
            rw [h.unit j hjk pr hpr', if_neg (by omega)]
          rw [pivotStep_entry_of_zero _ _ _ _ i j _ hk' hpr hi' h.width hz]
          have hsw : sw k pr i < n := h.len ▸ sw_lt hk' hpr hi'
          split_ifs with hik hij hij
          · omega
          · rfl
          · rw [h.unit j hjk _ hsw, if_pos ((sw_eq_iff_of_lt hkpr hjk).mpr hij)]
          · rw [h.unit j hjk _ hsw, if_neg (fun e => hij ((sw_eq_iff_of_lt hkpr hjk).mp e))]
        · exact pivotStep_col _ _ _ _ i _ hk' hpr hi' h.width ha
      · intro j hj i hi
        exact lin_pivotStep_zero _ _ rows k pr k (n + n) hk' hpr h.width
          (fun i hi => h.rel j hj i (h.len ▸ hi)) i (h.len ▸ hi)

/-! ## initial and final states -/

omit [DecidableEq F] in
theorem getD_augI (m : Mat F) (n i : ℕ) (hn : m.length = n) (hi : i < n) :
    (List.zipWith (· ++ ·) m (identity n)).getD i [] =
      m.getD i [] ++ (List.range n).map fun j => if i = j then (1 : F) else 0 := by
  have hi' : i < m.length := hn ▸ hi
  simp [List.getD_eq_getElem?_getD, List.getElem?_zipWith, identity, List.getElem?_eq_getElem hi',
    List.getElem?_range hi]

omit [DecidableEq F] in
theorem entry_augI_left (m : Mat F) (n i j : ℕ) (hn : m.length = n) (hW : ∀ r ∈ m, r.length = n)
    (hi : i < n) (hj : j < n) :
    entry (List.zipWith (· ++ ·) m (identity n)) i j = entry m i j := by
  have hl : (m.getD i []).length = n := hW _ (getD_mem_of_lt m [] i (hn ▸ hi))
  rw [entry, getD_augI m n i hn hi, entry]
  generalize m.getD i [] = r at hl ⊢
  simp only [List.getD_eq_getElem?_getD]
  rw [List.getElem?_append_left (by rw [hl]; exact hj)]

omit [DecidableEq F] in
theorem entry_augI_right (m : Mat F) (n i t : ℕ) (hn : m.length = n)
    (hW : ∀ r ∈ m, r.length = n) (hi : i < n) (ht : t < n) :
    entry (List.zipWith (· ++ ·) m (identity n)) i (n + t) = if i = t then 1 else 0 := by
  have hl : (m.getD i []).length = n := hW _ (getD_mem_of_lt m [] i (hn ▸ hi))
  rw [entry, getD_augI m n i hn hi]
  generalize m.getD i [] = r at hl ⊢
  simp only [List.getD_eq_getElem?_getD]
  rw [List.getElem?_append_right (by rw [hl]; omega), hl, Nat.add_sub_cancel_left]
  simp [List.getElem?_range ht]

omit [DecidableEq F] in
theorem IInv.init (m : Mat F) (n : ℕ) (hn : m.length = n) (hW : ∀ r ∈ m, r.length = n) :
    IInv n m (List.zipWith (· ++ ·) m (identity n)) 0 where
  len := by simp [identity, hn]
  width := by
    intro r hr
    obtain ⟨i, hi, rfl⟩ := exists_getD_of_mem _ [] r hr
    have hi' : i < n := by simpa [identity, hn] using hi
    rw [getD_augI m n i hn hi', List.length_append,
      hW _ (getD_mem_of_lt m [] i (hn ▸ hi'))]
    simp
  hdet := ⟨1, one_ne_zero, by
    rw [one_mul]; congr 1; ext i j
    exact entry_augI_left m n i.1 j.1 hn hW i.2 j.2⟩
  unit := fun j hj => by omega
  rel := by
    intro j hj i hi
    rw [lin_wcol m n j hj]
    have : ∀ t ∈ range n, ((List.zipWith (· ++ ·) m (identity n)).getD i []).getD (n + t) 0 *
        entry m t j = if i = t then entry m i j else 0 := by
      intro t ht
      have := entry_augI_right m n i t hn hW hi (Finset.mem_range.mp ht)
      unfold entry at this
      rw [this]
      split_ifs with h
      · rw [h, one_mul]
      · rw [zero_mul]
    rw [Finset.sum_congr rfl this, Finset.sum_ite_eq (range n) i, if_pos (Finset.mem_range.mpr hi)]
    have := entry_augI_left m n i j hn hW hi hj
    unfold entry at this ⊢
    rw [this, sub_self]

theorem IInvO.inverseAug (m : Mat F) (hW : ∀ r ∈ m, r.length = m.length) :
    IInvO m.length m (inverseAug m) m.length := by
  have key : ∀ t, t ≤ m.length → IInvO m.length m
      ((List.range t).foldl invStep (some (List.zipWith (· ++ ·) m (identity m.length)))) t := by
    intro t
    induction t with
    | zero => intro _; exact IInv.init m m.length rfl hW
    | succ t ih =>
      intro ht
      rw [List.range_succ, List.foldl_append]
      exact (ih (by omega)).step (by omega)
  exact key m.length le_rfl

omit [DecidableEq F] in
/-- all columns are unit vectors: the leading block is the identity matrix -/
theorem IInv.toMatrix_eq_one {n : ℕ} {m rows : Mat F} (h : IInv n m rows n) :
    toMatrix n rows = 1 := by
  ext i j
  rw [Matrix.one_apply]
  show entry rows i.1 j.1 = _
  rw [h.unit j.1 j.2 i.1 i.2]
  simp only [Fin.ext_iff]

omit [DecidableEq F] in
theorem entry_map_drop (rows : Mat F) (n i t : ℕ) :
    entry (rows.map (·.drop n)) i t = entry rows i (n + t) := by
  unfold entry
  simp only [List.getD_eq_getElem?_getD, List.getElem?_map]
  cases rows[i]? <;> simp

omit [DecidableEq F] in
/-- the right half of a final state is a left inverse -/
theorem IInv.right_mul {n : ℕ} {m rows : Mat F} (h : IInv n m rows n) :
    toMatrix n (rows.map (·.drop n)) * toMatrix n m = 1 := by
  ext i j
  rw [Matrix.mul_apply, ← h.toMatrix_eq_one]
  have hrel := h.rel j.1 j.2 i.1 i.2
  rw [lin_wcol m n j.1 j.2, sub_eq_zero] at hrel
  show _ = entry rows i.1 j.1
  unfold entry
  rw [hrel, ← Fin.sum_univ_eq_sum_range (fun t => (rows.getD i.1 []).getD (n + t) 0 * entry m t j.1)]
  refine Finset.sum_congr rfl fun t _ => ?_
  show entry (rows.map (·.drop n)) i.1 t.1 * entry m t.1 j.1 = _
  rw [entry_map_drop]; rfl

/-- `TryInv` fails exactly on singular matrices -/
theorem inverse_eq_none_iff (m : Mat F) (hW : ∀ r ∈ m, r.length = m.length) :
    inverse m = none ↔ (toMatrix m.length m).det = 0 := by
  have h := IInvO.inverseAug m hW
  unfold inverse
  cases hq : inverseAug m with
  | none => rw [hq] at h; exact ⟨fun _ => h, fun _ => rfl⟩
  | some rows =>
    rw [hq] at h
    have h : IInv m.length m rows m.length := h
    obtain ⟨c, hc, hdet⟩ := h.hdet
    rw [h.toMatrix_eq_one, Matrix.det_one] at hdet
    simp only [Option.map_some, reduceCtorEq, false_iff]
    intro h0
    rw [h0, mul_zero] at hdet
    exact one_ne_zero hdet

/-- a returned matrix is the two-sided inverse (and is `n × n`) -/
theorem inverse_some (m : Mat F) (hW : ∀ r ∈ m, r.length = m.length) (b : Mat F)
    (hb : inverse m = some b) :
    (b.length = m.length ∧ ∀ r ∈ b, r.length = m.length) ∧
      toMatrix m.length b * toMatrix m.length m = 1 ∧
      toMatrix m.length m * toMatrix m.length b = 1 := by
  have h := IInvO.inverseAug m hW
  unfold inverse at hb
  cases hq : inverseAug m with
  | none => rw [hq] at hb; simp at hb
  | some rows =>
    rw [hq] at h hb
    have h : IInv m.length m rows m.length := h
    obtain rfl : rows.map (·.drop m.length) = b := by simpa using hb
    refine ⟨⟨by simp [h.len], ?_⟩, h.right_mul, mul_eq_one_comm.mp h.right_mul⟩
    intro r hr
    obtain ⟨r', hr', rfl⟩ := List.mem_map.mp hr
    simp [h.width r' hr']

end BronVerif.LinAlg
