import Mathlib.NumberTheory.LegendreSymbol.Basic
import Mathlib.FieldTheory.Finite.Basic
import Mathlib.Tactic.Ring
import Mathlib.Tactic.Linarith
import BronVerif.Model.BigNum
import BronVerif.Lemmas.Jacobi
import BronVerif.Lemmas.BigNumArith
/-!
# Square roots of `Model/BigNum.lean`

* `isqrt_spec`: the Newton iteration returns `⌊√n⌋`;
* `isQR_iff`: Euler's criterion as executed by the model, for an odd prime;
* `sqrtCandidate_sq`: for an odd prime `p` and a quadratic residue `a < p` the candidate root (the
  `p ≡ 3 (mod 4)` exponentiation, Tonelli–Shanks otherwise) squares to `a` — completeness of `sqrtMod`.
-/
namespace BronVerif.Lemmas.BigNumSqrt
open BronVerif.BigNum
open BronVerif.Lemmas.BigNumArith (powMod_eq)

/-! ### integer square root -/

/-- one Newton step from any positive guess lands at or above `⌊√n⌋` (AM–GM) -/
theorem newton_step_ge (n x : Nat) (hx : 0 < x) :
    n < ((x + n / x) / 2 + 1) * ((x + n / x) / 2 + 1) := by
  have h1 : n < x * (n / x + 1) := Nat.lt_mul_div_succ n hx
  have h2 : x + (n / x + 1) ≤ 2 * ((x + n / x) / 2 + 1) := by omega
  have h3 : 4 * x * (n / x + 1) ≤ (x + (n / x + 1)) ^ 2 := four_mul_le_sq_add x (n / x + 1)
  have h4 : (x + (n / x + 1)) ^ 2 ≤ (2 * ((x + n / x) / 2 + 1)) ^ 2 := Nat.pow_le_pow_left h2 2
  have h5 : (2 * ((x + n / x) / 2 + 1)) ^ 2 = 4 * (((x + n / x) / 2 + 1) * ((x + n / x) / 2 + 1)) := by ring
  have h6 : 4 * x * (n / x + 1) = 4 * (x * (n / x + 1)) := by ring
  omega

theorem isqrtAux_spec : ∀ (fuel n x : Nat), x < fuel → n < (x + 1) * (x + 1) →
    isqrtAux fuel n x * isqrtAux fuel n x ≤ n ∧ n < (isqrtAux fuel n x + 1) * (isqrtAux fuel n x + 1) := by
  intro fuel
  induction fuel with
  | zero => intro n x h; omega
  | succ f ih =>
    intro n x hf hn
    unfold isqrtAux
    dsimp only
    by_cases hx : x = 0
    · subst hx
      have : ¬ (0 + n / 0) / 2 < 0 := by omega
      rw [if_neg this]
      exact ⟨by omega, hn⟩
    · have hxpos : 0 < x := Nat.pos_of_ne_zero hx
      by_cases hy : (x + n / x) / 2 < x
      · rw [if_pos hy]
        exact ih n _ (by omega) (newton_step_ge n x hxpos)
      · rw [if_neg hy]
        refine ⟨?_, hn⟩
        have : x ≤ n / x := by omega
        exact (Nat.le_div_iff_mul_le hxpos).mp this

/-- `isqrt n = ⌊√n⌋` -/
theorem isqrt_spec (n : Nat) : isqrt n * isqrt n ≤ n ∧ n < (isqrt n + 1) * (isqrt n + 1) := by
  unfold isqrt
  by_cases h0 : n = 0
  · subst h0; simp
  · rw [if_neg h0]
    apply isqrtAux_spec _ _ _ (Nat.lt_succ_self _)
    have h1 : n < 2 ^ bitLen n := BronVerif.Lemmas.Jacobi.lt_two_pow_bitLen n
    have h2 : 2 ^ bitLen n ≤ 2 ^ ((bitLen n + 1) / 2) * 2 ^ ((bitLen n + 1) / 2) := by
      rw [← pow_add]; exact Nat.pow_le_pow_right (by norm_num) (by omega)
    exact lt_of_lt_of_le h1 (le_trans h2 (Nat.mul_le_mul (Nat.le_succ _) (Nat.le_succ _)))

theorem isqrt_unique (n r : Nat) (h1 : r * r ≤ n) (h2 : n < (r + 1) * (r + 1)) : isqrt n = r := by
  obtain ⟨g1, g2⟩ := isqrt_spec n
  by_contra hne
  rcases Nat.lt_or_gt_of_ne hne with h | h
  · have : (isqrt n + 1) * (isqrt n + 1) ≤ r * r := Nat.mul_le_mul h h
    omega
  · have : (r + 1) * (r + 1) ≤ isqrt n * isqrt n := Nat.mul_le_mul h h
    omega

/-- `sqrtExact?` answers exactly for the perfect squares -/
theorem sqrtExact_iff (n : Nat) : (sqrtExact? n).isSome ↔ ∃ r, r * r = n := by
  unfold sqrtExact?
  dsimp only
  constructor
  · intro h
    split at h
    · rename_i hc; exact ⟨_, hc⟩
    · simp at h
  · rintro ⟨r, rfl⟩
    have : isqrt (r * r) = r := isqrt_unique _ _ (le_refl _) (Nat.mul_lt_mul'' (Nat.lt_succ_self r) (Nat.lt_succ_self r))
    rw [this]; simp

/-! ### casts into `ZMod p` -/

section prime
variable {p : Nat} [hpf : Fact p.Prime]

theorem cast_powMod (a e : Nat) : ((powMod a e p : ℕ) : ZMod p) = (a : ZMod p) ^ e := by
  rw [powMod_eq, ZMod.natCast_mod, Nat.cast_pow]

theorem cast_mulmod (a b : Nat) : ((a * b % p : ℕ) : ZMod p) = (a : ZMod p) * (b : ZMod p) := by
  rw [ZMod.natCast_mod, Nat.cast_mul]

theorem cast_eq_iff (a b : Nat) (ha : a < p) (hb : b < p) : (a : ZMod p) = (b : ZMod p) ↔ a = b := by
  rw [ZMod.natCast_eq_natCast_iff', Nat.mod_eq_of_lt ha, Nat.mod_eq_of_lt hb]

theorem cast_eq_one_iff (a : Nat) (ha : a < p) : (a : ZMod p) = 1 ↔ a = 1 := by
  have h1 : 1 < p := hpf.out.one_lt
  rw [← cast_eq_iff a 1 ha h1, Nat.cast_one]

theorem cast_pred : ((p - 1 : ℕ) : ZMod p) = -1 := by
  have h1 : 1 ≤ p := hpf.out.one_lt.le
  rw [Nat.cast_sub h1, ZMod.natCast_self, Nat.cast_one, zero_sub]

theorem cast_eq_neg_one_iff (a : Nat) (ha : a < p) : (a : ZMod p) = -1 ↔ a = p - 1 := by
  have h1 : 1 < p := hpf.out.one_lt
  rw [← cast_pred, cast_eq_iff a (p - 1) ha (by omega)]

theorem cast_eq_zero_iff (a : Nat) : (a : ZMod p) = 0 ↔ a % p = 0 := by
  rw [ZMod.natCast_eq_zero_iff, Nat.dvd_iff_mod_eq_zero]

/-- a square root among the naturals is a square root in `ZMod p` -/
theorem exists_root_iff (a : Nat) : (∃ r, r * r % p = a % p) ↔ IsSquare (a : ZMod p) := by
  constructor
  · rintro ⟨r, hr⟩
    refine ⟨(r : ZMod p), ?_⟩
    rw [← Nat.cast_mul, ZMod.natCast_eq_natCast_iff']
    exact hr.symm
  · rintro ⟨y, hy⟩
    refine ⟨y.val, ?_⟩
    rw [← ZMod.natCast_eq_natCast_iff', Nat.cast_mul, ZMod.natCast_zmod_val]
    exact hy.symm

/-! ### Euler's criterion -/

theorem isQR_iff_isSquare (a : Nat) (h2 : p ≠ 2) : isQR a p = true ↔ IsSquare (a : ZMod p) := by
  have hodd : p % 2 = 1 := hpf.out.eq_two_or_odd.resolve_left h2
  have hhalf : (p - 1) / 2 = p / 2 := by omega
  have h1 : 1 < p := hpf.out.one_lt
  unfold isQR
  rw [Bool.or_eq_true, beq_iff_eq, beq_iff_eq, hhalf]
  by_cases ha : (a : ZMod p) = 0
  · rw [ha]
    constructor
    · intro _; exact ⟨0, by simp⟩
    · intro _; left; exact (cast_eq_zero_iff a).mp ha
  · rw [ZMod.euler_criterion p ha]
    have hne : ¬ a % p = 0 := fun h => ha ((cast_eq_zero_iff a).mpr h)
    rw [← cast_powMod, cast_eq_one_iff _ (by rw [powMod_eq]; exact Nat.mod_lt _ (by omega))]
    constructor
    · rintro (h | h)
      · exact absurd h hne
      · exact h
    · intro h; right; exact h

/-- a nonzero square has `a^(p/2) = 1` -/
theorem euler_one {a : ZMod p} (ha : a ≠ 0) (hs : IsSquare a) : a ^ (p / 2) = 1 :=
  (ZMod.euler_criterion p ha).mp hs

/-! ### the search for a non-residue -/

theorem findNonResidue_spec (h2 : p ≠ 2) : ∀ (fuel z : Nat),
    (∃ w, z ≤ w ∧ w < z + fuel ∧ (w : ZMod p) ^ (p / 2) = -1) →
    ((findNonResidue fuel p z : ℕ) : ZMod p) ^ (p / 2) = -1 := by
  have hodd : p % 2 = 1 := hpf.out.eq_two_or_odd.resolve_left h2
  have hhalf : (p - 1) / 2 = p / 2 := by omega
  have h1 : 1 < p := hpf.out.one_lt
  intro fuel
  induction fuel with
  | zero => rintro z ⟨w, h1, h2, _⟩; omega
  | succ f ih =>
    rintro z ⟨w, hw1, hw2, hw3⟩
    unfold findNonResidue
    have hlt : powMod z ((p - 1) / 2) p < p := by rw [powMod_eq]; exact Nat.mod_lt _ (by omega)
    by_cases hc : (powMod z ((p - 1) / 2) p == p - 1) = true
    · rw [if_pos hc]
      rw [beq_iff_eq] at hc
      have := (cast_eq_neg_one_iff _ hlt).mpr hc
      rwa [cast_powMod, hhalf] at this
    · rw [if_neg hc]
      apply ih
      refine ⟨w, ?_, by omega, hw3⟩
      by_contra hle
      have hzw : w = z := by omega
      subst hzw
      apply hc
      rw [beq_iff_eq, ← cast_eq_neg_one_iff _ hlt, cast_powMod, hhalf]
      exact hw3

theorem exists_nonresidue (h2 : p ≠ 2) : ∃ w, 2 ≤ w ∧ w < 2 + p ∧ (w : ZMod p) ^ (p / 2) = -1 := by
  have hchar : ringChar (ZMod p) ≠ 2 := by rw [ZMod.ringChar_zmod_n]; exact h2
  obtain ⟨x, hx⟩ := FiniteField.exists_nonsquare hchar
  have hx0 : x ≠ 0 := by rintro rfl; exact hx ⟨0, by simp⟩
  have hx1 : x ≠ 1 := by rintro rfl; exact hx ⟨1, by simp⟩
  have hpow : x ^ (p / 2) = -1 := by
    rcases ZMod.pow_div_two_eq_neg_one_or_one p hx0 with h | h
    · exact absurd ((ZMod.euler_criterion p hx0).mpr h) hx
    · exact h
  refine ⟨x.val, ?_, ?_, ?_⟩
  · have h0 : x.val ≠ 0 := by
      intro h; exact hx0 ((ZMod.val_eq_zero x).mp h)
    have h1 : x.val ≠ 1 := by
      intro h
      apply hx1
      have := ZMod.natCast_zmod_val x
      rw [h, Nat.cast_one] at this
      exact this.symm
    omega
  · have := ZMod.val_lt x; omega
  · rw [ZMod.natCast_zmod_val]; exact hpow

theorem nonresidue_found (h2 : p ≠ 2) : ((findNonResidue p p 2 : ℕ) : ZMod p) ^ (p / 2) = -1 :=
  findNonResidue_spec h2 p 2 (exists_nonresidue h2)

/-! ### Tonelli–Shanks -/

theorem pow_two_pow_succ (x : ZMod p) (k : Nat) : x ^ 2 ^ (k + 1) = (x * x) ^ 2 ^ k := by
  rw [pow_succ, mul_comm, pow_mul, pow_two]

theorem tsInner_spec : ∀ (fuel t i k : Nat), t < p → k ≤ fuel → (t : ZMod p) ^ 2 ^ k = 1 →
    ∃ j, j ≤ k ∧ tsInner fuel p t i = i + j ∧ (t : ZMod p) ^ 2 ^ j = 1 ∧ ∀ l, l < j → (t : ZMod p) ^ 2 ^ l ≠ 1 := by
  have hp0 : 0 < p := hpf.out.pos
  intro fuel
  induction fuel with
  | zero =>
    intro t i k _ hk h
    have : k = 0 := by omega
    subst this
    exact ⟨0, le_refl _, by simp [tsInner], h, by intro l hl; omega⟩
  | succ f ih =>
    intro t i k ht hk h
    unfold tsInner
    by_cases h1 : (t == 1) = true
    · rw [if_pos h1]
      rw [beq_iff_eq] at h1
      subst h1
      exact ⟨0, Nat.zero_le _, rfl, by simp, by intro l hl; omega⟩
    · rw [if_neg h1]
      have hne : (t : ZMod p) ≠ 1 := by
        intro hc; apply h1; rw [beq_iff_eq]; exact (cast_eq_one_iff t ht).mp hc
      have hk0 : k ≠ 0 := by
        rintro rfl; apply hne; simpa using h
      obtain ⟨k', rfl⟩ := Nat.exists_eq_succ_of_ne_zero hk0
      have ht' : t * t % p < p := Nat.mod_lt _ hp0
      have hpow : ((t * t % p : ℕ) : ZMod p) ^ 2 ^ k' = 1 := by
        rw [cast_mulmod, ← pow_two_pow_succ]; exact h
      obtain ⟨j, hj1, hj2, hj3, hj4⟩ := ih (t * t % p) (i + 1) k' ht' (by omega) hpow
      refine ⟨j + 1, by omega, by rw [hj2]; ring, ?_, ?_⟩
      · rw [pow_two_pow_succ, ← cast_mulmod]; exact hj3
      · intro l hl
        rcases Nat.eq_zero_or_pos l with rfl | hlpos
        · simpa using hne
        · obtain ⟨l', rfl⟩ := Nat.exists_eq_succ_of_ne_zero (Nat.pos_iff_ne_zero.mp hlpos)
          rw [Nat.succ_eq_add_one, pow_two_pow_succ, ← cast_mulmod]
          exact hj4 l' (by omega)

omit hpf in
theorem tsInner_zero : ∀ (fuel i : Nat), tsInner fuel p 0 i = i + fuel := by
  intro fuel
  induction fuel with
  | zero => intro i; simp [tsInner]
  | succ f ih =>
    intro i
    unfold tsInner
    have : ¬ ((0 : Nat) == 1) = true := by decide
    rw [if_neg this]
    simp only [Nat.mul_zero, Nat.zero_mod]
    rw [ih]; ring

theorem tsLoop_spec (a : ZMod p) : ∀ (fuel m c t r : Nat), m < fuel → 1 ≤ m → t < p →
    (c : ZMod p) ^ 2 ^ (m - 1) = -1 → (t : ZMod p) ^ 2 ^ (m - 1) = 1 → (r : ZMod p) ^ 2 = a * t →
    ((tsLoop fuel p m c t r : ℕ) : ZMod p) ^ 2 = a := by
  have hp0 : 0 < p := hpf.out.pos
  intro fuel
  induction fuel with
  | zero => intro m c t r h; omega
  | succ f ih =>
    intro m c t r hm hm1 ht hc htp hr
    unfold tsLoop
    by_cases h1 : (t == 1) = true
    · rw [if_pos h1]
      rw [beq_iff_eq] at h1
      subst h1
      rw [hr]; simp
    · rw [if_neg h1]
      have hne : (t : ZMod p) ≠ 1 := by
        intro hc'; apply h1; rw [beq_iff_eq]; exact (cast_eq_one_iff t ht).mp hc'
      obtain ⟨j, hj1, hj2, hj3, hj4⟩ := tsInner_spec m t 0 (m - 1) ht (by omega) htp
      have hj0 : j ≠ 0 := by
        rintro rfl; apply hne; simpa using hj3
      dsimp only
      rw [hj2, Nat.zero_add]
      have hnot : ¬ j ≥ m := by omega
      rw [if_neg hnot]
      -- t^(2^(j-1)) = -1
      have htj : (t : ZMod p) ^ 2 ^ (j - 1) = -1 := by
        have hsq : (t : ZMod p) ^ 2 ^ (j - 1) * (t : ZMod p) ^ 2 ^ (j - 1) = 1 := by
          rw [← pow_add, ← two_mul, ← pow_succ']
          have : j - 1 + 1 = j := by omega
          rw [this]; exact hj3
        rcases mul_self_eq_one_iff.mp hsq with h | h
        · exact absurd h (hj4 (j - 1) (by omega))
        · exact h
      have hb : ((powMod c (2 ^ (m - j - 1)) p : ℕ) : ZMod p) = (c : ZMod p) ^ 2 ^ (m - j - 1) := cast_powMod _ _
      set b := powMod c (2 ^ (m - j - 1)) p with hbdef
      have hcb : ((b * b % p : ℕ) : ZMod p) ^ 2 ^ (j - 1) = -1 := by
        rw [cast_mulmod, ← pow_two_pow_succ, hb, ← pow_mul, ← pow_add]
        have : m - j - 1 + (j - 1 + 1) = m - 1 := by omega
        rw [this]; exact hc
      apply ih j (b * b % p) (t * (b * b % p) % p) (r * b % p) (by omega) (by omega) (Nat.mod_lt _ hp0) hcb
      · rw [cast_mulmod, mul_pow, htj, hcb]; ring
      · rw [cast_mulmod, cast_mulmod, cast_mulmod, mul_pow, hr]; ring

/-- the candidate root squares to `a` for every quadratic residue `a < p` modulo an odd prime -/
theorem sqrtCandidate_sq (a : Nat) (h2 : p ≠ 2) (hs : IsSquare (a : ZMod p)) :
    ((sqrtCandidate a p : ℕ) : ZMod p) ^ 2 = (a : ZMod p) := by
  have hodd : p % 2 = 1 := hpf.out.eq_two_or_odd.resolve_left h2
  have h1 : 1 < p := hpf.out.one_lt
  unfold sqrtCandidate
  by_cases h43 : p % 4 = 3
  · rw [if_pos h43, cast_powMod, ← pow_mul]
    have e : (p + 1) / 4 * 2 = p / 2 + 1 := by omega
    rw [e, pow_succ]
    by_cases ha : (a : ZMod p) = 0
    · rw [ha]; simp
    · rw [euler_one ha hs, one_mul]
  · rw [if_neg h43]
    dsimp only
    have hp1 : p - 1 ≠ 0 := by omega
    have hlt : p - 1 < 2 ^ bitLen p := lt_of_le_of_lt (Nat.sub_le _ _) (BronVerif.Lemmas.Jacobi.lt_two_pow_bitLen p)
    obtain ⟨hspec, hqodd⟩ := BronVerif.Lemmas.Jacobi.twoAdic_spec (bitLen p) (p - 1) hp1 hlt
    generalize (twoAdic (bitLen p) (p - 1)).1 = s at hspec
    generalize (twoAdic (bitLen p) (p - 1)).2 = q at hspec hqodd
    have hs1 : 1 ≤ s := by
      by_contra hlt0
      have : s = 0 := by omega
      subst this
      simp at hspec
      omega
    have hhalf : q * 2 ^ (s - 1) = p / 2 := by
      have e : 2 ^ s = 2 * 2 ^ (s - 1) := by
        conv_lhs => rw [show s = (s - 1) + 1 by omega, pow_succ]
        ring
      rw [e] at hspec
      have : p - 1 = 2 * (q * 2 ^ (s - 1)) := by rw [hspec]; ring
      omega
    by_cases ha : (a : ZMod p) = 0
    · -- a = 0: the loop leaves r = 0
      have ha0 : a % p = 0 := (cast_eq_zero_iff a).mp ha
      have hq0 : q ≠ 0 := by omega
      have hq1 : (q + 1) / 2 ≠ 0 := by omega
      have ht : powMod a q p = 0 := by
        rw [powMod_eq, Nat.pow_mod, ha0, Nat.zero_pow (Nat.pos_of_ne_zero hq0), Nat.zero_mod]
      have hr : powMod a ((q + 1) / 2) p = 0 := by
        rw [powMod_eq, Nat.pow_mod, ha0, Nat.zero_pow (Nat.pos_of_ne_zero hq1), Nat.zero_mod]
      rw [ht, hr]
      unfold tsLoop
      have : ¬ ((0 : Nat) == 1) = true := by decide
      rw [if_neg this]
      dsimp only
      rw [tsInner_zero, Nat.zero_add, if_pos (le_refl _), ha]
      simp
    · apply tsLoop_spec (a : ZMod p) (s + 1) s _ _ _ (Nat.lt_succ_self _) hs1
          (by rw [powMod_eq]; exact Nat.mod_lt _ (by omega))
      · rw [cast_powMod, ← pow_mul, hhalf]
        exact nonresidue_found h2
      · rw [cast_powMod, ← pow_mul, hhalf]
        exact euler_one ha hs
      · rw [cast_powMod, cast_powMod, ← pow_mul]
        have e : (q + 1) / 2 * 2 = q + 1 := by omega
        rw [e, pow_succ, mul_comm]

end prime

end BronVerif.Lemmas.BigNumSqrt
