import BronVerif.Lemmas.Paillier
/-!
# Homomorphic identities of the executable Paillier model, symmetric range

Every identity is an equality between values computed by `Model/Paillier.lean` (the functions the
driver runs), with the resulting nonce made explicit.
-/
namespace BronVerif.Lemmas.Paillier
open BronVerif.Paillier

/-- the congruence class of an encryption only depends on `m mod N` and `r mod N` -/
theorem enc_congr {N a b x y : ℕ} (h1 : a ≡ b [MOD N]) (h2 : x ≡ y [MOD N]) :
    (1 + N) ^ a * x ^ N ≡ (1 + N) ^ b * y ^ N [MOD N * N] := by
  have e1 : (1 + N) ^ a ≡ (1 + N) ^ b [MOD N * N] := by
    have h := rep_modEq_mod N a
    have h' : a % N = b % N := h1
    rw [h'] at h
    exact h.trans (rep_modEq_mod N b).symm
  exact e1.mul (pow_modEq_sq h2)

theorem eq_enc_of_modEq {N c a x m r : ℕ} (h : c ≡ (1 + N) ^ a * x ^ N [MOD N * N])
    (ha : a ≡ m [MOD N]) (hx : x ≡ r [MOD N]) : c % (N * N) = enc N m r := by
  have h2 := (h.trans (enc_congr ha hx)).trans (enc_modEq N m r).symm
  have h3 : enc N m r % (N * N) = enc N m r := by unfold enc; exact Nat.mod_mod _ _
  exact (h2 : c % _ = enc N m r % _).trans h3

theorem ctMul_enc_enc (N m1 r1 m2 r2 : ℕ) :
    ctMul N (enc N m1 r1) (enc N m2 r2) = enc N (ptAdd N m1 m2) (nonceMul N r1 r2) := by
  unfold ctMul ptAdd nonceMul
  apply eq_enc_of_modEq (a := m1 + m2) (x := r1 * r2)
  · have h := (enc_modEq N m1 r1).mul (enc_modEq N m2 r2)
    have e : (1 + N) ^ m1 * r1 ^ N * ((1 + N) ^ m2 * r2 ^ N) = (1 + N) ^ (m1 + m2) * (r1 * r2) ^ N := by
      rw [pow_add, mul_pow]; ring
    rw [e] at h; exact h
  · exact (Nat.mod_modEq _ _).symm
  · exact (Nat.mod_modEq _ _).symm

theorem shift_enc (N m r d : ℕ) : shift N (enc N m r) d = enc N (ptAdd N m d) r := by
  unfold shift ctMul ptAdd rep
  rw [powMod_eq]
  apply eq_enc_of_modEq (a := m + d) (x := r)
  · have h := (enc_modEq N m r).mul (Nat.mod_modEq ((1 + N) ^ d) (N * N))
    have e : (1 + N) ^ m * r ^ N * (1 + N) ^ d = (1 + N) ^ (m + d) * r ^ N := by
      rw [pow_add]; ring
    rw [e] at h; exact h
  · exact (Nat.mod_modEq _ _).symm
  · exact Nat.ModEq.refl _

theorem rerand_enc (N m r s : ℕ) : rerand N (enc N m r) s = enc N m (nonceMul N r s) := by
  unfold rerand ctMul nonceMul noise
  rw [powMod_eq]
  apply eq_enc_of_modEq (a := m) (x := r * s)
  · have h := (enc_modEq N m r).mul (Nat.mod_modEq (s ^ N) (N * N))
    have e : (1 + N) ^ m * r ^ N * s ^ N = (1 + N) ^ m * (r * s) ^ N := by
      rw [mul_pow]; ring
    rw [e] at h; exact h
  · exact Nat.ModEq.refl _
  · exact (Nat.mod_modEq _ _).symm

/-- non-negative scalar: `c^k` encrypts `m·k mod N` under `r^k mod N` -/
theorem powMod_enc (N m r k : ℕ) :
    powMod (enc N m r) k (N * N) = enc N (m * k % N) (powMod r k N) := by
  rw [powMod_eq, powMod_eq]
  apply eq_enc_of_modEq (a := m * k) (x := r ^ k)
  · have h := (enc_modEq N m r).pow k
    rw [mul_pow, ← pow_mul, ← pow_mul, mul_comm N k, pow_mul r k N] at h
    exact h
  · exact (Nat.mod_modEq _ _).symm
  · exact (Nat.mod_modEq _ _).symm

theorem enc_zero_one (N : ℕ) : enc N 0 1 = 1 % (N * N) := by
  unfold enc rep noise
  rw [powMod_eq, powMod_eq, pow_zero, one_pow, ← Nat.mul_mod, mul_one]

theorem coprime_mod {a N : ℕ} (h : Nat.Coprime a N) : Nat.Coprime (a % N) N := by
  rw [Nat.Coprime, ← Nat.gcd_rec, Nat.gcd_comm]; exact h

/-- every integer scalar -/
theorem ctScalar_enc {N : ℕ} (hN : 1 < N) (m : ℕ) {r : ℕ} (hr : Nat.Coprime r N) (k : ℤ) :
    ctScalar N (enc N m r) k = enc N (ptScalar N m k) (nonceScalar N r k) := by
  have hN0 : 0 < N := by omega
  have hNN : 0 < N * N := Nat.mul_pos hN0 hN0
  have hNz : (0 : ℤ) < (N : ℤ) := by exact_mod_cast hN0
  unfold ctScalar ptScalar nonceScalar
  by_cases hk : k < 0
  · obtain ⟨n, rfl⟩ := Int.exists_eq_neg_ofNat hk.le
    simp only [hk, if_true, Int.natAbs_neg, Int.natAbs_natCast]
    rw [powMod_enc]
    -- names
    have hr1 : Nat.Coprime (powMod r n N) N := by
      rw [powMod_eq]; exact coprime_mod (Nat.Coprime.pow_left n hr)
    have hnn : 0 ≤ (m : ℤ) * -(n : ℤ) % (N : ℤ) := Int.emod_nonneg _ (ne_of_gt hNz)
    have hm2 : ((((m : ℤ) * -(n : ℤ) % (N : ℤ)).toNat : ℕ) : ℤ) = (m : ℤ) * -(n : ℤ) % (N : ℤ) :=
      Int.toNat_of_nonneg hnn
    -- y * z ≡ 1
    have hsum : ptAdd N (m * n % N) ((m : ℤ) * -(n : ℤ) % (N : ℤ)).toNat = 0 := by
      unfold ptAdd
      have hz : (((m * n % N + ((m : ℤ) * -(n : ℤ) % (N : ℤ)).toNat : ℕ)) : ℤ) ≡ ((0 : ℕ) : ℤ) [ZMOD (N : ℤ)] := by
        push_cast
        rw [hm2]
        calc (m : ℤ) * (n : ℤ) % (N : ℤ) + (m : ℤ) * -(n : ℤ) % (N : ℤ)
            ≡ (m : ℤ) * (n : ℤ) + (m : ℤ) * -(n : ℤ) [ZMOD (N : ℤ)] :=
              (Int.mod_modEq _ _).add (Int.mod_modEq _ _)
          _ = 0 := by ring
      have := (Int.natCast_modEq_iff).1 hz
      simpa [Nat.ModEq] using this
    have hprod : nonceMul N (powMod r n N) (invModD (powMod r n N) N) = 1 := by
      unfold nonceMul
      have := invModD_mul_modEq hN0 hr1
      exact Eq.trans this (Nat.mod_eq_of_lt hN)
    have hyz : enc N (m * n % N) (powMod r n N) *
        enc N ((m : ℤ) * -(n : ℤ) % (N : ℤ)).toNat (invModD (powMod r n N) N) ≡ 1 [MOD N * N] := by
      have := ctMul_enc_enc N (m * n % N) (powMod r n N) ((m : ℤ) * -(n : ℤ) % (N : ℤ)).toNat
        (invModD (powMod r n N) N)
      rw [hsum, hprod, enc_zero_one] at this
      exact this
    have hcop : Nat.Coprime (enc N (m * n % N) (powMod r n N)) (N * N) :=
      Nat.coprime_of_mul_modEq_one _ hyz
    have hinv := invModD_mul_modEq hNN hcop
    have hlt := invModD_lt hNN hcop
    have hz : invModD (enc N (m * n % N) (powMod r n N)) (N * N) ≡
        enc N ((m : ℤ) * -(n : ℤ) % (N : ℤ)).toNat (invModD (powMod r n N) N) [MOD N * N] :=
      Nat.ModEq.cancel_left_of_coprime (Nat.Coprime.symm hcop) (hinv.trans hyz.symm)
    exact Nat.ModEq.eq_of_lt_of_lt hz hlt (enc_lt hN0 _ _)
  · have hk0 : 0 ≤ k := not_lt.1 hk
    obtain ⟨n, rfl⟩ := Int.eq_ofNat_of_zero_le hk0
    simp only [hk, if_false, Int.natAbs_natCast]
    rw [powMod_enc]
    have : (m : ℤ) * (n : ℤ) % (N : ℤ) = ((m * n % N : ℕ) : ℤ) := by push_cast; rfl
    rw [this, Int.toNat_natCast]

/-! ### symmetric range -/

theorem sym_roundtrip {N : ℕ} (hN : 0 < N) (x : ℤ) (h : inSymRange N x = true) :
    toSym N (fromSym N x) = x ∧ fromSym N x < N := by
  simp only [inSymRange, Bool.and_eq_true, decide_eq_true_eq] at h
  obtain ⟨h1, h2⟩ := h
  rcases lt_or_ge x 0 with hx | hx
  · obtain ⟨a, ha⟩ := Int.eq_ofNat_of_zero_le (show 0 ≤ x + N by omega)
    have e : x % (N : ℤ) = x + N := by
      rw [← Int.add_emod_right, Int.emod_eq_of_lt (by omega) (by omega)]
    have hf : fromSym N x = a := by
      unfold fromSym; rw [e, ha, Int.toNat_natCast]
    have haN : a < N := by omega
    have ha0 : 0 < N - a := by omega
    rw [hf]
    refine ⟨?_, haN⟩
    unfold toSym
    simp only [Nat.mod_eq_of_lt haN, Nat.mod_eq_of_lt (show N - a < N by omega)]
    have hc : N - a ≤ a := by omega
    rw [if_pos hc]
    omega
  · obtain ⟨a, rfl⟩ := Int.eq_ofNat_of_zero_le hx
    have haN : a < N := by omega
    have hf : fromSym N (a : ℤ) = a := by
      unfold fromSym
      rw [Int.emod_eq_of_lt (by omega) (by omega), Int.toNat_natCast]
    rw [hf]
    refine ⟨?_, haN⟩
    unfold toSym
    simp only [Nat.mod_eq_of_lt haN]
    rcases Nat.eq_zero_or_pos a with h0 | h0
    · subst h0; simp
    · rw [Nat.mod_eq_of_lt (show N - a < N by omega)]
      have hc : ¬ N - a ≤ a := by omega
      rw [if_neg hc]

theorem sym_roundtrip_inv {N : ℕ} (hN : 0 < N) {m : ℕ} (hm : m < N) :
    fromSym N (toSym N m) = m ∧ -(N : ℤ) ≤ 2 * toSym N m ∧ 2 * toSym N m ≤ N := by
  unfold toSym
  simp only [Nat.mod_eq_of_lt hm]
  rcases Nat.eq_zero_or_pos m with h0 | h0
  · subst h0
    simp [fromSym]
  · rw [Nat.mod_eq_of_lt (show N - m < N by omega)]
    by_cases hc : N - m ≤ m
    · rw [if_pos hc]
      refine ⟨?_, by omega, by omega⟩
      unfold fromSym
      have e : (-((N - m : ℕ) : ℤ)) % (N : ℤ) = (m : ℤ) := by
        rw [← Int.add_emod_right, Int.emod_eq_of_lt (by omega) (by omega)]
        omega
      rw [e, Int.toNat_natCast]
    · rw [if_neg hc]
      refine ⟨?_, by omega, by omega⟩
      unfold fromSym
      rw [Int.emod_eq_of_lt (by omega) (by omega), Int.toNat_natCast]

end BronVerif.Lemmas.Paillier
