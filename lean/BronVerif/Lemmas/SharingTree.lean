import BronVerif.Lemmas.SharingInsert
/-!
# Liu–Cao–Wong: the model's `treeMSP` accepts exactly the sets on which the tree evaluates to true

Induction over the run `lcwRun` of the executable model (`Model/Access.lean`, mirror of
`boolexpr.convert`).  The invariant is semantic: for a frontier `front` (rows labelled with tree
nodes) and a set `S`, *the rows whose node evaluates to true on `S` span `e₀`* (`Acc`).  It holds
for the initial frontier `[([1], root)]` iff `root.eval S`, every insertion step preserves it
(`SharingInsert.insert_spans`; a gate with `k` true children contributes a Vandermonde block on the
nodes `i+1` of those children, and `k ≥ t` iff the gate is true), and on the final, gate-free
frontier the available rows are the rows owned by `S`, so `Acc` is `MSP.accepts`
(`SharingAccepts.accepts_iff`).  A shareholder labelling several leaves needs no special care: all
its rows are available together.
-/
namespace BronVerif.Lemmas.SharingTree
open BronVerif.LinAlg BronVerif.Access BronVerif.Lemmas.SharingAccepts BronVerif.Lemmas.SharingVand
open BronVerif.Lemmas.SharingInsert BronVerif.Lemmas.SharingModel

/-! ### facts about trees -/

theorem eval_leaf (S : List ℕ) (id : ℕ) : (Tree.leaf id).eval S = S.contains id := by rw [Tree.eval]

theorem eval_gate (S : List ℕ) (t : Int) (cs : List Tree) :
    (Tree.gate t cs).eval S = decide (t ≤ (Tree.countTrue S cs : Int)) := by rw [Tree.eval]

theorem countTrue_eq (S : List ℕ) (cs : List Tree) :
    Tree.countTrue S cs = (cs.filter fun c => c.eval S).length := by
  induction cs with
  | nil => rw [Tree.countTrue]; rfl
  | cons c cs ih =>
    rw [Tree.countTrue, ih, List.filter_cons]
    by_cases h : Tree.eval S c = true
    · simp [h]; omega
    · simp [h]

theorem sizeList_eq (cs : List Tree) : Tree.sizeList cs = (cs.map Tree.size).sum := by
  induction cs with
  | nil => rw [Tree.sizeList]; rfl
  | cons c cs ih => rw [Tree.sizeList, ih]; simp

theorem leavesList_eq (cs : List Tree) : Tree.leavesList cs = cs.flatMap Tree.leaves := by
  induction cs with
  | nil => rw [Tree.leavesList]; rfl
  | cons c cs ih => rw [Tree.leavesList, ih]; simp

theorem validList_iff (cs : List Tree) : Tree.validList cs = true ↔ ∀ c ∈ cs, c.valid = true := by
  induction cs with
  | nil => rw [Tree.validList]; simp
  | cons c cs ih => rw [Tree.validList]; simp [ih]

theorem size_pos (tr : Tree) : 0 < tr.size := by
  cases tr with
  | leaf id => rw [Tree.size]; omega
  | gate t cs => rw [Tree.size]; omega

theorem size_le_sizeList {c : Tree} {cs : List Tree} (h : c ∈ cs) : c.size ≤ Tree.sizeList cs := by
  rw [sizeList_eq]
  exact List.single_le_sum (fun _ _ => Nat.zero_le _) _ (List.mem_map_of_mem h)

theorem length_le_sizeList (cs : List Tree) : cs.length ≤ Tree.sizeList cs := by
  induction cs with
  | nil => simp
  | cons c cs ih => rw [Tree.sizeList]; have := size_pos c; simp only [List.length_cons]; omega

variable {F : Type} [Field F]

/-- what the run needs of every gate: positive threshold, child positions `0 … n` distinct in `F` -/
inductive TreeOK (F : Type) [Field F] : Tree → Prop
  | leaf (id : ℕ) : TreeOK F (.leaf id)
  | gate (t : Int) (cs : List Tree) : 0 < t →
      Set.InjOn (Nat.cast : ℕ → F) (Finset.range (cs.length + 1) : Set ℕ) →
      (∀ c ∈ cs, TreeOK F c) → TreeOK F (.gate t cs)

/-- the constructor's check together with distinct positions up to the size of the tree gives `TreeOK` -/
theorem treeOK_of_valid (n : ℕ) (hinj : Set.InjOn (Nat.cast : ℕ → F) (Finset.range (n + 1) : Set ℕ)) :
    ∀ tr : Tree, tr.size ≤ n → tr.valid = true → TreeOK F tr := by
  intro tr
  induction h : tr.size using Nat.strong_induction_on generalizing tr with
  | _ m ih =>
    intro hn hv
    cases tr with
    | leaf id => exact .leaf id
    | gate t cs =>
      rw [Tree.valid] at hv
      simp only [Bool.and_eq_true, decide_eq_true_eq] at hv
      obtain ⟨⟨⟨ht, -⟩, -⟩, hvl⟩ := hv
      have hsz : (Tree.gate t cs).size = 1 + Tree.sizeList cs := by rw [Tree.size]
      rw [hsz] at h
      refine .gate t cs ht ?_ ?_
      · refine hinj.mono ?_
        intro i hi
        have := length_le_sizeList cs
        simp only [Finset.coe_range, Set.mem_Iio] at hi ⊢
        omega
      · intro c hc
        have hcs := size_le_sizeList hc
        exact ih c.size (by omega) c rfl (by omega) ((validList_iff cs).mp hvl c hc)

/-! ### one step of the run -/

variable [DecidableEq F]

abbrev Front (F : Type) := List (List F × Tree)

def padRow (n : ℕ) (e : List F × Tree) : List F × Tree := (e.1 ++ List.replicate n (0 : F), e.2)

def midRows (prow : List F) (t : ℕ) (cs : List Tree) : Front F :=
  cs.zipIdx.map fun p => (prow ++ (powers (((p.2 + 1 : ℕ)) : F) t).drop 1, p.1)

/-- the state after expanding the gate `(prow, gate t cs)` standing between `A` and `B` -/
def stepAt (A B : Front F) (prow : List F) (t : Int) (cs : List Tree) (d : ℕ) : Front F × ℕ :=
  (A.map (padRow (t.toNat - 1)) ++ midRows prow t.toNat cs ++ B.map (padRow (t.toNat - 1)),
    d + t.toNat - 1)

/-- `lcwStep` either finds no gate (all frontier nodes are leaves) or expands the first one -/
theorem lcwStep_cases (front : Front F) (d : ℕ) :
    (lcwStep (front, d) = none ∧ ∀ e ∈ front, e.2.isLeaf = true) ∨
    ∃ A B prow t cs, front = A ++ (prow, Tree.gate t cs) :: B ∧
      lcwStep (front, d) = some (stepAt A B prow t cs d) := by
  unfold lcwStep
  simp only
  cases hf : front.findIdx? (fun e => !e.2.isLeaf) with
  | none =>
    left
    refine ⟨rfl, fun e he => ?_⟩
    have := (List.findIdx?_eq_none_iff.mp hf) e he
    simpa using this
  | some z =>
    right
    obtain ⟨hz, hp, -⟩ := List.findIdx?_eq_some_iff_getElem.mp hf
    have hget : front[z]? = some front[z] := List.getElem?_eq_getElem hz
    have hsplit : front = front.take z ++ front[z] :: front.drop (z + 1) := by
      rw [← List.drop_eq_getElem_cons hz, List.take_append_drop]
    rcases hfz : front[z] with ⟨prow, nd⟩
    cases nd with
    | leaf id => rw [hfz] at hp; simp [Tree.isLeaf] at hp
    | gate t cs =>
      refine ⟨front.take z, front.drop (z + 1), prow, t, cs, by rw [← hfz]; exact hsplit, ?_⟩
      simp only [hget, hfz]
      rfl

/-! ### the semantic invariant -/

/-- rows of the frontier whose node evaluates to true on `S` -/
def availRows (S : List ℕ) (front : Front F) : Mat F := (front.filter fun e => e.2.eval S).map (·.1)

/-- the available rows span `e₀` -/
def Acc (S : List ℕ) (st : Front F × ℕ) : Prop := SpansL (availRows S st.1) st.2

structure Inv (st : Front F × ℕ) : Prop where
  width : ∀ e ∈ st.1, e.1.length = st.2
  ok : ∀ e ∈ st.1, TreeOK F e.2
  pos : 0 < st.2

omit [DecidableEq F] in
theorem availRows_append (S : List ℕ) (X Y : Front F) :
    availRows S (X ++ Y) = availRows S X ++ availRows S Y := by simp [availRows]

omit [DecidableEq F] in
theorem availRows_cons (S : List ℕ) (e : List F × Tree) (B : Front F) :
    availRows S (e :: B) = (if e.2.eval S = true then [e.1] else []) ++ availRows S B := by
  unfold availRows
  by_cases h : e.2.eval S = true <;> simp [List.filter_cons, h]

omit [DecidableEq F] in
theorem availRows_pad (S : List ℕ) (n : ℕ) (A : Front F) :
    availRows S (A.map (padRow n)) = (availRows S A).map (· ++ List.replicate n (0 : F)) := by
  unfold availRows
  rw [List.filter_map, List.map_map, List.map_map]
  rfl

/-- the positions (plus one, in the field) of the children that evaluate to true -/
def nodes (S : List ℕ) (cs : List Tree) : List F :=
  ((cs.zipIdx).filter fun p => p.1.eval S).map fun p => (((p.2 + 1 : ℕ)) : F)

theorem availRows_mid (S : List ℕ) (prow : List F) (t : ℕ) (cs : List Tree) :
    availRows S (midRows prow t cs) = block prow (nodes S cs) t := by
  unfold availRows midRows block nodes
  rw [List.filter_map, List.map_map, List.map_map]
  refine List.map_congr_left fun p _ => ?_
  simp only [Function.comp_apply, powers_eq]

omit [DecidableEq F] in
theorem nodes_length (S : List ℕ) (cs : List Tree) : (nodes (F := F) S cs).length = Tree.countTrue S cs := by
  unfold nodes
  rw [List.length_map, countTrue_eq]
  exact zipIdx_filter_length (fun c => c.eval S) cs 0

omit [DecidableEq F] in
theorem nodes_nodup (S : List ℕ) (cs : List Tree)
    (hinj : Set.InjOn (Nat.cast : ℕ → F) (Finset.range (cs.length + 1) : Set ℕ)) :
    (nodes (F := F) S cs).Nodup := by
  unfold nodes
  have hsub : (((cs.zipIdx).filter fun p => p.1.eval S).map Prod.snd).Sublist (List.range' 0 cs.length) := by
    rw [← List.zipIdx_map_snd 0 cs]
    exact (List.filter_sublist).map _
  have hnd : (((cs.zipIdx).filter fun p => p.1.eval S).map Prod.snd).Nodup :=
    hsub.nodup (List.nodup_range')
  have hlt : ∀ i ∈ ((cs.zipIdx).filter fun p => p.1.eval S).map Prod.snd, i < cs.length := by
    intro i hi
    have := hsub.subset hi
    simp only [List.mem_range'_1] at this
    omega
  have : (((cs.zipIdx).filter fun p => p.1.eval S).map fun p => (((p.2 + 1 : ℕ)) : F)) =
      (((cs.zipIdx).filter fun p => p.1.eval S).map Prod.snd).map fun i => (((i + 1 : ℕ)) : F) := by
    rw [List.map_map]; rfl
  rw [this]
  refine List.Nodup.map_on ?_ hnd
  intro a ha b hb hab
  have h1 := hlt a ha
  have h2 := hlt b hb
  have := hinj (by simp only [Finset.coe_range, Set.mem_Iio]; omega)
    (by simp only [Finset.coe_range, Set.mem_Iio]; omega) hab
  omega

omit [DecidableEq F] in
theorem nodes_ne_zero (S : List ℕ) (cs : List Tree)
    (hinj : Set.InjOn (Nat.cast : ℕ → F) (Finset.range (cs.length + 1) : Set ℕ)) :
    ∀ y ∈ nodes (F := F) S cs, y ≠ 0 := by
  intro y hy
  unfold nodes at hy
  obtain ⟨p, hp, rfl⟩ := List.mem_map.mp hy
  have hlt : p.2 < cs.length := by
    have := List.snd_lt_of_mem_zipIdx (List.mem_filter.mp hp).1
    simpa using this
  intro h0
  have h1 : p.2 + 1 ∈ (Finset.range (cs.length + 1) : Set ℕ) := by
    simp only [Finset.coe_range, Set.mem_Iio]; omega
  have h2 : 0 ∈ (Finset.range (cs.length + 1) : Set ℕ) := by
    simp only [Finset.coe_range, Set.mem_Iio]; omega
  have := hinj h1 h2 (by simpa using h0)
  omega

/-- **Every insertion step preserves acceptance by the available rows.** -/
theorem step_acc (S : List ℕ) (A B : Front F) (prow : List F) (t : Int) (cs : List Tree) (d : ℕ)
    (hinv : Inv (A ++ (prow, Tree.gate t cs) :: B, d)) :
    Acc S (stepAt A B prow t cs d) ↔ Acc S (A ++ (prow, Tree.gate t cs) :: B, d) := by
  have hgate : TreeOK F (Tree.gate t cs) := hinv.ok (prow, Tree.gate t cs) (by simp)
  cases hgate with
  | gate _ _ ht hinj hcs =>
    have htn : 0 < t.toNat := by omega
    have hA : ∀ r ∈ availRows S A, r.length = d := by
      intro r hr
      obtain ⟨e, he, rfl⟩ := List.mem_map.mp hr
      exact hinv.width e (by simp [(List.mem_filter.mp he).1])
    have hB : ∀ r ∈ availRows S B, r.length = d := by
      intro r hr
      obtain ⟨e, he, rfl⟩ := List.mem_map.mp hr
      exact hinv.width e (by simp [(List.mem_filter.mp he).1])
    have hp : prow.length = d := hinv.width (prow, Tree.gate t cs) (by simp)
    unfold Acc stepAt
    simp only
    rw [availRows_append, availRows_append, availRows_pad, availRows_pad, availRows_mid,
      availRows_append, availRows_cons]
    have hev : ((Tree.gate t cs).eval S = true) ↔ t.toNat ≤ (nodes (F := F) S cs).length := by
      rw [eval_gate, nodes_length, decide_eq_true_iff, Int.toNat_le]
    have hif : (if (Tree.gate t cs).eval S = true then [prow] else []) =
        (if t.toNat ≤ (nodes (F := F) S cs).length then [prow] else []) := by
      by_cases h : (Tree.gate t cs).eval S = true
      · rw [if_pos h, if_pos (hev.mp h)]
      · rw [if_neg h, if_neg (fun h' => h (hev.mpr h'))]
    simp only [hif]
    rw [← List.append_assoc]
    exact insert_spans (availRows S A) (availRows S B) prow (nodes S cs) d t.toNat htn hinv.pos hA hB hp
      (nodes_nodup S cs hinj) (nodes_ne_zero S cs hinj)

theorem step_inv (A B : Front F) (prow : List F) (t : Int) (cs : List Tree) (d : ℕ)
    (hinv : Inv (A ++ (prow, Tree.gate t cs) :: B, d)) : Inv (stepAt A B prow t cs d) := by
  have hgate : TreeOK F (Tree.gate t cs) := hinv.ok (prow, Tree.gate t cs) (by simp)
  cases hgate with
  | gate _ _ ht hinj hcs =>
    have htn : 0 < t.toNat := by omega
    have hp : prow.length = d := hinv.width (prow, Tree.gate t cs) (by simp)
    refine ⟨?_, ?_, ?_⟩
    · intro e he
      simp only [stepAt, List.mem_append, List.mem_map] at he
      rcases he with (⟨e0, he0, rfl⟩ | hm) | ⟨e0, he0, rfl⟩
      · have := hinv.width e0 (by simp [he0])
        simp only [padRow, stepAt, List.length_append, List.length_replicate] at this ⊢
        omega
      · unfold midRows at hm
        obtain ⟨p, -, rfl⟩ := List.mem_map.mp hm
        simp only [stepAt, List.length_append, List.length_drop, powers_eq, List.length_map,
          List.length_range, hp]
        omega
      · have := hinv.width e0 (by simp [he0])
        simp only [padRow, stepAt, List.length_append, List.length_replicate] at this ⊢
        omega
    · intro e he
      simp only [stepAt, List.mem_append, List.mem_map] at he
      rcases he with (⟨e0, he0, rfl⟩ | hm) | ⟨e0, he0, rfl⟩
      · exact hinv.ok e0 (by simp [he0])
      · unfold midRows at hm
        obtain ⟨p, hpm, rfl⟩ := List.mem_map.mp hm
        exact hcs p.1 (List.fst_mem_of_mem_zipIdx hpm)
      · exact hinv.ok e0 (by simp [he0])
    · have := hinv.pos
      simp only [stepAt]
      omega

/-! ### the run -/

def sizeSum (front : Front F) : ℕ := (front.map fun e => e.2.size).sum

def frontLeaves (front : Front F) : List ℕ := front.flatMap fun e => e.2.leaves

omit [DecidableEq F] in
theorem sizeSum_pad (n : ℕ) (A : Front F) : sizeSum (A.map (padRow n)) = sizeSum A := by
  unfold sizeSum; rw [List.map_map]; rfl

omit [DecidableEq F] in
theorem sizeSum_mid (prow : List F) (t : ℕ) (cs : List Tree) :
    sizeSum (midRows prow t cs) = Tree.sizeList cs := by
  unfold sizeSum midRows
  rw [List.map_map, sizeList_eq]
  have : ((fun e : List F × Tree => e.2.size) ∘ fun p : Tree × ℕ =>
      (prow ++ (powers (((p.2 + 1 : ℕ)) : F) t).drop 1, p.1)) = Tree.size ∘ Prod.fst := rfl
  rw [this, ← List.map_map, List.zipIdx_map_fst]

omit [DecidableEq F] in
theorem sizeSum_step (A B : Front F) (prow : List F) (t : Int) (cs : List Tree) (d : ℕ) :
    sizeSum (stepAt A B prow t cs d).1 + 1 = sizeSum (A ++ (prow, Tree.gate t cs) :: B) := by
  have hg : (Tree.gate t cs).size = 1 + Tree.sizeList cs := by rw [Tree.size]
  have happ : ∀ X Y : Front F, sizeSum (X ++ Y) = sizeSum X + sizeSum Y := by
    intro X Y; simp [sizeSum]
  have hcons : ∀ (e : List F × Tree) (Y : Front F), sizeSum (e :: Y) = e.2.size + sizeSum Y := by
    intro e Y; simp [sizeSum]
  simp only [stepAt, happ, hcons, sizeSum_pad, sizeSum_mid, hg]
  omega

omit [DecidableEq F] in
theorem frontLeaves_pad (n : ℕ) (A : Front F) : frontLeaves (A.map (padRow n)) = frontLeaves A := by
  unfold frontLeaves; rw [List.flatMap_map]; rfl

omit [DecidableEq F] in
theorem frontLeaves_mid (prow : List F) (t : ℕ) (cs : List Tree) :
    frontLeaves (midRows prow t cs) = Tree.leavesList cs := by
  unfold frontLeaves midRows
  rw [List.flatMap_map, leavesList_eq]
  have : (fun p : Tree × ℕ => ((prow ++ (powers (((p.2 + 1 : ℕ)) : F) t).drop 1, p.1) : List F × Tree).2.leaves)
      = Tree.leaves ∘ Prod.fst := rfl
  rw [this]
  conv_rhs => rw [← List.zipIdx_map_fst 0 cs]
  rw [List.flatMap_map]
  rfl

omit [DecidableEq F] in
theorem frontLeaves_step (A B : Front F) (prow : List F) (t : Int) (cs : List Tree) (d : ℕ) :
    frontLeaves (stepAt A B prow t cs d).1 = frontLeaves (A ++ (prow, Tree.gate t cs) :: B) := by
  have hg : (Tree.gate t cs).leaves = Tree.leavesList cs := by rw [Tree.leaves]
  simp [stepAt, frontLeaves, List.flatMap_append, hg,
    show ∀ X : Front F, List.flatMap (fun e => e.2.leaves) (X.map (padRow (t.toNat - 1))) =
      List.flatMap (fun e => e.2.leaves) X from fun X => frontLeaves_pad _ X,
    show List.flatMap (fun e : List F × Tree => e.2.leaves) (midRows prow t.toNat cs) =
      Tree.leavesList cs from frontLeaves_mid prow _ cs]

/-- the run preserves acceptance, reaches a gate-free frontier and keeps the leaves -/
theorem run_spec (S : List ℕ) : ∀ (fuel : ℕ) (st : Front F × ℕ), Inv st → sizeSum st.1 ≤ fuel →
    (Acc S (lcwRun fuel st) ↔ Acc S st) ∧ Inv (lcwRun fuel st) ∧
      (∀ e ∈ (lcwRun fuel st).1, e.2.isLeaf = true) ∧
      frontLeaves (lcwRun fuel st).1 = frontLeaves st.1 := by
  intro fuel
  induction fuel with
  | zero =>
    intro st hinv hsz
    have hnil : st.1 = [] := by
      cases hst : st.1 with
      | nil => rfl
      | cons e es =>
        rw [hst] at hsz
        have := size_pos e.2
        simp [sizeSum] at hsz
        omega
    refine ⟨Iff.rfl, hinv, ?_, rfl⟩
    intro e he
    rw [show lcwRun 0 st = st from rfl, hnil] at he
    cases he
  | succ fuel ih =>
    rintro ⟨front, d⟩ hinv hsz
    rcases lcwStep_cases front d with ⟨hnone, hleaf⟩ | ⟨A, B, prow, t, cs, rfl, hsome⟩
    · have hrun : lcwRun (fuel + 1) (front, d) = (front, d) := by
        rw [lcwRun, hnone]
      rw [hrun]
      exact ⟨Iff.rfl, hinv, hleaf, rfl⟩
    · have hrun : lcwRun (fuel + 1) (A ++ (prow, Tree.gate t cs) :: B, d) =
          lcwRun fuel (stepAt A B prow t cs d) := by
        rw [lcwRun, hsome]
      rw [hrun]
      have hinv' := step_inv A B prow t cs d hinv
      have hsz' : sizeSum (stepAt A B prow t cs d).1 ≤ fuel := by
        have := sizeSum_step A B prow t cs d
        simp only at hsz
        omega
      obtain ⟨h1, h2, h3, h4⟩ := ih (stepAt A B prow t cs d) hinv' hsz'
      exact ⟨h1.trans (step_acc S A B prow t cs d hinv), h2, h3,
        h4.trans (frontLeaves_step A B prow t cs d)⟩

/-! ### the theorem -/

def leafId (e : List F × Tree) : ℕ := match e.2 with | .leaf id => id | .gate _ _ => 0

omit [DecidableEq F] in
theorem treeMSP_eq (root : Tree) :
    treeMSP (F := F) root =
      { mat := (lcwRun root.size ([([(1 : F)], root)], 1)).1.map (·.1),
        cols := (lcwRun root.size ([([(1 : F)], root)], 1)).2,
        holders := (lcwRun root.size ([([(1 : F)], root)], 1)).1.map leafId } := by
  unfold treeMSP
  rcases lcwRun root.size ([([(1 : F)], root)], 1) with ⟨front, d⟩
  simp only [MSP.mk.injEq, true_and]
  refine List.map_congr_left fun e _ => ?_
  rcases e with ⟨r, nd⟩
  cases nd <;> rfl

/-- **Liu–Cao–Wong for the executable model**: `treeMSP root` accepts a set of shareholders iff the
tree evaluates to true on it. -/
theorem treeMSP_accepts (root : Tree) (hok : TreeOK F root) (S : List ℕ)
    (hS : ∀ id ∈ S, id ∈ root.leaves) :
    (treeMSP (F := F) root).accepts S = root.eval S := by
  set init : Front F × ℕ := ([([(1 : F)], root)], 1) with hinit
  have hinv : Inv init := ⟨by simp [hinit], by simp [hinit, hok], by simp [hinit]⟩
  have hsz : sizeSum init.1 ≤ root.size := by simp [hinit, sizeSum]
  obtain ⟨hacc, hinvr, hleaf, hlv⟩ := run_spec S root.size init hinv hsz
  rw [treeMSP_eq]
  set r := lcwRun root.size init with hr
  -- available rows = rows owned by S, on a gate-free frontier
  have hcontains : ∀ e ∈ r.1, S.contains (leafId e) = e.2.eval S := by
    intro e he
    have := hleaf e he
    rcases e with ⟨row, nd⟩
    cases nd with
    | leaf id => simp [leafId, eval_leaf]
    | gate t cs => simp [Tree.isLeaf] at this
  have hsub : (MSP.sub (F := F) { mat := r.1.map (·.1), cols := r.2, holders := r.1.map leafId } S) =
      availRows S r.1 := by
    rw [sub_eq_filter]
    unfold availRows
    congr 1
    exact List.filter_congr hcontains
  have hholders : ∀ id ∈ S, id ∈ (r.1.map leafId) := by
    intro id hid
    have h1 : id ∈ frontLeaves r.1 := by
      rw [hlv]; simpa [hinit, frontLeaves] using hS id hid
    unfold frontLeaves at h1
    obtain ⟨e, he, hmem⟩ := List.mem_flatMap.mp h1
    refine List.mem_map.mpr ⟨e, he, ?_⟩
    have := hleaf e he
    rcases e with ⟨row, nd⟩
    cases nd with
    | leaf id' =>
      rw [Tree.leaves] at hmem
      simp only [List.mem_singleton] at hmem
      simp [leafId, hmem]
    | gate t cs => simp [Tree.isLeaf] at this
  have hkey : (MSP.accepts (F := F) { mat := r.1.map (·.1), cols := r.2, holders := r.1.map leafId } S) = true ↔
      root.eval S = true := by
    rw [accepts_iff' _ S hholders hinvr.pos, hsub]
    show Acc S r ↔ _
    rw [hacc]
    unfold Acc availRows
    simp only [hinit]
    by_cases hev : root.eval S = true
    · simp only [hev, List.filter_cons, if_true, List.filter_nil, List.map_cons, List.map_nil, iff_true]
      exact ⟨[1], rfl, fun j hj => by
        have : j = 0 := by omega
        subst this; simp [wsum, colOf]⟩
    · simp only [hev, List.filter_cons, Bool.false_eq_true, if_false, List.filter_nil, List.map_nil,
        iff_false]
      exact not_spans_nil 1 (by omega)
  exact Bool.eq_iff_iff.mpr hkey

end BronVerif.Lemmas.SharingTree
