import BronVerif.Lemmas.RouterAssoc
/-! Invariants of the router model over arbitrary step sequences (core-only). -/
namespace BronVerif.Router

set_option linter.unusedSectionVars false

variable {C P : Type} [DecidableEq C] [DecidableEq P]

theorem lookupE_filter_ne {α : Type} (c c' : C) (l : List (C × α)) :
    lookupE c' (l.filter (fun e => decide (e.1 ≠ c))) = if c' = c then none else lookupE c' l := by
  induction l with
  | nil => simp [lookupE]
  | cons e l ih =>
    obtain ⟨k, v⟩ := e
    by_cases hk : k = c
    · rw [List.filter_cons_of_neg (by simp [hk]), ih]
      simp only [lookupE]
      by_cases h : c' = c
      · simp [h]
      · rw [if_neg h, if_neg h, if_neg (fun e => h (by rw [← e, hk]))]
    · rw [List.filter_cons_of_pos (by simp [hk])]
      simp only [lookupE]
      by_cases h : k = c'
      · rw [if_pos h, if_pos h, if_neg (fun e => hk (by rw [h, e]))]
      · rw [if_neg h, if_neg h, ih]

theorem upd_apply {α : Type} (f : Tab C α) (c : C) (v : Option α) (c' : C) :
    upd f c v c' = if c' = c then v else f c' := by
  cases v with
  | none =>
    show lookupE c' _ = _
    simp only [upd, Option.toList, List.map_nil, List.nil_append]
    rw [lookupE_filter_ne]
    split <;> rfl
  | some a =>
    show lookupE c' _ = _
    simp only [upd, Option.toList, List.map_cons, List.map_nil, List.cons_append, List.nil_append, lookupE]
    by_cases h : c' = c
    · subst h; simp
    · rw [if_neg (fun e => h e.symm), if_neg h, lookupE_filter_ne, if_neg h]; rfl

@[simp] theorem upd_same {α : Type} (f : Tab C α) (c : C) (v : Option α) : upd f c v c = v := by
  simp [upd_apply]

theorem upd_ne {α : Type} (f : Tab C α) {c c' : C} (v : Option α) (h : c' ≠ c) : upd f c v c' = f c' := by
  simp [upd_apply, h]

@[simp] theorem tab_empty_apply {α : Type} (c : C) : (({} : Tab C α) : C → Option α) c = none := rfl

theorem run_snoc (cfg : Config) (tr : List (Step C P)) (st : Step C P) (s : State C P) :
    run cfg (tr ++ [st]) s = step cfg (run cfg tr s) st := by
  simp [run, List.foldl_append]

/-- induction over arbitrary step sequences, with the history available to the invariant -/
theorem run_induction (cfg : Config) (I : List (Step C P) → State C P → Prop) (h0 : I [] init)
    (hstep : ∀ tr s st, I tr s → I (tr ++ [st]) (step cfg s st)) :
    ∀ tr, I tr (run cfg tr init) := by
  have key : ∀ (tr tr0 : List (Step C P)) (s : State C P), I tr0 s → I (tr0 ++ tr) (run cfg tr s) := by
    intro tr
    induction tr with
    | nil => intro tr0 s h; simpa [run] using h
    | cons st tr ih =>
      intro tr0 s h
      have := ih (tr0 ++ [st]) (step cfg s st) (hstep tr0 s st h)
      simpa [run, List.append_assoc] using this
  intro tr
  simpa using key tr [] init h0

/-! ### accounting -/

structure Acc (cfg : Config) (s : State C P) : Prop where
  len : s.buffered = s.entries.length
  nodup : (s.entries.map Prod.fst).Nodup
  bound : s.buffered ≤ cfg.bound
  wexp : ∀ cid w, s.waiter cid = some w → w.exp.Nodup

theorem acc_signal {cfg : Config} {s : State C P} (cid : C) (h : Acc cfg s) : Acc cfg (signal s cid) := by
  unfold signal
  split
  · rename_i w hw
    refine ⟨h.len, h.nodup, h.bound, ?_⟩
    intro c' w' hw'
    simp only [upd_apply] at hw'
    split at hw'
    · cases hw'; rename_i hc; exact h.wexp cid w hw
    · exact h.wexp c' w' hw'
  · exact h

theorem acc_failWith {cfg : Config} {s : State C P} (k : Fatal) (h : Acc cfg s) : Acc cfg (failWith s k) := by
  unfold failWith
  split
  · exact h
  · exact ⟨h.len, h.nodup, h.bound, h.wexp⟩

theorem acc_stopped {cfg : Config} {s : State C P} (h : Acc cfg s) : Acc cfg { s with stopped := true } :=
  ⟨h.len, h.nodup, h.bound, h.wexp⟩

theorem acc_deposit {cfg : Config} {s : State C P} (sender : Nat) (cid : C) (p : P) (h : Acc cfg s) :
    Acc cfg (deposit cfg s sender cid p) := by
  unfold deposit
  split
  · exact h
  split
  · split
    · split
      · exact h
      · exact acc_signal cid ⟨h.len, h.nodup, h.bound, h.wexp⟩
    · rename_i hget
      split
      · exact acc_stopped (acc_failWith _ h)
      · rename_i hb
        apply acc_signal
        refine ⟨by simp [h.len], ?_, by simp at hb ⊢; omega, h.wexp⟩
        simp only [List.map_cons, List.nodup_cons]
        exact ⟨lookupE_eq_none_iff.mp hget, h.nodup⟩
  · exact h

theorem acc_waiter_upd {cfg : Config} {s : State C P} (cid : C) (v : Option Waiter)
    (hv : ∀ w, v = some w → w.exp.Nodup) (h : Acc cfg s) : Acc cfg { s with waiter := upd s.waiter cid v } := by
  refine ⟨h.len, h.nodup, h.bound, ?_⟩
  intro c' w' hw'
  simp only [upd_apply] at hw'
  split at hw'
  · exact hv w' hw'
  · exact h.wexp c' w' hw'

theorem acc_log {cfg : Config} {s : State C P} (l : List (C × Result P)) (h : Acc cfg s) : Acc cfg { s with log := l } :=
  ⟨h.len, h.nodup, h.bound, h.wexp⟩

theorem acc_finish {cfg : Config} {s : State C P} (cid : C) (w : Waiter) (r : Result P)
    (hw : w.exp.Nodup) (h : Acc cfg s) : Acc cfg (finish s cid w r) := by
  unfold finish
  refine ⟨h.len, h.nodup, h.bound, ?_⟩
  intro c' w' hw'
  simp only [upd_apply] at hw'
  split at hw'
  · cases hw'; exact hw
  · exact h.wexp c' w' hw'

theorem isComplete_iff {s : State C P} {cid : C} {exp : List Nat} :
    isComplete s cid exp = true ↔ ∀ id ∈ exp, (lookupE (cid, id) s.entries).isSome = true := by
  simp [isComplete, get, List.all_eq_true]

theorem acc_scan {cfg : Config} {s : State C P} (cid : C) (h : Acc cfg s) : Acc cfg (scan s cid) := by
  unfold scan
  split
  · exact h
  · rename_i w hw
    have hwn := h.wexp cid w hw
    split
    · split
      · exact acc_finish cid w _ hwn h
      · split
        · rename_i hc
          apply acc_finish cid w _ hwn
          have hl := length_removeAll (cid := cid) hwn (isComplete_iff.mp hc)
          refine ⟨?_, nodup_removeAll h.nodup, ?_, h.wexp⟩
          · have := h.len; simp only; omega
          · have := h.bound; simp only; omega
        · split
          · exact acc_finish cid w _ hwn h
          · split
            · exact acc_finish cid w _ hwn h
            · exact acc_waiter_upd cid _ (by intro w' hw'; cases hw'; exact hwn) h
    · exact h

theorem acc_step {cfg : Config} {s : State C P} (st : Step C P) (h : Acc cfg s) : Acc cfg (step cfg s st) := by
  cases st with
  | deliver sender cid p => exact acc_deposit sender cid p h
  | garbage sender =>
    simp only [step, garbageStep]
    split
    · exact h
    · split
      · exact acc_stopped (acc_failWith _ h)
      · exact h
  | transportErr =>
    simp only [step, transportStep]
    split
    · exact h
    · exact acc_stopped (acc_failWith _ h)
  | attach cid exp =>
    simp only [step, attach]
    split
    · exact acc_log _ h
    · split
      · exact acc_log _ h
      · exact acc_waiter_upd cid _ (by intro w hw; cases hw; exact nodup_dedup exp) h
  | scan cid => exact acc_scan cid h
  | wakeToken cid =>
    simp only [step, wake]
    split
    · exact h
    · rename_i w hw
      split
      · exact acc_waiter_upd cid _ (by intro w' hw'; cases hw'; exact h.wexp cid w hw) h
      · exact h
  | wakeCtx cid =>
    simp only [step, wake]
    split
    · exact h
    · rename_i w hw
      split
      · exact acc_waiter_upd cid _ (by intro w' hw'; cases hw'; exact h.wexp cid w hw) h
      · exact h
  | wakeFailed cid =>
    simp only [step, wake]
    split
    · exact h
    · rename_i w hw
      split
      · exact acc_waiter_upd cid _ (by intro w' hw'; cases hw'; exact h.wexp cid w hw) h
      · exact h
  | detach cid =>
    simp only [step, detach]
    split
    · exact h
    · split
      · exact acc_waiter_upd cid none (by intro w hw; cases hw) h
      · exact h
  | cancel cid =>
    simp only [step, cancelStep]
    split
    · exact h
    · rename_i w hw
      exact acc_waiter_upd cid _ (by intro w' hw'; cases hw'; exact h.wexp cid w hw) h
  | close => exact acc_failWith _ h

theorem acc_run (cfg : Config) (tr : List (Step C P)) : Acc cfg (run cfg tr (init : State C P)) := by
  apply run_induction cfg (fun _ s => Acc cfg s)
  · exact ⟨rfl, by simp [init], by simp [init], by intro cid w h; simp [init] at h⟩
  · intro tr s st h; exact acc_step st h

end BronVerif.Router
