import Mathlib.Tactic.Ring
import Mathlib.Tactic.FieldSimp
import Mathlib.Tactic.LinearCombination
import Mathlib.Algebra.Field.Basic
import Mathlib.Algebra.Group.Even
import BronVerif.Gen.H2CMaps
/-!
# The GENERATED simplified SWU map (`Gen/H2CMaps.lean`, from `mappers/sswu/sswu.go`) lands on the curve
-/
namespace BronVerif.Lemmas.H2CSswu
open BronVerif.Gen.H2CMaps

variable {F : Type} [Field F] [DecidableEq F]

/-- Specification of the `sqrt_ratio` helper (RFC 9380 §F.2.1) relative to `Z`: for `v ≠ 0` it returns
`(true, y)` with `y²·v = u`, or `(false, y)` with `y²·v = Z·u` and then `u/v` is not a square. -/
structure SqrtRatioSpec (Z : F) (sr : F → F → Bool × F) : Prop where
  sq : ∀ u v, v ≠ 0 → (sr u v).1 = true → (sr u v).2 ^ 2 * v = u
  nsq : ∀ u v, v ≠ 0 → (sr u v).1 = false → (sr u v).2 ^ 2 * v = Z * u ∧ ¬ IsSquare (u / v)

/-- steps 17–25 of `sswu` as a function of the intermediate values -/
def finish (sr : F → F → Bool × F) (sgn0 : F → Bool) (u tv1 tv3 tv4 gxn tv6 : F) : F × F :=
  let r := sr gxn tv6
  let x := if r.1 then tv3 else tv1 * tv3
  let y := if r.1 then r.2 else tv1 * u * r.2
  let y' := if (!(sgn0 u != sgn0 y)) then y else -y
  (x * tv4⁻¹, y')

theorem sswu_eq_finish (Z : F) (mulByA mulByB : F → F) (sr : F → F → Bool × F) (sgn0 : F → Bool) (u : F) :
    sswu Z mulByA mulByB sr sgn0 u =
      (let tv1 := Z * (u * u)
       let tv2 := tv1 * tv1 + tv1
       let tv3 := mulByB (tv2 + 1)
       let tv4 := mulByA (if (tv2 != 0) then -tv2 else Z)
       let tv6 := tv4 * tv4
       finish sr sgn0 u tv1 tv3 tv4 ((tv3 * tv3 + mulByA tv6) * tv3 + mulByB (tv6 * tv4)) (tv6 * tv4)) := rfl

omit [DecidableEq F] in
theorem neg_ite_sq (c : Bool) (y : F) : (if c then y else -y) ^ 2 = y ^ 2 := by
  cases c <;> simp

omit [DecidableEq F] in
theorem finish_on_curve {A B Z : F} {sr : F → F → Bool × F} (sgn0 : F → Bool) (hsr : SqrtRatioSpec Z sr)
    {u tv1 tv3 tv4 gxn tv6 : F} (h4 : tv4 ≠ 0) (h6 : tv6 = tv4 ^ 3)
    (hg : gxn = tv3 ^ 3 + A * tv3 * tv4 ^ 2 + B * tv4 ^ 3) (h1 : tv1 = Z * u ^ 2)
    (hbr : (sr gxn tv6).1 = false → tv1 ^ 3 * gxn = (tv1 * tv3) ^ 3 + A * (tv1 * tv3) * tv4 ^ 2 + B * tv4 ^ 3) :
    (finish sr sgn0 u tv1 tv3 tv4 gxn tv6).2 ^ 2 =
      (finish sr sgn0 u tv1 tv3 tv4 gxn tv6).1 ^ 3 + A * (finish sr sgn0 u tv1 tv3 tv4 gxn tv6).1 + B := by
  subst h6
  have h6' : tv4 ^ 3 ≠ 0 := pow_ne_zero 3 h4
  simp only [finish, neg_ite_sq]
  cases hb : (sr gxn (tv4 ^ 3)).1
  · obtain ⟨hy, -⟩ := hsr.nsq gxn _ h6' hb
    have hk := hbr hb
    simp only [Bool.false_eq_true, if_false]
    field_simp
    linear_combination (tv1 ^ 2 * u ^ 2) * hy + hk - (tv1 ^ 2 * gxn) * h1
  · have hy := hsr.sq gxn _ h6' hb
    simp only [if_true]
    field_simp
    linear_combination hy + hg

/-- **The generated SSWU map lands on `y² = x³ + A·x + B` for every `u`** (exceptional inputs `Z·u² ∈ {0, -1}`
included).  Hypotheses: the mapper-params methods multiply by `A ≠ 0` and `B`; `Z` is a non-square;
`sqrt_ratio` meets its specification; and `g(B/(Z·A))` is a square (the fourth criterion for `Z` in RFC 9380
§H.2, which makes the exceptional case land on the curve). -/
theorem sswu_on_curve (A B Z : F) (mulByA mulByB : F → F) (sr : F → F → Bool × F) (sgn0 : F → Bool)
    (hA : ∀ x, mulByA x = A * x) (hB : ∀ x, mulByB x = B * x)
    (hA0 : A ≠ 0) (hZ : ¬ IsSquare Z) (hsr : SqrtRatioSpec Z sr)
    (hexc : IsSquare ((B / (Z * A)) ^ 3 + A * (B / (Z * A)) + B)) (u : F) :
    (sswu Z mulByA mulByB sr sgn0 u).2 ^ 2 =
      (sswu Z mulByA mulByB sr sgn0 u).1 ^ 3 + A * (sswu Z mulByA mulByB sr sgn0 u).1 + B := by
  have hZ0 : Z ≠ 0 := fun h => hZ (h ▸ ⟨0, by simp⟩)
  rw [sswu_eq_finish]
  simp only [hA, hB]
  by_cases h2 : Z * (u * u) * (Z * (u * u)) + Z * (u * u) = 0
  · -- exceptional case: tv4 = A·Z, tv3 = B, and g(x1) is a square, so `sqrt_ratio` must answer `true`
    simp only [h2, bne_self_eq_false, zero_add, mul_one, Bool.false_eq_true, if_false]
    have h4 : A * Z ≠ 0 := mul_ne_zero hA0 hZ0
    refine finish_on_curve sgn0 hsr h4 (by ring) (by ring) (by ring) ?_
    intro hb
    exfalso
    have h6 : A * Z * (A * Z) * (A * Z) ≠ 0 := mul_ne_zero (mul_ne_zero h4 h4) h4
    refine (hsr.nsq _ _ h6 hb).2 ?_
    convert hexc using 1
    field_simp
  · have hne : (Z * (u * u) * (Z * (u * u)) + Z * (u * u) != 0) = true := by simp [h2]
    simp only [hne, if_true]
    have h4 : A * -(Z * (u * u) * (Z * (u * u)) + Z * (u * u)) ≠ 0 := mul_ne_zero hA0 (neg_ne_zero.mpr h2)
    refine finish_on_curve sgn0 hsr h4 (by ring) (by ring) (by ring) ?_
    intro _
    ring

omit [DecidableEq F] in
theorem sign_fix (sgn0 : F → Bool) (hsgn : ∀ y : F, y ≠ 0 → sgn0 (-y) = !sgn0 y) (u y : F)
    (hy : (if (!(sgn0 u != sgn0 y)) then y else -y) ≠ 0) :
    sgn0 (if (!(sgn0 u != sgn0 y)) then y else -y) = sgn0 u := by
  by_cases h : sgn0 u = sgn0 y
  · simp [h]
  · have hb : (!(sgn0 u != sgn0 y)) = false := by simp [h]
    rw [hb] at hy ⊢
    simp only [Bool.false_eq_true, if_false] at hy ⊢
    rw [hsgn y (neg_ne_zero.mp hy)]
    cases hs : sgn0 u <;> cases ht : sgn0 y <;> simp_all

/-- the sign of the output: `sgn0(y) = sgn0(u)` whenever `y ≠ 0`, for any `sgn0` that separates `y` from `-y` -/
theorem sswu_sign (Z : F) (mulByA mulByB : F → F) (sr : F → F → Bool × F) (sgn0 : F → Bool)
    (hsgn : ∀ y : F, y ≠ 0 → sgn0 (-y) = !sgn0 y) (u : F)
    (hy : (sswu Z mulByA mulByB sr sgn0 u).2 ≠ 0) :
    sgn0 (sswu Z mulByA mulByB sr sgn0 u).2 = sgn0 u := by
  rw [sswu_eq_finish] at hy ⊢
  exact sign_fix sgn0 hsgn u _ hy

/-! ### `sqrt_ratio` for `q ≡ 3 (mod 4)` (generated from `SqrtRatio3Mod4`, sqrt.go) meets the specification -/

/-- Hypotheses: `fpow · c1` is exponentiation by `c1 = (q-3)/4` in a field with `q` elements, stated as the
identity `(a^c1)⁴·a³ = a` (`= a^q`); `c2² = -Z`; and `-1` is not a square (`q ≡ 3 mod 4`). -/
theorem sqrtRatio3Mod4_spec (Z : F) (fpow : F → Nat → F) (c1 : Nat) (c2 : F)
    (hpow : ∀ a, fpow a c1 ^ 4 * a ^ 3 = a) (hc2 : c2 ^ 2 = -Z) (hm1 : ¬ IsSquare (-1 : F)) :
    SqrtRatioSpec Z (sqrtRatio3Mod4 fpow c1 c2) := by
  constructor
  · intro u v _ hb
    simp only [sqrtRatio3Mod4] at hb ⊢
    simp only [hb, if_true]
    have := of_decide_eq_true hb
    linear_combination -this
  · intro u v hv hb
    simp only [sqrtRatio3Mod4] at hb ⊢
    simp only [hb, Bool.false_eq_true, if_false]
    have hne : u ≠ fpow (v * v * (u * v)) c1 * (u * v) * (fpow (v * v * (u * v)) c1 * (u * v)) * v := by
      simpa using hb
    set e := fpow (v * v * (u * v)) c1 with he
    have hp := hpow (v * v * (u * v))
    rw [← he] at hp
    have hu : u ≠ 0 := by
      rintro rfl
      exact hne (by ring)
    have hw : v * v * (u * v) ≠ 0 := mul_ne_zero (mul_ne_zero hv hv) (mul_ne_zero hu hv)
    -- (e²·w)² = 1
    have h1 : (e ^ 2 * (v * v * (u * v))) ^ 2 = 1 := by
      have : (e ^ 2 * (v * v * (u * v))) ^ 2 * (v * v * (u * v)) = 1 * (v * v * (u * v)) := by
        linear_combination hp
      exact mul_right_cancel₀ hw this
    have h2 : e ^ 2 * (v * v * (u * v)) = 1 ∨ e ^ 2 * (v * v * (u * v)) = -1 := by
      have : (e ^ 2 * (v * v * (u * v)) - 1) * (e ^ 2 * (v * v * (u * v)) + 1) = 0 := by
        linear_combination h1
      rcases mul_eq_zero.mp this with h | h
      · left; linear_combination h
      · right; linear_combination h
    rcases h2 with h2 | h2
    · exact absurd (by linear_combination (-u) * h2) hne
    · have hy1 : (e * (u * v)) ^ 2 * v = -u := by linear_combination u * h2
      refine ⟨by linear_combination c2 ^ 2 * hy1 - u * hc2, ?_⟩
      rintro ⟨s, hs⟩
      have hs0 : s ≠ 0 := by
        rintro rfl
        apply hu
        field_simp at hs
        simpa using hs
      apply hm1
      refine ⟨e * (u * v) / s, ?_⟩
      rw [div_mul_div_comm, eq_div_iff (mul_ne_zero hs0 hs0)]
      field_simp at hs
      apply mul_right_cancel₀ hv
      linear_combination -hy1 + hs

end BronVerif.Lemmas.H2CSswu
