import Mathlib.Data.Int.GCD
import Mathlib.Data.Nat.GCD.Basic
import Mathlib.Tactic.Ring
import Mathlib.Tactic.Linarith
import BronVerif.Model.BigNum
/-!
# The extended-Euclid inverse of `Model/BigNum.lean`

`xgcdAux_spec`: the loop returns `(gcd r0 r1, s)` with `m ∣ gcd − s·a`, given the invariant
`m ∣ r0 − s0·a`, `m ∣ r1 − s1·a`.  `invMod_spec`: for `m > 1`, `invMod a m` is `some x` exactly when
`a` and `m` are coprime, and then `x < m` and `a * x % m = 1`.
-/
namespace BronVerif.Lemmas.BigNumInv
open BronVerif.BigNum

theorem xgcdAux_spec (a m : Int) : ∀ (fuel : Nat) (r0 r1 s0 s1 : Int), 0 ≤ r0 → 0 ≤ r1 → r1.toNat < fuel →
    m ∣ r0 - s0 * a → m ∣ r1 - s1 * a →
    (xgcdAux fuel r0 r1 s0 s1).1 = (Int.gcd r0 r1 : Int) ∧
      m ∣ (xgcdAux fuel r0 r1 s0 s1).1 - (xgcdAux fuel r0 r1 s0 s1).2 * a := by
  intro fuel
  induction fuel with
  | zero => intro r0 r1 s0 s1 _ _ h; omega
  | succ f ih =>
    intro r0 r1 s0 s1 h0 h1 hf d0 d1
    unfold xgcdAux
    by_cases hz : r1 = 0
    · subst hz
      rw [if_pos rfl]
      refine ⟨?_, d0⟩
      simp [abs_of_nonneg h0]
    · rw [if_neg hz]
      have hpos : 0 < r1 := lt_of_le_of_ne h1 (Ne.symm hz)
      have hm0 : 0 ≤ r0 % r1 := Int.emod_nonneg r0 hz
      have hmlt : r0 % r1 < r1 := Int.emod_lt_of_pos r0 hpos
      have hfuel : (r0 % r1).toNat < f := by omega
      have hd : m ∣ r0 % r1 - (s0 - r0 / r1 * s1) * a := by
        have e : r0 % r1 - (s0 - r0 / r1 * s1) * a = (r0 - s0 * a) - (r0 / r1) * (r1 - s1 * a) := by
          rw [Int.emod_def]; ring
        rw [e]; exact Int.dvd_sub d0 (Dvd.dvd.mul_left d1 _)
      obtain ⟨g1, g2⟩ := ih r1 (r0 % r1) s1 (s0 - r0 / r1 * s1) h1 hm0 hfuel d1 hd
      refine ⟨?_, g2⟩
      rw [g1]
      congr 1
      have e : r0 % r1 = r0 + (-(r0 / r1)) * r1 := by rw [Int.emod_def]; ring
      rw [e, Int.gcd_add_mul_right_right, Int.gcd_comm]

/-- for `m > 1`: `invMod` answers `some x` exactly for units, and `x` is the inverse in `[0, m)` -/
theorem invMod_spec (a m : Nat) (hm : 1 < m) :
    (∀ x, invMod a m = some x → x < m ∧ a * x % m = 1) ∧
    ((invMod a m).isSome ↔ Nat.Coprime a m) := by
  have hm' : ¬ m ≤ 1 := by omega
  have hmI : (0 : Int) < m := by omega
  obtain ⟨g1, g2⟩ := xgcdAux_spec (a : Int) (m : Int) (m + 1) m ((a % m : Nat) : Int) 0 1
    (by omega) (by omega) (by have := Nat.mod_lt a (by omega : 0 < m); omega)
    (by simp) (by
      have : ((a % m : Nat) : Int) - 1 * (a : Int) = (m : Int) * (-((a / m : Nat) : Int)) := by
        have := Nat.div_add_mod a m
        push_cast
        have h2 : (m : Int) * ((a / m : Nat) : Int) + ((a % m : Nat) : Int) = a := by exact_mod_cast this
        push_cast at h2 ⊢
        linarith
      rw [this]; exact Dvd.intro _ rfl)
  have hg : (xgcdAux (m + 1) (m : Int) ((a % m : Nat) : Int) 0 1).1 = ((Nat.gcd a m : Nat) : Int) := by
    rw [g1, Int.gcd_natCast_natCast, Nat.gcd_comm m, ← Nat.gcd_rec, Nat.gcd_comm]
  constructor
  · intro x hx
    unfold invMod at hx
    simp only [hm', if_false] at hx
    split at hx
    · rename_i h1
      have hx' : x = ((xgcdAux (m + 1) (m : Int) ((a % m : Nat) : Int) 0 1).2 % (m : Int)).toNat := by
        simpa using hx.symm
      set s := (xgcdAux (m + 1) (m : Int) ((a % m : Nat) : Int) 0 1).2 with hs
      have hnn : 0 ≤ s % (m : Int) := Int.emod_nonneg _ (by omega)
      have hlt : s % (m : Int) < m := Int.emod_lt_of_pos _ hmI
      have hxI : (x : Int) = s % (m : Int) := by rw [hx']; exact Int.toNat_of_nonneg hnn
      refine ⟨by omega, ?_⟩
      -- m ∣ 1 - s * a  and  x ≡ s (mod m)
      rw [h1] at g2
      have hdiv : (m : Int) ∣ 1 - (x : Int) * a := by
        have e : 1 - (x : Int) * a = (1 - s * a) + (s - s % (m : Int)) * a := by rw [hxI]; ring
        rw [e]
        refine Int.dvd_add g2 (Dvd.dvd.mul_right ?_ _)
        exact ⟨s / (m : Int), by rw [Int.emod_def]; ring⟩
      have hmod : ((a * x : Nat) : Int) % (m : Int) = 1 % (m : Int) := by
        have : (m : Int) ∣ ((a * x : Nat) : Int) - 1 := by
          have h3 := Int.dvd_neg.mpr hdiv
          have e : ((a * x : Nat) : Int) - 1 = -(1 - (x : Int) * a) := by push_cast; ring
          rw [e]; exact h3
        exact Int.emod_eq_emod_iff_emod_sub_eq_zero.mpr (Int.emod_eq_zero_of_dvd this)
      have : ((a * x % m : Nat) : Int) = 1 := by
        rw [Int.natCast_mod, hmod, Int.emod_eq_of_lt (by omega) (by omega)]
      exact_mod_cast this
    · exact absurd hx (by simp)
  · unfold invMod
    simp only [hm', if_false]
    rw [hg]
    constructor
    · intro h
      split at h
      · rename_i h1; exact_mod_cast h1
      · simp at h
    · intro h
      have : ((Nat.gcd a m : Nat) : Int) = 1 := by exact_mod_cast h
      simp [this]

end BronVerif.Lemmas.BigNumInv
