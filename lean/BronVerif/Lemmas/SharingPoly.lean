import Mathlib.Data.Matrix.Mul
import Mathlib.LinearAlgebra.Lagrange
import Mathlib.Algebra.BigOperators.Fin
import Mathlib.Algebra.Polynomial.Eval.Degree
import Mathlib.Algebra.Polynomial.BigOperators
/-!
# Polynomial facts behind the Vandermonde span programme and Shamir sharing (helper lemmas for C02)
-/
namespace BronVerif.Lemmas.SharingPoly
open Matrix BigOperators Polynomial

variable {F : Type*} [Field F]

/-- rows `[1, x, …, x^(t-1)]` for the nodes `x = (i : F)`, `i ∈ S` (the Go construction: sorted ids) -/
def vandermondeRows (t : ℕ) (S : Finset ℕ) : Matrix S (Fin t) F := fun i j => ((i : ℕ) : F) ^ (j : ℕ)

/-- Lagrange at zero reproduces every polynomial of degree `< #T` -/
theorem lagrange_zero_sum (T : Finset ℕ) (hid : Set.InjOn (Nat.cast : ℕ → F) T) (f : F[X])
    (hf : f.degree < T.card) :
    ∑ i ∈ T, (Lagrange.basis T (Nat.cast : ℕ → F) i).eval 0 * f.eval (i : F) = f.eval 0 := by
  conv_rhs => rw [Lagrange.eq_interpolate hid hf]
  simp [Lagrange.interpolate_apply, eval_finsetSum, mul_comm]

/-- the polynomial `Π_{i∈S} (1 - X/xᵢ)`: value 1 at zero, zero at every node, degree `≤ #S` -/
noncomputable def killPoly (S : Finset ℕ) : F[X] := ∏ i ∈ S, (C (-((i : F))⁻¹) * X + C 1)

theorem killPoly_eval_zero (S : Finset ℕ) : (killPoly S : F[X]).eval 0 = 1 := by
  simp [killPoly, eval_prod]

theorem killPoly_eval_node (S : Finset ℕ) (h0 : ∀ i ∈ S, (i : F) ≠ 0) (i : ℕ) (hi : i ∈ S) :
    (killPoly S : F[X]).eval (i : F) = 0 := by
  rw [killPoly, eval_prod]
  refine Finset.prod_eq_zero hi ?_
  simp [h0 i hi]

theorem killPoly_natDegree (S : Finset ℕ) : (killPoly S : F[X]).natDegree ≤ S.card := by
  refine (natDegree_prod_le S fun i => (C (-((i : F))⁻¹) * X + C 1 : F[X])).trans ?_
  calc ∑ i ∈ S, (C (-((i : F))⁻¹) * X + C 1 : F[X]).natDegree ≤ ∑ _i ∈ S, 1 :=
        Finset.sum_le_sum fun i _ => natDegree_linear_le
    _ = S.card := by simp

theorem eval_eq_fin_sum (P : F[X]) (t : ℕ) (h : P.natDegree < t) (x : F) :
    ∑ j : Fin t, x ^ (j : ℕ) * P.coeff j = P.eval x := by
  rw [eval_eq_sum_range' h, Fin.sum_univ_eq_sum_range (fun j => x ^ j * P.coeff j) t]
  exact Finset.sum_congr rfl fun j _ => mul_comm _ _


/-- `t` columns of Vandermonde rows at distinct non-zero nodes span `e₀` iff there are at least `t` rows -/
theorem vandermonde_accepts_iff (t : ℕ) (ht : 0 < t) (S : Finset ℕ)
    (hid : Set.InjOn (Nat.cast : ℕ → F) S) (h0 : ∀ i ∈ S, (i : F) ≠ 0) :
    (∃ c : S → F, c ᵥ* vandermondeRows t S = Pi.single ⟨0, ht⟩ 1) ↔ t ≤ S.card := by
  constructor
  · rintro ⟨c, hc⟩
    by_contra hlt
    push Not at hlt
    let P : F[X] := killPoly S
    let k : Fin t → F := fun j => P.coeff j
    have hdeg : P.natDegree < t := lt_of_le_of_lt (killPoly_natDegree S) hlt
    have hker : vandermondeRows t S *ᵥ k = 0 := by
      ext i
      simp only [mulVec, dotProduct, vandermondeRows, Pi.zero_apply, k]
      rw [eval_eq_fin_sum P t hdeg, killPoly_eval_node S h0 i i.2]
    have h1 : (c ᵥ* vandermondeRows t S) ⬝ᵥ k = 1 := by
      rw [hc, single_one_dotProduct]
      simp only [k]
      rw [coeff_zero_eq_eval_zero, killPoly_eval_zero]
    rw [← dotProduct_mulVec, hker, dotProduct_zero] at h1
    exact zero_ne_one h1
  · intro hle
    obtain ⟨T, hTS, hTc⟩ := Finset.exists_subset_card_eq hle
    have hidT : Set.InjOn (Nat.cast : ℕ → F) T := hid.mono fun x hx => hTS hx
    refine ⟨fun i => if (i : ℕ) ∈ T then (Lagrange.basis T (Nat.cast : ℕ → F) i).eval 0 else 0, ?_⟩
    ext j
    simp only [vecMul, dotProduct, vandermondeRows]
    rw [Finset.sum_coe_sort S (fun i => (if i ∈ T then (Lagrange.basis T (Nat.cast : ℕ → F) i).eval 0 else 0) * (i : F) ^ (j : ℕ))]
    simp only [ite_mul, zero_mul]
    rw [← Finset.sum_filter, Finset.filter_mem_eq_inter, Finset.inter_eq_right.mpr hTS]
    have := lagrange_zero_sum T hidT (X ^ (j : ℕ)) (by
      rw [degree_X_pow, hTc]; exact_mod_cast j.2)
    simp only [eval_pow, eval_X] at this
    rw [this]
    rcases j with ⟨j, hj⟩
    cases j with
    | zero => simp
    | succ n => simp [Fin.ext_iff]


end BronVerif.Lemmas.SharingPoly
