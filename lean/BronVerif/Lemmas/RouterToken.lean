import BronVerif.Lemmas.RouterFrame
/-! The wake-up token invariant and progress of a parked waiter (core-only). -/
namespace BronVerif.Router
set_option linter.unusedSectionVars false

variable {C P : Type} [DecidableEq C] [DecidableEq P]

/-- a waiter blocked in `select` without a pending token has seen everything: its box is neither
poisoned nor complete -/
def TokInv (s : State C P) : Prop :=
  ∀ cid w, s.waiter cid = some w → w.phase = .parked → w.token = false →
    s.poison cid = none ∧ isComplete s cid w.exp = false

theorem isComplete_congr {s s' : State C P} {cid : C} (exp : List Nat)
    (h : ∀ id, get s' cid id = get s cid id) : isComplete s' cid exp = isComplete s cid exp := by
  simp [isComplete, h]

theorem tok_of_same {s s' : State C P} (hw : s'.waiter = s.waiter) (hp : s'.poison = s.poison)
    (he : s'.entries = s.entries) (h : TokInv s) : TokInv s' := by
  intro cid w hcw hph htk
  rw [hw] at hcw
  have := h cid w hcw hph htk
  rw [hp]
  refine ⟨this.1, ?_⟩
  rw [← this.2]
  exact isComplete_congr _ (by intro id; simp [get, he])

/-- replacing the waiter of `c` by one that is not parked-without-token (or removing it) -/
theorem tok_upd {s s' : State C P} (c : C) (v : Option Waiter)
    (hw : s'.waiter = upd s.waiter c v) (hp : s'.poison = s.poison)
    (he : ∀ cid id, cid ≠ c → get s' cid id = get s cid id)
    (hv : ∀ w, v = some w → w.phase = .parked → w.token = false →
      s'.poison c = none ∧ isComplete s' c w.exp = false)
    (h : TokInv s) : TokInv s' := by
  intro cid w hcw hph htk
  rw [hw, upd_apply] at hcw
  split at hcw
  · rename_i hc; subst hc; exact hv w hcw hph htk
  · rename_i hc
    have := h cid w hcw hph htk
    rw [hp]
    refine ⟨this.1, ?_⟩
    rw [← this.2]
    exact isComplete_congr _ (he cid · hc)

theorem tok_signal {s : State C P} (c : C)
    (h : ∀ cid w, cid ≠ c → s.waiter cid = some w → w.phase = .parked → w.token = false →
      s.poison cid = none ∧ isComplete s cid w.exp = false) : TokInv (signal s c) := by
  unfold signal
  split
  · rename_i w0 hw0
    intro cid w hcw hph htk
    simp only [upd_apply] at hcw
    split at hcw
    · cases hcw; simp at htk
    · rename_i hc
      have := h cid w hc hcw hph htk
      exact ⟨this.1, by rw [← this.2]; exact isComplete_congr _ (by intro id; rfl)⟩
  · rename_i hw0
    intro cid w hcw hph htk
    by_cases hc : cid = c
    · subst hc; rw [hw0] at hcw; cases hcw
    · exact h cid w hc hcw hph htk

theorem get_cons_ne {s : State C P} {c cid : C} {sender id : Nat} {p : P} (hc : cid ≠ c) (b : Nat) :
    get ({ s with entries := ((c, sender), p) :: s.entries, buffered := b } : State C P) cid id = get s cid id := by
  simp only [get, lookupE]
  rw [if_neg]
  intro e; cases e; exact hc rfl

theorem tok_step (cfg : Config) {s : State C P} (st : Step C P) (h : TokInv s) : TokInv (step cfg s st) := by
  cases st with
  | deliver sender c p =>
    simp only [step, deposit]
    split
    · exact h
    split
    · split
      · split
        · exact h
        · apply tok_signal
          intro cid w hc hcw hph htk
          have := h cid w hcw hph htk
          refine ⟨by simp only [upd_apply]; rw [if_neg hc]; exact this.1, ?_⟩
          rw [← this.2]; exact isComplete_congr _ (by intro id; rfl)
      · split
        · exact tok_of_same (by simp [(failWith_fields s .full).2.2.2.2.2]) (by simp [(failWith_fields s .full).2.1])
            (by simp [(failWith_fields s .full).1]) h
        · apply tok_signal
          intro cid w hc hcw hph htk
          have := h cid w hcw hph htk
          refine ⟨this.1, ?_⟩
          rw [← this.2]; exact isComplete_congr _ (fun id => get_cons_ne hc _)
    · exact h
  | garbage sender =>
    simp only [step, garbageStep]
    split
    · exact h
    · split
      · exact tok_of_same (by simp [(failWith_fields s .decode).2.2.2.2.2]) (by simp [(failWith_fields s .decode).2.1])
          (by simp [(failWith_fields s .decode).1]) h
      · exact h
  | transportErr =>
    simp only [step, transportStep]
    split
    · exact h
    · exact tok_of_same (by simp [(failWith_fields s .transport).2.2.2.2.2]) (by simp [(failWith_fields s .transport).2.1])
        (by simp [(failWith_fields s .transport).1]) h
  | attach cid exp =>
    simp only [step, attach]
    split
    · exact tok_of_same rfl rfl rfl h
    · split
      · exact tok_of_same rfl rfl rfl h
      · exact tok_upd cid _ rfl rfl (fun _ _ _ => rfl) (by intro w hw hph; cases hw; simp at hph) h
  | scan cid =>
    simp only [step, scan]
    split
    · exact h
    · rename_i w hw
      split
      · split
        · exact tok_upd cid _ rfl rfl (fun _ _ _ => rfl) (by intro w' hw' hph; cases hw'; simp at hph) h
        · rename_i hpo
          split
          · refine tok_upd (s := s) cid _ rfl rfl ?_ (by intro w' hw' hph; cases hw'; simp at hph) h
            intro c' id hc
            simp only [finish, get]
            exact lookupE_removeAll_of_not (by intro i _ e; cases e; exact hc rfl)
          · rename_i hc
            split
            · exact tok_upd cid _ rfl rfl (fun _ _ _ => rfl) (by intro w' hw' hph; cases hw'; simp at hph) h
            · split
              · exact tok_upd cid _ rfl rfl (fun _ _ _ => rfl) (by intro w' hw' hph; cases hw'; simp at hph) h
              · refine tok_upd cid _ rfl rfl (fun _ _ _ => rfl) ?_ h
                intro w' hw' _ _
                cases hw'
                refine ⟨hpo, ?_⟩
                simp only [Bool.not_eq_true] at hc
                rw [← hc]; exact isComplete_congr _ (by intro id; rfl)
      · exact h
  | wakeToken cid =>
    simp only [step, wake]
    split
    · exact h
    · split
      · exact tok_upd cid _ rfl rfl (fun _ _ _ => rfl) (by intro w' hw' hph; cases hw'; simp at hph) h
      · exact h
  | wakeCtx cid =>
    simp only [step, wake]
    split
    · exact h
    · split
      · exact tok_upd cid _ rfl rfl (fun _ _ _ => rfl) (by intro w' hw' hph; cases hw'; simp at hph) h
      · exact h
  | wakeFailed cid =>
    simp only [step, wake]
    split
    · exact h
    · split
      · exact tok_upd cid _ rfl rfl (fun _ _ _ => rfl) (by intro w' hw' hph; cases hw'; simp at hph) h
      · exact h
  | detach cid =>
    simp only [step, detach]
    split
    · exact h
    · split
      · exact tok_upd cid none rfl rfl (fun _ _ _ => rfl) (by intro w' hw'; cases hw') h
      · exact h
  | cancel cid =>
    simp only [step, cancelStep]
    split
    · exact h
    · rename_i w hw
      refine tok_upd cid _ rfl rfl (fun _ _ _ => rfl) ?_ h
      intro w' hw' hph htk
      cases hw'
      have := h cid w hw hph htk
      exact ⟨this.1, by rw [← this.2]; exact isComplete_congr _ (by intro id; rfl)⟩
  | close =>
    simp only [step]
    exact tok_of_same (failWith_fields s .closed).2.2.2.2.2 (failWith_fields s .closed).2.1
      (failWith_fields s .closed).1 h

theorem tok_run (cfg : Config) (tr : List (Step C P)) : TokInv (run cfg tr (init : State C P)) := by
  apply run_induction cfg (fun _ s => TokInv s)
  · intro cid w h; simp [init] at h
  · intro tr s st h; exact tok_step cfg st h

end BronVerif.Router
