import Mathlib.Tactic.Ring
import Mathlib.Tactic.FieldSimp
import Mathlib.Tactic.LinearCombination
import Mathlib.Algebra.Field.Basic
import BronVerif.Model.Curve
import BronVerif.Gen.Weierstrass
/-!
# Algebra of the GENERATED Renes–Costello–Batina formulas (`Gen/Weierstrass.lean`)

Everything here is about `BronVerif.Gen.Weierstrass.{add,double,…}`, the definitions the translator
regenerates from `impl/points/weierstrass.go` on every run.  The polynomial certificates handed to
`linear_combination` were computed offline (sympy) and are checked by the kernel.
-/
namespace BronVerif.Lemmas.Weierstrass
open BronVerif.Gen.Weierstrass

variable {F : Type} [Field F]

/-- closed form of the three output coordinates (Renes–Costello–Batina 2015, Algorithm 1) -/
def X3 (a b3 x1 y1 z1 x2 y2 z2 : F) : F :=
  (x1 * y2 + x2 * y1) * (y1 * y2 - a * (x1 * z2 + x2 * z1) - b3 * z1 * z2)
    - (y1 * z2 + y2 * z1) * (a * x1 * x2 + b3 * (x1 * z2 + x2 * z1) - a ^ 2 * z1 * z2)
def Y3 (a b3 x1 y1 z1 x2 y2 z2 : F) : F :=
  (y1 * y2 + a * (x1 * z2 + x2 * z1) + b3 * z1 * z2) * (y1 * y2 - a * (x1 * z2 + x2 * z1) - b3 * z1 * z2)
    + (3 * x1 * x2 + a * z1 * z2) * (a * x1 * x2 + b3 * (x1 * z2 + x2 * z1) - a ^ 2 * z1 * z2)
def Z3 (a b3 x1 y1 z1 x2 y2 z2 : F) : F :=
  (y1 * z2 + y2 * z1) * (y1 * y2 + a * (x1 * z2 + x2 * z1) + b3 * z1 * z2)
    + (x1 * y2 + x2 * y1) * (3 * x1 * x2 + a * z1 * z2)

/-- the generated straight-line program computes the RCB closed form -/
theorem add_closed (a b3 x1 y1 z1 x2 y2 z2 : F) :
    add a b3 x1 y1 z1 x2 y2 z2 =
      (X3 a b3 x1 y1 z1 x2 y2 z2, Y3 a b3 x1 y1 z1 x2 y2 z2, Z3 a b3 x1 y1 z1 x2 y2 z2) := by
  simp only [add, X3, Y3, Z3, Prod.mk.injEq]
  refine ⟨?_, ?_, ?_⟩ <;> ring

/-- the outputs are bihomogeneous of bidegree (2,2): rescaling the representatives rescales the result -/
theorem add_homogeneous (a b3 l m x1 y1 z1 x2 y2 z2 : F) :
    add a b3 (l * x1) (l * y1) (l * z1) (m * x2) (m * y2) (m * z2) =
      ((l * m) ^ 2 * X3 a b3 x1 y1 z1 x2 y2 z2, (l * m) ^ 2 * Y3 a b3 x1 y1 z1 x2 y2 z2,
       (l * m) ^ 2 * Z3 a b3 x1 y1 z1 x2 y2 z2) := by
  simp only [add, X3, Y3, Z3, Prod.mk.injEq]
  refine ⟨?_, ?_, ?_⟩ <;> ring

section affine
variable {a b x1 y1 x2 y2 : F}

/-! ### chord case, normalised representatives (Z = 1) -/

theorem chord_x (h1 : y1 ^ 2 = x1 ^ 3 + a * x1 + b) (h2 : y2 ^ 2 = x2 ^ 3 + a * x2 + b) :
    X3 a (3 * b) x1 y1 1 x2 y2 1 * (x2 - x1) ^ 2 =
      ((y2 - y1) ^ 2 - (x1 + x2) * (x2 - x1) ^ 2) * Z3 a (3 * b) x1 y1 1 x2 y2 1 := by
  simp only [X3, Z3]
  linear_combination (-a*x1*y1 - a*x1*y2 + a*x2*y1 + a*x2*y2 - 3*x1^2*x2*y2 - 3*x1*x2^2*y1 + 3*x1*x2^2*y2 + 3*x2^3*y1 - y1^2*y2 - 2*y1*y2^2 + 3*y2^3) * h1 + (a*x1*y1 - a*x2*y1 + 3*x1^2*x2*y1 - 3*x1*x2^2*y1 + 3*y1^3 - y1*y2^2 + y2*(a*x1 - a*x2 + 3*x1^3 - 3*x1^2*x2 - 2*y1^2)) * h2

theorem chord_y (h1 : y1 ^ 2 = x1 ^ 3 + a * x1 + b) (h2 : y2 ^ 2 = x2 ^ 3 + a * x2 + b) :
    Y3 a (3 * b) x1 y1 1 x2 y2 1 * (x2 - x1) ^ 3 =
      ((y2 - y1) * (x1 * (x2 - x1) ^ 2 - ((y2 - y1) ^ 2 - (x1 + x2) * (x2 - x1) ^ 2)) - y1 * (x2 - x1) ^ 3)
        * Z3 a (3 * b) x1 y1 1 x2 y2 1 := by
  simp only [Y3, Z3]
  linear_combination (-a^2*x1^2 + 2*a^2*x1*x2 - a^2*x2^2 - 9*a*x1^3*x2 + 21*a*x1^2*x2^2 - 15*a*x1*x2^3 - a*x1*y1^2 + a*x1*y2^2 + 3*a*x2^4 + a*x2*y1^2 - a*x2*y2^2 - 9*b*x1^3 + 27*b*x1^2*x2 - 27*b*x1*x2^2 + 9*b*x2^3 - 9*x1^3*x2^3 + 9*x1^3*y2^2 + 18*x1^2*x2^4 - 3*x1^2*x2*y1*y2 - 12*x1^2*x2*y2^2 - 9*x1*x2^5 - 3*x1*x2^2*y1^2 + 6*x1*x2^2*y1*y2 + 3*x2^3*y1^2 - 3*x2^3*y1*y2 + 3*x2^3*y2^2 - y1^3*y2 - y1^2*y2^2 + 5*y1*y2^3 - 3*y2^4) * h1 + (a^2*x1^2 - 2*a^2*x1*x2 + a^2*x2^2 + 6*a*x1^4 - 12*a*x1^3*x2 + 6*a*x1^2*x2^2 + a*x1*y1^2 - a*x2*y1^2 + 9*x1^6 - 18*x1^5*x2 + 9*x1^4*x2^2 - 12*x1^3*y1^2 + 27*x1^2*x2*y1^2 - 15*x1*x2^2*y1^2 + 3*y1^4 + y1*y2^3 + y2^2*(-a*x1 + a*x2 - 3*x1^3 + 3*x1^2*x2 + y1^2) + y2*(3*x1^3*y1 - 6*x1^2*x2*y1 + 3*x1*x2^2*y1 - 5*y1^3)) * h2

/-! ### tangent case -/

theorem tan_z (h1 : y1 ^ 2 = x1 ^ 3 + a * x1 + b) : Z3 a (3 * b) x1 y1 1 x1 y1 1 = 8 * y1 ^ 3 := by
  simp only [Z3]
  linear_combination (-6*y1) * h1

theorem tan_x (h1 : y1 ^ 2 = x1 ^ 3 + a * x1 + b) :
    X3 a (3 * b) x1 y1 1 x1 y1 1 * (2 * y1) ^ 2 =
      ((3 * x1 ^ 2 + a) ^ 2 - 2 * x1 * (2 * y1) ^ 2) * Z3 a (3 * b) x1 y1 1 x1 y1 1 := by
  simp only [X3, Z3]
  linear_combination (6*a^2*y1 + 36*a*x1^2*y1 + 54*x1^4*y1 + 24*x1*y1^3) * h1

theorem tan_y (h1 : y1 ^ 2 = x1 ^ 3 + a * x1 + b) :
    Y3 a (3 * b) x1 y1 1 x1 y1 1 * (2 * y1) ^ 3 =
      ((3 * x1 ^ 2 + a) * (x1 * (2 * y1) ^ 2 - ((3 * x1 ^ 2 + a) ^ 2 - 2 * x1 * (2 * y1) ^ 2)) - y1 * (2 * y1) ^ 3)
        * Z3 a (3 * b) x1 y1 1 x1 y1 1 := by
  simp only [Y3, Z3]
  linear_combination (-6*a^3*y1 - 54*a^2*x1^2*y1 - 162*a*x1^4*y1 + 48*a*x1*y1^3 + 72*b*y1^3 - 162*x1^6*y1 + 24*y1^5) * h1

set_option linter.all false in
/-- the output of the addition formulas satisfies the homogeneous curve equation -/
theorem on_curve (h1 : y1 ^ 2 = x1 ^ 3 + a * x1 + b) (h2 : y2 ^ 2 = x2 ^ 3 + a * x2 + b) :
    Y3 a (3 * b) x1 y1 1 x2 y2 1 ^ 2 * Z3 a (3 * b) x1 y1 1 x2 y2 1 =
      X3 a (3 * b) x1 y1 1 x2 y2 1 ^ 3 + a * X3 a (3 * b) x1 y1 1 x2 y2 1 * Z3 a (3 * b) x1 y1 1 x2 y2 1 ^ 2
        + b * Z3 a (3 * b) x1 y1 1 x2 y2 1 ^ 3 := by
  simp only [X3, Y3, Z3]
  linear_combination (-a^6*y1 - 2*a^6*y2 - a^5*x1^2*y1 - 2*a^5*x1^2*y2 + 17*a^5*x1*x2*y1 - 5*a^5*x1*x2*y2 - 16*a^5*x2^2*y1 - 11*a^5*x2^2*y2 + 18*a^4*b*x1*y1 - 54*a^4*b*x2*y1 - 36*a^4*b*x2*y2 + 144*a^4*x1^3*x2*y1 + 87*a^4*x1^3*x2*y2 + 48*a^4*x1^2*x2^2*y1 - 30*a^4*x1^2*x2^2*y2 + 3*a^4*x1*x2^3*y1 - 3*a^4*x1*x2^3*y2 - 2*a^4*x1*y1^2*y2 - 29*a^4*x1*y1*y2^2 - 15*a^4*x1*y2^3 - 15*a^4*x2^4*y1 - 9*a^4*x2^4*y2 - 45*a^4*x2*y1^3 - 46*a^4*x2*y1^2*y2 - 16*a^4*x2*y1*y2^2 - 3*a^4*x2*y2^3 - 54*a^3*b^2*y1 - 54*a^3*b^2*y2 + 144*a^3*b*x1^3*y1 + 90*a^3*b*x1^3*y2 - 72*a^3*b*x1^2*x2*y1 - 108*a^3*b*x1^2*x2*y2 - 108*a^3*b*x1*x2^2*y1 - 45*a^3*b*x1*x2^2*y2 - 72*a^3*b*x2^3*y1 - 45*a^3*b*x2^3*y2 - 45*a^3*b*y1^3 - 45*a^3*b*y1^2*y2 + 9*a^3*b*y1*y2^2 + 9*a^3*b*y2^3 + 378*a^3*x1^5*x2*y1 + 270*a^3*x1^5*x2*y2 + 297*a^3*x1^4*x2^2*y1 + 108*a^3*x1^4*x2^2*y2 + 360*a^3*x1^3*x2^3*y1 + 216*a^3*x1^3*x2^3*y2 - 144*a^3*x1^3*y1*y2^2 - 91*a^3*x1^3*y2^3 + 135*a^3*x1^2*x2^4*y1 + 36*a^3*x1^2*x2^4*y2 - 333*a^3*x1^2*x2*y1^3 - 162*a^3*x1^2*x2*y1^2*y2 - 30*a^3*x1^2*x2*y1*y2^2 + 18*a^3*x1*x2^5*y1 + 18*a^3*x1*x2^5*y2 + 54*a^3*x1*x2^2*y1^3 + 84*a^3*x1*x2^2*y1^2*y2 + 18*a^3*x1*x2^2*y1*y2^2 - 6*a^3*x1*x2^2*y2^3 - 63*a^3*x2^3*y1^3 - 39*a^3*x2^3*y1^2*y2 - 6*a^3*x2^3*y1*y2^2 - 2*a^3*x2^3*y2^3 + 44*a^3*y1^3*y2^2 + 34*a^3*y1^2*y2^3 + 6*a^3*y1*y2^4 - 135*a^2*b^2*x1^2*y1 - 108*a^2*b^2*x1^2*y2 - 108*a^2*b^2*x1*x2*y1 - 189*a^2*b^2*x1*x2*y2 - 189*a^2*b^2*x2^2*y1 - 135*a^2*b^2*x2^2*y2 + 378*a^2*b*x1^5*y1 + 270*a^2*b*x1^5*y2 + 54*a^2*b*x1^4*x2*y1 - 54*a^2*b*x1^4*x2*y2 + 135*a^2*b*x1^3*x2^2*y1 + 243*a^2*b*x1^3*x2^2*y2 + 108*a^2*b*x1^2*x2^3*y1 + 189*a^2*b*x1^2*x2^3*y2 - 333*a^2*b*x1^2*y1^3 - 162*a^2*b*x1^2*y1^2*y2 + 153*a^2*b*x1^2*y1*y2^2 + 90*a^2*b*x1^2*y2^3 + 81*a^2*b*x1*x2^4*y1 + 108*a^2*b*x1*x2^4*y2 + 270*a^2*b*x1*x2*y1^3 + 216*a^2*b*x1*x2*y1^2*y2 + 162*a^2*b*x1*x2*y1*y2^2 + 54*a^2*b*x1*x2*y2^3 - 126*a^2*b*x2^2*y1^3 - 36*a^2*b*x2^2*y1^2*y2 + 54*a^2*b*x2^2*y1*y2^2 + 18*a^2*b*x2^2*y2^3 + 486*a^2*x1^7*x2*y1 + 405*a^2*x1^7*x2*y2 + 567*a^2*x1^6*x2^2*y1 + 162*a^2*x1^6*x2^2*y2 + 702*a^2*x1^5*x2^3*y1 + 432*a^2*x1^5*x2^3*y2 - 378*a^2*x1^5*y1*y2^2 - 270*a^2*x1^5*y2^3 + 378*a^2*x1^4*x2^4*y1 + 108*a^2*x1^4*x2^4*y2 - 891*a^2*x1^4*x2*y1^3 - 621*a^2*x1^4*x2*y1^2*y2 - 270*a^2*x1^4*x2*y1*y2^2 - 108*a^2*x1^4*x2*y2^3 + 216*a^2*x1^3*x2^5*y1 + 81*a^2*x1^3*x2^5*y2 - 324*a^2*x1^3*x2^2*y1^3 + 216*a^2*x1^3*x2^2*y1^2*y2 - 162*a^2*x1^3*x2^2*y1*y2^2 - 117*a^2*x1^3*x2^2*y2^3 + 54*a^2*x1^2*x2^6*y1 - 333*a^2*x1^2*x2^3*y1^3 - 243*a^2*x1^2*x2^3*y1^2*y2 - 90*a^2*x1^2*x2^3*y1*y2^2 - 18*a^2*x1^2*x2^3*y2^3 + 333*a^2*x1^2*y1^3*y2^2 + 162*a^2*x1^2*y1^2*y2^3 - 24*a^2*x1^2*y1*y2^4 + 54*a^2*x1*x2^4*y1^3 + 54*a^2*x1*x2^4*y1^2*y2 + 432*a^2*x1*x2*y1^5 + 324*a^2*x1*x2*y1^4*y2 + 18*a^2*x1*x2*y1^3*y2^2 - 87*a^2*x1*x2*y1^2*y2^3 - 36*a^2*x1*x2*y1*y2^4 - 18*a^2*x2^5*y1^3 - 9*a^2*x2^5*y1^2*y2 - 108*a^2*x2^2*y1^5 - 72*a^2*x2^2*y1^4*y2 - 3*a^2*x2^2*y1^2*y2^3 - 3*a^2*x2^2*y1*y2^4 - 81*a*b^3*x1*y2 - 324*a*b^3*x2*y1 - 243*a*b^3*x2*y2 - 243*a*b^2*x1^4*y1 - 162*a*b^2*x1^4*y2 + 162*a*b^2*x1^3*x2*y1 + 324*a*b^2*x1^3*x2*y2 + 567*a*b^2*x1^2*x2^2*y1 + 324*a*b^2*x1^2*x2^2*y2 + 324*a*b^2*x1*x2^3*y1 + 324*a*b^2*x1*x2^3*y2 + 216*a*b^2*x1*y1^3 + 108*a*b^2*x1*y1^2*y2 - 54*a*b^2*x1*y1*y2^2 - 27*a*b^2*x1*y2^3 - 324*a*b^2*x2*y1^3 - 297*a*b^2*x2*y1^2*y2 - 54*a*b^2*x2*y1*y2^2 + 486*a*b*x1^7*y1 + 405*a*b*x1^7*y2 + 324*a*b*x1^6*x2*y1 - 81*a*b*x1^6*x2*y2 - 162*a*b*x1^5*x2^2*y1 - 81*a*b*x1^5*x2^2*y2 - 648*a*b*x1^4*x2^3*y1 - 405*a*b*x1^4*x2^3*y2 - 891*a*b*x1^4*y1^3 - 621*a*b*x1^4*y1^2*y2 + 270*a*b*x1^4*y1*y2^2 + 162*a*b*x1^4*y2^3 - 324*a*b*x1^3*x2^4*y1 - 81*a*b*x1^3*x2^4*y2 + 108*a*b*x1^3*x2*y1^3 + 540*a*b*x1^3*x2*y1^2*y2 + 54*a*b*x1^3*x2*y1*y2^2 - 81*a*b*x1^3*x2*y2^3 - 81*a*b*x1^2*x2^5*y2 + 324*a*b*x1^2*x2^2*y1^3 - 324*a*b*x1^2*x2^2*y1^2*y2 - 324*a*b*x1^2*x2^2*y1*y2^2 - 81*a*b*x1^2*x2^2*y2^3 + 216*a*b*x1*x2^3*y1^3 - 162*a*b*x1*x2^3*y1*y2^2 - 27*a*b*x1*x2^3*y2^3 + 432*a*b*x1*y1^5 + 324*a*b*x1*y1^4*y2 - 144*a*b*x1*y1^3*y2^2 - 117*a*b*x1*y1^2*y2^3 - 18*a*b*x1*y1*y2^4 - 108*a*b*x2^4*y1^3 - 108*a*b*x2^4*y1^2*y2 - 27*a*b*x2^4*y1*y2^2 - 324*a*b*x2*y1^5 - 288*a*b*x2*y1^4*y2 + 18*a*b*x2*y1^3*y2^2 + 45*a*b*x2*y1^2*y2^3 + 243*a*x1^9*x2*y1 + 243*a*x1^9*x2*y2 + 486*a*x1^8*x2^2*y1 + 243*a*x1^8*x2^2*y2 + 972*a*x1^7*x2^3*y1 + 648*a*x1^7*x2^3*y2 - 486*a*x1^7*y1*y2^2 - 405*a*x1^7*y2^3 + 810*a*x1^6*x2^4*y1 + 162*a*x1^6*x2^4*y2 - 675*a*x1^6*x2*y1^3 - 567*a*x1^6*x2*y1^2*y2 - 486*a*x1^6*x2*y1*y2^2 - 162*a*x1^6*x2*y2^3 + 324*a*x1^5*x2^5*y1 + 162*a*x1^5*x2^5*y2 - 810*a*x1^5*x2^2*y1^3 - 162*a*x1^5*x2^2*y1*y2^2 - 162*a*x1^5*x2^2*y2^3 + 81*a*x1^4*x2^6*y1 - 1377*a*x1^4*x2^3*y1^3 - 783*a*x1^4*x2^3*y1^2*y2 - 54*a*x1^4*x2^3*y1*y2^2 + 891*a*x1^4*y1^3*y2^2 + 621*a*x1^4*y1^2*y2^3 - 27*a*x1^4*y1*y2^4 - 540*a*x1^3*x2^4*y1^3 + 216*a*x1^3*x2^4*y1^2*y2 + 54*a*x1^3*x2^4*y1*y2^2 + 648*a*x1^3*x2*y1^5 + 540*a*x1^3*x2*y1^4*y2 + 324*a*x1^3*x2*y1^3*y2^2 - 189*a*x1^3*x2*y1^2*y2^3 - 54*a*x1^3*x2*y1*y2^4 - 81*a*x1^2*x2^5*y1^2*y2 + 324*a*x1^2*x2^2*y1^5 - 216*a*x1^2*x2^2*y1^4*y2 - 108*a*x1^2*x2^2*y1^3*y2^2 + 81*a*x1^2*x2^2*y1^2*y2^3 + 9*a*x1^2*x2^2*y1*y2^4 + 432*a*x1*x2^3*y1^5 + 324*a*x1*x2^3*y1^4*y2 + 72*a*x1*x2^3*y1^3*y2^2 + 9*a*x1*x2^3*y1^2*y2^3 - 432*a*x1*y1^5*y2^2 - 324*a*x1*y1^4*y2^3 - 72*a*x1*y1^3*y2^4 - 3*a*x1*y1^2*y2^5 - 108*a*x2^4*y1^5 - 72*a*x2^4*y1^4*y2 - 9*a*x2^4*y1^3*y2^2 - 216*a*x2*y1^7 - 216*a*x2*y1^6*y2 + 36*a*x2*y1^5*y2^2 + 63*a*x2*y1^4*y2^3 + 12*a*x2*y1^3*y2^4 - 243*b^4*y1 - 243*b^4*y2 + 243*b^3*x1^3*y1 + 243*b^3*x1^3*y2 + 486*b^3*x1^2*x2*y1 + 243*b^3*x1^2*x2*y2 + 243*b^3*x1*x2^2*y1 + 486*b^3*x1*x2^2*y2 - 216*b^3*y1^3 - 243*b^3*y1^2*y2 + 27*b^3*y2^3 - 243*b^2*x1^6*y1 - 243*b^2*x1^6*y2 - 486*b^2*x1^5*x2*y1 - 243*b^2*x1^5*x2*y2 - 486*b^2*x1^4*x2^2*y1 - 243*b^2*x1^4*x2^2*y2 + 432*b^2*x1^3*y1^3 + 324*b^2*x1^3*y1^2*y2 - 324*b^2*x1^3*y1*y2^2 - 243*b^2*x1^3*y2^3 + 243*b^2*x1^2*x2^4*y1 - 243*b^2*x1^2*x2^4*y2 + 324*b^2*x1^2*x2*y1^3 - 243*b^2*x1^2*x2*y1^2*y2 - 648*b^2*x1^2*x2*y1*y2^2 - 243*b^2*x1^2*x2*y2^3 - 162*b^2*x1*x2^2*y1^2*y2 - 486*b^2*x1*x2^2*y1*y2^2 - 162*b^2*x1*x2^2*y2^3 - 216*b^2*x2^3*y1^3 - 324*b^2*x2^3*y1^2*y2 - 162*b^2*x2^3*y1*y2^2 - 27*b^2*x2^3*y2^3 - 216*b^2*y1^5 - 216*b^2*y1^4*y2 + 135*b^2*y1^3*y2^2 + 162*b^2*y1^2*y2^3 + 27*b^2*y1*y2^4 + 243*b*x1^9*y1 + 243*b*x1^9*y2 + 486*b*x1^8*x2*y1 + 243*b*x1^8*x2*y2 + 486*b*x1^7*x2^2*y1 + 243*b*x1^7*x2^2*y2 - 243*b*x1^6*x2^3*y2 - 675*b*x1^6*y1^3 - 567*b*x1^6*y1^2*y2 + 324*b*x1^6*y1*y2^2 + 243*b*x1^6*y2^3 - 486*b*x1^5*x2^4*y1 - 243*b*x1^5*x2^4*y2 - 810*b*x1^5*x2*y1^3 + 648*b*x1^5*x2*y1*y2^2 + 243*b*x1^5*x2*y2^3 - 486*b*x1^4*x2^5*y1 - 243*b*x1^4*x2^5*y2 - 486*b*x1^4*x2^2*y1^3 - 162*b*x1^4*x2^2*y1^2*y2 + 486*b*x1^4*x2^2*y1*y2^2 + 243*b*x1^4*x2^2*y2^3 - 243*b*x1^3*x2^6*y1 + 216*b*x1^3*x2^3*y1^3 + 324*b*x1^3*x2^3*y1^2*y2 + 162*b*x1^3*x2^3*y1*y2^2 + 27*b*x1^3*x2^3*y2^3 + 648*b*x1^3*y1^5 + 540*b*x1^3*y1^4*y2 - 432*b*x1^3*y1^3*y2^2 - 297*b*x1^3*y1^2*y2^3 + 81*b*x1^3*y1*y2^4 + 324*b*x1^2*x2^4*y1^3 - 243*b*x1^2*x2^4*y1^2*y2 - 81*b*x1^2*x2^4*y1*y2^2 + 324*b*x1^2*x2*y1^5 - 216*b*x1^2*x2*y1^4*y2 - 432*b*x1^2*x2*y1^3*y2^2 + 243*b*x1^2*x2*y1^2*y2^3 + 162*b*x1^2*x2*y1*y2^4 + 54*b*x1*x2^2*y1^2*y2^3 + 27*b*x1*x2^2*y1*y2^4 - 216*b*x2^3*y1^5 - 216*b*x2^3*y1^4*y2 - 54*b*x2^3*y1^3*y2^2 - 216*b*y1^7 - 216*b*y1^6*y2 + 144*b*y1^5*y2^2 + 207*b*y1^4*y2^3 + 72*b*y1^3*y2^4 + 9*b*y1^2*y2^5 + 243*x1^9*x2^3*y1 + 243*x1^9*x2^3*y2 - 243*x1^9*y1*y2^2 - 243*x1^9*y2^3 + 486*x1^8*x2^4*y1 + 243*x1^8*x2^4*y2 - 486*x1^8*x2*y1*y2^2 - 243*x1^8*x2*y2^3 + 486*x1^7*x2^5*y1 + 243*x1^7*x2^5*y2 - 486*x1^7*x2^2*y1*y2^2 - 243*x1^7*x2^2*y2^3 + 243*x1^6*x2^6*y1 - 675*x1^6*x2^3*y1^3 - 567*x1^6*x2^3*y1^2*y2 - 162*x1^6*x2^3*y1*y2^2 + 675*x1^6*y1^3*y2^2 + 567*x1^6*y1^2*y2^3 - 81*x1^6*y1*y2^4 - 810*x1^5*x2^4*y1^3 + 162*x1^5*x2^4*y1*y2^2 + 810*x1^5*x2*y1^3*y2^2 - 162*x1^5*x2*y1*y2^4 - 486*x1^4*x2^5*y1^3 - 162*x1^4*x2^5*y1^2*y2 + 486*x1^4*x2^2*y1^3*y2^2 + 162*x1^4*x2^2*y1^2*y2^3 - 216*x1^3*x2^6*y1^3 + 648*x1^3*x2^3*y1^5 + 540*x1^3*x2^3*y1^4*y2 + 216*x1^3*x2^3*y1^3*y2^2 + 27*x1^3*x2^3*y1^2*y2^3 - 648*x1^3*y1^5*y2^2 - 540*x1^3*y1^4*y2^3 - 27*x1^3*y1^2*y2^5 + 324*x1^2*x2^4*y1^5 - 216*x1^2*x2^4*y1^4*y2 - 108*x1^2*x2^4*y1^3*y2^2 - 324*x1^2*x2*y1^5*y2^2 + 216*x1^2*x2*y1^4*y2^3 + 108*x1^2*x2*y1^3*y2^4 - 216*x2^3*y1^7 - 216*x2^3*y1^6*y2 - 72*x2^3*y1^5*y2^2 - 9*x2^3*y1^4*y2^3 + 216*y1^7*y2^2 + 216*y1^6*y2^3 + 72*y1^5*y2^4 + 9*y1^4*y2^5 + y1^3*y2^6) * h1 + (-2*a^6*y1 - 29*a^5*x1^2*y1 - 5*a^5*x1*x2*y1 - 2*a^5*x2^2*y1 - 171*a^4*x1^4*y1 - 66*a^4*x1^3*x2*y1 - 30*a^4*x1^2*x2^2*y1 - 3*a^4*x1*x2^3*y1 + 60*a^4*x1*y1^3 - 15*a^4*x2*y1^3 - 522*a^3*x1^6*y1 - 342*a^3*x1^5*x2*y1 - 180*a^3*x1^4*x2^2*y1 - 36*a^3*x1^3*x2^3*y1 + 520*a^3*x1^3*y1^3 + 3*a^3*x1^2*x2*y1^3 + 18*a^3*x1*x2^2*y1^3 - a^3*x2^3*y1^3 - 45*a^3*y1^5 - 864*a^2*x1^8*y1 - 864*a^2*x1^7*x2*y1 - 540*a^2*x1^6*x2^2*y1 - 162*a^2*x1^5*x2^3*y1 + 1602*a^2*x1^5*y1^3 + 567*a^2*x1^4*x2*y1^3 + 216*a^2*x1^3*x2^2*y1^3 + 45*a^2*x1^2*x2^3*y1^3 - 765*a^2*x1^2*y1^5 + 162*a^2*x1*x2*y1^5 - 18*a^2*x2^2*y1^5 - 729*a*x1^10*y1 - 1053*a*x1^9*x2*y1 - 810*a*x1^8*x2^2*y1 - 324*a*x1^7*x2^3*y1 + 2052*a*x1^7*y1^3 + 1701*a*x1^6*x2*y1^3 + 810*a*x1^5*x2^2*y1^3 + 297*a*x1^4*x2^3*y1^3 - 1971*a*x1^4*y1^5 - 540*a*x1^3*x2*y1^5 + 648*a*x1*y1^7 - 108*a*x2*y1^7 - 243*x1^12*y1 - 486*x1^11*x2*y1 - 486*x1^10*x2^2*y1 - 243*x1^9*x2^3*y1 + 918*x1^9*y1^3 + 1296*x1^8*x2*y1^3 + 972*x1^7*x2^2*y1^3 + 459*x1^6*x2^3*y1^3 - 1323*x1^6*y1^5 - 1134*x1^5*x2*y1^5 - 486*x1^4*x2^2*y1^5 - 216*x1^3*x2^3*y1^5 + 864*x1^3*y1^7 + 324*x1^2*x2*y1^7 - 216*y1^9 + y2^3*(-a^3*y1^2 - 9*a^2*x1^2*y1^2 - 27*a*x1^4*y1^2 + 12*a*x1*y1^4 - 27*x1^6*y1^2 + 36*x1^3*y1^4 - 8*y1^6) + y2^2*(-a^4*x1*y1 - 2*a^4*x2*y1 - 12*a^3*x1^3*y1 - 24*a^3*x1^2*x2*y1 - 11*a^3*y1^3 - 54*a^2*x1^5*y1 - 108*a^2*x1^4*x2*y1 - 57*a^2*x1^2*y1^3 + 30*a^2*x1*x2*y1^3 - 108*a*x1^7*y1 - 216*a*x1^6*x2*y1 - 45*a*x1^4*y1^3 + 180*a*x1^3*x2*y1^3 + 144*a*x1*y1^5 - 12*a*x2*y1^5 - 81*x1^9*y1 - 162*x1^8*x2*y1 + 81*x1^6*y1^3 + 270*x1^5*x2*y1^3 + 72*x1^3*y1^5 - 108*x1^2*x2*y1^5 - 72*y1^7) + y2*(-a^6 - 16*a^5*x1^2 - a^5*x1*x2 - a^5*x2^2 - 105*a^4*x1^4 - 15*a^4*x1^3*x2 - 15*a^4*x1^2*x2^2 + 29*a^4*x1*y1^2 - 11*a^4*x2*y1^2 - 360*a^3*x1^6 - 90*a^3*x1^5*x2 - 90*a^3*x1^4*x2^2 + 291*a^3*x1^3*y1^2 - 90*a^3*x1^2*x2*y1^2 + 15*a^3*x1*x2^2*y1^2 - 39*a^3*y1^4 - 675*a^2*x1^8 - 270*a^2*x1^7*x2 - 270*a^2*x1^6*x2^2 + 1053*a^2*x1^5*y1^2 - 216*a^2*x1^4*x2*y1^2 + 135*a^2*x1^3*x2^2*y1^2 - 489*a^2*x1^2*y1^4 + 144*a^2*x1*x2*y1^4 - 6*a^2*x2^2*y1^4 - 648*a*x1^10 - 405*a*x1^9*x2 - 405*a*x1^8*x2^2 + 1593*a*x1^7*y1^2 - 54*a*x1^6*x2*y1^2 + 405*a*x1^5*x2^2*y1^2 - 1485*a*x1^4*y1^4 + 504*a*x1^3*x2*y1^4 - 72*a*x1^2*x2^2*y1^4 + 540*a*x1*y1^6 - 72*a*x2*y1^6 - 243*x1^12 - 243*x1^11*x2 - 243*x1^10*x2^2 + 810*x1^9*y1^2 + 243*x1^8*x2*y1^2 + 405*x1^7*x2^2*y1^2 - 1107*x1^6*y1^4 + 216*x1^5*x2*y1^4 - 162*x1^4*x2^2*y1^4 + 756*x1^3*y1^6 - 216*x1^2*x2*y1^6 - 216*y1^8)) * h2

/-! ### completeness (Renes–Costello–Batina, Bosma–Lenstra): the exceptional pairs of the formulas are
those whose DIFFERENCE has `y = 0`.  Instead of `linear_combination` certificates the curve
coefficients are eliminated: two points with different `x` determine `a` and `b`, one point
determines `b`; what remains is an identity of rational functions (`field_simp; ring`). -/

theorem coeffs_of_points (h1 : y1 ^ 2 = x1 ^ 3 + a * x1 + b) (h2 : y2 ^ 2 = x2 ^ 3 + a * x2 + b) (hx : x1 ≠ x2) :
    a = ((y2 ^ 2 - y1 ^ 2) - (x2 ^ 3 - x1 ^ 3)) / (x2 - x1) ∧ b = y1 ^ 2 - x1 ^ 3 - a * x1 := by
  have hd : x2 - x1 ≠ 0 := sub_ne_zero.mpr (Ne.symm hx)
  refine ⟨?_, by linear_combination (-1 : F) * h1⟩
  rw [eq_div_iff hd]
  linear_combination h1 - h2

/-- `Z₃` of the complete sum `P + Q` is `(x₂−x₁)³` times the `y`-coordinate of `P − Q` -/
theorem z3_eq_y_diff (h1 : y1 ^ 2 = x1 ^ 3 + a * x1 + b) (h2 : y2 ^ 2 = x2 ^ 3 + a * x2 + b) (hx : x1 ≠ x2) :
    Z3 a (3 * b) x1 y1 1 x2 y2 1 =
      (((-y2 - y1) / (x2 - x1)) * (x1 - (((-y2 - y1) / (x2 - x1)) ^ 2 - x1 - x2)) - y1) * (x2 - x1) ^ 3 := by
  have hd : x2 - x1 ≠ 0 := sub_ne_zero.mpr (Ne.symm hx)
  obtain ⟨ha, hb⟩ := coeffs_of_points h1 h2 hx
  clear h1 h2
  subst hb
  subst ha
  simp only [Z3]
  field_simp
  ring

/-- the chord through `P` and `−Q` meets the curve in `P − Q` -/
theorem chord_closure (h1 : y1 ^ 2 = x1 ^ 3 + a * x1 + b) (h2 : y2 ^ 2 = x2 ^ 3 + a * x2 + b) (hx : x1 ≠ x2) :
    (((-y2 - y1) / (x2 - x1)) * (x1 - (((-y2 - y1) / (x2 - x1)) ^ 2 - x1 - x2)) - y1) ^ 2 =
      (((-y2 - y1) / (x2 - x1)) ^ 2 - x1 - x2) ^ 3 + a * (((-y2 - y1) / (x2 - x1)) ^ 2 - x1 - x2) + b := by
  have hd : x2 - x1 ≠ 0 := sub_ne_zero.mpr (Ne.symm hx)
  obtain ⟨ha, hb⟩ := coeffs_of_points h1 h2 hx
  clear h1 h2
  subst hb
  subst ha
  field_simp
  ring

theorem y3_neg_eq_y_double (h1 : y1 ^ 2 = x1 ^ 3 + a * x1 + b) (hy : y1 ≠ 0) (h2 : (2 : F) ≠ 0) :
    Y3 a (3 * b) x1 y1 1 x1 (-y1) 1 =
      (((3 * x1 ^ 2 + a) / (2 * y1)) * (x1 - (((3 * x1 ^ 2 + a) / (2 * y1)) ^ 2 - 2 * x1)) - y1) * (2 * y1) ^ 3 := by
  have hb : b = y1 ^ 2 - x1 ^ 3 - a * x1 := by linear_combination (-1 : F) * h1
  clear h1
  subst hb
  simp only [Y3]
  field_simp
  ring

theorem tangent_closure (h1 : y1 ^ 2 = x1 ^ 3 + a * x1 + b) (hy : y1 ≠ 0) (h2 : (2 : F) ≠ 0) :
    (((3 * x1 ^ 2 + a) / (2 * y1)) * (x1 - (((3 * x1 ^ 2 + a) / (2 * y1)) ^ 2 - 2 * x1)) - y1) ^ 2 =
      (((3 * x1 ^ 2 + a) / (2 * y1)) ^ 2 - 2 * x1) ^ 3 + a * (((3 * x1 ^ 2 + a) / (2 * y1)) ^ 2 - 2 * x1) + b := by
  have hb : b = y1 ^ 2 - x1 ^ 3 - a * x1 := by linear_combination (-1 : F) * h1
  clear h1
  subst hb
  field_simp
  ring
end affine

end BronVerif.Lemmas.Weierstrass
