import BronVerif.Lemmas.RouterFirst
/-! Mailbox objects: the key set of the Go map `boxes`, tracked by `boxesStep`, is exactly the set of
correlation IDs that hold a payload, are poisoned, or have a receive attached — no mailbox object
is leaked while the reader is alive (core-only). -/
namespace BronVerif.Router
set_option linter.unusedSectionVars false

variable {C P : Type} [DecidableEq C] [DecidableEq P]

/-- the mailbox of `cid` is in use: it holds a payload, is poisoned, or has a receive attached -/
def inUse (s : State C P) (cid : C) : Prop :=
  hasEntries s cid = true ∨ s.poison cid ≠ none ∨ s.waiter cid ≠ none

structure BoxInv (s : State C P) (b : List C) : Prop where
  nodup : b.Nodup
  /-- every mailbox in use exists -/
  live : ∀ cid, inUse s cid → cid ∈ b
  /-- while the reader is alive, every mailbox object is in use -/
  noleak : s.stopped = false → ∀ cid ∈ b, inUse s cid

theorem hasEntries_iff {s : State C P} {cid : C} :
    hasEntries s cid = true ↔ ∃ e ∈ s.entries, e.1.1 = cid := by
  simp [hasEntries, List.any_eq_true]

theorem hasEntries_of_get {s : State C P} {cid : C} {id : Nat} {p : P} (h : get s cid id = some p) :
    hasEntries s cid = true :=
  hasEntries_iff.mpr ⟨_, mem_of_lookupE h, rfl⟩

theorem hasEntries_congr {s s' : State C P} (h : s'.entries = s.entries) (cid : C) :
    hasEntries s' cid = hasEntries s cid := by simp [hasEntries, h]

theorem nodup_addBox {c : C} {b : List C} (h : b.Nodup) : (addBox c b).Nodup := by
  unfold addBox
  split
  · exact h
  · rename_i hc; exact List.nodup_cons.mpr ⟨hc, h⟩

theorem mem_addBox {c cid : C} {b : List C} : cid ∈ addBox c b ↔ cid = c ∨ cid ∈ b := by
  unfold addBox
  split
  · rename_i hc
    constructor
    · exact Or.inr
    · rintro (rfl | h)
      · exact hc
      · exact h
  · simp

theorem signal_waiter (s : State C P) (cid c : C) :
    (signal s cid).waiter c = if c = cid then (s.waiter cid).map (fun w => { w with token := true }) else s.waiter c := by
  unfold signal
  cases hw : s.waiter cid with
  | none => simp only [Option.map_none]; split <;> simp_all
  | some w => simp only [upd_apply, Option.map_some]

theorem signal_waiter_ne_none (s : State C P) (cid c : C) :
    (signal s cid).waiter c ≠ none ↔ s.waiter c ≠ none := by
  rw [signal_waiter]
  split
  · rename_i h; subst h
    cases s.waiter c <;> simp
  · rfl

theorem inUse_of {s s' : State C P} {cid : C} (hE : hasEntries s' cid = hasEntries s cid)
    (hP : s'.poison cid ≠ none ↔ s.poison cid ≠ none) (hW : s'.waiter cid ≠ none ↔ s.waiter cid ≠ none) :
    inUse s' cid ↔ inUse s cid := by
  unfold inUse
  rw [hE]
  exact or_congr Iff.rfl (or_congr hP hW)

theorem inUse_signal (X s : State C P) (c cid : C) (hE : hasEntries X cid = hasEntries s cid)
    (hP : X.poison cid ≠ none ↔ s.poison cid ≠ none) (hW : X.waiter = s.waiter) :
    inUse (signal X c) cid ↔ inUse s cid := by
  apply inUse_of
  · rw [hasEntries_congr (signal_fields X c).1]; exact hE
  · rw [(signal_fields X c).2.1]; exact hP
  · rw [signal_waiter_ne_none, hW]

theorem inUse_failed (s : State C P) (k : Fatal) (cid : C) :
    inUse ({ (failWith s k) with stopped := true } : State C P) cid ↔ inUse s cid := by
  have hf := failWith_fields s k
  apply inUse_of
  · exact hasEntries_congr (s' := { (failWith s k) with stopped := true }) hf.1 cid
  · show (failWith s k).poison cid ≠ none ↔ _; rw [hf.2.1]
  · show (failWith s k).waiter cid ≠ none ↔ _; rw [hf.2.2.2.2.2]

/-- replacing the attached waiter of `c` by another one -/
theorem inUse_rewaiter (s : State C P) (c cid : C) (w v : Waiter) (hw : s.waiter c = some w) :
    inUse ({ s with waiter := upd s.waiter c (some v) } : State C P) cid ↔ inUse s cid := by
  refine inUse_of ?_ ?_ ?_
  · rfl
  · exact Iff.rfl
  · show (upd s.waiter c (some v)) cid ≠ none ↔ _
    rw [upd_apply]
    split
    · rename_i hc; subst hc; simp [hw]
    · rfl

/-- the mailbox set is unchanged and so is what is in use -/
theorem box_same {s s' : State C P} {b : List C} (hdom : ∀ cid, inUse s' cid ↔ inUse s cid)
    (hstop : s'.stopped = false → s.stopped = false) (h : BoxInv s b) : BoxInv s' b :=
  ⟨h.nodup, fun cid hu => h.live cid ((hdom cid).mp hu),
   fun hs cid hc => (hdom cid).mpr (h.noleak (hstop hs) cid hc)⟩

/-- `boxFor c` and afterwards the mailbox of `c` is in use; the others are as before -/
theorem box_add {s s' : State C P} {b : List C} (c : C) (hc : inUse s' c)
    (hdom : ∀ cid, cid ≠ c → (inUse s' cid ↔ inUse s cid))
    (hstop : s'.stopped = false → s.stopped = false) (h : BoxInv s b) : BoxInv s' (addBox c b) := by
  refine ⟨nodup_addBox h.nodup, ?_, ?_⟩
  · intro cid hu
    by_cases hcc : cid = c
    · exact mem_addBox.mpr (Or.inl hcc)
    · exact mem_addBox.mpr (Or.inr (h.live cid ((hdom cid hcc).mp hu)))
  · intro hs cid hm
    by_cases hcc : cid = c
    · subst hcc; exact hc
    · rcases mem_addBox.mp hm with e | hm
      · exact absurd e hcc
      · exact (hdom cid hcc).mpr (h.noleak (hstop hs) cid hm)

/-- the reader has stopped: mailboxes may stay behind, none is missing -/
theorem box_stopped {s s' : State C P} {b b' : List C} (hnd : b'.Nodup) (hsub : ∀ cid ∈ b, cid ∈ b')
    (hdom : ∀ cid, inUse s' cid → inUse s cid) (hstop : s'.stopped = true) (h : BoxInv s b) : BoxInv s' b' :=
  ⟨hnd, fun cid hu => hsub cid (h.live cid (hdom cid hu)), fun hs => by rw [hstop] at hs; cases hs⟩

theorem mem_eraseKey_of_ne {K V : Type} [DecidableEq K] {k : K} {e : K × V} : ∀ {l : List (K × V)},
    e.1 ≠ k → e ∈ l → e ∈ eraseKey k l
  | [], _, h => by simp at h
  | (k', v') :: l, hne, h => by
    simp only [eraseKey]
    split
    · rename_i hk
      rcases List.mem_cons.mp h with h | h
      · subst h; exact absurd hk hne
      · exact h
    · rcases List.mem_cons.mp h with h | h
      · subst h; exact List.mem_cons_self
      · exact List.mem_cons_of_mem _ (mem_eraseKey_of_ne hne h)

theorem mem_removeAll_of_ne {cid : C} {e : (C × Nat) × P} : ∀ {exp : List Nat} {l : List ((C × Nat) × P)},
    e.1.1 ≠ cid → e ∈ l → e ∈ removeAll cid exp l
  | [], _, _, h => by simpa [removeAll] using h
  | id :: exp, l, hne, h => by
    simp only [removeAll, List.foldl_cons]
    exact mem_removeAll_of_ne (exp := exp) hne (mem_eraseKey_of_ne (by intro e'; apply hne; rw [e']) h)

theorem box_wake {s : State C P} {b : List C} (cid : C) (en : Waiter → Bool) (consume : Bool) (h : BoxInv s b) :
    BoxInv (wake s cid en consume) b := by
  unfold wake
  split
  · exact h
  · rename_i w hw
    split
    · exact box_same (fun c => inUse_rewaiter s cid c w _ hw) (fun hs => hs) h
    · exact h

theorem box_deposit (cfg : Config) {s : State C P} {b : List C} (sender : Nat) (c : C) (p : P) (h : BoxInv s b) :
    BoxInv (deposit cfg s sender c p) (boxesStep cfg s b (.deliver sender c p)) := by
  simp only [boxesStep, deposit]
  split
  · exact h
  · rename_i hst
    split
    · split
      · rename_i q hq
        have huse : inUse s c := Or.inl (hasEntries_of_get hq)
        split
        · exact box_add c huse (fun _ _ => Iff.rfl) (fun hs => hs) h
        · -- conflicting retransmission: poison + signal
          refine box_add c ?_ ?_ ?_ h
          · right; left
            rw [(signal_fields _ c).2.1]
            show (upd s.poison c (some sender)) c ≠ none
            rw [upd_same]; simp
          · intro cid hcc
            refine inUse_signal _ s c cid rfl ?_ rfl
            show (upd s.poison c (some sender)) cid ≠ none ↔ _
            rw [upd_ne _ _ hcc]
          · intro hs; rw [(signal_fields _ c).2.2.2.2.1] at hs; exact hs
      · split
        · -- overflow: the mailbox created by `boxFor` stays behind; the reader stops
          exact box_stopped (nodup_addBox h.nodup) (fun cid hm => mem_addBox.mpr (Or.inr hm))
            (fun cid hu => (inUse_failed s .full cid).mp hu) rfl h
        · -- stored
          refine box_add c ?_ ?_ ?_ h
          · left
            rw [hasEntries_congr (signal_fields _ c).1]
            exact hasEntries_iff.mpr ⟨_, List.mem_cons_self, rfl⟩
          · intro cid hcc
            refine inUse_signal _ s c cid ?_ Iff.rfl rfl
            simp only [hasEntries, List.any_cons]
            rw [decide_eq_false (fun e => hcc e.symm)]
            simp
          · intro hs; rw [(signal_fields _ c).2.2.2.2.1] at hs; exact hs
    · exact h

theorem scan_waiter_ne_none (s : State C P) (cid c : C) : (scan s cid).waiter c ≠ none ↔ s.waiter c ≠ none := by
  have key : ∀ (w v : Waiter), s.waiter cid = some w → ((upd s.waiter cid (some v)) c ≠ none ↔ s.waiter c ≠ none) := by
    intro w v hw
    rw [upd_apply]
    split
    · rename_i hc; subst hc; simp [hw]
    · rfl
  unfold scan
  split
  · rfl
  · rename_i w hw
    split
    · split
      · exact key w _ hw
      · split
        · exact key w _ hw
        · split
          · exact key w _ hw
          · split
            · exact key w _ hw
            · exact key w _ hw
    · rfl

theorem box_scan {s : State C P} {b : List C} (cid : C) (h : BoxInv s b) : BoxInv (scan s cid) b := by
  have hw := scan_waiter_ne_none s cid
  rcases scan_cases s cid with ⟨he, _, hp, _⟩ | ⟨w, hwc, _, _, _, he, hp, _⟩
  · refine box_same ?_ (fun hs => by rw [scan_stopped] at hs; exact hs) h
    intro c
    exact inUse_of (hasEntries_congr he c) (by rw [hp]) (hw c)
  · refine ⟨h.nodup, ?_, ?_⟩
    · intro c hu
      apply h.live
      rcases hu with hu | hu | hu
      · left
        obtain ⟨e, hm, hk⟩ := hasEntries_iff.mp hu
        rw [he] at hm
        exact hasEntries_iff.mpr ⟨e, mem_removeAll hm, hk⟩
      · right; left; rw [hp] at hu; exact hu
      · right; right; exact (hw c).mp hu
    · intro hs c hm
      rw [scan_stopped] at hs
      by_cases hcc : c = cid
      · subst hcc
        right; right; rw [hw, hwc]; simp
      · rcases h.noleak hs c hm with hu | hu | hu
        · left
          obtain ⟨e, hme, hk⟩ := hasEntries_iff.mp hu
          refine hasEntries_iff.mpr ⟨e, ?_, hk⟩
          rw [he]
          -- an entry of another correlation ID survives `removeAll cid`
          exact mem_removeAll_of_ne (by rw [hk]; exact hcc) hme
        · right; left; rw [hp]; exact hu
        · right; right; exact (hw c).mpr hu

theorem box_detach {s : State C P} {b : List C} (cid : C) (h : BoxInv s b) :
    BoxInv (detach s cid) (boxesStep (C := C) (P := P) ⟨[], 0⟩ s b (.detach cid)) := by
  cases hw : s.waiter cid with
  | none => simp only [boxesStep, detach, hw]; exact h
  | some w =>
    simp only [boxesStep, detach, hw]
    by_cases hph : w.phase = .returning
    · rw [if_pos hph]
      have hdom : ∀ c, c ≠ cid → (inUse ({ s with waiter := upd s.waiter cid none } : State C P) c ↔ inUse s c) := by
        intro c hcc
        refine inUse_of ?_ ?_ ?_
        · rfl
        · exact Iff.rfl
        · show (upd s.waiter cid none) c ≠ none ↔ _
          rw [upd_ne _ _ hcc]
      have hself : inUse ({ s with waiter := upd s.waiter cid none } : State C P) cid ↔
          (hasEntries s cid = true ∨ s.poison cid ≠ none) := by
        unfold inUse
        show (hasEntries s cid = true ∨ s.poison cid ≠ none ∨ (upd s.waiter cid none) cid ≠ none) ↔ _
        rw [upd_same]; simp
      by_cases hgone : hasEntries s cid = false ∧ s.poison cid = none
      · rw [if_pos ⟨hph, hgone.1, hgone.2⟩]
        refine ⟨h.nodup.erase _, ?_, ?_⟩
        · intro c hu
          by_cases hcc : c = cid
          · subst hcc
            rcases hself.mp hu with hu | hu
            · rw [hgone.1] at hu; cases hu
            · exact absurd hgone.2 hu
          · exact (List.mem_erase_of_ne hcc).mpr (h.live c ((hdom c hcc).mp hu))
        · intro hs c hm
          have hcc : c ≠ cid := by
            intro e; subst e
            exact (List.Nodup.mem_erase_iff h.nodup).mp hm |>.1 rfl
          exact (hdom c hcc).mpr (h.noleak hs c (List.mem_of_mem_erase hm))
      · rw [if_neg (fun hh => hgone ⟨hh.2.1, hh.2.2⟩)]
        refine ⟨h.nodup, ?_, ?_⟩
        · intro c hu
          by_cases hcc : c = cid
          · subst hcc; exact h.live c (Or.inr (Or.inr (by rw [hw]; simp)))
          · exact h.live c ((hdom c hcc).mp hu)
        · intro hs c hm
          by_cases hcc : c = cid
          · subst hcc
            apply hself.mpr
            by_cases he : hasEntries s c = true
            · exact Or.inl he
            · right
              intro hp
              exact hgone ⟨by simpa using he, hp⟩
          · exact (hdom c hcc).mpr (h.noleak hs c hm)
    · rw [if_neg hph, if_neg (fun hh => hph hh.1)]
      exact h

theorem box_step (cfg : Config) {s : State C P} {b : List C} (st : Step C P) (h : BoxInv s b) :
    BoxInv (step cfg s st) (boxesStep cfg s b st) := by
  cases st with
  | deliver sender c p => exact box_deposit cfg sender c p h
  | garbage sender =>
    simp only [step, boxesStep, garbageStep]
    split
    · exact h
    · split
      · exact box_stopped h.nodup (fun _ hm => hm) (fun cid hu => (inUse_failed s .decode cid).mp hu) rfl h
      · exact h
  | transportErr =>
    simp only [step, boxesStep, transportStep]
    split
    · exact h
    · exact box_stopped h.nodup (fun _ hm => hm) (fun cid hu => (inUse_failed s .transport cid).mp hu) rfl h
  | attach cid exp =>
    simp only [step, boxesStep, attach]
    split
    · exact box_same (s := s) (fun _ => Iff.rfl) (fun hs => hs) h
    · split
      · rename_i w hw
        exact box_add (s := s) cid (Or.inr (Or.inr (by rw [hw]; simp))) (fun _ _ => Iff.rfl) (fun hs => hs) h
      · refine box_add (s := s) cid (Or.inr (Or.inr ?_)) ?_ (fun hs => hs) h
        · show (upd s.waiter cid (some _)) cid ≠ none
          rw [upd_same]; simp
        · intro c hcc
          refine inUse_of ?_ ?_ ?_
          · rfl
          · exact Iff.rfl
          · show (upd s.waiter cid (some _)) c ≠ none ↔ _
            rw [upd_ne _ _ hcc]
  | scan cid => exact box_scan cid h
  | wakeToken cid => exact box_wake _ _ _ h
  | wakeCtx cid => exact box_wake _ _ _ h
  | wakeFailed cid => exact box_wake _ _ _ h
  | detach cid => exact box_detach cid h
  | cancel cid =>
    simp only [step, boxesStep, cancelStep]
    split
    · exact h
    · rename_i w hw
      exact box_same (fun c => inUse_rewaiter s cid c w _ hw) (fun hs => hs) h
  | close =>
    simp only [step, boxesStep]
    have hf := failWith_fields s .closed
    refine box_same ?_ (fun hs => by rw [hf.2.2.2.2.1] at hs; exact hs) h
    intro c
    exact inUse_of (hasEntries_congr hf.1 c) (by rw [hf.2.1]) (by rw [hf.2.2.2.2.2])

theorem runBoxes_snoc (cfg : Config) (tr : List (Step C P)) (st : Step C P) (sb : State C P × List C) :
    runBoxes cfg (tr ++ [st]) sb
      = (step cfg (runBoxes cfg tr sb).1 st, boxesStep cfg (runBoxes cfg tr sb).1 (runBoxes cfg tr sb).2 st) := by
  simp [runBoxes, List.foldl_append]

theorem runBoxes_fst (cfg : Config) (tr : List (Step C P)) (sb : State C P × List C) :
    (runBoxes cfg tr sb).1 = run cfg tr sb.1 := by
  induction tr generalizing sb with
  | nil => rfl
  | cons st tr ih => simp only [runBoxes, List.foldl_cons, run] at ih ⊢; rw [ih]

theorem box_run_from (cfg : Config) (tr : List (Step C P)) : ∀ (sb : State C P × List C), BoxInv sb.1 sb.2 →
    BoxInv (runBoxes cfg tr sb).1 (runBoxes cfg tr sb).2 := by
  induction tr with
  | nil => intro sb h; exact h
  | cons st tr ih =>
    intro sb h
    simp only [runBoxes, List.foldl_cons] at ih ⊢
    exact ih _ (box_step cfg st h)

theorem box_init : BoxInv (init : State C P) ([] : List C) := by
  refine ⟨List.nodup_nil, ?_, ?_⟩
  · intro cid hu
    rcases hu with hu | hu | hu
    · simp [init, hasEntries] at hu
    · exact absurd rfl hu
    · exact absurd rfl hu
  · intro _ cid hm; cases hm

theorem box_run (cfg : Config) (tr : List (Step C P)) :
    BoxInv (runBoxes cfg tr ((init : State C P), [])).1 (runBoxes cfg tr ((init : State C P), [])).2 :=
  box_run_from cfg tr _ box_init

end BronVerif.Router
