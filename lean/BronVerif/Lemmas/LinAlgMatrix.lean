import BronVerif.Lemmas.GaussJordanMatrix
import BronVerif.Lemmas.GaussJordanDet
/-!
# List matrices versus Mathlib `Matrix`: product, transpose, equality

`toMat_mul` identifies the model's `mul` (mirror of `TryMul`) with `Matrix.mul`, so that
associativity etc. come from Mathlib; `transpose_transpose` is a list-level identity;
`eq_of_toMatrix_eq` says a well-shaped list matrix is determined by its Mathlib matrix.
-/
namespace BronVerif.LinAlg
open Finset
variable {F : Type} [Field F]

omit [Field F] in
theorem numCols_of_shape (m : Mat F) (c : ℕ) (hne : m ≠ []) (hW : ∀ row ∈ m, row.length = c) :
    numCols m = c := by
  cases m with
  | nil => exact absurd rfl hne
  | cons r m => simpa [numCols] using hW r (by simp)

omit [Field F] in
theorem getD_row_eq (m : Mat F) (i : ℕ) (hi : i < m.length) : m.getD i [] = m[i] := by
  simp [List.getD_eq_getElem?_getD, List.getElem?_eq_getElem hi]

/-- `transposeN` entrywise (no shape hypotheses) -/
theorem entry_transposeN (m : Mat F) (n i j : ℕ) :
    entry (transposeN m n) i j = if i < n then entry m j i else 0 := by
  unfold entry transposeN
  by_cases hi : i < n
  · rw [if_pos hi]
    simp only [List.getD_eq_getElem?_getD, List.getElem?_map, List.getElem?_range hi, Option.map_some,
      Option.getD_some]
    cases m[j]? <;> simp
  · rw [if_neg hi]
    have : (List.range n)[i]? = none := by simp [not_lt.mp hi]
    simp [List.getD_eq_getElem?_getD, this]

/-- **`Transpose` is an involution** on well-shaped non-degenerate matrices (`r × c`, `r, c ≥ 1`, the only
ones the Go constructors admit) -/
theorem transpose_transpose (m : Mat F) (c : ℕ) (hne : m ≠ []) (hW : ∀ row ∈ m, row.length = c)
    (hc : 0 < c) : transpose (transpose m) = m := by
  have h1 : transpose m = transposeN m c := by unfold transpose; rw [numCols_of_shape m c hne hW]
  have h2 : numCols (transposeN m c) = m.length := by
    obtain ⟨c', rfl⟩ : ∃ c', c = c' + 1 := ⟨c - 1, by omega⟩
    simp [numCols, transposeN, List.range_succ_eq_map]
  rw [h1]
  unfold transpose
  rw [h2]
  apply List.ext_getElem
  · simp [transposeN]
  · intro i hi1 hi2
    have hrow : m[i].length = c := hW _ (List.getElem_mem _)
    apply List.ext_getElem
    · simp [transposeN, hrow]
    · intro j hj1 hj2
      have hj : j < c := by rw [← hrow]; exact hj2
      have e1 := entry_transposeN (transposeN m c) m.length i j
      rw [if_pos hi2] at e1
      have e2 := entry_transposeN m c j i
      rw [if_pos hj] at e2
      have := e1.trans e2
      unfold entry at this
      rw [getD_row_eq _ i hi1, getD_row_eq m i hi2] at this
      simpa [List.getD_eq_getElem?_getD, hj1, hj2] using this

theorem toMat_transpose (m : Mat F) (c : ℕ) (hc : numCols m = c) :
    toMat c m.length (transpose m) = (toMat m.length c m).transpose := by
  unfold transpose; rw [hc]; exact toMat_transposeN m c

/-- `mul` entrywise: row `i` of `a` against column `j` of `b` (zero beyond the first row's width) -/
theorem entry_mul (a b : Mat F) (i j : ℕ) (hi : i < a.length) :
    entry (mul a b) i j
      = if j < numCols b then ∑ t ∈ range b.length, entry a i t * entry b t j else 0 := by
  unfold mul entry
  simp only [List.getD_eq_getElem?_getD, List.getElem?_map, List.getElem?_eq_getElem hi,
    Option.map_some, Option.getD_some]
  unfold transpose transposeN
  by_cases hj : j < numCols b
  · rw [if_pos hj, List.getElem?_map, List.getElem?_range hj]
    simp only [Option.map_some, Option.getD_some]
    rw [dot_eq_sum _ _ b.length (by simp)]
    apply Finset.sum_congr rfl
    intro t ht
    have ht : t < b.length := Finset.mem_range.mp ht
    simp [List.getD_eq_getElem?_getD, ht]
  · rw [if_neg hj, List.getElem?_eq_none (by simpa using not_lt.mp hj)]
    rfl

/-- **the model's `mul` is `Matrix.mul`** (`a`: `r` rows, `b`: `k` rows none wider than the first;
short rows read as zero on both sides, so no further shape hypotheses are needed) -/
theorem toMat_mul (a b : Mat F) (r k c : ℕ) (ha : a.length = r) (hb : b.length = k)
    (hbW : ∀ row ∈ b, row.length ≤ numCols b) :
    toMat r c (mul a b) = toMat r k a * toMat k c b := by
  subst ha hb
  ext i j
  rw [Matrix.mul_apply]
  show entry (mul a b) i j = ∑ t : Fin b.length, entry a i t * entry b t j
  rw [entry_mul a b i j i.isLt, Fin.sum_univ_eq_sum_range (fun t => entry a i t * entry b t j)]
  split
  · rfl
  · rename_i hj
    symm
    apply Finset.sum_eq_zero
    intro t ht
    have ht : t < b.length := Finset.mem_range.mp ht
    have : entry b t j = 0 := by
      unfold entry
      rw [getD_row_eq b t ht, List.getD_eq_getElem?_getD,
        List.getElem?_eq_none (le_trans (hbW _ (List.getElem_mem _)) (not_lt.mp hj))]
      rfl
    rw [this, mul_zero]

theorem mul_length (a b : Mat F) : (mul a b).length = a.length := by simp [mul]

theorem mul_row_length (a b : Mat F) : ∀ row ∈ mul a b, row.length = numCols b := by
  intro row h
  unfold mul at h
  obtain ⟨r, _, rfl⟩ := List.mem_map.mp h
  simp [transpose, transposeN]

omit [Field F] in
theorem rows_le_numCols_of_shape (m : Mat F) (c : ℕ) (hW : ∀ row ∈ m, row.length = c) :
    ∀ row ∈ m, row.length ≤ numCols m := by
  intro row h
  rw [numCols_of_shape m c (List.ne_nil_of_mem h) hW, hW row h]

/-- a well-shaped square list matrix is determined by the Mathlib matrix it denotes -/
theorem eq_of_toMatrix_eq [DecidableEq F] (a b : Mat F) (n : ℕ) (ha : a.length = n) (hb : b.length = n)
    (haW : ∀ row ∈ a, row.length = n) (hbW : ∀ row ∈ b, row.length = n)
    (h : toMatrix n a = toMatrix n b) : a = b := by
  apply List.ext_getElem (ha.trans hb.symm)
  intro i h1 h2
  have hra : a[i].length = n := haW _ (List.getElem_mem _)
  have hrb : b[i].length = n := hbW _ (List.getElem_mem _)
  apply List.ext_getElem (hra.trans hrb.symm)
  intro j h3 h4
  have := congrFun (congrFun h ⟨i, ha ▸ h1⟩) ⟨j, hra ▸ h3⟩
  unfold toMatrix entry at this
  simp only [getD_row_eq a i h1, getD_row_eq b i h2] at this
  simpa [List.getD_eq_getElem?_getD, h3, h4] using this

end BronVerif.LinAlg
