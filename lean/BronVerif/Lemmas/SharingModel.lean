import Mathlib.Algebra.Field.Defs
import Mathlib.Algebra.Group.Basic
import Mathlib.Algebra.Field.Basic
import Mathlib.Data.Nat.Cast.Defs
import BronVerif.Model.Access
import BronVerif.Model.Sharing
/-!
# The executable model's matrices are the Mathlib matrices the C02 theorems speak about
-/
namespace BronVerif.Lemmas.SharingModel
open BronVerif.Access BronVerif.LinAlg

variable {F : Type} [Field F] [DecidableEq F]

/-- `powers x n = [x⁰, x¹, …, x^(n-1)]` -/
theorem powers_eq (x : F) (n : Nat) : powers x n = (List.range n).map fun j => x ^ j := by
  induction n with
  | zero => rfl
  | succ n ih =>
    rw [powers, ih, List.range_succ_eq_map, List.map_cons, List.map_map, List.map_map]
    simp [Function.comp_def, pow_succ]

/-- the rows of the model's threshold programme are the Vandermonde rows `[1, i, …, i^(t-1)]` of
the sorted shareholder IDs -/
theorem thresholdMSP_mat (t : Nat) (ids : List Nat) :
    (thresholdMSP (F := F) t ids).mat =
      (sortedSet ids).map fun (id : Nat) => (List.range t).map fun j => (id : F) ^ j := by
  simp [thresholdMSP, powers_eq]

theorem thresholdMSP_holders (t : Nat) (ids : List Nat) :
    (thresholdMSP (F := F) t ids).holders = sortedSet ids ∧ (thresholdMSP (F := F) t ids).cols = t := by
  simp [thresholdMSP]

/-- the model's clause vectors: clause `i < m-1` is the unit vector `e_{i+1}`, the last clause is
`(1, -1, …, -1)` — the vectors of `Lemmas.SharingSpan.clauseVec` under `none ↦ 0`, `some i ↦ i+1` -/
theorem cnfClauseVector_entry (m i j : Nat) (hj : j < m) :
    (cnfClauseVector (F := F) m i).getD j 0 =
      if i + 1 < m then (if j = i + 1 then 1 else 0) else (if j = 0 then 1 else -1) := by
  unfold cnfClauseVector unitVec
  split <;> simp [List.getD_eq_getElem?_getD, hj]

end BronVerif.Lemmas.SharingModel
