import BronVerif.Model.Bf128
/-!
# Lemmas about the GF(2^128) model (`Model/Bf128.lean`) — core Lean only
-/
namespace BronVerif.Lemmas.Bf128
open BronVerif.Bf128

/-- coefficient `k` of the GF(2)[X] product of (the low `n` coefficients of) `a` with `b`:
`⊕_{i < n, i ≤ k} aᵢ ∧ b_{k-i}` -/
def convBit (a b : Nat) : Nat → Nat → Bool
  | 0, _ => false
  | n + 1, k => convBit a b n k ^^ (a.testBit n && decide (n ≤ k) && b.testBit (k - n))

theorem clmulAux_testBit (a b n k : Nat) : (clmulAux a b n).testBit k = convBit a b n k := by
  induction n with
  | zero => simp [clmulAux, convBit]
  | succ n ih =>
    simp only [clmulAux, convBit]
    by_cases h : a.testBit n
    · simp only [h, if_true, Nat.testBit_xor, ih, Nat.testBit_shiftLeft, Bool.true_and]
    · simp [h, ih]

/-- GF(2)[X]-multiples of the field polynomial: XORs of shifted copies of `poly` -/
inductive PolyMultiple : Nat → Prop
  | zero : PolyMultiple 0
  | step (m k : Nat) : PolyMultiple m → PolyMultiple (m ^^^ (poly <<< k))

theorem xor_cancel_middle (z s r : Nat) : z ^^^ r = ((z ^^^ s) ^^^ r) ^^^ s := by
  apply Nat.eq_of_testBit_eq
  intro i
  simp only [Nat.testBit_xor]
  cases z.testBit i <;> cases s.testBit i <;> cases r.testBit i <;> rfl

theorem reduceAux_congr (k z : Nat) : PolyMultiple (z ^^^ reduceAux k z) := by
  induction k generalizing z with
  | zero => simp only [reduceAux, Nat.xor_self]; exact PolyMultiple.zero
  | succ k ih =>
    simp only [reduceAux]
    by_cases h : z.testBit (128 + k)
    · simp only [h, if_true]
      rw [xor_cancel_middle z (poly <<< k)]
      exact PolyMultiple.step _ _ (ih _)
    · simp only [h]
      exact ih z

theorem reduce_congr (z : Nat) : PolyMultiple (z ^^^ reduce z) := reduceAux_congr 127 z

theorem lt_of_testBit_false (z i : Nat) (hz : z < 2 ^ (i + 1)) (hb : z.testBit i = false) : z < 2 ^ i := by
  apply Nat.lt_pow_two_of_testBit
  intro j hj
  by_cases e : j = i
  · rw [e]; exact hb
  · have : i + 1 ≤ j := by omega
    exact Nat.testBit_lt_two_pow (Nat.lt_of_lt_of_le hz (Nat.pow_le_pow_right (by decide) this))

theorem poly_shift_lt (k : Nat) : poly <<< k < 2 ^ (128 + k + 1) := by
  rw [Nat.shiftLeft_eq, show 128 + k + 1 = 129 + k by omega, Nat.pow_add]
  exact Nat.mul_lt_mul_of_pos_right (by decide) (Nat.two_pow_pos k)

theorem poly_shift_testBit (k : Nat) : (poly <<< k).testBit (128 + k) = true := by
  rw [Nat.testBit_shiftLeft]
  have : 128 + k - k = 128 := by omega
  simp only [this, ge_iff_le, Nat.le_add_left, decide_true, Bool.true_and]
  decide

theorem reduceAux_lt (k z : Nat) (hz : z < 2 ^ (128 + k)) : reduceAux k z < 2 ^ 128 := by
  induction k generalizing z with
  | zero => simpa [reduceAux] using hz
  | succ k ih =>
    simp only [reduceAux]
    apply ih
    have hz' : z < 2 ^ (128 + k + 1) := by simpa [Nat.add_assoc] using hz
    by_cases h : z.testBit (128 + k)
    · simp only [h, if_true]
      apply lt_of_testBit_false
      · exact Nat.xor_lt_two_pow hz' (poly_shift_lt k)
      · rw [Nat.testBit_xor, h, poly_shift_testBit]; rfl
    · simp only [h]
      exact lt_of_testBit_false _ _ hz' (by simpa using h)

theorem reduce_lt (z : Nat) (hz : z < 2 ^ 255) : reduce z < 2 ^ 128 := reduceAux_lt 127 z hz

theorem clmulAux_lt (a b n : Nat) (hb : b < 2 ^ 128) (hn : n ≤ 128) : clmulAux a b n < 2 ^ 255 := by
  induction n with
  | zero => simp [clmulAux]
  | succ n ih =>
    simp only [clmulAux]
    have ih' := ih (by omega)
    split
    · apply Nat.xor_lt_two_pow ih'
      rw [Nat.shiftLeft_eq]
      calc b * 2 ^ n < 2 ^ 128 * 2 ^ n := Nat.mul_lt_mul_of_pos_right hb (Nat.two_pow_pos n)
        _ = 2 ^ (128 + n) := (Nat.pow_add 2 128 n).symm
        _ ≤ 2 ^ 255 := Nat.pow_le_pow_right (by decide) (by omega)
    · exact ih'

theorem clmul_lt (a b : Nat) (_ha : a < 2 ^ 128) (hb : b < 2 ^ 128) : clmul a b < 2 ^ 255 :=
  clmulAux_lt a b 128 hb (Nat.le_refl _)

end BronVerif.Lemmas.Bf128
