import BronVerif.Model.Router
/-! Lemmas on the association-list helpers of the router model (core-only). -/
namespace BronVerif.Router

section Assoc
variable {K V : Type} [DecidableEq K]

theorem mem_of_lookupE {k : K} {v : V} : ∀ {l : List (K × V)}, lookupE k l = some v → (k, v) ∈ l
  | [], h => by simp [lookupE] at h
  | (k', v') :: l, h => by
    simp only [lookupE] at h
    split at h
    · rename_i hk; cases h; simp [hk]
    · exact List.mem_cons_of_mem _ (mem_of_lookupE h)

theorem lookupE_eq_none_iff {k : K} : ∀ {l : List (K × V)}, lookupE k l = none ↔ k ∉ l.map Prod.fst
  | [] => by simp [lookupE]
  | (k', v') :: l => by
    simp only [lookupE, List.map_cons, List.mem_cons, not_or]
    split
    · rename_i hk; simp [hk]
    · rename_i hk
      rw [lookupE_eq_none_iff]
      constructor
      · intro h; exact ⟨fun e => hk e.symm, h⟩
      · intro h; exact h.2

theorem lookupE_of_mem_nodup {k : K} {v : V} : ∀ {l : List (K × V)}, (l.map Prod.fst).Nodup → (k, v) ∈ l →
    lookupE k l = some v
  | [], _, h => by simp at h
  | (k', v') :: l, hnd, h => by
    simp only [List.map_cons, List.nodup_cons] at hnd
    simp only [lookupE]
    rcases List.mem_cons.mp h with h | h
    · cases h; simp
    · split
      · rename_i hk
        exfalso; apply hnd.1; subst hk
        exact List.mem_map.mpr ⟨(k', v), h, rfl⟩
      · exact lookupE_of_mem_nodup hnd.2 h

theorem mem_eraseKey {k : K} {e : K × V} : ∀ {l : List (K × V)}, e ∈ eraseKey k l → e ∈ l
  | [], h => by simp [eraseKey] at h
  | (k', v') :: l, h => by
    simp only [eraseKey] at h
    split at h
    · exact List.mem_cons_of_mem _ h
    · rcases List.mem_cons.mp h with h | h
      · simp [h]
      · exact List.mem_cons_of_mem _ (mem_eraseKey h)

theorem nodup_eraseKey {k : K} : ∀ {l : List (K × V)}, (l.map Prod.fst).Nodup → ((eraseKey k l).map Prod.fst).Nodup
  | [], _ => by simp [eraseKey]
  | (k', v') :: l, h => by
    simp only [List.map_cons, List.nodup_cons] at h
    simp only [eraseKey]
    split
    · exact h.2
    · simp only [List.map_cons, List.nodup_cons]
      refine ⟨?_, nodup_eraseKey h.2⟩
      intro hm
      apply h.1
      obtain ⟨e, he, hk⟩ := List.mem_map.mp hm
      exact List.mem_map.mpr ⟨e, mem_eraseKey he, hk⟩

theorem lookupE_eraseKey_ne {k k' : K} (h : k' ≠ k) : ∀ {l : List (K × V)}, lookupE k' (eraseKey k l) = lookupE k' l
  | [] => by simp [eraseKey]
  | (k'', v'') :: l => by
    simp only [eraseKey]
    split
    · rename_i hk; subst hk
      simp only [lookupE]
      rw [if_neg (fun e => h e.symm)]
    · simp only [lookupE]
      split
      · rfl
      · exact lookupE_eraseKey_ne h

theorem length_eraseKey {k : K} : ∀ {l : List (K × V)}, (lookupE k l).isSome = true → (eraseKey k l).length + 1 = l.length
  | [], h => by simp [lookupE] at h
  | (k', v') :: l, h => by
    simp only [lookupE] at h
    simp only [eraseKey]
    split
    · simp
    · rename_i hk
      rw [if_neg hk] at h
      simp [length_eraseKey h]

end Assoc

theorem mem_dedup {a : Nat} : ∀ {l : List Nat}, a ∈ dedup l ↔ a ∈ l
  | [] => by simp [dedup]
  | b :: l => by
    simp only [dedup]
    split
    · rename_i hb
      rw [mem_dedup, List.mem_cons]
      constructor
      · exact Or.inr
      · rintro (h | h)
        · subst h; exact mem_dedup.mp hb
        · exact h
    · simp only [List.mem_cons, mem_dedup]

theorem nodup_dedup : ∀ (l : List Nat), (dedup l).Nodup
  | [] => by simp [dedup]
  | b :: l => by
    simp only [dedup]
    split
    · exact nodup_dedup l
    · rename_i hb
      exact List.nodup_cons.mpr ⟨hb, nodup_dedup l⟩

section RemoveAll
variable {C P : Type} [DecidableEq C]

theorem mem_removeAll {cid : C} {e : (C × Nat) × P} : ∀ {exp : List Nat} {l : List ((C × Nat) × P)},
    e ∈ removeAll cid exp l → e ∈ l
  | [], _, h => by simpa [removeAll] using h
  | id :: exp, l, h => by
    simp only [removeAll, List.foldl_cons] at h
    exact mem_eraseKey (mem_removeAll (exp := exp) h)

theorem nodup_removeAll {cid : C} : ∀ {exp : List Nat} {l : List ((C × Nat) × P)},
    (l.map Prod.fst).Nodup → ((removeAll cid exp l).map Prod.fst).Nodup
  | [], _, h => by simpa [removeAll] using h
  | id :: exp, l, h => by
    simp only [removeAll, List.foldl_cons]
    exact nodup_removeAll (exp := exp) (nodup_eraseKey h)

theorem lookupE_removeAll_of_not {cid : C} {k : C × Nat} : ∀ {exp : List Nat} {l : List ((C × Nat) × P)},
    (∀ id ∈ exp, k ≠ (cid, id)) → lookupE k (removeAll cid exp l) = lookupE k l
  | [], _, _ => by simp [removeAll]
  | id :: exp, l, h => by
    simp only [removeAll, List.foldl_cons]
    have h1 := lookupE_removeAll_of_not (cid := cid) (k := k) (exp := exp) (l := eraseKey (cid, id) l)
      (fun i hi => h i (List.mem_cons_of_mem _ hi))
    simp only [removeAll] at h1
    rw [h1, lookupE_eraseKey_ne (h id (by simp))]

theorem length_removeAll {cid : C} : ∀ {exp : List Nat} {l : List ((C × Nat) × P)}, exp.Nodup →
    (∀ id ∈ exp, (lookupE (cid, id) l).isSome = true) → (removeAll cid exp l).length + exp.length = l.length
  | [], _, _, _ => by simp [removeAll]
  | id :: exp, l, hnd, hall => by
    simp only [removeAll, List.foldl_cons, List.length_cons]
    have hnd' := List.nodup_cons.mp hnd
    have h1 := length_removeAll (cid := cid) (exp := exp) (l := eraseKey (cid, id) l) hnd'.2 (by
      intro i hi
      rw [lookupE_eraseKey_ne]
      · exact hall i (List.mem_cons_of_mem _ hi)
      · intro e; cases e; exact hnd'.1 hi)
    simp only [removeAll] at h1
    have h2 := length_eraseKey (hall id (by simp))
    omega

end RemoveAll

end BronVerif.Router
