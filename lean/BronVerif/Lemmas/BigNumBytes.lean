import Mathlib.Data.Nat.ModEq
import Mathlib.Data.List.Induction
import Mathlib.Tactic.Ring
import Mathlib.Tactic.Linarith
import BronVerif.Model.BigNum
/-!
# Byte conversions of `Model/BigNum.lean`

Big-endian `natToBytes` / `bytesToNat` (the only byte order the `numct`/`num` API exposes), the
two's-complement pair `twosEncode` / `twosDecode`, and the capacity convention `trunc`.
-/
namespace BronVerif.Lemmas.BigNumBytes
open BronVerif.BigNum

theorem natToBytes_length (n len : Nat) : (natToBytes n len).length = len := by
  simp [natToBytes]

/-- peeling the least significant byte -/
theorem natToBytes_succ (n len : Nat) : natToBytes n (len + 1) = natToBytes (n / 256) len ++ [n % 256] := by
  unfold natToBytes
  rw [List.range_succ, List.map_append]
  congr 1
  · apply List.map_congr_left
    intro i hi
    have hi' : i < len := List.mem_range.mp hi
    have e : len + 1 - 1 - i = (len - 1 - i) + 1 := by omega
    rw [e, pow_succ, Nat.mul_comm, Nat.div_div_eq_div_mul]
  · simp

theorem bytesToNat_snoc (l : List Nat) (b : Nat) : bytesToNat (l ++ [b]) = bytesToNat l * 256 + b := by
  simp [bytesToNat, List.foldl_append]

theorem foldl_bytes (acc : Nat) (l : List Nat) :
    l.foldl (fun acc b => acc * 256 + b) acc = acc * 256 ^ l.length + l.foldl (fun acc b => acc * 256 + b) 0 := by
  induction l generalizing acc with
  | nil => simp
  | cons b t ih =>
    simp only [List.foldl_cons, List.length_cons]
    rw [ih (acc * 256 + b), ih (0 * 256 + b)]
    ring

/-- concatenation of byte strings: the left part is shifted by the length of the right part -/
theorem bytesToNat_append (a b : List Nat) : bytesToNat (a ++ b) = bytesToNat a * 256 ^ b.length + bytesToNat b := by
  unfold bytesToNat
  rw [List.foldl_append, foldl_bytes]

/-- decoding the `len`-byte big-endian encoding gives `n mod 256^len` -/
theorem bytesToNat_natToBytes (n len : Nat) : bytesToNat (natToBytes n len) = n % 256 ^ len := by
  induction len generalizing n with
  | zero => simp [natToBytes, bytesToNat, Nat.mod_one]
  | succ k ih =>
    rw [natToBytes_succ, bytesToNat_snoc, ih, pow_succ, Nat.mul_comm (256 ^ k) 256, Nat.mod_mul]
    ring

theorem natToBytes_lt (n len : Nat) : ∀ b ∈ natToBytes n len, b < 256 := by
  intro b hb
  simp only [natToBytes, List.mem_map] at hb
  obtain ⟨i, _, rfl⟩ := hb
  exact Nat.mod_lt _ (by norm_num)

theorem bytesToNat_lt (l : List Nat) (h : ∀ b ∈ l, b < 256) : bytesToNat l < 256 ^ l.length := by
  induction l using List.reverseRecOn with
  | nil => simp [bytesToNat]
  | append_singleton t b ih =>
    rw [bytesToNat_snoc, List.length_append, List.length_singleton, pow_succ]
    have h1 := ih (fun x hx => h x (List.mem_append_left _ hx))
    have h2 : b < 256 := h b (by simp)
    nlinarith

/-- encoding is the inverse of decoding on byte strings (the encoding is canonical) -/
theorem natToBytes_bytesToNat (l : List Nat) (h : ∀ b ∈ l, b < 256) : natToBytes (bytesToNat l) l.length = l := by
  induction l using List.reverseRecOn with
  | nil => simp [natToBytes]
  | append_singleton t b ih =>
    have h2 : b < 256 := h b (by simp)
    rw [List.length_append, List.length_singleton, natToBytes_succ, bytesToNat_snoc]
    have e1 : (bytesToNat t * 256 + b) / 256 = bytesToNat t := by omega
    have e2 : (bytesToNat t * 256 + b) % 256 = b := by omega
    rw [e1, e2, ih (fun x hx => h x (List.mem_append_left _ hx))]

/-! ### capacity -/

theorem lt_two_pow_bitLen (n : Nat) : n < 2 ^ bitLen n := by
  unfold bitLen
  by_cases h : n = 0
  · simp [h]
  · simp only [h, if_false]; exact Nat.lt_log2_self

theorem bitLen_le_iff (n k : Nat) : bitLen n ≤ k ↔ n < 2 ^ k := by
  unfold bitLen
  by_cases h : n = 0
  · simp [h]
  · simp only [h, if_false]
    rw [← Nat.log2_lt h]
    omega

/-! ### two's complement -/

theorem twos_roundtrip (i : Int) (len : Nat) (hlen : 0 < len)
    (hlo : -(2 ^ (8 * len - 1) : Int) ≤ i) (hhi : i < (2 ^ (8 * len - 1) : Int)) :
    twosDecode (twosEncode i len) len = i := by
  unfold twosDecode twosEncode
  have hlen' : ¬ len = 0 := by omega
  simp only [hlen', if_false]
  have hpow : (2 ^ (8 * len) : Int) = 2 * 2 ^ (8 * len - 1) := by
    have : 8 * len = (8 * len - 1) + 1 := by omega
    conv_lhs => rw [this, pow_succ]
    ring
  have hM : (((2 ^ (8 * len) : Nat)) : Int) = 2 ^ (8 * len) := by push_cast; ring
  have hMpos : (0 : Int) < 2 ^ (8 * len - 1) := by positivity
  rw [hM]
  have hnn : 0 ≤ i % (2 ^ (8 * len) : Int) := Int.emod_nonneg _ (by positivity)
  have hhalf : ((2 ^ (8 * len - 1) : Nat) : Int) = 2 ^ (8 * len - 1) := by push_cast; ring
  by_cases hneg : i < 0
  · have hm : i % (2 ^ (8 * len) : Int) = i + 2 ^ (8 * len) := by
      have e : i % (2 ^ (8 * len) : Int) = (i + 2 ^ (8 * len)) % (2 ^ (8 * len) : Int) := by simp
      rw [e]
      exact Int.emod_eq_of_lt (by linarith) (by linarith)
    have hge : (i % (2 ^ (8 * len) : Int)).toNat ≥ 2 ^ (8 * len - 1) := by
      have : ((2 ^ (8 * len - 1) : Nat) : Int) ≤ ((i % (2 ^ (8 * len) : Int)).toNat : Int) := by
        rw [Int.toNat_of_nonneg hnn, hhalf, hm]; linarith
      exact_mod_cast this
    rw [if_pos hge, Int.toNat_of_nonneg hnn, hm]; ring
  · have hm : i % (2 ^ (8 * len) : Int) = i := Int.emod_eq_of_lt (by omega) (by linarith)
    have hlt : ¬ (i % (2 ^ (8 * len) : Int)).toNat ≥ 2 ^ (8 * len - 1) := by
      intro hge
      have : ((2 ^ (8 * len - 1) : Nat) : Int) ≤ ((i % (2 ^ (8 * len) : Int)).toNat : Int) := by exact_mod_cast hge
      rw [Int.toNat_of_nonneg hnn, hhalf, hm] at this; linarith
    rw [if_neg hlt, Int.toNat_of_nonneg hnn, hm]

end BronVerif.Lemmas.BigNumBytes
