import Mathlib.Algebra.Module.Basic
import Mathlib.Algebra.Field.Basic
import Mathlib.Algebra.BigOperators.Group.List.Basic
import Mathlib.Algebra.NoZeroSMulDivisors.Basic
import Mathlib.Tactic.Abel
import BronVerif.Model.Vss
/-!
# Helper lemmas for C05: the list model of `Model/Vss.lean` over a Mathlib field and module
-/
set_option linter.unusedSectionVars false
set_option linter.unusedSimpArgs false
namespace BronVerif.Lemmas.Vss
open BronVerif.LinAlg BronVerif.Vss

variable {F G : Type} [Field F] [DecidableEq F] [AddCommGroup G] [Module F G] [DecidableEq G]

theorem foldl_add_eq {α : Type} [AddCommMonoid α] (xs : List α) (a : α) :
    xs.foldl (· + ·) a = a + xs.sum := by
  induction xs generalizing a with
  | nil => simp
  | cons x xs ih => simp [ih, add_assoc]

theorem gsum_eq_sum (xs : List G) : gsum xs = xs.sum := by
  simp [gsum, foldl_add_eq]

theorem gdot_nil_left (V : List G) : gdot ([] : List F) V = 0 := by simp [gdot, gsum]
theorem gdot_nil_right (a : List F) : gdot a ([] : List G) = 0 := by simp [gdot, gsum]

theorem gdot_cons (c : F) (cs : List F) (P : G) (Ps : List G) :
    gdot (c :: cs) (P :: Ps) = c • P + gdot cs Ps := by
  simp [gdot, gsum_eq_sum]

theorem dot_nil_left (b : List F) : dot ([] : List F) b = 0 := by simp [dot]
theorem dot_nil_right (a : List F) : dot a ([] : List F) = 0 := by simp [dot]

theorem dot_cons (a : F) (as : List F) (b : F) (bs : List F) :
    dot (a :: as) (b :: bs) = a * b + dot as bs := by
  simp [dot, foldl_add_eq]

/-- lifting commutes with the dot product: `Σ rowₖ • (rₖ • g) = (Σ rowₖ rₖ) • g` -/
theorem gdot_lift (row r : List F) (g : G) : gdot row (liftColumn r g) = dot row r • g := by
  induction row generalizing r with
  | nil => simp [gdot_nil_left, dot_nil_left]
  | cons c cs ih =>
    cases r with
    | nil => simp [liftColumn, gdot_nil_right, dot_nil_right]
    | cons x xs =>
      have := ih xs
      simp only [liftColumn] at this ⊢
      simp [gdot_cons, dot_cons, this, add_smul, mul_smul]

/-- the left action on a column is the row-wise `gdot` -/
theorem actOnColumn_eq (A : Mat F) (V : List G) : actOnColumn A V = A.map fun row => gdot row V := by
  cases V with
  | nil => simp [actOnColumn, leftAction, gtranspose, asColumn, gdot_nil_right]
  | cons P Ps =>
    have h : (List.map (fun r : List G => r.getD 0 0) (List.map (fun P => [P]) Ps)) = Ps := by
      simp [List.map_map, Function.comp_def]
    simp [actOnColumn, leftAction, gtranspose, asColumn, List.map_map, Function.comp_def, h]

theorem liftedEq_iff (g : G) (s : List F) (Ps : List G) :
    liftedEq g s Ps = true ↔ s.map (· • g) = Ps := by
  induction s generalizing Ps with
  | nil => cases Ps <;> simp [liftedEq]
  | cons x xs ih => cases Ps <;> simp [liftedEq, ih]

theorem pick_map {α β : Type} (f : α → β) (labels : List Nat) (id : Nat) (xs : List α) :
    Vss.pick labels id (xs.map f) = (Vss.pick labels id xs).map f := by
  induction labels generalizing xs with
  | nil => simp [Vss.pick]
  | cons l ls ih =>
    cases xs with
    | nil => simp [Vss.pick]
    | cons x xs =>
      have := ih xs
      simp only [Vss.pick] at this ⊢
      by_cases h : l = id <;> simp [List.filter_cons, h, this]

theorem pick_length {α β : Type} (labels : List Nat) (id : Nat) (xs : List α) (ys : List β)
    (h : xs.length = ys.length) : (Vss.pick labels id xs).length = (Vss.pick labels id ys).length := by
  induction labels generalizing xs ys with
  | nil => simp [Vss.pick]
  | cons l ls ih =>
    cases xs with
    | nil => cases ys with
      | nil => simp [Vss.pick]
      | cons y ys => simp at h
    | cons x xs => cases ys with
      | nil => simp at h
      | cons y ys =>
        have := ih xs ys (by simpa using h)
        simp only [Vss.pick] at this ⊢
        by_cases h' : l = id <;> simp [List.filter_cons, h', this]

theorem pick_zipWith {α β γ : Type} (f : α → β → γ) (labels : List Nat) (id : Nat)
    (xs : List α) (ys : List β) :
    Vss.pick labels id (List.zipWith f xs ys) = List.zipWith f (Vss.pick labels id xs) (Vss.pick labels id ys) := by
  induction labels generalizing xs ys with
  | nil => simp [Vss.pick]
  | cons l ls ih =>
    cases xs with
    | nil => simp [Vss.pick]
    | cons x xs => cases ys with
      | nil => simp [Vss.pick]
      | cons y ys =>
        have := ih xs ys
        simp only [Vss.pick] at this ⊢
        by_cases h' : l = id <;> simp [List.filter_cons, h', this]

theorem smul_gen_injective (g : G) (hg : ∀ a : F, a • g = 0 → a = 0) :
    Function.Injective fun a : F => a • g := by
  intro a b hab
  have : (a - b) • g = 0 := by simp only [sub_smul]; exact sub_eq_zero.mpr hab
  exact sub_eq_zero.mp (hg _ this)

/-- changing entry `k` of `V` by `δ` changes `row · V` by `rowₖ • δ` (`rowₖ = 0` beyond the row) -/
theorem gdot_set (row : List F) (V : List G) (k : Nat) (δ : G) (hk : k < V.length) :
    gdot row (V.set k (V.getD k 0 + δ)) = gdot row V + row.getD k 0 • δ := by
  induction row generalizing V k with
  | nil => simp [gdot_nil_left]
  | cons c cs ih =>
    cases V with
    | nil => simp at hk
    | cons P Ps =>
      cases k with
      | zero => simp [gdot_cons, smul_add]; abel
      | succ k =>
        have := ih Ps k (by simpa using hk)
        simp only [List.getD_eq_getElem?_getD] at this
        simp [gdot_cons, this, add_assoc]

theorem gdot_add (row : List F) (V W : List G) (h : V.length = W.length) :
    gdot row (List.zipWith (· + ·) V W) = gdot row V + gdot row W := by
  induction row generalizing V W with
  | nil => simp [gdot_nil_left]
  | cons c cs ih =>
    cases V with
    | nil => cases W with
      | nil => simp [gdot_nil_right]
      | cons Q Qs => simp at h
    | cons P Ps => cases W with
      | nil => simp at h
      | cons Q Qs =>
        have := ih Ps Qs (by simpa using h)
        simp [gdot_cons, this, smul_add]; abel

theorem gdot_append (row e : List F) (V Z : List G) (h : row.length = V.length) :
    gdot (row ++ e) (V ++ Z) = gdot row V + gdot e Z := by
  induction row generalizing V with
  | nil => cases V with
    | nil => simp [gdot_nil_left]
    | cons P Ps => simp at h
  | cons c cs ih =>
    cases V with
    | nil => simp at h
    | cons P Ps =>
      have := ih Ps (by simpa using h)
      simp [gdot_cons, this, add_assoc]

theorem gdot_replicate_zero (e : List F) (m : Nat) : gdot e (List.replicate m (0 : G)) = 0 := by
  induction e generalizing m with
  | nil => simp [gdot_nil_left]
  | cons c cs ih =>
    cases m with
    | zero => simp [gdot_nil_right]
    | succ m => simp [List.replicate_succ, gdot_cons, ih]

/-- Pedersen column: `Σ rowₖ • (aₖ • g + bₖ • h) = (row · a) • g + (row · b) • h` -/
theorem gdot_pedersen (row rg rh : List F) (g h : G) (hl : rg.length = rh.length) :
    gdot row (pedersenColumn rg rh g h) = dot row rg • g + dot row rh • h := by
  induction row generalizing rg rh with
  | nil => simp [gdot_nil_left, dot_nil_left]
  | cons c cs ih =>
    cases rg with
    | nil => cases rh with
      | nil => simp [pedersenColumn, gdot_nil_right, dot_nil_right]
      | cons y ys => simp at hl
    | cons x xs => cases rh with
      | nil => simp at hl
      | cons y ys =>
        have := ih xs ys (by simpa using hl)
        simp only [pedersenColumn] at this ⊢
        simp [gdot_cons, dot_cons, this, add_smul, mul_smul, smul_add]; abel

theorem pedersenLiftedEq_iff (g h : G) (s b : List F) (Ps : List G) :
    pedersenLiftedEq g h s b Ps = true ↔
      s.length = b.length ∧ List.zipWith (fun x y => x • g + y • h) s b = Ps := by
  induction s generalizing b Ps with
  | nil => cases b <;> cases Ps <;> simp [pedersenLiftedEq]
  | cons x xs ih =>
    cases b with
    | nil => cases Ps <;> simp [pedersenLiftedEq]
    | cons y ys => cases Ps with
      | nil => simp [pedersenLiftedEq]
      | cons P Ps => simp [pedersenLiftedEq, ih, and_assoc, and_left_comm]

end BronVerif.Lemmas.Vss
