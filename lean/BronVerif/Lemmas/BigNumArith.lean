import Mathlib.Data.ZMod.Basic
import Mathlib.Data.Nat.ModEq
import Mathlib.Tactic.Ring
import Mathlib.Tactic.Linarith
import Mathlib.Tactic.LinearCombination
import BronVerif.Model.BigNum
import BronVerif.Lemmas.BigNumInv
/-!
# CRT recombination, the division mirrors, signed exponents, inverses (helper lemmas for `Props/C17`)
-/
namespace BronVerif.Lemmas.BigNumArith
open BronVerif.BigNum

/-! ### modular exponentiation -/

theorem powModAux_eq (m : Nat) : ∀ (fuel b e acc : Nat), e < 2 ^ fuel →
    powModAux m fuel b e (acc % m) = acc * b ^ e % m := by
  intro fuel
  induction fuel with
  | zero =>
    intro b e acc h
    have : e = 0 := by simpa using h
    subst this; simp [powModAux]
  | succ f ih =>
    intro b e acc h
    unfold powModAux
    by_cases he : e = 0
    · subst he; simp
    · simp only [he, if_false]
      have hlt : e / 2 < 2 ^ f := by
        rw [Nat.div_lt_iff_lt_mul (by norm_num)]; rw [pow_succ] at h; exact h
      have hpow : b ^ e = (b * b) ^ (e / 2) * b ^ (e % 2) := by
        rw [← pow_two, ← pow_mul, ← pow_add, Nat.div_add_mod]
      by_cases hodd : e % 2 = 1
      · simp only [hodd, if_true]
        rw [Nat.mod_mul_mod, ih _ _ _ hlt, hpow, hodd, pow_one]
        rw [Nat.mul_mod, Nat.pow_mod, Nat.mod_mod, ← Nat.pow_mod, ← Nat.mul_mod]
        ring_nf
      · have h0 : e % 2 = 0 := by omega
        simp only [hodd, if_false]
        rw [ih _ _ _ hlt, hpow, h0, pow_zero, mul_one]
        rw [Nat.mul_mod, Nat.pow_mod, Nat.mod_mod, ← Nat.pow_mod, ← Nat.mul_mod]

/-- the model's square-and-multiply is exponentiation modulo `m` (every base, exponent, modulus) -/
theorem powMod_eq (b e m : Nat) : powMod b e m = b ^ e % m := by
  unfold powMod
  rw [powModAux_eq m _ _ _ 1 (Nat.lt_log2_self), one_mul, Nat.pow_mod, Nat.mod_mod, ← Nat.pow_mod]

/-! ### Garner recombination -/

theorem crt2_spec (a b p q : Nat) (hp : 1 < p) (h : Nat.Coprime p q) (hb : b < q) :
    ∃ v, crt2 a b p q = some v ∧ v % p = a % p ∧ v % q = b ∧ v < p * q := by
  have hcop : Nat.Coprime (q % p) p := by
    unfold Nat.Coprime; rw [← Nat.gcd_rec]; exact h
  obtain ⟨hval, hiff⟩ := BronVerif.Lemmas.BigNumInv.invMod_spec (q % p) p hp
  obtain ⟨qi, hqi⟩ := Option.isSome_iff_exists.mp (hiff.mpr hcop)
  obtain ⟨hqilt, hqi1⟩ := hval qi hqi
  have hpos : 0 < p := by omega
  have : NeZero p := ⟨by omega⟩
  have hq1 : ((q : ℕ) : ZMod p) * (qi : ZMod p) = 1 := by
    have e : (((q % p) * qi : ℕ) : ZMod p) = ((1 : ℕ) : ZMod p) := by
      rw [ZMod.natCast_eq_natCast_iff', hqi1, Nat.mod_eq_of_lt hp]
    push_cast [ZMod.natCast_mod] at e
    exact e
  have hbq : b % q = b := Nat.mod_eq_of_lt hb
  have hle : b % p ≤ a % p + p := by
    have := Nat.mod_lt b hpos; omega
  refine ⟨b % q + q * ((a % p + p - b % p) % p * qi % p), ?_, ?_, ?_, ?_⟩
  · unfold crt2; rw [hqi]
  · rw [hbq, ← ZMod.natCast_eq_natCast_iff']
    push_cast [ZMod.natCast_mod, Nat.cast_sub hle]
    rw [ZMod.natCast_self]
    linear_combination ((a : ZMod p) - (b : ZMod p)) * hq1
  · rw [hbq, Nat.add_mul_mod_self_left, Nat.mod_eq_of_lt hb]
  · rw [hbq]
    have hh : (a % p + p - b % p) % p * qi % p < p := Nat.mod_lt _ hpos
    calc b + q * ((a % p + p - b % p) % p * qi % p)
        < q + q * ((a % p + p - b % p) % p * qi % p) := by omega
      _ = q * ((a % p + p - b % p) % p * qi % p + 1) := by ring
      _ ≤ q * p := Nat.mul_le_mul_left _ hh
      _ = p * q := Nat.mul_comm _ _

/-! ### the division mirrors -/

theorem tdivFromAbs_eq (a b : Int) : tdivFromAbs a b = (Int.tdiv a b, Int.tmod a b) := by
  have hq : ∀ m n : Nat, (m : Int).tdiv n = ((m / n : ℕ) : Int) := fun m n => (Int.ofNat_tdiv m n).symm
  have hr : ∀ m n : Nat, (m : Int).tmod n = ((m % n : ℕ) : Int) := fun m n => (Int.ofNat_tmod m n).symm
  unfold tdivFromAbs
  obtain ⟨m, rfl | rfl⟩ := Int.eq_nat_or_neg a <;> obtain ⟨n, rfl | rfl⟩ := Int.eq_nat_or_neg b
  all_goals simp only [Int.natAbs_neg, Int.natAbs_natCast, Int.neg_tdiv, Int.tdiv_neg, Int.neg_tmod,
    Int.tmod_neg, hq, hr, neg_neg]
  · have hm0 : ¬ ((m : Int) < 0) := by omega
    have hn0 : ¬ ((n : Int) < 0) := by omega
    simp [hm0, hn0]
  · have hm0 : ¬ ((m : Int) < 0) := by omega
    by_cases hn : n = 0
    · subst hn; simp
    · have hn0 : 0 < n := Nat.pos_of_ne_zero hn
      simp [hm0, hn0]
  · have hn0 : ¬ ((n : Int) < 0) := by omega
    by_cases hm : m = 0
    · subst hm; simp
    · have hm0 : 0 < m := Nat.pos_of_ne_zero hm
      simp [hm0, hn0]
  · by_cases hm : m = 0
    · subst hm; simp
    · by_cases hn : n = 0
      · subst hn; simp
      · have hm0 : 0 < m := Nat.pos_of_ne_zero hm
        have hn0 : 0 < n := Nat.pos_of_ne_zero hn
        simp [hm0, hn0]

/-- the magnitude-based derivation for a positive divisor -/
theorem ediv_core (a : Int) (B : Nat) (hB : 0 < B) :
    a / (B : Int) = (if ¬ a < 0 then ((a.natAbs / B : Nat) : Int) else if ((a.natAbs % B : Nat) : Int) = 0 then -((a.natAbs / B : Nat) : Int) else -((a.natAbs / B : Nat) : Int) - 1) ∧
    a % (B : Int) = (if ¬ a < 0 then ((a.natAbs % B : Nat) : Int) else if ((a.natAbs % B : Nat) : Int) = 0 then 0 else (B : Int) - ((a.natAbs % B : Nat) : Int)) := by
  have hBI : (0 : Int) < B := by omega
  have hdm : (B : Int) * ((a.natAbs / B : Nat) : Int) + ((a.natAbs % B : Nat) : Int) = (a.natAbs : Int) := by
    exact_mod_cast Nat.div_add_mod a.natAbs B
  have hrlt : ((a.natAbs % B : Nat) : Int) < B := by exact_mod_cast Nat.mod_lt a.natAbs hB
  have hr0 : (0 : Int) ≤ ((a.natAbs % B : Nat) : Int) := by omega
  generalize ((a.natAbs / B : Nat) : Int) = qq at *
  generalize ((a.natAbs % B : Nat) : Int) = rr at *
  rw [Int.ediv_emod_unique hBI]
  by_cases ha : a < 0
  · have habs : (a.natAbs : Int) = -a := by omega
    simp only [ha, not_true_eq_false, if_false]
    by_cases hz : rr = 0
    · simp only [hz, if_true]
      refine ⟨by rw [hz] at hdm; linarith, le_refl _, hBI⟩
    · simp only [hz, if_false]
      refine ⟨by linarith [mul_comm (B : Int) qq], by linarith, by omega⟩
  · have habs : (a.natAbs : Int) = a := by omega
    simp only [ha, not_false_eq_true, if_true]
    exact ⟨by linarith, hr0, hrlt⟩

theorem edivFromAbs_eq (a b : Int) (hb : b ≠ 0) : edivFromAbs a b = (a / b, a % b) := by
  have hB : 0 < b.natAbs := Int.natAbs_pos.mpr hb
  obtain ⟨h1, h2⟩ := ediv_core a b.natAbs hB
  unfold edivFromAbs
  dsimp only
  rw [← h1, ← h2]
  by_cases hneg : b < 0
  · have e : b = -(b.natAbs : Int) := by omega
    rw [if_pos hneg]
    conv_rhs => rw [e, Int.ediv_neg, Int.emod_neg]
  · have e : b = (b.natAbs : Int) := by omega
    rw [if_neg hneg]
    conv_rhs => rw [e]

/-- `ratFloor a d = ⌊a/d⌋`, `ratCeil a d = ⌈a/d⌉` in their integer characterisations -/
theorem ratFloor_ceil_spec (a : Int) (d : Nat) (hd : 0 < d) :
    ((d : Int) * ratFloor a d ≤ a ∧ a < (d : Int) * (ratFloor a d + 1)) ∧
    ((d : Int) * (ratCeil a d - 1) < a ∧ a ≤ (d : Int) * ratCeil a d) := by
  have hd' : ((d : Nat) : Int) ≠ 0 := by omega
  have hdI : (0 : Int) < d := by omega
  unfold ratFloor ratCeil
  rw [edivFromAbs_eq a d hd']
  dsimp only
  have h1 := Int.mul_ediv_add_emod a d
  have h2 := Int.emod_nonneg a hd'
  have h3 := Int.emod_lt_of_pos a hdI
  refine ⟨⟨by linarith, by linarith⟩, ?_⟩
  by_cases hz : a % (d : Int) = 0
  · rw [if_pos hz]; constructor <;> linarith
  · rw [if_neg hz]
    have : 0 < a % (d : Int) := lt_of_le_of_ne h2 (Ne.symm hz)
    constructor <;> linarith

theorem symMod_spec (x : Int) (m : Nat) (hm : 0 < m) :
    (m : Int) ∣ symMod x m - x ∧ -(m : Int) ≤ 2 * symMod x m ∧ 2 * symMod x m < m := by
  have hm' : ((m : Nat) : Int) ≠ 0 := by omega
  have hmI : (0 : Int) < m := by omega
  have h1 := Int.mul_ediv_add_emod x m
  have h2 := Int.emod_nonneg x hm'
  have h3 := Int.emod_lt_of_pos x hmI
  unfold symMod
  dsimp only
  by_cases h : 2 * (x % (m : Int)) ≥ m
  · rw [if_pos h]
    refine ⟨⟨-(x / (m : Int)) - 1, by linarith⟩, by linarith, by linarith⟩
  · rw [if_neg h]
    refine ⟨⟨-(x / (m : Int)), by linarith⟩, by linarith, by linarith⟩

/-! ### inverses and signed exponents -/

theorem invMod_unique (a m x y : Nat) (hx : x < m) (hy : y < m) (h1 : a * x % m = 1) (h2 : a * y % m = 1) : x = y := by
  have hm : 1 < m := by
    by_contra hle
    have h01 : m = 0 ∨ m = 1 := by omega
    rcases h01 with rfl | rfl
    · omega
    · omega
  have e1 : a * x ≡ 1 [MOD m] := by unfold Nat.ModEq; rw [h1, Nat.mod_eq_of_lt hm]
  have e2 : a * y ≡ 1 [MOD m] := by unfold Nat.ModEq; rw [h2, Nat.mod_eq_of_lt hm]
  have : x ≡ y [MOD m] := by
    calc x = x * 1 := (Nat.mul_one x).symm
      _ ≡ x * (a * y) [MOD m] := (e2.mul_left x).symm
      _ = (a * x) * y := by ring
      _ ≡ 1 * y [MOD m] := e1.mul_right y
      _ = y := Nat.one_mul y
  exact Nat.ModEq.eq_of_lt_of_lt this hx hy

/-- negative exponent of a unit: the result is the inverse of `x^|e|` -/
theorem powModI_neg (x : Nat) (e : Int) (m : Nat) (hm : 1 < m) (he : e < 0) :
    (Nat.Coprime x m → ∃ v, powModI x e m = some v ∧ v < m ∧ v * x ^ e.natAbs % m = 1) ∧
    (¬ Nat.Coprime x m → powModI x e m = none) := by
  obtain ⟨hval, hiff⟩ := BronVerif.Lemmas.BigNumInv.invMod_spec x m hm
  have he' : ¬ e ≥ 0 := by omega
  have hm1 : ¬ m = 1 := by omega
  constructor
  · intro hc
    obtain ⟨xi, hxi⟩ := Option.isSome_iff_exists.mp (hiff.mpr hc)
    obtain ⟨_, hinv⟩ := hval xi hxi
    refine ⟨powMod xi e.natAbs m, ?_, ?_, ?_⟩
    · unfold powModI; simp only [he', hm1, if_false, hxi, Option.map_some]
    · rw [powMod_eq]; exact Nat.mod_lt _ (by omega)
    · rw [powMod_eq]
      have e1 : x * xi ≡ 1 [MOD m] := by unfold Nat.ModEq; rw [hinv, Nat.mod_eq_of_lt hm]
      have e2 : xi ^ e.natAbs % m * x ^ e.natAbs ≡ 1 [MOD m] := by
        calc xi ^ e.natAbs % m * x ^ e.natAbs ≡ xi ^ e.natAbs * x ^ e.natAbs [MOD m] :=
              (Nat.mod_modEq _ _).mul_right _
          _ = (x * xi) ^ e.natAbs := by rw [mul_pow]; ring
          _ ≡ 1 ^ e.natAbs [MOD m] := e1.pow _
          _ = 1 := one_pow _
      unfold Nat.ModEq at e2
      rw [e2, Nat.mod_eq_of_lt hm]
  · intro hc
    have : invMod x m = none := by
      cases hx : invMod x m with
      | none => rfl
      | some v => exact absurd (hiff.mp (by simp [hx])) hc
    unfold powModI; simp only [he', hm1, if_false, this, Option.map_none]

/-! ### capacity -/

theorem trunc_lt (n : Nat) (cap : Int) : trunc n cap < 2 ^ cap.toNat := Nat.mod_lt _ (by positivity)

theorem trunc_eq_self (n : Nat) (cap : Int) (h : n < 2 ^ cap.toNat) : trunc n cap = n := Nat.mod_eq_of_lt h

theorem trunc_modEq (n : Nat) (cap : Int) : trunc n cap ≡ n [MOD 2 ^ cap.toNat] := Nat.mod_modEq _ _

theorem add_lt_cap (x y cx cy : Nat) (hx : x < 2 ^ cx) (hy : y < 2 ^ cy) : x + y < 2 ^ (max cx cy + 1) := by
  have h1 : 2 ^ cx ≤ 2 ^ max cx cy := Nat.pow_le_pow_right (by norm_num) (le_max_left _ _)
  have h2 : 2 ^ cy ≤ 2 ^ max cx cy := Nat.pow_le_pow_right (by norm_num) (le_max_right _ _)
  rw [pow_succ]; omega

theorem mul_lt_cap (x y cx cy : Nat) (hx : x < 2 ^ cx) (hy : y < 2 ^ cy) : x * y < 2 ^ (cx + cy) := by
  rw [pow_add]; exact Nat.mul_lt_mul'' hx hy

end BronVerif.Lemmas.BigNumArith
