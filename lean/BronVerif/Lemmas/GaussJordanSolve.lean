import BronVerif.Lemmas.GaussJordan
import Mathlib.Data.List.Nodup
/-!
# Gauss–Jordan: the invariant holds for `gaussJordan`; reading off the solution

`Inv.gaussJordan`: the invariant of `Lemmas/GaussJordan.lean` holds (with `pc = n`) for the state
the model computes.  `Inv.ev_extract` evaluates every reduced row at the extracted vector;
`solveAugmented_some_ev` / `solveAugmented_none_ev` are soundness and completeness in index form.
-/
namespace BronVerif.LinAlg
open Finset
variable {F : Type} [Field F] [DecidableEq F]

theorem Inv.step {aug : Mat F} {n : ℕ} {s : GJ F} {pc : ℕ} (h : Inv aug n s pc) :
    Inv aug n (gjCol s pc) (pc + 1) := by
  unfold gjCol
  split_ifs with hk
  · exact h.skip (fun i hki hi => by have := h.len; omega)
  · split
    · next hn => exact h.skip (fun i hki hi => findPivot_none _ _ _ hn i hki (h.len ▸ hi))
    · next pr hs =>
      obtain ⟨a, b, c⟩ := findPivot_some _ _ _ _ hs
      exact h.pivot a b c

theorem Inv.gaussJordan (aug : Mat F) (n : ℕ) (hW : ∀ r ∈ aug, r.length = n + 1) :
    Inv aug n (gaussJordan aug n) n := by
  unfold LinAlg.gaussJordan
  suffices ∀ t, Inv aug n ((List.range t).foldl gjCol ⟨aug, 0, []⟩) t from this n
  intro t
  induction t with
  | zero => simpa using Inv.init aug n hW
  | succ t ih =>
    rw [List.range_succ, List.foldl_append]
    exact ih.step

omit [DecidableEq F] in
theorem getD_extract (s : GJ F) (n c : ℕ) (hc : c < n) : (extract s n).getD c 0 = pick s n c := by
  simp [extract, List.getD_eq_getElem?_getD, List.getElem?_map, List.getElem?_range hc]

omit [DecidableEq F] in
theorem length_extract (s : GJ F) (n : ℕ) : (extract s n).length = n := by
  simp [extract]

omit [DecidableEq F] in
theorem Inv.term {aug : Mat F} {n : ℕ} {s : GJ F} {pc : ℕ} (h : Inv aug n s pc) (i c : ℕ)
    (hi : i < aug.length) :
    entry s.rows i c * pick s n c = if s.pivots[i]? = some c then entry s.rows i n else 0 := by
  unfold pick
  cases ht : s.pivots.idxOf? c with
  | none =>
    have hc : c ∉ s.pivots := List.idxOf?_eq_none_iff.mp ht
    have : s.pivots[i]? ≠ some c := fun e => hc (List.mem_of_getElem? e)
    simp [this]
  | some t =>
    obtain ⟨htl, htc, -⟩ := List.idxOf?_eq_some_iff.mp ht
    have hu := h.unit t c (by rw [List.getElem?_eq_getElem htl, htc]) i hi
    simp only [hu]
    by_cases hit : i = t
    · subst hit
      simp [List.getElem?_eq_getElem htl, htc]
    · have : s.pivots[i]? ≠ some c := by
        intro e
        obtain ⟨hil, hic⟩ := List.getElem?_eq_some_iff.mp e
        exact hit ((h.nodup.getElem_inj_iff).mp (hic.trans htc.symm))
      simp [hit, this]

omit [DecidableEq F] in
/-- under the invariant at `pc = n`: the value of every reduced row at the extracted vector -/
theorem Inv.ev_extract {aug : Mat F} {n : ℕ} {s : GJ F} (h : Inv aug n s n) (i : ℕ)
    (hi : i < aug.length) :
    ev n (extract s n) (s.rows.getD i []) = if i < s.k then 0 else - entry s.rows i n := by
  have hsum : ∑ c ∈ range n, (s.rows.getD i []).getD c 0 * (extract s n).getD c 0 =
      ∑ c ∈ range n, if s.pivots[i]? = some c then entry s.rows i n else 0 := by
    refine Finset.sum_congr rfl fun c hc => ?_
    rw [getD_extract s n c (Finset.mem_range.mp hc)]
    exact h.term i c hi
  rw [ev, hsum]
  split_ifs with hik
  · have hil : i < s.pivots.length := h.klen ▸ hik
    have hp : s.pivots[i] < n := h.plt _ (List.getElem_mem hil)
    simp only [List.getElem?_eq_getElem hil, Option.some.injEq]
    rw [Finset.sum_ite_eq (range n) s.pivots[i] (fun _ => entry s.rows i n),
      if_pos (Finset.mem_range.mpr hp)]
    exact sub_self _
  · have : s.pivots[i]? = none := List.getElem?_eq_none (by rw [h.klen]; omega)
    simp [this, entry]

omit [DecidableEq F] in
/-- list form ("every row is satisfied") versus index form of "x solves the system" -/
theorem solves_iff_ev (aug : Mat F) (n : ℕ) (x : List F) (hx : x.length = n) :
    (∀ row ∈ aug, dot (row.take n) x = row.getD n 0) ↔
      ∀ i < aug.length, ev n x (aug.getD i []) = 0 := by
  constructor
  · intro h i hi
    exact (sat_iff_ev n x _ hx).mp (h _ (getD_mem_of_lt aug [] i hi))
  · intro h row hrow
    obtain ⟨i, hi, rfl⟩ := exists_getD_of_mem aug [] row hrow
    exact (sat_iff_ev n x _ hx).mpr (h i hi)

theorem solveAugmented_some_ev (aug : Mat F) (n : ℕ) (hW : ∀ r ∈ aug, r.length = n + 1)
    (x : List F) (h : solveAugmented aug n = some x) :
    x.length = n ∧ ∀ i < aug.length, ev n x (aug.getD i []) = 0 := by
  have inv := Inv.gaussJordan aug n hW
  unfold solveAugmented at h
  simp only at h
  split_ifs at h with hany
  obtain rfl := Option.some.inj h
  refine ⟨length_extract _ _, (inv.sol _).mp fun i hi => ?_⟩
  rw [inv.ev_extract i hi]
  split_ifs with hik
  · rfl
  · have hi' : i < (gaussJordan aug n).rows.length := inv.len ▸ hi
    have hmem : (gaussJordan aug n).rows.getD i [] ∈
        (gaussJordan aug n).rows.drop (gaussJordan aug n).k := by
      rw [List.mem_drop_iff_getElem]
      refine ⟨i - (gaussJordan aug n).k, by omega, ?_⟩
      have e : (gaussJordan aug n).k + (i - (gaussJordan aug n).k) = i := by omega
      simp [e, List.getD_eq_getElem?_getD, List.getElem?_eq_getElem hi']
    have hz : ((gaussJordan aug n).rows.getD i []).getD n 0 = 0 := by
      by_contra hne
      exact hany (List.any_eq_true.mpr ⟨_, hmem, by simpa using hne⟩)
    unfold entry; rw [hz, neg_zero]

theorem solveAugmented_none_ev (aug : Mat F) (n : ℕ) (hW : ∀ r ∈ aug, r.length = n + 1)
    (h : solveAugmented aug n = none) (x : List F) :
    ¬ ∀ i < aug.length, ev n x (aug.getD i []) = 0 := by
  have inv := Inv.gaussJordan aug n hW
  unfold solveAugmented at h
  simp only at h
  split_ifs at h with hany
  obtain ⟨r, hr, hne⟩ := List.any_eq_true.mp hany
  obtain ⟨j, hj, rfl⟩ := List.mem_drop_iff_getElem.mp hr
  intro hsol
  have hi : (gaussJordan aug n).k + j < aug.length := by rw [← inv.len]; omega
  have h0 := (inv.sol x).mpr hsol _ hi
  have hrow : (gaussJordan aug n).rows.getD ((gaussJordan aug n).k + j) [] =
      (gaussJordan aug n).rows[(gaussJordan aug n).k + j] := by
    rw [List.getD_eq_getElem?_getD, List.getElem?_eq_getElem (by omega)]; rfl
  have hsum : ∑ c ∈ range n, ((gaussJordan aug n).rows.getD ((gaussJordan aug n).k + j) []).getD c 0
      * x.getD c 0 = 0 := by
    refine Finset.sum_eq_zero fun c hc => ?_
    have := inv.zero _ (Nat.le_add_right _ j) hi c (Finset.mem_range.mp hc)
    unfold entry at this
    rw [this, zero_mul]
  rw [ev, hsum, zero_sub, neg_eq_zero, hrow] at h0
  exact of_decide_eq_true hne h0

/-! ## the augmented systems built by `solveRight` / `solveLeft` -/

omit [DecidableEq F] in
/-- rows of the augmented matrix `[M | b]` are satisfied by `x` iff `M x = b` -/
theorem augmented_solves_iff (m : Mat F) (n : ℕ) (b x : List F) (hm : ∀ r ∈ m, r.length = n)
    (hb : b.length = m.length) :
    (∀ row ∈ List.zipWith (fun r bi => r ++ [bi]) m b, dot (row.take n) x = row.getD n 0) ↔
      mulVec m x = b := by
  induction m generalizing b with
  | nil =>
    cases b with
    | nil => simp [mulVec]
    | cons _ _ => simp at hb
  | cons r m ih =>
    cases b with
    | nil => simp at hb
    | cons bi b =>
      have hr : r.length = n := hm r (List.mem_cons_self)
      have hm' : ∀ r' ∈ m, r'.length = n := fun r' h => hm r' (List.mem_cons_of_mem _ h)
      have hb' : b.length = m.length := by simpa using hb
      have h1 : (r ++ [bi]).take n = r := by rw [← hr]; exact List.take_left
      have h2 : (r ++ [bi]).getD n 0 = bi := by
        rw [← hr]; simp [List.getD_eq_getElem?_getD]
      simp only [List.zipWith_cons_cons, List.forall_mem_cons, h1, h2, ih b hm' hb']
      simp [mulVec]

omit [Field F] [DecidableEq F] in
theorem augmented_width (m : Mat F) (n : ℕ) (b : List F) (hm : ∀ r ∈ m, r.length = n) :
    ∀ row ∈ List.zipWith (fun r bi => r ++ [bi]) m b, row.length = n + 1 := by
  intro row hrow
  obtain ⟨i, hi, rfl⟩ := List.mem_iff_getElem.mp hrow
  simp only [List.getElem_zipWith, List.length_append, List.length_singleton]
  rw [hm _ (List.getElem_mem _)]

omit [Field F] [DecidableEq F] in
theorem transposeN_width {F : Type} [OfNat F 0] (m : Mat F) (n : ℕ) :
    ∀ r ∈ transposeN m n, r.length = m.length := by
  intro r hr
  simp only [transposeN, List.mem_map] at hr
  obtain ⟨j, -, rfl⟩ := hr
  simp

end BronVerif.LinAlg
