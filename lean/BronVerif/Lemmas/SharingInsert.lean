import BronVerif.Lemmas.SharingVand
/-!
# One Liu–Cao–Wong insertion step on lists of rows (helper lemmas for C02)

`insert_spans`: in a list of rows of width `d`, replacing one row `prow` by the block
`[prow | y, y², …, y^(t-1)]` for nodes `y ∈ ys` (and padding every other row with `t-1` zeros) gives a
programme that spans `e₀` iff the old one does — where the old row `prow` is available exactly when
there are at least `t` nodes.  Pure linear algebra on `SpansL`; no trees.
-/
namespace BronVerif.Lemmas.SharingInsert
open BronVerif.LinAlg BronVerif.Access BronVerif.Lemmas.SharingAccepts BronVerif.Lemmas.SharingVand

variable {F : Type} [Field F]

theorem wsum_append (R1 R2 : Mat F) (x1 x2 : List F) (j : ℕ) (h : x1.length = R1.length) :
    wsum (R1 ++ R2) (x1 ++ x2) j = wsum R1 x1 j + wsum R2 x2 j := by
  unfold wsum colOf
  rw [List.map_append, List.zipWith_append (by simp [h]), List.sum_append]

theorem wsum_nil (x : List F) (j : ℕ) : wsum ([] : Mat F) x j = 0 := by simp [wsum, colOf]

theorem wsum_singleton (r : List F) (g : F) (j : ℕ) : wsum [r] [g] j = r.getD j 0 * g := by
  simp [wsum, colOf]

/-- a block of rows that all have the same entry `c` in column `j` -/
theorem wsum_const (R : Mat F) (x : List F) (j : ℕ) (c : F) (h : ∀ r ∈ R, r.getD j 0 = c)
    (hx : x.length = R.length) : wsum R x j = c * x.sum := by
  unfold wsum colOf
  induction R generalizing x with
  | nil =>
    have : x = [] := List.length_eq_zero_iff.mp (by simpa using hx)
    subst this; simp
  | cons r R ih =>
    cases x with
    | nil => simp at hx
    | cons a x =>
      simp only [List.length_cons, Nat.add_right_cancel_iff] at hx
      simp only [List.map_cons, List.zipWith_cons_cons, List.sum_cons]
      rw [ih x (fun r' hr' => h r' (List.mem_cons_of_mem _ hr')) hx, h r List.mem_cons_self]
      ring

theorem wsum_zero_col (R : Mat F) (x : List F) (j : ℕ) (h : ∀ r ∈ R, r.getD j 0 = 0) :
    wsum R x j = 0 := by
  unfold wsum colOf
  induction R generalizing x with
  | nil => simp
  | cons r R ih =>
    cases x with
    | nil => simp
    | cons a x =>
      simp only [List.map_cons, List.zipWith_cons_cons, List.sum_cons]
      rw [ih x (fun r' hr' => h r' (List.mem_cons_of_mem _ hr')), h r List.mem_cons_self]
      ring

theorem wsum_congr_col (R R' : Mat F) (x : List F) (j : ℕ)
    (h : R.map (·.getD j 0) = R'.map (·.getD j 0)) : wsum R x j = wsum R' x j := by
  unfold wsum colOf; rw [h]

/-- padding on the right does not change the first `d` columns -/
theorem wsum_pad_lt (R : Mat F) (pad : List F) (x : List F) (d j : ℕ) (hR : ∀ r ∈ R, r.length = d)
    (hj : j < d) : wsum (R.map (· ++ pad)) x j = wsum R x j := by
  apply wsum_congr_col
  rw [List.map_map]
  refine List.map_congr_left fun r hr => ?_
  have : j < r.length := by rw [hR r hr]; exact hj
  simp [List.getD_eq_getElem?_getD, List.getElem?_append_left this]

/-- zero padding: the new columns are zero -/
theorem wsum_pad_ge (R : Mat F) (n : ℕ) (x : List F) (d j : ℕ) (hR : ∀ r ∈ R, r.length = d)
    (hj : d ≤ j) : wsum (R.map (· ++ List.replicate n (0 : F))) x j = 0 := by
  apply wsum_zero_col
  intro r hr
  obtain ⟨r0, hr0, rfl⟩ := List.mem_map.mp hr
  have hl : r0.length ≤ j := by rw [hR r0 hr0]; exact hj
  rw [List.getD_eq_getElem?_getD, List.getElem?_append_right hl]
  by_cases hlt : j - r0.length < n
  · simp [hlt]
  · simp [hlt]

/-- the block of the children: `[prow | y, y², …, y^(t-1)]` -/
def block (prow : List F) (ys : List F) (t : ℕ) : Mat F :=
  ys.map fun y => prow ++ ((List.range t).map fun j => y ^ j).drop 1

theorem block_length (prow ys : List F) (t : ℕ) : (block prow ys t).length = ys.length := by
  simp [block]

theorem block_row_length (prow ys : List F) (t d : ℕ) (hp : prow.length = d) :
    ∀ r ∈ block prow ys t, r.length = d + (t - 1) := by
  intro r hr
  obtain ⟨y, -, rfl⟩ := List.mem_map.mp hr
  simp [hp]

theorem wsum_block_lt (prow ys x : List F) (t d j : ℕ) (hp : prow.length = d) (hj : j < d)
    (hx : x.length = ys.length) : wsum (block prow ys t) x j = prow.getD j 0 * x.sum := by
  refine wsum_const _ x j _ ?_ (by simpa [block] using hx)
  intro r hr
  obtain ⟨y, -, rfl⟩ := List.mem_map.mp hr
  have : j < prow.length := hp ▸ hj
  simp [List.getD_eq_getElem?_getD, List.getElem?_append_left this]

theorem wsum_block_ge (prow ys x : List F) (t d k : ℕ) (hp : prow.length = d) (hk : k + 1 < t) :
    wsum (block prow ys t) x (d + k) = msum ys x (k + 1) := by
  unfold wsum colOf msum block
  congr 2
  rw [List.map_map]
  refine List.map_congr_left fun y _ => ?_
  have hl : prow.length ≤ d + k := by omega
  simp only [Function.comp_def, List.getD_eq_getElem?_getD, List.getElem?_append_right hl, hp,
    Nat.add_sub_cancel_left, List.getElem?_drop, List.getElem?_map]
  have h1 : 1 + k < t := by omega
  rw [List.getElem?_range h1]
  simp [Nat.add_comm]

theorem split_length (x : List F) (a b : ℕ) (h : x.length = a + b) :
    ∃ x1 x2 : List F, x = x1 ++ x2 ∧ x1.length = a ∧ x2.length = b :=
  ⟨x.take a, x.drop a, (List.take_append_drop a x).symm, by simp [h], by simp [h]⟩

theorem msum_smul (ys w : List F) (g : F) (e : ℕ) : msum ys (w.map (g * ·)) e = g * msum ys w e := by
  unfold msum
  generalize ys.map (· ^ e) = zs
  induction zs generalizing w with
  | nil => simp
  | cons z zs ih =>
    cases w with
    | nil => simp
    | cons a w =>
      simp only [List.map_cons, List.zipWith_cons_cons, List.sum_cons, ih w]
      ring

theorem msum_zero_weights (ys : List F) (n e : ℕ) : msum ys (List.replicate n (0 : F)) e = 0 := by
  unfold msum
  generalize ys.map (· ^ e) = zs
  induction zs generalizing n with
  | nil => simp
  | cons z zs ih =>
    cases n with
    | zero => simp
    | succ n => simp [List.replicate_succ, ih n]

theorem sum_map_mul (w : List F) (g : F) : (w.map (g * ·)).sum = g * w.sum := by
  induction w with
  | nil => simp
  | cons a w ih => simp [ih, mul_add]

/-- **Insertion step.** -/
theorem insert_spans (A B : Mat F) (prow ys : List F) (d t : ℕ) (ht : 0 < t) (hd : 0 < d)
    (hA : ∀ r ∈ A, r.length = d) (hB : ∀ r ∈ B, r.length = d) (hp : prow.length = d)
    (hnd : ys.Nodup) (h0 : ∀ y ∈ ys, y ≠ 0) :
    SpansL (A.map (· ++ List.replicate (t - 1) (0 : F)) ++ block prow ys t ++
        B.map (· ++ List.replicate (t - 1) (0 : F))) (d + t - 1) ↔
      SpansL (A ++ (if t ≤ ys.length then [prow] else []) ++ B) d := by
  set pad : List F := List.replicate (t - 1) (0 : F) with hpad
  have hdt : d + t - 1 = d + (t - 1) := by omega
  -- column sums of the new programme
  have hnew_lt : ∀ (xa xk xb : List F) (j : ℕ), xa.length = A.length → xk.length = ys.length → j < d →
      wsum (A.map (· ++ pad) ++ block prow ys t ++ B.map (· ++ pad)) (xa ++ xk ++ xb) j =
        wsum A xa j + prow.getD j 0 * xk.sum + wsum B xb j := by
    intro xa xk xb j ha hk hj
    rw [wsum_append _ _ _ _ _ (by simp [ha, hk, block_length]), wsum_append _ _ _ _ _ (by simp [ha]),
      wsum_pad_lt A pad xa d j hA hj, wsum_pad_lt B pad xb d j hB hj,
      wsum_block_lt prow ys xk t d j hp hj hk]
  have hnew_ge : ∀ (xa xk xb : List F) (k : ℕ), xa.length = A.length → xk.length = ys.length →
      k + 1 < t →
      wsum (A.map (· ++ pad) ++ block prow ys t ++ B.map (· ++ pad)) (xa ++ xk ++ xb) (d + k) =
        msum ys xk (k + 1) := by
    intro xa xk xb k ha hk hkt
    rw [wsum_append _ _ _ _ _ (by simp [ha, hk, block_length]), wsum_append _ _ _ _ _ (by simp [ha]),
      wsum_pad_ge A (t - 1) xa d (d + k) hA (by omega), wsum_pad_ge B (t - 1) xb d (d + k) hB (by omega),
      wsum_block_ge prow ys xk t d k hp hkt]
    ring
  constructor
  · rintro ⟨x', hx', hs'⟩
    have hlen : x'.length = (A.length + ys.length) + B.length := by
      simp only [List.length_append, List.length_map, block_length] at hx'
      omega
    obtain ⟨xab, xb, rfl, hab, hb⟩ := split_length x' _ _ hlen
    obtain ⟨xa, xk, rfl, ha, hk⟩ := split_length xab _ _ hab
    have hmom : ∀ e, 1 ≤ e → e < t → msum ys xk e = 0 := by
      intro e he1 het
      obtain ⟨k, rfl⟩ : ∃ k, e = k + 1 := ⟨e - 1, by omega⟩
      have := hs' (d + k) (by omega)
      rw [hnew_ge xa xk xb k ha hk het, if_neg (by omega)] at this
      exact this
    by_cases hle : t ≤ ys.length
    · rw [if_pos hle]
      refine ⟨xa ++ [xk.sum] ++ xb, by simp [ha, hb], fun j hj => ?_⟩
      rw [wsum_append _ _ _ _ _ (by simp [ha]), wsum_append _ _ _ _ _ ha, wsum_singleton]
      rw [← hs' j (by omega), hnew_lt xa xk xb j ha hk hj]
    · rw [if_neg hle]
      have hz : xk.sum = 0 := sum_zero_of_moments ys xk t hnd h0 hk (by omega) hmom
      refine ⟨xa ++ [] ++ xb, by simp [ha, hb], fun j hj => ?_⟩
      rw [wsum_append _ _ _ _ _ (by simp [ha]), wsum_append _ _ _ _ _ ha, wsum_nil]
      rw [← hs' j (by omega), hnew_lt xa xk xb j ha hk hj, hz]
      ring
  · rintro ⟨x, hx, hs⟩
    by_cases hle : t ≤ ys.length
    · rw [if_pos hle] at hx hs
      have hlen : x.length = (A.length + 1) + B.length := by
        simp only [List.length_append, List.length_singleton] at hx
        omega
      obtain ⟨xag, xb, rfl, hag, hb⟩ := split_length x _ _ hlen
      obtain ⟨xa, xg, rfl, ha, hg⟩ := split_length xag _ _ hag
      obtain ⟨g, rfl⟩ : ∃ g, xg = [g] := List.length_eq_one_iff.mp hg
      obtain ⟨w, hw, hsum, hm⟩ := exists_weights ys t ht hnd hle
      have hk : (w.map (g * ·)).length = ys.length := by simpa using hw
      refine ⟨xa ++ w.map (g * ·) ++ xb, by simp [ha, hb, hw, block_length], fun j hj => ?_⟩
      by_cases hjd : j < d
      · rw [hnew_lt xa _ xb j ha hk hjd, sum_map_mul, hsum, mul_one, ← hs j hjd,
          wsum_append _ _ _ _ _ (by simp [ha]), wsum_append _ _ _ _ _ ha, wsum_singleton]
      · obtain ⟨k, rfl⟩ : ∃ k, j = d + k := ⟨j - d, by omega⟩
        rw [hnew_ge xa _ xb k ha hk (by omega), msum_smul, hm (k + 1) (by omega) (by omega),
          mul_zero, if_neg (by omega)]
    · rw [if_neg hle] at hx hs
      have hlen : x.length = A.length + B.length := by simpa using hx
      obtain ⟨xa, xb, rfl, ha, hb⟩ := split_length x _ _ hlen
      have hk : (List.replicate ys.length (0 : F)).length = ys.length := by simp
      refine ⟨xa ++ List.replicate ys.length (0 : F) ++ xb, by simp [ha, hb, block_length], fun j hj => ?_⟩
      by_cases hjd : j < d
      · rw [hnew_lt xa _ xb j ha hk hjd]
        have := hs j hjd
        rw [show A ++ ([] : Mat F) ++ B = A ++ B by simp, wsum_append _ _ _ _ _ ha] at this
        rw [← this]
        simp
      · obtain ⟨k, rfl⟩ : ∃ k, j = d + k := ⟨j - d, by omega⟩
        rw [hnew_ge xa _ xb k ha hk (by omega), msum_zero_weights, if_neg (by omega)]

end BronVerif.Lemmas.SharingInsert
