import Mathlib.Algebra.BigOperators.Group.Finset.Basic
import Mathlib.Algebra.BigOperators.Ring.Finset
import Mathlib.Algebra.BigOperators.Group.List.Basic
import Mathlib.Algebra.Field.Basic
import Mathlib.Tactic.Ring
import Mathlib.Tactic.Abel
import BronVerif.Lemmas.GaussJordanMatrix
import BronVerif.Lemmas.Vss
import BronVerif.Model.Epoch
/-!
# List-level linear algebra for the epoch model (`Model/Epoch.lean`)

`dot c (M r) = dot (c·M) r` for list matrices, the target vector `e₀`, sums over the holders of a
partition of the rows, heads of column sums.
-/
set_option linter.unusedSectionVars false
set_option linter.unusedSimpArgs false
set_option linter.unusedVariables false
namespace BronVerif.Lemmas.EpochLin
open BronVerif.LinAlg BronVerif.Vss BronVerif.Epoch Finset

variable {F : Type} [Field F] [DecidableEq F]

theorem fsum_eq_sum (xs : List F) : fsum xs = xs.sum := by
  simp [fsum, BronVerif.Lemmas.Vss.foldl_add_eq]

theorem dot_eq_fsum (a b : List F) : dot a b = fsum (List.zipWith (· * ·) a b) := rfl

/-- `⟨c, M r⟩ = ⟨c·M, r⟩` for list matrices (all accesses default to `0`) -/
theorem dot_mulVec_transposeN (M : Mat F) (n : ℕ) (c r : List F) (hr : r.length = n) :
    dot c (mulVec M r) = dot (mulVec (transposeN M n) c) r := by
  have hlen : (mulVec M r).length = M.length := by simp [mulVec]
  have hT : (transposeN M n).length = n := by simp [transposeN]
  have hTlen : (mulVec (transposeN M n) c).length = n := by simp [mulVec, hT]
  rw [dot_eq_sum c (mulVec M r) M.length (by rw [hlen]; exact Nat.min_le_right _ _),
    dot_eq_sum (mulVec (transposeN M n) c) r n (by rw [hr]; exact Nat.min_le_right _ _)]
  have hL : ∀ i ∈ range M.length, c.getD i 0 * (mulVec M r).getD i 0
      = ∑ j ∈ range n, c.getD i 0 * ((M.getD i []).getD j 0 * r.getD j 0) := by
    intro i hi
    rw [getD_mulVec M r i (mem_range.mp hi),
      dot_eq_sum _ _ n (by rw [hr]; exact Nat.min_le_right _ _), mul_sum]
  have hR : ∀ j ∈ range n, (mulVec (transposeN M n) c).getD j 0 * r.getD j 0
      = ∑ i ∈ range M.length, c.getD i 0 * ((M.getD i []).getD j 0 * r.getD j 0) := by
    intro j hj
    have hj' : j < n := mem_range.mp hj
    rw [getD_mulVec _ c j (by rw [hT]; exact hj')]
    have hrow : (transposeN M n).getD j [] = M.map fun row => row.getD j 0 := by
      simp [transposeN, List.getD_eq_getElem?_getD, List.getElem?_map, List.getElem?_range hj']
    rw [hrow, dot_eq_sum _ c M.length (by simp), sum_mul]
    refine sum_congr rfl fun i hi => ?_
    have hi' : i < M.length := mem_range.mp hi
    have hent : (M.map fun row => row.getD j 0).getD i 0 = (M.getD i []).getD j 0 := by
      simp [List.getD_eq_getElem?_getD, List.getElem?_map, List.getElem?_eq_getElem hi']
    rw [hent]; ring
  rw [sum_congr rfl hL, sum_congr rfl hR, sum_comm]

theorem e0_length (n : ℕ) : (Vss.e0 (F := F) n).length = n := by simp [Vss.e0]

/-- `⟨e₀, r⟩ = r₀` -/
theorem dot_e0 (n : ℕ) (r : List F) (hr : r.length = n) (hn : 0 < n) :
    dot (Vss.e0 n) r = r.headD 0 := by
  rw [dot_eq_sum _ r n (by rw [hr]; exact Nat.min_le_right _ _)]
  have h : ∀ j ∈ range n, (Vss.e0 (F := F) n).getD j 0 * r.getD j 0
      = if j = 0 then r.getD 0 0 else 0 := by
    intro j hj
    have hj' : j < n := mem_range.mp hj
    have he : (Vss.e0 (F := F) n).getD j 0 = if j = 0 then 1 else 0 := by
      simp [Vss.e0, List.getD_eq_getElem?_getD, List.getElem?_map, List.getElem?_range hj']
    rw [he]
    by_cases h0 : j = 0
    · subst h0; simp
    · simp [h0]
  rw [sum_congr rfl h, Finset.sum_ite_eq']
  have h0 : 0 ∈ range n := mem_range.mpr hn
  rw [if_pos h0]
  cases r <;> simp

/-- a reconstruction vector reconstructs the 0-th entry of every column -/
theorem recon_dot (M : Mat F) (n : ℕ) (c r : List F) (hr : r.length = n) (hn : 0 < n)
    (hc : mulVec (transposeN M n) c = Vss.e0 n) : dot c (mulVec M r) = r.headD 0 := by
  rw [dot_mulVec_transposeN M n c r hr, hc, dot_e0 n r hr hn]

/-! ### sums over a partition of the rows by holder -/

theorem sum_map_zero {α : Type} (Q : List α) : (Q.map fun _ => (0 : F)).sum = 0 := by
  induction Q with
  | nil => simp
  | cons q Q ih => simp [ih]

theorem sum_map_ite_nodup (Q : List ℕ) (hQ : Q.Nodup) (l : ℕ) (x : F) :
    (Q.map fun id => if l = id then x else 0).sum = if l ∈ Q then x else 0 := by
  induction Q with
  | nil => simp
  | cons q Q ih =>
    have hq := List.nodup_cons.mp hQ
    rw [List.map_cons, List.sum_cons, ih hq.2]
    by_cases h : l = q
    · subst h; simp [hq.1]
    · simp [h, List.mem_cons]

theorem pick_cons_sum (l : ℕ) (ls : List ℕ) (x : F) (xs : List F) (id : ℕ) :
    (Vss.pick (l :: ls) id (x :: xs)).sum = (if l = id then x else 0) + (Vss.pick ls id xs).sum := by
  by_cases h : l = id <;> simp [Vss.pick, List.filter_cons, h]

theorem pick_nil_right (labels : List ℕ) (id : ℕ) : Vss.pick labels id ([] : List F) = [] := by
  simp [Vss.pick]

/-- every row belongs to exactly one holder of `Q`: the per-holder sums add up to the total -/
theorem sum_pick_partition (Q : List ℕ) (hQ : Q.Nodup) (labels : List ℕ) (xs : List F)
    (hl : ∀ l ∈ labels, l ∈ Q) (hx : xs.length ≤ labels.length) :
    (Q.map fun id => (Vss.pick labels id xs).sum).sum = xs.sum := by
  induction labels generalizing xs with
  | nil =>
    have : xs = [] := List.eq_nil_of_length_eq_zero (Nat.le_zero.mp (by simpa using hx))
    subst this
    simp only [pick_nil_right, List.sum_nil]
    exact sum_map_zero Q
  | cons l ls ih =>
    cases xs with
    | nil =>
      simp only [pick_nil_right, List.sum_nil]
      exact sum_map_zero Q
    | cons x xs =>
      have hl' : ∀ l' ∈ ls, l' ∈ Q := fun l' h => hl l' (List.mem_cons_of_mem _ h)
      have hx' : xs.length ≤ ls.length := by simpa using hx
      have hlQ : l ∈ Q := hl l (List.mem_cons_self ..)
      simp only [pick_cons_sum, List.sum_map_add, sum_map_ite_nodup Q hQ, ih xs hl' hx',
        List.sum_cons, if_pos hlQ]

theorem pickSet_map {α β : Type} (f : α → β) (labels Q : List ℕ) (xs : List α) :
    pickSet labels Q (xs.map f) = (pickSet labels Q xs).map f := by
  induction labels generalizing xs with
  | nil => simp [pickSet]
  | cons l ls ih =>
    cases xs with
    | nil => simp [pickSet]
    | cons x xs =>
      have := ih xs
      simp only [pickSet] at this ⊢
      by_cases h : l ∈ Q
      · simpa [List.filter_cons, h] using this
      · simpa [List.filter_cons, h] using this

theorem pickSet_length_le {α : Type} (labels Q : List ℕ) (xs : List α) :
    (pickSet labels Q xs).length ≤ (labels.filter fun l => Q.contains l).length := by
  induction labels generalizing xs with
  | nil => simp [pickSet]
  | cons l ls ih =>
    cases xs with
    | nil => simp [pickSet]
    | cons x xs =>
      have := ih xs
      simp only [pickSet] at this ⊢
      by_cases h : l ∈ Q
      · simpa [List.filter_cons, h] using this
      · simpa [List.filter_cons, h] using this

/-! ### column sums -/

theorem sum_vadd (a b : List F) (h : a.length = b.length) : (vadd a b).sum = a.sum + b.sum := by
  induction a generalizing b with
  | nil => cases b <;> simp_all [vadd]
  | cons x a ih =>
    cases b with
    | nil => simp at h
    | cons y b =>
      have := ih b (by simpa using h)
      simp only [vadd] at this ⊢
      simp [this]; abel

theorem headD_vadd (a b : List F) (h : a.length = b.length) :
    (vadd a b).headD 0 = a.headD 0 + b.headD 0 := by
  cases a <;> cases b <;> simp_all [vadd]

theorem foldl_vadd_spec (n : ℕ) (cols : List (List F)) (h : ∀ c ∈ cols, c.length = n)
    (acc : List F) (ha : acc.length = n) :
    (cols.foldl vadd acc).length = n ∧
      (cols.foldl vadd acc).headD 0 = acc.headD 0 + (cols.map fun c => c.headD 0).sum := by
  induction cols generalizing acc with
  | nil => simp [ha]
  | cons c cs ih =>
    have hc : c.length = n := h c (List.mem_cons_self ..)
    have hlen : (vadd acc c).length = n := by simp [vadd, ha, hc]
    obtain ⟨h1, h2⟩ := ih (fun c' hc' => h c' (List.mem_cons_of_mem _ hc')) (vadd acc c) hlen
    refine ⟨by simpa using h1, ?_⟩
    simp only [List.foldl_cons, h2, headD_vadd acc c (ha.trans hc.symm), List.map_cons, List.sum_cons]
    abel

theorem colSum_spec (n : ℕ) (cols : List (List F)) (h : ∀ c ∈ cols, c.length = n) :
    (colSum n cols).length = n ∧ (colSum n cols).headD 0 = (cols.map fun c => c.headD 0).sum := by
  obtain ⟨h1, h2⟩ := foldl_vadd_spec n cols h (List.replicate n 0) (by simp)
  refine ⟨h1, ?_⟩
  have h0 : (List.replicate n (0 : F)).headD 0 = 0 := by cases n <;> simp [List.replicate]
  rw [colSum, h2, h0, zero_add]

theorem freshColumns_cons (x : F) (d : List F) (t : List F) (ts : List (List F)) :
    freshColumns (x :: d) (t :: ts) = (x :: t) :: freshColumns d ts := rfl

theorem freshColumns_heads (d : List F) (tails : List (List F)) (h : tails.length = d.length) :
    (freshColumns d tails).map (fun c => c.headD 0) = d := by
  induction d generalizing tails with
  | nil => simp [freshColumns]
  | cons x d ih =>
    cases tails with
    | nil => simp at h
    | cons t ts => rw [freshColumns_cons, List.map_cons, ih ts (by simpa using h)]; simp

theorem freshColumns_length (n : ℕ) (d : List F) (tails : List (List F))
    (h : ∀ t ∈ tails, t.length + 1 = n) : ∀ c ∈ freshColumns d tails, c.length = n := by
  induction d generalizing tails with
  | nil => simp [freshColumns]
  | cons x d ih =>
    cases tails with
    | nil => simp [freshColumns]
    | cons t ts =>
      intro c hc
      rw [freshColumns_cons, List.mem_cons] at hc
      rcases hc with rfl | hc
      · simpa using h t (List.mem_cons_self ..)
      · exact ih ts (fun t' ht' => h t' (List.mem_cons_of_mem _ ht')) c hc

/-- `Round3`'s aggregate: the new column has `n` entries and its 0-th entry is `Σ dᵢ` -/
theorem reshare_spec (n : ℕ) (d : List F) (tails : List (List F)) (ht : tails.length = d.length)
    (hl : ∀ t ∈ tails, t.length + 1 = n) :
    (reshare n d tails).length = n ∧ (reshare n d tails).headD 0 = d.sum := by
  obtain ⟨h1, h2⟩ := colSum_spec n (freshColumns d tails) (freshColumns_length n d tails hl)
  exact ⟨h1, by rw [reshare, h2, freshColumns_heads d tails ht]⟩

end BronVerif.Lemmas.EpochLin
