import Mathlib.Data.ZMod.Basic
import Mathlib.Algebra.Field.ZMod
import Mathlib.LinearAlgebra.Matrix.Notation
import Mathlib.Tactic.NormNum.Prime
/-!
# Concrete instances used by the non-vacuity examples of C02
The (2,3) threshold span programme over `ZMod 7` and a two-clause CNF structure on three holders.
-/
namespace BronVerif.Lemmas.SharingExamples
open Matrix

instance fact7 : Fact (Nat.Prime 7) := ⟨by norm_num⟩

/-- rows `[1, i]` for the holders `i = 1, 2, 3` -/
def M23 : Matrix (Fin 3) (Fin 2) (ZMod 7) := !![1, 1; 1, 2; 1, 3]

/-- reconstruction vector of the holders 1 and 2 (rows 0 and 1): `2·(1,1) - (1,2) = (1,0)` -/
def c12 : Fin 3 → ZMod 7 := ![2, -1, 0]

theorem c12_spec : c12 ᵥ* M23 = Pi.single 0 1 := by decide

/-- maximal unqualified sets `{0}` (last clause) and `{1}` on the holders `{0,1,2}` -/
def T2 : Option (Fin 1) → Finset (Fin 3) := fun j => if j = none then {0} else {1}

/-- the same as a family indexed by `Fin 2` (ISN pieces) -/
def T2' : Fin 2 → Finset (Fin 3) := ![{0}, {1}]

end BronVerif.Lemmas.SharingExamples
