import BronVerif.Model.Sigma
import Mathlib.Algebra.Group.Basic
import Mathlib.Algebra.Group.Hom.Defs
import Mathlib.Algebra.Group.Prod
import Mathlib.Algebra.Group.Int.Defs
import Mathlib.Data.Nat.Bitwise
import Mathlib.Tactic.Ring
import Mathlib.Tactic.Linarith
/-!
# Helper lemmas for the sigma-protocol model (`Model/Sigma.lean`)

* `Grp.ofGroup`: the operations record of a Mathlib group, so that the executable definitions of the
  model can be instantiated with *any* `CommGroup`;
* `Maurer.Lawful`: what the theorems need from a model instance — the image operations are those of
  a `CommGroup` and `phi` transports the pre-image operations (a homomorphism from whatever
  representation of the pre-image group the instance uses, e.g. naturals reduced modulo `q`);
* lawfulness of the instances the driver executes (`schnorr`, `okamoto`, `elcomop`), of every
  Mathlib homomorphism (`Maurer.ofHom`), and algebra of `xorAll`.
-/
namespace BronVerif.Sigma

/-- the operations record of a Mathlib group -/
def Grp.ofGroup (α : Type) [Group α] : Grp α := ⟨1, (· * ·), (·⁻¹), fun a n => a ^ n⟩

@[simp] theorem Grp.ofGroup_one {α : Type} [Group α] : (Grp.ofGroup α).one = 1 := rfl
@[simp] theorem Grp.ofGroup_mul {α : Type} [Group α] (a b : α) : (Grp.ofGroup α).mul a b = a * b := rfl
@[simp] theorem Grp.ofGroup_inv {α : Type} [Group α] (a : α) : (Grp.ofGroup α).inv a = a⁻¹ := rfl
@[simp] theorem Grp.ofGroup_pow {α : Type} [Group α] (a : α) (n : Nat) : (Grp.ofGroup α).pow a n = a ^ n := rfl

theorem Grp.ofGroup_zpow {α : Type} [Group α] (a : α) (k : Int) : (Grp.ofGroup α).zpow a k = a ^ k := by
  unfold Grp.zpow
  split
  · rename_i h
    simp only [Grp.ofGroup_pow, Grp.ofGroup_inv]
    rw [inv_pow, ← zpow_natCast, ← zpow_neg]
    congr 1
    omega
  · rename_i h
    simp only [Grp.ofGroup_pow]
    rw [← zpow_natCast]
    congr 1
    omega

theorem Grp.prodGrp_ofGroup (α β : Type) [Group α] [Group β] :
    (Grp.ofGroup α).prodGrp (Grp.ofGroup β) = Grp.ofGroup (α × β) := rfl

/-- the generic protocol for a Mathlib homomorphism -/
def Maurer.ofHom {H G : Type} [CommGroup H] [CommGroup G] (φ : H →* G) (ℓ : ℤ) (u : G → H) : Maurer H G :=
  ⟨Grp.ofGroup H, Grp.ofGroup G, φ, ℓ, u⟩

/-- what the theorems need from a model instance -/
structure Maurer.Lawful {H G : Type} [CommGroup G] (P : Maurer H G) : Prop where
  cod_eq : P.cod = Grp.ofGroup G
  map_mul : ∀ a b, P.phi (P.dom.mul a b) = P.phi a * P.phi b
  map_inv : ∀ a, P.phi (P.dom.inv a) = (P.phi a)⁻¹
  map_pow : ∀ a (n : Nat), P.phi (P.dom.pow a n) = P.phi a ^ n
  anchor : ∀ x, P.phi (P.u x) = x ^ P.ell

theorem Maurer.Lawful.map_zpow {H G : Type} [CommGroup G] {P : Maurer H G} (hP : P.Lawful) (a : H) (k : Int) :
    P.phi (P.dom.zpow a k) = P.phi a ^ k := by
  unfold Grp.zpow
  split
  · rename_i h
    rw [hP.map_pow, hP.map_inv, inv_pow, ← zpow_natCast, ← zpow_neg]
    congr 1
    omega
  · rename_i h
    rw [hP.map_pow, ← zpow_natCast]
    congr 1
    omega

theorem Maurer.ofHom_lawful {H G : Type} [CommGroup H] [CommGroup G] (φ : H →* G) (ℓ : ℤ) (u : G → H)
    (hu : ∀ x, φ (u x) = x ^ ℓ) : (Maurer.ofHom φ ℓ u).Lawful where
  cod_eq := rfl
  map_mul a b := map_mul φ a b
  map_inv a := map_inv φ a
  map_pow a n := map_pow φ a n
  anchor := hu

/-! ### `g ^ (n % q) = g ^ n` when `g ^ q = 1` -/

theorem pow_mod_of_pow_eq_one {G : Type} [Group G] {g : G} {q : Nat} (hq : g ^ q = 1) (n : Nat) :
    g ^ (n % q) = g ^ n := by
  conv_rhs => rw [← Nat.div_add_mod n q, pow_add, pow_mul, hq, one_pow, one_mul]

/-- Schnorr over a group of exponent dividing `q` -/
theorem schnorr_lawful {G : Type} [CommGroup G] (q : Nat) (g : G) (hq0 : 0 < q) (hq : ∀ x : G, x ^ q = 1) :
    (schnorr (Grp.ofGroup G) q g).Lawful where
  cod_eq := rfl
  map_mul a b := by
    show g ^ ((a + b) % q) = g ^ a * g ^ b
    rw [pow_mod_of_pow_eq_one (hq g), pow_add]
  map_inv a := by
    show g ^ ((q - a % q) % q) = (g ^ a)⁻¹
    rw [pow_mod_of_pow_eq_one (hq g), eq_inv_iff_mul_eq_one, ← pow_mod_of_pow_eq_one (hq g) a, ← pow_add]
    have : a % q < q := Nat.mod_lt _ hq0
    rw [Nat.sub_add_cancel this.le, hq]
  map_pow a n := by
    show g ^ ((a * n) % q) = (g ^ a) ^ n
    rw [pow_mod_of_pow_eq_one (hq g), pow_mul]
  anchor x := by
    show g ^ 0 = x ^ (q : ℤ)
    rw [pow_zero, zpow_natCast, hq]

/-- ElGamal commitment opening over a group of exponent dividing `q` -/
theorem elcomop_lawful {G : Type} [CommGroup G] (q : Nat) (g pk : G) (hq0 : 0 < q) (hq : ∀ x : G, x ^ q = 1) :
    (elcomop (Grp.ofGroup G) q g pk).Lawful where
  cod_eq := rfl
  map_mul a b := by
    show (g ^ ((a.2 + b.2) % q), a.1 * b.1 * pk ^ ((a.2 + b.2) % q)) = (g ^ a.2, a.1 * pk ^ a.2) * (g ^ b.2, b.1 * pk ^ b.2)
    rw [pow_mod_of_pow_eq_one (hq g), pow_mod_of_pow_eq_one (hq pk), pow_add, pow_add, Prod.mk_mul_mk]
    congr 1
    exact mul_mul_mul_comm _ _ _ _
  map_inv a := by
    show (g ^ ((q - a.2 % q) % q), a.1⁻¹ * pk ^ ((q - a.2 % q) % q)) = (g ^ a.2, a.1 * pk ^ a.2)⁻¹
    have key : ∀ y : G, y ^ ((q - a.2 % q) % q) = (y ^ a.2)⁻¹ := by
      intro y
      rw [pow_mod_of_pow_eq_one (hq y), eq_inv_iff_mul_eq_one, ← pow_mod_of_pow_eq_one (hq y) a.2, ← pow_add]
      have : a.2 % q < q := Nat.mod_lt _ hq0
      rw [Nat.sub_add_cancel this.le, hq]
    rw [key, key, Prod.inv_mk, mul_inv]
  map_pow a n := by
    show (g ^ ((a.2 * n) % q), a.1 ^ n * pk ^ ((a.2 * n) % q)) = (g ^ a.2, a.1 * pk ^ a.2) ^ n
    rw [pow_mod_of_pow_eq_one (hq g), pow_mod_of_pow_eq_one (hq pk), pow_mul, pow_mul, Prod.pow_mk, mul_pow]
  anchor x := by
    show (g ^ 0, (1 : G) * pk ^ 0) = x ^ (q : ℤ)
    rw [pow_zero, pow_zero, mul_one, zpow_natCast]
    ext
    · exact (hq x.1).symm
    · exact (hq x.2).symm

/-! ### Okamoto: `phi s = ∏ gᵢ^{sᵢ}` over lists -/

theorem Grp.ofGroup_prod_cons {G : Type} [Group G] (x : G) (xs : List G) :
    (Grp.ofGroup G).prod (x :: xs) = x * (Grp.ofGroup G).prod xs := rfl

theorem okamoto_phi_cons {G : Type} [CommGroup G] (g : G) (gs : List G) (s : Nat) (ss : List Nat) :
    (Grp.ofGroup G).prod (List.zipWith (Grp.ofGroup G).pow (g :: gs) (s :: ss)) =
      g ^ s * (Grp.ofGroup G).prod (List.zipWith (Grp.ofGroup G).pow gs ss) := rfl

/-- multiplicativity of the Okamoto map on exponent vectors of the right length -/
theorem okamoto_map_mul {G : Type} [CommGroup G] (q : Nat) (hq : ∀ x : G, x ^ q = 1) :
    ∀ (gs : List G) (a b : List Nat), a.length = gs.length → b.length = gs.length →
      (Grp.ofGroup G).prod (List.zipWith (Grp.ofGroup G).pow gs (List.zipWith (fun x y => (x + y) % q) a b)) =
        (Grp.ofGroup G).prod (List.zipWith (Grp.ofGroup G).pow gs a) *
        (Grp.ofGroup G).prod (List.zipWith (Grp.ofGroup G).pow gs b)
  | [], _, _, _, _ => by simp [Grp.prod]
  | g :: gs, [], _, ha, _ => by simp at ha
  | g :: gs, _ :: _, [], _, hb => by simp at hb
  | g :: gs, x :: a, y :: b, ha, hb => by
    have ih := okamoto_map_mul q hq gs a b (by simpa using ha) (by simpa using hb)
    simp only [List.zipWith_cons_cons, Grp.ofGroup_prod_cons, Grp.ofGroup_pow] at ih ⊢
    rw [ih, pow_mod_of_pow_eq_one (hq g), pow_add]
    exact mul_mul_mul_comm _ _ _ _

theorem okamoto_map_pow {G : Type} [CommGroup G] (q : Nat) (hq : ∀ x : G, x ^ q = 1) (n : Nat) :
    ∀ (gs : List G) (a : List Nat),
      (Grp.ofGroup G).prod (List.zipWith (Grp.ofGroup G).pow gs (a.map fun x => (x * n) % q)) =
        (Grp.ofGroup G).prod (List.zipWith (Grp.ofGroup G).pow gs a) ^ n
  | [], _ => by simp [Grp.prod]
  | g :: gs, [] => by simp [Grp.prod]
  | g :: gs, x :: a => by
    have ih := okamoto_map_pow q hq n gs a
    simp only [List.map_cons, List.zipWith_cons_cons, Grp.ofGroup_prod_cons, Grp.ofGroup_pow] at ih ⊢
    rw [ih, pow_mod_of_pow_eq_one (hq g), pow_mul, mul_pow]

/-! ### XOR of a list -/

theorem xorAll_foldl (acc : Nat) (es : List Nat) : es.foldl Nat.xor acc = acc ^^^ xorAll es := by
  induction es generalizing acc with
  | nil => simp [xorAll]
  | cons e es ih =>
    simp only [List.foldl_cons, xorAll]
    rw [ih, ih (Nat.xor 0 e)]
    show (acc ^^^ e) ^^^ xorAll es = acc ^^^ ((0 ^^^ e) ^^^ xorAll es)
    rw [Nat.zero_xor, Nat.xor_assoc]

theorem xorAll_nil : xorAll [] = 0 := rfl

theorem xorAll_cons (e : Nat) (es : List Nat) : xorAll (e :: es) = e ^^^ xorAll es := by
  show es.foldl Nat.xor (Nat.xor 0 e) = _
  rw [xorAll_foldl]
  show (0 ^^^ e) ^^^ xorAll es = _
  rw [Nat.zero_xor]

theorem xorAll_append (l₁ l₂ : List Nat) : xorAll (l₁ ++ l₂) = xorAll l₁ ^^^ xorAll l₂ := by
  induction l₁ with
  | nil => simp [xorAll_nil]
  | cons e l ih => rw [List.cons_append, xorAll_cons, xorAll_cons, ih, Nat.xor_assoc]

end BronVerif.Sigma
