import Mathlib.Tactic.Ring
import Mathlib.Tactic.NormNum
import BronVerif.Model.CurveEnc
import BronVerif.Lemmas.CurveEncBytes
/-!
# Byte strings read back: `encode ∘ decode` on the byte level

`leBytes len (leNat bs) = bs` for a string of `len` bytes, "all bytes zero" ⇔ value zero, and the
big-endian counterparts; used by the `encode (decode bs) = bs` theorems of `Props/C13X25519.lean` and
`Props/C13Field.lean`.
-/
namespace BronVerif.CurveEnc

/-- every entry is a byte -/
def IsBytes (bs : List Nat) : Prop := ∀ b ∈ bs, b < 256

theorem isBytes_cons {b : Nat} {bs : List Nat} : IsBytes (b :: bs) ↔ b < 256 ∧ IsBytes bs := by
  simp [IsBytes]

theorem isBytes_leBytes (len n : Nat) : IsBytes (leBytes len n) := by
  induction len generalizing n with
  | zero => simp [leBytes, IsBytes]
  | succ k ih =>
    rw [leBytes, isBytes_cons]
    exact ⟨Nat.mod_lt _ (by norm_num), ih _⟩

theorem isBytes_beBytes (len n : Nat) : IsBytes (beBytes len n) := by
  intro b hb
  exact isBytes_leBytes len n b (by simpa [beBytes] using hb)

theorem leNat_lt (bs : List Nat) (h : IsBytes bs) : leNat bs < 256 ^ bs.length := by
  induction bs with
  | nil => simp [leNat]
  | cons b bs ih =>
    obtain ⟨hb, hbs⟩ := isBytes_cons.1 h
    have := ih hbs
    simp only [leNat, List.length_cons, pow_succ]
    omega

/-- a byte string is the little-endian expansion of its value -/
theorem leBytes_leNat (bs : List Nat) (h : IsBytes bs) : leBytes bs.length (leNat bs) = bs := by
  induction bs with
  | nil => rfl
  | cons b bs ih =>
    obtain ⟨hb, hbs⟩ := isBytes_cons.1 h
    have h1 : (b + 256 * leNat bs) % 256 = b := by omega
    have h2 : (b + 256 * leNat bs) / 256 = leNat bs := by omega
    simp only [leNat, List.length_cons, leBytes, h1, h2, ih hbs]

theorem leBytes_leNat' (len : Nat) (bs : List Nat) (hl : bs.length = len) (h : IsBytes bs) :
    leBytes len (leNat bs) = bs := by
  subst hl; exact leBytes_leNat bs h

theorem isBytes_reverse {bs : List Nat} (h : IsBytes bs) : IsBytes bs.reverse := by
  intro b hb; exact h b (by simpa using hb)

theorem beBytes_beNat (len : Nat) (bs : List Nat) (hl : bs.length = len) (h : IsBytes bs) :
    beBytes len (beNat bs) = bs := by
  have := leBytes_leNat' len bs.reverse (by simpa using hl) (isBytes_reverse h)
  simp [beBytes, beNat, this]

theorem beNat_lt (bs : List Nat) (h : IsBytes bs) : beNat bs < 256 ^ bs.length := by
  have := leNat_lt bs.reverse (isBytes_reverse h)
  simpa [beNat] using this

/-- "all bytes are zero" is "the value is zero" -/
theorem all_zero_iff (bs : List Nat) : bs.all (· == 0) = true ↔ leNat bs = 0 := by
  induction bs with
  | nil => simp [leNat]
  | cons b bs ih =>
    simp only [List.all_cons, Bool.and_eq_true, beq_iff_eq, ih, leNat]
    omega

theorem leBytes_all_zero_iff (len n : Nat) (h : n < 256 ^ len) :
    (leBytes len n).all (· == 0) = true ↔ n = 0 := by
  rw [all_zero_iff, leNat_leBytes len n h]

theorem all_zero_append (xs ys : List Nat) :
    (xs ++ ys).all (· == 0) = true ↔ xs.all (· == 0) = true ∧ ys.all (· == 0) = true := by
  simp [List.all_append]

end BronVerif.CurveEnc
