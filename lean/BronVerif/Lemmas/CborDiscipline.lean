/-
C12 — decoder discipline.

`BronVerif.Gen.UnmarshalFacts.table` is regenerated from /repo on every run (translator/
facts_unmarshal.go): one `Fact` per `UnmarshalCBOR` method, recording syntactically what the body does
between decoding the bytes into a DTO and writing to the receiver.  This file holds the HAND-WRITTEN
expectation for every such method (written after reading each method and the constructor of its
type) and a decidable checker; the theorem is a `decide` over the complete table.

What the theorem says: every `UnmarshalCBOR` in /repo/pkg decodes with `serde.UnmarshalCBOR` into a
DTO, and before anything reaches the receiver it calls the validating constructor(s) named here, or
performs exactly-at-least the explicit guards named here; DTO data is stored into the receiver
directly (not through a constructor result) only where the expectation says so explicitly; and the
set of methods is exactly the set listed (a new, removed or renamed `UnmarshalCBOR` breaks the proof
until its expectation is written).  What it does not say: that the named constructor validates
*enough* — that is the object of the per-type `decodeT_valid` theorems and of the differential
mutation stream.

Two classes of gaps found while writing the expectations are recorded explicitly rather than hidden:
`Expect.unvalidated` (DTO stored with no validation although the constructor validates; see
`unvalidated`) and `Expect.nullPanics` (pointer DTO without nil guard: `UnmarshalCBOR(f6)` panics;
see `nullPanicking`).

Text is compared as `Str = List Nat` (code points, notation `cps!"…"`, defined in the generated
module): kernel evaluation of `String` equality is two orders of magnitude slower.
-/
import BronVerif.Gen.UnmarshalFacts

namespace BronVerif.Lemmas.CborDiscipline

open BronVerif.Gen.UnmarshalFacts

/-- What an `UnmarshalCBOR` is expected to do between decode and assignment. -/
inductive Expect where
  /-- All these role names occur among the calls; the receiver is assigned (≥ 1 write) and only
      from call results (`assignsDtoDirect = false`). -/
  | ctor (names : List Str)
  /-- Validating setter on the receiver itself (`recv.Set(dto.…)`, `recv.SetBytes(…)`): all these
      role names occur among the calls; no direct DTO-to-receiver write. -/
  | setter (names : List Str)
  /-- The constructor(s) are called on the DTO fields purely for validation, and the very same DTO
      fields are then stored: direct assignment explicitly accepted. -/
  | ctorThenDirect (names : List Str) (why : String)
  /-- No constructor is (or can be) called: all these guard conditions occur; DTO fields may then be
      stored directly.  `why` states what the guards correspond to. -/
  | checks (conds : List Str) (why : String)
  /-- Validation calls and explicit guards; direct assignment accepted. -/
  | both (names : List Str) (conds : List Str) (why : String)
  /-- Allow-listed shape (delegation, unknown decode, …) with a stated reason. -/
  | allow (reason : String)
  /-- The decoder delegates the bytes to the decoder of an embedded/inner type (which validates that
      part) and then re-validates the whole through the named constructor(s) before assigning. -/
  | delegateThenCtor (names : List Str)
  /-- KNOWN GAP, reported as a candidate finding: DTO data reaches the receiver with no validation
      although the type's constructor does validate.  Accepted only for a fact that indeed has no
      calls and no checks (so that a later fix in /repo breaks the proof and the entry is revisited). -/
  | unvalidated (missing : String)
  /-- Wrapper: as `e`, and additionally RECORDED GAP — the decoder takes a pointer DTO
      (`serde.UnmarshalCBOR[*fooDTO]`) without a `dto == nil` guard; CBOR `null` (`f6`) passed directly to
      `UnmarshalCBOR` yields a nil DTO and the next field access panics (confirmed on num.Nat/NatPlus).
      A pointer-DTO decoder without nil guard is accepted only under this wrapper, so the class cannot
      grow silently; a stale wrapper (after a fix in /repo) is harmless. -/
  | nullPanics (e : Expect)
  deriving Repr

def subset (xs ys : List Str) : Bool := xs.all (fun x => ys.contains x)

/-- Every expectation except `allow` requires the standard decode into a DTO and no delegation. -/
def stdDecode (f : Fact) : Bool := f.decode == cps!"serde.UnmarshalCBOR" && f.delegates == [] && f.dto != []

def factOk (e : Expect) (f : Fact) : Bool :=
  match e with
  | .ctor names => stdDecode f && !names.isEmpty && subset names f.calls && !f.assignsDtoDirect && f.assigns ≥ 1
  | .setter names => stdDecode f && !names.isEmpty && subset names f.calls && !f.assignsDtoDirect
  | .ctorThenDirect names _ => stdDecode f && !names.isEmpty && subset names f.calls && f.assigns ≥ 1
  | .checks conds _ => stdDecode f && !conds.isEmpty && subset conds f.checks && f.assigns ≥ 1
  | .both names conds _ =>
      stdDecode f && !names.isEmpty && !conds.isEmpty && subset names f.calls && subset conds f.checks && f.assigns ≥ 1
  | .allow _ => true
  | .delegateThenCtor names =>
      f.delegates != [] && f.dto == [] && !names.isEmpty && subset names f.calls && !f.assignsDtoDirect && f.assigns ≥ 1
  | .unvalidated _ => stdDecode f && f.calls.isEmpty && f.checks.isEmpty && f.assignsDtoDirect
  | .nullPanics e => factOk e f

/-- A pointer DTO is nil after decoding CBOR `null`: a decoder without a `dto == nil` guard must carry
    the `.nullPanics` wrapper. -/
def nullOk (e : Expect) (f : Fact) : Bool :=
  !f.dtoPtr || f.nilGuard || (match e with | .nullPanics _ => true | _ => false)

abbrev Expectations := List (Str × Str × Expect)

/-- Both directions at once: the table and the expectations are both sorted by (pkg, recv), so they
    must agree position by position — same length, same keys, and each fact satisfies its
    expectation.  Hence every fact has exactly one expectation and every expectation has a fact. -/
def alignedOk : List Fact → Expectations → Bool
  | [], [] => true
  | f :: fs, (p, r, e) :: es =>
      f.pkg == p && f.recv == r && factOk e f && nullOk e f && alignedOk fs es
  | _, _ => false

/-- Keys strictly distinct from their successor (no duplicate expectation can hide a mismatch). -/
def keysDistinct : Expectations → Bool
  | (p, r, _) :: (p', r', e') :: rest => !(p == p' && r == r') && keysDistinct ((p', r', e') :: rest)
  | _ => true

/-- The hand-written expectations, in the table's (pkg, recv) order. -/
def expectations : Expectations := [
  -- pkg/base/algebra/constructions/traits
  (cps!"pkg/base/algebra/constructions/traits", cps!"DirectPowerSemiGroup", .setter [cps!"recv.Set"]),
  (cps!"pkg/base/algebra/constructions/traits", cps!"DirectPowerSemiGroupElement", .setter [cps!"recv.set"]),
  (cps!"pkg/base/algebra/constructions/traits", cps!"DirectProductSemiGroup", .setter [cps!"recv.Set"]),
  (cps!"pkg/base/algebra/constructions/traits", cps!"DirectProductSemiGroupElement", .setter [cps!"recv.set"]),
  (cps!"pkg/base/algebra/constructions/traits", cps!"RegularModuleElement", .setter [cps!"recv.set"]),
  -- pkg/base/curves/curve25519
  (cps!"pkg/base/curves/curve25519", cps!"Point", .nullPanics <| .ctor [cps!"NewCurve.FromUncompressed"]),
  (cps!"pkg/base/curves/curve25519", cps!"PrimeSubGroupPoint", .nullPanics <| .ctor [cps!"NewPrimeSubGroup.FromUncompressed"]),
  -- pkg/base/curves/edwards25519
  (cps!"pkg/base/curves/edwards25519", cps!"BaseFieldElement", .nullPanics <| .ctor [cps!"NewBaseField.FromBytes"]),
  (cps!"pkg/base/curves/edwards25519", cps!"Point", .nullPanics <| .ctor [cps!"NewCurve.FromCompressed"]),
  (cps!"pkg/base/curves/edwards25519", cps!"PrimeSubGroupPoint", .nullPanics <| .ctor [cps!"NewPrimeSubGroup.FromCompressed"]),
  (cps!"pkg/base/curves/edwards25519", cps!"Scalar", .nullPanics <| .ctor [cps!"NewScalarField.FromBytes"]),
  -- pkg/base/curves/k256
  (cps!"pkg/base/curves/k256", cps!"BaseFieldElement", .nullPanics <| .ctor [cps!"NewBaseField.FromBytes"]),
  (cps!"pkg/base/curves/k256", cps!"Point", .ctor [cps!"NewCurve.FromCompressed"]),
  (cps!"pkg/base/curves/k256", cps!"Scalar", .nullPanics <| .ctor [cps!"NewScalarField.FromBytes"]),
  -- pkg/base/curves/p256
  (cps!"pkg/base/curves/p256", cps!"BaseFieldElement", .nullPanics <| .ctor [cps!"NewBaseField.FromBytes"]),
  (cps!"pkg/base/curves/p256", cps!"Point", .nullPanics <| .ctor [cps!"NewCurve.FromCompressed"]),
  (cps!"pkg/base/curves/p256", cps!"Scalar", .nullPanics <| .ctor [cps!"NewScalarField.FromBytes"]),
  -- pkg/base/curves/pairable/bls12381
  (cps!"pkg/base/curves/pairable/bls12381", cps!"BaseFieldElementG1", .nullPanics <| .ctor [cps!"NewG1BaseField.FromBytes"]),
  (cps!"pkg/base/curves/pairable/bls12381", cps!"BaseFieldElementG2", .nullPanics <| .ctor [cps!"NewG2BaseField.FromBytes"]),
  (cps!"pkg/base/curves/pairable/bls12381", cps!"PointG1", .nullPanics <| .ctor [cps!"NewG1.FromCompressed"]),
  (cps!"pkg/base/curves/pairable/bls12381", cps!"PointG2", .nullPanics <| .ctor [cps!"NewG2.FromCompressed"]),
  (cps!"pkg/base/curves/pairable/bls12381", cps!"Scalar", .nullPanics <| .ctor [cps!"NewScalarField.FromBytes"]),
  -- pkg/base/curves/pasta
  (cps!"pkg/base/curves/pasta", cps!"FpFieldElement", .nullPanics <| .ctor [cps!"newFpField.FromBytes"]),
  (cps!"pkg/base/curves/pasta", cps!"FqFieldElement", .nullPanics <| .ctor [cps!"newFqField.FromBytes"]),
  (cps!"pkg/base/curves/pasta", cps!"PallasPoint", .nullPanics <| .ctor [cps!"NewPallasCurve.FromCompressed"]),
  (cps!"pkg/base/curves/pasta", cps!"VestaPoint", .nullPanics <| .ctor [cps!"NewVestaCurve.FromCompressed"]),
  -- pkg/base/mat
  (cps!"pkg/base/mat", cps!"Matrix",
    .nullPanics <| .checks [cps!"dto.Rows <= 0 || dto.Cols <= 0", cps!"!ok", cps!"len(dto.Data) != expected", cps!"utils.IsNil(v)"]
      "no validating constructor exists (matrices are built by their module); the guards are exactly shape consistency: positive dims, rows*cols without overflow = len(data), no nil entry"),
  (cps!"pkg/base/mat", cps!"ModuleValuedMatrix",
    .nullPanics <| .checks [cps!"len(dto.Data) == 0", cps!"dto.Rows <= 0 || dto.Cols <= 0", cps!"!ok", cps!"len(dto.Data) != expected", cps!"utils.IsNil(v)"]
      "as Matrix"),
  (cps!"pkg/base/mat", cps!"SquareMatrix",
    .nullPanics <| .checks [cps!"len(dto.Data) == 0", cps!"dto.Size <= 0", cps!"!ok", cps!"len(dto.Data) != expected", cps!"utils.IsNil(v)"]
      "as Matrix"),
  -- pkg/base/nt/modular
  (cps!"pkg/base/nt/modular", cps!"OddPrimeFactors", .ctor [cps!"NewOddPrimeFactors"]),
  (cps!"pkg/base/nt/modular", cps!"OddPrimeSquareFactors", .ctor [cps!"NewOddPrimeSquareFactors"]),
  (cps!"pkg/base/nt/modular", cps!"SimpleModulus",
    .unvalidated
      "pkg/base/nt/modular/cbor.go:48: `m.m = dto.Modulus` with no guard at all; NewSimple reports ok=false for a nil modulus, the decoder accepts a map without (or with null) \"modulus\" and yields a SimpleModulus whose every method dereferences nil"),
  -- pkg/base/nt/num
  (cps!"pkg/base/nt/num", cps!"Int", .nullPanics <| .checks [cps!"dto.Int == nil"] "same guard as Z().FromIntCT-style constructors (nil); the numct.Int field is validated by its own decoder"),
  (cps!"pkg/base/nt/num", cps!"Nat", .nullPanics <| .checks [cps!"dto.Nat == nil"] "same guard as N().FromNatCT (nil); the numct.Nat field is validated by its own decoder"),
  (cps!"pkg/base/nt/num", cps!"NatPlus",
    .nullPanics <| .checks [cps!"dto.NatPlus == nil", cps!"dto.NatPlus.IsZero() == ct.True"]
      "NPlus().FromNatCT checks nil and zero; the decoder checks zero only and calls IsZero on a possibly nil field: a map without \"natPlus\" panics (see nullDtoUnguarded / report)"),
  (cps!"pkg/base/nt/num", cps!"Rat", .nullPanics <| .checks [cps!"dto.A == nil", cps!"dto.B == nil"] "same guards as Q().New (both components non-nil); components validated by their own decoders (NatPlus: non-zero denominator)"),
  (cps!"pkg/base/nt/num", cps!"Uint", .nullPanics <| .checks [cps!"dto.Modulus == nil", cps!"dto.Value == nil", cps!"lt, _, _ := dto.Value.Compare(dto.Modulus.Nat()); lt == ct.False"] "same guards as NewUintGivenModulus: non-nil, value < modulus"),
  (cps!"pkg/base/nt/num", cps!"ZMod", .nullPanics <| .checks [cps!"dto.Modulus == nil"] "same guard as NewZMod (nil); NatPlus validated by its own decoder"),
  -- pkg/base/nt/numct
  (cps!"pkg/base/nt/numct", cps!"Int", .nullPanics <| .setter [cps!"recv.SetBytes"]),
  (cps!"pkg/base/nt/numct", cps!"Modulus", .nullPanics <| .setter [cps!"recv.SetNat"]),
  (cps!"pkg/base/nt/numct", cps!"Nat", .nullPanics <| .setter [cps!"recv.SetBytes"]),
  -- pkg/base/nt/znstar
  (cps!"pkg/base/nt/znstar", cps!"PaillierGroup", .ctor [cps!"NewPaillierGroup", cps!"NewPaillierGroupOfUnknownOrder"]),
  (cps!"pkg/base/nt/znstar", cps!"PaillierGroupElement", .ctor [cps!"num.NPlus.FromModulusCT", cps!"NewPaillierGroup", cps!"NewPaillierGroupOfUnknownOrder", cps!"·.FromUint"]),
  (cps!"pkg/base/nt/znstar", cps!"RSAGroup", .ctor [cps!"NewRSAGroup", cps!"NewRSAGroupOfUnknownOrder"]),
  (cps!"pkg/base/nt/znstar", cps!"RSAGroupElement", .ctor [cps!"num.NPlus.FromModulusCT", cps!"NewRSAGroup", cps!"NewRSAGroupOfUnknownOrder", cps!"·.FromUint"]),
  -- pkg/base/polynomials
  (cps!"pkg/base/polynomials", cps!"ModuleValuedPolynomial", .nullPanics <| .checks [cps!"len(dto.Coeffs) == 0", cps!"utils.IsNil(coeff)"] "no error-returning constructor; guards: non-empty, no nil coefficient"),
  (cps!"pkg/base/polynomials", cps!"Polynomial", .nullPanics <| .checks [cps!"len(dto.Coeffs) == 0", cps!"utils.IsNil(coeff)"] "no error-returning constructor; guards: non-empty, no nil coefficient"),
  -- pkg/commitments/indcpacom
  (cps!"pkg/commitments/indcpacom", cps!"Commitment", .nullPanics <| .ctor [cps!"NewCommitment"]),
  (cps!"pkg/commitments/indcpacom", cps!"CommitmentKey", .nullPanics <| .ctor [cps!"NewCommitmentKey"]),
  (cps!"pkg/commitments/indcpacom", cps!"Message", .nullPanics <| .ctor [cps!"NewMessage"]),
  (cps!"pkg/commitments/indcpacom", cps!"Witness", .nullPanics <| .ctor [cps!"NewWitness"]),
  -- pkg/commitments/intcom
  (cps!"pkg/commitments/intcom", cps!"Commitment", .ctor [cps!"NewCommitment"]),
  (cps!"pkg/commitments/intcom", cps!"CommitmentKey", .ctor [cps!"newCommitmentKey"]),
  (cps!"pkg/commitments/intcom", cps!"Message", .ctor [cps!"NewMessage"]),
  (cps!"pkg/commitments/intcom", cps!"TrapdoorKey", .ctor [cps!"NewTrapdoorKey"]),
  (cps!"pkg/commitments/intcom", cps!"Witness", .ctor [cps!"NewWitness"]),
  -- pkg/commitments/pedersencom
  (cps!"pkg/commitments/pedersencom", cps!"Commitment", .ctor [cps!"NewCommitment"]),
  -- NewCommitmentKeyUnchecked: nil / identical / identity generators rejected; "log_g h unknown" cannot be
  -- checked from the wire (documented at the constructor: a decoded key is not a trusted CRS)
  (cps!"pkg/commitments/pedersencom", cps!"CommitmentKey", .ctor [cps!"NewCommitmentKeyUnchecked"]),
  (cps!"pkg/commitments/pedersencom", cps!"Message", .ctor [cps!"NewMessage"]),
  (cps!"pkg/commitments/pedersencom", cps!"TrapdoorKey", .ctor [cps!"NewTrapdoorKey"]),
  (cps!"pkg/commitments/pedersencom", cps!"Witness", .ctor [cps!"NewWitness"]),
  -- pkg/encryption/elgamal
  (cps!"pkg/encryption/elgamal", cps!"Ciphertext", .nullPanics <| .ctor [cps!"NewCiphertext"]),
  (cps!"pkg/encryption/elgamal", cps!"Nonce", .nullPanics <| .ctor [cps!"NewNonce"]),
  (cps!"pkg/encryption/elgamal", cps!"Plaintext", .nullPanics <| .ctor [cps!"NewPlaintext"]),
  (cps!"pkg/encryption/elgamal", cps!"PublicKey", .nullPanics <| .ctor [cps!"NewPublicKey"]),
  (cps!"pkg/encryption/elgamal", cps!"SecretKey", .nullPanics <| .ctor [cps!"NewSecretKey"]),
  -- pkg/encryption/paillier
  (cps!"pkg/encryption/paillier", cps!"Ciphertext", .nullPanics <| .checks [cps!"dto.C == nil"] "same guard as NewCiphertextFromGroupElement (nil); membership in Z*_{N^2} is enforced by the decoder of PaillierGroupElementUnknownOrder"),
  (cps!"pkg/encryption/paillier", cps!"Nonce", .nullPanics <| .checks [cps!"dto.R == nil"] "same guard as NewNonceFromGroupElement (nil); membership in Z*_N is enforced by the decoder of RSAGroupElementUnknownOrder"),
  (cps!"pkg/encryption/paillier", cps!"Plaintext", .nullPanics <| .ctor [cps!"NewPlaintext"]),
  (cps!"pkg/encryption/paillier", cps!"PublicKey", .nullPanics <| .ctor [cps!"NewPublicKey"]),
  (cps!"pkg/encryption/paillier", cps!"SecretKey", .nullPanics <| .ctor [cps!"NewSecretKey"]),
  -- pkg/key_agreement
  (cps!"pkg/key_agreement", cps!"PrivateKey", .ctorThenDirect [cps!"NewPrivateKey"] "constructor is called on exactly the DTO fields that are then stored"),
  (cps!"pkg/key_agreement", cps!"PublicKey", .ctorThenDirect [cps!"NewPublicKey"] "constructor is called on exactly the DTO fields that are then stored"),
  (cps!"pkg/key_agreement", cps!"SharedKey", .ctorThenDirect [cps!"NewSharedKey"] "constructor is called on exactly the DTO fields that are then stored"),
  -- pkg/key_agreement/dh/dhc
  (cps!"pkg/key_agreement/dh/dhc", cps!"ExtendedPrivateKey",
    .both [cps!"NewPrivateKey", cps!"ExtendPrivateKey", cps!"·.FromBytes", cps!"·.Equal"] [cps!"!ok"]
      "recomputes the scalar from the seed bytes (clamped extension or FromBytes) and compares with the transmitted one"),
  (cps!"pkg/key_agreement/dh/dhc", cps!"PrivateKey", .ctorThenDirect [cps!"NewPrivateKey"] "constructor is called on dto.V, a clone of which is stored"),
  -- pkg/mpc
  (cps!"pkg/mpc", cps!"BasePublicMaterial", .nullPanics <| .ctor [cps!"NewBasePublicMaterial"]),
  (cps!"pkg/mpc", cps!"BaseShard", .nullPanics <| .ctor [cps!"NewBaseShard"]),
  -- pkg/mpc/sharing/accessstructures/boolexpr
  (cps!"pkg/mpc/sharing/accessstructures/boolexpr", cps!"Node", .checks [cps!"dto == nil", cps!"dto.Kind == gate && (dto.Threshold < 1 || len(dto.Children) == 0 || dto.Threshold > len(dto.Children))", cps!"dto.Kind == attribute && dto.Attr == 0"] "node constructors (ID/Threshold/And/Or) do not validate; the guards are the per-node part of checkTree"),
  (cps!"pkg/mpc/sharing/accessstructures/boolexpr", cps!"ThresholdGateAccessStructure",
    .both [cps!"checkTree", cps!"allShareholders"] [cps!"dto == nil", cps!"!shareHoldersInNode[shareholder]", cps!"!dto.Shareholders[shareholder]"]
      "same as NewThresholdGateAccessStructure (checkTree) plus consistency of the transmitted shareholder map with the tree"),
  -- pkg/mpc/sharing/accessstructures/cnf
  (cps!"pkg/mpc/sharing/accessstructures/cnf", cps!"CNF", .nullPanics <| .ctor [cps!"NewCNFAccessStructure"]),
  -- pkg/mpc/sharing/accessstructures/hierarchical
  (cps!"pkg/mpc/sharing/accessstructures/hierarchical", cps!"HierarchicalConjunctiveThreshold", .nullPanics <| .ctor [cps!"NewHierarchicalConjunctiveThresholdAccessStructure"]),
  (cps!"pkg/mpc/sharing/accessstructures/hierarchical", cps!"ThresholdLevel", .checks [cps!"dto.Threshold <= 0", cps!"len(dto.Parties) == 0", cps!"p == 0"] "WithLevel does not validate; cross-level rules are checked by NewHierarchicalConjunctiveThresholdAccessStructure in the enclosing decoder"),
  -- pkg/mpc/sharing/accessstructures/threshold
  (cps!"pkg/mpc/sharing/accessstructures/threshold", cps!"Threshold", .nullPanics <| .ctor [cps!"NewThresholdAccessStructure"]),
  -- pkg/mpc/sharing/accessstructures/unanimity
  (cps!"pkg/mpc/sharing/accessstructures/unanimity", cps!"Unanimity", .ctor [cps!"NewUnanimityAccessStructure"]),
  -- pkg/mpc/sharing/scheme/isn
  (cps!"pkg/mpc/sharing/scheme/isn", cps!"Share", .nullPanics <| .ctor [cps!"NewShare"]),
  -- pkg/mpc/sharing/scheme/kw
  (cps!"pkg/mpc/sharing/scheme/kw", cps!"Share", .nullPanics <| .ctor [cps!"NewShare"]),
  -- pkg/mpc/sharing/scheme/kw/msp
  (cps!"pkg/mpc/sharing/scheme/kw/msp", cps!"MSP", .nullPanics <| .ctor [cps!"NewMSP"]),
  -- pkg/mpc/sharing/scheme/shamir
  (cps!"pkg/mpc/sharing/scheme/shamir", cps!"Share", .nullPanics <| .ctor [cps!"NewShare"]),
  -- pkg/mpc/sharing/vss/feldman
  (cps!"pkg/mpc/sharing/vss/feldman", cps!"LiftedShare", .nullPanics <| .ctor [cps!"NewLiftedShare"]),
  -- NewVerificationVector(dto.V, nil): the MSP-length check is skipped here (no MSP on the wire); it is
  -- re-established by NewBaseShard / NewBasePublicMaterial in the enclosing decoders
  (cps!"pkg/mpc/sharing/vss/feldman", cps!"VerificationVector", .nullPanics <| .ctor [cps!"NewVerificationVector"]),
  -- pkg/mpc/sharing/vss/pedersen
  (cps!"pkg/mpc/sharing/vss/pedersen", cps!"LiftedShare", .nullPanics <| .ctor [cps!"NewLiftedShare"]),
  (cps!"pkg/mpc/sharing/vss/pedersen", cps!"Share", .nullPanics <| .checks [cps!"dto.ID == 0", cps!"len(dto.Secret) == 0", cps!"len(dto.Blinding) == 0", cps!"len(dto.Secret) != len(dto.Blinding)", cps!"m == nil", cps!"w == nil"] "same guards as NewShare (id != 0, non-empty, equal lengths, no nil); messages/witnesses validated by their own decoders"),
  -- pkg/mpc/signatures/bls
  (cps!"pkg/mpc/signatures/bls", cps!"PublicMaterial", .checks [cps!"dto == nil", cps!"dto.Base == nil"] "pure wrapper: the embedded BasePublicMaterial was validated by its own decoder (NewBasePublicMaterial)"),
  (cps!"pkg/mpc/signatures/bls", cps!"Shard", .checks [cps!"recv == nil", cps!"dto == nil", cps!"dto.Base == nil"] "pure wrapper: the embedded BaseShard was validated by its own decoder (NewBaseShard), which is all NewShortKeyShard/NewLongKeyShard do"),
  -- pkg/mpc/signatures/ecdsa/cggmp21
  (cps!"pkg/mpc/signatures/ecdsa/cggmp21", cps!"AuxInfo", .ctor [cps!"NewAuxInfo"]),
  (cps!"pkg/mpc/signatures/ecdsa/cggmp21", cps!"Shard", .ctor [cps!"NewShard"]),
  -- pkg/mpc/signatures/ecdsa/dkls23
  (cps!"pkg/mpc/signatures/ecdsa/dkls23", cps!"PartialSignature", .nullPanics <| .ctor [cps!"NewPartialSignature"]),
  -- pkg/mpc/signatures/ecdsa/lindell17
  (cps!"pkg/mpc/signatures/ecdsa/lindell17", cps!"AuxiliaryInfo", .ctor [cps!"NewAuxiliaryInfo"]),
  (cps!"pkg/mpc/signatures/ecdsa/lindell17", cps!"Shard", .ctor [cps!"NewShard"]),
  -- pkg/mpc/signatures/schnorr
  (cps!"pkg/mpc/signatures/schnorr", cps!"Shard", .delegateThenCtor [cps!"NewShard"]),
  -- pkg/proofs/cggmp21/affg
  (cps!"pkg/proofs/cggmp21/affg", cps!"Commitment", .ctor [cps!"NewCommitment"]),
  (cps!"pkg/proofs/cggmp21/affg", cps!"Response", .ctor [cps!"NewResponse"]),
  (cps!"pkg/proofs/cggmp21/affg", cps!"Statement", .ctor [cps!"NewStatement"]),
  -- pkg/proofs/cggmp21/affgstar
  (cps!"pkg/proofs/cggmp21/affgstar", cps!"Commitment", .ctor [cps!"NewCommitment"]),
  (cps!"pkg/proofs/cggmp21/affgstar", cps!"Response", .ctor [cps!"NewResponse"]),
  (cps!"pkg/proofs/cggmp21/affgstar", cps!"Statement", .ctor [cps!"NewStatement"]),
  -- pkg/proofs/cggmp21/blummod
  (cps!"pkg/proofs/cggmp21/blummod", cps!"Commitment", .ctor [cps!"NewCommitment"]),
  (cps!"pkg/proofs/cggmp21/blummod", cps!"Response", .ctor [cps!"NewResponse"]),
  (cps!"pkg/proofs/cggmp21/blummod", cps!"ResponseItem", .ctor [cps!"NewResponseItem"]),
  (cps!"pkg/proofs/cggmp21/blummod", cps!"State", .ctor [cps!"NewState"]),
  (cps!"pkg/proofs/cggmp21/blummod", cps!"Statement", .ctor [cps!"NewStatement"]),
  -- pkg/proofs/cggmp21/dec
  (cps!"pkg/proofs/cggmp21/dec", cps!"Commitment", .ctor [cps!"NewCommitment"]),
  (cps!"pkg/proofs/cggmp21/dec", cps!"Response", .ctor [cps!"NewResponse"]),
  (cps!"pkg/proofs/cggmp21/dec", cps!"Statement", .ctor [cps!"NewStatement"]),
  -- pkg/proofs/cggmp21/enc
  (cps!"pkg/proofs/cggmp21/enc", cps!"Commitment", .ctor [cps!"NewCommitment"]),
  (cps!"pkg/proofs/cggmp21/enc", cps!"Response", .ctor [cps!"NewResponse"]),
  (cps!"pkg/proofs/cggmp21/enc", cps!"Statement", .ctor [cps!"NewStatement"]),
  -- pkg/proofs/cggmp21/encelg
  (cps!"pkg/proofs/cggmp21/encelg", cps!"Commitment", .ctor [cps!"NewCommitment"]),
  (cps!"pkg/proofs/cggmp21/encelg", cps!"Response", .ctor [cps!"NewResponse"]),
  (cps!"pkg/proofs/cggmp21/encelg", cps!"Statement", .ctor [cps!"NewStatement"]),
  -- pkg/proofs/cggmp21/fac
  (cps!"pkg/proofs/cggmp21/fac", cps!"Commitment", .ctor [cps!"NewCommitment"]),
  (cps!"pkg/proofs/cggmp21/fac", cps!"Response", .ctor [cps!"NewResponse"]),
  (cps!"pkg/proofs/cggmp21/fac", cps!"Statement", .ctor [cps!"NewStatement"]),
  -- pkg/proofs/internal/meta/maurer09
  (cps!"pkg/proofs/internal/meta/maurer09", cps!"Commitment", .checks [cps!"dto == nil || utils.IsNil(dto.A)"] "plain exported-field wrapper around one group element (no constructor); the element is validated by its own decoder"),
  (cps!"pkg/proofs/internal/meta/maurer09", cps!"Response", .checks [cps!"dto == nil || utils.IsNil(dto.Z)"] "plain exported-field wrapper around one group element (no constructor); the element is validated by its own decoder"),
  (cps!"pkg/proofs/internal/meta/maurer09", cps!"State", .checks [cps!"dto == nil || utils.IsNil(dto.S)"] "plain exported-field wrapper around one group element (no constructor); the element is validated by its own decoder"),
  (cps!"pkg/proofs/internal/meta/maurer09", cps!"Statement", .checks [cps!"dto == nil || utils.IsNil(dto.X)"] "plain exported-field wrapper around one group element (no constructor); the element is validated by its own decoder"),
  (cps!"pkg/proofs/internal/meta/maurer09", cps!"Witness", .checks [cps!"dto == nil || utils.IsNil(dto.W)"] "plain exported-field wrapper around one group element (no constructor); the element is validated by its own decoder"),
  -- pkg/proofs/prm
  (cps!"pkg/proofs/prm", cps!"Commitment", .ctor [cps!"NewCommitment"]),
  (cps!"pkg/proofs/prm", cps!"Response", .ctor [cps!"NewResponse"]),
  (cps!"pkg/proofs/prm", cps!"State", .ctor [cps!"NewState"]),
  (cps!"pkg/proofs/prm", cps!"Statement", .ctor [cps!"NewStatement"]),
  -- pkg/proofs/sigma/compiler/fiatshamir/zkmodule
  (cps!"pkg/proofs/sigma/compiler/fiatshamir/zkmodule", cps!"Proof", .checks [cps!"dto == nil", cps!"utils.IsNil(dto.A)", cps!"len(dto.E) == 0", cps!"utils.IsNil(dto.Z)"] "opaque proof container (no constructor); semantic validity is established by Verify"),
  -- pkg/proofs/sigma/compiler/fischlin
  (cps!"pkg/proofs/sigma/compiler/fischlin", cps!"Proof", .checks [cps!"dto == nil || len(dto.A) == 0 || len(dto.A) != len(dto.E) || len(dto.A) != len(dto.Z)", cps!"utils.IsNil(dto.A[i]) || len(dto.E[i]) == 0 || utils.IsNil(dto.Z[i])"] "opaque proof container; shape guards only, semantic validity is established by Verify"),
  -- pkg/proofs/sigma/compiler/randfischlin
  (cps!"pkg/proofs/sigma/compiler/randfischlin", cps!"Proof", .checks [cps!"dto == nil || len(dto.A) != R || len(dto.E) != R || len(dto.Z) != R", cps!"utils.IsNil(dto.A[i]) || len(dto.E[i]) == 0 || utils.IsNil(dto.Z[i])"] "opaque proof container; shape guards only (exactly R repetitions), semantic validity is established by Verify"),
  -- pkg/signatures/bls
  (cps!"pkg/signatures/bls", cps!"ProofOfPossession", .nullPanics <| .ctor [cps!"NewProofOfPossession"]),
  (cps!"pkg/signatures/bls", cps!"Signature", .nullPanics <| .ctor [cps!"NewSignature"]),
  -- pkg/signatures/ecdsa
  (cps!"pkg/signatures/ecdsa", cps!"PublicKey", .nullPanics <| .ctor [cps!"NewPublicKey"]),
  (cps!"pkg/signatures/ecdsa", cps!"Signature", .ctor [cps!"NewSignature"]),
  -- pkg/signatures/schnorrlike
  (cps!"pkg/signatures/schnorrlike", cps!"PublicKey", .nullPanics <| .ctor [cps!"NewPublicKey"])
]

def disciplineOk (tbl : List Fact) (exp : Expectations) : Bool :=
  keysDistinct exp && alignedOk tbl exp

/-- Methods whose decoder stores unvalidated DTO data (candidate findings). -/
def unvalidated : List (Str × Str × String) :=
  expectations.filterMap fun (p, r, e) =>
    match e with | .unvalidated m | .nullPanics (.unvalidated m) => some (p, r, m) | _ => none

/-- Decoders recorded as panicking on a directly supplied CBOR `null`. -/
def nullPanicking : List (Str × Str) :=
  expectations.filterMap fun (p, r, e) => match e with | .nullPanics _ => some (p, r) | _ => none

/-- **C12 (T), decoder discipline**: over the complete regenerated table. -/
theorem unmarshal_discipline_table :
    disciplineOk BronVerif.Gen.UnmarshalFacts.table expectations = true := by decide +kernel

/-- The table is complete in the sense the generator counted (140 at the time of writing; the
    number itself is not pinned, the alignment with `expectations` is). -/
theorem table_size : BronVerif.Gen.UnmarshalFacts.table.length = expectations.length := by decide +kernel

/-- Exactly one decoder is accepted as a known unvalidated gap. -/
theorem unvalidated_count : unvalidated.length = 1 := by decide +kernel

theorem nullPanicking_count : nullPanicking.length = 66 := by decide +kernel

/-! ### Non-vacuity: the checker rejects mutated facts and misaligned tables -/

private def baseShardGood : Fact :=
  { pkg := cps!"pkg/mpc", recv := cps!"BaseShard", dto := cps!"baseShardDTO", decode := cps!"serde.UnmarshalCBOR",
    calls := [cps!"NewBaseShard", cps!"·.VerificationVector", cps!"·.MSP"], checks := [],
    assignsDtoDirect := false, assigns := 1, dtoPtr := true, nilGuard := false, delegates := cps!"" }

/-- `sh.share = dto.Share` without `NewBaseShard`. -/
private def baseShardMutant : Fact :=
  { baseShardGood with calls := [], assignsDtoDirect := true, assigns := 3 }

example : factOk (.ctor [cps!"NewBaseShard"]) baseShardGood = true := by decide +kernel
example : factOk (.ctor [cps!"NewBaseShard"]) baseShardMutant = false := by decide +kernel
/-- the constructor is still called but a DTO field is also stored directly -/
example : factOk (.ctor [cps!"NewBaseShard"]) { baseShardGood with assignsDtoDirect := true, assigns := 2 } = false := by
  decide +kernel
/-- a guard dropped from an explicit-checks decoder -/
example : factOk (.checks [cps!"dto.Threshold <= 0", cps!"len(dto.Parties) == 0", cps!"p == 0"] "")
    { baseShardGood with calls := [], checks := [cps!"dto.Threshold <= 0", cps!"p == 0"], assignsDtoDirect := true } = false := by
  decide +kernel
/-- a pointer-DTO decoder without nil guard must carry the wrapper -/
example : nullOk (.ctor [cps!"NewBaseShard"]) baseShardGood = false := by decide +kernel
example : nullOk (.nullPanics <| .ctor [cps!"NewBaseShard"]) baseShardGood = true := by decide +kernel
/-- a table missing one entry (the first) is rejected -/
example : disciplineOk BronVerif.Gen.UnmarshalFacts.table.tail expectations = false := by decide +kernel
/-- a table with an unknown extra entry is rejected -/
example : disciplineOk ({ baseShardGood with pkg := cps!"pkg/zzz", recv := cps!"New" } :: BronVerif.Gen.UnmarshalFacts.table)
    expectations = false := by decide +kernel
example : disciplineOk (BronVerif.Gen.UnmarshalFacts.table ++ [{ baseShardGood with pkg := cps!"pkg/zzz", recv := cps!"New" }])
    expectations = false := by decide +kernel
/-- an expectation without a fact is rejected -/
example : disciplineOk BronVerif.Gen.UnmarshalFacts.table
    (expectations ++ [(cps!"pkg/zzz", cps!"Gone", .ctor [cps!"NewGone"])]) = false := by decide +kernel

end BronVerif.Lemmas.CborDiscipline
