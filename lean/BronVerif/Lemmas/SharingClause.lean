import BronVerif.Lemmas.SharingPrivacy
import BronVerif.Lemmas.SharingThreshold
/-!
# Clause-vector programmes on lists (unanimity, CNF) — helper lemmas for C02

`clause_spans`: rows that are clause vectors (`cnfClauseVector m i`: `e_{i+1}` for `i < m-1`,
`(1,-1,…,-1)` for the last clause) span `e₀` iff every clause `i < m` occurs among them.  Both
directions are kernel arguments (`SharingPrivacy.kernel_of_solveLeft_none`, `SharingDeal.dot_mulVec`).
`unanimityMSP_accepts`: the executable unanimity programme accepts exactly the full set.
-/
namespace BronVerif.Lemmas.SharingClause
open BronVerif.LinAlg BronVerif.Access BronVerif.Lemmas.SharingAccepts BronVerif.Lemmas.SharingDeal
open BronVerif.Lemmas.SharingPrivacy BronVerif.Lemmas.SharingThreshold

variable {F : Type} [Field F]

theorem cv_length (m i : ℕ) : (cnfClauseVector (F := F) m i).length = m := by
  unfold cnfClauseVector unitVec; split <;> simp

theorem cv_getD (m i j : ℕ) (hj : j < m) :
    (cnfClauseVector (F := F) m i).getD j 0 =
      if i + 1 < m then (if j = i + 1 then 1 else 0) else (if j = 0 then 1 else -1) := by
  unfold cnfClauseVector unitVec
  split <;> simp [List.getD_eq_getElem?_getD, hj]

/-- `⟨clause vector, k⟩` for a list `k = [kf 0, …, kf (m-1)]` -/
theorem dot_cv (m i : ℕ) (kf : ℕ → F) :
    dot (cnfClauseVector (F := F) m i) ((List.range m).map kf) =
      ∑ j ∈ Finset.range m,
        (if i + 1 < m then (if j = i + 1 then 1 else 0) else (if j = 0 then 1 else -1)) * kf j := by
  rw [dot_eq_sum _ _ m (by simp [cv_length])]
  refine Finset.sum_congr rfl fun j hj => ?_
  have hj' := Finset.mem_range.mp hj
  rw [cv_getD m i j hj']
  simp [List.getD_eq_getElem?_getD, hj']

theorem list_eq_range_map (k : List F) (m : ℕ) (h : k.length = m) :
    k = (List.range m).map fun j => k.getD j 0 := by
  apply List.ext_getElem (by simp [h])
  intro i h1 h2
  simp [List.getD_eq_getElem?_getD, List.getElem?_eq_getElem h1]

variable [DecidableEq F]

/-- **Clause vectors span `e₀` iff every clause is present.** -/
theorem clause_spans (m : ℕ) (hm : 0 < m) (cl : List ℕ) (hcl : ∀ i ∈ cl, i < m) :
    SpansL (cl.map (cnfClauseVector (F := F) m)) m ↔ ∀ i < m, i ∈ cl := by
  constructor
  · -- a missing clause i₀ gives a kernel column with first entry 1
    rintro ⟨x, hx, hs⟩ i₀ hi₀
    by_contra hmiss
    let kf : ℕ → F := fun j => if j = 0 ∨ (i₀ + 1 < m ∧ j = i₀ + 1) then 1 else 0
    have hrow : ∀ row ∈ cl.map (cnfClauseVector (F := F) m), dot row ((List.range m).map kf) = 0 := by
      intro row hrow
      obtain ⟨i, hi, rfl⟩ := List.mem_map.mp hrow
      have him : i < m := hcl i hi
      have hne : i ≠ i₀ := fun h => hmiss (h ▸ hi)
      rw [dot_cv]
      by_cases hlast : i + 1 < m
      · simp only [hlast, if_true]
        rw [Finset.sum_eq_single (i + 1)]
        · simp only [if_true, one_mul, kf]
          rw [if_neg]
          rintro (h | ⟨-, h⟩) <;> omega
        · intro j _ hj; simp [hj]
        · intro h; exact absurd (Finset.mem_range.mpr hlast) h
      · -- i is the last clause, so i₀ is not: i₀ + 1 < m
        have hi0 : i₀ + 1 < m := by omega
        simp only [hlast, if_false]
        rw [Finset.sum_eq_add 0 (i₀ + 1) (by omega)]
        · simp [kf, hi0]
        · intro j _ hj
          have : kf j = 0 := by
            simp only [kf]; rw [if_neg]; rintro (h | ⟨-, h⟩)
            · exact hj.1 h
            · exact hj.2 h
          rw [this, mul_zero]
        · intro h; exact absurd (Finset.mem_range.mpr hm) h
        · intro h; exact absurd (Finset.mem_range.mpr hi0) h
    have hw : ∀ row ∈ cl.map (cnfClauseVector (F := F) m), row.length = m := by
      intro row hrow
      obtain ⟨i, -, rfl⟩ := List.mem_map.mp hrow
      exact cv_length m i
    have h1 := dot_mulVec (cl.map (cnfClauseVector (F := F) m)) x ((List.range m).map kf) m hw
      (by simp) hx
    have hzero : (cl.map (cnfClauseVector (F := F) m)).map (fun row => dot row ((List.range m).map kf)) =
        (cl.map (cnfClauseVector (F := F) m)).map fun _ => (0 : F) :=
      List.map_congr_left hrow
    rw [hzero] at h1
    have hl : dot x ((cl.map (cnfClauseVector (F := F) m)).map fun _ => (0 : F)) = 0 := by
      rw [dot_eq_list_sum]
      apply List.sum_eq_zero
      intro a ha
      obtain ⟨p, hp, rfl⟩ := List.mem_iff_getElem.mp ha
      simp
    rw [hl, Finset.sum_eq_single 0] at h1
    · rw [hs 0 hm] at h1
      simp [kf, List.getD_eq_getElem?_getD, List.getElem?_range hm] at h1
    · intro j hj hj0
      rw [hs j (Finset.mem_range.mp hj), if_neg hj0, zero_mul]
    · intro h; exact absurd (Finset.mem_range.mpr hm) h
  · -- all clauses present: a kernel column with first entry 1 cannot exist
    intro hall
    by_contra hns
    have hnone : solveLeft (cl.map (cnfClauseVector (F := F) m)) m (unitVec m 0) = none := by
      cases hsl : solveLeft (cl.map (cnfClauseVector (F := F) m)) m (unitVec m 0) with
      | none => rfl
      | some x =>
        exact absurd ((solveLeft_isSome_iff _ m).mp (by rw [hsl]; rfl)) hns
    obtain ⟨k, hklen, hk0, hker⟩ := kernel_of_solveLeft_none _ m hm hnone
    have hkeq := list_eq_range_map k m hklen
    -- unit rows force k_j = 0 for 1 ≤ j < m
    have hkz : ∀ j, 1 ≤ j → j < m → k.getD j 0 = 0 := by
      intro j hj1 hjm
      have hi : j - 1 ∈ cl := hall (j - 1) (by omega)
      have := hker _ (List.mem_map.mpr ⟨j - 1, hi, rfl⟩)
      rw [hkeq, dot_cv] at this
      have hlt : j - 1 + 1 < m := by omega
      simp only [hlt, if_true] at this
      rw [Finset.sum_eq_single j] at this
      · have hjj : j = j - 1 + 1 := by omega
        rw [if_pos hjj, one_mul] at this
        exact this
      · intro b _ hb
        have : b ≠ j - 1 + 1 := by omega
        simp [this]
      · intro h; exact absurd (Finset.mem_range.mpr hjm) h
    -- the last clause then gives k₀ = 0
    have hlast := hker _ (List.mem_map.mpr ⟨m - 1, hall (m - 1) (by omega), rfl⟩)
    rw [hkeq, dot_cv] at hlast
    have hnl : ¬ (m - 1 + 1 < m) := by omega
    simp only [hnl, if_false] at hlast
    rw [Finset.sum_eq_single 0] at hlast
    · simp only [if_true, one_mul] at hlast
      rw [hlast] at hk0
      exact zero_ne_one hk0
    · intro j hj hj0
      rw [hkz j (by omega) (Finset.mem_range.mp hj), mul_zero]
    · intro h; exact absurd (Finset.mem_range.mpr hm) h

/-- **The executable unanimity programme accepts exactly the full set of shareholders.** -/
theorem unanimityMSP_accepts (ids S : List ℕ) (hn : 0 < (sortedSet ids).length)
    (hS : ∀ i ∈ S, i ∈ ids) :
    (unanimityMSP (F := F) ids).accepts S = decide (∀ id ∈ ids, id ∈ S) := by
  set hs := sortedSet ids with hhs
  set n := hs.length with hnn
  have hmsp : unanimityMSP (F := F) ids =
      { mat := hs.zipIdx.map (fun p => cnfClauseVector (F := F) n p.2), cols := n,
        holders := hs.zipIdx.map (·.1) } := by
    unfold unanimityMSP
    simp only [← hhs, ← hnn]
    congr 1
    · have h1 : (hs.zipIdx.map fun p => cnfClauseVector (F := F) n p.2) =
          (hs.zipIdx.map Prod.snd).map (cnfClauseVector (F := F) n) := by
        rw [List.map_map]; rfl
      rw [h1, List.zipIdx_map_snd, ← List.range_eq_range', ← hnn]
      rfl
    · exact (List.zipIdx_map_fst 0 hs).symm
  have hSh : ∀ i ∈ S, i ∈ (unanimityMSP (F := F) ids).holders := by
    intro i hi
    rw [hmsp]
    simp only
    rw [List.zipIdx_map_fst]
    exact mem_sortedSet.mpr (hS i hi)
  have hpos : 0 < (unanimityMSP (F := F) ids).cols := by rw [hmsp]; exact hn
  rw [Bool.eq_iff_iff, accepts_iff' _ S hSh hpos, hmsp, sub_eq_filter, decide_eq_true_iff]
  simp only
  set cl := ((hs.zipIdx).filter fun p => S.contains p.1).map Prod.snd with hcl
  have hrows : ((hs.zipIdx).filter fun p => S.contains p.1).map (fun p => cnfClauseVector (F := F) n p.2) =
      cl.map (cnfClauseVector (F := F) n) := by
    rw [hcl, List.map_map]; rfl
  rw [hrows]
  have hlt : ∀ i ∈ cl, i < n := by
    intro i hi
    obtain ⟨p, hp, rfl⟩ := List.mem_map.mp hi
    have := List.snd_lt_of_mem_zipIdx (List.mem_filter.mp hp).1
    simpa using this
  rw [clause_spans n hn cl hlt]
  have hmem : ∀ i (hi : i < n), i ∈ cl ↔ hs[i] ∈ S := by
    intro i hi
    rw [hcl, List.mem_map]
    constructor
    · rintro ⟨p, hp, rfl⟩
      obtain ⟨hpz, hpc⟩ := List.mem_filter.mp hp
      have := List.mem_zipIdx_iff_getElem?.mp hpz
      rw [List.getElem?_eq_getElem hi] at this
      have heq : hs[p.2] = p.1 := Option.some.inj this
      rw [heq]
      simpa using hpc
    · intro hmemS
      refine ⟨(hs[i], i), List.mem_filter.mpr ⟨?_, by simpa using hmemS⟩, rfl⟩
      exact List.mem_zipIdx_iff_getElem?.mpr (List.getElem?_eq_getElem hi)
  constructor
  · intro hall id hid
    have hidh : id ∈ hs := mem_sortedSet.mpr hid
    obtain ⟨i, hi, rfl⟩ := List.getElem_of_mem hidh
    exact (hmem i hi).mp (hall i hi)
  · intro hall i hi
    exact (hmem i hi).mpr (hall _ (mem_sortedSet.mp (List.getElem_mem hi)))

/-- **The executable CNF programme accepts `S` iff `S` is contained in no maximal unqualified set** —
for sets `S` of shareholders each of whom owns a row, i.e. lies outside some maximal unqualified set
(a shareholder inside every maximal unqualified set owns no row: the recorded finding
`holder-without-rows`). -/
theorem cnfMSP_accepts (sets : List (List ℕ)) (S : List ℕ) (hne : cnfNormalise sets ≠ [])
    (hS : ∀ id ∈ S, id ∈ (cnfNormalise sets).flatten)
    (hrows : ∀ id ∈ S, ∃ u ∈ cnfNormalise sets, id ∉ u) :
    (cnfMSP (F := F) sets).accepts S = decide (∀ u ∈ cnfNormalise sets, ∃ id ∈ S, id ∉ u) := by
  set mus := cnfNormalise sets with hmus
  set hs := sortedSet mus.flatten with hhs
  set sorted := mus.mergeSort cnfSetLe with hsorted
  set m := sorted.length with hm
  have hperm : sorted.Perm mus := List.mergeSort_perm _ _
  have hmpos : 0 < m := by
    rw [hm, hperm.length_eq]
    exact List.length_pos_of_ne_nil hne
  set xs : List (ℕ × ℕ) := sorted.zipIdx.flatMap fun p =>
    (hs.filter fun id => !p.1.contains id).map fun id => (p.2, id) with hxs
  have hmsp : cnfMSP (F := F) sets =
      { mat := xs.map (fun q => cnfClauseVector (F := F) m q.1), cols := m, holders := xs.map (·.2) } := by
    unfold cnfMSP
    simp only [← hmus, ← hhs, ← hsorted, ← hm, hxs, List.map_flatMap, List.map_map, Function.comp_def]
  have hxmem : ∀ i id, (i, id) ∈ xs ↔ ∃ u, sorted[i]? = some u ∧ id ∈ hs ∧ id ∉ u := by
    intro i id
    rw [hxs, List.mem_flatMap]
    constructor
    · rintro ⟨p, hp, hq⟩
      obtain ⟨id', hid', heq⟩ := List.mem_map.mp hq
      obtain ⟨rfl, rfl⟩ := Prod.mk.inj heq
      obtain ⟨h1, h2⟩ := List.mem_filter.mp hid'
      exact ⟨p.1, List.mem_zipIdx_iff_getElem?.mp hp, h1, by simpa using h2⟩
    · rintro ⟨u, hu, h1, h2⟩
      exact ⟨(u, i), List.mem_zipIdx_iff_getElem?.mpr hu,
        List.mem_map.mpr ⟨id, List.mem_filter.mpr ⟨h1, by simpa using h2⟩, rfl⟩⟩
  have hSh : ∀ id ∈ S, id ∈ (cnfMSP (F := F) sets).holders := by
    intro id hid
    rw [hmsp]
    obtain ⟨u, hu, hnot⟩ := hrows id hid
    have hus : u ∈ sorted := hperm.mem_iff.mpr hu
    obtain ⟨i, hi, rfl⟩ := List.getElem_of_mem hus
    refine List.mem_map.mpr ⟨(i, id), (hxmem i id).mpr ⟨sorted[i], List.getElem?_eq_getElem hi, ?_, hnot⟩, rfl⟩
    exact mem_sortedSet.mpr (hS id hid)
  have hpos : 0 < (cnfMSP (F := F) sets).cols := by rw [hmsp]; exact hmpos
  rw [Bool.eq_iff_iff, accepts_iff' _ S hSh hpos, hmsp, sub_eq_filter, decide_eq_true_iff]
  simp only
  set cl := (xs.filter fun q => S.contains q.2).map Prod.fst with hcl
  have hrowsEq : (xs.filter fun q => S.contains q.2).map (fun q => cnfClauseVector (F := F) m q.1) =
      cl.map (cnfClauseVector (F := F) m) := by
    rw [hcl, List.map_map]; rfl
  rw [hrowsEq]
  have hclmem : ∀ i, i ∈ cl ↔ ∃ u, sorted[i]? = some u ∧ ∃ id ∈ S, id ∉ u := by
    intro i
    rw [hcl, List.mem_map]
    constructor
    · rintro ⟨q, hq, rfl⟩
      obtain ⟨hqx, hqs⟩ := List.mem_filter.mp hq
      obtain ⟨u, hu, -, hnot⟩ := (hxmem q.1 q.2).mp hqx
      exact ⟨u, hu, q.2, by simpa using hqs, hnot⟩
    · rintro ⟨u, hu, id, hid, hnot⟩
      refine ⟨(i, id), List.mem_filter.mpr ⟨(hxmem i id).mpr ⟨u, hu, mem_sortedSet.mpr (hS id hid), hnot⟩,
        by simpa using hid⟩, rfl⟩
  have hlt : ∀ i ∈ cl, i < m := by
    intro i hi
    obtain ⟨u, hu, -⟩ := (hclmem i).mp hi
    by_contra hge
    rw [List.getElem?_eq_none (by omega)] at hu
    cases hu
  rw [clause_spans m hmpos cl hlt]
  constructor
  · intro hall u hu
    have hus : u ∈ sorted := hperm.mem_iff.mpr hu
    obtain ⟨i, hi, rfl⟩ := List.getElem_of_mem hus
    obtain ⟨u', hu', hex⟩ := (hclmem i).mp (hall i hi)
    rw [List.getElem?_eq_getElem hi] at hu'
    obtain rfl := Option.some.inj hu'
    exact hex
  · intro hall i hi
    exact (hclmem i).mpr ⟨sorted[i], List.getElem?_eq_getElem hi,
      hall _ (hperm.mem_iff.mp (List.getElem_mem hi))⟩

end BronVerif.Lemmas.SharingClause
