import Mathlib.Algebra.BigOperators.Group.List.Basic
import Mathlib.Algebra.BigOperators.Ring.List
import Mathlib.Algebra.Field.Basic
import Mathlib.Tactic.Ring
import BronVerif.Model.Access
import BronVerif.Model.Sharing
import BronVerif.Props.C20
/-!
# `MSP.accepts` of the executable model is "the target is a combination of the selected rows"

`SpansL rows d` says, in plain list vocabulary, that some weight list `x` (one weight per row)
satisfies `Σᵢ xᵢ · rowsᵢ[j] = [j = 0]` for every column `j < d`.  `accepts_iff` identifies the
model's `MSP.accepts` (which runs the mirrored Gauss–Jordan solver `solveLeft`) with `SpansL` of
the rows owned by the set, using the proven soundness/completeness of the solver
(`Props.C20.solveLeft_sound/complete`).  `pick_filter` identifies the selected rows with a filter.
-/
namespace BronVerif.Lemmas.SharingAccepts
open BronVerif.LinAlg BronVerif.Access

variable {F : Type} [Field F] [DecidableEq F]

/-- column `j` of a list matrix (short rows read as `0`) -/
def colOf (rows : Mat F) (j : ℕ) : List F := rows.map (·.getD j 0)

/-- weighted column sum `Σᵢ xᵢ · rowsᵢ[j]` -/
def wsum (rows : Mat F) (x : List F) (j : ℕ) : F := (List.zipWith (· * ·) (colOf rows j) x).sum

/-- the target `e₀` (of width `d`) is a combination of the rows -/
def SpansL (rows : Mat F) (d : ℕ) : Prop :=
  ∃ x : List F, x.length = rows.length ∧ ∀ j < d, wsum rows x j = if j = 0 then 1 else 0

omit [DecidableEq F] in
theorem mulVec_transposeN (rows : Mat F) (d : ℕ) (x : List F) :
    mulVec (transposeN rows d) x = (List.range d).map fun j => wsum rows x j := by
  simp [mulVec, transposeN, wsum, colOf, dot_eq_list_sum, List.map_map, Function.comp_def]

omit [DecidableEq F] in
theorem unitVec_zero (d : ℕ) :
    (unitVec d 0 : List F) = (List.range d).map fun j => if j = 0 then (1 : F) else 0 := rfl

omit [DecidableEq F] in
theorem spans_iff_mulVec (rows : Mat F) (d : ℕ) :
    SpansL rows d ↔ ∃ x : List F, x.length = rows.length ∧ mulVec (transposeN rows d) x = unitVec d 0 := by
  unfold SpansL
  refine exists_congr fun x => and_congr Iff.rfl ?_
  rw [mulVec_transposeN, unitVec_zero, List.map_inj_left]
  simp

/-- the mirrored solver decides `SpansL` -/
theorem solveLeft_isSome_iff (rows : Mat F) (d : ℕ) :
    (solveLeft rows d (unitVec d 0)).isSome = true ↔ SpansL rows d := by
  rw [spans_iff_mulVec]
  have hr : (unitVec d 0 : List F).length = d := by simp [unitVec]
  constructor
  · intro h
    obtain ⟨x, hx⟩ := Option.isSome_iff_exists.mp h
    exact ⟨x, Props.C20.solveLeft_sound rows d _ hr x hx⟩
  · intro h
    by_contra hn
    have hnone : solveLeft rows d (unitVec d 0) = none := by
      cases hs : solveLeft rows d (unitVec d 0) with
      | none => rfl
      | some x => simp [hs] at hn
    exact Props.C20.solveLeft_complete rows d _ hr hnone h

/-- `MSP.accepts` on a non-empty selection of row owners -/
theorem accepts_iff (m : MSP F) (S : List ℕ) (hS : ∀ id ∈ S, id ∈ m.holders)
    (hne : m.rowsOf S ≠ []) : m.accepts S = true ↔ SpansL (m.sub S) m.cols := by
  have h1 : (S.any fun id => !m.holders.contains id) = false := by
    simp only [List.any_eq_false, Bool.not_eq_eq_eq_not]
    intro id hid
    simpa using hS id hid
  have h2 : (m.rowsOf S).isEmpty = false := by
    cases h : m.rowsOf S with
    | nil => exact absurd h hne
    | cons _ _ => rfl
  unfold MSP.accepts MSP.reconVector
  simp only [h1, h2, Bool.false_eq_true, if_false]
  exact solveLeft_isSome_iff _ _

omit [DecidableEq F] in
theorem not_spans_nil (d : ℕ) (hd : 0 < d) : ¬ SpansL ([] : Mat F) d := by
  rintro ⟨x, -, hs⟩
  have := hs 0 hd
  simp [wsum, colOf] at this

/-- `MSP.accepts` for a set of row owners, programme of positive width -/
theorem accepts_iff' (m : MSP F) (S : List ℕ) (hS : ∀ id ∈ S, id ∈ m.holders) (hd : 0 < m.cols) :
    m.accepts S = true ↔ SpansL (m.sub S) m.cols := by
  by_cases hne : m.rowsOf S = []
  · have h1 : m.accepts S = false := by
      simp [MSP.accepts, MSP.reconVector, hne]
    have h2 : m.sub S = [] := by simp [MSP.sub, hne, Access.pick]
    rw [h1, h2]
    simp only [Bool.false_eq_true, false_iff]
    exact not_spans_nil _ hd
  · exact accepts_iff m S hS hne

theorem accepts_nil (m : MSP F) : m.accepts [] = false := by
  have : m.rowsOf [] = [] := by simp [MSP.rowsOf]
  simp [MSP.accepts, MSP.reconVector, this]

/-! ### the selected rows are a filter -/

theorem pick_filter_aux {α β : Type} (f : α → β) (q : α → Bool) (xs : List α) (pre : List β) :
    Access.pick (pre ++ xs.map f) (((xs.zipIdx pre.length).filter fun p => q p.1).map (·.2)) =
      (xs.filter q).map f := by
  induction xs generalizing pre with
  | nil => simp [Access.pick]
  | cons a xs ih =>
    have key := ih (pre ++ [f a])
    simp only [List.length_append, List.length_singleton, List.append_assoc, List.singleton_append] at key
    simp only [List.zipIdx_cons, List.map_cons, List.filter_cons]
    by_cases hq : q a = true
    · simp only [hq, if_true, List.map_cons]
      have h1 : (pre ++ f a :: List.map f xs)[pre.length]? = some (f a) := by simp
      unfold Access.pick at key ⊢
      rw [List.filterMap_cons, h1]
      simp only
      rw [key]
    · simp only [hq, Bool.false_eq_true, if_false]
      exact key

/-- picking the rows of `xs.map f` at the positions where `q` holds = mapping the filtered list -/
theorem pick_filter {α β : Type} (f : α → β) (q : α → Bool) (xs : List α) :
    Access.pick (xs.map f) (((xs.zipIdx).filter fun p => q p.1).map (·.2)) = (xs.filter q).map f := by
  simpa using pick_filter_aux f q xs []

omit [Field F] [DecidableEq F] in
/-- for a programme whose rows and holders are both maps of one list of row descriptors -/
theorem sub_eq_filter {α : Type} (xs : List α) (row : α → List F) (holder : α → ℕ) (d : ℕ)
    (S : List ℕ) :
    (MSP.sub (F := F) { mat := xs.map row, cols := d, holders := xs.map holder } S) =
      (xs.filter fun a => S.contains (holder a)).map row := by
  unfold MSP.sub MSP.rowsOf
  simp only
  rw [List.zipIdx_map]
  simp only [List.filter_map, List.map_map, Function.comp_def]
  have := pick_filter row (fun a => S.contains (holder a)) xs
  convert this using 2
  simp [Function.comp_def]

theorem zipIdx_filter_length {α : Type} (q : α → Bool) (xs : List α) (k : ℕ) :
    ((xs.zipIdx k).filter fun p => q p.1).length = (xs.filter q).length := by
  induction xs generalizing k with
  | nil => simp
  | cons a xs ih =>
    simp only [List.zipIdx_cons, List.filter_cons]
    by_cases hq : q a = true
    · simp [hq, ih]
    · simp [hq, ih]

omit [Field F] [DecidableEq F] in
theorem rowsOf_length {α : Type} (xs : List α) (row : α → List F) (holder : α → ℕ) (d : ℕ)
    (S : List ℕ) :
    (MSP.rowsOf (F := F) { mat := xs.map row, cols := d, holders := xs.map holder } S).length =
      (xs.filter fun a => S.contains (holder a)).length := by
  unfold MSP.rowsOf
  simp only
  rw [List.zipIdx_map]
  simp only [List.filter_map, List.length_map, Function.comp_def]
  exact zipIdx_filter_length (fun a => S.contains (holder a)) xs 0

end BronVerif.Lemmas.SharingAccepts
