import Mathlib.LinearAlgebra.Lagrange
import Mathlib.Algebra.BigOperators.Fin
import Mathlib.Data.List.Nodup
import Mathlib.Data.Finset.Card
import Mathlib.Data.List.OfFn
import BronVerif.Lemmas.SharingLCW
import BronVerif.Lemmas.SharingAccepts
import BronVerif.Lemmas.SharingModel
/-!
# Vandermonde weights on lists of nodes (helper lemmas for C02)

`msum ys w e = Σᵢ wᵢ·yᵢ^e`.  For distinct non-zero nodes `ys`:
* fewer than `t` nodes and vanishing moments `1 … t-1` force all weights to vanish (`msum_zero`);
* with at least `t` nodes there are weights of sum 1 with vanishing moments `1 … t-1` (`exists_weights`).
Both are the list forms of `SharingLCW.moments_zero` / Lagrange interpolation at zero, and are what
`thresholdMSP` (nodes = shareholder ids) and every gate of `treeMSP` (nodes = child positions) use.
-/
namespace BronVerif.Lemmas.SharingVand
open BronVerif.LinAlg BronVerif.Access BronVerif.Lemmas.SharingLCW BronVerif.Lemmas.SharingAccepts
open Finset Polynomial

variable {F : Type} [Field F]

/-- `Σᵢ wᵢ · yᵢ^e` -/
def msum (ys w : List F) (e : ℕ) : F := (List.zipWith (· * ·) (ys.map (· ^ e)) w).sum

theorem msum_eq_fin (ys w : List F) (e : ℕ) (n : ℕ) (hy : ys.length = n) (hw : w.length = n) :
    msum ys w e = ∑ i : Fin n, w[i] * ys[i] ^ e := by
  unfold msum
  rw [zipWith_sum_eq _ _ n (by simp [hy, hw]), Finset.sum_range]
  refine Finset.sum_congr rfl fun i _ => ?_
  have h1 : (i : ℕ) < ys.length := hy ▸ i.2
  have h2 : (i : ℕ) < w.length := hw ▸ i.2
  simp [List.getD_eq_getElem?_getD, List.getElem?_eq_getElem h1, List.getElem?_eq_getElem h2, mul_comm]

theorem msum_zero_exp (ys w : List F) (h : w.length = ys.length) : msum ys w 0 = w.sum := by
  have key : ∀ (n : ℕ) (w : List F), w.length = n →
      (List.zipWith (· * ·) (List.replicate n (1 : F)) w).sum = w.sum := by
    intro n
    induction n with
    | zero => intro w hw; simp [List.length_eq_zero_iff.mp hw]
    | succ n ih =>
      intro w hw
      cases w with
      | nil => simp at hw
      | cons a w =>
        simp only [List.length_cons, Nat.add_right_cancel_iff] at hw
        simp [List.replicate_succ, ih w hw]
  unfold msum
  simpa using key ys.length w h

/-- fewer than `t` distinct non-zero nodes: vanishing moments `1 … t-1` force every weight to vanish -/
theorem weights_zero (ys w : List F) (t : ℕ) (hnd : ys.Nodup) (h0 : ∀ y ∈ ys, y ≠ 0)
    (hw : w.length = ys.length) (hlt : ys.length < t)
    (hm : ∀ e, 1 ≤ e → e < t → msum ys w e = 0) : ∀ a ∈ w, a = 0 := by
  set n := ys.length with hn
  have hinj : Function.Injective fun i : Fin n => ys[i] := by
    intro i j hij
    exact Fin.ext ((List.Nodup.getElem_inj_iff hnd).mp hij)
  have hx0 : ∀ i : Fin n, ys[i] ≠ 0 := fun i => h0 _ (List.getElem_mem _)
  have hall := moments_zero (fun i : Fin n => ys[i]) hinj hx0 t Finset.univ
    (by simpa using hlt) (fun i : Fin n => w[i]) (fun i hi => absurd (Finset.mem_univ i) hi)
    (fun k => by
      have := hm ((k : ℕ) + 1) (by omega) (by have := k.2; omega)
      rw [msum_eq_fin ys w _ n rfl hw] at this
      exact this)
  intro a ha
  obtain ⟨i, hi, rfl⟩ := List.getElem_of_mem ha
  exact hall ⟨i, hw ▸ hi⟩

theorem sum_zero_of_moments (ys w : List F) (t : ℕ) (hnd : ys.Nodup) (h0 : ∀ y ∈ ys, y ≠ 0)
    (hw : w.length = ys.length) (hlt : ys.length < t)
    (hm : ∀ e, 1 ≤ e → e < t → msum ys w e = 0) : w.sum = 0 :=
  List.sum_eq_zero (weights_zero ys w t hnd h0 hw hlt hm)

/-- at least `t` distinct nodes: Lagrange weights at zero on `t` of them have sum 1 and vanishing
moments `1 … t-1` -/
theorem exists_weights (ys : List F) (t : ℕ) (ht : 0 < t) (hnd : ys.Nodup) (hle : t ≤ ys.length) :
    ∃ w : List F, w.length = ys.length ∧ w.sum = 1 ∧ ∀ e, 1 ≤ e → e < t → msum ys w e = 0 := by
  set n := ys.length with hn
  let x : Fin n → F := fun i => ys[i]
  have hinj : Function.Injective x := by
    intro i j hij
    exact Fin.ext ((List.Nodup.getElem_inj_iff hnd).mp hij)
  obtain ⟨T, -, hTc⟩ := Finset.exists_subset_card_eq (s := (Finset.univ : Finset (Fin n)))
    (n := t) (by simpa using hle)
  have hv : Set.InjOn x T := fun a _ b _ h => hinj h
  let wf : Fin n → F := fun i => if i ∈ T then (Lagrange.basis T x i).eval 0 else 0
  have hlen : (List.ofFn wf).length = n := by simp
  have hget : ∀ i : Fin n, (List.ofFn wf)[i] = wf i := fun i => by simp
  refine ⟨List.ofFn wf, hlen, ?_, ?_⟩
  · rw [List.sum_ofFn]
    simp only [wf]
    rw [← Finset.sum_filter, Finset.filter_mem_eq_inter, Finset.univ_inter]
    have := lagrange_zero_sum' T x hv 1 (by rw [degree_one, hTc]; exact_mod_cast ht)
    simpa using this
  · intro e he1 het
    rw [msum_eq_fin ys _ e n rfl hlen]
    simp only [hget, wf, ite_mul, zero_mul]
    rw [← Finset.sum_filter, Finset.filter_mem_eq_inter, Finset.univ_inter]
    have := lagrange_zero_sum' T x hv (X ^ e) (by rw [degree_X_pow, hTc]; exact_mod_cast het)
    simp only [eval_pow, eval_X] at this
    rw [show (∑ i ∈ T, eval 0 (Lagrange.basis T x i) * ys[i] ^ e) =
      ∑ i ∈ T, eval 0 (Lagrange.basis T x i) * x i ^ e from rfl, this]
    simp [Nat.pos_iff_ne_zero.mp he1]

/-- **Vandermonde rows on a list of distinct non-zero nodes span `e₀` iff there are at least `t` of
them** (`t` columns `y⁰ … y^(t-1)`). -/
theorem spans_vandermonde_iff (ys : List F) (t : ℕ) (ht : 0 < t) (hnd : ys.Nodup)
    (h0 : ∀ y ∈ ys, y ≠ 0) :
    SpansL (ys.map fun y => (List.range t).map fun j => y ^ j) t ↔ t ≤ ys.length := by
  have hcol : ∀ (x : List F) (j : ℕ), j < t →
      wsum (ys.map fun y => (List.range t).map fun j => y ^ j) x j = msum ys x j := by
    intro x j hj
    unfold wsum colOf msum
    congr 2
    simp only [List.map_map]
    refine List.map_congr_left fun y _ => ?_
    simp [List.getD_eq_getElem?_getD, hj]
  constructor
  · rintro ⟨x, hx, hs⟩
    by_contra hlt
    push Not at hlt
    have hx' : x.length = ys.length := by simpa using hx
    have h1 : x.sum = 1 := by
      have := hs 0 ht
      rwa [hcol x 0 ht, msum_zero_exp ys x hx', if_pos rfl] at this
    have h2 := sum_zero_of_moments ys x t hnd h0 hx' hlt (fun e he1 het => by
      have := hs e het
      rwa [hcol x e het, if_neg (by omega)] at this)
    rw [h2] at h1
    exact zero_ne_one h1
  · intro hle
    obtain ⟨w, hw, hsum, hm⟩ := exists_weights ys t ht hnd hle
    refine ⟨w, by simpa using hw, fun j hj => ?_⟩
    rw [hcol w j hj]
    by_cases hj0 : j = 0
    · subst hj0; rw [msum_zero_exp ys w hw, hsum, if_pos rfl]
    · rw [if_neg hj0]; exact hm j (by omega) hj

end BronVerif.Lemmas.SharingVand
