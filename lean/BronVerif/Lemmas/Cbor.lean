import BronVerif.Model.Cbor
/-!
# Lemmas about the CBOR model: heads, round trip, strictness

Everything here is about the very definitions the driver executes (`Model/Cbor.lean`).
-/
namespace BronVerif.Cbor

theorem toNat_ofNat_lt {n : Nat} (h : n < 256) : (UInt8.ofNat n).toNat = n := by
  rw [UInt8.toNat_ofNat']; omega

/-! ## big-endian arguments -/

theorem beBytes_length (n k : Nat) : (beBytes n k).length = k := by
  induction k generalizing n with
  | zero => rfl
  | succ k ih => simp [beBytes, ih]

theorem foldl_beBytes (k : Nat) : ∀ (n acc : Nat), n < 256 ^ k →
    (beBytes n k).foldl (fun a (b : UInt8) => a * 256 + b.toNat) acc = acc * 256 ^ k + n := by
  induction k with
  | zero => intro n acc h; simp at h; simp [beBytes, h]
  | succ k ih =>
    intro n acc h
    have hpos : 0 < 256 ^ k := Nat.pos_of_ne_zero (by simp)
    have hq : n / 256 ^ k < 256 := by
      rw [Nat.div_lt_iff_lt_mul hpos]; rw [Nat.pow_succ] at h; omega
    have hr : n % 256 ^ k < 256 ^ k := Nat.mod_lt _ hpos
    simp only [beBytes, List.foldl_cons]
    rw [ih _ _ hr, toNat_ofNat_lt hq, Nat.pow_succ]
    have h0 := Nat.div_add_mod n (256 ^ k)
    generalize 256 ^ k = p at *
    generalize n / p = q at *
    generalize n % p = r at *
    have e1 : acc * 256 * p = acc * (p * 256) := by rw [Nat.mul_assoc, Nat.mul_comm 256]
    have e2 : q * p = p * q := Nat.mul_comm _ _
    rw [Nat.add_mul, e1, e2]; omega

theorem beVal_beBytes {n k : Nat} (h : n < 256 ^ k) : beVal (beBytes n k) = n := by
  unfold beVal; rw [foldl_beBytes k n 0 h]; simp

theorem readBE_beBytes {n k : Nat} (h : n < 256 ^ k) (rest : Bytes) :
    readBE k (beBytes n k ++ rest) = some (n, rest) := by
  unfold readBE
  have hl := beBytes_length n k
  have h1 : ¬ (beBytes n k ++ rest).length < k := by simp [hl]
  rw [if_neg h1]
  have h2 : (beBytes n k ++ rest).take k = beBytes n k := by
    exact List.take_left' hl
  have h3 : (beBytes n k ++ rest).drop k = rest := by
    exact List.drop_left' hl
  rw [h2, h3, beVal_beBytes h]

/-! ## heads -/

/-- additional information chosen by the shortest-form encoder -/
def aiOf (n : Nat) : Nat :=
  if n < 24 then n else if n < 256 then 24 else if n < 65536 then 25
  else if n < 4294967296 then 26 else 27

theorem decHead_cons_ext {m c k n : Nat} (hm : m < 8) (hc : 24 ≤ c ∧ c ≤ 27)
    (hk : k = 2 ^ (c - 24)) (hn : n < 256 ^ k) (rest : Bytes) :
    decHead (UInt8.ofNat (m * 32 + c) :: (beBytes n k ++ rest)) = some (m, c, n, rest) := by
  have hb : (m * 32 + c) % 256 = m * 32 + c := by omega
  have h1 : (m * 32 + c) / 32 = m := by omega
  have h2 : (m * 32 + c) % 32 = c := by omega
  obtain ⟨hc1, hc2⟩ := hc
  have hcases : c = 24 ∨ c = 25 ∨ c = 26 ∨ c = 27 := by omega
  rcases hcases with rfl | rfl | rfl | rfl <;> subst hk <;>
    simp [decHead, hb, h1, h2, readBE_beBytes hn]

theorem decHead_head {m n : Nat} (hm : m < 8) (hn : n < two64) (rest : Bytes) :
    decHead (head m n ++ rest) = some (m, aiOf n, n, rest) := by
  unfold head aiOf
  by_cases h1 : n < 24
  · have hb : (m * 32 + n) % 256 = m * 32 + n := by omega
    have e1 : (m * 32 + n) / 32 = m := by omega
    have e2 : (m * 32 + n) % 32 = n := by omega
    simp [h1, decHead, hb, e1, e2]
  · by_cases h2 : n < 256
    · simp only [h1, h2, if_true, if_false, List.cons_append]
      exact decHead_cons_ext hm (by omega) (by decide) (by simpa using h2) rest
    · by_cases h3 : n < 65536
      · simp only [h1, h2, h3, if_true, if_false, List.cons_append]
        exact decHead_cons_ext hm (by omega) (by decide) (by simpa using h3) rest
      · by_cases h4 : n < 4294967296
        · simp only [h1, h2, h3, h4, if_true, if_false, List.cons_append]
          exact decHead_cons_ext hm (by omega) (by decide) (by simpa using h4) rest
        · simp only [h1, h2, h3, h4, if_false, List.cons_append]
          exact decHead_cons_ext hm (by omega) (by decide) (by simpa [two64] using hn) rest

theorem head_length_pos (m n : Nat) : 1 ≤ (head m n).length := by
  unfold head; split <;> (try split) <;> (try split) <;> (try split) <;> simp

/-- reserved additional information (28–30) and the indefinite-length marker / break (31) are
rejected wherever a data item is expected -/
theorem decHead_reserved (b : UInt8) (rest : Bytes) (h : 28 ≤ b.toNat % 32) :
    decHead (b :: rest) = none := by
  have : b.toNat % 32 < 32 := Nat.mod_lt _ (by decide)
  simp only [decHead]
  rw [if_neg (by omega), if_neg (by omega), if_neg (by omega), if_neg (by omega), if_neg (by omega)]

/-! ## first byte -/

theorem head_first (m n : Nat) : ∃ c tl, c < 32 ∧ head m n = UInt8.ofNat (m * 32 + c) :: tl := by
  unfold head
  by_cases h1 : n < 24
  · exact ⟨n, [], by omega, by simp [h1]⟩
  · by_cases h2 : n < 256
    · exact ⟨24, beBytes n 1, by omega, by simp [h1, h2]⟩
    · by_cases h3 : n < 65536
      · exact ⟨25, beBytes n 2, by omega, by simp [h1, h2, h3]⟩
      · by_cases h4 : n < 4294967296
        · exact ⟨26, beBytes n 4, by omega, by simp [h1, h2, h3, h4]⟩
        · exact ⟨27, beBytes n 8, by omega, by simp [h1, h2, h3, h4]⟩

theorem nextIsTag_head {m n : Nat} (hm : m < 8) (rest : Bytes) :
    nextIsTag (head m n ++ rest) = decide (m = 6) := by
  obtain ⟨c, tl, hc, he⟩ := head_first m n
  rw [he]
  have hb : (m * 32 + c) % 256 = m * 32 + c := by omega
  have h1 : (m * 32 + c) / 32 = m := by omega
  simp [nextIsTag, hb, h1]

theorem nextIsTag_enc (x : Item) (hx : wf x = true) (rest : Bytes) :
    nextIsTag (encRaw x ++ rest) = isTag x := by
  cases x with
  | uint n => simp only [encRaw, isTag]; rw [nextIsTag_head (by decide)]; rfl
  | nint n => simp only [encRaw, isTag]; rw [nextIsTag_head (by decide)]; rfl
  | bytes b => simp only [encRaw, isTag, List.append_assoc]; rw [nextIsTag_head (by decide)]; rfl
  | text b => simp only [encRaw, isTag, List.append_assoc]; rw [nextIsTag_head (by decide)]; rfl
  | array xs => simp only [encRaw, isTag, List.append_assoc]; rw [nextIsTag_head (by decide)]; rfl
  | map kvs => simp only [encRaw, isTag, List.append_assoc]; rw [nextIsTag_head (by decide)]; rfl
  | tag t y => simp only [encRaw, isTag, List.append_assoc]; rw [nextIsTag_head (by decide)]; rfl
  | simple n =>
    simp only [wf, Bool.or_eq_true, Bool.and_eq_true, decide_eq_true_eq] at hx
    simp only [encRaw, isTag]
    by_cases h : n < 24
    · have hb : (224 + n) % 256 = 224 + n := by omega
      have h1 : (224 + n) / 32 = 7 := by omega
      simp [h, nextIsTag, hb, h1]
    · simp [h, nextIsTag]
  | float w bits =>
    simp only [encRaw, isTag]
    split <;> (try split) <;> simp [nextIsTag]

/-! ## round trip -/

theorem need_pos (x : Item) : 1 ≤ need x := by cases x <;> simp [need] <;> omega

mutual
theorem rt_item : ∀ (x : Item), wf x = true → ∀ (f d : Nat) (rest : Bytes),
    need x ≤ f → depth x ≤ d → decItem f d (encRaw x ++ rest) = some (x, rest)
  | .uint n, hx, f, d, rest, hf, _ => by
    obtain ⟨f', rfl⟩ : ∃ f', f = f' + 1 := ⟨f - 1, by simp [need] at hf; omega⟩
    simp only [wf, decide_eq_true_eq] at hx
    simp only [encRaw, decItem, decHead_head (by decide : 0 < 8) hx]
    simp
  | .nint n, hx, f, d, rest, hf, _ => by
    obtain ⟨f', rfl⟩ : ∃ f', f = f' + 1 := ⟨f - 1, by simp [need] at hf; omega⟩
    simp only [wf, decide_eq_true_eq] at hx
    simp only [encRaw, decItem, decHead_head (by decide : 1 < 8) hx]
    simp
  | .bytes b, hx, f, d, rest, hf, _ => by
    obtain ⟨f', rfl⟩ : ∃ f', f = f' + 1 := ⟨f - 1, by simp [need] at hf; omega⟩
    simp only [wf, decide_eq_true_eq] at hx
    simp only [encRaw, List.append_assoc, decItem, decHead_head (by decide : 2 < 8) hx]
    simp
  | .text b, hx, f, d, rest, hf, _ => by
    obtain ⟨f', rfl⟩ : ∃ f', f = f' + 1 := ⟨f - 1, by simp [need] at hf; omega⟩
    simp only [wf, decide_eq_true_eq] at hx
    simp only [encRaw, List.append_assoc, decItem, decHead_head (by decide : 3 < 8) hx]
    simp
  | .array xs, hx, f, d, rest, hf, hd => by
    obtain ⟨f', rfl⟩ : ∃ f', f = f' + 1 := ⟨f - 1, by simp [need] at hf; omega⟩
    simp only [wf, Bool.and_eq_true, decide_eq_true_eq] at hx
    simp only [need] at hf
    simp only [depth] at hd
    have hlen : xs.length < two64 := by have := hx.1; simp [maxElems, two64] at *; omega
    have ih := rt_list xs hx.2 f' (d - 1) rest (by omega) (by omega)
    simp only [encRaw, List.append_assoc, decItem, decHead_head (by decide : 4 < 8) hlen]
    have h1 : ¬ (d = 0 ∨ maxElems < xs.length) := by have := hx.1; omega
    simp [h1, ih]
  | .map kvs, hx, f, d, rest, hf, hd => by
    obtain ⟨f', rfl⟩ : ∃ f', f = f' + 1 := ⟨f - 1, by simp [need] at hf; omega⟩
    simp only [wf, Bool.and_eq_true, decide_eq_true_eq] at hx
    obtain ⟨⟨⟨he, hm⟩, hnd⟩, hl⟩ := hx
    simp only [need] at hf
    simp only [depth] at hd
    have hlen : kvs.length / 2 < two64 := by simp [maxElems, two64] at *; omega
    have h2 : 2 * (kvs.length / 2) = kvs.length := by omega
    have ih := rt_list kvs hl f' (d - 1) rest (by omega) (by omega)
    simp only [encRaw, List.append_assoc, decItem, decHead_head (by decide : 5 < 8) hlen]
    have h1 : ¬ (d = 0 ∨ maxElems < kvs.length / 2) := by omega
    simp [h1, h2, ih, hnd]
  | .tag t y, hx, f, d, rest, hf, hd => by
    obtain ⟨f', rfl⟩ : ∃ f', f = f' + 1 := ⟨f - 1, by simp [need] at hf; omega⟩
    simp only [wf, Bool.and_eq_true, decide_eq_true_eq, ne_eq, decide_not, Bool.not_eq_true',
      decide_eq_false_iff_not] at hx
    obtain ⟨⟨⟨ht, h2⟩, h3⟩, hy⟩ := hx
    simp only [need] at hf
    simp only [depth] at hd
    have hnt := nextIsTag_enc y hy rest
    simp only [encRaw, List.append_assoc, decItem, decHead_head (by decide : 6 < 8) ht]
    have h1 : ¬ (t = 2 ∨ t = 3) := by omega
    by_cases hty : isTag y = true
    · have ih := rt_item y hy f' (d - 1) rest (by omega) (by simp [hty] at hd; omega)
      have hd0 : ¬ d = 0 := by simp [hty] at hd; omega
      simp [h1, hnt, hty, hd0, ih]
    · have ih := rt_item y hy f' d rest (by omega) (by simp [hty] at hd; omega)
      simp [h1, hnt, hty, ih]
  | .simple n, hx, f, d, rest, hf, _ => by
    obtain ⟨f', rfl⟩ : ∃ f', f = f' + 1 := ⟨f - 1, by simp [need] at hf; omega⟩
    simp only [wf, Bool.or_eq_true, Bool.and_eq_true, decide_eq_true_eq] at hx
    by_cases h : n < 24
    · have hb : (224 + n) % 256 = 224 + n := by omega
      have h1 : (224 + n) / 32 = 7 := by omega
      have h2 : (224 + n) % 32 = n := by omega
      simp [encRaw, h, decItem, decHead, hb, h1, h2]
    · have hn : 32 ≤ n ∧ n < 256 := by omega
      have hb : n % 256 = n := by omega
      have h32 : ¬ n < 32 := by omega
      simp [encRaw, h, decItem, decHead, readBE, beVal, hb, h32]
  | .float w bits, hx, f, d, rest, hf, _ => by
    obtain ⟨f', rfl⟩ : ∃ f', f = f' + 1 := ⟨f - 1, by simp [need] at hf; omega⟩
    simp only [wf, Bool.or_eq_true, Bool.and_eq_true, decide_eq_true_eq] at hx
    obtain ⟨hw, hb⟩ := hx
    rcases hw with (rfl | rfl) | rfl
    · simp [encRaw, decItem, decHead, readBE_beBytes hb]
    · simp [encRaw, decItem, decHead, readBE_beBytes hb]
    · simp [encRaw, decItem, decHead, readBE_beBytes hb]
theorem rt_list : ∀ (xs : List Item), wfList xs = true → ∀ (f d : Nat) (rest : Bytes),
    needList xs ≤ f → depthList xs ≤ d →
    decItems f d xs.length (encList xs ++ rest) = some (xs, rest)
  | [], _, f, d, rest, _, _ => by simp [encList, decItems]
  | x :: xs, hx, f, d, rest, hf, hd => by
    simp only [wfList, Bool.and_eq_true] at hx
    simp only [needList] at hf
    simp only [depthList] at hd
    obtain ⟨f', rfl⟩ : ∃ f', f = f' + 1 := ⟨f - 1, by omega⟩
    have ih1 := rt_item x hx.1 f' d (encList xs ++ rest) (by omega) (by omega)
    have ih2 := rt_list xs hx.2 f' d rest (by omega) (by omega)
    simp [encList, List.append_assoc, decItems, ih1, ih2]
end

/-! ## the fuel `decode` provides is enough -/

mutual
theorem need_le : ∀ (x : Item), need x + 1 ≤ 2 * (encRaw x).length
  | .uint n => by have := head_length_pos 0 n; simp only [need, encRaw]; omega
  | .nint n => by have := head_length_pos 1 n; simp only [need, encRaw]; omega
  | .bytes b => by
    have := head_length_pos 2 b.length; simp only [need, encRaw, List.length_append]; omega
  | .text b => by
    have := head_length_pos 3 b.length; simp only [need, encRaw, List.length_append]; omega
  | .array xs => by
    have := head_length_pos 4 xs.length
    have := needList_le xs
    simp only [need, encRaw, List.length_append]; omega
  | .map kvs => by
    have := head_length_pos 5 (kvs.length / 2)
    have := needList_le kvs
    simp only [need, encRaw, List.length_append]; omega
  | .tag t y => by
    have := head_length_pos 6 t
    have := need_le y
    simp only [need, encRaw, List.length_append]; omega
  | .simple n => by simp only [need, encRaw]; split <;> simp
  | .float w bits => by
    simp only [need, encRaw]; split <;> (try split) <;> simp [beBytes_length]
theorem needList_le : ∀ (xs : List Item), needList xs ≤ 2 * (encList xs).length
  | [] => by simp [needList]
  | x :: xs => by
    have h1 := need_le x
    have h2 := needList_le xs
    have h3 := need_pos x
    simp only [needList, encList, List.length_append]; omega
end

/-- round trip for the order-preserving encoder -/
theorem decode_encRaw (x : Item) (hx : wf x = true) (hd : depth x ≤ maxDepth) :
    decode (encRaw x) = some x := by
  have h := rt_item x hx (2 * (encRaw x).length + 1) maxDepth [] (by have := need_le x; omega) hd
  simp only [List.append_nil] at h
  simp [decode, h]

/-- trailing bytes after a complete encoding are rejected -/
theorem decode_encRaw_trailing (x : Item) (hx : wf x = true) (hd : depth x ≤ maxDepth)
    (t : Bytes) (ht : t ≠ []) : decode (encRaw x ++ t) = none := by
  have h := rt_item x hx (2 * (encRaw x ++ t).length + 1) maxDepth t
    (by have := need_le x; simp only [List.length_append]; omega) hd
  unfold decode
  rw [h]
  cases t with
  | nil => exact absurd rfl ht
  | cons a as => rfl

end BronVerif.Cbor
