import Mathlib.Tactic.Ring
import Mathlib.Tactic.FieldSimp
import Mathlib.Tactic.LinearCombination
import Mathlib.Algebra.Field.Basic
import BronVerif.Model.Curve
import BronVerif.Gen.Edwards
/-!
# Algebra of the GENERATED twisted-Edwards formulas (`Gen/Edwards.lean`, extended coordinates)
-/
namespace BronVerif.Lemmas.Edwards
open BronVerif.Gen.Edwards

variable {F : Type} [Field F]

/-- closed form of `TwistedEdwardsPointImpl.Add` (Hisil–Wong–Carter–Dawson unified addition) -/
theorem add_closed (a d x1 y1 t1 z1 x2 y2 t2 z2 : F) :
    add a d x1 y1 t1 z1 x2 y2 t2 z2 =
      ((x1 * y2 + y1 * x2) * (z1 * z2 - d * t1 * t2), (z1 * z2 + d * t1 * t2) * (y1 * y2 - a * x1 * x2),
       (x1 * y2 + y1 * x2) * (y1 * y2 - a * x1 * x2), (z1 * z2 - d * t1 * t2) * (z1 * z2 + d * t1 * t2)) := by
  simp only [add, Prod.mk.injEq]
  refine ⟨?_, ?_, ?_, ?_⟩ <;> ring

theorem double_closed (a x1 y1 z1 : F) :
    double a x1 y1 z1 =
      (2 * x1 * y1 * (a * x1 ^ 2 + y1 ^ 2 - 2 * z1 ^ 2), (a * x1 ^ 2 + y1 ^ 2) * (a * x1 ^ 2 - y1 ^ 2),
       2 * x1 * y1 * (a * x1 ^ 2 - y1 ^ 2), (a * x1 ^ 2 + y1 ^ 2 - 2 * z1 ^ 2) * (a * x1 ^ 2 + y1 ^ 2)) := by
  simp only [double, Prod.mk.injEq]
  refine ⟨?_, ?_, ?_, ?_⟩ <;> ring

end BronVerif.Lemmas.Edwards
