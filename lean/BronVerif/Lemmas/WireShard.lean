import BronVerif.Lemmas.CborCanon
import BronVerif.Model.Wire
/-!
# Typed wire formats, algebraic part: scalars, points, matrices, shares, MSPs, verification
vectors, public material, shards, signatures

For every codec `T` of the algebraic part of `Model/Wire.lean`:

1. `decT_valid`          : `decT x = some v → validT v`
2. `decT_encT`           : `validT v → decT (encT v) = some v`
3. `encT_canonical`      : `validT v → wf (encT v) ∧ isCanon (encT v) ∧ depth (encT v) ≤ k`
4. `decodeT_valid`       : `decodeWith decT b = some v → validT v`
5. `decodeT_encodeT`     : `validT v → decodeWith decT (encodeWith encT v) = some v`

generic over abstract element codecs (`ElemIO.Lawful`).
-/
namespace BronVerif.Wire
open BronVerif.Cbor

/-- what the theorems assume of a byte codec of field / group elements: decoding inverts encoding,
and an encoding is short enough for a CBOR byte-string head -/
structure ElemIO.Lawful {α : Type} (io : ElemIO α) : Prop where
  dec_enc : ∀ x, io.dec (io.enc x) = some x
  len : ∀ x, (io.enc x).length < two64

/-- "encodable, canonical, nesting depth at most `d`" -/
def shd_Canon (x : Item) (d : Nat) : Prop := wf x = true ∧ isCanon x = true ∧ depth x ≤ d

theorem shd_Canon_mono {x : Item} {d d' : Nat} (h : shd_Canon x d) (hd : d ≤ d') : shd_Canon x d' :=
  ⟨h.1, h.2.1, Nat.le_trans h.2.2 hd⟩

/-! ## generic: byte level -/

theorem shd_decodeWith_valid {T : Type} (dec : Item → Option T) (P : T → Prop)
    (h : ∀ x v, dec x = some v → P v) (b : Bytes) (v : T) (hb : decodeWith dec b = some v) : P v := by
  unfold decodeWith at hb
  cases hd : decode b with
  | none => rw [hd] at hb; cases hb
  | some x => rw [hd] at hb; exact h x v hb

theorem shd_decodeWith_encodeWith {T : Type} (enc : T → Item) (dec : Item → Option T) (v : T) (k : Nat)
    (hrt : dec (enc v) = some v) (hc : shd_Canon (enc v) k) (hk : k ≤ maxDepth) :
    decodeWith dec (encodeWith enc v) = some v := by
  unfold decodeWith encodeWith
  rw [decode_encode (enc v) hc.1 hc.2.1 (Nat.le_trans hc.2.2 hk)]
  exact hrt

/-! ## generic: struct maps with one, two, three text keys -/

theorem shd_uint_canon (n : Nat) (h : n < two64) (d : Nat) : shd_Canon (.uint n) d := by
  refine ⟨?_, rfl, ?_⟩
  · simp only [wf, decide_eq_true_eq]; exact h
  · simp only [depth]; exact Nat.zero_le _

theorem shd_wf_text (k : Bytes) (h : k.length < two64) : wf (.text k) = true := by
  simp only [wf, decide_eq_true_eq]; exact h

theorem shd_wf_map (kvs : List Item) (h1 : kvs.length % 2 = 0) (h2 : kvs.length / 2 ≤ maxElems)
    (h3 : noDupKeys kvs = true) (h4 : wfList kvs = true) : wf (.map kvs) = true := by
  simp only [wf, h3, h4, Bool.and_true, decide_eq_true_eq, Bool.and_eq_true]
  exact ⟨h1, h2⟩

theorem shd_struct1 (k1 : Bytes) (v1 : Item) (d : Nat) (hl1 : k1.length < two64)
    (h1 : shd_Canon v1 d) : shd_Canon (.map [.text k1, v1]) (d + 1) := by
  obtain ⟨w1, c1, d1⟩ := h1
  refine ⟨?_, ?_, ?_⟩
  · refine shd_wf_map _ (by simp) (by simp [maxElems]) rfl ?_
    simp only [wfList, shd_wf_text k1 hl1, w1, Bool.and_true]
  · simp only [isCanon, isCanonList, keysOf, keysAscending, c1, Bool.and_true]
  · simp only [depth, depthList]; omega

theorem shd_struct2 (k1 k2 : Bytes) (v1 v2 : Item) (d : Nat)
    (hnd : noDup [Item.text k1, Item.text k2] = true)
    (hasc : keysAscending [Item.text k1, Item.text k2] = true)
    (hl1 : k1.length < two64) (hl2 : k2.length < two64)
    (h1 : shd_Canon v1 d) (h2 : shd_Canon v2 d) :
    shd_Canon (.map [.text k1, v1, .text k2, v2]) (d + 1) := by
  obtain ⟨w1, c1, d1⟩ := h1
  obtain ⟨w2, c2, d2⟩ := h2
  refine ⟨?_, ?_, ?_⟩
  · refine shd_wf_map _ (by simp) (by simp [maxElems]) hnd ?_
    simp only [wfList, shd_wf_text k1 hl1, shd_wf_text k2 hl2, w1, w2, Bool.and_true]
  · simp only [isCanon, isCanonList, keysOf, hasc, c1, c2, Bool.and_true]
  · simp only [depth, depthList]; omega

theorem shd_struct3 (k1 k2 k3 : Bytes) (v1 v2 v3 : Item) (d : Nat)
    (hnd : noDup [Item.text k1, Item.text k2, Item.text k3] = true)
    (hasc : keysAscending [Item.text k1, Item.text k2, Item.text k3] = true)
    (hl1 : k1.length < two64) (hl2 : k2.length < two64) (hl3 : k3.length < two64)
    (h1 : shd_Canon v1 d) (h2 : shd_Canon v2 d) (h3 : shd_Canon v3 d) :
    shd_Canon (.map [.text k1, v1, .text k2, v2, .text k3, v3]) (d + 1) := by
  obtain ⟨w1, c1, d1⟩ := h1
  obtain ⟨w2, c2, d2⟩ := h2
  obtain ⟨w3, c3, d3⟩ := h3
  refine ⟨?_, ?_, ?_⟩
  · refine shd_wf_map _ (by simp) (by simp [maxElems]) hnd ?_
    simp only [wfList, shd_wf_text k1 hl1, shd_wf_text k2 hl2, shd_wf_text k3 hl3, w1, w2, w3,
      Bool.and_true]
  · simp only [isCanon, isCanonList, keysOf, hasc, c1, c2, c3, Bool.and_true]
  · simp only [depth, depthList]; omega

/-! ## generic: arrays -/

theorem shd_mapOpt_map {α β : Type} (enc : α → β) (dec : β → Option α)
    (h : ∀ x, dec (enc x) = some x) : ∀ xs : List α, mapOpt dec (xs.map enc) = some xs
  | [] => rfl
  | x :: xs => by simp only [List.map_cons, mapOpt, h x, shd_mapOpt_map enc dec h xs]

theorem shd_mapOpt_length {α β : Type} (f : α → Option β) :
    ∀ (xs : List α) (ys : List β), mapOpt f xs = some ys → ys.length = xs.length
  | [], ys, h => by simp only [mapOpt, Option.some.injEq] at h; subst h; rfl
  | x :: xs, ys, h => by
    simp only [mapOpt] at h
    cases hx : f x with
    | none => simp [hx] at h
    | some y =>
      cases hr : mapOpt f xs with
      | none => simp [hx, hr] at h
      | some r =>
        simp only [hx, hr, Option.some.injEq] at h
        subst h
        simp only [List.length_cons, shd_mapOpt_length f xs r hr]

theorem shd_list_canon {α : Type} (enc : α → Item) (d : Nat) (h : ∀ x, shd_Canon (enc x) d) :
    ∀ xs : List α, wfList (xs.map enc) = true ∧ isCanonList (xs.map enc) = true
      ∧ depthList (xs.map enc) ≤ d
  | [] => ⟨rfl, rfl, Nat.zero_le _⟩
  | x :: xs => by
    obtain ⟨w, c, dd⟩ := h x
    obtain ⟨ws, cs, ds⟩ := shd_list_canon enc d h xs
    refine ⟨?_, ?_, ?_⟩
    · simp only [List.map_cons, wfList, w, ws, Bool.and_true]
    · simp only [List.map_cons, isCanonList, c, cs, Bool.and_true]
    · simp only [List.map_cons, depthList]; omega

theorem shd_array_canon {α : Type} (enc : α → Item) (d : Nat) (h : ∀ x, shd_Canon (enc x) d)
    (xs : List α) (hl : xs.length ≤ maxElems) : shd_Canon (.array (xs.map enc)) (d + 1) := by
  obtain ⟨ws, cs, ds⟩ := shd_list_canon enc d h xs
  refine ⟨?_, ?_, ?_⟩
  · simp only [wf, List.length_map, ws, Bool.and_true, decide_eq_true_eq]; exact hl
  · simp only [isCanon, cs]
  · simp only [depth]; omega

theorem shd_maxElems_lt : maxElems < two64 := by decide

/-! ## scalars and points -/

section elems
variable {α : Type}

theorem decScalar_encScalar (io : ElemIO α) (hio : io.Lawful) (s : α) :
    decScalar io (encScalar io s) = some s := by
  simp only [encScalar, decScalar, if_true, hio.dec_enc]

theorem encScalar_canonical (io : ElemIO α) (hio : io.Lawful) (s : α) :
    wf (encScalar io s) = true ∧ isCanon (encScalar io s) = true ∧ depth (encScalar io s) ≤ 1 := by
  have hb : shd_Canon (.bytes (io.enc s)) 0 := by
    refine ⟨?_, rfl, Nat.le_refl _⟩
    simp only [wf, decide_eq_true_eq]; exact hio.len s
  exact shd_struct1 kFieldBytes _ 0 (by decide) hb

theorem decodeScalar_encodeScalar (io : ElemIO α) (hio : io.Lawful) (s : α) :
    decodeWith (decScalar io) (encodeWith (encScalar io) s) = some s :=
  shd_decodeWith_encodeWith _ _ s 1 (decScalar_encScalar io hio s) (encScalar_canonical io hio s)
    (by decide)

theorem decPoint_encPoint (io : ElemIO α) (hio : io.Lawful) (p : α) :
    decPoint io (encPoint io p) = some p := by
  simp only [encPoint, decPoint, if_true, hio.dec_enc]

theorem encPoint_canonical (io : ElemIO α) (hio : io.Lawful) (p : α) :
    wf (encPoint io p) = true ∧ isCanon (encPoint io p) = true ∧ depth (encPoint io p) ≤ 1 := by
  have hb : shd_Canon (.bytes (io.enc p)) 0 := by
    refine ⟨?_, rfl, Nat.le_refl _⟩
    simp only [wf, decide_eq_true_eq]; exact hio.len p
  exact shd_struct1 kCompressedBytes _ 0 (by decide) hb

theorem decodePoint_encodePoint (io : ElemIO α) (hio : io.Lawful) (p : α) :
    decodeWith (decPoint io) (encodeWith (encPoint io) p) = some p :=
  shd_decodeWith_encodeWith _ _ p 1 (decPoint_encPoint io hio p) (encPoint_canonical io hio p)
    (by decide)

end elems

/-! ## matrices, generic in the element codec -/

section matw
variable {α : Type}

theorem decMatW_valid (decE : Item → Option α) (x : Item) (m : MatW α)
    (h : decMatW decE x = some m) : validMatW m = true := by
  unfold decMatW at h
  split at h
  · split at h
    · split at h
      · split at h
        · cases h; assumption
        · cases h
      · cases h
    · cases h
  · cases h

/-- what `validMatW` gives about the sizes -/
theorem shd_validMatW_bounds (m : MatW α) (h : validMatW m = true) :
    0 < m.rows ∧ 0 < m.cols ∧ m.data.length = m.rows * m.cols ∧ m.data.length ≤ maxElems
      ∧ m.rows ≤ maxElems ∧ m.cols ≤ maxElems := by
  simp only [validMatW, Bool.and_eq_true, decide_eq_true_eq] at h
  obtain ⟨⟨⟨hr, hc⟩, hl⟩, hm⟩ := h
  have h1 : m.rows ≤ m.rows * m.cols := Nat.le_mul_of_pos_right _ hc
  have h2 : m.cols ≤ m.rows * m.cols := Nat.le_mul_of_pos_left _ hr
  exact ⟨hr, hc, hl, hm, by omega, by omega⟩

theorem decMatW_encMatW (encE : α → Item) (decE : Item → Option α)
    (hde : ∀ x, decE (encE x) = some x) (m : MatW α) (hv : validMatW m = true) :
    decMatW decE (encMatW encE m) = some m := by
  obtain ⟨r, c, d⟩ := m
  simp only [encMatW, decMatW, and_self, if_true, shd_mapOpt_map encE decE hde, hv]

theorem encMatW_canonical (encE : α → Item) (d : Nat)
    (hce : ∀ x, wf (encE x) = true ∧ isCanon (encE x) = true ∧ depth (encE x) ≤ d)
    (m : MatW α) (hv : validMatW m = true) :
    wf (encMatW encE m) = true ∧ isCanon (encMatW encE m) = true
      ∧ depth (encMatW encE m) ≤ d + 2 := by
  obtain ⟨_, _, _, hm, hr, hc⟩ := shd_validMatW_bounds m hv
  have h64 := shd_maxElems_lt
  exact shd_struct3 kCols kData kRows _ _ _ (d + 1) (by decide) (by decide) (by decide) (by decide)
    (by decide) (shd_uint_canon _ (by omega) _) (shd_array_canon encE d hce m.data hm)
    (shd_uint_canon _ (by omega) _)

theorem decodeMatW_valid (decE : Item → Option α) (b : Bytes) (m : MatW α)
    (h : decodeWith (decMatW decE) b = some m) : validMatW m = true :=
  shd_decodeWith_valid _ (fun m => validMatW m = true) (decMatW_valid decE) b m h

theorem decodeMatW_encodeMatW (encE : α → Item) (decE : Item → Option α) (d : Nat)
    (hde : ∀ x, decE (encE x) = some x)
    (hce : ∀ x, wf (encE x) = true ∧ isCanon (encE x) = true ∧ depth (encE x) ≤ d)
    (hd : d + 2 ≤ maxDepth) (m : MatW α) (hv : validMatW m = true) :
    decodeWith (decMatW decE) (encodeWith (encMatW encE) m) = some m :=
  shd_decodeWith_encodeWith _ _ m (d + 2) (decMatW_encMatW encE decE hde m hv)
    (encMatW_canonical encE d hce m hv) hd

end matw

/-! ## KW share -/

section sharew
variable {F : Type}

theorem decShareW_valid (io : ElemIO F) (x : Item) (s : ShareW F)
    (h : decShareW io x = some s) : validShareW s = true := by
  unfold decShareW at h
  split at h
  · split at h
    · split at h
      · split at h
        · cases h; assumption
        · cases h
      · cases h
    · cases h
  · cases h

theorem decShareW_encShareW (io : ElemIO F) (hio : io.Lawful) (s : ShareW F)
    (hv : validShareW s = true) : decShareW io (encShareW io s) = some s := by
  obtain ⟨i, v⟩ := s
  simp only [encShareW, decShareW, and_self, if_true,
    shd_mapOpt_map (encScalar io) (decScalar io) (decScalar_encScalar io hio), hv]

theorem encShareW_canonical (io : ElemIO F) (hio : io.Lawful) (s : ShareW F)
    (hv : validShareW s = true) :
    wf (encShareW io s) = true ∧ isCanon (encShareW io s) = true ∧ depth (encShareW io s) ≤ 3 := by
  simp only [validShareW, Bool.and_eq_true, decide_eq_true_eq] at hv
  obtain ⟨⟨⟨_, hid⟩, _⟩, hl⟩ := hv
  exact shd_struct2 kId kValue _ _ 2 (by decide) (by decide) (by decide) (by decide)
    (shd_uint_canon _ hid _)
    (shd_array_canon (encScalar io) 1 (encScalar_canonical io hio) s.value hl)

theorem decodeShareW_valid (io : ElemIO F) (b : Bytes) (s : ShareW F)
    (h : decodeWith (decShareW io) b = some s) : validShareW s = true :=
  shd_decodeWith_valid _ (fun s => validShareW s = true) (decShareW_valid io) b s h

theorem decodeShareW_encodeShareW (io : ElemIO F) (hio : io.Lawful) (s : ShareW F)
    (hv : validShareW s = true) :
    decodeWith (decShareW io) (encodeWith (encShareW io) s) = some s :=
  shd_decodeWith_encodeWith _ _ s 3 (decShareW_encShareW io hio s hv)
    (encShareW_canonical io hio s hv) (by decide)

end sharew

/-! ## verification vector -/

section vv
variable {G : Type}

theorem decVV_valid (io : ElemIO G) (x : Item) (V : List G)
    (h : decVV io x = some V) : validVV V = true := by
  unfold decVV at h
  split at h
  next k m =>
    split at h
    · split at h
      next mw hmw =>
        split at h
        next hc =>
          cases h
          obtain ⟨hr, _, hl, hm, _, _⟩ := shd_validMatW_bounds mw (decMatW_valid _ _ _ hmw)
          rw [hc, Nat.mul_one] at hl
          simp only [validVV, Bool.and_eq_true, decide_eq_true_eq]
          exact ⟨by omega, hm⟩
        next => cases h
      next => cases h
    · cases h
  next => cases h

theorem shd_validVV_mat (V : List G) (hv : validVV V = true) :
    validMatW (⟨V.length, 1, V⟩ : MatW G) = true := by
  simp only [validVV, Bool.and_eq_true, decide_eq_true_eq] at hv
  simp only [validMatW, Bool.and_eq_true, decide_eq_true_eq, Nat.mul_one]
  exact ⟨⟨⟨hv.1, Nat.one_pos⟩, trivial⟩, hv.2⟩

theorem decVV_encVV (io : ElemIO G) (hio : io.Lawful) (V : List G) (hv : validVV V = true) :
    decVV io (encVV io V) = some V := by
  simp only [encVV, decVV, if_true,
    decMatW_encMatW (encPoint io) (decPoint io) (decPoint_encPoint io hio) _ (shd_validVV_mat V hv)]

theorem encVV_canonical (io : ElemIO G) (hio : io.Lawful) (V : List G) (hv : validVV V = true) :
    wf (encVV io V) = true ∧ isCanon (encVV io V) = true ∧ depth (encVV io V) ≤ 4 :=
  shd_struct1 kVerificationVectorU _ 3 (by decide)
    (encMatW_canonical (encPoint io) 1 (encPoint_canonical io hio) _ (shd_validVV_mat V hv))

theorem decodeVV_valid (io : ElemIO G) (b : Bytes) (V : List G)
    (h : decodeWith (decVV io) b = some V) : validVV V = true :=
  shd_decodeWith_valid _ (fun V => validVV V = true) (decVV_valid io) b V h

theorem decodeVV_encodeVV (io : ElemIO G) (hio : io.Lawful) (V : List G) (hv : validVV V = true) :
    decodeWith (decVV io) (encodeWith (encVV io) V) = some V :=
  shd_decodeWith_encodeWith _ _ V 4 (decVV_encVV io hio V hv) (encVV_canonical io hio V hv)
    (by decide)

end vv

/-! ## row labels `{0: id₀, 1: id₁, …}` -/

theorem shd_uint_beq (a b : Nat) : (Item.uint a == Item.uint b) = (a == b) := rfl

theorem shd_ascNat_tail (a : Nat) : ∀ l : List Nat, ascNat (a :: l) = true → ascNat l = true
  | [], _ => rfl
  | _ :: _, h => by
    simp only [ascNat, Bool.and_eq_true] at h
    exact h.2

theorem shd_ascNat_head_lt : ∀ (l : List Nat) (a : Nat), ascNat (a :: l) = true → ∀ j ∈ l, a < j
  | [], _, _, j, hj => by cases hj
  | b :: r, a, h, j, hj => by
    simp only [ascNat, Bool.and_eq_true, decide_eq_true_eq] at h
    rcases List.mem_cons.1 hj with rfl | hj'
    · exact h.1
    · exact Nat.lt_trans h.1 (shd_ascNat_head_lt r b h.2 j hj')

theorem shd_not_contains_uint : ∀ (l : List Nat) (a : Nat), (∀ j ∈ l, a < j) →
    (l.map Item.uint).contains (Item.uint a) = false
  | [], _, _ => rfl
  | b :: r, a, h => by
    have hb : a < b := h b (List.mem_cons_self ..)
    have hne : (a == b) = false := by
      rw [beq_eq_false_iff_ne]; omega
    simp only [List.map_cons, List.contains_cons, shd_uint_beq, hne, Bool.false_or]
    exact shd_not_contains_uint r a (fun j hj => h j (List.mem_cons_of_mem _ hj))

/-- strictly ascending unsigned keys are pairwise distinct -/
theorem shd_noDup_uints : ∀ ids : List Nat, ascNat ids = true → noDup (ids.map Item.uint) = true
  | [], _ => rfl
  | a :: l, h => by
    simp only [List.map_cons, noDup, Bool.and_eq_true, Bool.not_eq_true']
    exact ⟨shd_not_contains_uint l a (shd_ascNat_head_lt l a h),
      shd_noDup_uints l (shd_ascNat_tail a l h)⟩

theorem shd_ascNat_range' : ∀ (n i : Nat), ascNat (List.range' i n) = true
  | 0, _ => rfl
  | 1, _ => rfl
  | n + 2, i => by
    have ih := shd_ascNat_range' (n + 1) (i + 1)
    simp only [List.range'_succ] at ih
    simp only [List.range'_succ, ascNat, Bool.and_eq_true, decide_eq_true_eq]
    exact ⟨by omega, by simpa only [ascNat, Bool.and_eq_true, decide_eq_true_eq] using ih⟩

theorem shd_keysOf_encLabels : ∀ (ls : List Nat) (i : Nat),
    keysOf (encLabels i ls) = (List.range' i ls.length).map Item.uint
  | [], _ => rfl
  | _ :: r, i => by
    simp only [encLabels, keysOf, List.length_cons, List.range'_succ, List.map_cons,
      shd_keysOf_encLabels r (i + 1)]

theorem shd_encLabels_length : ∀ (ls : List Nat) (i : Nat), (encLabels i ls).length = 2 * ls.length
  | [], _ => rfl
  | _ :: r, i => by
    simp only [encLabels, List.length_cons, shd_encLabels_length r (i + 1)]; omega

theorem shd_wfList_encLabels : ∀ (ls : List Nat) (i : Nat), i + ls.length ≤ two64 →
    (∀ l ∈ ls, l < two64) → wfList (encLabels i ls) = true
  | [], _, _, _ => rfl
  | l :: r, i, hi, hb => by
    simp only [List.length_cons] at hi
    have h1 : i < two64 := by omega
    have h2 : l < two64 := hb l (List.mem_cons_self ..)
    have ih := shd_wfList_encLabels r (i + 1) (by omega) (fun j hj => hb j (List.mem_cons_of_mem _ hj))
    simp only [encLabels, wfList, wf, ih, h1, h2, decide_true, Bool.and_true]

theorem shd_isCanonList_encLabels : ∀ (ls : List Nat) (i : Nat), isCanonList (encLabels i ls) = true
  | [], _ => rfl
  | _ :: r, i => by
    simp only [encLabels, isCanonList, isCanon, shd_isCanonList_encLabels r (i + 1), Bool.and_true]

theorem shd_depthList_encLabels : ∀ (ls : List Nat) (i : Nat), depthList (encLabels i ls) = 0
  | [], _ => rfl
  | _ :: r, i => by
    simp only [encLabels, depthList, depth, shd_depthList_encLabels r (i + 1), Nat.max_self]

theorem shd_decLabels_encLabels : ∀ (ls : List Nat) (i : Nat), decLabels i (encLabels i ls) = some ls
  | [], _ => rfl
  | _ :: r, i => by
    simp only [encLabels, decLabels, if_true, shd_decLabels_encLabels r (i + 1)]

theorem shd_labels_canon (ls : List Nat) (hl : ls.length ≤ maxElems) (hb : ∀ l ∈ ls, l < two64) :
    shd_Canon (.map (encLabels 0 ls)) 1 := by
  have h64 := shd_maxElems_lt
  have hasc := shd_ascNat_range' ls.length 0
  refine ⟨?_, ?_, ?_⟩
  · refine shd_wf_map _ ?_ ?_ ?_ (shd_wfList_encLabels ls 0 (by omega) hb)
    · rw [shd_encLabels_length]; omega
    · rw [shd_encLabels_length]; omega
    · unfold noDupKeys
      rw [shd_keysOf_encLabels]
      exact shd_noDup_uints _ hasc
  · simp only [isCanon, shd_keysOf_encLabels, shd_isCanonList_encLabels, Bool.and_true]
    refine keysAscending_uints_asc _ hasc ?_
    intro i hi
    have := (List.mem_range'_1.1 hi).2
    omega
  · simp only [depth, shd_depthList_encLabels]; omega

/-! ## MSP -/

section mspw
variable {F : Type}

theorem decMSPW_valid (io : ElemIO F) (x : Item) (m : MSPW F)
    (h : decMSPW io x = some m) : validMSPW m = true := by
  unfold decMSPW at h
  split at h
  · split at h
    · split at h
      · split at h
        · cases h; assumption
        · cases h
      · cases h
    · cases h
  · cases h

/-- what `validMSPW` gives -/
theorem shd_validMSPW_parts (m : MSPW F) (hv : validMSPW m = true) :
    validMatW m.matrix = true ∧ m.labels.length ≤ maxElems ∧ ∀ l ∈ m.labels, l < two64 := by
  simp only [validMSPW, Bool.and_eq_true, decide_eq_true_eq, List.all_eq_true] at hv
  obtain ⟨⟨⟨hm, hl⟩, _⟩, hb⟩ := hv
  obtain ⟨_, _, _, _, hr, _⟩ := shd_validMatW_bounds m.matrix hm
  exact ⟨hm, by omega, hb⟩

theorem decMSPW_encMSPW (io : ElemIO F) (hio : io.Lawful) (m : MSPW F)
    (hv : validMSPW m = true) : decMSPW io (encMSPW io m) = some m := by
  have hm := (shd_validMSPW_parts m hv).1
  obtain ⟨mx, ls⟩ := m
  simp only [encMSPW, decMSPW, and_self, if_true,
    decMatW_encMatW (encScalar io) (decScalar io) (decScalar_encScalar io hio) mx hm,
    shd_decLabels_encLabels, hv]

theorem encMSPW_canonical (io : ElemIO F) (hio : io.Lawful) (m : MSPW F)
    (hv : validMSPW m = true) :
    wf (encMSPW io m) = true ∧ isCanon (encMSPW io m) = true ∧ depth (encMSPW io m) ≤ 4 := by
  obtain ⟨hm, hl, hb⟩ := shd_validMSPW_parts m hv
  exact shd_struct2 kMatrix kRowsToHolders _ _ 3 (by decide) (by decide) (by decide) (by decide)
    (encMatW_canonical (encScalar io) 1 (encScalar_canonical io hio) m.matrix hm)
    (shd_Canon_mono (shd_labels_canon m.labels hl hb) (by decide))

theorem decodeMSPW_valid (io : ElemIO F) (b : Bytes) (m : MSPW F)
    (h : decodeWith (decMSPW io) b = some m) : validMSPW m = true :=
  shd_decodeWith_valid _ (fun m => validMSPW m = true) (decMSPW_valid io) b m h

theorem decodeMSPW_encodeMSPW (io : ElemIO F) (hio : io.Lawful) (m : MSPW F)
    (hv : validMSPW m = true) :
    decodeWith (decMSPW io) (encodeWith (encMSPW io) m) = some m :=
  shd_decodeWith_encodeWith _ _ m 4 (decMSPW_encMSPW io hio m hv)
    (encMSPW_canonical io hio m hv) (by decide)

end mspw

/-! ## public material -/

section pmw
variable {F G : Type}

theorem decPMW_valid (fio : ElemIO F) (gio : ElemIO G) (x : Item) (p : PMW F G)
    (h : decPMW fio gio x = some p) : validPMW p = true := by
  unfold decPMW at h
  split at h
  · split at h
    · split at h
      · split at h
        · cases h; assumption
        · cases h
      · cases h
    · cases h
  · cases h

theorem shd_validPMW_parts (p : PMW F G) (hv : validPMW p = true) :
    validMSPW p.msp = true ∧ validVV p.vv = true := by
  simp only [validPMW, Bool.and_eq_true] at hv
  exact ⟨hv.1.1, hv.1.2⟩

theorem decPMW_encPMW (fio : ElemIO F) (gio : ElemIO G) (hf : fio.Lawful) (hg : gio.Lawful)
    (p : PMW F G) (hv : validPMW p = true) : decPMW fio gio (encPMW fio gio p) = some p := by
  obtain ⟨h1, h2⟩ := shd_validPMW_parts p hv
  obtain ⟨ms, vv⟩ := p
  simp only [encPMW, decPMW, and_self, if_true, decMSPW_encMSPW fio hf ms h1,
    decVV_encVV gio hg vv h2, hv]

theorem encPMW_canonical (fio : ElemIO F) (gio : ElemIO G) (hf : fio.Lawful) (hg : gio.Lawful)
    (p : PMW F G) (hv : validPMW p = true) :
    wf (encPMW fio gio p) = true ∧ isCanon (encPMW fio gio p) = true
      ∧ depth (encPMW fio gio p) ≤ 5 := by
  obtain ⟨h1, h2⟩ := shd_validPMW_parts p hv
  exact shd_struct2 kMsp kVerificationVectorC _ _ 4 (by decide) (by decide) (by decide) (by decide)
    (encMSPW_canonical fio hf p.msp h1) (encVV_canonical gio hg p.vv h2)

theorem decodePMW_valid (fio : ElemIO F) (gio : ElemIO G) (b : Bytes) (p : PMW F G)
    (h : decodeWith (decPMW fio gio) b = some p) : validPMW p = true :=
  shd_decodeWith_valid _ (fun p => validPMW p = true) (decPMW_valid fio gio) b p h

theorem decodePMW_encodePMW (fio : ElemIO F) (gio : ElemIO G) (hf : fio.Lawful) (hg : gio.Lawful)
    (p : PMW F G) (hv : validPMW p = true) :
    decodeWith (decPMW fio gio) (encodeWith (encPMW fio gio) p) = some p :=
  shd_decodeWith_encodeWith _ _ p 5 (decPMW_encPMW fio gio hf hg p hv)
    (encPMW_canonical fio gio hf hg p hv) (by decide)

end pmw

/-! ## shards -/

section shard
/- of the class context of `section shard` in `Model/Wire.lean` only the group-side instances occur
in `validShardW` / `decShardW` (`Vss.feldmanVerify` never computes in `F`) -/
variable {F G : Type} [Add G] [OfNat G 0] [HSMul F G G] [DecidableEq G]

theorem decShardW_valid (fio : ElemIO F) (gio : ElemIO G) (g : G) (x : Item) (sh : ShardW F G)
    (h : decShardW fio gio g x = some sh) : validShardW g sh = true := by
  unfold decShardW at h
  split at h
  · split at h
    · split at h
      · split at h
        · cases h; assumption
        · cases h
      · cases h
    · cases h
  · cases h

theorem shd_validShardW_parts (g : G) (sh : ShardW F G) (hv : validShardW g sh = true) :
    validShareW sh.share = true ∧ validPMW sh.pm = true ∧ shareMatches g sh = true := by
  simp only [validShardW, Bool.and_eq_true] at hv
  exact ⟨hv.1.1, hv.1.2, hv.2⟩

theorem decShardW_encShardW (fio : ElemIO F) (gio : ElemIO G) (hf : fio.Lawful) (hg : gio.Lawful)
    (g : G) (sh : ShardW F G) (hv : validShardW g sh = true) :
    decShardW fio gio g (encShardW fio gio sh) = some sh := by
  obtain ⟨h1, h2, _⟩ := shd_validShardW_parts g sh hv
  obtain ⟨sw, pw⟩ := sh
  simp only [encShardW, decShardW, and_self, if_true, decShareW_encShareW fio hf sw h1,
    decPMW_encPMW fio gio hf hg pw h2, hv]

theorem encShardW_canonical (fio : ElemIO F) (gio : ElemIO G) (hf : fio.Lawful) (hg : gio.Lawful)
    (g : G) (sh : ShardW F G) (hv : validShardW g sh = true) :
    wf (encShardW fio gio sh) = true ∧ isCanon (encShardW fio gio sh) = true
      ∧ depth (encShardW fio gio sh) ≤ 6 := by
  obtain ⟨h1, h2, _⟩ := shd_validShardW_parts g sh hv
  exact shd_struct2 kShare kPublicMaterial _ _ 5 (by decide) (by decide) (by decide) (by decide)
    (shd_Canon_mono (encShareW_canonical fio hf sh.share h1) (by decide))
    (encPMW_canonical fio gio hf hg sh.pm h2)

/-- whatever bytes the model decodes as a shard, the result satisfies `NewBaseShard`'s rules -/
theorem decodeShardW_valid (fio : ElemIO F) (gio : ElemIO G) (g : G) (b : Bytes) (sh : ShardW F G)
    (h : decodeWith (decShardW fio gio g) b = some sh) : validShardW g sh = true :=
  shd_decodeWith_valid _ (fun sh => validShardW g sh = true) (decShardW_valid fio gio g) b sh h

/-- headline: a decoded shard's private share matches its public data (every component) -/
theorem decodeShardW_shareMatches (fio : ElemIO F) (gio : ElemIO G) (g : G) (b : Bytes)
    (sh : ShardW F G) (h : decodeWith (decShardW fio gio g) b = some sh) :
    shareMatches g sh = true :=
  (shd_validShardW_parts g sh (decodeShardW_valid fio gio g b sh h)).2.2

theorem decodeShardW_encodeShardW (fio : ElemIO F) (gio : ElemIO G) (hf : fio.Lawful)
    (hg : gio.Lawful) (g : G) (sh : ShardW F G) (hv : validShardW g sh = true) :
    decodeWith (decShardW fio gio g) (encodeWith (encShardW fio gio) sh) = some sh :=
  shd_decodeWith_encodeWith _ _ sh 6 (decShardW_encShardW fio gio hf hg g sh hv)
    (encShardW_canonical fio gio hf hg g sh hv) (by decide)

end shard

/-! ## non-vacuity of the shard validity predicate -/

section shardExample

local instance shd_smulInt : HSMul Int Int Int := ⟨(· * ·)⟩

/-- holder 1 labels the rows `(1,1)` and `(1,2)` of the MSP; with `V = (5,7)` and `g = 1` its share
must be `(12, 19)` -/
def shd_exShard (s0 s1 : Int) : ShardW Int Int :=
  { share := { id := 1, value := [s0, s1] }
    pm := { msp := { matrix := { rows := 3, cols := 2, data := [1, 1, 1, 2, 1, 3] }
                     labels := [1, 1, 2] }
            vv := [5, 7] } }

example : validShardW (1 : Int) (shd_exShard 12 19) = true := by decide

/-- a mismatch in the FIRST component (the last one is right) is rejected -/
example : validShardW (1 : Int) (shd_exShard 13 19) = false := by decide

/-- a mismatch in the last component is rejected, too -/
example : validShardW (1 : Int) (shd_exShard 12 20) = false := by decide

end shardExample

/-! ## ECDSA signature -/

section sigw
variable {F : Type} [OfNat F 0] [DecidableEq F]

theorem decSigW_valid (io : ElemIO F) (x : Item) (s : SigW F)
    (h : decSigW io x = some s) : validSigW s = true := by
  unfold decSigW at h
  split at h
  · split at h
    · split at h
      · split at h
        · cases h; assumption
        · cases h
      · cases h
    · cases h
  · cases h

theorem shd_decRecId_encRecId (v : Option Nat) : decRecId (encRecId v) = some v := by
  cases v <;> rfl

theorem decSigW_encSigW (io : ElemIO F) (hio : io.Lawful) (s : SigW F)
    (hv : validSigW s = true) : decSigW io (encSigW io s) = some s := by
  obtain ⟨r, s', v⟩ := s
  simp only [encSigW, decSigW, and_self, if_true, decScalar_encScalar io hio,
    shd_decRecId_encRecId, hv]

theorem shd_recId_canon (v : Option Nat) (h : ∀ n, v = some n → n ≤ 3) :
    shd_Canon (encRecId v) 1 := by
  cases v with
  | none => exact ⟨by decide, rfl, Nat.zero_le _⟩
  | some n =>
    have := h n rfl
    exact shd_uint_canon n (by unfold two64; omega) 1

theorem encSigW_canonical (io : ElemIO F) (hio : io.Lawful) (s : SigW F)
    (hv : validSigW s = true) :
    wf (encSigW io s) = true ∧ isCanon (encSigW io s) = true ∧ depth (encSigW io s) ≤ 2 := by
  have hrec : ∀ n, s.v = some n → n ≤ 3 := by
    intro n hn
    simp only [validSigW, hn, Bool.and_eq_true, decide_eq_true_eq] at hv
    exact hv.2
  exact shd_struct3 kR kS kV _ _ _ 1 (by decide) (by decide) (by decide) (by decide) (by decide)
    (encScalar_canonical io hio s.r) (encScalar_canonical io hio s.s) (shd_recId_canon s.v hrec)

theorem decodeSigW_valid (io : ElemIO F) (b : Bytes) (s : SigW F)
    (h : decodeWith (decSigW io) b = some s) : validSigW s = true :=
  shd_decodeWith_valid _ (fun s => validSigW s = true) (decSigW_valid io) b s h

theorem decodeSigW_encodeSigW (io : ElemIO F) (hio : io.Lawful) (s : SigW F)
    (hv : validSigW s = true) :
    decodeWith (decSigW io) (encodeWith (encSigW io) s) = some s :=
  shd_decodeWith_encodeWith _ _ s 2 (decSigW_encSigW io hio s hv)
    (encSigW_canonical io hio s hv) (by decide)

end sigw

end BronVerif.Wire
