import Mathlib.Data.List.Basic
import Mathlib.Data.List.Perm.Basic
import Mathlib.Tactic.Ring
import Mathlib.Tactic.Linarith
import BronVerif.Model.Session
/-!
Byte-level lemmas for the session model: fixed-width integer encodings are injective, the frames of
`Model/Session.lean` are injective (self-delimiting), sorting canonicalises the quorum.
-/
namespace BronVerif.Session

theorem leBytes_length (k n : Nat) : (leBytes k n).length = k := by
  induction k generalizing n with
  | zero => simp [leBytes]
  | succ k ih => simp [leBytes, ih]

theorem uint8_ofNat_inj {a b : Nat} (ha : a < 256) (hb : b < 256) (h : UInt8.ofNat a = UInt8.ofNat b) : a = b := by
  have h2 := congrArg UInt8.toNat h
  simp only [UInt8.toNat_ofNat'] at h2
  omega

theorem leBytes_inj : ∀ (k a b : Nat), a < 256 ^ k → b < 256 ^ k → leBytes k a = leBytes k b → a = b
  | 0, a, b, ha, hb, _ => by simp at ha hb; omega
  | k + 1, a, b, ha, hb, h => by
    simp only [leBytes, List.cons.injEq] at h
    have h1 := uint8_ofNat_inj (Nat.mod_lt _ (by norm_num)) (Nat.mod_lt _ (by norm_num)) h.1
    have ha' : a / 256 < 256 ^ k := by
      apply Nat.div_lt_of_lt_mul; rw [pow_succ] at ha; linarith
    have hb' : b / 256 < 256 ^ k := by
      apply Nat.div_lt_of_lt_mul; rw [pow_succ] at hb; linarith
    have h2 := leBytes_inj k _ _ ha' hb' h.2
    omega

@[simp] theorem le64_length (n : Nat) : (le64 n).length = 8 := leBytes_length 8 n
@[simp] theorem be64_length (n : Nat) : (be64 n).length = 8 := by simp [be64, leBytes_length]

theorem le64_inj {a b : Nat} (ha : a < 2 ^ 64) (hb : b < 2 ^ 64) (h : le64 a = le64 b) : a = b :=
  leBytes_inj 8 a b (by norm_num at ha ⊢; exact ha) (by norm_num at hb ⊢; exact hb) h

theorem be64_inj {a b : Nat} (ha : a < 2 ^ 64) (hb : b < 2 ^ 64) (h : be64 a = be64 b) : a = b :=
  le64_inj ha hb (List.reverse_injective h)

/-! ### sorting -/

theorem sortIds_perm (l : List Nat) : (sortIds l).Perm l := List.mergeSort_perm l _

theorem sortIds_sorted (l : List Nat) : (sortIds l).Pairwise (fun a b => decide (a ≤ b) = true) :=
  List.pairwise_mergeSort (le := fun a b => decide (a ≤ b))
    (fun a b c hab hbc => by simp only [decide_eq_true_eq] at *; omega)
    (fun a b => by simp only [Bool.or_eq_true, decide_eq_true_eq]; omega) l

/-- the sorted quorum does not depend on the order in which a party holds it -/
theorem sortIds_eq_of_perm {l l' : List Nat} (h : l.Perm l') : sortIds l = sortIds l' :=
  List.Perm.eq_of_pairwise (le := fun a b => decide (a ≤ b) = true)
    (fun a b _ _ hab hba => by simp only [decide_eq_true_eq] at *; omega)
    (sortIds_sorted l) (sortIds_sorted l') ((sortIds_perm l).trans (h.trans (sortIds_perm l').symm))

@[simp] theorem mem_sortIds {a : Nat} {l : List Nat} : a ∈ sortIds l ↔ a ∈ l := (sortIds_perm l).mem_iff
@[simp] theorem sortIds_length (l : List Nat) : (sortIds l).length = l.length := (sortIds_perm l).length_eq

/-! ### frames -/

/-- what `Validate` and the fixed-size Go arrays guarantee: 64-bit ID, 32-byte fields -/
def EntryWF (e : Nat × Contribution) : Prop :=
  e.1 < 2 ^ 64 ∧ e.2.ck.length = 32 ∧ e.2.com.length = 32 ∧ e.2.msg.length = 32 ∧ e.2.wit.length = 32

theorem entryFrame_inj {e e' : Nat × Contribution} {r r' : Bytes} (he : EntryWF e) (he' : EntryWF e')
    (h : entryFrame e ++ r = entryFrame e' ++ r') : e = e' ∧ r = r' := by
  obtain ⟨i, c⟩ := e
  obtain ⟨i', c'⟩ := e'
  obtain ⟨hi, h1, h2, h3, h4⟩ := he
  obtain ⟨hi', h1', h2', h3', h4'⟩ := he'
  simp only [entryFrame, List.append_assoc] at h
  obtain ⟨a0, g1⟩ := List.append_inj h (by simp)
  obtain ⟨a1, g2⟩ := List.append_inj g1 (by simp only at h1 h1'; omega)
  obtain ⟨a2, g3⟩ := List.append_inj g2 (by simp only at h2 h2'; omega)
  obtain ⟨a3, g4⟩ := List.append_inj g3 (by simp only at h3 h3'; omega)
  obtain ⟨a4, g5⟩ := List.append_inj g4 (by simp only at h4 h4'; omega)
  have a0' := le64_inj hi hi' a0
  cases c; cases c'
  simp only at a0' a1 a2 a3 a4
  subst a0' a1 a2 a3 a4
  exact ⟨rfl, g5⟩

theorem flatMap_entryFrame_inj : ∀ {es es' : List (Nat × Contribution)} {r r' : Bytes},
    es.length = es'.length → (∀ e ∈ es, EntryWF e) → (∀ e ∈ es', EntryWF e) →
    es.flatMap entryFrame ++ r = es'.flatMap entryFrame ++ r' → es = es' ∧ r = r'
  | [], [], _, _, _, _, _, h => by simpa using h
  | [], _ :: _, _, _, hl, _, _, _ => by simp at hl
  | _ :: _, [], _, _, hl, _, _, _ => by simp at hl
  | e :: es, e' :: es', r, r', hl, hw, hw', h => by
    simp only [List.flatMap_cons, List.append_assoc] at h
    obtain ⟨h1, h2⟩ := entryFrame_inj (hw e (by simp)) (hw' e' (by simp)) h
    obtain ⟨h3, h4⟩ := flatMap_entryFrame_inj (by simpa using hl)
      (fun x hx => hw x (by simp [hx])) (fun x hx => hw' x (by simp [hx])) h2
    exact ⟨by rw [h1, h3], h4⟩

/-- the common-seed frame is self-delimiting: domain separator, 64-bit count, fixed-width entries -/
theorem commonSeedFrame_append_inj {es es' : List (Nat × Contribution)} {r r' : Bytes}
    (hl : es.length < 2 ^ 64) (hl' : es'.length < 2 ^ 64)
    (hw : ∀ e ∈ es, EntryWF e) (hw' : ∀ e ∈ es', EntryWF e)
    (h : commonSeedFrame es ++ r = commonSeedFrame es' ++ r') : es = es' ∧ r = r' := by
  simp only [commonSeedFrame, List.append_assoc] at h
  have h := List.append_cancel_left h
  obtain ⟨a0, h⟩ := List.append_inj h (by simp)
  exact flatMap_entryFrame_inj (le64_inj hl hl' a0) hw hw' h

theorem flatMap_le64_inj : ∀ {l l' : List Nat} {r r' : Bytes}, l.length = l'.length →
    (∀ i ∈ l, i < 2 ^ 64) → (∀ i ∈ l', i < 2 ^ 64) →
    l.flatMap le64 ++ r = l'.flatMap le64 ++ r' → l = l' ∧ r = r'
  | [], [], _, _, _, _, _, h => by simpa using h
  | [], _ :: _, _, _, hl, _, _, _ => by simp at hl
  | _ :: _, [], _, _, hl, _, _, _ => by simp at hl
  | a :: l, a' :: l', r, r', hl, hw, hw', h => by
    simp only [List.flatMap_cons, List.append_assoc] at h
    obtain ⟨h1, h2⟩ := List.append_inj h (by simp)
    obtain ⟨h3, h4⟩ := flatMap_le64_inj (by simpa using hl)
      (fun x hx => hw x (by simp [hx])) (fun x hx => hw' x (by simp [hx])) h2
    exact ⟨by rw [le64_inj (hw a (by simp)) (hw' a' (by simp)) h1, h3], h4⟩

/-- the sub-quorum frame (count, then the sorted 64-bit IDs) is self-delimiting -/
theorem subQuorumData_append_inj {sub sub' : List Nat} {r r' : Bytes}
    (hl : sub.length < 2 ^ 64) (hl' : sub'.length < 2 ^ 64)
    (hw : ∀ i ∈ sub, i < 2 ^ 64) (hw' : ∀ i ∈ sub', i < 2 ^ 64)
    (h : subQuorumData sub ++ r = subQuorumData sub' ++ r') : sortIds sub = sortIds sub' ∧ r = r' := by
  simp only [subQuorumData, List.append_assoc] at h
  obtain ⟨a0, h⟩ := List.append_inj h (by simp)
  have hlen : (sortIds sub).length = (sortIds sub').length :=
    le64_inj (by simpa using hl) (by simpa using hl') a0
  exact flatMap_le64_inj hlen (fun i hi => hw i (by simpa using hi)) (fun i hi => hw' i (by simpa using hi)) h

/-- lookup in a list built by mapping over keys -/
theorem lookup_map_key {β : Type} (f : Nat → β) (l : List Nat) (j : Nat) :
    (l.map fun i => (i, f i)).lookup j = if j ∈ l then some (f j) else none := by
  induction l with
  | nil => simp
  | cons a l ih =>
    simp only [List.map_cons, List.lookup_cons, List.mem_cons]
    by_cases h : j = a
    · subst h; simp
    · have : (j == a) = false := by simpa using h
      simp [this, ih, h]

end BronVerif.Session
