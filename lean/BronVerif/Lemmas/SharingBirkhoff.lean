import Mathlib.Analysis.Calculus.LocalExtr.Polynomial
import Mathlib.Analysis.Calculus.Deriv.Polynomial
import Mathlib.Algebra.Polynomial.Roots
import Mathlib.LinearAlgebra.Matrix.NonsingularInverse
import BronVerif.Lemmas.SharingPrivacy
import BronVerif.Lemmas.GaussJordanDet
/-!
# Around Tassa's Theorem 3 (helper lemmas for C02)

* `accepts_of_det_ne_zero`: an MSP accepts a set whose rows form a square matrix with non-zero
  determinant (the model's own `LinAlg.det`, i.e. `Matrix.det` by `det_eq_matrix_det`);
* `two_level_unisolvent`: over ℝ, for two levels with every first-level node below every second-level
  node, the Birkhoff interpolation problem has only the zero solution (iterated Rolle) — the real
  (characteristic-0) half of Tassa's argument for two levels; the passage to `F_q` (the determinant is
  an integer of absolute value `< q`) is the part of Theorem 3 that stays a named gap.
-/
namespace BronVerif.Lemmas.SharingBirkhoff
open BronVerif.LinAlg BronVerif.Access BronVerif.Lemmas.SharingAccepts

section Det
open Matrix
variable {F : Type} [Field F] [DecidableEq F]

/-- a square, non-singular list matrix spans `e₀` -/
theorem spans_of_det_ne_zero (R : Mat F) (hdet : (toMat R.length R.length R).det ≠ 0) :
    SpansL R R.length := by
  by_contra hns
  have hnone : solveLeft R R.length (unitVec R.length 0) = none := by
    cases hsl : solveLeft R R.length (unitVec R.length 0) with
    | none => rfl
    | some x => exact absurd ((solveLeft_isSome_iff _ _).mp (by rw [hsl]; rfl)) hns
  have hr : (unitVec R.length 0 : List F).length = R.length := by simp [unitVec]
  have hno := BronVerif.Props.C20.solveLeft_complete_matrix R R.length _ hr hnone
  have hunit : IsUnit (toMat R.length R.length R).det := isUnit_iff_ne_zero.mpr hdet
  exact hno ⟨(toVec R.length (unitVec R.length 0 : List F)) ᵥ* (toMat R.length R.length R)⁻¹, by
    rw [vecMul_vecMul, Matrix.nonsing_inv_mul _ hunit, vecMul_one]⟩

/-- accepted, given a non-zero determinant (computed by the model's `det`) of the square matrix of
the rows of the set -/
theorem accepts_of_det_ne_zero (m : MSP F) (S : List ℕ) (hS : ∀ id ∈ S, id ∈ m.holders)
    (hpos : 0 < m.cols) (hsq : (m.sub S).length = m.cols)
    (hw : ∀ row ∈ m.sub S, row.length = m.cols) (hdet : LinAlg.det (m.sub S) ≠ 0) :
    m.accepts S = true := by
  rw [accepts_iff' m S hS hpos, ← hsq]
  refine spans_of_det_ne_zero (m.sub S) ?_
  have := det_eq_matrix_det (m.sub S) (fun r hr => (hw r hr).trans hsq.symm)
  rw [this] at hdet
  exact hdet

end Det

section Rolle
open Polynomial

/-- Rolle, counted: between the roots in `S` there are at least `|S| - 1` distinct roots of the
derivative, each strictly below some member of `S` -/
theorem rolle_count (p : ℝ[X]) (S : Finset ℝ) (hS : ∀ x ∈ S, p.eval x = 0) :
    ∃ T : Finset ℝ, S.card ≤ T.card + 1 ∧ (∀ z ∈ T, p.derivative.eval z = 0) ∧
      (∀ z ∈ T, ∃ b ∈ S, z < b) := by
  classical
  induction S using Finset.induction_on_max with
  | empty => exact ⟨∅, by simp, by simp, by simp⟩
  | insert m S hm ih =>
    obtain ⟨T, hcard, hroots, hloc⟩ := ih (fun x hx => hS x (Finset.mem_insert_of_mem hx))
    by_cases hne : S.Nonempty
    · set m' := S.max' hne with hm'
      have hm'S : m' ∈ S := Finset.max'_mem S hne
      have hlt : m' < m := hm m' hm'S
      obtain ⟨z, hz, hdz⟩ := exists_deriv_eq_zero (f := fun x => p.eval x) hlt
        p.continuous.continuousOn (by rw [hS m' (Finset.mem_insert_of_mem hm'S), hS m (Finset.mem_insert_self _ _)])
      rw [Polynomial.deriv] at hdz
      have hzT : z ∉ T := by
        intro hzT
        obtain ⟨b, hb, hzb⟩ := hloc z hzT
        have : b ≤ m' := Finset.le_max' S b hb
        have := hz.1
        linarith
      refine ⟨insert z T, ?_, ?_, ?_⟩
      · rw [Finset.card_insert_of_notMem hzT, Finset.card_insert_of_notMem (fun h => (lt_irrefl m) (hm m h))]
        omega
      · intro w hw
        rcases Finset.mem_insert.mp hw with rfl | hw
        · exact hdz
        · exact hroots w hw
      · intro w hw
        rcases Finset.mem_insert.mp hw with rfl | hw
        · exact ⟨m, Finset.mem_insert_self _ _, hz.2⟩
        · obtain ⟨b, hb, hwb⟩ := hloc w hw
          exact ⟨b, Finset.mem_insert_of_mem hb, hwb⟩
    · have : S = ∅ := Finset.not_nonempty_iff_eq_empty.mp hne
      subst this
      exact ⟨∅, by simp, by simp, by simp⟩

/-- iterated: `s` derivatives keep at least `|S| - s` distinct roots, all at most some member of `S` -/
theorem rolle_iterate (p : ℝ[X]) (S : Finset ℝ) (hS : ∀ x ∈ S, p.eval x = 0) (s : ℕ) :
    ∃ T : Finset ℝ, S.card ≤ T.card + s ∧ (∀ z ∈ T, (derivative^[s] p).eval z = 0) ∧
      (∀ z ∈ T, ∃ b ∈ S, z ≤ b) := by
  induction s with
  | zero => exact ⟨S, by simp, by simpa using hS, fun z hz => ⟨z, hz, le_refl z⟩⟩
  | succ s ih =>
    obtain ⟨T, hcard, hroots, hloc⟩ := ih
    obtain ⟨T', hcard', hroots', hloc'⟩ := rolle_count (derivative^[s] p) T hroots
    refine ⟨T', by omega, ?_, ?_⟩
    · intro z hz
      rw [Function.iterate_succ_apply']
      exact hroots' z hz
    · intro z hz
      obtain ⟨b, hb, hzb⟩ := hloc' z hz
      obtain ⟨c, hc, hbc⟩ := hloc b hb
      exact ⟨c, hc, le_trans (le_of_lt hzb) hbc⟩

theorem natDegree_lt_of_iterate_derivative_eq_zero (p : ℝ[X]) (s : ℕ) (h : derivative^[s] p = 0) :
    p = 0 ∨ p.natDegree < s := by
  induction s generalizing p with
  | zero => left; simpa using h
  | succ s ih =>
    rw [Function.iterate_succ_apply] at h
    rcases ih (derivative p) h with h0 | hlt
    · right
      have := (Polynomial.derivative_eq_zero).mp h0
      omega
    · right
      have := Polynomial.natDegree_derivative p
      omega

/-- **Two levels, ordered nodes: the Birkhoff problem is unisolvent over ℝ.** -/
theorem two_level_unisolvent (xs ys : Finset ℝ) (t₀ : ℕ) (ht : t₀ ≤ xs.card)
    (hord : ∀ x ∈ xs, ∀ y ∈ ys, x < y) (f : ℝ[X]) (hdeg : f.natDegree < xs.card + ys.card)
    (hx : ∀ x ∈ xs, f.eval x = 0) (hy : ∀ y ∈ ys, (derivative^[t₀] f).eval y = 0) : f = 0 := by
  classical
  by_cases hsmall : f.natDegree < t₀
  · exact Polynomial.eq_zero_of_natDegree_lt_card_of_eval_eq_zero' f xs hx (by omega)
  obtain ⟨T, hcard, hroots, hloc⟩ := rolle_iterate f xs hx t₀
  have hdisj : Disjoint T ys := by
    rw [Finset.disjoint_left]
    intro z hzT hzy
    obtain ⟨b, hb, hzb⟩ := hloc z hzT
    have := hord b hb z hzy
    linarith
  have hg : derivative^[t₀] f = 0 := by
    refine Polynomial.eq_zero_of_natDegree_lt_card_of_eval_eq_zero' _ (T ∪ ys) ?_ ?_
    · intro z hz
      rcases Finset.mem_union.mp hz with h | h
      · exact hroots z h
      · exact hy z h
    · rw [Finset.card_union_of_disjoint hdisj]
      have := Polynomial.natDegree_iterate_derivative f t₀
      omega
  rcases natDegree_lt_of_iterate_derivative_eq_zero f t₀ hg with h0 | hlt
  · exact h0
  · exact Polynomial.eq_zero_of_natDegree_lt_card_of_eval_eq_zero' f xs hx (by omega)

end Rolle

end BronVerif.Lemmas.SharingBirkhoff
