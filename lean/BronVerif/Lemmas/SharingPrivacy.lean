import Mathlib.LinearAlgebra.Basis.VectorSpace
import Mathlib.LinearAlgebra.Pi
import Mathlib.LinearAlgebra.StdBasis
import Mathlib.LinearAlgebra.Span.Basic
import Mathlib.LinearAlgebra.Finsupp.LinearCombination
import BronVerif.Lemmas.SharingDeal
/-!
# Privacy on the executable model (helper lemmas for C02)

`kernel_of_rejected`: if the mirrored solver finds no combination of the rows `R` equal to `e₀`,
there is a column `k` (as a list) with `k₀ = 1` that every row of `R` annihilates.  The step from
"no combination" to "a separating functional" is Mathlib's `Submodule.exists_le_ker_of_notMem`;
the rest is the list ↔ `Matrix` dictionary of `Lemmas/GaussJordanMatrix.lean`.
-/
namespace BronVerif.Lemmas.SharingPrivacy
open BronVerif.LinAlg BronVerif.Access BronVerif.Sharing BronVerif.Lemmas.SharingAccepts
open BronVerif.Lemmas.SharingDeal Matrix

variable {F : Type} [Field F] [DecidableEq F]

/-- no left-combination of the rows gives `e₀` ⇒ a kernel column with first entry 1 -/
theorem kernel_of_not_exists {n d : ℕ} (hd : 0 < d) (M : Matrix (Fin n) (Fin d) F)
    (h : ¬ ∃ v : Fin n → F, v ᵥ* M = Pi.single ⟨0, hd⟩ 1) :
    ∃ k : Fin d → F, k ⟨0, hd⟩ = 1 ∧ ∀ i, (M *ᵥ k) i = 0 := by
  have hnot : (Pi.single ⟨0, hd⟩ 1 : Fin d → F) ∉ Submodule.span F (Set.range fun i : Fin n => M i) := by
    intro hmem
    obtain ⟨c, hc⟩ := (Submodule.mem_span_range_iff_exists_fun F).mp hmem
    refine h ⟨c, ?_⟩
    rw [← hc]
    ext j
    simp [Matrix.vecMul, dotProduct, Finset.sum_apply]
  obtain ⟨f, hfz, hker⟩ := Submodule.exists_le_ker_of_notMem hnot
  let k0 : Fin d → F := fun j => f (fun j' => if j = j' then 1 else 0)
  have hf : ∀ v : Fin d → F, f v = v ⬝ᵥ k0 := fun v => by
    rw [LinearMap.pi_apply_eq_sum_univ f v]; simp [dotProduct, k0]
  have hz : k0 ⟨0, hd⟩ = f (Pi.single ⟨0, hd⟩ 1) := by
    simp only [k0]; congr 1; ext j; simp [Pi.single_apply, eq_comm]
  refine ⟨(k0 ⟨0, hd⟩)⁻¹ • k0, ?_, ?_⟩
  · simp only [Pi.smul_apply, smul_eq_mul, hz]; exact inv_mul_cancel₀ hfz
  · intro i
    have hmem : M i ∈ Submodule.span F (Set.range fun i : Fin n => M i) :=
      Submodule.subset_span ⟨i, rfl⟩
    have h0 : f (M i) = 0 := hker hmem
    rw [hf] at h0
    simp only [mulVec_smul, Pi.smul_apply, smul_eq_mul]
    show _ * (M i ⬝ᵥ k0) = 0
    rw [h0, mul_zero]

/-- list form: the solver fails on rows `R` (all of width `d`) ⇒ a list `k` of length `d` with
`k₀ = 1` and `⟨row, k⟩ = 0` for every row -/
theorem kernel_of_solveLeft_none (R : Mat F) (d : ℕ) (hd : 0 < d)
    (h : solveLeft R d (unitVec d 0) = none) :
    ∃ k : List F, k.length = d ∧ k.getD 0 0 = 1 ∧ ∀ row ∈ R, dot row k = 0 := by
  have hr : (unitVec d 0 : List F).length = d := by simp [unitVec]
  have hno := Props.C20.solveLeft_complete_matrix R d _ hr h
  have htgt : toVec d (unitVec d 0 : List F) = Pi.single ⟨0, hd⟩ 1 := by
    funext j
    simp only [toVec, unitVec, List.getD_eq_getElem?_getD, List.getElem?_map, List.getElem?_range j.2,
      Option.map_some, Option.getD_some, Pi.single_apply]
    by_cases hj : (j : ℕ) = 0
    · have : j = ⟨0, hd⟩ := Fin.ext hj
      simp [this]
    · have : j ≠ ⟨0, hd⟩ := fun h' => hj (by rw [h'])
      simp [hj, this]
  rw [htgt] at hno
  obtain ⟨k, hk0, hker⟩ := kernel_of_not_exists hd (toMat R.length d R) hno
  refine ⟨List.ofFn k, by simp, ?_, ?_⟩
  · simpa [List.getD_eq_getElem?_getD, hd] using hk0
  · intro row hrow
    obtain ⟨i, hi, rfl⟩ := exists_getD_of_mem R [] row hrow
    have := hker ⟨i, hi⟩
    rw [← toVec_ofFn d k, toMat_mulVec R d (List.ofFn k) (by simp) ⟨i, hi⟩] at this
    exact this

end BronVerif.Lemmas.SharingPrivacy
