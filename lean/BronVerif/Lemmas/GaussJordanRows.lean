import Mathlib.Algebra.BigOperators.Group.Finset.Basic
import Mathlib.Algebra.BigOperators.Ring.Finset
import Mathlib.Algebra.BigOperators.Group.List.Basic
import Mathlib.Algebra.Field.Basic
import Mathlib.Tactic.Ring
import BronVerif.Model.LinAlg
/-!
# Row-level lemmas for the Gauss–Jordan proof

Rows are `List F`; a row `r` of an augmented system with `n` variables is read as the affine
functional `ev n x r = Σ_{c<n} r[c]·x[c] − r[n]` (all accesses through `getD … 0`).  The elementary
row operations of the model (`scaleRow`, `elimRow`, `swapRows`, `pivotStep`) are characterised
entry-wise and in terms of `ev`.
-/
namespace BronVerif.LinAlg
open Finset

variable {F : Type} [Field F]

/-! ## entries of the elementary operations -/

theorem getD_scaleRow (r : List F) (c : F) (j : ℕ) :
    (scaleRow r c).getD j 0 = r.getD j 0 * c := by
  simp only [scaleRow, List.getD_eq_getElem?_getD, List.getElem?_map]
  cases r[j]? <;> simp

theorem getD_elimRow (row prow : List F) (f : F) (h : row.length = prow.length) (j : ℕ) :
    (elimRow row prow f).getD j 0 = row.getD j 0 - f * prow.getD j 0 := by
  simp only [elimRow, List.getD_eq_getElem?_getD, List.getElem?_zipWith]
  by_cases hj : j < row.length
  · have hj' : j < prow.length := h ▸ hj
    simp [List.getElem?_eq_getElem hj, List.getElem?_eq_getElem hj']
  · have hj' : ¬ j < prow.length := h ▸ hj
    simp [List.getElem?_eq_none (Nat.le_of_not_lt hj), List.getElem?_eq_none (Nat.le_of_not_lt hj')]

theorem length_scaleRow (r : List F) (c : F) : (scaleRow r c).length = r.length := by
  simp [scaleRow]

theorem length_elimRow (row prow : List F) (f : F) (h : row.length = prow.length) :
    (elimRow row prow f).length = row.length := by
  simp [elimRow, h]

/-! ## `dot` as a finite sum -/

theorem dot_eq_list_sum (a b : List F) : dot a b = (List.zipWith (· * ·) a b).sum := by
  rw [dot, List.sum_eq_foldl]

theorem zipWith_sum_eq (a b : List F) (N : ℕ) (h : min a.length b.length ≤ N) :
    (List.zipWith (· * ·) a b).sum = ∑ i ∈ range N, a.getD i 0 * b.getD i 0 := by
  induction a generalizing b N with
  | nil => simp
  | cons x a ih =>
    cases b with
    | nil => simp
    | cons y b =>
      cases N with
      | zero => simp at h
      | succ N =>
        have h' : min a.length b.length ≤ N := by
          simp only [List.length_cons] at h; omega
        rw [Finset.sum_range_succ', List.zipWith_cons_cons, List.sum_cons, ih b N h']
        simp [add_comm]

theorem dot_eq_sum (a b : List F) (N : ℕ) (h : min a.length b.length ≤ N) :
    dot a b = ∑ i ∈ range N, a.getD i 0 * b.getD i 0 := by
  rw [dot_eq_list_sum, zipWith_sum_eq a b N h]

/-! ## a row as an affine functional -/

/-- `Σ_{c<n} r[c]·x[c] − r[n]`: zero iff `x` satisfies the equation encoded by the augmented row -/
def ev (n : ℕ) (x r : List F) : F := (∑ c ∈ range n, r.getD c 0 * x.getD c 0) - r.getD n 0

theorem ev_scaleRow (n : ℕ) (x r : List F) (c : F) : ev n x (scaleRow r c) = ev n x r * c := by
  simp only [ev, getD_scaleRow, sub_mul, Finset.sum_mul]
  congr 1
  exact Finset.sum_congr rfl fun i _ => by ring

theorem ev_elimRow (n : ℕ) (x row prow : List F) (f : F) (h : row.length = prow.length) :
    ev n x (elimRow row prow f) = ev n x row - f * ev n x prow := by
  simp only [ev, getD_elimRow row prow f h, mul_sub, Finset.mul_sum, sub_mul,
    Finset.sum_sub_distrib]
  have : ∀ i ∈ range n, f * prow.getD i 0 * x.getD i 0 = f * (prow.getD i 0 * x.getD i 0) :=
    fun i _ => by ring
  rw [Finset.sum_congr rfl this]
  ring

/-- the list form of "x satisfies the row" is `ev = 0` -/
theorem sat_iff_ev (n : ℕ) (x r : List F) (hx : x.length = n) :
    dot (r.take n) x = r.getD n 0 ↔ ev n x r = 0 := by
  rw [dot_eq_sum (r.take n) x n (by rw [hx]; exact Nat.min_le_right _ _), ev, sub_eq_zero]
  have : ∀ i ∈ range n, (r.take n).getD i 0 * x.getD i 0 = r.getD i 0 * x.getD i 0 := by
    intro i hi
    have hi' : i < n := Finset.mem_range.mp hi
    simp [List.getD_eq_getElem?_getD, hi']
  rw [Finset.sum_congr rfl this]

/-! ## swap and the pivot step -/

variable [DecidableEq F]

/-- the transposition of row indices performed by `swapRows` -/
def sw (k pr i : ℕ) : ℕ := if i = k then pr else if i = pr then k else i

theorem sw_lt {k pr i m : ℕ} (hk : k < m) (hpr : pr < m) (hi : i < m) : sw k pr i < m := by
  unfold sw; split_ifs <;> assumption

theorem sw_sw (k pr i : ℕ) : sw k pr (sw k pr i) = i := by
  unfold sw; split_ifs <;> simp_all

omit [Field F] [DecidableEq F] in
theorem length_swapRows {F : Type} (m : Mat F) (i j : ℕ) : (swapRows m i j).length = m.length := by
  simp [swapRows]


theorem getD_swapRows {F : Type} (m : Mat F) (k pr t : ℕ) (hk : k < m.length) (hpr : pr < m.length) :
    (swapRows m k pr).getD t [] = m.getD (sw k pr t) [] := by
  simp only [swapRows, sw, List.getD_eq_getElem?_getD, List.getElem?_set, List.length_set]
  by_cases h1 : pr = t
  · subst h1
    by_cases h2 : k = pr
    · subst h2; simp [hk]
    · have : ¬ pr = k := fun h => h2 h.symm
      simp [hpr, hk, this]
  · have h1' : ¬ t = pr := fun h => h1 h.symm
    by_cases h2 : k = t
    · subst h2; simp [h1, hk, hpr]
    · have h2' : ¬ t = k := fun h => h2 h.symm
      simp [h1, h2, h1', h2']
theorem getD_mem_of_lt {α : Type} (l : List α) (d : α) (i : ℕ) (h : i < l.length) : l.getD i d ∈ l := by
  simp [List.getD_eq_getElem?_getD, List.getElem?_eq_getElem h]

theorem exists_getD_of_mem {α : Type} (l : List α) (d : α) (a : α) (h : a ∈ l) :
    ∃ i, i < l.length ∧ l.getD i d = a := by
  obtain ⟨i, hi, rfl⟩ := List.mem_iff_getElem.mp h
  exact ⟨i, hi, by simp [List.getD_eq_getElem?_getD, List.getElem?_eq_getElem hi]⟩

theorem length_pivotStep (rows : Mat F) (k pr pc : ℕ) :
    (pivotStep rows k pr pc).length = rows.length := by
  simp [pivotStep, length_swapRows]

theorem getD_pivotStep (rows : Mat F) (k pr pc i : ℕ) (hk : k < rows.length)
    (hpr : pr < rows.length) (hi : i < rows.length) :
    (pivotStep rows k pr pc).getD i [] =
      if i = k then scaleRow (rows.getD pr []) (entry rows pr pc)⁻¹
      else
        if (rows.getD (sw k pr i) []).getD pc 0 = 0 then rows.getD (sw k pr i) []
        else elimRow (rows.getD (sw k pr i) []) (scaleRow (rows.getD pr []) (entry rows pr pc)⁻¹)
          ((rows.getD (sw k pr i) []).getD pc 0) := by
  have hk' : (swapRows rows k pr).getD k [] = rows.getD pr [] := by
    rw [getD_swapRows rows k pr k hk hpr]; simp [sw]
  have hi' : (swapRows rows k pr)[i]? = some (rows.getD (sw k pr i) []) := by
    rw [← getD_swapRows rows k pr i hk hpr]
    have : i < (swapRows rows k pr).length := by rw [length_swapRows]; exact hi
    simp [List.getD_eq_getElem?_getD, List.getElem?_eq_getElem this]
  unfold pivotStep
  simp only [hk']
  rw [List.getD_eq_getElem?_getD, List.getElem?_mapIdx, hi']
  simp only [Option.map_some, Option.getD_some, entry]

theorem width_pivotStep (rows : Mat F) (k pr pc w : ℕ) (hk : k < rows.length)
    (hpr : pr < rows.length) (hW : ∀ r ∈ rows, r.length = w) :
    ∀ r ∈ pivotStep rows k pr pc, r.length = w := by
  intro r hr
  obtain ⟨i, hi, rfl⟩ := exists_getD_of_mem _ [] r hr
  rw [length_pivotStep] at hi
  have hP : (rows.getD pr []).length = w := hW _ (getD_mem_of_lt rows [] pr hpr)
  have hR : (rows.getD (sw k pr i) []).length = w :=
    hW _ (getD_mem_of_lt rows [] _ (sw_lt hk hpr hi))
  rw [getD_pivotStep rows k pr pc i hk hpr hi]
  split_ifs
  · rw [length_scaleRow, hP]
  · exact hR
  · rw [length_elimRow _ _ _ (by rw [length_scaleRow, hP, hR]), hR]

theorem ev_pivotStep (n : ℕ) (x : List F) (rows : Mat F) (k pr pc i w : ℕ) (hk : k < rows.length)
    (hpr : pr < rows.length) (hi : i < rows.length) (hW : ∀ r ∈ rows, r.length = w) :
    ev n x ((pivotStep rows k pr pc).getD i []) =
      if i = k then ev n x (rows.getD pr []) * (entry rows pr pc)⁻¹
      else ev n x (rows.getD (sw k pr i) []) -
        entry rows (sw k pr i) pc * (ev n x (rows.getD pr []) * (entry rows pr pc)⁻¹) := by
  have hP : (rows.getD pr []).length = w := hW _ (getD_mem_of_lt rows [] pr hpr)
  have hR : (rows.getD (sw k pr i) []).length = w :=
    hW _ (getD_mem_of_lt rows [] _ (sw_lt hk hpr hi))
  rw [getD_pivotStep rows k pr pc i hk hpr hi]
  split_ifs with h1 h2
  · rw [ev_scaleRow]
  · unfold entry; rw [h2]; simp
  · rw [ev_elimRow _ _ _ _ _ (by rw [length_scaleRow, hP, hR]), ev_scaleRow]; rfl

theorem entry_pivotStep (rows : Mat F) (k pr pc i c w : ℕ) (hk : k < rows.length)
    (hpr : pr < rows.length) (hi : i < rows.length) (hW : ∀ r ∈ rows, r.length = w) :
    entry (pivotStep rows k pr pc) i c =
      if i = k then entry rows pr c * (entry rows pr pc)⁻¹
      else entry rows (sw k pr i) c -
        entry rows (sw k pr i) pc * (entry rows pr c * (entry rows pr pc)⁻¹) := by
  have hP : (rows.getD pr []).length = w := hW _ (getD_mem_of_lt rows [] pr hpr)
  have hR : (rows.getD (sw k pr i) []).length = w :=
    hW _ (getD_mem_of_lt rows [] _ (sw_lt hk hpr hi))
  rw [entry, getD_pivotStep rows k pr pc i hk hpr hi]
  split_ifs with h1 h2
  · rw [getD_scaleRow]; rfl
  · unfold entry; rw [h2]; simp
  · rw [getD_elimRow _ _ _ (by rw [length_scaleRow, hP, hR]), getD_scaleRow]; rfl

end BronVerif.LinAlg
